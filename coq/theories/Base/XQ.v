(** Rationals extended with +inf / -inf (only where a property is about infinite bounds). *)
From Coq Require Import QArith Bool.
Open Scope Q_scope.
Module XQ.
Inductive t := Fin (q : Q) | PInf | NInf.
Definition neg (x : t) : t := match x with Fin q => Fin (- q) | PInf => NInf | NInf => PInf end.
Definition ltb (a b : t) : bool :=
  match a, b with
  | NInf, NInf => false | NInf, _ => true
  | _, NInf => false
  | PInf, _ => false
  | Fin _, PInf => true
  | Fin x, Fin y => negb (Qle_bool y x)
  end.
Definition gtb (a b : t) : bool := ltb b a.
Definition leb (a b : t) : bool := negb (ltb b a).
Definition geb (a b : t) : bool := negb (ltb a b).
Definition eqb (a b : t) : bool :=
  match a, b with
  | Fin x, Fin y => Qeq_bool x y | PInf, PInf => true | NInf, NInf => true | _, _ => false
  end.
(** finite part (0 for the infinities) *)
Definition val (a : t) : Q := match a with Fin q => q | _ => 0 end.
End XQ.
