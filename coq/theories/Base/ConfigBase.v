(** Types shared by the generated configuration tables (Gen/GenConfig.v) and the
    configuration model (Model/Config.v). *)
From Coq Require Import ZArith List Bool String Ascii.
From IV Require Import XQ.
Import ListNotations.

Inductive debiaser :=
  | LinearScaling | DeltaChange | QuantileMapping | ScaledDistributionMapping
  | CDFt | ECDFM | QuantileDeltaMapping | ISIMIP.

Definition all_debiasers : list debiaser :=
  [LinearScaling; DeltaChange; QuantileMapping; ScaledDistributionMapping; CDFt; ECDFM; QuantileDeltaMapping; ISIMIP].

Definition debiaser_index (d : debiaser) : nat :=
  match d with
  | LinearScaling => 0 | DeltaChange => 1 | QuantileMapping => 2 | ScaledDistributionMapping => 3
  | CDFt => 4 | ECDFM => 5 | QuantileDeltaMapping => 6 | ISIMIP => 7
  end.

Inductive cell := Default | Experimental | Blank.

Inductive validator :=
  | V_instance_of (types : list string)
  | V_in (options : list string)
  | V_gt (bound : Z).

Record field := mkField {
  f_default : option string;        (* source text of the default, None = required *)
  f_validators : list validator;
  f_converter : option string
}.

(** ISIMIP per-variable settings (ibicus/debias/_isimip_options.py), general settings filled in *)
Record isimip_var := mkIsimipVar {
  iv_lower_bound : XQ.t; iv_lower_threshold : XQ.t; iv_upper_bound : XQ.t; iv_upper_threshold : XQ.t;
  iv_detrending : bool; iv_nonparametric_qm : bool; iv_bias_correct_frequencies : bool;
  iv_scale_by_annual_cycle : bool; iv_trend_preservation : string
}.
