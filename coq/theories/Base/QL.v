(** Rational lists: sums, means, extrema, and the scalar NumPy operations on reals that
    the translated code uses.  Executable definitions normalise with [Qred]. *)
From Coq Require Import QArith Qabs Qround ZArith List Bool Lia Lqa.
Import ListNotations.
Open Scope Q_scope.

Module QL.

Definition qsum (l : list Q) : Q := fold_right (fun x a => Qred (x + a)) 0 l.
Definition qlen (l : list Q) : Q := inject_Z (Z.of_nat (length l)).
Definition qmean (l : list Q) : Q := Qred (qsum l / qlen l).

Definition qmin2 (a b : Q) : Q := if Qle_bool a b then a else b.
Definition qmax2 (a b : Q) : Q := if Qle_bool a b then b else a.
Definition qmin (l : list Q) : Q := match l with [] => 0 | x :: r => fold_left qmin2 r x end.
Definition qmax (l : list Q) : Q := match l with [] => 0 | x :: r => fold_left qmax2 r x end.

(** [np.isclose(a, b)] with the default rtol = 1e-5, atol = 1e-8:
    |a - b| <= atol + rtol * |b|. *)
Definition isclose (a b : Q) : bool :=
  Qle_bool (Qabs (a - b)) ((1 # 100000000) + (1 # 100000) * Qabs b).

(** Python [round] on a real: nearest integer, ties to even. *)
Definition round_half_even (q : Q) : Z :=
  let f := Qfloor q in
  let r := q - inject_Z f in
  if Qle_bool r (1 # 2)
  then (if Qeq_bool r (1 # 2) then (if Z.even f then f else (f + 1)%Z) else f)
  else (f + 1)%Z.

Fixpoint zip2 (f : Q -> Q -> Q) (a b : list Q) : list Q :=
  match a, b with x :: a', y :: b' => f x y :: zip2 f a' b' | _, _ => [] end.

End QL.
