(** NumPy prelude, integer / index part.  Total functions on lists with the NumPy
    semantics the ibicus code relies on.  Part of the trusted base (NumPy itself is
    outside the repository); validated against NumPy by correspondence batch K0. *)
From Coq Require Import ZArith List Bool Lia.
Import ListNotations.
Open Scope Z_scope.

Module NP.

(** [np.min] / [np.max] of a non-empty integer array (0 on the empty array, which the
    real code rejects with ValueError: theorems carry [l <> []]). *)
Definition zmin (l : list Z) : Z :=
  match l with [] => 0 | x :: r => fold_left Z.min r x end.
Definition zmax (l : list Z) : Z :=
  match l with [] => 0 | x :: r => fold_left Z.max r x end.

(** [np.arange(a, b, s)] for a positive step: a, a+s, ... while < b. *)
Fixpoint arange_fuel (fuel : nat) (a s : Z) : list Z :=
  match fuel with O => [] | S f => a :: arange_fuel f (a + s) s end.
Definition arange (a b s : Z) : list Z :=
  if s <=? 0 then [] else arange_fuel (Z.to_nat ((b - a + s - 1) / s)) a s.
Definition arange1 (a b : Z) : list Z := arange a b 1.

(** [np.isin(x, test)] / [np.in1d] : elementwise membership mask. *)
Definition zmem (v : Z) (l : list Z) : bool := existsb (Z.eqb v) l.
Definition isin (x test : list Z) : list bool := map (fun v => zmem v test) x.

(** [np.where(mask)[0]] : increasing indices of the true cells. *)
Fixpoint where_from (i : Z) (m : list bool) : list Z :=
  match m with
  | [] => []
  | b :: r => if b then i :: where_from (i + 1) r else where_from (i + 1) r
  end.
Definition where_idx (m : list bool) : list Z := where_from 0 m.

Definition logical_and (a b : list bool) : list bool :=
  map (fun p => andb (fst p) (snd p)) (combine a b).

(** [np.mod(x, m)] elementwise, m > 0 (Python floor modulus = Z.modulo). *)
Definition zmod_list (x : list Z) (m : Z) : list Z := map (fun v => v mod m) x.

(** [x[x == a] = b]. *)
Definition replace_eq (x : list Z) (a b : Z) : list Z :=
  map (fun v => if v =? a then b else v) x.

(** ibicus [get_mask_for_unique_subarray]: true exactly at the first occurrence of each
    value ([np.unique(return_index=True)] returns first occurrences). *)
Fixpoint mask_first_aux (seen : list Z) (x : list Z) : list bool :=
  match x with
  | [] => []
  | v :: r => negb (zmem v seen) :: mask_first_aux (v :: seen) r
  end.
Definition mask_first_occurrence (x : list Z) : list bool := mask_first_aux [] x.

(** Boolean-mask selection [x[mask]]. *)
Fixpoint select {A} (x : list A) (m : list bool) : list A :=
  match x, m with
  | v :: r, b :: mr => if b then v :: select r mr else select r mr
  | _, _ => []
  end.

(** Index-array gather [x[idx]] (indices assumed in range; out-of-range dropped —
    NumPy raises IndexError: theorems carry the range hypothesis). *)
Definition take {A} (x : list A) (idx : list Z) : list A :=
  flat_map (fun i => match nth_error x (Z.to_nat i) with
                     | Some v => if 0 <=? i then [v] else []
                     | None => [] end) idx.

(** [np.unique] on integers: sorted distinct values (insertion into a sorted list). *)
Fixpoint zinsert (v : Z) (l : list Z) : list Z :=
  match l with
  | [] => [v]
  | x :: r => if v <? x then v :: l else if v =? x then l else x :: zinsert v r
  end.
Definition unique (l : list Z) : list Z := fold_right zinsert [] l.

(** Python [round] / [np.round] of n/2 for an integer n: round half to even. *)
Definition round_half (n : Z) : Z :=
  let q := n / 2 in
  if n mod 2 =? 0 then q else if q mod 2 =? 0 then q else q + 1.

Definition zcount (m : list bool) : Z := Z.of_nat (length (filter (fun b => b) m)).

(** Python slice-bound normalisation for a list of length n: negative bounds count from the
    end, everything is clamped to [0, n]. *)
Definition norm_bound (n i : Z) : Z :=
  let j := if i <? 0 then i + n else i in Z.max 0 (Z.min n j).

(** [m[a:b] = v] on a 1-d array (a, b arbitrary integers, Python semantics). *)
Fixpoint set_range_from {A} (i lo hi : Z) (m : list A) (v : A) : list A :=
  match m with
  | [] => []
  | x :: r => (if (lo <=? i) && (i <? hi) then v else x) :: set_range_from (i + 1) lo hi r v
  end.
Definition set_slice {A} (m : list A) (a b : Z) (v : A) : list A :=
  let n := Z.of_nat (length m) in
  set_range_from 0 (norm_bound n a) (norm_bound n b) m v.

End NP.
