(** Facts about the integer NumPy prelude. *)
From Coq Require Import ZArith List Bool Lia ZifyBool Sorted Permutation.
From IV Require Import NP.
Import ListNotations.
Open Scope Z_scope.
Ltac Zify.zify_post_hook ::= Z.to_euclidean_division_equations.

(* ---------- arange ---------- *)
Lemma arange_fuel_in n : forall a s x, 0 < s ->
  In x (NP.arange_fuel n a s) <-> exists k, 0 <= k < Z.of_nat n /\ x = a + k * s.
Proof.
  induction n as [|n IH]; intros a s x Hs; cbn [NP.arange_fuel In].
  - split; [tauto|]. intros (k & Hk & _). lia.
  - rewrite (IH (a + s) s x Hs). split.
    + intros [E | (k & Hk & E)].
      * exists 0. lia.
      * exists (k + 1). lia.
    + intros (k & Hk & E). destruct (Z.eq_dec k 0) as [K0|K0].
      * left. subst k. lia.
      * right. exists (k - 1). lia.
Qed.

Lemma arange_count a b s k : 0 < s -> 0 <= k ->
  (k < (b - a + s - 1) / s <-> a + k * s < b).
Proof.
  intros Hs Hk. split; intro H; nia.
Qed.

Lemma in_arange a b s x : 0 < s ->
  In x (NP.arange a b s) <-> exists k, 0 <= k /\ x = a + k * s /\ x < b.
Proof.
  intro Hs. unfold NP.arange. destruct (s <=? 0) eqn:E; [lia|].
  rewrite arange_fuel_in by exact Hs. split.
  - intros (k & [Hk0 Hk] & Ex). exists k. split; [exact Hk0|]. split; [exact Ex|].
    subst x. apply (arange_count a b s k Hs Hk0). lia.
  - intros (k & Hk0 & Ex & Hb). exists k. split; [|exact Ex].
    subst x. apply (arange_count a b s k Hs Hk0) in Hb. lia.
Qed.

Lemma in_arange1 a b x : In x (NP.arange a b 1) <-> a <= x < b.
Proof.
  rewrite in_arange by lia. split.
  - intros (k & Hk & E & Hb). lia.
  - intros H. exists (x - a). lia.
Qed.

Lemma arange_fuel_nodup n : forall a s, 0 < s -> NoDup (NP.arange_fuel n a s).
Proof.
  induction n as [|n IH]; intros a s Hs; cbn [NP.arange_fuel]; constructor.
  - rewrite arange_fuel_in by exact Hs. intros (k & Hk & E). nia.
  - apply IH; exact Hs.
Qed.

Lemma arange_nodup a b s : NoDup (NP.arange a b s).
Proof.
  unfold NP.arange. destruct (s <=? 0) eqn:E; [constructor|]. apply arange_fuel_nodup. lia.
Qed.

(* ---------- min / max ---------- *)
Lemma fold_min_spec l : forall x0, (forall y, In y (x0 :: l) -> fold_left Z.min l x0 <= y) /\ In (fold_left Z.min l x0) (x0 :: l).
Proof.
  induction l as [|a l IH]; intro x0; cbn [fold_left].
  - split; [intros y [E|[]]; lia | left; reflexivity].
  - destruct (IH (Z.min x0 a)) as [H1 H2]. split.
    + intros y [E|[E|Hy]].
      * specialize (H1 (Z.min x0 a) (or_introl eq_refl)). lia.
      * specialize (H1 (Z.min x0 a) (or_introl eq_refl)). lia.
      * apply H1. right. exact Hy.
    + destruct H2 as [E|H2].
      * rewrite <- E. destruct (Z.min_spec x0 a) as [[_ M]|[_ M]]; rewrite M; [left|right; left]; reflexivity.
      * right. right. exact H2.
Qed.

Lemma fold_max_spec l : forall x0, (forall y, In y (x0 :: l) -> y <= fold_left Z.max l x0) /\ In (fold_left Z.max l x0) (x0 :: l).
Proof.
  induction l as [|a l IH]; intro x0; cbn [fold_left].
  - split; [intros y [E|[]]; lia | left; reflexivity].
  - destruct (IH (Z.max x0 a)) as [H1 H2]. split.
    + intros y [E|[E|Hy]].
      * specialize (H1 (Z.max x0 a) (or_introl eq_refl)). lia.
      * specialize (H1 (Z.max x0 a) (or_introl eq_refl)). lia.
      * apply H1. right. exact Hy.
    + destruct H2 as [E|H2].
      * rewrite <- E. destruct (Z.max_spec x0 a) as [[_ M]|[_ M]]; rewrite M; [right; left|left]; reflexivity.
      * right. right. exact H2.
Qed.

Lemma zmin_le l y : In y l -> NP.zmin l <= y.
Proof. destruct l as [|x l]; [intros []|]. intro H. apply (proj1 (fold_min_spec l x)). exact H. Qed.
Lemma zmin_in l : l <> [] -> In (NP.zmin l) l.
Proof. destruct l as [|x l]; [congruence|]. intros _. apply (proj2 (fold_min_spec l x)). Qed.
Lemma zmax_ge l y : In y l -> y <= NP.zmax l.
Proof. destruct l as [|x l]; [intros []|]. intro H. apply (proj1 (fold_max_spec l x)). exact H. Qed.
Lemma zmax_in l : l <> [] -> In (NP.zmax l) l.
Proof. destruct l as [|x l]; [congruence|]. intros _. apply (proj2 (fold_max_spec l x)). Qed.

(* ---------- membership, isin, where ---------- *)
Lemma zmem_spec v l : NP.zmem v l = true <-> In v l.
Proof.
  unfold NP.zmem. rewrite existsb_exists. split.
  - intros (x & Hx & E). apply Z.eqb_eq in E. subst. exact Hx.
  - intro H. exists v. split; [exact H|apply Z.eqb_refl].
Qed.

Definition nthZ {A} (l : list A) (i : Z) (d : A) : A := nth (Z.to_nat i) l d.

Lemma where_from_spec m : forall s i,
  In i (NP.where_from s m) <-> s <= i < s + Z.of_nat (length m) /\ nth (Z.to_nat (i - s)) m false = true.
Proof.
  induction m as [|b m IH]; intros s i; cbn [NP.where_from length].
  - split; [intros []|]. intros [H _]. lia.
  - assert (Hcase : In i (NP.where_from (s + 1) m) <->
              s + 1 <= i < s + 1 + Z.of_nat (length m) /\ nth (Z.to_nat (i - (s + 1))) m false = true) by apply IH.
    destruct (Z.eq_dec i s) as [E|NE].
    + subst i. replace (Z.to_nat (s - s)) with 0%nat by lia. cbn [nth].
      destruct b; cbn [In]; split.
      * intros _. split; [lia|reflexivity].
      * intros _. left. reflexivity.
      * intro H. apply Hcase in H. lia.
      * intros [_ H]. discriminate.
    + assert (Hn : Z.to_nat (i - s) = S (Z.to_nat (i - (s + 1))) \/ i < s) by lia.
      destruct b; cbn [In]; rewrite Hcase; split.
      * intros [E|[H1 H2]]; [congruence|]. split; [lia|]. destruct Hn as [Hn|Hn]; [|lia]. rewrite Hn. exact H2.
      * intros [H1 H2]. right. destruct Hn as [Hn|Hn]; [|lia]. rewrite Hn in H2. cbn [nth] in H2. split; [lia|exact H2].
      * intros [H1 H2]. split; [lia|]. destruct Hn as [Hn|Hn]; [|lia]. rewrite Hn. exact H2.
      * intros [H1 H2]. destruct Hn as [Hn|Hn]; [|lia]. rewrite Hn in H2. cbn [nth] in H2. split; [lia|exact H2].
Qed.

Lemma where_idx_spec m i :
  In i (NP.where_idx m) <-> 0 <= i < Z.of_nat (length m) /\ nth (Z.to_nat i) m false = true.
Proof.
  unfold NP.where_idx. rewrite where_from_spec. replace (i - 0) with i by lia. split; intros [H1 H2]; (split; [lia|exact H2]).
Qed.

Lemma where_from_sorted m : forall s, StronglySorted Z.lt (NP.where_from s m).
Proof.
  induction m as [|b m IH]; intro s; cbn [NP.where_from]; [constructor|].
  destruct b; [|apply IH]. constructor; [apply IH|].
  apply Forall_forall. intros x Hx. apply where_from_spec in Hx. lia.
Qed.

Lemma where_idx_sorted m : StronglySorted Z.lt (NP.where_idx m).
Proof. apply where_from_sorted. Qed.

Lemma sorted_lt_nodup l : StronglySorted Z.lt l -> NoDup l.
Proof.
  induction 1 as [|a l Hs IH Hf]; constructor; [|exact IH].
  intro Hin. rewrite Forall_forall in Hf. specialize (Hf a Hin). lia.
Qed.

Lemma nth_isin x test i : (i < length x)%nat ->
  nth i (NP.isin x test) false = NP.zmem (nth i x 0) test.
Proof.
  intro H. unfold NP.isin. rewrite (nth_indep _ false (NP.zmem 0 test)) by (rewrite map_length; exact H).
  apply (map_nth (fun v => NP.zmem v test)).
Qed.

(** indices selected by [np.where(np.isin(x, test))[0]] *)
Lemma where_isin_spec x test i :
  In i (NP.where_idx (NP.isin x test)) <-> 0 <= i < Z.of_nat (length x) /\ In (nth (Z.to_nat i) x 0) test.
Proof.
  rewrite where_idx_spec. unfold NP.isin at 1. rewrite map_length. split; intros [H1 H2]; (split; [exact H1|]).
  - rewrite nth_isin in H2 by lia. apply zmem_spec. exact H2.
  - rewrite nth_isin by lia. apply zmem_spec. exact H2.
Qed.

(* ---------- counting a unique witness in a duplicate-free list ---------- *)
Lemma filter_unique_length {A} (P : A -> bool) (l : list A) (c : A) :
  NoDup l -> In c l -> P c = true -> (forall c', In c' l -> P c' = true -> c' = c) ->
  length (filter P l) = 1%nat.
Proof.
  induction l as [|a l IH]; intros Hnd Hin Hc Hu; [destruct Hin|].
  inversion Hnd as [|? ? Hna Hnd']; subst. cbn [filter].
  destruct Hin as [E|Hin].
  - subst a. rewrite Hc. cbn [length]. f_equal.
    assert (Hnone : forall l', (forall x, In x l' -> In x l) -> filter P l' = []).
    { induction l' as [|b l' IH']; intro Hsub; [reflexivity|]. cbn [filter].
      destruct (P b) eqn:Pb.
      - exfalso. assert (b = c) by (apply Hu; [right; apply Hsub; left; reflexivity|exact Pb]). subst b.
        apply Hna. apply Hsub. left. reflexivity.
      - apply IH'. intros x Hx. apply Hsub. right. exact Hx. }
    rewrite (Hnone l (fun x H => H)). reflexivity.
  - destruct (P a) eqn:Pa.
    + exfalso. assert (a = c) by (apply Hu; [left; reflexivity|exact Pa]). subst a. contradiction.
    + apply IH; try assumption. intros c' Hc' Pc'. apply Hu; [right; exact Hc'|exact Pc'].
Qed.
