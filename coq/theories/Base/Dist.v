(** Distributions as a PARAMETER of the models (never an axiom): fit / cdf / ppf over an abstract
    parameter type.  Hypotheses about a family (location-scale, monotone, ...) are stated where used
    and shown satisfiable by the computable rational family of Model/RatLS.v. *)
From Coq Require Import QArith List.
Record dist (P : Type) := mkDist {
  fit : list Q -> P;
  cdf : P -> Q -> Q;
  ppf : P -> Q -> Q
}.
Arguments fit {P}. Arguments cdf {P}. Arguments ppf {P}. Arguments mkDist {P}.
