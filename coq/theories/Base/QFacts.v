(** Facts about rational lists, sorting and order statistics. *)
From Coq Require Import QArith Qabs Qround ZArith List Bool Lia Lqa Sorted Permutation Morphisms.
From IV Require Import QL Ecdf.
Import ListNotations.
Open Scope Q_scope.

Lemma Qle_bool_true a b : Qle_bool a b = true <-> a <= b.
Proof. apply Qle_bool_iff. Qed.
Lemma Qle_bool_false a b : Qle_bool a b = false <-> b < a.
Proof.
  split; intro H.
  - destruct (Qlt_le_dec b a) as [L|L]; [exact L|]. apply Qle_bool_iff in L. congruence.
  - destruct (Qle_bool a b) eqn:E; [|reflexivity]. apply Qle_bool_iff in E. lra.
Qed.
Lemma Qlt_bool_true a b : Qlt_bool a b = true <-> a < b.
Proof. unfold Qlt_bool. rewrite negb_true_iff. apply Qle_bool_false. Qed.
Lemma Qlt_bool_false a b : Qlt_bool a b = false <-> b <= a.
Proof. unfold Qlt_bool. rewrite negb_false_iff. apply Qle_bool_true. Qed.

Ltac qb :=
  repeat match goal with
  | H : Qle_bool _ _ = true |- _ => apply Qle_bool_true in H
  | H : Qle_bool _ _ = false |- _ => apply Qle_bool_false in H
  | H : Qlt_bool _ _ = true |- _ => apply Qlt_bool_true in H
  | H : Qlt_bool _ _ = false |- _ => apply Qlt_bool_false in H
  end.

(* ---------- sorting ---------- *)
Definition sortedQ (l : list Q) : Prop := StronglySorted Qle l.

Lemma qsort_sorted l : sortedQ (qsort l).
Proof.
  unfold sortedQ, qsort.
  assert (T : Transitive (fun x y => is_true (QOrder.leb x y))).
  { intros a b c H1 H2. unfold is_true, QOrder.leb in *. qb. apply Qle_bool_true. lra. }
  pose proof (QSort.StronglySorted_sort l T) as H.
  induction H as [|a s Hs IH Hf]; constructor; [exact IH|].
  rewrite Forall_forall in *. intros x Hx. specialize (Hf x Hx). unfold is_true, QOrder.leb in Hf. qb. exact Hf.
Qed.

Lemma qsort_perm l : Permutation l (qsort l).
Proof. apply QSort.Permuted_sort. Qed.

Lemma qsort_length l : length (qsort l) = length l.
Proof. symmetry. apply Permutation_length. apply qsort_perm. Qed.

Lemma qsort_in l x : In x (qsort l) <-> In x l.
Proof. split; intro H; [apply (Permutation_in _ (Permutation_sym (qsort_perm l)))|apply (Permutation_in _ (qsort_perm l))]; exact H. Qed.

Lemma sorted_nth_le s : sortedQ s -> forall i j, (i <= j < length s)%nat -> nth i s 0 <= nth j s 0.
Proof.
  induction 1 as [|a s Hs IH Hf]; intros i j Hij; [cbn in Hij; lia|].
  destruct i as [|i]; destruct j as [|j]; cbn [nth]; try lra.
  - rewrite Forall_forall in Hf. apply Hf. apply nth_In. cbn in Hij. lia.
  - lia.
  - apply IH. cbn in Hij. lia.
Qed.

Lemma nthq_mono s i j : sortedQ s -> (0 <= i <= j)%Z -> (j < zlen s)%Z -> nthq s i <= nthq s j.
Proof. intros Hs Hij Hj. unfold nthq, zlen in *. apply sorted_nth_le; [exact Hs|lia]. Qed.

(* ---------- extrema ---------- *)
Lemma fold_qmin_spec l : forall x0, (forall y, In y (x0 :: l) -> fold_left QL.qmin2 l x0 <= y) /\ In (fold_left QL.qmin2 l x0) (x0 :: l).
Proof.
  induction l as [|a l IH]; intro x0; cbn [fold_left].
  - split; [intros y [E|[]]; subst; lra | left; reflexivity].
  - destruct (IH (QL.qmin2 x0 a)) as [H1 H2].
    assert (M : QL.qmin2 x0 a <= x0 /\ QL.qmin2 x0 a <= a /\ (QL.qmin2 x0 a = x0 \/ QL.qmin2 x0 a = a)).
    { unfold QL.qmin2. destruct (Qle_bool x0 a) eqn:E; qb; repeat split; try lra; auto. }
    destruct M as (M1 & M2 & M3). split.
    + intros y [E|[E|Hy]].
      * subst. specialize (H1 _ (or_introl eq_refl)). lra.
      * subst. specialize (H1 _ (or_introl eq_refl)). lra.
      * apply H1. right. exact Hy.
    + destruct H2 as [E|H2].
      * rewrite <- E. destruct M3 as [M3|M3]; rewrite M3; [left|right; left]; reflexivity.
      * right. right. exact H2.
Qed.

Lemma fold_qmax_spec l : forall x0, (forall y, In y (x0 :: l) -> y <= fold_left QL.qmax2 l x0) /\ In (fold_left QL.qmax2 l x0) (x0 :: l).
Proof.
  induction l as [|a l IH]; intro x0; cbn [fold_left].
  - split; [intros y [E|[]]; subst; lra | left; reflexivity].
  - destruct (IH (QL.qmax2 x0 a)) as [H1 H2].
    assert (M : x0 <= QL.qmax2 x0 a /\ a <= QL.qmax2 x0 a /\ (QL.qmax2 x0 a = x0 \/ QL.qmax2 x0 a = a)).
    { unfold QL.qmax2. destruct (Qle_bool x0 a) eqn:E; qb; repeat split; try lra; auto. }
    destruct M as (M1 & M2 & M3). split.
    + intros y [E|[E|Hy]].
      * subst. specialize (H1 _ (or_introl eq_refl)). lra.
      * subst. specialize (H1 _ (or_introl eq_refl)). lra.
      * apply H1. right. exact Hy.
    + destruct H2 as [E|H2].
      * rewrite <- E. destruct M3 as [M3|M3]; rewrite M3; [left|right; left]; reflexivity.
      * right. right. exact H2.
Qed.

Lemma qmin_le l y : In y l -> QL.qmin l <= y.
Proof. destruct l as [|x l]; [intros []|]. apply (proj1 (fold_qmin_spec l x)). Qed.
Lemma qmin_in l : l <> [] -> In (QL.qmin l) l.
Proof. destruct l as [|x l]; [congruence|]. intros _. apply (proj2 (fold_qmin_spec l x)). Qed.
Lemma qmax_ge l y : In y l -> y <= QL.qmax l.
Proof. destruct l as [|x l]; [intros []|]. apply (proj1 (fold_qmax_spec l x)). Qed.
Lemma qmax_in l : l <> [] -> In (QL.qmax l) l.
Proof. destruct l as [|x l]; [congruence|]. intros _. apply (proj2 (fold_qmax_spec l x)). Qed.

(** first / last order statistic of the sorted sample are min / max *)
Lemma sorted_first_le s x : sortedQ s -> In x s -> nthq s 0 <= x.
Proof.
  intros Hs Hx. destruct s as [|a s]; [destruct Hx|]. unfold nthq. cbn [Z.to_nat nth].
  inversion Hs as [|? ? _ Hf]; subst. destruct Hx as [E|Hx]; [subst; lra|]. rewrite Forall_forall in Hf. apply Hf. exact Hx.
Qed.

Lemma sorted_last_ge s x : sortedQ s -> In x s -> x <= nthq s (zlen s - 1).
Proof.
  intros Hs Hx. destruct (In_nth s x 0 Hx) as (i & Hi & E). rewrite <- E.
  unfold nthq, zlen. apply sorted_nth_le; [exact Hs|lia].
Qed.

Lemma nthq_in s k : (0 <= k < zlen s)%Z -> In (nthq s k) s.
Proof. intro H. unfold nthq, zlen in *. apply nth_In. lia. Qed.

(* ---------- counting ---------- *)
Lemma filter_length_le {A} (P : A -> bool) l : (length (filter P l) <= length l)%nat.
Proof. induction l as [|a l IH]; cbn [filter length]; [lia|]. destruct (P a); cbn [length]; lia. Qed.

Lemma filter_length_mono {A} (P P' : A -> bool) l : (forall v, In v l -> P v = true -> P' v = true) ->
  (length (filter P l) <= length (filter P' l))%nat.
Proof.
  induction l as [|a l IH]; intro H; cbn [filter length]; [lia|].
  assert (IH' : (length (filter P l) <= length (filter P' l))%nat) by (apply IH; intros v Hv; apply H; right; exact Hv).
  destruct (P a) eqn:Pa.
  - rewrite (H a (or_introl eq_refl) Pa). cbn [length]. lia.
  - destruct (P' a); cbn [length]; lia.
Qed.

Lemma filter_all {A} (P : A -> bool) l : (forall v, In v l -> P v = true) -> filter P l = l.
Proof.
  induction l as [|a l IH]; intro H; [reflexivity|]. cbn [filter]. rewrite (H a (or_introl eq_refl)). f_equal.
  apply IH. intros v Hv. apply H. right. exact Hv.
Qed.
