(** Types of the extracted input/output check list (Gen/GenChecks.v). *)
From Coq Require Import List Bool String.
Import ListNotations.

Inductive argname := A_obs | A_cm_hist | A_cm_future | A_output.
Inductive exc := E_Type | E_Value.
Inductive wkind := W_dtype | W_nonfinite | W_range | W_masked_invalid | W_masked_valid | W_out_nonfinite | W_out_range.

Inductive action :=
  | ARaise (e : exc)
  | AWarn (k : wkind) (a : argname)
  | AConvert (f : string) (a : argname)
  | AIf (neg : bool) (pred : string) (args : list argname) (thn els : list action).
