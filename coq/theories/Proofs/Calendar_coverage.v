(** When is a window skipped?  Never, unless the days of the year present have a gap between their minimum and
    maximum — and consecutive dates have no such gap when they stay inside one year or span at least 366 days.
    (The D20 defect needed exactly the remaining case: a sub-annual series crossing the turn of the year.) *)
From Coq Require Import ZArith List Bool Lia.
From IV Require Import NP NPFacts GenWindows Driver DriverSkip C07_proofs Calendar Calendar_proofs.
Import ListNotations.
Open Scope Z_scope.
Ltac Zify.zify_post_hook ::= Z.to_euclidean_division_equations.

(* ---------- windows ---------- *)
Definition no_gap (days : list Z) : Prop := forall d, NP.zmin days <= d <= NP.zmax days -> In d days.

Lemma in_where_isin days range i : (0 <= i < Z.of_nat (length days)) -> In (nth (Z.to_nat i) days 0) range ->
  In i (NP.where_idx (NP.isin days range)).
Proof.
  intros Hi Hin. apply where_isin_spec. split; [lia|]. exact Hin.
Qed.

Theorem centre_adjusts_something S days c : 0 < S -> S mod 2 = 1 -> days <> [] ->
  (forall d, In d days -> 1 <= d <= 366) -> no_gap days ->
  In c (days_window_centers S days) -> days_indices_to_adjust S days c <> [].
Proof.
  intros HS Hodd Hne Hr Hgap Hc. unfold days_window_centers in Hc. cbv zeta in Hc.
  apply in_arange in Hc; [|exact HS]. destruct Hc as (k & Hk & Ec & Hlt).
  set (mn := NP.zmin days) in *. set (mx := NP.zmax days) in *.
  assert (Hmn : In mn days) by (apply zmin_in; exact Hne).
  assert (Hmx : In mx days) by (apply zmax_in; exact Hne).
  assert (Hmnmx : mn <= mx) by (apply zmin_le; exact Hmx).
  assert (Hcr : mn <= c <= mx).
  { destruct (((mx - mn + 1) mod S) =? 0) eqn:E; lia. }
  assert (Hin : In c days) by (apply Hgap; exact Hcr).
  apply In_nth with (d := 0) in Hin. destruct Hin as (i & Hi & Ei).
  intro Hnil. unfold days_indices_to_adjust in Hnil. cbv zeta in Hnil.
  assert (Hmem : In (Z.of_nat i) (NP.where_idx (NP.isin days
     (filter (fun v__ => (v__ >=? 0) && (v__ <=? 366)) (NP.arange (c - S / 2) (c + S / 2 + 1) 1))))).
  { apply in_where_isin; [lia|]. rewrite Nat2Z.id, Ei. apply filter_In. split; [apply in_arange1; lia|].
    assert (1 <= c <= 366) by (apply Hr; rewrite <- Ei; apply nth_In; exact Hi). lia. }
  rewrite Hnil in Hmem. exact Hmem.
Qed.

Corollary nothing_skipped S days : 0 < S -> S mod 2 = 1 -> days <> [] ->
  (forall d, In d days -> 1 <= d <= 366) -> no_gap days ->
  evaluated_centres S days = days_window_centers S days.
Proof.
  intros HS Hodd Hne Hr Hgap. unfold evaluated_centres, days_use. cbv zeta.
  assert (H : forall l, (forall c, In c l -> days_indices_to_adjust S days c <> []) ->
     map fst (filter (fun ci : Z * list Z => match snd ci with [] => false | _ :: _ => true end)
                     (map (fun c => (c, days_indices_to_adjust S days c)) l)) = l).
  { induction l as [|c l IH]; intro Hl; [reflexivity|]. cbn [map filter snd].
    destruct (days_indices_to_adjust S days c) eqn:E; [exfalso; apply (Hl c); [left; reflexivity | exact E]|].
    cbn [map fst]. f_equal. apply IH. intros c' Hc'. apply Hl. right; exact Hc'. }
  apply H. intros c Hc. apply centre_adjusts_something; assumption.
Qed.

(* ---------- consecutive dates ---------- *)
Lemma iter_succ_r {A} (f : A -> A) (j : nat) (x : A) : Nat.iter (S j) f x = Nat.iter j f (f x).
Proof.
  induction j as [|j IH]; [reflexivity|].
  change (f (Nat.iter (S j) f x) = f (Nat.iter j f (f x))). f_equal. exact IH.
Qed.
Lemma iter_S {A} (f : A -> A) (j : nat) (x : A) : Nat.iter (S j) f x = f (Nat.iter j f x).
Proof. reflexivity. Qed.
Lemma iter_add {A} (f : A -> A) (a b : nat) (x : A) : Nat.iter (a + b) f x = Nat.iter a f (Nat.iter b f x).
Proof.
  induction a as [|a IH]; [reflexivity|].
  change (f (Nat.iter (a + b) f x) = f (Nat.iter a f (Nat.iter b f x))). f_equal. exact IH.
Qed.

Lemma nth_error_dates_from n : forall p j, (j < n)%nat -> nth_error (dates_from n p) j = Some (Nat.iter j next_day p).
Proof.
  induction n as [|n IH]; intros p j Hj; [lia|]. destruct j as [|j]; [reflexivity|].
  cbn [dates_from nth_error]. rewrite IH by lia. f_equal. symmetry. apply iter_succ_r.
Qed.

Lemma iter_in_year y d j : 1 <= d -> d + Z.of_nat j <= year_len y -> Nat.iter j next_day (y, d) = (y, d + Z.of_nat j).
Proof.
  induction j as [|j IH]; intros Hd Hle; [cbn; f_equal; lia|].
  rewrite iter_S, IH by lia. unfold next_day. destruct (Z.ltb_spec (d + Z.of_nat j) (year_len y)); [f_equal; lia | lia].
Qed.

Lemma iter_to_next_year y d : 1 <= d <= year_len y ->
  Nat.iter (Z.to_nat (year_len y - d + 1)) next_day (y, d) = (y + 1, 1).
Proof.
  intro Hd. replace (Z.to_nat (year_len y - d + 1)) with (S (Z.to_nat (year_len y - d))) by lia.
  rewrite iter_S, iter_in_year by lia. unfold next_day.
  destruct (Z.ltb_spec (d + Z.of_nat (Z.to_nat (year_len y - d))) (year_len y)); [lia | reflexivity].
Qed.

Lemma days_in_dates n p j : (j < n)%nat -> In (snd (Nat.iter j next_day p)) (days_of_year_of (dates_from n p)).
Proof.
  intro Hj. unfold days_of_year_of. apply in_map. eapply nth_error_In. apply nth_error_dates_from. exact Hj.
Qed.

(** at least 366 consecutive days: every day 1..365 of the year occurs *)
Theorem full_year_coverage n y d x : (366 <= n)%nat -> 1 <= d <= year_len y -> 1 <= x <= 365 ->
  In x (days_of_year_of (dates_from n (y, d))).
Proof.
  intros Hn Hd Hx. destruct (year_len_cases y) as [Hl|Hl]; destruct (year_len_cases (y + 1)) as [Hl'|Hl'].
  all: destruct (Z_le_gt_dec d x) as [Hge|Hlt].
  all: try (replace x with (snd (Nat.iter (Z.to_nat (x - d)) next_day (y, d)))
              by (rewrite iter_in_year by lia; cbn [snd]; lia); apply days_in_dates; lia).
  all: replace x with (snd (Nat.iter (Z.to_nat (x - 1) + Z.to_nat (year_len y - d + 1)) next_day (y, d)))
         by (rewrite iter_add, iter_to_next_year by lia; rewrite iter_in_year by lia; cbn [snd]; lia);
       apply days_in_dates; lia.
Qed.

(** a series inside one year: the days present are contiguous *)
Theorem within_year_contiguous n y d x : 1 <= d -> d + Z.of_nat n - 1 <= year_len y -> d <= x <= d + Z.of_nat n - 1 ->
  In x (days_of_year_of (dates_from n (y, d))).
Proof.
  intros Hd Hle Hx.
  replace x with (snd (Nat.iter (Z.to_nat (x - d)) next_day (y, d))) by (rewrite iter_in_year by lia; cbn [snd]; lia).
  apply days_in_dates. lia.
Qed.

Lemma consecutive_nonempty n y m d : (0 < n)%nat -> days_of_year_of (consecutive_dates n y m d) <> [].
Proof. destruct n; [lia|]. intros _. unfold days_of_year_of, consecutive_dates. cbn [dates_from map]. discriminate. Qed.

Theorem long_series_no_gap n y m d : (366 <= n)%nat -> valid_date y m d ->
  no_gap (days_of_year_of (consecutive_dates n y m d)).
Proof.
  intros Hn Hv x Hx. set (days := days_of_year_of (consecutive_dates n y m d)) in *.
  assert (Hne : days <> []) by (apply consecutive_nonempty; lia).
  assert (Hr : forall z, In z days -> 1 <= z <= 366) by (apply consecutive_dates_days_in_range; exact Hv).
  assert (H1 := Hr _ (zmin_in days Hne)). assert (H2 := Hr _ (zmax_in days Hne)).
  destruct (Z_le_gt_dec x 365) as [Hle|Hgt].
  - apply full_year_coverage; [exact Hn | apply doy_range; exact Hv | lia].
  - assert (x = NP.zmax days) by lia. subst x. apply zmax_in; exact Hne.
Qed.

(** a series of at least 366 days: no window is skipped, every centre's window method is evaluated *)
Theorem long_series_nothing_skipped S n y m d : 0 < S -> S mod 2 = 1 -> (366 <= n)%nat -> valid_date y m d ->
  let days := days_of_year_of (consecutive_dates n y m d) in
  evaluated_centres S days = days_window_centers S days.
Proof.
  intros HS Hodd Hn Hv days. apply nothing_skipped; [exact HS | exact Hodd | apply consecutive_nonempty; lia | | apply long_series_no_gap; assumption].
  apply consecutive_dates_days_in_range; exact Hv.
Qed.

(** the witness of D20: 26 November + 40 days crosses the turn of the year; S = 3: the centres inside the gap adjust nothing *)
Example short_series_skips :
  let days := days_of_year_of (consecutive_dates 40 2017 11 26) in
  evaluated_centres 3 days <> days_window_centers 3 days /\ (length (evaluated_centres 3 days) < length (days_window_centers 3 days))%nat.
Proof. vm_compute. split; [discriminate | lia]. Qed.
