(** C08 (round 2): the regenerated calibration-window day range is EXACTLY the set of days of
    year whose circular distance (over the 366-day cycle) to the centre is at most L/2. *)
From Coq Require Import ZArith List Bool Lia ZifyBool.
From IV Require Import NP NPFacts GenWindows C07_proofs Driver_corollaries.
Import ListNotations.
Open Scope Z_scope.
Ltac Zify.zify_post_hook ::= Z.to_euclidean_division_equations.

Lemma window_range_complete L c v : 0 <= L / 2 -> 1 <= v <= 366 ->
  (exists w, c - L / 2 <= w <= c + L / 2 /\ (w - v) mod 366 = 0) ->
  In v (NP.replace_eq (NP.zmod_list (NP.arange (c - L / 2) (c + L / 2 + 1) 1) (365 + 1)) 0 366).
Proof.
  intros HL Hv (w & Hw & Hm). unfold NP.replace_eq, NP.zmod_list. rewrite map_map.
  apply in_map_iff. exists w. split; [|apply in_arange1; lia].
  destruct (w mod (365 + 1) =? 0) eqn:E; lia.
Qed.

Lemma circ_witness h c v : 0 <= h -> circ v c <= h ->
  exists w, c - h <= w <= c + h /\ (w - v) mod 366 = 0.
Proof.
  intros Hh Hc. unfold circ in Hc.
  destruct (Z_le_gt_dec ((v - c) mod 366) h) as [H1|H1].
  - exists (c + (v - c) mod 366). split; lia.
  - exists (c - (c - v) mod 366). split; lia.
Qed.

Theorem window_exact L c v : 0 <= L / 2 -> L / 2 < 183 -> 1 <= v <= 366 ->
  (In v (NP.replace_eq (NP.zmod_list (NP.arange (c - L / 2) (c + L / 2 + 1) 1) (365 + 1)) 0 366) <->
   circ v c <= L / 2).
Proof.
  intros H0 HL Hv. split.
  - apply (window_within_halfwidth L 1 c v HL).
  - intro Hc. apply window_range_complete; [exact H0|exact Hv|]. apply circ_witness; assumption.
Qed.

(** a time step is in the calibration window of centre c exactly when its day of year is within L/2 of c *)
Theorem days_window_exact L days c i : 0 <= L / 2 -> L / 2 < 183 -> (forall d, In d days -> 1 <= d <= 366) ->
  (In i (days_indices_in_window L days c) <->
   0 <= i < Z.of_nat (length days) /\ circ (nth (Z.to_nat i) days 0) c <= L / 2).
Proof.
  intros H0 HL Hd. rewrite days_window_spec. split; intros [Hi H]; (split; [exact Hi|]);
    (apply (window_exact L c _ H0 HL); [apply Hd; apply nth_In; lia|exact H]).
Qed.
