(** C04 for ScaledDistributionMapping (absolute; hand model Model/SDM.v): a change of units of the three series
    carries over to the output, for any distribution with a location-scale fit on the (detrended) samples. *)
From Coq Require Import QArith Qabs ZArith List Bool Lia Lqa.
From IV Require Import QL Dist Ecdf QFacts QListFacts C16_sortlike Affine ApplyLocation_param SDM.
Import ListNotations.
Open Scope Q_scope.

(* ---------- properness of the scalar pieces ---------- *)
Lemma thr_cdf_proper t c c' : c == c' -> thr_cdf t c == thr_cdf t c'.
Proof.
  intro E. unfold thr_cdf, QL.qmax2, QL.qmin2.
  assert (B1 : Qle_bool c (1 - t) = Qle_bool c' (1 - t)) by (destruct (Qle_bool c _) eqn:A, (Qle_bool c' _) eqn:B; qb; try reflexivity; lra).
  rewrite B1. destruct (Qle_bool c' (1 - t)).
  - assert (B2 : Qle_bool c t = Qle_bool c' t) by (destruct (Qle_bool c t) eqn:A, (Qle_bool c' t) eqn:B; qb; try reflexivity; lra).
    rewrite B2. destruct (Qle_bool c' t); [reflexivity|exact E].
  - reflexivity.
Qed.

Lemma recurrence_proper c c' : c == c' -> recurrence c == recurrence c'.
Proof. intro E. unfold recurrence. rewrite E. reflexivity. Qed.

Lemma qsign_proper x x' : x == x' -> qsign x = qsign x'.
Proof.
  intro E. unfold qsign.
  assert (B1 : Qlt_bool 0 x = Qlt_bool 0 x') by (destruct (Qlt_bool 0 x) eqn:A, (Qlt_bool 0 x') eqn:B; qb; try reflexivity; lra).
  assert (B2 : Qlt_bool x 0 = Qlt_bool x' 0) by (destruct (Qlt_bool x 0) eqn:A, (Qlt_bool x' 0) eqn:B; qb; try reflexivity; lra).
  rewrite B1, B2. reflexivity.
Qed.

Lemma qmax2_proper u u' v v' : u == u' -> v == v' -> QL.qmax2 u v == QL.qmax2 u' v'.
Proof.
  intros E1 E2. unfold QL.qmax2.
  assert (B : Qle_bool u v = Qle_bool u' v') by (destruct (Qle_bool u v) eqn:A, (Qle_bool u' v') eqn:B'; qb; try reflexivity; lra).
  rewrite B. destruct (Qle_bool u' v'); assumption.
Qed.

(** np.interp is proper in the values it interpolates *)
Lemma interp_aux_fp y xp : forall fp fp', eql fp fp' -> interp_aux y xp fp == interp_aux y xp fp'.
Proof.
  induction xp as [|x0 xr IH]; intros fp fp' E.
  - destruct E as [|f f' l l' Hf Hl]; [reflexivity|]. destruct Hl; cbn; exact Hf.
  - destruct xr as [|x1 xr2].
    + destruct E as [|f f' l l' Hf Hl]; [reflexivity|]. destruct Hl; cbn; exact Hf.
    + destruct E as [|f0 f0' l l' H0 Hl]; [reflexivity|]. destruct Hl as [|f1 f1' l2 l2' H1 Hl2]; [cbn; exact H0|].
      rewrite !C16_interp.interp_aux_cons2. destruct (Qle_bool x1 y).
      * apply IH. constructor; assumption.
      * rewrite !Qred_correct, H0, H1. reflexivity.
Qed.
Lemma interp_fp y xp fp fp' : eql fp fp' -> interp y xp fp == interp y xp fp'.
Proof.
  intro E. unfold interp. destruct xp as [|x0 xr]; [reflexivity|]. destruct E as [|f f' l l' Hf Hl]; [reflexivity|].
  destruct (Qlt_bool y x0); [exact Hf|]. apply interp_aux_fp. constructor; assumption.
Qed.

Lemma interp_len_eql v v' n : eql v v' -> eql (interp_len v n) (interp_len v' n).
Proof.
  intro E. unfold interp_len. rewrite <- (eql_length _ _ E).
  apply eql_map_pointwise. intros y _. apply interp_fp. exact E.
Qed.

Lemma eql_nth l l' k : eql l l' -> nth k l 0 == nth k l' 0.
Proof. intro E. revert k. induction E as [|x x' l l' Hx Hl IH]; intros [|k]; cbn; try reflexivity; [exact Hx|apply IH]. Qed.

(** ranks are preserved by a change of units *)
Lemma cnt_rel a b (Ha : 0 < a) t t' l l' : ARL a b l l' -> AR a b t t' ->
  cnt (lt_of t') l' = cnt (lt_of t) l /\ cnt (eq_of t') l' = cnt (eq_of t) l.
Proof.
  intros H Ht. induction H as [|x x' l l' Hx Hl IH]; [split; reflexivity|]. destruct IH as [I1 I2].
  rewrite !cnt_cons. unfold lt_of at 1 3, eq_of at 1 3.
  change (Qlt_bool x' t') with (Qlt_bool x' t'). rewrite (AR_lt a b Ha x x' t t' Hx Ht), (AR_eqb a b Ha x x' t t' Hx Ht), I1, I2. split; reflexivity.
Qed.

Lemma ARL_firstn a b l l' k : ARL a b l l' -> ARL a b (firstn k l) (firstn k l').
Proof. intro H. revert k. induction H as [|x x' l l' Hx Hl IH]; intros [|k]; cbn [firstn]; try constructor; auto. apply IH. Qed.

Lemma rank_rel a b (Ha : 0 < a) l l' i : ARL a b l l' -> (i < length l)%nat -> rank_in l' i = rank_in l i.
Proof.
  intros H Hi. rewrite !rank_unfold. unfold yv.
  pose proof (ARL_nth a b l l' H i Hi) as Ht.
  destruct (cnt_rel a b Ha _ _ l l' H Ht) as [C1 _].
  destruct (cnt_rel a b Ha _ _ (firstn i l) (firstn i l') (ARL_firstn a b l l' i H) Ht) as [_ C2].
  rewrite C1, C2. reflexivity.
Qed.

Lemma ARL10_eql l l' : ARL 1 0 l l' -> eql l l'.
Proof. induction 1 as [|x x' l l' Hx Hl IH]; constructor; [unfold AR in Hx; rewrite Hx; ring|exact IH]. Qed.
Lemma eql_ARL10' l l' : eql l l' -> ARL 1 0 l l'.
Proof. induction 1 as [|x x' l l' Hx Hl IH]; constructor; [unfold AR; rewrite Hx; ring|exact IH]. Qed.
Lemma qsort_eql l l' : eql l l' -> eql (qsort l) (qsort l').
Proof. intro E. apply ARL10_eql. apply (qsort_rel 1 0 ltac:(lra)). apply eql_ARL10'. apply eql_sym in E. apply eql_sym. exact E. Qed.

Lemma detrend_rel a b l l' : ARL a b l l' -> l <> [] -> ARL a 0 (detrend_const l) (detrend_const l').
Proof.
  intros H Hne. unfold detrend_const. cbv zeta. pose proof (qmean_rel a b l l' H Hne) as M.
  set (m := QL.qmean l) in *. set (m' := QL.qmean l') in *. clearbody m m'. clear Hne.
  induction H as [|x x' l0 l0' Hx Hl IH]; [constructor|]. cbn [map]. constructor; [|exact IH].
  unfold AR in *. rewrite !Qred_correct, Hx, M. ring.
Qed.

Lemma F2_map_same' (f g : nat -> Q) (R : Q -> Q -> Prop) l : (forall x, In x l -> R (f x) (g x)) -> Forall2 R (map f l) (map g l).
Proof. induction l as [|a0 l IH]; intro H; cbn [map]; constructor; [apply H; left; reflexivity|apply IH; intros x Hx; apply H; right; exact Hx]. Qed.

Section Main.
Context {P : Type} (D : dist P).
Variable scale_of : P -> Q.
Variables a b : Q.
Hypothesis Ha : 0 < a.
Variable good : list Q -> Prop.
(** on the detrended samples a change of units is a pure rescaling *)
Hypothesis Hfit : fit_unit_change D a 0 good.
Hypothesis Hscale : forall l l', good l -> ARL a 0 l l' -> scale_of (fit D l') == a * scale_of (fit D l) /\ ~ scale_of (fit D l) == 0.

Lemma cdf_lists l l' p p' : (forall x x', AR a 0 x x' -> cdf D p' x' == cdf D p x) -> ARL a 0 l l' -> eql (map (cdf D p) l) (map (cdf D p') l').
Proof. intros Hc H. induction H as [|x x' l l' Hx Hl IH]; cbn [map]; constructor; [symmetry; apply Hc; exact Hx|exact IH]. Qed.

Theorem sdm_absolute_unit_change obs obs' hist hist' fut fut' :
  ARL a b obs obs' -> ARL a b hist hist' -> ARL a b fut fut' -> obs <> [] -> hist <> [] -> fut <> [] ->
  good (detrend_const obs) -> good (detrend_const hist) -> good (detrend_const fut) ->
  ARL a b (sdm_absolute D scale_of obs hist fut) (sdm_absolute D scale_of obs' hist' fut').
Proof.
  intros Ho Hh Hf No Nh Nf Go Gh Gf. unfold sdm_absolute. cbv zeta.
  pose proof (detrend_rel a b obs obs' Ho No) as Do. pose proof (detrend_rel a b hist hist' Hh Nh) as Dh. pose proof (detrend_rel a b fut fut' Hf Nf) as Df.
  set (od := detrend_const obs) in *. set (od' := detrend_const obs') in *.
  set (hd := detrend_const hist) in *. set (hd' := detrend_const hist') in *.
  set (fd := detrend_const fut) in *. set (fd' := detrend_const fut') in *.
  destruct (Hfit od od' Go Do) as [Co Po]. destruct (Hfit hd hd' Gh Dh) as [Ch Ph]. destruct (Hfit fd fd' Gf Df) as [Cf Pf].
  destruct (Hscale od od' Go Do) as [So _]. destruct (Hscale hd hd' Gh Dh) as [Sh Sh0].
  set (fo := fit D od) in *. set (fo' := fit D od') in *. set (fh := fit D hd) in *. set (fh' := fit D hd') in *. set (ff := fit D fd) in *. set (ff' := fit D fd') in *.
  (* the three arrays of thresholded cdf values agree *)
  assert (Eco : eql (map (thr_cdf default_thr) (qsort (map (cdf D fo) od))) (map (thr_cdf default_thr) (qsort (map (cdf D fo') od')))).
  { apply eql_map_compat; [intros u v E; apply thr_cdf_proper; exact E|]. apply qsort_eql. apply cdf_lists; assumption. }
  assert (Ech : eql (map (thr_cdf default_thr) (qsort (map (cdf D fh) hd))) (map (thr_cdf default_thr) (qsort (map (cdf D fh') hd')))).
  { apply eql_map_compat; [intros u v E; apply thr_cdf_proper; exact E|]. apply qsort_eql. apply cdf_lists; assumption. }
  assert (Ecf : eql (map (thr_cdf default_thr) (map (cdf D ff) (qsort fd))) (map (thr_cdf default_thr) (map (cdf D ff') (qsort fd')))).
  { apply eql_map_compat; [intros u v E; apply thr_cdf_proper; exact E|]. apply cdf_lists; [exact Cf|]. apply (qsort_rel a 0 Ha). exact Df. }
  pose proof (ARL_length a b fut fut' Hf) as Ln. rewrite <- Ln.
  set (n := length fut) in *.
  pose proof (interp_len_eql _ _ n Eco) as Ecoi. pose proof (interp_len_eql _ _ n Ech) as Echi.
  set (co := map (thr_cdf default_thr) (qsort (map (cdf D fo) od))) in *. set (co' := map (thr_cdf default_thr) (qsort (map (cdf D fo') od'))) in *.
  set (ch := map (thr_cdf default_thr) (qsort (map (cdf D fh) hd))) in *. set (ch' := map (thr_cdf default_thr) (qsort (map (cdf D fh') hd'))) in *.
  set (cf := map (thr_cdf default_thr) (map (cdf D ff) (qsort fd))) in *. set (cf' := map (thr_cdf default_thr) (map (cdf D ff') (qsort fd'))) in *.
  set (coi := interp_len co n) in *. set (coi' := interp_len co' n) in *. set (chi := interp_len ch n) in *. set (chi' := interp_len ch' n) in *.
  (* the bias-corrected order statistics scale by a *)
  set (bcf := fun (fo0 fh0 ff0 : P) (cf0 coi0 chi0 : list Q) (k : nat) =>
     Qred (ppf D fo0 (thr_cdf default_thr ((1 # 2) + qsign (nth k coi0 0 - (1 # 2)) * Qabs ((1 # 2) - 1 / QL.qmax2 1 (recurrence (nth k coi0 0) * recurrence (nth k cf0 0) / recurrence (nth k chi0 0)))))
           + (ppf D ff0 (nth k cf0 0) - ppf D fh0 (nth k cf0 0)) * scale_of fo0 / scale_of fh0)).
  assert (Ebc : forall k, bcf fo' fh' ff' cf' coi' chi' k == a * bcf fo fh ff cf coi chi k).
  { intro k. unfold bcf. rewrite !Qred_correct.
    pose proof (eql_nth _ _ k Ecf) as E1. pose proof (eql_nth _ _ k Ecoi) as E2. pose proof (eql_nth _ _ k Echi) as E3.
    set (u := nth k cf 0) in *. set (u' := nth k cf' 0) in *. set (v := nth k coi 0) in *. set (v' := nth k coi' 0) in *. set (w := nth k chi 0) in *. set (w' := nth k chi' 0) in *.
    assert (Es : qsign (v' - (1 # 2)) = qsign (v - (1 # 2))) by (apply qsign_proper; rewrite E2; reflexivity).
    assert (Er : QL.qmax2 1 (recurrence v' * recurrence u' / recurrence w') == QL.qmax2 1 (recurrence v * recurrence u / recurrence w)).
    { apply qmax2_proper; [reflexivity|]. rewrite (recurrence_proper _ _ E1), (recurrence_proper _ _ E2), (recurrence_proper _ _ E3). reflexivity. }
    assert (Ec : thr_cdf default_thr ((1 # 2) + qsign (v' - (1 # 2)) * Qabs ((1 # 2) - 1 / QL.qmax2 1 (recurrence v' * recurrence u' / recurrence w')))
              == thr_cdf default_thr ((1 # 2) + qsign (v - (1 # 2)) * Qabs ((1 # 2) - 1 / QL.qmax2 1 (recurrence v * recurrence u / recurrence w)))).
    { apply thr_cdf_proper. rewrite Es, Er. reflexivity. }
    symmetry in Ec. rewrite (Po _ _ Ec). rewrite (Pf _ _ E1), (Ph _ _ E1), So, Sh. field. split; [exact Sh0|lra]. }
  (* assemble *)
  pose proof (qmean_rel a b obs obs' Ho No) as Mo. pose proof (qmean_rel a b hist hist' Hh Nh) as Mh.
  apply F2_map_same'. intros i Hi. apply in_seq in Hi.
  assert (Hi' : (i < length fd)%nat) by (unfold fd, detrend_const; cbv zeta; rewrite map_length; lia).
  rewrite (rank_rel a 0 Ha fd fd' i Df Hi').
  unfold AR. rewrite !Qred_correct.
  pose proof (rank_lt_length fd i Hi') as Rl. assert (Lfd : length fd = n) by (unfold fd, detrend_const; cbv zeta; rewrite map_length; reflexivity).
  set (r := rank_in fd i) in *.
  change (nth r (map (fun k => bcf fo' fh' ff' cf' coi' chi' k) (seq 0 n)) 0 + (nth i fut' 0 - nth i fd' 0 + (QL.qmean obs' - QL.qmean hist'))
          == a * (nth r (map (fun k => bcf fo fh ff cf coi chi k) (seq 0 n)) 0 + (nth i fut 0 - nth i fd 0 + (QL.qmean obs - QL.qmean hist))) + b).
  assert (Nb : forall g : nat -> Q, nth r (map g (seq 0 n)) 0 = g r).
  { intro g. rewrite (nth_indep _ 0 (g 0%nat)) by (rewrite map_length, seq_length; lia). rewrite map_nth, seq_nth by lia. reflexivity. }
  rewrite !Nb, Ebc.
  pose proof (ARL_nth a b fut fut' Hf i ltac:(lia)) as Fi. pose proof (ARL_nth a 0 fd fd' Df i Hi') as Fdi.
  unfold AR in *. rewrite Fi, Fdi, Mo, Mh. ring.
Qed.
End Main.

(** the scale hypothesis is satisfiable as well: the rational location-scale family *)
From IV Require Import RatLS RatLS_proofs.
Theorem ratls_scale_unit_change a : 0 < a -> forall l l', ratls_good l -> ARL a 0 l l' ->
  snd (fit ratls l') == a * snd (fit ratls l) /\ ~ snd (fit ratls l) == 0.
Proof.
  intros Ha l l' [Hne Hm] H. cbn [fit ratls]. unfold ratls_fit. cbn [snd]. split; [|exact Hm].
  rewrite (mad_eql _ _ (ARL_eql a 0 l l' H)). apply (mad_affine a 0 l Ha Hne).
Qed.
