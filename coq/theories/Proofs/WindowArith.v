(** The arithmetic heart of C07: window centres [first + k*S] cover every value of
    [mn..mx] exactly once with half-width [S/2]. Shared by the day and the year windows. *)
From Coq Require Import ZArith List Bool Lia ZifyBool.
From IV Require Import NP NPFacts.
Import ListNotations.
Open Scope Z_scope.
Ltac Zify.zify_post_hook ::= Z.to_euclidean_division_equations.

Definition first_center (mn mx S : Z) : Z :=
  let r := (mx - mn + 1) mod S in
  if r =? 0 then mn + S / 2 else mn + S / 2 - (S - r) / 2.

Lemma first_center_facts mn mx S : 0 < S -> S mod 2 = 1 -> mn <= mx ->
  let f := first_center mn mx S in
  let h := S / 2 in
  f - h <= mn /\ mn < f - h + S /\
  (forall k, 0 <= k -> f - h + k * S <= mx -> f + k * S <= mx).
Proof.
  intros HS Hodd Hle f h. unfold f, first_center, h. clear f h.
  set (span := mx - mn + 1).
  pose proof (Z.div_mod span S ltac:(lia)) as Hdm.
  pose proof (Z.mod_pos_bound span S HS) as Hr.
  set (r := span mod S) in *. set (q := span / S) in *.
  assert (Hh : S = 2 * (S / 2) + 1) by lia.
  set (h := S / 2) in *.
  assert (Hq : 0 <= q) by nia.
  destruct (r =? 0) eqn:Er.
  - assert (r = 0) by lia. split; [lia|]. split; [lia|].
    intros k Hk Hb.
    assert (k < q) by nia. nia.
  - assert (0 < r) by lia.
    assert (He : (S - r) / 2 <= h) by lia.
    assert (He0 : 0 <= (S - r) / 2) by lia.
    set (e := (S - r) / 2) in *.
    assert (Hre : h + 1 <= r + e) by (unfold e; lia).
    split; [lia|]. split; [lia|].
    intros k Hk Hb.
    assert (k <= q) by nia. nia.
Qed.

(** every d in [mn..mx] lies in the adjust range of exactly one centre *)
Theorem centers_cover mn mx S d : 0 < S -> S mod 2 = 1 -> mn <= d <= mx ->
  exists c, In c (NP.arange (first_center mn mx S) (mx + 1) S) /\ c - S / 2 <= d <= c + S / 2 /\
    forall c', In c' (NP.arange (first_center mn mx S) (mx + 1) S) -> c' - S / 2 <= d <= c' + S / 2 -> c' = c.
Proof.
  intros HS Hodd Hd.
  destruct (first_center_facts mn mx S HS Hodd ltac:(lia)) as (F1 & F2 & F3).
  set (f := first_center mn mx S) in *. set (h := S / 2) in *.
  assert (Hh : S = 2 * h + 1) by (unfold h; lia).
  set (base := f - h) in *.
  set (k := (d - base) / S).
  assert (Hk : 0 <= k) by (unfold k; apply Z.div_pos; lia).
  assert (Hb1 : base + k * S <= d) by (unfold k; nia).
  assert (Hb2 : d < base + k * S + S) by (unfold k; nia).
  exists (f + k * S). split; [|split].
  - apply in_arange; [exact HS|]. exists k. split; [exact Hk|]. split; [reflexivity|].
    assert (f + k * S <= mx) by (apply F3; [exact Hk|lia]). lia.
  - lia.
  - intros c' Hin Hc'. apply in_arange in Hin; [|exact HS]. destruct Hin as (k' & Hk' & E & _). subst c'.
    assert (k' = k) by nia. subst k'. reflexivity.
Qed.

(** the adjust range of a centre lies inside its window when S <= L (both odd) *)
Lemma adjust_in_window c S L d : 0 < S -> S <= L -> c - S / 2 <= d <= c + S / 2 -> c - L / 2 <= d <= c + L / 2.
Proof. intros. lia. Qed.
