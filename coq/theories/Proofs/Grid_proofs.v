(** C05 / C13: the grid loops of Model/Grid.v. *)
From Coq Require Import List Bool Arith Lia Permutation.
From IV Require Import Grid.
Import ListNotations.

Section G.
Variable V : Type.
Variable nan : V.
Notation col := (col V).
Notation obuf := (obuf V).
Notation locres := (locres V).

(* ---------- upd ---------- *)
Lemma upd_length {A} (l : list A) k v : length (upd l k v) = length l.
Proof. revert k. induction l as [|x l IH]; intros [|k]; cbn; auto. Qed.

Lemma upd_nth_same {A} (l : list A) k v d : k < length l -> nth k (upd l k v) d = v.
Proof. revert k. induction l as [|x l IH]; intros [|k] H; cbn in *; try lia; auto; try (apply IH; lia). Qed.

Lemma upd_nth_other {A} (l : list A) k k' v d : k' <> k -> nth k' (upd l k v) d = nth k' l d.
Proof.
  revert k k'. induction l as [|x l IH]; intros [|k] [|k'] H; cbn; auto; try congruence; try (apply IH; congruence).
Qed.

(* ---------- output buffer ---------- *)
Definition dims (b : obuf) (X Y : nat) : Prop := length b = X /\ forall i, i < X -> length (nth i b []) = Y.

Lemma empty_dims X Y : dims (empty_buf V X Y) X Y.
Proof.
  unfold dims, empty_buf. split; [apply repeat_length|]. intros i Hi.
  rewrite (nth_indep _ [] (repeat None Y)) by (rewrite repeat_length; exact Hi).
  rewrite nth_repeat. apply repeat_length.
Qed.

Lemma empty_ocell X Y i j : ocell V (empty_buf V X Y) i j = None.
Proof.
  unfold ocell, empty_buf. destruct (lt_dec i X) as [Hi|Hi].
  - rewrite (nth_indep _ [] (repeat None Y)) by (rewrite repeat_length; exact Hi). rewrite nth_repeat.
    destruct (lt_dec j Y) as [Hj|Hj]; [rewrite nth_repeat; reflexivity|]. apply nth_overflow. rewrite repeat_length. lia.
  - rewrite (nth_overflow _ []) by (rewrite repeat_length; lia). destruct j; reflexivity.
Qed.

Lemma oset_dims b X Y i j c : dims b X Y -> dims (oset V b i j c) X Y.
Proof.
  intros [H1 H2]. unfold oset, dims. rewrite upd_length. split; [exact H1|]. intros i' Hi'.
  destruct (Nat.eq_dec i' i) as [->|N].
  - rewrite upd_nth_same by lia. rewrite upd_length. apply H2. exact Hi'.
  - rewrite upd_nth_other by exact N. apply H2. exact Hi'.
Qed.

Lemma oset_same b X Y i j c : dims b X Y -> i < X -> j < Y -> ocell V (oset V b i j c) i j = Some c.
Proof.
  intros [H1 H2] Hi Hj. unfold ocell, oset. rewrite upd_nth_same by lia. apply upd_nth_same. rewrite H2; assumption.
Qed.

Lemma oset_other b i j c i' j' : (i', j') <> (i, j) -> ocell V (oset V b i j c) i' j' = ocell V b i' j'.
Proof.
  intro N. unfold ocell, oset. destruct (Nat.eq_dec i' i) as [->|Ni].
  - destruct (lt_dec i (length b)) as [L|L].
    + rewrite upd_nth_same by exact L. apply upd_nth_other. congruence.
    + rewrite !(nth_overflow _ []) by (rewrite ?upd_length; lia). reflexivity.
  - rewrite upd_nth_other by exact Ni. reflexivity.
Qed.

(* ---------- indices ---------- *)
Lemma in_indices X Y i j : In (i, j) (indices X Y) <-> i < X /\ j < Y.
Proof.
  unfold indices. rewrite in_flat_map. split.
  - intros (i' & Hi' & H). apply in_map_iff in H. destruct H as (j' & E & Hj'). injection E as -> ->.
    apply in_seq in Hi'. apply in_seq in Hj'. lia.
  - intros [Hi Hj]. exists i. split; [apply in_seq; lia|]. apply in_map_iff. exists j. split; [reflexivity|apply in_seq; lia].
Qed.

Lemma indices_length_aux Y X : forall s, length (flat_map (fun i : nat => map (pair i) (seq 0 Y)) (seq s X)) = X * Y.
Proof.
  induction X as [|X IH]; intro s; cbn [seq flat_map]; [reflexivity|].
  rewrite app_length, map_length, seq_length, IH. lia.
Qed.
Lemma indices_length X Y : length (indices X Y) = X * Y.
Proof. apply indices_length_aux. Qed.

Lemma pair_eq_dec (a b : nat * nat) : {a = b} + {a <> b}.
Proof. decide equality; apply Nat.eq_dec. Qed.

(* ---------- the write-back fold ---------- *)
Section Fold.
Variables (T X Y : nat) (res : nat * nat -> locres).
Definition val (ij : nat * nat) : col := match res ij with Col _ c => c | _ => repeat nan T end.
Definition good (ij : nat * nat) : Prop := match res ij with Col _ c => length c = T | NaNScalar _ => True | Raise _ => False end.
Definition step (ob : option obuf) (ij : nat * nat) : option obuf :=
  match ob with None => None | Some b => write V nan T b ij (res ij) end.

Lemma step_good b ij : good ij -> step (Some b) ij = Some (oset V b (fst ij) (snd ij) (val ij)).
Proof.
  unfold step, good, val, write. destruct (res ij) as [c| |]; intro H; [|reflexivity|destruct H].
  rewrite H, Nat.eqb_refl. reflexivity.
Qed.

Lemma step_bad b ij : ~ good ij -> step (Some b) ij = None.
Proof.
  unfold step, good, write. destruct (res ij) as [c| |]; intro H; [|exfalso; apply H; exact I|reflexivity].
  destruct (Nat.eqb (length c) T) eqn:E; [|reflexivity]. apply Nat.eqb_eq in E. contradiction.
Qed.

Lemma fold_none l : fold_left step l None = None.
Proof. induction l; cbn; auto. Qed.

Lemma fold_spec l : forall b, dims b X Y ->
  (forall ij, In ij l -> fst ij < X /\ snd ij < Y) -> (forall ij, In ij l -> good ij) ->
  exists b', fold_left step l (Some b) = Some b' /\ dims b' X Y /\
    forall i j, (In (i, j) l -> ocell V b' i j = Some (val (i, j))) /\ (~ In (i, j) l -> ocell V b' i j = ocell V b i j).
Proof.
  induction l as [|a l IH]; intros b Hd Hr Hg.
  - exists b. split; [reflexivity|]. split; [exact Hd|]. intros i j. split; [intros []|reflexivity].
  - cbn [fold_left]. rewrite step_good by (apply Hg; left; reflexivity).
    destruct a as [ai aj].
    destruct (IH (oset V b ai aj (val (ai, aj)))) as (b' & E & Hd' & Hc).
    + apply oset_dims. exact Hd.
    + intros ij H. apply Hr. right. exact H.
    + intros ij H. apply Hg. right. exact H.
    + exists b'. cbn [fst snd]. split; [exact E|]. split; [exact Hd'|]. intros i j. split.
      * intros [Eq|Hin].
        -- injection Eq as -> ->. destruct (in_dec pair_eq_dec (i, j) l) as [Hin|Hnin].
           ++ apply (proj1 (Hc i j) Hin).
           ++ rewrite (proj2 (Hc i j) Hnin). specialize (Hr (i, j) (or_introl eq_refl)). cbn in Hr.
              apply (oset_same b X Y); tauto.
        -- apply (proj1 (Hc i j) Hin).
      * intro Hnin. rewrite (proj2 (Hc i j)) by (intro H; apply Hnin; right; exact H).
        apply oset_other. intro Eq. apply Hnin. left. symmetry. exact Eq.
Qed.

Lemma fold_fail l : forall b, (exists ij, In ij l /\ ~ good ij) -> (forall ij, In ij l -> good ij \/ ~ good ij) ->
  fold_left step l (Some b) = None.
Proof.
  induction l as [|a l IH]; intros b (ij & Hin & Hb) Hdec; [destruct Hin|].
  cbn [fold_left]. destruct (Hdec a (or_introl eq_refl)) as [Ga|Ba].
  - rewrite step_good by exact Ga. destruct Hin as [->|Hin]; [contradiction|].
    apply IH; [exists ij; split; assumption|]. intros x Hx. apply Hdec. right. exact Hx.
  - rewrite step_bad by exact Ba. apply fold_none.
Qed.

Lemma good_dec ij : good ij \/ ~ good ij.
Proof. unfold good. destruct (res ij) as [c| |]; [destruct (Nat.eq_dec (length c) T); tauto|left; exact I|right; tauto]. Qed.
End Fold.

(* ---------- serial application ---------- *)
Section Apply.
Variables (failsafe : bool) (f : locfun V) (T X Y : nat) (obs hist fut : grid V).
Notation tk := (task V failsafe f obs hist fut).

Lemma apply_serial_is_fold :
  apply_serial V nan failsafe f T X Y obs hist fut = fold_left (step T tk) (indices X Y) (Some (empty_buf V X Y)).
Proof. reflexivity. Qed.

Theorem serial_spec : (forall ij, In ij (indices X Y) -> good T tk ij) ->
  exists b, apply_serial V nan failsafe f T X Y obs hist fut = Some b /\ dims b X Y /\
    forall i j, i < X -> j < Y -> ocell V b i j = Some (val T tk (i, j)).
Proof.
  intro Hg. rewrite apply_serial_is_fold.
  destruct (fold_spec T X Y tk (indices X Y) (empty_buf V X Y) (empty_dims X Y)) as (b & E & Hd & Hc).
  - intros [i j] H. apply in_indices in H. exact H.
  - exact Hg.
  - exists b. split; [exact E|]. split; [exact Hd|]. intros i j Hi Hj.
    apply (proj1 (Hc i j)). apply in_indices. split; assumption.
Qed.

Theorem serial_fail : (exists ij, In ij (indices X Y) /\ ~ good T tk ij) ->
  apply_serial V nan failsafe f T X Y obs hist fut = None.
Proof.
  intro H. rewrite apply_serial_is_fold. apply fold_fail; [exact H|]. intros ij _. apply good_dec.
Qed.
End Apply.

(* ---------- the pool: any completion order ---------- *)
Lemma fill_fold (results : list locres) : forall (sched : list nat) (slots : list (option locres)) k,
  length slots = length results -> k < length results ->
  nth k (fold_left (fun sl a => upd sl a (Some (nth a results (Raise V)))) sched slots) None =
  if in_dec Nat.eq_dec k sched then Some (nth k results (Raise V)) else nth k slots None.
Proof.
  induction sched as [|a sched IH]; intros slots k Hl Hk; cbn [fold_left]; [reflexivity|].
  rewrite IH by (rewrite ?upd_length; assumption).
  destruct (in_dec Nat.eq_dec k sched) as [I1|I1]; destruct (in_dec Nat.eq_dec k (a :: sched)) as [I2|I2]; try reflexivity.
  - exfalso. apply I2. right. exact I1.
  - destruct I2 as [->|I2]; [|contradiction]. apply upd_nth_same. lia.
  - apply upd_nth_other. intro E. apply I2. left. symmetry. exact E.
Qed.

Lemma fill_slots_perm (results : list locres) sched : Permutation sched (seq 0 (length results)) ->
  fill_slots V results sched = map Some results.
Proof.
  intro P. unfold fill_slots. apply (nth_ext _ _ None None).
  - assert (L : forall (s : list nat) (sl : list (option locres)), length (fold_left (fun sl a => upd sl a (Some (nth a results (Raise V)))) s sl) = length sl).
    { induction s as [|a s IH]; intro sl; cbn [fold_left]; [reflexivity|]. rewrite IH, upd_length. reflexivity. }
    rewrite L, repeat_length, map_length. reflexivity.
  - intros k Hk.
    assert (L : forall (s : list nat) (sl : list (option locres)), length (fold_left (fun sl a => upd sl a (Some (nth a results (Raise V)))) s sl) = length sl).
    { induction s as [|a s IH]; intro sl; cbn [fold_left]; [reflexivity|]. rewrite IH, upd_length. reflexivity. }
    rewrite L, repeat_length in Hk.
    rewrite fill_fold by (rewrite ?repeat_length; auto).
    destruct (in_dec Nat.eq_dec k sched) as [I|I].
    + rewrite (nth_indep (map Some results) None (Some (Raise V))) by (rewrite map_length; exact Hk).
      rewrite map_nth. reflexivity.
    + exfalso. apply I. apply (Permutation_in _ (Permutation_sym P)). apply in_seq. lia.
Qed.

Definition no_raise (results : list locres) : bool := forallb (fun r => match r with Raise _ => false | _ => true end) results.

Lemma starmap_perm results sched : Permutation sched (seq 0 (length results)) ->
  starmap V results sched = if no_raise results then Some results else None.
Proof.
  intro P. unfold starmap. rewrite (fill_slots_perm results sched P). unfold no_raise.
  assert (E1 : forall rs : list locres, forallb (fun s : option locres => match s with Some (Raise _) | None => false | _ => true end) (map Some rs)
             = forallb (fun r : locres => match r with Raise _ => false | _ => true end) rs).
  { induction rs as [|r rs IH]; cbn [map forallb]; [reflexivity|]. rewrite IH. destruct r; reflexivity. }
  assert (E2 : map (fun s : option locres => match s with Some r => r | None => Raise V end) (map Some results) = results).
  { rewrite map_map. apply map_id. }
  rewrite E1, E2. reflexivity.
Qed.

(** parallel = serial for EVERY completion order *)
Theorem parallel_eq_serial failsafe f T X Y obs hist fut sched :
  Permutation sched (seq 0 (X * Y)) ->
  apply_parallel V nan failsafe f T X Y obs hist fut sched = apply_serial V nan failsafe f T X Y obs hist fut.
Proof.
  intro P. unfold apply_parallel. set (tk := task V failsafe f obs hist fut).
  rewrite starmap_perm by (rewrite map_length, indices_length; exact P).
  destruct (no_raise (map tk (indices X Y))) eqn:E.
  - rewrite apply_serial_is_fold.
    assert (G : forall l ob, fold_left (fun ob p => match ob with None => None | Some b => write V nan T b (fst p) (snd p) end)
                               (combine l (map tk l)) ob = fold_left (step T tk) l ob).
    { induction l as [|a l IH]; intro ob; cbn [map combine fold_left]; [reflexivity|]. rewrite IH. reflexivity. }
    apply G.
  - symmetry. apply serial_fail. unfold no_raise in E.
    assert (Ex : exists ij, In ij (indices X Y) /\ tk ij = Raise V).
    { clear P. induction (indices X Y) as [|a l IH]; cbn in E; [discriminate|].
      destruct (tk a) eqn:Ta; cbn in E; try (destruct (IH E) as (ij & Hin & Hr); exists ij; split; [right; exact Hin|exact Hr]).
      exists a. split; [left; reflexivity|exact Ta]. }
    destruct Ex as (ij & Hin & Hr). exists ij. split; [exact Hin|]. unfold good. fold tk. rewrite Hr. tauto.
Qed.
End G.
