(** The window scatter loops (Model/Driver.v) are parametric in the values they move: if the per-window
    method maps related slices to related results, the drivers map related series to related outputs.
    With the relation "same value in another unit" this lifts the per-window statements of C02 / C04
    (Proofs/Affine_debiasers.v, C02_proofs, C04_proofs) to apply_location in every day-window mode. *)
From Coq Require Import ZArith List Bool Lia.
From IV Require Import NP GenWindows Grid Driver.
Import ListNotations.

Section Rel.
Context {T T' V V' : Type}.
Variables RTo RTh RTf : T -> T' -> Prop.   (* one relation per input series (obs, cm_hist, cm_future) *)
Variable RV : V -> V' -> Prop.

Definition orel {A B} (R : A -> B -> Prop) (o : option A) (o' : option B) : Prop :=
  match o, o' with None, None => True | Some v, Some v' => R v v' | _, _ => False end.

Lemma F2_length {A B} (R : A -> B -> Prop) l l' : Forall2 R l l' -> length l = length l'.
Proof. induction 1; cbn; congruence. Qed.

Lemma F2_nth_error {A B} (R : A -> B -> Prop) l l' : Forall2 R l l' -> forall k, orel R (nth_error l k) (nth_error l' k).
Proof. induction 1 as [|x x' l l' Hx Hl IH]; intros [|k]; cbn; auto. Qed.

Lemma take_rel {A B} (R : A -> B -> Prop) x x' idx : Forall2 R x x' -> Forall2 R (NP.take x idx) (NP.take x' idx).
Proof.
  intro H. unfold NP.take. induction idx as [|i idx IH]; [constructor|]. cbn [flat_map].
  pose proof (F2_nth_error R x x' H (Z.to_nat i)) as E.
  destruct (nth_error x (Z.to_nat i)), (nth_error x' (Z.to_nat i)); cbn in E; try contradiction; [|exact IH].
  destruct (0 <=? i)%Z; [constructor; assumption|exact IH].
Qed.

Lemma select_rel {A B} (R : A -> B -> Prop) x x' : Forall2 R x x' -> forall m, Forall2 R (NP.select x m) (NP.select x' m).
Proof.
  induction 1 as [|v v' x x' Hv Hx IH]; intros m; [destruct m; constructor|].
  destruct m as [|b m]; [constructor|]. cbn. destruct b; [constructor; [exact Hv|apply IH]|apply IH].
Qed.

Lemma upd_rel {A B} (R : A -> B -> Prop) l l' : Forall2 R l l' -> forall k v v', R v v' -> Forall2 R (upd l k v) (upd l' k v').
Proof.
  induction 1 as [|x x' l l' Hx Hl IH]; intros k v v' Hv; [constructor|].
  destruct k; cbn; constructor; auto.
Qed.

Lemma put_all_rel idx : forall b b' vals vals', Forall2 (orel RV) b b' -> Forall2 RV vals vals' ->
  Forall2 (orel RV) (put_all V b idx vals) (put_all V' b' idx vals').
Proof.
  induction idx as [|i idx IH]; intros b b' vals vals' Hb Hv; [exact Hb|].
  destruct Hv as [|v v' vals vals' Hv Hvs]; [exact Hb|]. cbn [put_all]. apply IH; [|exact Hvs].
  apply upd_rel; [exact Hb|exact Hv].
Qed.

Lemma put_rel b b' idx vals vals' : Forall2 (orel RV) b b' -> Forall2 RV vals vals' ->
  orel (Forall2 (orel RV)) (put V b idx vals) (put V' b' idx vals').
Proof.
  intros Hb Hv. unfold put. rewrite <- (F2_length _ _ _ Hv), <- (F2_length _ _ _ Hb).
  destruct (_ && _)%bool; cbn; [apply put_all_rel; assumption|exact I].
Qed.

Lemma driver_rel L S dA (Wc : Z -> list V) (Wc' : Z -> list V') :
  (forall ci, In ci (days_use S dA) -> Forall2 RV (Wc (fst ci)) (Wc' (fst ci))) ->
  orel (Forall2 (orel RV)) (driver V L S dA Wc) (driver V' L S dA Wc').
Proof.
  intro HW. unfold driver.
  assert (H0 : orel (Forall2 (orel RV)) (Some (repeat (@None V) (length dA))) (Some (repeat (@None V') (length dA)))).
  { cbn. induction (length dA); cbn; constructor; [exact I|assumption]. }
  revert H0. generalize (Some (repeat (@None V) (length dA))) (Some (repeat (@None V') (length dA))).
  revert HW. generalize (days_use S dA). intro l.
  induction l as [|ci l IH]; intros HW acc acc' H0; [exact H0|]. cbn [fold_left]. apply IH.
  - intros cj Hj. apply HW. right. exact Hj.
  - destruct acc as [b|], acc' as [b'|]; cbn in H0; try contradiction; [|exact I].
    apply put_rel; [exact H0|]. apply select_rel. apply HW. left. reflexivity.
Qed.

Variables (W : list T -> list T -> list T -> list V) (W' : list T' -> list T' -> list T' -> list V').
(** admissible window samples (e.g. non-empty; non-degenerate spread): the per-window method is only required to
    respect the relation on admissible slices *)
Variables OKo OKh OKf : list T -> Prop.
Hypothesis HW : forall o o' h h' f f', OKo o -> OKh h -> OKf f ->
  Forall2 RTo o o' -> Forall2 RTh h h' -> Forall2 RTf f f' -> Forall2 RV (W o h f) (W' o' h' f').

(** every window that is used holds admissible samples of all three series *)
Definition windows_ok (L S : Z) (dA dobs dhist dfut : list Z) (obs hist fut : list T) : Prop :=
  forall ci, In ci (days_use S dA) ->
    OKo (NP.take obs (days_indices_in_window L dobs (fst ci))) /\ OKh (NP.take hist (days_indices_in_window L dhist (fst ci))) /\
    OKf (NP.take fut (days_indices_in_window L dfut (fst ci))).

Theorem driver_rw_rel_ok L S dobs dhist dfut obs obs' hist hist' fut fut' :
  windows_ok L S dfut dobs dhist dfut obs hist fut ->
  Forall2 RTo obs obs' -> Forall2 RTh hist hist' -> Forall2 RTf fut fut' ->
  orel (Forall2 (orel RV)) (driver_rw V L S dobs dhist dfut obs hist fut W) (driver_rw V' L S dobs dhist dfut obs' hist' fut' W').
Proof.
  intros Hne Ho Hh Hf. unfold driver_rw. apply driver_rel. intros ci Hci. destruct (Hne ci Hci) as (N1 & N2 & N3).
  apply HW; try assumption; apply take_rel; assumption.
Qed.

Theorem driver_dc_rel_ok L S dobs dhist dfut obs obs' hist hist' fut fut' :
  windows_ok L S dobs dobs dhist dfut obs hist fut ->
  Forall2 RTo obs obs' -> Forall2 RTh hist hist' -> Forall2 RTf fut fut' ->
  orel (Forall2 (orel RV)) (driver_dc V L S dobs dhist dfut obs hist fut W) (driver_dc V' L S dobs dhist dfut obs' hist' fut' W').
Proof.
  intros Hne Ho Hh Hf. unfold driver_dc. apply driver_rel. intros ci Hci. destruct (Hne ci Hci) as (N1 & N2 & N3).
  apply HW; try assumption; apply take_rel; assumption.
Qed.
End Rel.

(** the common case: admissible = non-empty *)
Section NonEmpty.
Context {T T' V V' : Type}.
Variables RTo RTh RTf : T -> T' -> Prop.
Variable RV : V -> V' -> Prop.
Variables (W : list T -> list T -> list T -> list V) (W' : list T' -> list T' -> list T' -> list V').
Hypothesis HW : forall o o' h h' f f', o <> [] -> h <> [] -> f <> [] ->
  Forall2 RTo o o' -> Forall2 RTh h h' -> Forall2 RTf f f' -> Forall2 RV (W o h f) (W' o' h' f').
Definition nonempty (l : list T) : Prop := l <> [].
Definition windows_nonempty (L S : Z) (dA dobs dhist dfut : list Z) (obs hist fut : list T) : Prop :=
  windows_ok nonempty nonempty nonempty L S dA dobs dhist dfut obs hist fut.

Theorem driver_rw_rel L S dobs dhist dfut obs obs' hist hist' fut fut' :
  windows_nonempty L S dfut dobs dhist dfut obs hist fut ->
  Forall2 RTo obs obs' -> Forall2 RTh hist hist' -> Forall2 RTf fut fut' ->
  orel (Forall2 (orel RV)) (driver_rw V L S dobs dhist dfut obs hist fut W) (driver_rw V' L S dobs dhist dfut obs' hist' fut' W').
Proof. apply (driver_rw_rel_ok RTo RTh RTf RV W W' nonempty nonempty nonempty HW). Qed.

Theorem driver_dc_rel L S dobs dhist dfut obs obs' hist hist' fut fut' :
  windows_nonempty L S dobs dobs dhist dfut obs hist fut ->
  Forall2 RTo obs obs' -> Forall2 RTh hist hist' -> Forall2 RTf fut fut' ->
  orel (Forall2 (orel RV)) (driver_dc V L S dobs dhist dfut obs hist fut W) (driver_dc V' L S dobs dhist dfut obs' hist' fut' W').
Proof. apply (driver_dc_rel_ok RTo RTh RTf RV W W' nonempty nonempty nonempty HW). Qed.
End NonEmpty.
