(** ISIMIP steps 1 and 8 (rsds), for every calendar, every sample and every window size:
    the annual cycle of upper bounds is non-negative for non-negative values and — for odd window sizes —
    dominates every value observed on its day, so step 1 scales into [0, 1]; the debiased cycle is
    non-negative (both branches) and step 8 returns non-negative values. *)
From Coq Require Import QArith ZArith List Bool Lia Lqa Sorted.
From IV Require Import NP NPFacts QL QListFacts IsimipStep1 YearsDriver_proofs.
Import ListNotations.
Open Scope Q_scope.

(* ---------- maxima ---------- *)
Lemma qle_bool_false a b : Qle_bool a b = false -> b < a.
Proof. intro H. apply Qnot_le_lt. intro L. apply Qle_bool_iff in L. congruence. Qed.

Lemma qmax2_ge_l a b : a <= QL.qmax2 a b.
Proof. unfold QL.qmax2. destruct (Qle_bool a b) eqn:E; [apply Qle_bool_iff; exact E | apply Qle_refl]. Qed.
Lemma qmax2_ge_r a b : b <= QL.qmax2 a b.
Proof. unfold QL.qmax2. destruct (Qle_bool a b) eqn:E; [apply Qle_refl | apply Qlt_le_weak, qle_bool_false; exact E]. Qed.

Lemma fold_qmax2_ge l : forall x, x <= fold_left QL.qmax2 l x /\ (forall y, In y l -> y <= fold_left QL.qmax2 l x).
Proof.
  induction l as [|a l IH]; intro x; cbn [fold_left].
  - split; [apply Qle_refl | intros y []].
  - destruct (IH (QL.qmax2 x a)) as [H1 H2]. split.
    + eapply Qle_trans; [apply qmax2_ge_l | exact H1].
    + intros y [<- | Hy]; [eapply Qle_trans; [apply qmax2_ge_r | exact H1] | apply H2; exact Hy].
Qed.

Lemma qmax_ge l y : In y l -> y <= QL.qmax l.
Proof.
  destruct l as [|x l]; [intros []|]. unfold QL.qmax. destruct (fold_qmax2_ge l x) as [H1 H2].
  intros [<- | Hy]; [exact H1 | apply H2; exact Hy].
Qed.

Lemma qmax_ge_bound l c : c <= 0 -> (forall y, In y l -> c <= y) -> c <= QL.qmax l.
Proof.
  intros Hc H. destruct l as [|x l]; [exact Hc|].
  eapply Qle_trans; [apply (H x); left; reflexivity | apply qmax_ge; left; reflexivity].
Qed.

Lemma qmax_nonneg l : (forall y, In y l -> 0 <= y) -> 0 <= QL.qmax l.
Proof. apply qmax_ge_bound. apply Qle_refl. Qed.

(* ---------- sums ---------- *)
Lemma qsum_ge_const l c : (forall y, In y l -> c <= y) -> c * QL.qlen l <= QL.qsum l.
Proof.
  induction l as [|x l IH]; intro H.
  - rewrite qsum_nil. unfold QL.qlen. cbn [length]. change (inject_Z (Z.of_nat 0)) with 0. lra.
  - rewrite qsum_cons. unfold QL.qlen in *. cbn [length]. rewrite Nat2Z.inj_succ, <- Z.add_1_r, inject_Z_plus.
    assert (c <= x) by (apply H; left; reflexivity).
    assert (c * inject_Z (Z.of_nat (length l)) <= QL.qsum l) by (apply IH; intros y Hy; apply H; right; exact Hy).
    change (inject_Z 1) with 1. lra.
Qed.

(* ---------- positions ---------- *)
Lemma arange_fuel_seq m : forall a, NP.arange_fuel m a 1 = map (fun k => (a + Z.of_nat k)%Z) (seq 0 m).
Proof.
  induction m as [|m IH]; intro a; [reflexivity|].
  cbn [NP.arange_fuel seq map]. f_equal; [lia|].
  rewrite IH, <- seq_shift, map_map. apply map_ext. intro k. lia.
Qed.

Lemma arange1_seq n : NP.arange1 0 n = map Z.of_nat (seq 0 (Z.to_nat n)).
Proof.
  unfold NP.arange1, NP.arange. cbn [Z.leb Z.compare].
  replace ((n - 0 + 1 - 1) / 1)%Z with n by (rewrite Z.div_1_r; lia).
  rewrite arange_fuel_seq. apply map_ext. intro k. lia.
Qed.

Lemma arange1_length n : (0 <= n)%Z -> Z.of_nat (length (NP.arange1 0 n)) = n.
Proof. intro H. rewrite arange1_seq, map_length, seq_length. lia. Qed.

Lemma nth_positions {A} (f : Z -> A) (n : nat) (j : nat) (dflt : A) : (j < n)%nat ->
  nth j (map f (NP.arange1 0 (Z.of_nat n))) dflt = f (Z.of_nat j).
Proof.
  intro H. rewrite arange1_seq, Nat2Z.id, map_map.
  rewrite (nth_indep _ dflt (f (Z.of_nat 0))) by (rewrite map_length, seq_length; exact H).
  rewrite (map_nth (fun k => f (Z.of_nat k)) (seq 0 n) 0%nat j), seq_nth by exact H. reflexivity.
Qed.

Lemma run_max_length m size : length (run_max m size) = length m.
Proof. unfold run_max, positions. rewrite map_length, arange1_seq, map_length, seq_length. lia. Qed.
Lemma run_mean_length m size : length (run_mean m size) = length m.
Proof. unfold run_mean, positions. rewrite map_length, arange1_seq, map_length, seq_length. lia. Qed.

Lemma window_length m size i : (0 <= size)%Z -> QL.qlen (window m size i) == inject_Z size.
Proof. intro H. unfold QL.qlen, window. rewrite map_length, arange1_length by exact H. reflexivity. Qed.

Lemma wrap_get_nonneg m i : (forall y, In y m -> 0 <= y) -> 0 <= wrap_get m i.
Proof.
  intro H. unfold wrap_get.
  destruct (nth_in_or_default (Z.to_nat (i mod Z.of_nat (length m))) m 0) as [Hin | ->]; [apply H; exact Hin | apply Qle_refl].
Qed.

Lemma window_nonneg m size i y : (forall y, In y m -> 0 <= y) -> In y (window m size i) -> 0 <= y.
Proof. intros H Hy. unfold window in Hy. apply in_map_iff in Hy. destruct Hy as [k [<- _]]. apply wrap_get_nonneg; exact H. Qed.

Lemma run_max_nonneg m size y : (forall y, In y m -> 0 <= y) -> In y (run_max m size) -> 0 <= y.
Proof.
  intros H Hy. unfold run_max in Hy. apply in_map_iff in Hy. destruct Hy as [i [<- _]].
  apply qmax_nonneg. intros z Hz. eapply window_nonneg; eassumption.
Qed.

Lemma run_mean_nonneg m size y : (0 < size)%Z -> (forall y, In y m -> 0 <= y) -> In y (run_mean m size) -> 0 <= y.
Proof.
  intros Hs H Hy. unfold run_mean in Hy. apply in_map_iff in Hy. destruct Hy as [i [<- _]].
  rewrite Qred_correct. apply Qle_shift_div_l; [change 0 with (inject_Z 0); rewrite <- Zlt_Qlt; exact Hs|].
  rewrite Qmult_0_l.
  assert (G := qsum_ge_const (window m size i) 0 (fun z Hz => window_nonneg m size i z H Hz)). lra.
Qed.

(* ---------- multi-year maxima ---------- *)
Lemma vals_on_day_in days : forall vals d v, In (d, v) (combine days vals) -> In v (vals_on_day days vals d).
Proof.
  unfold vals_on_day. induction days as [|d0 days IH]; intros vals d v H; [destruct H|].
  destruct vals as [|v0 vals]; [destruct H|]. cbn [combine In] in H. cbn [map NP.select].
  destruct H as [E | H].
  - inversion E; subst. rewrite Z.eqb_refl. left; reflexivity.
  - destruct (Z.eqb d d0); [right|]; apply IH; exact H.
Qed.

Lemma vals_on_day_sub days : forall vals d v, In v (vals_on_day days vals d) -> In v vals.
Proof.
  unfold vals_on_day. induction days as [|d0 days IH]; intros vals d v H.
  - destruct vals; destruct H.
  - destruct vals as [|v0 vals]; [destruct H|]. cbn [map NP.select] in H.
    destruct (Z.eqb d d0); [destruct H as [<- | H]; [left; reflexivity|]|]; right; eapply IH; exact H.
Qed.

Lemma multiyear_max_nonneg days vals y : (forall v, In v vals -> 0 <= v) -> In y (multiyear_max days vals) -> 0 <= y.
Proof.
  intros H Hy. unfold multiyear_max in Hy. apply in_map_iff in Hy. destruct Hy as [d [<- _]].
  apply qmax_nonneg. intros v Hv. apply H. eapply vals_on_day_sub; exact Hv.
Qed.

Theorem annual_cycle_nonneg size days vals y : (0 < size)%Z -> (forall v, In v vals -> 0 <= v) ->
  In y (annual_cycle size days vals) -> 0 <= y.
Proof.
  intros Hs H Hy. unfold annual_cycle in Hy.
  eapply run_mean_nonneg; [exact Hs | | exact Hy].
  intros z Hz. eapply run_max_nonneg; [|exact Hz]. intros w Hw. eapply multiyear_max_nonneg; eassumption.
Qed.

(* ---------- dominance for odd window sizes ---------- *)
Lemma wrap_get_congr m i j : (i mod Z.of_nat (length m) = j mod Z.of_nat (length m))%Z -> wrap_get m i = wrap_get m j.
Proof. intro H. unfold wrap_get. rewrite H. reflexivity. Qed.

Lemma wrap_get_run_max m size j : m <> [] ->
  wrap_get (run_max m size) j = QL.qmax (window m size (j mod Z.of_nat (length m))).
Proof.
  intro Hm. unfold wrap_get. rewrite run_max_length. unfold run_max, positions.
  assert (Hn : (0 < Z.of_nat (length m))%Z) by (destruct m; [congruence | cbn [length]; lia]).
  rewrite nth_positions.
  - rewrite Z2Nat.id by (apply Z.mod_pos_bound; exact Hn). reflexivity.
  - apply Nat2Z.inj_lt. rewrite Z2Nat.id by (apply Z.mod_pos_bound; exact Hn). apply Z.mod_pos_bound; exact Hn.
Qed.

Lemma window_of_run_max_dominates m size i y : m <> [] -> (0 < size)%Z -> (size mod 2 = 1)%Z ->
  In y (window (run_max m size) size i) -> wrap_get m i <= y.
Proof.
  intros Hm Hs Hodd Hy. unfold window in Hy at 1. apply in_map_iff in Hy. destruct Hy as [k [<- Hk]].
  apply in_arange1 in Hk. rewrite wrap_get_run_max by exact Hm.
  apply qmax_ge. unfold window. apply in_map_iff.
  exists (size - 1 - k)%Z. split; [|apply in_arange1; lia].
  apply wrap_get_congr.
  assert (Hn : (0 < Z.of_nat (length m))%Z) by (destruct m; [congruence | cbn [length]; lia]).
  set (n := Z.of_nat (length m)) in *.
  replace ((i - size / 2 + k) mod n - size / 2 + (size - 1 - k))%Z
    with (((i - size / 2 + k) mod n) + (size - 1 - k - size / 2))%Z by lia.
  rewrite Zplus_mod_idemp_l. f_equal.
  pose proof (Z.div_mod size 2 ltac:(lia)) as Hdm. rewrite Hodd in Hdm. lia.
Qed.

Theorem cycle_dominates_daily_max size days vals i : (0 < size)%Z -> (size mod 2 = 1)%Z ->
  (i < length (NP.unique days))%nat ->
  nth i (multiyear_max days vals) 0 <= nth i (annual_cycle size days vals) 0.
Proof.
  intros Hs Hodd Hi. set (mm := multiyear_max days vals).
  assert (Hlen : length mm = length (NP.unique days)) by (unfold mm, multiyear_max; apply map_length).
  assert (Hm : mm <> []) by (intro E; rewrite E in Hlen; cbn in Hlen; lia).
  unfold annual_cycle. fold mm. unfold run_mean, positions. rewrite run_max_length.
  rewrite nth_positions by lia. rewrite Qred_correct.
  assert (G : nth i mm 0 * QL.qlen (window (run_max mm size) size (Z.of_nat i)) <= QL.qsum (window (run_max mm size) size (Z.of_nat i))).
  { apply qsum_ge_const. intros y Hy.
    replace (nth i mm 0) with (wrap_get mm (Z.of_nat i)).
    - eapply window_of_run_max_dominates; eassumption.
    - unfold wrap_get. rewrite Z.mod_small by lia. rewrite Nat2Z.id. reflexivity. }
  rewrite window_length in G by lia.
  apply Qle_shift_div_l; [change 0 with (inject_Z 0); rewrite <- Zlt_Qlt; exact Hs | exact G].
Qed.

(* ---------- every value is dominated by the cycle entry of its day ---------- *)
Lemma nth_map_lt {A B} (f : A -> B) (l : list A) (i : nat) (da : A) (db : B) : (i < length l)%nat ->
  nth i (map f l) db = f (nth i l da).
Proof.
  intro H. rewrite (nth_indep _ db (f da)) by (rewrite map_length; exact H). apply map_nth.
Qed.

Theorem cycle_dominates_values size days vals i v : (0 < size)%Z -> (size mod 2 = 1)%Z ->
  (i < length (NP.unique days))%nat -> In (nth i (NP.unique days) 0%Z, v) (combine days vals) ->
  v <= nth i (annual_cycle size days vals) 0.
Proof.
  intros Hs Hodd Hi Hin.
  eapply Qle_trans; [|apply cycle_dominates_daily_max; eassumption].
  unfold multiyear_max. rewrite (nth_map_lt _ _ _ 0%Z) by exact Hi.
  apply qmax_ge. apply vals_on_day_in. exact Hin.
Qed.

(* ---------- np.unique is strictly increasing; with 366 entries in 1..366 it is 1..366 ---------- *)
Lemma zinsert_sorted v l : StronglySorted Z.lt l -> StronglySorted Z.lt (NP.zinsert v l).
Proof.
  induction 1 as [|a r Hr IH Ha]; cbn [NP.zinsert].
  - constructor; constructor.
  - destruct (v <? a)%Z eqn:E1.
    + constructor; [constructor; assumption|]. constructor; [lia|].
      eapply Forall_impl; [|exact Ha]. intros x Hx. cbn beta in Hx. lia.
    + destruct (v =? a)%Z eqn:E2; [constructor; assumption|].
      constructor; [exact IH|]. apply Forall_forall. intros x Hx.
      apply YearsDriver_proofs.zinsert_in in Hx. destruct Hx as [-> | Hx]; [lia|].
      rewrite Forall_forall in Ha. apply Ha; exact Hx.
Qed.

Lemma unique_sorted l : StronglySorted Z.lt (NP.unique l).
Proof. induction l as [|x l IH]; cbn [NP.unique fold_right]; [constructor | apply zinsert_sorted; exact IH]. Qed.

Lemma sorted_gap l : StronglySorted Z.lt l -> forall i j, (i <= j < length l)%nat ->
  (Z.of_nat j - Z.of_nat i <= nth j l 0 - nth i l 0)%Z.
Proof.
  induction 1 as [|a r Hr IH Ha]; intros i j Hij; [cbn in Hij; lia|].
  destruct j as [|j]; [assert (i = 0%nat) by lia; subst; lia|].
  destruct i as [|i].
  - cbn [nth length] in *. assert (Hj : (0 <= j < length r)%nat) by lia.
    specialize (IH 0%nat j Hj).
    assert (a < nth 0 r 0)%Z.
    { rewrite Forall_forall in Ha. apply Ha. apply nth_In. lia. }
    lia.
  - cbn [nth length] in *. assert (Hj : (i <= j < length r)%nat) by lia. specialize (IH i j Hj). lia.
Qed.

Lemma full_year_days l i : StronglySorted Z.lt l -> (forall x, In x l -> 1 <= x <= 366)%Z -> length l = 366%nat ->
  (i < 366)%nat -> nth i l 0%Z = (Z.of_nat i + 1)%Z.
Proof.
  intros Hs Hr Hl Hi.
  assert (G1 := sorted_gap l Hs 0%nat i ltac:(lia)).
  assert (G2 := sorted_gap l Hs i 365%nat ltac:(lia)).
  assert (B1 := Hr (nth 0 l 0%Z) ltac:(apply nth_In; lia)).
  assert (B2 := Hr (nth 365 l 0%Z) ltac:(apply nth_In; lia)).
  lia.
Qed.

(* ---------- looking a day up ---------- *)
Lemma lookup_day_spec cyc : forall ud d c, lookup_day cyc ud d = Some c ->
  exists i, nth_error ud i = Some d /\ nth_error cyc i = Some c.
Proof.
  induction cyc as [|c0 cyc IH]; intros ud d c H; [discriminate|].
  destruct ud as [|u ud]; [discriminate|]. cbn [lookup_day] in H.
  destruct (Z.eqb u d) eqn:E.
  - inversion H; subst. apply Z.eqb_eq in E; subst. exists 0%nat. split; reflexivity.
  - destruct (IH ud d c H) as (i & H1 & H2). exists (S i). split; assumption.
Qed.

Lemma per_day_spec cyc days d c : length cyc = length (NP.unique days) ->
  (forall x, In x days -> 1 <= x <= 366)%Z -> In d days ->
  per_day cyc (NP.unique days) d = Some c ->
  exists i, (i < length (NP.unique days))%nat /\ nth i (NP.unique days) 0%Z = d /\ nth_error cyc i = Some c.
Proof.
  intros Hlen Hr Hd H. unfold per_day in H.
  destruct (Nat.eqb (length (NP.unique days)) 366) eqn:E.
  - apply Nat.eqb_eq in E. assert (1 <= d <= 366)%Z by (apply Hr; exact Hd).
    exists (Z.to_nat (d - 1)). split; [lia|]. split; [|exact H].
    rewrite (full_year_days _ _ (unique_sorted days)); [lia| |exact E|lia].
    intros x Hx. apply Hr. apply YearsDriver_proofs.unique_in; exact Hx.
  - destruct (lookup_day_spec _ _ _ _ H) as (i & H1 & H2). exists i.
    assert (i < length (NP.unique days))%nat by (apply nth_error_Some; congruence).
    split; [assumption|]. split; [apply nth_error_nth; exact H1 | exact H2].
Qed.

Lemma some_inj {A} (a b : A) : Some a = Some b -> a = b.
Proof. congruence. Qed.

(* ---------- aligned products ---------- *)
Lemma map2o_spec f : forall vals s l, map2o f vals s = Some l ->
  forall y, In y l -> exists k v c, nth_error vals k = Some v /\ nth_error s k = Some (Some c) /\ y = Qred (f v c).
Proof.
  induction vals as [|v vals IH]; intros s l H y Hy.
  - destruct s; [inversion H; subst; destruct Hy | discriminate].
  - destruct s as [|[c|] s]; cbn [map2o] in H; try discriminate.
    destruct (map2o f vals s) as [r|] eqn:E; [|discriminate]. inversion H; subst. destruct Hy as [<- | Hy].
    + exists 0%nat, v, c. repeat split.
    + destruct (IH s r E y Hy) as (k & v' & c' & H1 & H2 & H3). exists (S k), v', c'. repeat split; assumption.
Qed.

Lemma nth_error_combine {A B} (a : list A) : forall (b : list B) k x y,
  nth_error a k = Some x -> nth_error b k = Some y -> In (x, y) (combine a b).
Proof.
  induction a as [|a0 a IH]; intros b k x y Ha Hb; [destruct k; discriminate|].
  destruct b as [|b0 b]; [destruct k; discriminate|].
  destruct k as [|k]; cbn [nth_error] in *; [inversion Ha; inversion Hb; subst; left; reflexivity|].
  right. eapply IH; eassumption.
Qed.

(** step 1 scales non-negative values into [0, 1] (odd window size) *)
Theorem step1_scale_in_unit_interval size days vals l :
  (0 < size)%Z -> (size mod 2 = 1)%Z -> (forall x, In x days -> 1 <= x <= 366)%Z ->
  (forall v, In v vals -> 0 <= v) ->
  step1_scale vals days (annual_cycle size days vals) (NP.unique days) = Some l ->
  forall y, In y l -> 0 <= y <= 1.
Proof.
  intros Hs Hodd Hr Hv H y Hy. unfold step1_scale in H.
  destruct (map2o_spec _ _ _ _ H y Hy) as (k & v & s & Hk1 & Hk2 & ->). rewrite Qred_correct.
  rewrite nth_error_map in Hk2. destruct (nth_error days k) as [d|] eqn:Ed; [|discriminate].
  cbn [option_map] in Hk2. apply some_inj in Hk2. rename Hk2 into Hp.
  assert (Hd : In d days) by (eapply nth_error_In; exact Ed).
  set (cyc := annual_cycle size days vals) in *.
  assert (Hlen : length cyc = length (NP.unique days)).
  { unfold cyc, annual_cycle. rewrite run_mean_length, run_max_length. unfold multiyear_max. apply map_length. }
  destruct (per_day_spec _ days d s ltac:(rewrite map_length; exact Hlen) Hr Hd Hp) as (i & Hi & Hnth & Hs').
  rewrite nth_error_map in Hs'. destruct (nth_error cyc i) as [c|] eqn:Ec; [|discriminate].
  cbn [option_map] in Hs'. apply some_inj in Hs'. rename Hs' into Hsc.
  assert (Hc : nth i cyc 0 = c) by (apply nth_error_nth; exact Ec).
  assert (Hvc : v <= c).
  { rewrite <- Hc. apply cycle_dominates_values; [exact Hs | exact Hodd | exact Hi |].
    rewrite Hnth. eapply nth_error_combine; eassumption. }
  assert (Hv0 : 0 <= v) by (apply Hv; eapply nth_error_In; exact Hk1).
  rewrite <- Hsc. clear Hsc.
  destruct (Qeq_bool c 0) eqn:E0.
  - apply Qeq_bool_iff in E0. split; lra.
  - assert (Hcpos : 0 < c).
    { apply Qle_lt_or_eq in Hv0. assert (~ c == 0) by (intro Q; apply Qeq_bool_iff in Q; congruence).
      destruct (Qlt_le_dec 0 c) as [|Hle]; [assumption|]. exfalso. apply H0. lra. }
    split.
    + apply Qmult_le_0_compat; [exact Hv0|]. apply Qlt_le_weak. apply Qlt_shift_div_l; [exact Hcpos | lra].
    + setoid_replace (v * (1 / c)) with (v / c) by (field; lra).
      apply Qle_shift_div_r; [exact Hcpos | lra].
Qed.

(* ---------- the debiased cycle and step 8 ---------- *)
Lemma lookup_day_in cyc ud d c : lookup_day cyc ud d = Some c -> In c cyc.
Proof. intro H. destruct (lookup_day_spec _ _ _ _ H) as (i & _ & H2). eapply nth_error_In; exact H2. Qed.

Lemma debias_factor_pos h f : 0 < debias_factor h f.
Proof. unfold debias_factor. eapply Qlt_le_trans; [|apply qmax2_ge_l]. reflexivity. Qed.

Lemma map3_in f : forall a b c y, In y (map3 f a b c) -> exists x h g, In x a /\ y = f x h g.
Proof.
  induction a as [|x a IH]; intros b c y H; [destruct H|].
  destruct b as [|h b]; [destruct H|]. destruct c as [|g c]; [destruct H|].
  cbn [map3] in H. destruct H as [<- | H].
  - exists x, h, g. split; [left; reflexivity | reflexivity].
  - destruct (IH b c y H) as (x' & h' & g' & H1 & H2). exists x', h', g'. split; [right; exact H1 | exact H2].
Qed.

Theorem debiased_cycle_nonneg co uo ch uh cf uf y :
  (forall v, In v co -> 0 <= v) -> (forall v, In v ch -> 0 <= v) -> (forall v, In v cf -> 0 <= v) ->
  In y (debiased_cycle co uo ch uh cf uf) -> 0 <= y.
Proof.
  intros Ho Hh Hf Hy. unfold debiased_cycle in Hy.
  destruct (zlist_eqb uh uf && zlist_eqb uo uf).
  - apply map3_in in Hy. destruct Hy as (o & h & f & Hin & ->). rewrite Qred_correct.
    apply Qmult_le_0_compat; [apply Ho; exact Hin | apply Qlt_le_weak, debias_factor_pos].
  - apply in_map_iff in Hy. destruct Hy as ([vf d] & <- & Hin).
    assert (0 <= vf) by (apply Hf; eapply in_combine_l; exact Hin).
    destruct (lookup_day ch uh d) as [vh|] eqn:E1; [|assumption].
    destruct (lookup_day co uo d) as [vo|] eqn:E2; [|assumption].
    assert (0 <= vh) by (apply Hh; eapply lookup_day_in; exact E1).
    assert (0 <= vo) by (apply Ho; eapply lookup_day_in; exact E2).
    destruct (Qeq_bool vh 0) eqn:E0; [assumption|]. rewrite Qred_correct.
    assert (~ vh == 0) by (intro Q; apply Qeq_bool_iff in Q; congruence).
    apply Qle_shift_div_l; [lra | nra].
Qed.

Theorem step8_nonneg vals days cyc ud l :
  (forall v, In v vals -> 0 <= v) -> (forall c, In c cyc -> 0 <= c) ->
  step8_rescale vals days cyc ud = Some l -> forall y, In y l -> 0 <= y.
Proof.
  intros Hv Hc H y Hy. unfold step8_rescale in H.
  destruct (map2o_spec _ _ _ _ H y Hy) as (k & v & c & Hk1 & Hk2 & ->). rewrite Qred_correct.
  rewrite nth_error_map in Hk2. destruct (nth_error days k) as [d|]; [|discriminate].
  cbn [option_map] in Hk2. apply some_inj in Hk2. rename Hk2 into Hp.
  apply Qmult_le_0_compat; [apply Hv; eapply nth_error_In; exact Hk1|].
  apply Hc. unfold per_day in Hp. destruct (Nat.eqb (length ud) 366).
  - eapply nth_error_In; exact Hp.
  - eapply lookup_day_in; exact Hp.
Qed.

(** rsds end to end through steps 1 and 8: whatever non-negative series steps 2-7 hand over, the output
    of step 8 — rescaling by the debiased annual cycle of upper bounds computed in step 1 from
    non-negative obs / cm_hist / cm_future — is non-negative *)
Theorem rsds_output_nonneg size days_o obs days_h hist days_f fut x l :
  (0 < size)%Z ->
  (forall v, In v obs -> 0 <= v) -> (forall v, In v hist -> 0 <= v) -> (forall v, In v fut -> 0 <= v) ->
  (forall v, In v x -> 0 <= v) ->
  step8_rescale x days_f
    (debiased_cycle (annual_cycle size days_o obs) (NP.unique days_o)
                    (annual_cycle size days_h hist) (NP.unique days_h)
                    (annual_cycle size days_f fut) (NP.unique days_f)) (NP.unique days_f) = Some l ->
  forall y, In y l -> 0 <= y.
Proof.
  intros Hs Ho Hh Hf Hx H. eapply step8_nonneg; [exact Hx | | exact H].
  intros c Hc. refine (debiased_cycle_nonneg _ _ _ _ _ _ c _ _ _ Hc);
    intros v Hv; [apply (annual_cycle_nonneg size days_o obs v Hs Ho Hv)
                 | apply (annual_cycle_nonneg size days_h hist v Hs Hh Hv)
                 | apply (annual_cycle_nonneg size days_f fut v Hs Hf Hv)].
Qed.


(** non-vacuity: a two-year record on three days of the year; the hypotheses hold and the options are Some *)
Definition ex_days : list Z := [364; 365; 1; 364; 365; 1]%Z.
Definition ex_vals : list Q := [3; 5; 2; 4; 1; 6].
Lemma rsds_example :
  step1_scale ex_vals ex_days (annual_cycle 3 ex_days ex_vals) (NP.unique ex_days)
    = Some [(1 # 2); (5 # 6); (1 # 3); (2 # 3); (1 # 6); 1]
  /\ exists l, step8_rescale [(1 # 2); 1; 0; (1 # 4); (3 # 4); 1] ex_days
       (debiased_cycle (annual_cycle 3 ex_days ex_vals) (NP.unique ex_days)
                       (annual_cycle 3 ex_days ex_vals) (NP.unique ex_days)
                       (annual_cycle 3 ex_days ex_vals) (NP.unique ex_days)) (NP.unique ex_days) = Some l.
Proof. split; [vm_compute; reflexivity | eexists; vm_compute; reflexivity]. Qed.

(** the oddness hypothesis is needed: with an even window size the windows of scipy's filters are not
    symmetric and the cycle can fall below a day's maximum (the default size, 31, is odd) *)
Lemma cycle_dominates_even_refuted :
  exists days vals i v, (i < length (NP.unique days))%nat /\ In (nth i (NP.unique days) 0%Z, v) (combine days vals) /\
    ~ v <= nth i (annual_cycle 2 days vals) 0.
Proof.
  exists [1; 2; 3]%Z, [0; 10; 0], 1%nat, 10. split; [vm_compute; lia|]. split; [right; left; reflexivity|].
  vm_compute. intro H. apply H. reflexivity.
Qed.
