(** C10 for the precipitation models used by QuantileMapping / ECDFM for pr (REGENERATED: GenPrecip): the value a
    quantile is mapped back to is never negative, a quantile in the dry part of the hurdle model comes back as an
    exact zero, and the censored model returns an exact zero or a value not below the censoring threshold. *)
From Coq Require Import QArith ZArith List Bool Lqa.
From IV Require Import QL XQ Dist QFacts GenPrecip.
Import ListNotations.
Open Scope Q_scope.

Section Precip.
Context {P : Type} (D : dist P).
(** the amounts distribution lives on the non-negative half line (gamma): its quantile function is non-negative *)
Hypothesis ppf_nonneg : forall p q, 0 <= ppf D p q.

Theorem hurdle_ppf_nonneg q p0 fr : 0 <= hurdle_ppf D q p0 fr.
Proof. unfold hurdle_ppf. cbv zeta. destruct (negb (Qle_bool q p0)); [apply ppf_nonneg|apply Qle_refl]. Qed.

Theorem hurdle_ppf_dry_exact_zero q p0 fr : q <= p0 -> hurdle_ppf D q p0 fr = 0.
Proof. intro H. unfold hurdle_ppf. cbv zeta. apply Qle_bool_iff in H. rewrite H. reflexivity. Qed.

Theorem censored_ppf_zero_or_above thr q gf : 0 <= thr ->
  censored_ppf thr true q gf D = 0 \/ thr <= censored_ppf thr true q gf D.
Proof.
  intro Ht. unfold censored_ppf. cbv zeta. destruct (Qle_bool thr (ppf D gf q)) eqn:E; cbn [negb]; [right; qb; exact E|left; reflexivity].
Qed.

Theorem censored_ppf_nonneg thr c q gf : 0 <= censored_ppf thr c q gf D.
Proof.
  unfold censored_ppf. cbv zeta. destruct c; [|apply ppf_nonneg].
  destruct (negb (Qle_bool thr (ppf D gf q))); [apply Qle_refl|apply ppf_nonneg].
Qed.

Theorem ignorezeros_ppf_nonneg q fr : 0 <= ignorezeros_ppf D q fr.
Proof. unfold ignorezeros_ppf. destruct (negb _); [apply ppf_nonneg|apply Qle_refl]. Qed.
End Precip.

(** the precipitation models as distributions in the sense of the per-window methods *)
From IV Require Import GenUtils GenScalars.
From Coq Require Import String.
Open Scope Q_scope.
Definition hurdle_dist {P} (D : dist P) (rand : bool) (u : Q) : dist (Q * P) :=
  mkDist (hurdle_fit D) (fun p x => hurdle_cdf D rand x (fst p) (snd p) u) (fun p q => hurdle_ppf D q (fst p) (snd p)).
Definition censored_dist {P} (G : dist P) (gfit : list Q -> P) (thr : Q) (cin : bool) (u : Q) : dist P :=
  mkDist gfit (fun p x => censored_cdf thr x p G u) (fun p q => censored_ppf thr cin q p G).

(** parametric QuantileMapping: the output is a quantile of the distribution fitted to obs *)
Theorem qm_param_output_nonneg {P} (D : dist P) thr obs hist fut out :
  (forall p q, 0 <= ppf D p q) ->
  qm_apply_on_window "no_detrending" "parametric" D thr obs hist fut = Some out -> Forall (fun v => 0 <= v) out.
Proof.
  intros Hp E. unfold qm_apply_on_window, qm_standard_qm in E. cbn [String.eqb Ascii.eqb Bool.eqb] in E. injection E as <-.
  apply Forall_forall. intros v Hv. apply in_map_iff in Hv. destruct Hv as (x & <- & _). apply Hp.
Qed.

Theorem qm_hurdle_output_nonneg {P} (D : dist P) rand u thr obs hist fut out :
  (forall p q, 0 <= ppf D p q) ->
  qm_apply_on_window "no_detrending" "parametric" (hurdle_dist D rand u) thr obs hist fut = Some out -> Forall (fun v => 0 <= v) out.
Proof. intros Hp. apply qm_param_output_nonneg. intros p q. apply hurdle_ppf_nonneg. exact Hp. Qed.

Theorem qm_censored_output_zero_or_above {P} (G : dist P) gfit cth u thr obs hist fut out : 0 <= cth ->
  qm_apply_on_window "no_detrending" "parametric" (censored_dist G gfit cth true u) thr obs hist fut = Some out ->
  Forall (fun v => v = 0 \/ cth <= v) out.
Proof.
  intros Hc E. unfold qm_apply_on_window, qm_standard_qm in E. cbn [String.eqb Ascii.eqb Bool.eqb] in E. injection E as <-.
  apply Forall_forall. intros v Hv. apply in_map_iff in Hv. destruct Hv as (x & <- & _).
  cbn [ppf censored_dist]. apply censored_ppf_zero_or_above. exact Hc.
Qed.
