(** C16 part 2: NumPy's continuous quantile family (piecewise-linear order-statistic
    interpolation at the virtual index). *)
From Coq Require Import QArith Qabs Qround ZArith List Bool Lia Lqa Sorted.
From IV Require Import QL Ecdf QFacts C16_step.
Import ListNotations.
Open Scope Q_scope.

Lemma lerp_at_high s v : inject_Z (zlen s - 1) <= v -> lerp_at s v = nthq s (zlen s - 1).
Proof. intro H. unfold lerp_at. apply Qle_bool_true in H. rewrite H. reflexivity. Qed.

Lemma lerp_at_low s v : v < inject_Z (zlen s - 1) -> v < 0 -> lerp_at s v = nthq s 0.
Proof.
  intros H1 H2. unfold lerp_at. apply Qle_bool_false in H1. rewrite H1.
  apply Qlt_bool_true in H2. rewrite H2. reflexivity.
Qed.

Lemma lerp_at_mid s v : v < inject_Z (zlen s - 1) -> 0 <= v ->
  lerp_at s v == nthq s (Qfloor v) + (nthq s (Qfloor v + 1) - nthq s (Qfloor v)) * (v - inject_Z (Qfloor v)).
Proof.
  intros H1 H2. unfold lerp_at. apply Qle_bool_false in H1. rewrite H1.
  apply Qlt_bool_false in H2. rewrite H2. apply Qred_correct.
Qed.

Lemma floor_frac v : 0 <= v - inject_Z (Qfloor v) /\ v - inject_Z (Qfloor v) < 1.
Proof.
  pose proof (Qfloor_le v). pose proof (Qlt_floor v) as H2. rewrite inject_Z_plus in H2.
  change (inject_Z 1) with 1 in H2. split; lra.
Qed.

Lemma lerp_at_bracket s v : sortedQ s -> v < inject_Z (zlen s - 1) -> 0 <= v ->
  (0 <= Qfloor v <= zlen s - 2)%Z /\
  nthq s (Qfloor v) <= lerp_at s v /\ lerp_at s v <= nthq s (Qfloor v + 1).
Proof.
  intros Hs H1 H2.
  assert (K : (0 <= Qfloor v <= zlen s - 2)%Z).
  { split; [apply Qfloor_nonneg; exact H2|]. pose proof (Qfloor_lt_Z v (zlen s - 1) H1). lia. }
  split; [exact K|].
  rewrite (lerp_at_mid s v H1 H2).
  destruct (floor_frac v) as [G0 G1]. set (g := v - inject_Z (Qfloor v)) in *.
  assert (AB : nthq s (Qfloor v) <= nthq s (Qfloor v + 1)) by (apply nthq_mono; [exact Hs|lia|lia]).
  set (a := nthq s (Qfloor v)) in *. set (b := nthq s (Qfloor v + 1)) in *.
  assert (P : 0 <= (b - a) * g) by (apply Qmult_le_0_compat; lra).
  assert (P' : 0 <= (b - a) * (1 - g)) by (apply Qmult_le_0_compat; lra).
  split; lra.
Qed.

Lemma lerp_at_range s v : sortedQ s -> s <> [] -> nthq s 0 <= lerp_at s v <= nthq s (zlen s - 1).
Proof.
  intros Hs Hne. pose proof (zlen_pos s Hne) as Hn.
  destruct (Qlt_le_dec v (inject_Z (zlen s - 1))) as [H1|H1].
  - destruct (Qlt_le_dec v 0) as [H2|H2].
    + rewrite (lerp_at_low s v H1 H2). split; [lra|apply nthq_mono; [exact Hs|lia|lia]].
    + destruct (lerp_at_bracket s v Hs H1 H2) as (K & L & U).
      split.
      * apply Qle_trans with (nthq s (Qfloor v)); [apply nthq_mono; [exact Hs|lia|lia]|exact L].
      * apply Qle_trans with (nthq s (Qfloor v + 1)); [exact U|apply nthq_mono; [exact Hs|lia|lia]].
  - rewrite (lerp_at_high s v H1). split; [apply nthq_mono; [exact Hs|lia|lia]|lra].
Qed.

Lemma lerp_at_mono s v1 v2 : sortedQ s -> s <> [] -> v1 <= v2 -> lerp_at s v1 <= lerp_at s v2.
Proof.
  intros Hs Hne H12.
  destruct (Qlt_le_dec v2 (inject_Z (zlen s - 1))) as [B2|B2].
  2:{ rewrite (lerp_at_high s v2 B2). apply (lerp_at_range s v1 Hs Hne). }
  destruct (Qlt_le_dec v1 0) as [A1|A1].
  { rewrite (lerp_at_low s v1 ltac:(lra) A1). apply (lerp_at_range s v2 Hs Hne). }
  assert (B1 : v1 < inject_Z (zlen s - 1)) by lra. assert (A2 : 0 <= v2) by lra.
  destruct (lerp_at_bracket s v1 Hs B1 A1) as (K1 & L1 & U1).
  destruct (lerp_at_bracket s v2 Hs B2 A2) as (K2 & L2 & U2).
  pose proof (Qfloor_resp_le v1 v2 H12) as Kle.
  destruct (Z.eq_dec (Qfloor v1) (Qfloor v2)) as [E|NE].
  - rewrite (lerp_at_mid s v1 B1 A1), (lerp_at_mid s v2 B2 A2). rewrite E.
    assert (AB : nthq s (Qfloor v2) <= nthq s (Qfloor v2 + 1)) by (apply nthq_mono; [exact Hs|lia|lia]).
    set (a := nthq s (Qfloor v2)) in *. set (b := nthq s (Qfloor v2 + 1)) in *.
    assert (P : 0 <= (b - a) * (v2 - v1)) by (apply Qmult_le_0_compat; lra).
    lra.
  - apply Qle_trans with (nthq s (Qfloor v1 + 1)); [exact U1|].
    apply Qle_trans with (nthq s (Qfloor v2)); [|exact L2].
    apply nthq_mono; [exact Hs|lia|lia].
Qed.

(* ---------- virtual index ---------- *)
Lemma vindex_mono alpha beta n p1 p2 : (1 <= n)%Z -> alpha + beta <= 2 -> p1 <= p2 ->
  vindex alpha beta n p1 <= vindex alpha beta n p2.
Proof.
  intros Hn Hab Hp. unfold vindex.
  assert (N : 1 <= inject_Z n) by (change 1 with (inject_Z 1); apply inject_Z_le; exact Hn).
  assert (P : 0 <= (p2 - p1) * (inject_Z n + 1 - alpha - beta)) by (apply Qmult_le_0_compat; lra).
  lra.
Qed.

Lemma vindex_0 alpha beta n : vindex alpha beta n 0 == alpha - 1.
Proof. unfold vindex. ring. Qed.
Lemma vindex_1 alpha beta n : vindex alpha beta n 1 == inject_Z n - beta.
Proof. unfold vindex. ring. Qed.

Definition continuous_method (m : iecdf_method) : Prop :=
  match m with
  | interpolated_inverted_cdf | hazen | weibull | linear | median_unbiased | normal_unbiased => True
  | _ => False
  end.

Lemma alpha_beta_unit m : continuous_method m ->
  0 <= fst (alpha_beta m) <= 1 /\ 0 <= snd (alpha_beta m) <= 1.
Proof. destruct m; cbn [continuous_method alpha_beta fst snd]; intros []; split; split; lra. Qed.

Lemma quantile_ab_range m s p : continuous_method m -> sortedQ s -> s <> [] ->
  nthq s 0 <= iecdf_sorted m s p <= nthq s (zlen s - 1).
Proof. intros Hm Hs Hne. destruct m; try destruct Hm; cbn [iecdf_sorted]; apply lerp_at_range; assumption. Qed.

Lemma quantile_ab_mono m s p1 p2 : continuous_method m -> sortedQ s -> s <> [] -> p1 <= p2 ->
  iecdf_sorted m s p1 <= iecdf_sorted m s p2.
Proof.
  intros Hm Hs Hne Hp. pose proof (zlen_pos s Hne) as Hn.
  destruct m; try destruct Hm; cbn [iecdf_sorted]; apply lerp_at_mono; try assumption;
    apply vindex_mono; try lia; try exact Hp; cbn [alpha_beta fst snd]; unfold Qle; simpl; lia.
Qed.

Lemma quantile_ab_1 m s : continuous_method m -> s <> [] -> iecdf_sorted m s 1 = nthq s (zlen s - 1).
Proof.
  intros Hm Hne. destruct (alpha_beta_unit m Hm) as [Ha Hb].
  assert (E : iecdf_sorted m s 1 = lerp_at s (vindex (fst (alpha_beta m)) (snd (alpha_beta m)) (zlen s) 1))
    by (destruct m; try destruct Hm; reflexivity).
  rewrite E. apply lerp_at_high. rewrite vindex_1. unfold Zminus. rewrite inject_Z_plus, inject_Z_opp.
  change (inject_Z 1) with 1. lra.
Qed.

Lemma quantile_ab_0 m s : continuous_method m -> sortedQ s -> s <> [] -> iecdf_sorted m s 0 == nthq s 0.
Proof.
  intros Hm Hs Hne. destruct (alpha_beta_unit m Hm) as [Ha Hb]. pose proof (zlen_pos s Hne) as Hn.
  assert (E : iecdf_sorted m s 0 = lerp_at s (vindex (fst (alpha_beta m)) (snd (alpha_beta m)) (zlen s) 0))
    by (destruct m; try destruct Hm; reflexivity).
  rewrite E. set (v := vindex (fst (alpha_beta m)) (snd (alpha_beta m)) (zlen s) 0).
  assert (Hv : v == fst (alpha_beta m) - 1) by apply vindex_0.
  destruct (Qlt_le_dec v (inject_Z (zlen s - 1))) as [H1|H1].
  - destruct (Qlt_le_dec v 0) as [H2|H2].
    + rewrite (lerp_at_low s v H1 H2). reflexivity.
    + assert (V0 : v == 0) by lra.
      rewrite (lerp_at_mid s v H1 H2). rewrite (Qfloor_comp v 0 V0). change (Qfloor 0) with 0%Z.
      rewrite V0. change (inject_Z 0) with 0. ring.
  - rewrite (lerp_at_high s v H1).
    assert (Z1 : inject_Z (zlen s - 1) <= 0) by lra.
    assert (zlen s - 1 <= 0)%Z by (rewrite Zle_Qle; exact Z1).
    replace (zlen s - 1)%Z with 0%Z by lia. reflexivity.
Qed.
