(** C09: the transfer functions of the REGENERATED per-window methods are monotone. *)
From Coq Require Import QArith Qabs ZArith List Bool String Lia Lqa.
From IV Require Import QL Dist Ecdf QFacts C16_step C16_lerp C16_interp C16_compose QListFacts GenUtils GenScalars C03_proofs C02_proofs.
Import ListNotations.
Open Scope Q_scope.

(** a per-window method is monotone if it is [map G] of cm_future for a non-decreasing G *)
Definition monotone (G : Q -> Q) : Prop := forall x y, x <= y -> G x <= G y.
Definition monotone_on (lo hi : Q) (G : Q -> Q) : Prop := forall x y, lo <= x -> x <= y -> y <= hi -> G x <= G y.

Theorem ls_add_monotone o h f : exists G, ls_apply_on_window "additive" o h f = Some (map G f) /\ monotone G.
Proof. eexists. split; [reflexivity|]. intros x y H. lra. Qed.

Theorem ls_mul_monotone o h f : 0 <= QL.qmean o / QL.qmean h ->
  exists G, ls_apply_on_window "multiplicative" o h f = Some (map G f) /\ monotone G.
Proof. intro Hr. eexists. split; [reflexivity|]. intros x y H. cbv beta. nra. Qed.

Lemma clamp_mono t : t <= 1 - t -> monotone (clampq t).
Proof.
  intros Ht x y H. unfold clampq, GenUtils.threshold_cdf_vals, QL.qmax2, QL.qmin2. change (inject_Z 1) with 1.
  destruct (Qle_bool x (1 - t)) eqn:A; destruct (Qle_bool y (1 - t)) eqn:B;
  repeat match goal with |- context [Qle_bool ?u ?v] => let E := fresh in destruct (Qle_bool u v) eqn:E end; qb; lra.
Qed.

Section Dist.
Context {P : Type} (D : dist P).
Definition dist_monotone : Prop := (forall p, monotone (cdf D p)) /\ (forall p, monotone (ppf D p)).

Theorem qm_param_monotone t o h x : dist_monotone -> t <= 1 - t ->
  exists G, qm_standard_qm "parametric" D t x o h = Some (map G x) /\ monotone G.
Proof.
  intros [Mc Mp] Ht. eexists. split; [apply qm_param_pointwise|].
  intros u v H. apply Mp. apply (clamp_mono t Ht). apply Mc. exact H.
Qed.

(** with additive / multiplicative (positive factor) detrending the composed map stays monotone *)
Theorem qm_param_detrended_monotone t o h f : dist_monotone -> t <= 1 - t ->
  exists G, qm_apply_on_window "additive" "parametric" D t o h f = Some (map G f) /\ monotone G.
Proof.
  intros [Mc Mp] Ht. unfold qm_apply_on_window. cbn [String.eqb Ascii.eqb Bool.eqb]. cbv zeta. rewrite qm_param_pointwise.
  rewrite !map_map. eexists. split; [reflexivity|].
  intros u v H. cbv beta. apply Qplus_le_compat; [|lra]. apply Mp. apply (clamp_mono t Ht). apply Mc. lra.
Qed.

Theorem qm_param_mult_detrended_monotone t o h f : dist_monotone -> t <= 1 - t -> 0 < QL.qmean f / QL.qmean h ->
  exists G, qm_apply_on_window "multiplicative" "parametric" D t o h f = Some (map G f) /\ monotone G.
Proof.
  intros [Mc Mp] Ht Hd. unfold qm_apply_on_window. cbn [String.eqb Ascii.eqb Bool.eqb]. cbv zeta. rewrite qm_param_pointwise.
  rewrite !map_map. eexists. split; [reflexivity|].
  intros u v H. cbv beta. set (d := QL.qmean f / QL.qmean h) in *.
  apply Qmult_le_compat_r; [|lra]. apply Mp. apply (clamp_mono t Ht). apply Mc.
  apply Qdiv_le_compat; assumption.
Qed.
End Dist.

(** non-parametric QuantileMapping (default step ecdf / inverted cdf, with constant extrapolation) *)
Theorem qm_nonparam_monotone {P} (D : dist P) t o h x : o <> [] -> h <> [] ->
  exists G, qm_standard_qm "nonparametric" D t x o h = Some (map G x) /\ monotone G.
Proof.
  intros Ho Hh. eexists. split; [reflexivity|]. intros u v H.
  apply qmap_extrap_mono; try assumption; [left; reflexivity|left; reflexivity].
Qed.

(** CDFt: composition of four monotone maps, for every proved ecdf x iecdf pair *)
Theorem cdft_monotone ds em im o h f : proved_ecdf em -> proved_iecdf im -> o <> [] -> h <> [] -> f <> [] ->
  (ds = "additive" \/ ds = "no_shift")%string ->
  exists G, cdft_apply_mapping ds em im o h f = Some (map G f) /\ monotone G.
Proof.
  intros He Hi Ho Hh Hf Hds.
  assert (Core : forall o' h' f', o' <> [] -> h' <> [] -> f' <> [] ->
            monotone (fun x => Ecdf.iecdf im f' (Ecdf.ecdf em h' (Ecdf.iecdf im o' (Ecdf.ecdf em f' x))))).
  { intros o' h' f' Ho' Hh' Hf' x y H.
    pose proof (ecdf_range em f' x He Hf') as R1. pose proof (ecdf_range em f' y He Hf') as R2.
    pose proof (ecdf_mono em f' x y He Hf' H) as M1.
    pose proof (iecdf_mono im o' _ _ Hi Ho' (proj1 R1) M1 (proj2 R2)) as M2.
    pose proof (ecdf_mono em h' _ _ He Hh' M2) as M3.
    apply iecdf_mono; try assumption.
    - apply (ecdf_range em h' _ He Hh').
    - apply (ecdf_range em h' _ He Hh'). }
  destruct Hds as [-> | ->]; cbn [cdft_apply_mapping String.eqb Ascii.eqb Bool.eqb]; cbv zeta.
  - rewrite !map_map. eexists. split; [reflexivity|]. intros x y H. cbv beta.
    apply Core; try (apply map_nonempty; assumption); try assumption. lra.
  - rewrite !map_map. eexists. split; [reflexivity|]. apply Core; assumption.
Qed.
