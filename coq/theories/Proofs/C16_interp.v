(** C16 part 3: np.interp on non-decreasing knots, the interpolated ECDF and the
    histogram CDF. *)
From Coq Require Import QArith Qabs Qround ZArith List Bool Lia Lqa Sorted.
From IV Require Import QL Ecdf QFacts C16_step.
Import ListNotations.
Open Scope Q_scope.

Lemma sorted_head_le a b l : sortedQ (a :: b :: l) -> a <= b.
Proof. intro H. inversion H as [|? ? _ Hf]; subst. rewrite Forall_forall in Hf. apply Hf. left. reflexivity. Qed.
Lemma sorted_tail a l : sortedQ (a :: l) -> sortedQ l.
Proof. intro H. inversion H; assumption. Qed.

Lemma chord_bounds f0 f1 x0 x1 y : f0 <= f1 -> x0 <= y -> y < x1 ->
  f0 <= f0 + (f1 - f0) * ((y - x0) / (x1 - x0)) <= f1.
Proof.
  intros Hf H0 H1. assert (Hd : 0 < x1 - x0) by lra.
  assert (T0 : 0 <= (y - x0) / (x1 - x0)) by (apply Qle_shift_div_l; [exact Hd|lra]).
  assert (T1 : (y - x0) / (x1 - x0) <= 1) by (apply Qle_shift_div_r; [exact Hd|lra]).
  set (t := (y - x0) / (x1 - x0)) in *.
  assert (P : 0 <= (f1 - f0) * t) by (apply Qmult_le_0_compat; lra).
  assert (P' : 0 <= (f1 - f0) * (1 - t)) by (apply Qmult_le_0_compat; lra).
  split; lra.
Qed.

Lemma chord_mono f0 f1 x0 x1 y1 y2 : f0 <= f1 -> x0 <= y1 -> y1 <= y2 -> y2 < x1 ->
  f0 + (f1 - f0) * ((y1 - x0) / (x1 - x0)) <= f0 + (f1 - f0) * ((y2 - x0) / (x1 - x0)).
Proof.
  intros Hf H0 H12 H1. assert (Hd : 0 < x1 - x0) by lra.
  assert (T : (y1 - x0) / (x1 - x0) <= (y2 - x0) / (x1 - x0)) by (apply Qdiv_le_compat; [exact Hd|lra]).
  set (t1 := (y1 - x0) / (x1 - x0)) in *. set (t2 := (y2 - x0) / (x1 - x0)) in *.
  assert (P : 0 <= (f1 - f0) * (t2 - t1)) by (apply Qmult_le_0_compat; lra).
  lra.
Qed.

Lemma interp_aux_cons2 y x0 x1 xp f0 f1 fp :
  interp_aux y (x0 :: x1 :: xp) (f0 :: f1 :: fp) =
  if Qle_bool x1 y then interp_aux y (x1 :: xp) (f1 :: fp)
  else Qred (f0 + (f1 - f0) * ((y - x0) / (x1 - x0))).
Proof. reflexivity. Qed.

(** bounds: between the first value of the current knot and the last value *)
Lemma interp_aux_bounds y : forall xp fp, length xp = length fp -> sortedQ xp -> sortedQ fp -> fp <> [] ->
  hd 0 xp <= y -> hd 0 fp <= interp_aux y xp fp <= last fp 0.
Proof.
  induction xp as [|x0 xp IH]; intros fp Hlen Hsx Hsf Hne Hy.
  - destruct fp; [congruence|discriminate].
  - destruct fp as [|f0 fp]; [congruence|]. destruct xp as [|x1 xp].
    + destruct fp; [|discriminate]. cbn [interp_aux hd last]. lra.
    + destruct fp as [|f1 fp]; [discriminate|]. rewrite interp_aux_cons2. cbn [hd].
      pose proof (sorted_head_le _ _ _ Hsf) as Hf01.
      destruct (Qle_bool x1 y) eqn:E; qb.
      * destruct (IH (f1 :: fp)) as [L U]; [cbn in *; lia|eapply sorted_tail; eassumption|eapply sorted_tail; eassumption|discriminate|exact E|].
        cbn [hd] in L. change (last (f0 :: f1 :: fp) 0) with (last (f1 :: fp) 0). split; lra.
      * rewrite Qred_correct. cbn [hd] in Hy.
        destruct (chord_bounds f0 f1 x0 x1 y Hf01 Hy E) as [L U]. split; [exact L|].
        apply Qle_trans with f1; [exact U|].
        change (last (f0 :: f1 :: fp) 0) with (last (f1 :: fp) 0).
        assert (Hs1 : sortedQ (f1 :: fp)) by (eapply sorted_tail; eassumption).
        clear - Hs1. revert f1 Hs1. induction fp as [|f2 fp IHf]; intros f1 Hs1; [cbn [last]; lra|].
        change (last (f1 :: f2 :: fp) 0) with (last (f2 :: fp) 0).
        apply Qle_trans with f2; [eapply sorted_head_le; eassumption|]. apply IHf. eapply sorted_tail; eassumption.
Qed.

Lemma interp_aux_mono y1 y2 : forall xp fp, length xp = length fp -> sortedQ xp -> sortedQ fp -> fp <> [] ->
  hd 0 xp <= y1 -> y1 <= y2 -> interp_aux y1 xp fp <= interp_aux y2 xp fp.
Proof.
  induction xp as [|x0 xp IH]; intros fp Hlen Hsx Hsf Hne Hy H12.
  - destruct fp; [congruence|discriminate].
  - destruct fp as [|f0 fp]; [congruence|]. destruct xp as [|x1 xp].
    + destruct fp; [|discriminate]. cbn [interp_aux hd last]. lra.
    + destruct fp as [|f1 fp]; [discriminate|]. rewrite !interp_aux_cons2. cbn [hd] in *.
      pose proof (sorted_head_le _ _ _ Hsf) as Hf01.
      assert (Hsx1 : sortedQ (x1 :: xp)) by (eapply sorted_tail; eassumption).
      assert (Hsf1 : sortedQ (f1 :: fp)) by (eapply sorted_tail; eassumption).
      assert (Hl1 : length (x1 :: xp) = length (f1 :: fp)) by (cbn in *; lia).
      destruct (Qle_bool x1 y1) eqn:E1; destruct (Qle_bool x1 y2) eqn:E2; qb.
      * apply IH; try assumption; try discriminate.
      * lra.
      * rewrite Qred_correct.
        destruct (chord_bounds f0 f1 x0 x1 y1 Hf01 Hy E1) as [_ U].
        destruct (interp_aux_bounds y2 (x1 :: xp) (f1 :: fp) Hl1 Hsx1 Hsf1 ltac:(discriminate) E2) as [L _].
        cbn [hd] in L. lra.
      * rewrite !Qred_correct. apply chord_mono; assumption.
Qed.

Lemma interp_aux_all_le y : forall xp fp, length xp = length fp -> fp <> [] ->
  (forall x, In x xp -> x <= y) -> interp_aux y xp fp = last fp 0.
Proof.
  induction xp as [|x0 xp IH]; intros fp Hlen Hne Hall.
  - destruct fp; [congruence|discriminate].
  - destruct fp as [|f0 fp]; [congruence|]. destruct xp as [|x1 xp].
    + destruct fp; [|discriminate]. reflexivity.
    + destruct fp as [|f1 fp]; [discriminate|]. rewrite interp_aux_cons2.
      assert (E : Qle_bool x1 y = true) by (apply Qle_bool_true; apply Hall; right; left; reflexivity).
      rewrite E. change (last (f0 :: f1 :: fp) 0) with (last (f1 :: fp) 0).
      apply IH; [cbn in *; lia|discriminate|]. intros x Hx. apply Hall. right. exact Hx.
Qed.

(* ---------- interp (with the left clamp) ---------- *)
Lemma interp_bounds y xp fp : length xp = length fp -> sortedQ xp -> sortedQ fp -> fp <> [] ->
  hd 0 fp <= interp y xp fp <= last fp 0.
Proof.
  intros Hlen Hsx Hsf Hne. destruct xp as [|x0 xp]; destruct fp as [|f0 fp]; try congruence; try discriminate.
  unfold interp. destruct (Qlt_bool y x0) eqn:E; qb.
  - cbn [hd]. split; [lra|].
    clear - Hsf. revert f0 Hsf. induction fp as [|f1 fp IHf]; intros f0 Hsf; [cbn [last]; lra|].
    change (last (f0 :: f1 :: fp) 0) with (last (f1 :: fp) 0).
    apply Qle_trans with f1; [eapply sorted_head_le; eassumption|]. apply IHf. eapply sorted_tail; eassumption.
  - apply interp_aux_bounds; try assumption.
Qed.

Lemma interp_mono y1 y2 xp fp : length xp = length fp -> sortedQ xp -> sortedQ fp -> fp <> [] ->
  y1 <= y2 -> interp y1 xp fp <= interp y2 xp fp.
Proof.
  intros Hlen Hsx Hsf Hne H12. destruct xp as [|x0 xp]; destruct fp as [|f0 fp]; try congruence; try discriminate.
  unfold interp. destruct (Qlt_bool y1 x0) eqn:E1; destruct (Qlt_bool y2 x0) eqn:E2; qb.
  - lra.
  - destruct (interp_aux_bounds y2 (x0 :: xp) (f0 :: fp) Hlen Hsx Hsf Hne E2) as [L _]. exact L.
  - lra.
  - apply interp_aux_mono; assumption.
Qed.

Lemma interp_at_or_above_last y xp fp : length xp = length fp -> fp <> [] -> xp <> [] ->
  (forall x, In x xp -> x <= y) -> interp y xp fp = last fp 0.
Proof.
  intros Hlen Hne Hnx Hall. destruct xp as [|x0 xp]; destruct fp as [|f0 fp]; try congruence.
  unfold interp. assert (E : Qlt_bool y x0 = false) by (apply Qlt_bool_false; apply Hall; left; reflexivity).
  rewrite E. apply interp_aux_all_le; assumption.
Qed.

(* ---------- linspace ---------- *)
Lemma sorted_map_seq (f : nat -> Q) : (forall i j, (i <= j)%nat -> f i <= f j) ->
  forall n a, sortedQ (map f (seq a n)).
Proof.
  intros Hf. induction n as [|n IH]; intro a; cbn [seq map]; constructor; [apply IH|].
  apply Forall_forall. intros x Hx. apply in_map_iff in Hx. destruct Hx as (k & E & Hk). apply in_seq in Hk.
  rewrite <- E. apply Hf. lia.
Qed.

Lemma linspace01_length n : length (linspace01 n) = n.
Proof. destruct n as [|[|n]]; [reflexivity|reflexivity|]. unfold linspace01. rewrite map_length, seq_length. reflexivity. Qed.

Lemma linspace01_sorted n : sortedQ (linspace01 n).
Proof.
  destruct n as [|[|n]]; [constructor|constructor; constructor|].
  unfold linspace01. apply sorted_map_seq. intros i j Hij. rewrite !Qred_correct.
  apply Qdiv_le_compat.
  - apply inject_Z_pos. lia.
  - apply inject_Z_le. lia.
Qed.

Lemma linspace01_hd n : hd 0 (linspace01 n) == 0.
Proof.
  destruct n as [|[|n]]; [reflexivity|reflexivity|]. unfold linspace01. cbn [seq map hd]. rewrite Qred_correct.
  unfold Qdiv. change (inject_Z (Z.of_nat 0)) with 0. ring.
Qed.

Lemma linspace01_last n : (2 <= n)%nat -> last (linspace01 n) 0 == 1.
Proof.
  intro Hn. destruct n as [|[|n]]; try lia. unfold linspace01.
  replace (seq 0 (S (S n))) with (seq 0 (S n) ++ [S n]) by (rewrite <- seq_S; reflexivity).
  rewrite map_app. cbn [map]. rewrite last_last. rewrite Qred_correct.
  replace (Z.of_nat (S (S n)) - 1)%Z with (Z.of_nat (S n)) by lia.
  field. intro E. assert (0 < inject_Z (Z.of_nat (S n))) by (apply inject_Z_pos; lia). lra.
Qed.

(* ---------- interpolated ECDF ---------- *)
Lemma ecdf_lin_sorted_range s y : sortedQ s -> s <> [] -> 0 <= ecdf_lin_sorted s y <= 1.
Proof.
  intros Hs Hne. unfold ecdf_lin_sorted.
  assert (Hf : linspace01 (length s) <> []).
  { intro E. apply (f_equal (@length Q)) in E. rewrite linspace01_length in E. destruct s; [congruence|discriminate]. }
  destruct (interp_bounds y s (linspace01 (length s))) as [L U];
    [rewrite linspace01_length; reflexivity|exact Hs|apply linspace01_sorted|exact Hf|].
  rewrite linspace01_hd in L. split; [exact L|].
  destruct (le_lt_dec 2 (length s)) as [H2|H2].
  - rewrite (linspace01_last _ H2) in U. exact U.
  - destruct s as [|a [|b s]]; [congruence| |cbn in H2; lia]. cbn in U. cbn. lra.
Qed.

Lemma ecdf_lin_sorted_mono s y1 y2 : sortedQ s -> s <> [] -> y1 <= y2 ->
  ecdf_lin_sorted s y1 <= ecdf_lin_sorted s y2.
Proof.
  intros Hs Hne H12. unfold ecdf_lin_sorted. apply interp_mono; try assumption.
  - rewrite linspace01_length. reflexivity.
  - apply linspace01_sorted.
  - intro E. apply (f_equal (@length Q)) in E. rewrite linspace01_length in E. destruct s; [congruence|discriminate].
Qed.

Lemma ecdf_lin_sorted_at_max s y : sortedQ s -> (2 <= length s)%nat -> (forall x, In x s -> x <= y) ->
  ecdf_lin_sorted s y == 1.
Proof.
  intros Hs Hn Hall. unfold ecdf_lin_sorted.
  rewrite interp_at_or_above_last; [apply linspace01_last; exact Hn|rewrite linspace01_length; reflexivity| |destruct s; [cbn in Hn; lia|discriminate]|exact Hall].
  intro E. apply (f_equal (@length Q)) in E. rewrite linspace01_length in E. rewrite E in Hn. cbn in Hn. lia.
Qed.

Lemma ecdf_lin_range x y : x <> [] -> 0 <= ecdf_lin x y <= 1.
Proof.
  intro Hne. unfold ecdf_lin. apply ecdf_lin_sorted_range; [apply qsort_sorted|].
  intro E. apply (f_equal (@length Q)) in E. rewrite qsort_length in E. destruct x; [congruence|discriminate].
Qed.

Lemma ecdf_lin_mono x y1 y2 : x <> [] -> y1 <= y2 -> ecdf_lin x y1 <= ecdf_lin x y2.
Proof.
  intros Hne H. unfold ecdf_lin. apply ecdf_lin_sorted_mono; [apply qsort_sorted| |exact H].
  intro E. apply (f_equal (@length Q)) in E. rewrite qsort_length in E. destruct x; [congruence|discriminate].
Qed.

Lemma ecdf_lin_at_max x : (2 <= length x)%nat -> ecdf_lin x (QL.qmax x) == 1.
Proof.
  intro Hn. unfold ecdf_lin. apply ecdf_lin_sorted_at_max; [apply qsort_sorted|rewrite qsort_length; exact Hn|].
  intros v Hv. apply qmax_ge. apply qsort_in. exact Hv.
Qed.

(* ---------- histogram CDF: any non-decreasing edges, non-negative counts ---------- *)
Lemma cumsum_from_sorted counts : forall acc, Forall (fun c => 0 <= c) counts ->
  sortedQ (acc :: cumsum_from acc counts).
Proof.
  induction counts as [|c counts IH]; intros acc Hc; cbn [cumsum_from]; [constructor; constructor|].
  inversion Hc as [|? ? Hc0 Hc']; subst.
  specialize (IH (Qred (acc + c)) Hc').
  assert (A : acc <= Qred (acc + c)) by (rewrite Qred_correct; lra).
  set (a' := Qred (acc + c)) in *.
  constructor; [exact IH|].
  apply Forall_forall. intros x Hx.
  destruct Hx as [E|Hx]; [rewrite <- E; exact A|].
  apply Qle_trans with a'; [exact A|].
  inversion IH as [|? ? _ Hf]. rewrite Forall_forall in Hf. apply Hf. exact Hx.
Qed.
