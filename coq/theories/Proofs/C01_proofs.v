(** C01: bias removal on the reference period (cm_future = cm_hist), REGENERATED per-window methods. *)
From Coq Require Import QArith Qabs ZArith List Bool String Lia Lqa.
From IV Require Import QL Dist Ecdf QFacts C16_step QListFacts GenUtils GenScalars C03_proofs C02_proofs C04_proofs.
Import ListNotations.
Open Scope Q_scope.

(** LinearScaling: the debiased reference period has exactly the observed mean *)
Theorem ls_add_mean o h : h <> [] ->
  exists out, ls_apply_on_window "additive" o h h = Some out /\ QL.qmean out == QL.qmean o.
Proof.
  intro Hh. eexists. split; [reflexivity|]. cbv zeta. rewrite (qmean_sub _ h Hh). ring.
Qed.

Theorem ls_mul_mean o h : h <> [] -> ~ QL.qmean h == 0 ->
  exists out, ls_apply_on_window "multiplicative" o h h = Some out /\ QL.qmean out == QL.qmean o.
Proof.
  intros Hh Hm. eexists. split; [reflexivity|]. cbv zeta. rewrite (qmean_scale _ h Hh). field. exact Hm.
Qed.

(** DeltaChange with an unchanged model returns the observations (C03's dc_fix) *)
Theorem dc_identity o h : exists out, dc_apply_on_window "additive" o h h = Some out /\ eql out o.
Proof. destruct (dc_fix_additive o h) as [E H]. eexists. split; [exact E|exact H]. Qed.

(* ---------- location-scale distributions: parametric QM / ECDFM map the reference period affinely ---------- *)
Section LocScale.
Context {P : Type} (D : dist P).
Variables (loc sc : P -> Q) (F0 Q0 : Q -> Q).
Hypothesis cdf_form : forall p x, cdf D p x == F0 ((x - loc p) / sc p).
Hypothesis ppf_form : forall p q, ppf D p q == loc p + sc p * Q0 q.
Hypothesis Q0_F0 : forall z, Q0 (F0 z) == z.
Hypothesis Q0_proper : forall u v, u == v -> Q0 u == Q0 v.
Hypothesis sc_nz : forall p, ~ sc p == 0.

(** where the cdf value is not clamped, the reference period is mapped by the affine transfer
    loc_o + (sc_o / sc_h) (x - loc_h) *)
Lemma qm_value t (po ph : P) x : t <= cdf D ph x -> cdf D ph x <= 1 - t ->
  ppf D po (clampq t (cdf D ph x)) == loc po + sc po / sc ph * (x - loc ph).
Proof.
  intros A B. rewrite ppf_form.
  rewrite (Q0_proper _ _ (clamp_id t _ A B)), (Q0_proper _ _ (cdf_form ph x)), Q0_F0.
  field. apply sc_nz.
Qed.

Theorem qm_param_affine_form t o h :
  Forall (fun x => t <= cdf D (fit D h) x /\ cdf D (fit D h) x <= 1 - t) h ->
  exists out, qm_apply_on_window "no_detrending" "parametric" D t o h h = Some out /\
    eql out (map (fun x => loc (fit D o) + sc (fit D o) / sc (fit D h) * (x - loc (fit D h))) h).
Proof.
  intro Hin. unfold qm_apply_on_window. cbn [String.eqb Ascii.eqb Bool.eqb]. rewrite qm_param_pointwise.
  eexists. split; [reflexivity|]. apply eql_map_pointwise. intros x Hx.
  rewrite Forall_forall in Hin. destruct (Hin x Hx) as [A B]. apply qm_value; assumption.
Qed.

(** hence the observed mean is reproduced exactly when the fitted location is the sample mean, and
    the observed spread when the fitted scale is a spread statistic that scales with the data *)
Theorem qm_param_mean t o h : h <> [] ->
  loc (fit D h) == QL.qmean h ->
  Forall (fun x => t <= cdf D (fit D h) x /\ cdf D (fit D h) x <= 1 - t) h ->
  exists out, qm_apply_on_window "no_detrending" "parametric" D t o h h = Some out /\
    QL.qmean out == loc (fit D o).
Proof.
  intros Hh Hloc Hin. destruct (qm_param_affine_form t o h Hin) as (out & E & Hout).
  exists out. split; [exact E|]. rewrite (qmean_eql _ _ Hout).
  set (k := sc (fit D o) / sc (fit D h)). set (lo := loc (fit D o)). set (lh := loc (fit D h)).
  rewrite (qmean_eql _ (map (fun x => k * x + (lo - k * lh)) h)) by (apply eql_map_pointwise; intros; ring).
  rewrite (qmean_affine _ _ h Hh). unfold lh. rewrite Hloc. ring.
Qed.

(** ECDFM on the reference period is the same affine transfer *)
Theorem ecdfm_affine_form t o h :
  Forall (fun x => t <= cdf D (fit D h) x /\ cdf D (fit D h) x <= 1 - t) h ->
  eql (ecdfm_apply_on_window D t o h h)
      (map (fun x => loc (fit D o) + sc (fit D o) / sc (fit D h) * (x - loc (fit D h))) h).
Proof.
  intro Hin. unfold ecdfm_apply_on_window. cbv zeta. rewrite !map_map.
  set (G := fun x => GenUtils.threshold_cdf_vals (cdf D (fit D h) x) t).
  assert (Gen : forall l, (forall x, In x l -> In x h) ->
     eql (QL.zip2 (fun a b => a - b) (QL.zip2 (fun a b => a + b) l (map (fun x => ppf D (fit D o) (G x)) l)) (map (fun x => ppf D (fit D h) (G x)) l))
         (map (fun x => loc (fit D o) + sc (fit D o) / sc (fit D h) * (x - loc (fit D h))) l)).
  { induction l as [|x l IH]; intro Hsub; [constructor|]. cbn [map QL.zip2]. constructor.
    - rewrite Forall_forall in Hin. destruct (Hin x (Hsub x (or_introl eq_refl))) as [A B].
      unfold G. fold (clampq t (cdf D (fit D h) x)).
      rewrite (qm_value t (fit D o) (fit D h) x A B), (qm_value t (fit D h) (fit D h) x A B). field. apply sc_nz.
    - apply IH. intros y Hy. apply Hsub. right. exact Hy. }
  apply Gen. auto.
Qed.
End LocScale.
