(** The rational location-scale family satisfies every hypothesis bundle used by C01-C04 and C09:
    the bundles are satisfiable, by a family that the real debiasers accept as distribution=. *)
From Coq Require Import QArith Qabs ZArith List Bool String Lia Lqa.
From IV Require Import QL Dist Ecdf QFacts C16_step QListFacts RatLS GenUtils GenScalars C03_proofs C02_proofs C04_proofs C09_proofs.
Import ListNotations.
Open Scope Q_scope.

Lemma Qabs_cases z : (0 <= z /\ Qabs z == z) \/ (z < 0 /\ Qabs z == - z).
Proof.
  destruct (Qlt_le_dec z 0) as [H|H]; [right|left]; split; try assumption.
  - apply Qabs_neg. lra.
  - apply Qabs_pos. exact H.
Qed.

Lemma F0_proper u v : u == v -> F0 u == F0 v.
Proof. intro E. unfold F0. rewrite E. reflexivity. Qed.

Lemma F0_range z : 0 < F0 z /\ F0 z < 1.
Proof.
  unfold F0. destruct (Qabs_cases z) as [[H E]|[H E]]; rewrite E.
  - assert (D : 0 < 1 + z) by lra. assert (0 <= z / (1 + z)) by (apply Qle_shift_div_l; lra).
    assert (z / (1 + z) < 1) by (apply Qlt_shift_div_r; lra). split; lra.
  - assert (D : 0 < 1 + - z) by lra. assert (z / (1 + - z) < 0) by (apply Qlt_shift_div_r; lra).
    assert (-1 < z / (1 + - z)) by (apply Qlt_shift_div_l; lra). split; lra.
Qed.

Lemma Q0_of w : Q0 ((1 # 2) * (1 + w)) == if Qle_bool 0 w then w / (1 - w) else w / (1 + w).
Proof.
  unfold Q0. cbv zeta.
  assert (Y : 2 * ((1 # 2) * (1 + w)) - 1 == w) by ring.
  assert (B : Qle_bool 0 (2 * ((1 # 2) * (1 + w)) - 1) = Qle_bool 0 w).
  { destruct (Qle_bool 0 (2 * ((1 # 2) * (1 + w)) - 1)) eqn:A, (Qle_bool 0 w) eqn:B'; qb; try reflexivity; lra. }
  rewrite B. destruct (Qle_bool 0 w); rewrite Y; reflexivity.
Qed.

Lemma Q0_F0 z : Q0 (F0 z) == z.
Proof.
  unfold F0. rewrite Q0_of.
  destruct (Qabs_cases z) as [[H E]|[H E]].
  - assert (D : 0 < 1 + z) by lra.
    assert (Y0 : 0 <= z / (1 + Qabs z)) by (rewrite E; apply Qle_shift_div_l; lra).
    destruct (Qle_bool 0 (z / (1 + Qabs z))) eqn:B; qb; [|lra].
    rewrite E. field. split; lra.
  - assert (D : 0 < 1 + - z) by lra.
    assert (Y0 : z / (1 + Qabs z) < 0) by (rewrite E; apply Qlt_shift_div_r; lra).
    destruct (Qle_bool 0 (z / (1 + Qabs z))) eqn:B; qb; [lra|].
    rewrite E. field. split; lra.
Qed.

Lemma F0_mono u v : u <= v -> F0 u <= F0 v.
Proof.
  intro H. unfold F0.
  assert (G : u / (1 + Qabs u) <= v / (1 + Qabs v)).
  { destruct (Qabs_cases u) as [[Hu Eu]|[Hu Eu]]; destruct (Qabs_cases v) as [[Hv Ev]|[Hv Ev]]; rewrite Eu, Ev.
    - apply Qle_shift_div_l; [lra|]. setoid_replace (u / (1 + u) * (1 + v)) with (u * (1 + v) / (1 + u)) by (field; lra).
      apply Qle_shift_div_r; [lra|]. nra.
    - lra.
    - apply Qle_trans with 0; [apply Qlt_le_weak; apply Qlt_shift_div_r; lra|apply Qle_shift_div_l; lra].
    - apply Qle_shift_div_l; [lra|]. setoid_replace (u / (1 + - u) * (1 + - v)) with (u * (1 + - v) / (1 + - u)) by (field; lra).
      apply Qle_shift_div_r; [lra|]. nra. }
  lra.
Qed.

Lemma Q0_proper u v : u == v -> Q0 u == Q0 v.
Proof.
  intro E. unfold Q0. cbv zeta.
  assert (B : Qle_bool 0 (2 * u - 1) = Qle_bool 0 (2 * v - 1)).
  { destruct (Qle_bool 0 (2 * u - 1)) eqn:A, (Qle_bool 0 (2 * v - 1)) eqn:B'; qb; try reflexivity; lra. }
  rewrite B. destruct (Qle_bool 0 (2 * v - 1)); rewrite E; reflexivity.
Qed.

Lemma Q0_mono u v : 0 < u -> u <= v -> v < 1 -> Q0 u <= Q0 v.
Proof.
  intros H0 H H1. unfold Q0. cbv zeta.
  destruct (Qle_bool 0 (2 * u - 1)) eqn:A; destruct (Qle_bool 0 (2 * v - 1)) eqn:B; qb.
  - apply Qle_shift_div_l; [lra|]. setoid_replace ((2 * u - 1) / (1 - (2 * u - 1)) * (1 - (2 * v - 1))) with ((2 * u - 1) * (1 - (2 * v - 1)) / (1 - (2 * u - 1))) by (field; lra).
    apply Qle_shift_div_r; [lra|]. nra.
  - lra.
  - apply Qle_trans with 0; [apply Qlt_le_weak; apply Qlt_shift_div_r; lra|apply Qle_shift_div_l; lra].
  - apply Qle_shift_div_l; [lra|]. setoid_replace ((2 * u - 1) / (1 + (2 * u - 1)) * (1 + (2 * v - 1))) with ((2 * u - 1) * (1 + (2 * v - 1)) / (1 + (2 * u - 1))) by (field; lra).
    apply Qle_shift_div_r; [lra|]. nra.
Qed.

(** cdf / ppf of the family in location-scale form *)
Lemma ratls_cdf_form p x : cdf ratls p x == F0 ((x - fst p) / snd p).
Proof. apply Qred_correct. Qed.
Lemma ratls_ppf_form p q : ppf ratls p q == fst p + snd p * Q0 q.
Proof. apply Qred_correct. Qed.

Theorem ratls_proper : dist_proper ratls.
Proof.
  split; intros p v v' E.
  - rewrite !ratls_cdf_form. apply F0_proper. rewrite E. reflexivity.
  - rewrite !ratls_ppf_form. rewrite (Q0_proper _ _ E). reflexivity.
Qed.

Theorem ratls_inverse p v : ~ snd p == 0 -> ppf ratls p (cdf ratls p v) == v.
Proof.
  intro H. rewrite ratls_ppf_form, (Q0_proper _ _ (ratls_cdf_form p v)), Q0_F0. field. exact H.
Qed.

Theorem ratls_cdf_monotone p : 0 < snd p -> monotone (cdf ratls p).
Proof.
  intros Hs x y H. rewrite !ratls_cdf_form. apply F0_mono. apply Qdiv_le_compat; [exact Hs|lra].
Qed.

(** mean absolute deviation scales with the data *)
Lemma mad_spec l : mad l == QL.qsum (map (fun x => Qabs (x - QL.qmean l)) l) / QL.qlen l.
Proof. unfold mad. cbv zeta. apply Qred_correct. Qed.

Lemma mad_affine a b l : 0 < a -> l <> [] -> mad (aff a b l) == a * mad l.
Proof.
  intros Ha Hl. rewrite !mad_spec. unfold aff at 2. rewrite map_map.
  assert (E : eql (map (fun x => Qabs (a * x + b - QL.qmean (aff a b l))) l) (map (fun x => a * Qabs (x - QL.qmean l) + 0) l)).
  { apply eql_map_pointwise. intros x _. unfold aff. rewrite (qmean_affine a b l Hl).
    setoid_replace (a * x + b - (a * QL.qmean l + b)) with (a * (x - QL.qmean l)) by ring.
    rewrite Qabs_Qmult, (Qabs_pos a) by lra. ring. }
  rewrite (qsum_eql _ _ E).
  rewrite <- (map_map (fun x => Qabs (x - QL.qmean l)) (fun y => a * y + 0)).
  rewrite qsum_map_affine. unfold aff. rewrite !qlen_map. pose proof (qlen_pos l Hl) as Hn. set (n := QL.qlen l) in *. set (S0 := QL.qsum _). clearbody n S0. field. lra.
Qed.

Theorem ratls_fit_affine : forall a b l, 0 < a -> l <> [] -> ~ mad l == 0 ->
    (forall x, cdf ratls (fit ratls (aff a b l)) (a * x + b) == cdf ratls (fit ratls l) x) /\
    (forall p, ppf ratls (fit ratls (aff a b l)) p == a * ppf ratls (fit ratls l) p + b).
Proof.
  intros a b l Ha Hl Hm. cbn [fit ratls]. unfold ratls_fit. split.
  - intro x. rewrite !ratls_cdf_form. cbn [fst snd]. apply F0_proper.
    unfold aff. rewrite (qmean_affine a b l Hl). fold (aff a b l). rewrite (mad_affine a b l Ha Hl). unfold ratls_fit. cbn [fst snd]. field. split; [exact Hm|lra].
  - intro p. rewrite !ratls_ppf_form. cbn [fst snd].
    unfold aff at 1. rewrite (qmean_affine a b l Hl). rewrite (mad_affine a b l Ha Hl). ring.
Qed.

(** the location parameter is the sample mean: parametric QM / ECDFM reproduce the observed mean *)
Theorem ratls_mean_loc l : fst (fit ratls l) = QL.qmean l.
Proof. reflexivity. Qed.

(** a concrete run: the hypotheses hold and the theorems' conclusions compute *)
Example ratls_nonvacuous :
  let o := [1; 3; 4; 8] in let h := [2; 2; 5; 11; 10] in
  ~ mad o == 0 /\ ~ mad h == 0 /\
  match qm_apply_on_window "no_detrending"%string "parametric"%string ratls (1 # 1000) o h h with
  | Some out => Qeq_bool (QL.qmean out) (QL.qmean o) = true
  | None => False
  end.
Proof. vm_compute. repeat split; discriminate. Qed.
