(** C11: proofs about the REGENERATED ISIMIP step-6 frequency functions (Gen/GenIsimip.v). *)
From Coq Require Import QArith Qabs Qround ZArith List Bool Lia Lqa.
From IV Require Import NP QL Ecdf QFacts C16_step C16_lerp GenIsimip.
Import ListNotations.
Open Scope Q_scope.

Ltac split_andb :=
  repeat match goal with
  | H : (_ && _)%bool = true |- _ => apply andb_true_iff in H; destruct H
  | H : (_ && _)%bool = false |- _ => apply andb_false_iff in H
  | H : negb _ = true |- _ => apply negb_true_iff in H
  | H : negb _ = false |- _ => apply negb_false_iff in H
  end.

Lemma one_is_1 : inject_Z 1 == 1. Proof. reflexivity. Qed.

(* ---------- the four-branch frequency formula ---------- *)
Lemma P_range Po Ph Pf : 0 <= Po <= 1 -> 0 <= Ph <= 1 -> 0 <= Pf <= 1 ->
  0 <= step6_P_obs_future Po Ph Pf <= 1.
Proof.
  intros Ho Hh Hf. unfold step6_P_obs_future. change (inject_Z 1) with 1.
  destruct (QL.isclose Ph Po) eqn:Ec; [lra|].
  destruct (Qle_bool Pf Ph && negb (Qle_bool Ph Po))%bool eqn:E2.
  - split_andb. qb.
    assert (Hp : 0 < Ph) by lra.
    assert (N0 : 0 <= Po * Pf) by (apply Qmult_le_0_compat; lra).
    assert (N1 : Po * Pf <= Ph) by nra.
    split; [apply Qle_shift_div_l; [exact Hp|lra]|apply Qle_shift_div_r; [exact Hp|lra]].
  - destruct (Qle_bool Ph Pf && negb (Qle_bool Po Ph))%bool eqn:E3.
    + split_andb. qb.
      assert (Hp : 0 < 1 - Ph) by lra.
      assert (N0 : 0 <= (1 - Po) * (1 - Pf)) by (apply Qmult_le_0_compat; lra).
      assert (N1 : (1 - Po) * (1 - Pf) <= 1 - Ph) by nra.
      assert (D0 : 0 <= (1 - Po) * (1 - Pf) / (1 - Ph)) by (apply Qle_shift_div_l; [exact Hp|lra]).
      assert (D1 : (1 - Po) * (1 - Pf) / (1 - Ph) <= 1) by (apply Qle_shift_div_r; [exact Hp|lra]).
      split; lra.
    + split_andb. destruct E2 as [E2|E2]; destruct E3 as [E3|E3]; split_andb; qb; split; lra.
Qed.

Lemma isclose_spec a b : QL.isclose a b = true <-> Qabs (a - b) <= (1 # 100000000) + (1 # 100000) * Qabs b.
Proof. unfold QL.isclose. apply Qle_bool_true. Qed.

Lemma isclose_eq a b : a == b -> QL.isclose a b = true.
Proof.
  intro E. apply isclose_spec. assert (Z0 : a - b == 0) by lra. rewrite Z0. change (Qabs 0) with 0.
  pose proof (Qabs_nonneg b). lra.
Qed.

(** cm_future frequency = cm_hist frequency: the observed frequency is returned (exactly unless
    cm_hist and obs frequencies are within np.isclose of each other, then to that tolerance) *)
Lemma P_same_model_exact Po Ph : 0 <= Po <= 1 -> 0 <= Ph <= 1 -> QL.isclose Ph Po = false ->
  step6_P_obs_future Po Ph Ph == Po.
Proof.
  intros Ho Hh Ec. unfold step6_P_obs_future. change (inject_Z 1) with 1. rewrite Ec.
  destruct (Qle_bool Ph Ph && negb (Qle_bool Ph Po))%bool eqn:E2.
  - split_andb. qb. field. lra.
  - destruct (Qle_bool Ph Ph && negb (Qle_bool Po Ph))%bool eqn:E3.
    + split_andb. qb. field. lra.
    + split_andb.
      assert (R : Qle_bool Ph Ph = true) by (apply Qle_bool_true; lra).
      destruct E2 as [E2|E2]; [congruence|]. destruct E3 as [E3|E3]; [congruence|]. split_andb. qb.
      exfalso. assert (E : Ph == Po) by lra. rewrite (isclose_eq Ph Po E) in Ec. discriminate.
Qed.

Lemma P_same_model_close Po Ph : QL.isclose Ph Po = true ->
  step6_P_obs_future Po Ph Ph = Ph /\ Qabs (Ph - Po) <= (1 # 100000000) + (1 # 100000) * Qabs Po.
Proof.
  intro Ec. unfold step6_P_obs_future. rewrite Ec. split; [reflexivity|]. apply isclose_spec. exact Ec.
Qed.

(** cm_hist and obs have (np.isclose-)equal frequencies: the simulated future frequency is returned *)
Lemma P_unbiased Po Ph Pf : QL.isclose Ph Po = true -> step6_P_obs_future Po Ph Pf = Pf.
Proof. intro Ec. unfold step6_P_obs_future. rewrite Ec. reflexivity. Qed.

Lemma P_unbiased_eq Po Ph Pf : Ph == Po -> step6_P_obs_future Po Ph Pf = Pf.
Proof. intro E. apply P_unbiased. apply isclose_eq. exact E. Qed.

(** on a common grid k/n (n <= 50000) np.isclose coincides with equality *)
Lemma isclose_grid (k1 k2 n : Z) : (0 < n <= 50000)%Z -> (0 <= k2 <= n)%Z -> k1 <> k2 ->
  QL.isclose (inject_Z k1 / inject_Z n) (inject_Z k2 / inject_Z n) = false.
Proof.
  intros Hn Hk Hne. destruct (QL.isclose _ _) eqn:E; [|reflexivity]. exfalso.
  apply isclose_spec in E.
  assert (Np : 0 < inject_Z n) by (apply inject_Z_pos; lia).
  assert (B0 : 0 <= inject_Z k2 / inject_Z n).
  { apply Qle_shift_div_l; [exact Np|]. rewrite Qmult_0_l. change 0 with (inject_Z 0). apply inject_Z_le. lia. }
  assert (B1 : inject_Z k2 / inject_Z n <= 1).
  { apply Qle_shift_div_r; [exact Np|]. rewrite Qmult_1_l. apply inject_Z_le. lia. }
  rewrite (Qabs_pos _ B0) in E.
  assert (D : inject_Z k1 / inject_Z n - inject_Z k2 / inject_Z n == inject_Z (k1 - k2) / inject_Z n).
  { unfold Zminus. rewrite inject_Z_plus, inject_Z_opp. field. lra. }
  rewrite D in E.
  assert (N5 : inject_Z n <= 50000) by (change 50000 with (inject_Z 50000); apply inject_Z_le; lia).
  assert (G : 1 / inject_Z n <= Qabs (inject_Z (k1 - k2) / inject_Z n)).
  { destruct (Z_lt_le_dec (k1 - k2) 0) as [L|L].
    - assert (inject_Z (k1 - k2) <= -1) by (change (-1) with (inject_Z (-1)); apply inject_Z_le; lia).
      assert (Q1 : inject_Z (k1 - k2) / inject_Z n <= - (1 / inject_Z n)).
      { setoid_replace (- (1 / inject_Z n)) with ((-1) / inject_Z n) by (field; lra). apply Qdiv_le_compat; assumption. }
      rewrite Qabs_neg; [lra|]. assert (0 < 1 / inject_Z n) by (apply Qlt_shift_div_l; [exact Np|lra]). lra.
    - assert (1 <= inject_Z (k1 - k2)) by (change 1 with (inject_Z 1); apply inject_Z_le; lia).
      assert (Q1 : 1 / inject_Z n <= inject_Z (k1 - k2) / inject_Z n) by (apply Qdiv_le_compat; assumption).
      rewrite Qabs_pos; [exact Q1|]. assert (0 < 1 / inject_Z n) by (apply Qlt_shift_div_l; [exact Np|lra]). lra. }
  assert (L : 1 / 50000 <= 1 / inject_Z n).
  { apply Qle_shift_div_l; [exact Np|]. unfold Qdiv. rewrite Qmult_1_l.
    setoid_replace (/ 50000 * inject_Z n) with (inject_Z n / 50000) by (field). apply Qle_shift_div_r; lra. }
  assert (C1 : (1 # 100000) * (inject_Z k2 / inject_Z n) <= 1 # 100000) by nra.
  assert (C2 : (1 # 100000000) + (1 # 100000) < 1 / 50000) by reflexivity.
  lra.
Qed.

(* ---------- proportion and count ---------- *)
Lemma zcount_range m : (0 <= NP.zcount m <= Z.of_nat (length m))%Z.
Proof. unfold NP.zcount. pose proof (filter_length_le (fun b : bool => b) m). lia. Qed.

Lemma percent_range m : m <> [] -> 0 <= step6_percent_beyond m <= 1.
Proof.
  intro Hne. unfold step6_percent_beyond. pose proof (zcount_range m) as Hc.
  assert (Np : 0 < inject_Z (Z.of_nat (length m))) by (apply inject_Z_pos; destruct m; [congruence|cbn; lia]).
  split.
  - apply Qle_shift_div_l; [exact Np|]. rewrite Qmult_0_l. change 0 with (inject_Z 0). apply inject_Z_le. lia.
  - apply Qle_shift_div_r; [exact Np|]. rewrite Qmult_1_l. apply inject_Z_le. lia.
Qed.

Lemma round_half_even_spec q :
  Qabs (inject_Z (QL.round_half_even q) - q) <= 1 # 2 /\
  (Qfloor q <= QL.round_half_even q <= Qfloor q + 1)%Z.
Proof.
  unfold QL.round_half_even. cbv zeta.
  destruct (floor_frac q) as [G0 G1]. set (f := Qfloor q) in *. set (r := q - inject_Z f) in *.
  assert (Eq : q == inject_Z f + r) by (unfold r; ring).
  assert (P1 : inject_Z (f + 1) == inject_Z f + 1) by (rewrite inject_Z_plus; reflexivity).
  destruct (Qle_bool r (1 # 2)) eqn:E1; qb.
  - destruct (Qeq_bool r (1 # 2)) eqn:E2.
    + apply Qeq_bool_iff in E2. destruct (Z.even f); (split; [|lia]).
      * setoid_replace (inject_Z f - q) with (- r) by lra. rewrite Qabs_opp, Qabs_pos; lra.
      * rewrite P1. setoid_replace (inject_Z f + 1 - q) with (1 - r) by lra. rewrite Qabs_pos; lra.
    + split; [|lia]. setoid_replace (inject_Z f - q) with (- r) by lra. rewrite Qabs_opp, Qabs_pos; lra.
  - split; [|lia]. rewrite P1. setoid_replace (inject_Z f + 1 - q) with (1 - r) by lra. rewrite Qabs_pos; lra.
Qed.

Lemma round_half_even_mono_bounds q (a b : Z) : inject_Z a <= q <= inject_Z b -> (a <= QL.round_half_even q <= b)%Z.
Proof.
  intros [Ha Hb]. destruct (round_half_even_spec q) as [_ [L U]].
  assert (Fa : (a <= Qfloor q)%Z) by (rewrite <- (Qfloor_Z a); apply Qfloor_resp_le; exact Ha).
  split; [lia|].
  destruct (Qeq_dec q (inject_Z b)) as [E|NE].
  - unfold QL.round_half_even. cbv zeta. rewrite (Qfloor_comp q (inject_Z b) E), Qfloor_Z.
    assert (R0 : q - inject_Z b == 0) by lra.
    assert (E1 : Qle_bool (q - inject_Z b) (1 # 2) = true) by (apply Qle_bool_true; lra). rewrite E1.
    assert (E2 : Qeq_bool (q - inject_Z b) (1 # 2) = false).
    { destruct (Qeq_bool _ _) eqn:X; [|reflexivity]. apply Qeq_bool_iff in X. lra. }
    rewrite E2. lia.
  - assert (Fb : (Qfloor q < b)%Z) by (apply Qfloor_lt_Z; lra). lia.
Qed.

(** the number of values set to a bound is round(n * P), P the adjusted frequency
    (the observed one when frequency adjustment is switched off) *)
Lemma nr_to_bound_spec adj mo mh mf :
  step6_nr_to_bound adj mo mh mf =
  QL.round_half_even (inject_Z (Z.of_nat (length mf)) *
    (if adj then step6_P_obs_future (step6_percent_beyond mo) (step6_percent_beyond mh) (step6_percent_beyond mf)
     else step6_percent_beyond mo)).
Proof. unfold step6_nr_to_bound. destruct adj; reflexivity. Qed.

Lemma nr_to_bound_range adj mo mh mf : mo <> [] -> mh <> [] -> mf <> [] ->
  (0 <= step6_nr_to_bound adj mo mh mf <= Z.of_nat (length mf))%Z.
Proof.
  intros Ho Hh Hf. rewrite nr_to_bound_spec.
  pose proof (percent_range mo Ho) as Ro. pose proof (percent_range mh Hh) as Rh. pose proof (percent_range mf Hf) as Rf.
  set (P := if adj then _ else _).
  assert (RP : 0 <= P <= 1) by (unfold P; destruct adj; [apply P_range; assumption|exact Ro]).
  assert (Nn : 0 <= inject_Z (Z.of_nat (length mf))) by (change 0 with (inject_Z 0); apply inject_Z_le; lia).
  apply round_half_even_mono_bounds. change (inject_Z 0) with 0. split; nra.
Qed.

(* ---------- rescaling when both bounds claim more values than exist ---------- *)
Lemma scale_nr_spec lo hi n : (0 <= lo)%Z -> (0 <= hi)%Z -> (0 <= n < lo + hi)%Z ->
  let p := step6_scale_nr lo hi n in
  (fst p + snd p = n)%Z /\ (0 <= fst p <= n)%Z /\ (0 <= snd p <= n)%Z /\
  Qabs (inject_Z (fst p) - inject_Z (lo * n) / inject_Z (lo + hi)) <= 1 # 2 /\
  Qabs (inject_Z (snd p) - inject_Z (hi * n) / inject_Z (lo + hi)) <= 1 # 2.
Proof.
  intros Hlo Hhi Hn. unfold step6_scale_nr. cbv zeta. cbn [fst snd].
  set (q := inject_Z (lo * n) / inject_Z (lo + hi)).
  assert (Tp : 0 < inject_Z (lo + hi)) by (apply inject_Z_pos; lia).
  assert (Q0 : 0 <= q).
  { unfold q. apply Qle_shift_div_l; [exact Tp|]. rewrite Qmult_0_l. change 0 with (inject_Z 0). apply inject_Z_le. nia. }
  assert (Q1 : q <= inject_Z n).
  { unfold q. apply Qle_shift_div_r; [exact Tp|]. rewrite <- inject_Z_mult. apply inject_Z_le. nia. }
  destruct (round_half_even_spec q) as [A _].
  pose proof (round_half_even_mono_bounds q 0 n ltac:(change (inject_Z 0) with 0; lra)) as B.
  set (a := QL.round_half_even q) in *.
  split; [lia|]. split; [lia|]. split; [lia|]. split; [exact A|].
  assert (E : inject_Z (n - a) - inject_Z (hi * n) / inject_Z (lo + hi) == - (inject_Z a - q)).
  { unfold q. unfold Zminus. rewrite !inject_Z_plus, !inject_Z_opp, !inject_Z_mult. field.
    rewrite <- inject_Z_plus. lra. }
  rewrite E, Qabs_opp. exact A.
Qed.

(* ---------- masks ---------- *)
Lemma set_range_from_length {A} (m : list A) v : forall i lo hi, length (NP.set_range_from i lo hi m v) = length m.
Proof. induction m as [|x m IH]; intros; cbn [NP.set_range_from length]; [reflexivity|]. rewrite IH. reflexivity. Qed.

Lemma set_range_from_nth {A} (m : list A) v d : forall i lo hi k, (k < length m)%nat ->
  nth k (NP.set_range_from i lo hi m v) d =
  if ((lo <=? i + Z.of_nat k) && (i + Z.of_nat k <? hi))%Z then v else nth k m d.
Proof.
  induction m as [|x m IH]; intros i lo hi k Hk; [cbn in Hk; lia|].
  cbn [NP.set_range_from]. destruct k as [|k]; cbn [nth].
  - replace (i + Z.of_nat 0)%Z with i by lia. reflexivity.
  - rewrite IH by (cbn in Hk; lia). replace (i + 1 + Z.of_nat k)%Z with (i + Z.of_nat (S k))%Z by lia. reflexivity.
Qed.

Lemma nth_repeat_false k n : nth k (repeat false n) false = false.
Proof. revert k. induction n as [|n IH]; intros [|k]; cbn; auto. Qed.

(** the lowest nr sorted values go to the lower bound, the highest nr to the upper bound *)
Lemma mask_lower_spec nr x k : (0 <= nr <= Z.of_nat (length x))%Z -> (k < length x)%nat ->
  length (step6_mask_lower nr x) = length x /\
  nth k (step6_mask_lower nr x) false = (Z.of_nat k <? nr)%Z.
Proof.
  intros Hnr Hk. unfold step6_mask_lower, NP.set_slice. cbv zeta.
  rewrite set_range_from_length, repeat_length. split; [reflexivity|].
  rewrite set_range_from_nth by (rewrite repeat_length; exact Hk).
  rewrite nth_repeat_false. unfold NP.norm_bound. cbv zeta.
  destruct (0 <? 0)%Z eqn:E0; [lia|]. destruct (nr <? 0)%Z eqn:E1; [lia|].
  destruct ((Z.max 0 (Z.min (Z.of_nat (length x)) 0) <=? 0 + Z.of_nat k)%Z &&
            (0 + Z.of_nat k <? Z.max 0 (Z.min (Z.of_nat (length x)) nr))%Z)%bool eqn:E;
  destruct (Z.of_nat k <? nr)%Z eqn:E'; try reflexivity; lia.
Qed.

Lemma mask_upper_spec nr x k : (0 <= nr <= Z.of_nat (length x))%Z -> (k < length x)%nat ->
  length (step6_mask_upper nr x) = length x /\
  nth k (step6_mask_upper nr x) false = (Z.of_nat (length x) - nr <=? Z.of_nat k)%Z.
Proof.
  intros Hnr Hk. unfold step6_mask_upper, NP.set_slice. cbv zeta.
  rewrite set_range_from_length, !repeat_length. split; [reflexivity|].
  rewrite set_range_from_nth by (rewrite repeat_length; exact Hk).
  rewrite nth_repeat_false. unfold NP.norm_bound. cbv zeta.
  set (n := Z.of_nat (length x)) in *.
  destruct (n - nr <? 0)%Z eqn:E0; [lia|]. destruct (n <? 0)%Z eqn:E1; [lia|].
  destruct ((Z.max 0 (Z.min n (n - nr)) <=? 0 + Z.of_nat k)%Z && (0 + Z.of_nat k <? Z.max 0 (Z.min n n))%Z)%bool eqn:E;
  destruct (n - nr <=? Z.of_nat k)%Z eqn:E'; try reflexivity; lia.
Qed.

(** the two masks never overlap when the counts fit (after rescaling they always do) *)
Lemma masks_disjoint lo hi x k : (0 <= lo)%Z -> (0 <= hi)%Z -> (lo + hi <= Z.of_nat (length x))%Z -> (k < length x)%nat ->
  nth k (step6_mask_lower lo x) false && nth k (step6_mask_upper hi x) false = false.
Proof.
  intros Hlo Hhi Hs Hk.
  rewrite (proj2 (mask_lower_spec lo x k ltac:(lia) Hk)), (proj2 (mask_upper_spec hi x k ltac:(lia) Hk)).
  destruct (Z.of_nat k <? lo)%Z eqn:E1; destruct (Z.of_nat (length x) - hi <=? Z.of_nat k)%Z eqn:E2; try reflexivity; lia.
Qed.
