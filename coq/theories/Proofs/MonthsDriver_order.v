(** C06 for ISIMIP's month mode: for a value-wise pipeline whose calibration arguments are order-free, the value a
    dated cm_future value receives does not depend on the storage order of the three series. *)
From Coq Require Import ZArith List Bool Lia Permutation.
From IV Require Import NP NPFacts Grid Driver YearsDriver_proofs MonthsDriver_proofs C06_proofs.
Import ListNotations.
Open Scope Z_scope.

(** the month slice as a filter of the dated values *)
Lemma select_as_filter {T} (m : Z) : forall (mo : list Z) (x : list T), length x = length mo ->
  NP.select x (map (Z.eqb m) mo) = map snd (filter (fun p => Z.eqb m (fst p)) (combine mo x)).
Proof.
  induction mo as [|a mo IH]; intros x L; destruct x as [|v x]; try discriminate; [reflexivity|].
  cbn [map NP.select combine filter fst]. injection L as L. destruct (Z.eqb m a); cbn [map snd]; rewrite IH by exact L; reflexivity.
Qed.

Lemma month_slice_perm {T} (m : Z) (mo mo' : list Z) (x x' : list T) :
  length x = length mo -> length x' = length mo' -> Permutation (combine mo x) (combine mo' x') ->
  Permutation (NP.select x (map (Z.eqb m) mo)) (NP.select x' (map (Z.eqb m) mo')).
Proof.
  intros L L' P. rewrite !select_as_filter by assumption.
  apply Permutation_map. apply perm_filter. exact P.
Qed.

Lemma map_fst_combine_eq {A B} (a : list A) : forall (b : list B), length a = length b -> map fst (combine a b) = a.
Proof.
  induction a as [|x a IH]; intros b L; [reflexivity|]. destruct b as [|y b]; [discriminate|].
  cbn [combine map fst]. f_equal. apply IH. injection L as L; exact L.
Qed.

(** the entry of the month slice at k's rank is the value at k *)
Lemma select_rank {T} : forall (x : list T) (mask : list bool) k, length x = length mask ->
  nth k mask false = true -> nth_error (NP.select x mask) (ctrue (firstn k mask)) = nth_error x k.
Proof.
  induction x as [|v x IH]; intros mask k L Hk; destruct mask as [|b mask]; try discriminate.
  - destruct k; discriminate.
  - injection L as L. destruct k as [|k].
    + cbn in Hk. subst b. reflexivity.
    + cbn [nth] in Hk. cbn [firstn NP.select]. unfold ctrue. cbn [filter]. destruct b; cbn [length nth_error]; apply IH; assumption.
Qed.

Section Order.
Variables (T V : Type).
Variable g : list T -> list T -> list T -> T -> V.
Hypothesis g_perm : forall o o' h h' f f' x, Permutation o o' -> Permutation h h' -> Permutation f f' -> g o h f x = g o' h' f' x.

Let W := fun (o h f : list T) => map (g o h f) f.
Lemma W_len o h f : length (W o h f) = length f.
Proof. apply map_length. Qed.

(** the value of the time step at k: g on its month's slices, applied to the value at k *)
Theorem months_pointwise_output mo mh mf (obs hist fut : list T) : length fut = length mf -> (forall m, In m mf -> 1 <= m <= 12) ->
  exists out, months_driver V mo mh mf obs hist fut W = Some out /\ length out = length mf /\
    forall k, (k < length mf)%nat ->
      nth k out None = option_map (g (NP.select obs (map (Z.eqb (nth k mf 0)) mo)) (NP.select hist (map (Z.eqb (nth k mf 0)) mh))
                                     (NP.select fut (map (Z.eqb (nth k mf 0)) mf))) (nth_error fut k).
Proof.
  intros Hl Hm. destruct (months_driver_spec T V mo mh mf obs hist fut W Hl W_len Hm) as (out & E & Lo & Sp).
  exists out. split; [exact E|]. split; [exact Lo|]. intros k Hk. rewrite (Sp k Hk).
  unfold value_at, month_result, W. set (m := nth k mf 0). rewrite nth_error_map.
  rewrite select_rank; [reflexivity | rewrite map_length; exact Hl |].
  rewrite (nth_eqb_mask mf m k Hk). apply Z.eqb_refl.
Qed.

Theorem months_order_equivariance mo mh mf (obs hist fut : list T) mo' mh' mf' (obs' hist' fut' : list T) :
  (forall m, In m mf -> 1 <= m <= 12) ->
  length obs = length mo -> length obs' = length mo' -> length hist = length mh -> length hist' = length mh' ->
  length fut = length mf -> length fut' = length mf' ->
  Permutation (combine mo obs) (combine mo' obs') -> Permutation (combine mh hist) (combine mh' hist') ->
  Permutation (combine mf fut) (combine mf' fut') ->
  exists out out', months_driver V mo mh mf obs hist fut W = Some out /\ months_driver V mo' mh' mf' obs' hist' fut' W = Some out' /\
    forall k k', (k < length mf)%nat -> (k' < length mf')%nat -> nth k mf 0 = nth k' mf' 0 -> nth_error fut k = nth_error fut' k' ->
      nth k out None = nth k' out' None.
Proof.
  intros Hm Lo Lo' Lh Lh' Lf Lf' Po Ph Pf.
  assert (Hm' : forall m, In m mf' -> 1 <= m <= 12).
  { intros m Hin. apply Hm. rewrite <- (map_fst_combine_eq mf fut) by (symmetry; exact Lf).
    rewrite <- (map_fst_combine_eq mf' fut') in Hin by (symmetry; exact Lf').
    eapply Permutation_in; [apply Permutation_sym, Permutation_map; exact Pf | exact Hin]. }
  destruct (months_pointwise_output mo mh mf obs hist fut Lf Hm) as (out & E & _ & Sp).
  destruct (months_pointwise_output mo' mh' mf' obs' hist' fut' Lf' Hm') as (out' & E' & _ & Sp').
  exists out, out'. split; [exact E|]. split; [exact E'|].
  intros k k' Hk Hk' Em Ev. rewrite (Sp k Hk), (Sp' k' Hk'), <- Em, <- Ev.
  destruct (nth_error fut k) as [x|]; [|reflexivity]. cbn [option_map]. f_equal.
  apply g_perm; apply month_slice_perm; assumption.
Qed.
End Order.
