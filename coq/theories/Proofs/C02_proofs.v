(** C02: trend preservation — shift / scale equivariance of the per-window methods REGENERATED from
    the source (Gen/GenScalars.v). *)
From Coq Require Import QArith Qabs ZArith List Bool String Lia Lqa.
From IV Require Import QL Dist Ecdf QFacts C16_step QListFacts GenUtils GenScalars C03_proofs.
Import ListNotations.
Open Scope Q_scope.

Definition shift (c : Q) (l : list Q) : list Q := map (fun x => x + c) l.
Definition scale (k : Q) (l : list Q) : list Q := map (fun x => x * k) l.

Definition out_eql (a b : option (list Q)) : Prop :=
  match a, b with Some x, Some y => eql x y | None, None => True | _, _ => False end.

(* ---------- LinearScaling ---------- *)
Theorem ls_shift_equivariant o h f c :
  out_eql (ls_apply_on_window "additive" o h (shift c f))
          (option_map (shift c) (ls_apply_on_window "additive" o h f)).
Proof.
  cbn [ls_apply_on_window String.eqb Ascii.eqb Bool.eqb option_map out_eql]. cbv zeta. unfold shift. rewrite !map_map.
  apply eql_map_pointwise. intros x _. ring.
Qed.

Theorem ls_scale_equivariant o h f k :
  out_eql (ls_apply_on_window "multiplicative" o h (scale k f))
          (option_map (scale k) (ls_apply_on_window "multiplicative" o h f)).
Proof.
  cbn [ls_apply_on_window String.eqb Ascii.eqb Bool.eqb option_map out_eql]. cbv zeta. unfold scale. rewrite !map_map.
  apply eql_map_pointwise. intros x _. ring.
Qed.

(* ---------- DeltaChange: the signal is in cm_future ---------- *)
Theorem dc_shift_equivariant o h f c : f <> [] ->
  out_eql (dc_apply_on_window "additive" o h (shift c f))
          (option_map (shift c) (dc_apply_on_window "additive" o h f)).
Proof.
  intro Hf. cbn [dc_apply_on_window String.eqb Ascii.eqb Bool.eqb option_map out_eql]. cbv zeta. unfold shift. rewrite !map_map.
  apply eql_map_pointwise. intros x _. rewrite (qmean_shift c f Hf). ring.
Qed.

Theorem dc_scale_equivariant o h f k : f <> [] -> ~ QL.qmean h == 0 ->
  out_eql (dc_apply_on_window "multiplicative" o h (scale k f))
          (option_map (scale k) (dc_apply_on_window "multiplicative" o h f)).
Proof.
  intros Hf Hh. cbn [dc_apply_on_window String.eqb Ascii.eqb Bool.eqb option_map out_eql]. cbv zeta. unfold scale. rewrite !map_map.
  apply eql_map_pointwise. intros x _. rewrite (qmean_scale k f Hf). field. exact Hh.
Qed.

(** the change of the time mean relative to the observations equals the simulated change *)
Theorem ls_signal o h f : f <> [] ->
  exists out, ls_apply_on_window "additive" o h f = Some out /\
    QL.qmean out - QL.qmean o == QL.qmean f - QL.qmean h.
Proof.
  intro Hf. eexists. split; [reflexivity|]. cbv zeta.
  rewrite (qmean_sub _ f Hf). ring.
Qed.

Theorem dc_signal o h f : o <> [] ->
  exists out, dc_apply_on_window "additive" o h f = Some out /\
    QL.qmean out - QL.qmean o == QL.qmean f - QL.qmean h.
Proof.
  intro Ho. eexists. split; [reflexivity|]. cbv zeta.
  rewrite (qmean_shift _ o Ho). ring.
Qed.

Theorem ls_signal_multiplicative o h f : f <> [] -> ~ QL.qmean h == 0 ->
  exists out, ls_apply_on_window "multiplicative" o h f = Some out /\
    QL.qmean out * QL.qmean h == QL.qmean o * QL.qmean f.
Proof.
  intros Hf Hh. eexists. split; [reflexivity|]. cbv zeta. rewrite (qmean_scale _ f Hf). field. exact Hh.
Qed.

(* ---------- distribution hypotheses used below ---------- *)
Section WithDist.
Context {P : Type} (D : dist P).
(** the distribution's cdf/ppf respect equality of rationals *)
Definition dist_proper : Prop :=
  (forall p v v', v == v' -> cdf D p v == cdf D p v') /\ (forall p v v', v == v' -> ppf D p v == ppf D p v').
(** fitting a shifted sample shifts the fitted distribution *)
Definition fit_shift_equivariant : Prop :=
  forall l c x, l <> [] -> cdf D (fit D (shift c l)) (x + c) == cdf D (fit D l) x.

Lemma clamp_proper t v v' : v == v' -> clampq t v == clampq t v'.
Proof.
  intro E. unfold clampq, GenUtils.threshold_cdf_vals, QL.qmax2, QL.qmin2.
  assert (B1 : Qle_bool v (inject_Z 1 - t) = Qle_bool v' (inject_Z 1 - t)).
  { destruct (Qle_bool v _) eqn:A, (Qle_bool v' _) eqn:B; qb; try reflexivity; lra. }
  rewrite B1. destruct (Qle_bool v' (inject_Z 1 - t)).
  - assert (B2 : Qle_bool v t = Qle_bool v' t) by (destruct (Qle_bool v t) eqn:A, (Qle_bool v' t) eqn:B; qb; try reflexivity; lra).
    rewrite B2. destruct (Qle_bool v' t); [reflexivity|exact E].
  - reflexivity.
Qed.

(** parametric quantile mapping is a pointwise function of the value to map *)
Lemma qm_param_pointwise t x obs hist :
  qm_standard_qm "parametric" D t x obs hist =
  Some (map (fun v => ppf D (fit D obs) (clampq t (cdf D (fit D hist) v))) x).
Proof. unfold qm_standard_qm. cbn [String.eqb Ascii.eqb Bool.eqb]. cbv zeta. rewrite !map_map. reflexivity. Qed.

(** QuantileMapping with additive detrending: a uniform shift of cm_future passes through unchanged *)
Theorem qm_param_shift_equivariant t o h f c : dist_proper -> f <> [] ->
  out_eql (qm_apply_on_window "additive" "parametric" D t o h (shift c f))
          (option_map (shift c) (qm_apply_on_window "additive" "parametric" D t o h f)).
Proof.
  intros [Pc Pp] Hf. unfold qm_apply_on_window. cbn [String.eqb Ascii.eqb Bool.eqb]. cbv zeta.
  rewrite !qm_param_pointwise. cbn [option_map out_eql]. unfold shift. rewrite !map_map.
  apply eql_map_pointwise. intros x _. pose proof (qmean_shift c f Hf) as Hm.
  set (m' := QL.qmean (map (fun x0 => x0 + c) f)) in *.
  assert (E : x + c - (m' - QL.qmean h) == x - (QL.qmean f - QL.qmean h)) by (rewrite Hm; ring).
  rewrite (Pp _ _ _ (clamp_proper t _ _ (Pc _ _ _ E))). rewrite Hm. ring.
Qed.

(** ... and with multiplicative detrending a uniform scaling does *)
Theorem qm_param_scale_equivariant t o h f k : dist_proper -> f <> [] -> ~ k == 0 -> ~ QL.qmean f == 0 -> ~ QL.qmean h == 0 ->
  out_eql (qm_apply_on_window "multiplicative" "parametric" D t o h (scale k f))
          (option_map (scale k) (qm_apply_on_window "multiplicative" "parametric" D t o h f)).
Proof.
  intros [Pc Pp] Hf Hk Hmf Hmh. unfold qm_apply_on_window. cbn [String.eqb Ascii.eqb Bool.eqb]. cbv zeta.
  rewrite !qm_param_pointwise. cbn [option_map out_eql]. unfold scale. rewrite !map_map.
  apply eql_map_pointwise. intros x _. pose proof (qmean_scale k f Hf) as Hm.
  set (m' := QL.qmean (map (fun x0 => x0 * k) f)) in *.
  assert (E : x * k / (m' / QL.qmean h) == x / (QL.qmean f / QL.qmean h)) by (rewrite Hm; field; repeat split; assumption).
  rewrite (Pp _ _ _ (clamp_proper t _ _ (Pc _ _ _ E))). rewrite Hm. field. exact Hmh.
Qed.

(** ECDFM: a uniform shift passes through when fitting is shift-equivariant *)
Theorem ecdfm_shift_equivariant t o h f c : dist_proper -> fit_shift_equivariant -> f <> [] ->
  eql (ecdfm_apply_on_window D t o h (shift c f)) (shift c (ecdfm_apply_on_window D t o h f)).
Proof.
  intros [Pc Pp] Hfs Hf. unfold ecdfm_apply_on_window. cbv zeta. unfold shift.
  set (q' := map (fun x => GenUtils.threshold_cdf_vals x t) (map (cdf D (fit D (map (fun x => x + c) f))) (map (fun x => x + c) f))).
  set (q := map (fun x => GenUtils.threshold_cdf_vals x t) (map (cdf D (fit D f)) f)).
  assert (Eq : eql q' q).
  { unfold q', q. rewrite !map_map. apply eql_map_pointwise. intros x _. apply (clamp_proper t). apply (Hfs f c x Hf). }
  unfold fit_shift_equivariant, shift in Hfs.
  clearbody q q'. clear Hfs.
  revert q q' Eq. induction f as [|x f IH]; intros q q' Eq; [destruct q, q'; constructor|].
  inversion Eq as [|a b q0' q0 Hab Eq0]; subst; cbn [map QL.zip2]; [constructor|].
  constructor.
  - pose proof (Pp (fit D o) _ _ Hab) as E1. pose proof (Pp (fit D h) _ _ Hab) as E2. lra.
  - destruct f as [|y f]; [destruct q0', q0; constructor|]. apply IH; [discriminate|exact Eq0].
Qed.
End WithDist.

(** QuantileDeltaMapping (absolute) with the step ecdf: the empirical cdf of a shifted sample at shifted
    points is unchanged, so a uniform shift passes through — for ANY distribution object *)
Lemma filter_shift_length x y c :
  List.length (filter (fun v => Qle_bool v (y + c)) (map (fun v => v + c) x)) = List.length (filter (fun v => Qle_bool v y) x).
Proof.
  induction x as [|a x IH]; [reflexivity|]. cbn [map filter].
  assert (E : Qle_bool (a + c) (y + c) = Qle_bool a y).
  { destruct (Qle_bool (a + c) (y + c)) eqn:A, (Qle_bool a y) eqn:B; qb; try reflexivity; lra. }
  rewrite E. destruct (Qle_bool a y); cbn [List.length]; rewrite IH; reflexivity.
Qed.

Lemma ecdf_step_shift x y c : ecdf_step (shift c x) (y + c) = ecdf_step x y.
Proof. unfold ecdf_step, shift, zlen. rewrite filter_shift_length, map_length. reflexivity. Qed.

Theorem qdm_abs_shift_equivariant {P} (D : dist P) t cth (fo fh : P) f c :
  out_eql (qdm_apply_debiasing_steps step_function t "absolute" D false cth (shift c f) fo fh)
          (option_map (shift c) (qdm_apply_debiasing_steps step_function t "absolute" D false cth f fo fh)).
Proof.
  unfold qdm_apply_debiasing_steps. cbn [String.eqb Ascii.eqb Bool.eqb option_map out_eql]. cbv zeta.
  assert (Tau : map (fun x => GenUtils.threshold_cdf_vals x t) (map (Ecdf.ecdf step_function (shift c f)) (shift c f))
              = map (fun x => GenUtils.threshold_cdf_vals x t) (map (Ecdf.ecdf step_function f) f)).
  { f_equal. unfold shift at 2. rewrite map_map. apply map_ext. intro x. cbn [Ecdf.ecdf]. apply ecdf_step_shift. }
  rewrite Tau. clear Tau. set (tau := map _ (map (Ecdf.ecdf step_function f) f)).
  assert (L : List.length tau = List.length f) by (unfold tau; rewrite !map_length; reflexivity).
  clearbody tau. revert tau L. induction f as [|x f IH]; intros tau L; [destruct tau; constructor|].
  destruct tau as [|p tau]; [discriminate|]. cbn [shift map QL.zip2]. constructor; [ring|].
  apply IH. cbn [List.length] in L. injection L as L. exact L.
Qed.
