(** C06: values stay attached to their time steps.  For a pointwise, permutation-invariant
    per-window method the output of the window loop at index k is a function F of
    (day of year at k, value at k) only, and F is the same function for any re-ordering of the three
    dated series. *)
From Coq Require Import ZArith List Bool Lia ZifyBool Sorted Permutation.
From IV Require Import NP NPFacts WindowArith GenWindows Grid Grid_proofs Driver C07_proofs Driver_proofs Driver_corollaries.
Import ListNotations.
Open Scope Z_scope.
Ltac Zify.zify_post_hook ::= Z.to_euclidean_division_equations.

(* ---------- min / max are order-free ---------- *)
Lemma zmin_perm l l' : Permutation l l' -> NP.zmin l = NP.zmin l'.
Proof.
  intro P. destruct l as [|x l].
  - apply Permutation_nil in P. subst. reflexivity.
  - assert (N : x :: l <> []) by discriminate.
    assert (N' : l' <> []) by (intro E; subst; apply Permutation_sym, Permutation_nil in P; discriminate).
    pose proof (zmin_in _ N) as I1. pose proof (zmin_in _ N') as I2.
    pose proof (zmin_le l' _ (Permutation_in _ P I1)). pose proof (zmin_le (x :: l) _ (Permutation_in _ (Permutation_sym P) I2)). lia.
Qed.
Lemma zmax_perm l l' : Permutation l l' -> NP.zmax l = NP.zmax l'.
Proof.
  intro P. destruct l as [|x l].
  - apply Permutation_nil in P. subst. reflexivity.
  - assert (N : x :: l <> []) by discriminate.
    assert (N' : l' <> []) by (intro E; subst; apply Permutation_sym, Permutation_nil in P; discriminate).
    pose proof (zmax_in _ N) as I1. pose proof (zmax_in _ N') as I2.
    pose proof (zmax_ge l' _ (Permutation_in _ P I1)). pose proof (zmax_ge (x :: l) _ (Permutation_in _ (Permutation_sym P) I2)). lia.
Qed.

Lemma centers_perm S d d' : Permutation d d' -> days_window_centers S d = days_window_centers S d'.
Proof. intro P. rewrite !days_window_centers_eq, (zmin_perm _ _ P), (zmax_perm _ _ P). reflexivity. Qed.

Lemma perm_filter {A} (f : A -> bool) l l' : Permutation l l' -> Permutation (filter f l) (filter f l').
Proof.
  induction 1 as [|x l l' P IH|x y l|l l' l'' P1 IH1 P2 IH2]; cbn [filter].
  - constructor.
  - destruct (f x); [constructor|]; exact IH.
  - destruct (f x), (f y); try apply perm_swap; try (constructor; apply Permutation_refl); apply Permutation_refl.
  - eapply Permutation_trans; eassumption.
Qed.

(* ---------- a window slice is the filter of the dated series by day membership ---------- *)
Section Slice.
Variable T : Type.

Lemma take_where_from (R : list Z) : forall (days : list Z) (x : list T) (s : Z) (pre : list T),
  length pre = Z.to_nat s -> 0 <= s -> length x = length days ->
  NP.take (pre ++ x) (NP.where_from s (NP.isin days R)) =
  map snd (filter (fun p => NP.zmem (fst p) R) (combine days x)).
Proof.
  unfold NP.isin. induction days as [|d days IH]; intros x s pre Hp Hs Hl; [reflexivity|].
  destruct x as [|v x]; [discriminate|]. cbn [map NP.where_from combine filter fst].
  assert (IHs : NP.take (pre ++ v :: x) (NP.where_from (s + 1) (map (fun v0 => NP.zmem v0 R) days)) =
                map snd (filter (fun p => NP.zmem (fst p) R) (combine days x))).
  { replace (pre ++ v :: x) with ((pre ++ [v]) ++ x) by (rewrite <- app_assoc; reflexivity).
    apply IH; [rewrite app_length; cbn; lia|lia|cbn in Hl; lia]. }
  destruct (NP.zmem d R); [|exact IHs].
  unfold NP.take at 1. cbn [flat_map]. fold (NP.take (pre ++ v :: x) (NP.where_from (s + 1) (map (fun v0 => NP.zmem v0 R) days))).
  rewrite IHs. cbn [map snd].
  rewrite nth_error_app2 by lia. replace (Z.to_nat s - length pre)%nat with 0%nat by lia. cbn [nth_error].
  destruct (0 <=? s) eqn:E; [reflexivity|lia].
Qed.

Lemma slice_is_filter L days (x : list T) c : length x = length days ->
  NP.take x (days_indices_in_window L days c) =
  map snd (filter (fun p => NP.zmem (fst p)
      (NP.replace_eq (NP.zmod_list (NP.arange (c - L / 2) (c + L / 2 + 1) 1) (365 + 1)) 0 366)) (combine days x)).
Proof.
  intro Hl. unfold days_indices_in_window. cbv zeta. unfold NP.where_idx.
  change x with ([] ++ x) at 1. apply (take_where_from _ days x 0 []); try reflexivity; try lia; try exact Hl.
Qed.

(** re-ordering a dated series re-orders each of its window slices *)
Lemma slice_perm L days days' (x x' : list T) c : length x = length days -> length x' = length days' ->
  Permutation (combine days x) (combine days' x') ->
  Permutation (NP.take x (days_indices_in_window L days c)) (NP.take x' (days_indices_in_window L days' c)).
Proof.
  intros Hl Hl' P. rewrite (slice_is_filter L days x c Hl), (slice_is_filter L days' x' c Hl').
  apply Permutation_map. apply perm_filter. exact P.
Qed.

Lemma days_perm (days days' : list Z) (x x' : list T) : length x = length days -> length x' = length days' ->
  Permutation (combine days x) (combine days' x') -> Permutation days days'.
Proof.
  intros Hl Hl' P. apply (Permutation_map fst) in P.
  assert (F : forall (a : list Z) (b : list T), length b = length a -> map fst (combine a b) = a).
  { induction a as [|u a IH]; intros [|w b] H; try discriminate; [reflexivity|]. cbn. f_equal. apply IH. cbn in H. lia. }
  rewrite (F _ _ Hl), (F _ _ Hl') in P. exact P.
Qed.
End Slice.

(* ---------- pointwise window methods ---------- *)
Section Pointwise.
Variables (T V : Type).
Variable g : list T -> list T -> list T -> T -> V.
Hypothesis g_perm : forall o o' h h' f f' x, Permutation o o' -> Permutation h h' -> Permutation f f' ->
  g o h f x = g o' h' f' x.
Definition Wg (o h f : list T) : list V := map (g o h f) f.

Variables (L S : Z).
Hypothesis HS : 0 < S.
Hypothesis HSL : S <= L.
Hypothesis Hodd : S mod 2 = 1.

(** the centre that adjusts day d *)
Definition centre_of (dA : list Z) (d : Z) : Z :=
  hd 0 (filter (fun c => (c - S / 2 <=? d) && (d <=? c + S / 2)) (days_window_centers S dA)).

Lemma lookup_map_take (G : T -> V) (fut : list T) : forall idx k, In k idx -> NoDup idx ->
  (forall i, In i idx -> 0 <= i < Z.of_nat (length fut)) ->
  exists x, nth_error fut (Z.to_nat k) = Some x /\ lookupZ V k (combine idx (map G (NP.take fut idx))) = Some (G x).
Proof.
  induction idx as [|i idx IH]; intros k Hin Hnd Hr; [destruct Hin|].
  inversion Hnd as [|? ? Hni Hnd']; subst.
  pose proof (Hr i (or_introl eq_refl)) as Hi.
  destruct (nth_error fut (Z.to_nat i)) as [xi|] eqn:Ei; [|apply nth_error_None in Ei; lia].
  assert (Tk : NP.take fut (i :: idx) = xi :: NP.take fut idx).
  { unfold NP.take. cbn [flat_map]. rewrite Ei. destruct (0 <=? i) eqn:E0; [reflexivity|lia]. }
  rewrite Tk. cbn [map combine lookupZ].
  destruct (k =? i) eqn:E.
  - assert (k = i) by lia. subst k. exists xi. split; [exact Ei|reflexivity].
  - destruct Hin as [->|Hin]; [lia|]. apply IH; [exact Hin|exact Hnd'|]. intros j Hj. apply Hr. right. exact Hj.
Qed.

Section One.
Variables (dobs dhist dfut : list Z) (obs hist fut : list T).
Hypothesis Hdf : forall d, In d dfut -> 1 <= d <= 366.
Hypothesis Hlf : length fut = length dfut.

Definition F (d : Z) (x : T) : V :=
  let c := centre_of dfut d in
  g (NP.take obs (days_indices_in_window L dobs c)) (NP.take hist (days_indices_in_window L dhist c))
    (NP.take fut (days_indices_in_window L dfut c)) x.

(** output at k = F (day at k) (value at k) *)
Theorem pointwise_output :
  exists out, driver_rw V L S dobs dhist dfut obs hist fut Wg = Some out /\ length out = length dfut /\
    forall k, 0 <= k < Z.of_nat (length dfut) ->
      exists x, nth_error fut (Z.to_nat k) = Some x /\
                nth (Z.to_nat k) out None = Some (F (nth (Z.to_nat k) dfut 0) x).
Proof.
  unfold driver_rw.
  set (Wc := fun c => Wg (NP.take obs (days_indices_in_window L dobs c)) (NP.take hist (days_indices_in_window L dhist c)) (NP.take fut (days_indices_in_window L dfut c))).
  assert (Hl : forall c, In c (days_window_centers S dfut) -> length (Wc c) = length (days_indices_in_window L dfut c)).
  { intros c _. unfold Wc, Wg. rewrite map_length. apply take_length_where. exact Hlf. }
  destruct (driver_spec V L S dfut Wc HS HSL Hdf Hodd Hl) as (out & E & Hlen & H).
  exists out. split; [exact E|]. split; [exact Hlen|]. intros k Hk.
  destruct (H k Hk) as (c & v & Hc & Ka & Kw & Uq & Ev & Hv).
  destruct (lookup_map_take (g (NP.take obs (days_indices_in_window L dobs c)) (NP.take hist (days_indices_in_window L dhist c)) (NP.take fut (days_indices_in_window L dfut c)))
              fut (days_indices_in_window L dfut c) k Kw) as (x & Ex & Lx).
  { apply sorted_lt_nodup. unfold days_indices_in_window. cbv zeta. apply where_idx_sorted. }
  { intros i Hi. apply days_window_spec in Hi. rewrite Hlf. tauto. }
  exists x. split; [exact Ex|]. rewrite Hv. f_equal.
  unfold Wc, Wg in Ev. rewrite Lx in Ev. injection Ev as <-.
  unfold F. cbv zeta.
  (* the centre adjusting k is centre_of (day at k) *)
  assert (Ec : centre_of dfut (nth (Z.to_nat k) dfut 0) = c).
  { unfold centre_of. set (d := nth (Z.to_nat k) dfut 0).
    apply days_adjust_spec in Ka. destruct Ka as [_ Kd]. cbv zeta in Kd. fold d in Kd.
    assert (Fl : filter (fun c0 => (c0 - S / 2 <=? d) && (d <=? c0 + S / 2)) (days_window_centers S dfut) = [c]).
    { assert (Hnd : NoDup (days_window_centers S dfut)) by (rewrite days_window_centers_eq; apply arange_nodup).
      assert (Uq' : forall c', In c' (days_window_centers S dfut) -> (c' - S / 2 <=? d) && (d <=? c' + S / 2) = true -> c' = c).
      { intros c' Hc' B. apply Uq; [exact Hc'|]. apply days_adjust_spec. split; [exact Hk|]. cbv zeta. fold d.
        specialize (Hdf d ltac:(apply nth_In; lia)). lia. }
      clear - Hc Kd Hnd Uq'. induction (days_window_centers S dfut) as [|a l IH]; [destruct Hc|].
      inversion Hnd as [|? ? Hna Hnd']; subst. cbn [filter].
      destruct ((a - S / 2 <=? d) && (d <=? a + S / 2)) eqn:B.
      - assert (a = c) by (apply Uq'; [left; reflexivity|exact B]). subst a. f_equal.
        assert (N : forall l', (forall x, In x l' -> In x l) -> filter (fun c0 => (c0 - S / 2 <=? d) && (d <=? c0 + S / 2)) l' = []).
        { induction l' as [|b l' IH']; intro Hs; [reflexivity|]. cbn [filter].
          destruct ((b - S / 2 <=? d) && (d <=? b + S / 2)) eqn:Bb.
          - exfalso. assert (b = c) by (apply Uq'; [right; apply Hs; left; reflexivity|exact Bb]). subst b. apply Hna. apply Hs. left. reflexivity.
          - apply IH'. intros x Hx. apply Hs. right. exact Hx. }
        apply N. auto.
      - destruct Hc as [->|Hc]; [lia|]. apply IH; [exact Hc|exact Hnd'|]. intros c' Hc' B'. apply Uq'; [right; exact Hc'|exact B']. }
    rewrite Fl. reflexivity. }
  rewrite Ec. reflexivity.
Qed.
End One.

(** F does not depend on the storage order of the three dated series *)
Theorem F_order_free dobs dhist dfut (obs hist fut : list T) dobs' dhist' dfut' (obs' hist' fut' : list T) :
  length obs = length dobs -> length obs' = length dobs' -> length hist = length dhist -> length hist' = length dhist' ->
  length fut = length dfut -> length fut' = length dfut' ->
  Permutation (combine dobs obs) (combine dobs' obs') -> Permutation (combine dhist hist) (combine dhist' hist') ->
  Permutation (combine dfut fut) (combine dfut' fut') ->
  forall d x, F dobs dhist dfut obs hist fut d x = F dobs' dhist' dfut' obs' hist' fut' d x.
Proof.
  intros Lo Lo' Lh Lh' Lf Lf' Po Ph Pf d x. unfold F, centre_of. cbv zeta.
  rewrite (centers_perm S dfut dfut' (days_perm T dfut dfut' fut fut' Lf Lf' Pf)).
  apply g_perm; apply slice_perm; assumption.
Qed.

(** C06: the debiased value of every dated cm_future value is the same after any re-ordering *)
Theorem order_equivariance dobs dhist dfut (obs hist fut : list T) dobs' dhist' dfut' (obs' hist' fut' : list T) :
  (forall d, In d dfut -> 1 <= d <= 366) ->
  length obs = length dobs -> length obs' = length dobs' -> length hist = length dhist -> length hist' = length dhist' ->
  length fut = length dfut -> length fut' = length dfut' ->
  Permutation (combine dobs obs) (combine dobs' obs') -> Permutation (combine dhist hist) (combine dhist' hist') ->
  Permutation (combine dfut fut) (combine dfut' fut') ->
  exists out out', driver_rw V L S dobs dhist dfut obs hist fut Wg = Some out /\
                   driver_rw V L S dobs' dhist' dfut' obs' hist' fut' Wg = Some out' /\
    forall k k', 0 <= k < Z.of_nat (length dfut) -> 0 <= k' < Z.of_nat (length dfut') ->
      nth (Z.to_nat k) dfut 0 = nth (Z.to_nat k') dfut' 0 ->
      nth_error fut (Z.to_nat k) = nth_error fut' (Z.to_nat k') ->
      nth (Z.to_nat k) out None = nth (Z.to_nat k') out' None.
Proof.
  intros Hdf Lo Lo' Lh Lh' Lf Lf' Po Ph Pf.
  assert (Pd : Permutation dfut dfut') by (apply (days_perm T dfut dfut' fut fut' Lf Lf' Pf)).
  assert (Hdf' : forall d, In d dfut' -> 1 <= d <= 366) by (intros d Hd; apply Hdf; apply (Permutation_in _ (Permutation_sym Pd)); exact Hd).
  destruct (pointwise_output dobs dhist dfut obs hist fut Hdf Lf) as (out & E & _ & H).
  destruct (pointwise_output dobs' dhist' dfut' obs' hist' fut' Hdf' Lf') as (out' & E' & _ & H').
  exists out, out'. split; [exact E|]. split; [exact E'|]. intros k k' Hk Hk' Ed Ex.
  destruct (H k Hk) as (x & X & O). destruct (H' k' Hk') as (x' & X' & O').
  rewrite O, O'. rewrite X, X' in Ex. injection Ex as <-. rewrite Ed. f_equal.
  apply F_order_free; assumption.
Qed.
End Pointwise.
