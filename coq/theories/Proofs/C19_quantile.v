(** C19: a threshold defined as the q-quantile of a dataset (ThresholdMetric.from_quantile: np.quantile, linear
    method) is exceeded with the corresponding empirical frequency: the number of values strictly above the
    q-quantile of an n-sample is at most n - 1 - floor((n-1) q) (and, symmetrically, the number strictly below it is
    at most floor((n-1) q) + ... ), i.e. the exceedance frequency differs from 1 - q by less than 1/n from above. *)
From Coq Require Import QArith Qround ZArith List Bool Lia Lqa Permutation.
From IV Require Import QL Ecdf QFacts QListFacts C16_step C16_lerp C16_sortlike LinInverse.
Import ListNotations.
Open Scope Q_scope.

Definition count_gt (v : Q) (l : list Q) : nat := cnt (fun y => Qlt_bool v y) l.
Definition count_lt (v : Q) (l : list Q) : nat := cnt (fun y => Qlt_bool y v) l.

Lemma cnt_perm P l l' : Permutation l l' -> cnt P l = cnt P l'.
Proof.
  induction 1 as [|x l l' H IH|x y l|l l' l'' H1 IH1 H2 IH2]; [reflexivity| | |congruence].
  - rewrite !cnt_cons, IH. reflexivity.
  - rewrite !cnt_cons. lia.
Qed.

Lemma cnt_zero P l : (forall y, In y l -> P y = false) -> cnt P l = 0%nat.
Proof. intro H. induction l as [|a l IH]; [reflexivity|]. rewrite cnt_cons, (H a (or_introl eq_refl)), IH; [reflexivity|]. intros y Hy. apply H. right. exact Hy. Qed.

Lemma cnt_le_length P l : (cnt P l <= length l)%nat.
Proof. apply filter_length_le. Qed.

Lemma nth_firstn_lt' (l : list Q) : forall n j, (j < n)%nat -> nth j (firstn n l) 0 = nth j l 0.
Proof. induction l as [|a l IH]; intros [|n] [|j] H; cbn; try lia; try reflexivity. apply IH. lia. Qed.
Lemma nth_skipn' (l : list Q) : forall n j, nth j (skipn n l) 0 = nth (n + j) l 0.
Proof. induction l as [|a l IH]; intros [|n] j; cbn; try reflexivity; [destruct j; reflexivity|apply IH]. Qed.

(** in a sorted list, everything up to index k is <= s_k *)
Lemma count_gt_sorted s k v : sortedQ s -> (k < length s)%nat -> nth k s 0 <= v -> (count_gt v s <= length s - S k)%nat.
Proof.
  intros Hs Hk Hv. rewrite <- (firstn_skipn (S k) s) at 1. unfold count_gt. rewrite cnt_app.
  rewrite cnt_zero.
  - pose proof (cnt_le_length (fun y => Qlt_bool v y) (skipn (S k) s)). rewrite skipn_length in H. lia.
  - intros y Hy. apply Qlt_bool_false. destruct (In_nth _ _ 0 Hy) as (j & Hj & <-). rewrite firstn_length in Hj.
    rewrite nth_firstn_lt' by lia. apply Qle_trans with (nth k s 0); [|exact Hv]. apply sorted_nth_le; [exact Hs|lia].
Qed.

Lemma count_lt_sorted s k v : sortedQ s -> (k < length s)%nat -> v <= nth k s 0 -> (count_lt v s <= k)%nat.
Proof.
  intros Hs Hk Hv. rewrite <- (firstn_skipn k s) at 1. unfold count_lt. rewrite cnt_app.
  rewrite (cnt_zero _ (skipn k s)).
  - pose proof (cnt_le_length (fun y => Qlt_bool y v) (firstn k s)). rewrite firstn_length in H. lia.
  - intros y Hy. apply Qlt_bool_false. destruct (In_nth _ _ 0 Hy) as (j & Hj & <-). rewrite skipn_length in Hj.
    rewrite nth_skipn'. apply Qle_trans with (nth k s 0); [exact Hv|]. apply sorted_nth_le; [exact Hs|lia].
Qed.

Section Quantile.
Variable x : list Q.
Hypothesis Hne : x <> [].
Variable q : Q.
Hypothesis Hq : 0 <= q <= 1.

Let s := qsort x.
Let n := zlen x.
Let k := Qfloor (inject_Z (n - 1) * q).      (* floor((n-1) q) *)
Definition qv : Q := iecdf linear x q.

Lemma zlen_s : zlen s = n.
Proof. unfold s, n, zlen. rewrite qsort_length. reflexivity. Qed.
Lemma n_pos : (0 < n)%Z.
Proof. unfold n. apply zlen_pos. exact Hne. Qed.

Lemma k_range : (0 <= k <= n - 1)%Z.
Proof. unfold k, n. apply iecdf_inv_index; assumption. Qed.

Lemma vindex_lin : vindex (fst (alpha_beta linear)) (snd (alpha_beta linear)) (zlen s) q == inject_Z (n - 1) * q.
Proof. rewrite zlen_s. unfold vindex. cbn [alpha_beta fst snd]. unfold Z.sub. rewrite inject_Z_plus, inject_Z_opp. change (inject_Z 1) with 1. ring. Qed.

(** the quantile lies between the order statistics s_k and s_{min(k+1, n-1)} *)
Lemma qv_bracket : nthq s k <= qv /\ qv <= nthq s (Z.min (k + 1) (n - 1)).
Proof.
  unfold qv, iecdf. fold s. cbn [iecdf_sorted]. cbv zeta.
  pose proof n_pos as Np. pose proof k_range as Kr.
  assert (Ss : sortedQ s) by apply qsort_sorted.
  assert (Ns : s <> []) by (unfold s; intro E; pose proof (qsort_length x) as L; rewrite E in L; destruct x; [congruence|discriminate]).
  set (v := vindex _ _ (zlen s) q). assert (Ev : v == inject_Z (n - 1) * q) by apply vindex_lin.
  assert (Fk : Qfloor v = k) by (unfold k; apply Qfloor_comp; exact Ev).
  assert (V0 : 0 <= v) by (rewrite Ev; apply Qmult_le_0_compat; [change 0 with (inject_Z 0); apply inject_Z_le; lia|lra]).
  destruct (Qlt_le_dec v (inject_Z (zlen s - 1))) as [Lt|Ge].
  - destruct (lerp_at_bracket s v Ss Lt V0) as (Kb & B1 & B2). rewrite Fk in *. rewrite zlen_s in Kb.
    rewrite Z.min_l by lia. split; assumption.
  - rewrite lerp_at_high by exact Ge. rewrite zlen_s.
    assert (Kn : k = (n - 1)%Z).
    { rewrite <- Fk. apply Z.le_antisymm.
      - rewrite Fk. lia.
      - rewrite <- (Qfloor_Z (n - 1)). apply Qfloor_resp_le. rewrite zlen_s in Ge. exact Ge. }
    rewrite Kn. rewrite Z.min_r by lia. split; apply Qle_refl.
Qed.

(** at most n - 1 - floor((n-1) q) values lie strictly above the q-quantile ... *)
Theorem quantile_exceedance_count : (Z.of_nat (count_gt qv x) <= n - 1 - k)%Z.
Proof.
  pose proof n_pos as Np. pose proof k_range as Kr. destruct qv_bracket as [B1 _].
  unfold count_gt. rewrite (cnt_perm _ _ _ (qsort_perm x)). fold s. fold (count_gt qv s).
  assert (Ls : length s = Z.to_nat n) by (unfold s, n, zlen; rewrite qsort_length; lia).
  pose proof (count_gt_sorted s (Z.to_nat k) qv (qsort_sorted x) ltac:(lia) B1) as C. lia.
Qed.

(** ... and at most floor((n-1) q) + 1 values lie strictly below it (floor((n-1) q) when the next order statistic exists) *)
Theorem quantile_below_count : (Z.of_nat (count_lt qv x) <= Z.min (k + 1) (n - 1))%Z.
Proof.
  pose proof n_pos as Np. pose proof k_range as Kr. destruct qv_bracket as [_ B2].
  unfold count_lt. rewrite (cnt_perm _ _ _ (qsort_perm x)). fold s. fold (count_lt qv s).
  assert (Ls : length s = Z.to_nat n) by (unfold s, n, zlen; rewrite qsort_length; lia).
  pose proof (count_lt_sorted s (Z.to_nat (Z.min (k + 1) (n - 1))) qv (qsort_sorted x) ltac:(lia) B2) as C. lia.
Qed.

(** as frequencies: exceedance frequency <= 1 - q + (1 - q)/n ... stated without division: n_exceeding <= (n-1)(1-q) + 1 - frac, simply *)
Theorem quantile_exceedance_frequency : inject_Z (Z.of_nat (count_gt qv x)) <= inject_Z (n - 1) * (1 - q) + 1.
Proof.
  pose proof quantile_exceedance_count as C. pose proof (Qlt_floor (inject_Z (n - 1) * q)) as F. fold k in F.
  rewrite inject_Z_plus in F. change (inject_Z 1) with 1 in F.
  assert (C' : inject_Z (Z.of_nat (count_gt qv x)) <= inject_Z (n - 1 - k)) by (apply inject_Z_le; exact C).
  unfold Z.sub in C' at 1. rewrite inject_Z_plus, inject_Z_opp in C'. lra.
Qed.
End Quantile.
