(** C16 part 1: step ECDF and ibicus' IECDF (the default method pair). *)
From Coq Require Import QArith Qabs Qround ZArith List Bool Lia Lqa Sorted Permutation.
From IV Require Import QL Ecdf QFacts.
Import ListNotations.
Open Scope Q_scope.

Lemma inject_Z_le a b : (a <= b)%Z -> inject_Z a <= inject_Z b.
Proof. intro H. rewrite <- Zle_Qle. exact H. Qed.
Lemma inject_Z_lt a b : (a < b)%Z -> inject_Z a < inject_Z b.
Proof. intro H. rewrite <- Zlt_Qlt. exact H. Qed.
Lemma inject_Z_pos a : (0 < a)%Z -> 0 < inject_Z a.
Proof. intro H. change 0 with (inject_Z 0). apply inject_Z_lt. exact H. Qed.

Lemma Qdiv_le_compat a b n : 0 < n -> a <= b -> a / n <= b / n.
Proof.
  intros Hn Hab. unfold Qdiv. apply Qmult_le_compat_r; [exact Hab|].
  apply Qlt_le_weak. apply Qinv_lt_0_compat. exact Hn.
Qed.

Lemma zlen_pos {A} (l : list A) : l <> [] -> (0 < zlen l)%Z.
Proof. destruct l; [congruence|]. intros _. unfold zlen. cbn [length]. lia. Qed.

(* ---------- step ECDF ---------- *)
Lemma ecdf_step_range x y : x <> [] -> 0 <= ecdf_step x y <= 1.
Proof.
  intro Hne. unfold ecdf_step. rewrite Qred_correct.
  pose proof (zlen_pos x Hne) as Hn. pose proof (inject_Z_pos _ Hn) as HnQ.
  assert (Hc : (0 <= zlen (filter (fun v => Qle_bool v y) x) <= zlen x)%Z).
  { unfold zlen. pose proof (filter_length_le (fun v => Qle_bool v y) x). lia. }
  split.
  - apply Qle_shift_div_l; [exact HnQ|]. rewrite Qmult_0_l. change 0 with (inject_Z 0). apply inject_Z_le. lia.
  - apply Qle_shift_div_r; [exact HnQ|]. rewrite Qmult_1_l. apply inject_Z_le. lia.
Qed.

Lemma ecdf_step_mono x y1 y2 : x <> [] -> y1 <= y2 -> ecdf_step x y1 <= ecdf_step x y2.
Proof.
  intros Hne Hy. unfold ecdf_step. rewrite !Qred_correct.
  apply Qdiv_le_compat; [apply inject_Z_pos; apply zlen_pos; exact Hne|].
  apply inject_Z_le. unfold zlen.
  pose proof (filter_length_mono (fun v => Qle_bool v y1) (fun v => Qle_bool v y2) x) as H.
  assert (Hm : (length (filter (fun v => Qle_bool v y1) x) <= length (filter (fun v => Qle_bool v y2) x))%nat).
  { apply H. intros v _ Hv. qb. apply Qle_bool_true. lra. }
  lia.
Qed.

Lemma ecdf_step_at_or_above_max x y : x <> [] -> QL.qmax x <= y -> ecdf_step x y == 1.
Proof.
  intros Hne Hy. unfold ecdf_step. rewrite Qred_correct.
  rewrite filter_all.
  - field. intro E. pose proof (inject_Z_pos _ (zlen_pos x Hne)). lra.
  - intros v Hv. apply Qle_bool_true. pose proof (qmax_ge x v Hv). lra.
Qed.

Lemma ecdf_step_at_max x : x <> [] -> ecdf_step x (QL.qmax x) == 1.
Proof. intro H. apply ecdf_step_at_or_above_max; [exact H|lra]. Qed.

Lemma ecdf_step_below_min x y : x <> [] -> y < QL.qmin x -> ecdf_step x y == 0.
Proof.
  intros Hne Hy. unfold ecdf_step. rewrite Qred_correct.
  assert (E : filter (fun v => Qle_bool v y) x = []).
  { induction x as [|a x IH]; [reflexivity|]. cbn [filter].
    destruct (Qle_bool a y) eqn:Ea.
    - qb. pose proof (qmin_le (a :: x) a (or_introl eq_refl)). lra.
    - destruct x as [|b x']; [reflexivity|]. apply IH; [discriminate|].
      assert (QL.qmin (a :: b :: x') <= QL.qmin (b :: x')).
      { apply qmin_le. right. apply qmin_in. discriminate. }
      lra. }
  rewrite E. change (zlen (@nil Q)) with 0%Z. unfold Qdiv. rewrite Qmult_0_l. reflexivity.
Qed.

(* ---------- floor facts ---------- *)
Lemma Qfloor_nonneg v : 0 <= v -> (0 <= Qfloor v)%Z.
Proof. intro H. change 0%Z with (Qfloor 0). apply Qfloor_resp_le. exact H. Qed.

Lemma Qfloor_le_Z v n : v <= inject_Z n -> (Qfloor v <= n)%Z.
Proof. intro H. rewrite <- (Qfloor_Z n). apply Qfloor_resp_le. exact H. Qed.

Lemma Qfloor_lt_Z v n : v < inject_Z n -> (Qfloor v < n)%Z.
Proof.
  intro H. pose proof (Qfloor_le v) as Hf. rewrite Zlt_Qlt. lra.
Qed.

(* ---------- ibicus IECDF ---------- *)
Lemma iecdf_inv_index (s : list Q) p : s <> [] -> 0 <= p <= 1 ->
  (0 <= Qfloor (inject_Z (zlen s - 1) * p) <= zlen s - 1)%Z.
Proof.
  intros Hne Hp. pose proof (zlen_pos s Hne) as Hn.
  assert (Hn1 : 0 <= inject_Z (zlen s - 1)) by (change 0 with (inject_Z 0); apply inject_Z_le; lia).
  split.
  - apply Qfloor_nonneg. apply Qmult_le_0_compat; lra.
  - apply Qfloor_le_Z. nra.
Qed.

Lemma iecdf_inv_range s p : sortedQ s -> s <> [] -> 0 <= p <= 1 ->
  nthq s 0 <= iecdf_inv s p <= nthq s (zlen s - 1).
Proof.
  intros Hs Hne Hp. pose proof (iecdf_inv_index s p Hne Hp) as Hk. unfold iecdf_inv.
  split; apply nthq_mono; try exact Hs; lia.
Qed.

Lemma iecdf_inv_mono s p1 p2 : sortedQ s -> s <> [] -> 0 <= p1 -> p1 <= p2 -> p2 <= 1 ->
  iecdf_inv s p1 <= iecdf_inv s p2.
Proof.
  intros Hs Hne H0 H12 H1. unfold iecdf_inv.
  pose proof (iecdf_inv_index s p1 Hne ltac:(lra)) as K1.
  pose proof (iecdf_inv_index s p2 Hne ltac:(lra)) as K2.
  pose proof (zlen_pos s Hne) as Hn.
  assert (Hn1 : 0 <= inject_Z (zlen s - 1)) by (change 0 with (inject_Z 0); apply inject_Z_le; lia).
  apply nthq_mono; [exact Hs| |lia]. split; [lia|].
  apply Qfloor_resp_le. nra.
Qed.

Lemma iecdf_inv_0 s : iecdf_inv s 0 = nthq s 0.
Proof.
  unfold iecdf_inv. f_equal. rewrite (Qfloor_comp _ 0); [reflexivity|]. ring.
Qed.

Lemma iecdf_inv_1 s : iecdf_inv s 1 = nthq s (zlen s - 1).
Proof.
  unfold iecdf_inv. f_equal. rewrite (Qfloor_comp _ (inject_Z (zlen s - 1))); [apply Qfloor_Z|]. ring.
Qed.

(** floor((n-1) k / n) = k - 1 for 1 <= k <= n: the arithmetic behind equal-size rank transfer *)
Lemma rank_floor n k : (1 <= k <= n)%Z ->
  Qfloor (inject_Z (n - 1) * (inject_Z k / inject_Z n)) = (k - 1)%Z.
Proof.
  intro H.
  assert (Hn : 0 < inject_Z n) by (apply inject_Z_pos; lia).
  assert (E : inject_Z (n - 1) * (inject_Z k / inject_Z n) == inject_Z (k - 1) + inject_Z (n - k) / inject_Z n).
  { unfold Zminus. rewrite !inject_Z_plus, !inject_Z_opp. field. lra. }
  rewrite (Qfloor_comp _ _ E).
  assert (F0 : 0 <= inject_Z (n - k) / inject_Z n).
  { apply Qle_shift_div_l; [exact Hn|]. rewrite Qmult_0_l. change 0 with (inject_Z 0). apply inject_Z_le. lia. }
  assert (F1 : inject_Z (n - k) / inject_Z n < 1).
  { apply Qlt_shift_div_r; [exact Hn|]. rewrite Qmult_1_l. apply inject_Z_lt. lia. }
  apply Z.le_antisymm.
  - apply Z.lt_succ_r. apply Qfloor_lt_Z. unfold Z.succ. rewrite inject_Z_plus. change (inject_Z 1) with 1. lra.
  - rewrite <- (Qfloor_Z (k - 1)) at 1. apply Qfloor_resp_le. lra.
Qed.

(** mapping the k-th smallest of n source values (step ECDF value k/n) onto an equally sized
    sorted target returns the target's k-th smallest value *)
Lemma equal_size_rank_transfer s k : (1 <= k <= zlen s)%Z ->
  iecdf_inv s (inject_Z k / inject_Z (zlen s)) = nthq s (k - 1).
Proof. intro H. unfold iecdf_inv. rewrite rank_floor by exact H. reflexivity. Qed.
