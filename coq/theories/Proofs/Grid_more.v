(** C05 / C13: further statements about the grid model (round 2): the failsafe flag does not
    matter when nothing fails; without failsafe the application raises EXACTLY when some cell
    fails; a single-cell change of the inputs changes a single cell of the output. *)
From Coq Require Import List Bool Arith Lia Permutation.
From IV Require Import Grid Grid_proofs Grid_corollaries.
Import ListNotations.

Section GM.
Variable V : Type.
Variable nan : V.

(** finite search over the grid for a failing cell (f returns an option: decidable) *)
Lemma fails_search (f : locfun V) obs hist fut X Y :
  (forall i j, i < X -> j < Y -> ~ fails_at V f obs hist fut i j) \/
  (exists i j, i < X /\ j < Y /\ fails_at V f obs hist fut i j).
Proof.
  assert (G : forall l : list (nat * nat),
             (forall ij, In ij l -> ~ fails_at V f obs hist fut (fst ij) (snd ij)) \/
             (exists ij, In ij l /\ fails_at V f obs hist fut (fst ij) (snd ij))).
  { induction l as [|a l IH]; [left; intros ij []|].
    destruct (f (cell V obs (fst a) (snd a)) (cell V hist (fst a) (snd a)) (cell V fut (fst a) (snd a))) as [c|] eqn:Ef.
    - destruct IH as [IH|(ij & Hin & Hb)].
      + left. intros ij [<-|H]; [unfold fails_at; rewrite Ef; discriminate|apply IH; exact H].
      + right. exists ij. split; [right; exact Hin|exact Hb].
    - right. exists a. split; [left; reflexivity|unfold fails_at; exact Ef]. }
  destruct (G (indices X Y)) as [Hn|(ij & Hin & Hb)].
  - left. intros i j Hi Hj. apply (Hn (i, j)). apply in_indices. split; assumption.
  - right. destruct ij as [i j]. apply in_indices in Hin. exists i, j. cbn [fst snd] in Hb. tauto.
Qed.

(** when no cell fails, failsafe on and off produce the same array (cell by cell, same shape) *)
Theorem failsafe_flag_irrelevant f T X Y obs hist fut :
  returns_length V f T -> (forall i j, i < X -> j < Y -> ~ fails_at V f obs hist fut i j) ->
  exists b b', apply_serial V nan true f T X Y obs hist fut = Some b /\
               apply_serial V nan false f T X Y obs hist fut = Some b' /\
               dims V b X Y /\ dims V b' X Y /\
               forall i j, i < X -> j < Y -> ocell V b i j = ocell V b' i j.
Proof.
  intros HL Hok.
  destruct (cell_independence V nan f T X Y obs hist fut HL Hok true) as (b & E & Hd & Hc).
  destruct (cell_independence V nan f T X Y obs hist fut HL Hok false) as (b' & E' & Hd' & Hc').
  exists b, b'. repeat split; try assumption; try apply Hd; try apply Hd'.
  intros i j Hi Hj.
  destruct (Hc i j Hi Hj) as (c & Ef & Ec & _). destruct (Hc' i j Hi Hj) as (c' & Ef' & Ec' & _).
  rewrite Ec, Ec'. rewrite Ef in Ef'. exact Ef'.
Qed.

(** failsafe off: the application raises EXACTLY when some cell of the grid fails *)
Theorem nofailsafe_none_iff f T X Y obs hist fut : returns_length V f T ->
  (apply_serial V nan false f T X Y obs hist fut = None <->
   exists i j, i < X /\ j < Y /\ fails_at V f obs hist fut i j).
Proof.
  intro HL. split.
  - intro E. destruct (fails_search f obs hist fut X Y) as [Hok|Hb]; [|exact Hb].
    destruct (cell_independence V nan f T X Y obs hist fut HL Hok false) as (b & E' & _).
    rewrite E in E'. discriminate.
  - intros (i & j & Hi & Hj & Hf). apply (nofailsafe_raises V nan f T X Y obs hist fut i j Hi Hj Hf).
Qed.

(** ... and the same for every completion order of the pool *)
Theorem nofailsafe_parallel_none_iff f T X Y obs hist fut sched : returns_length V f T ->
  Permutation sched (seq 0 (X * Y)) ->
  (apply_parallel V nan false f T X Y obs hist fut sched = None <->
   exists i j, i < X /\ j < Y /\ fails_at V f obs hist fut i j).
Proof.
  intros HL P. rewrite (parallel_eq_serial V nan false f T X Y obs hist fut sched P).
  apply nofailsafe_none_iff. exact HL.
Qed.

(** inputs that differ in ONE cell give outputs that differ at most in that cell, with or
    without failsafe *)
Theorem single_cell_change f T X Y obs hist fut obs' hist' fut' i0 j0 b b' failsafe :
  (forall i j, i < X -> j < Y -> (i, j) <> (i0, j0) ->
     cell V obs i j = cell V obs' i j /\ cell V hist i j = cell V hist' i j /\ cell V fut i j = cell V fut' i j) ->
  apply_serial V nan failsafe f T X Y obs hist fut = Some b ->
  apply_serial V nan failsafe f T X Y obs' hist' fut' = Some b' ->
  forall i j, i < X -> j < Y -> (i, j) <> (i0, j0) -> ocell V b i j = ocell V b' i j.
Proof.
  intros Hsame E E' i j Hi Hj Hne.
  destruct (Hsame i j Hi Hj Hne) as (Co & Ch & Cf).
  exact (no_cross_influence V nan f T X Y obs hist fut obs' hist' fut' i j b b' failsafe E E' Hi Hj Co Ch Cf).
Qed.

(** failsafe on: a cell that fails in one run does not disturb any other cell: the other cells
    equal those of a run on inputs where the failing cell was replaced by anything at all *)
Theorem failsafe_failing_cell_is_isolated f T X Y obs hist fut obs' hist' fut' i0 j0 :
  returns_length V f T ->
  (forall i j, i < X -> j < Y -> (i, j) <> (i0, j0) ->
     cell V obs i j = cell V obs' i j /\ cell V hist i j = cell V hist' i j /\ cell V fut i j = cell V fut' i j) ->
  exists b b', apply_serial V nan true f T X Y obs hist fut = Some b /\
               apply_serial V nan true f T X Y obs' hist' fut' = Some b' /\
               forall i j, i < X -> j < Y -> (i, j) <> (i0, j0) -> ocell V b i j = ocell V b' i j.
Proof.
  intros HL Hsame.
  destruct (failsafe_isolation V nan f T X Y obs hist fut HL) as (b & E & _ & _).
  destruct (failsafe_isolation V nan f T X Y obs' hist' fut' HL) as (b' & E' & _ & _).
  exists b, b'. split; [exact E|]. split; [exact E'|].
  exact (single_cell_change f T X Y obs hist fut obs' hist' fut' i0 j0 b b' true Hsame E E').
Qed.
End GM.
