(** C04 / C02 through apply_location for the PARAMETRIC methods (parametric QuantileMapping, ECDFM), for any
    distribution whose fit, cdf and ppf behave like a location-scale family under a change of units -- stated
    relationally (the sample may be equal to the converted one only up to ==); satisfiable by the rational family. *)
From Coq Require Import QArith Qabs ZArith List Bool String Lia Lqa.
From IV Require Import QL NP Dist Ecdf QFacts QListFacts Affine Affine_debiasers GenWindows GenUtils GenScalars Grid Driver Driver_rel C06_instances C02_proofs ApplyLocation_units RatLS RatLS_proofs.
Import ListNotations.
Open Scope Q_scope.

Section Param.
Context {P : Type} (D : dist P).
Variables a b : Q.
Hypothesis Ha : 0 < a.

(** the fitted distribution of a sample expressed in the other unit is the original one expressed in that unit *)
Variable good : list Q -> Prop.     (* samples the distribution can be fitted to (e.g. non-empty with non-zero spread) *)
Definition fit_unit_change : Prop :=
  forall l l', good l -> ARL a b l l' ->
    (forall x x', AR a b x x' -> cdf D (fit D l') x' == cdf D (fit D l) x) /\
    (forall p p', p == p' -> ppf D (fit D l') p' == a * ppf D (fit D l) p + b).
Hypothesis Hfit : fit_unit_change.

Lemma thr_proper t v v' : v == v' -> GenUtils.threshold_cdf_vals v t == GenUtils.threshold_cdf_vals v' t.
Proof. apply (clamp_proper t). Qed.

Definition W_qm_param thr := fun o h f => unwrap (qm_apply_on_window "no_detrending" "parametric" D thr o h f).

Lemma W_qm_param_rel thr o o' h h' f f' : good o -> good h -> good f -> ARL a b o o' -> ARL a b h h' -> ARL a b f f' ->
  ARL a b (W_qm_param thr o h f) (W_qm_param thr o' h' f').
Proof.
  intros No Nh Nf Ho Hh Hf. unfold W_qm_param, qm_apply_on_window, qm_standard_qm. cbn [String.eqb Ascii.eqb Bool.eqb unwrap]. rewrite !map_map.
  destruct (Hfit o o' No Ho) as [_ Po]. destruct (Hfit h h' Nh Hh) as [Ch _].
  apply (ARL_map a b); [exact Hf|]. intros x x' _ Hx. unfold AR. apply Po. apply thr_proper. symmetry. apply Ch. exact Hx.
Qed.

Definition W_ecdfm thr := fun o h f => ecdfm_apply_on_window D thr o h f.

Lemma W_ecdfm_rel thr o o' h h' f f' : good o -> good h -> good f -> ARL a b o o' -> ARL a b h h' -> ARL a b f f' ->
  ARL a b (W_ecdfm thr o h f) (W_ecdfm thr o' h' f').
Proof.
  intros No Nh Nf Ho Hh Hf. unfold W_ecdfm, ecdfm_apply_on_window. cbv zeta. rewrite !map_map, !zip2_maps.
  destruct (Hfit o o' No Ho) as [_ Po]. destruct (Hfit h h' Nh Hh) as [_ Ph]. destruct (Hfit f f' Nf Hf) as [Cf _].
  apply (ARL_map a b); [exact Hf|]. intros x x' _ Hx.
  assert (Q : GenUtils.threshold_cdf_vals (cdf D (fit D f) x) thr == GenUtils.threshold_cdf_vals (cdf D (fit D f') x') thr) by (apply thr_proper; symmetry; apply Cf; exact Hx).
  unfold AR in *. rewrite (Po _ _ Q), (Ph _ _ Q), Hx. ring.
Qed.

(** QuantileDeltaMapping (absolute, year window off): fits from the window's obs / cm_hist *)
Variables (em : ecdf_method) (tq cth : Q).
Hypothesis Hem : em = step_function \/ em = linear_interpolation.
Definition W_qdm_fit := fun o h f => unwrap (qdm_apply_debiasing_steps em tq "absolute" D false cth f (fit D o) (fit D h)).

Lemma W_qdm_rel o o' h h' f f' : good o -> good h -> good f -> ARL a b o o' -> ARL a b h h' -> ARL a b f f' ->
  ARL a b (W_qdm_fit o h f) (W_qdm_fit o' h' f').
Proof.
  intros No Nh Nf Ho Hh Hf. unfold W_qdm_fit.
  destruct (Hfit o o' No Ho) as [_ Po]. destruct (Hfit h h' Nh Hh) as [_ Ph].
  destruct (qdm_abs_unit_change D em tq cth Hem a b Ha f f' (fit D o) (fit D h) (fit D o') (fit D h') Hf
              (fun p => Po p p (Qeq_refl p)) (fun p => Ph p p (Qeq_refl p))) as (out & out' & E & E' & R).
  rewrite E, E'. exact R.
Qed.

Theorem qdm_apply_location_unit_change L S dobs dhist dfut obs hist fut obs' hist' fut' :
  windows_ok good good good L S dfut dobs dhist dfut obs hist fut -> ARL a b obs obs' -> ARL a b hist hist' -> ARL a b fut fut' ->
  same_in_other_unit a b (driver_rw Q L S dobs dhist dfut obs hist fut W_qdm_fit) (driver_rw Q L S dobs dhist dfut obs' hist' fut' W_qdm_fit).
Proof. intros Hw Ho Hh Hf. exact (driver_rw_rel_ok (AR a b) (AR a b) (AR a b) (AR a b) _ _ good good good W_qdm_rel L S dobs dhist dfut obs obs' hist hist' fut fut' Hw Ho Hh Hf). Qed.

(** lifted through the day-window loop *)
Theorem qm_param_apply_location_unit_change thr L S dobs dhist dfut obs hist fut obs' hist' fut' :
  windows_ok good good good L S dfut dobs dhist dfut obs hist fut -> ARL a b obs obs' -> ARL a b hist hist' -> ARL a b fut fut' ->
  same_in_other_unit a b (driver_rw Q L S dobs dhist dfut obs hist fut (W_qm_param thr)) (driver_rw Q L S dobs dhist dfut obs' hist' fut' (W_qm_param thr)).
Proof. intros Hw Ho Hh Hf. exact (driver_rw_rel_ok (AR a b) (AR a b) (AR a b) (AR a b) _ _ good good good (W_qm_param_rel thr) L S dobs dhist dfut obs obs' hist hist' fut fut' Hw Ho Hh Hf). Qed.

Theorem ecdfm_apply_location_unit_change thr L S dobs dhist dfut obs hist fut obs' hist' fut' :
  windows_ok good good good L S dfut dobs dhist dfut obs hist fut -> ARL a b obs obs' -> ARL a b hist hist' -> ARL a b fut fut' ->
  same_in_other_unit a b (driver_rw Q L S dobs dhist dfut obs hist fut (W_ecdfm thr)) (driver_rw Q L S dobs dhist dfut obs' hist' fut' (W_ecdfm thr)).
Proof. intros Hw Ho Hh Hf. exact (driver_rw_rel_ok (AR a b) (AR a b) (AR a b) (AR a b) _ _ good good good (W_ecdfm_rel thr) L S dobs dhist dfut obs obs' hist hist' fut fut' Hw Ho Hh Hf). Qed.
End Param.

(** the hypothesis is satisfiable: the rational location-scale family, on samples with non-zero spread *)
Definition ratls_good (l : list Q) : Prop := l <> [] /\ ~ mad l == 0.

Lemma mad_eql l l' : eql l l' -> mad l == mad l'.
Proof.
  intro E. rewrite !mad_spec. pose proof (qmean_eql _ _ E) as M.
  assert (E2 : eql (map (fun x => Qabs (x - QL.qmean l)) l) (map (fun x => Qabs (x - QL.qmean l')) l')).
  { apply eql_map_compat; [|exact E]. intros x y Hxy. rewrite Hxy, M. reflexivity. }
  rewrite (qsum_eql _ _ E2). unfold QL.qlen. rewrite (eql_length _ _ E). reflexivity.
Qed.

Theorem ratls_fit_unit_change a b : 0 < a -> fit_unit_change ratls a b ratls_good.
Proof.
  intros Ha l l' [Hne Hm] H. pose proof (ARL_eql a b l l' H) as E.
  assert (M1 : QL.qmean l' == a * QL.qmean l + b) by (rewrite (qmean_eql _ _ E); apply qmean_affine; exact Hne).
  assert (M2 : mad l' == a * mad l) by (rewrite (mad_eql _ _ E); apply (mad_affine a b l Ha Hne)).
  split.
  - intros x x' Hx. rewrite !ratls_cdf_form. cbn [fit ratls]. unfold ratls_fit. cbn [fst snd]. apply F0_proper.
    unfold AR in Hx. rewrite Hx, M1, M2. field. split; [exact Hm|lra].
  - intros p p' Hp. rewrite !ratls_ppf_form. cbn [fit ratls]. unfold ratls_fit. cbn [fst snd]. rewrite (Q0_proper _ _ Hp), M1, M2.
    rewrite (Q0_proper p' p) by (symmetry; exact Hp). ring.
Qed.


(** C02 through apply_location: a constant added to cm_future alone (ECDFM; parametric QM with additive detrending) *)
Section Trend.
Context {P : Type} (D : dist P).
Variable c : Q.
Variable good : list Q -> Prop.
Hypothesis Hfit_c : fit_unit_change D 1 c good.      (* the shifted sample *)
Hypothesis Hfit_0 : fit_unit_change D 1 0 good.      (* the unchanged samples: fitting respects == *)
Hypothesis good_ne : forall l, good l -> l <> [].

Lemma W_ecdfm_trend thr o o' h h' f f' : good o -> good h -> good f -> ARL 1 0 o o' -> ARL 1 0 h h' -> ARL 1 c f f' ->
  ARL 1 c (W_ecdfm D thr o h f) (W_ecdfm D thr o' h' f').
Proof.
  intros No Nh Nf Ho Hh Hf. unfold W_ecdfm, ecdfm_apply_on_window. cbv zeta. rewrite !map_map, !zip2_maps.
  destruct (Hfit_0 o o' No Ho) as [_ Po]. destruct (Hfit_0 h h' Nh Hh) as [_ Ph]. destruct (Hfit_c f f' Nf Hf) as [Cf _].
  apply (ARL_map 1 c); [exact Hf|]. intros x x' _ Hx.
  assert (Qq : GenUtils.threshold_cdf_vals (cdf D (fit D f) x) thr == GenUtils.threshold_cdf_vals (cdf D (fit D f') x') thr) by (apply thr_proper; symmetry; apply Cf; exact Hx).
  unfold AR in *. rewrite (Po _ _ Qq), (Ph _ _ Qq), Hx. ring.
Qed.

Theorem ecdfm_trend_preserved_through_windows thr L S dobs dhist dfut obs hist fut :
  windows_ok good good good L S dfut dobs dhist dfut obs hist fut ->
  same_in_other_unit 1 c (driver_rw Q L S dobs dhist dfut obs hist fut (W_ecdfm D thr)) (driver_rw Q L S dobs dhist dfut obs hist (map (fun x => x + c) fut) (W_ecdfm D thr)).
Proof.
  intro Hw.
  apply (driver_rw_rel_ok (AR 1 0) (AR 1 0) (AR 1 c) (AR 1 c) _ _ good good good (W_ecdfm_trend thr)); try assumption; try apply ARL_id.
  clear. induction fut; constructor; [unfold AR; ring|assumption].
Qed.

Definition W_qm_param_detrended thr := fun o h f => unwrap (qm_apply_on_window "additive" "parametric" D thr o h f).

Lemma W_qm_param_detrended_trend thr o o' h h' f f' : good o -> good h -> good f -> ARL 1 0 o o' -> ARL 1 0 h h' -> ARL 1 c f f' ->
  ARL 1 c (W_qm_param_detrended thr o h f) (W_qm_param_detrended thr o' h' f').
Proof.
  intros No Nh Nf Ho Hh Hf. unfold W_qm_param_detrended, qm_apply_on_window, qm_standard_qm. cbn [String.eqb Ascii.eqb Bool.eqb unwrap]. cbv zeta. rewrite !map_map.
  destruct (Hfit_0 o o' No Ho) as [_ Po]. destruct (Hfit_0 h h' Nh Hh) as [Ch _].
  pose proof (qmean_rel 1 c f f' Hf (good_ne f Nf)) as M1. pose proof (qmean_rel 1 0 h h' Hh (good_ne h Nh)) as M2.
  apply (ARL_map 1 c); [exact Hf|]. intros x x' _ Hx. unfold AR in *.
  assert (X : AR 1 0 (x - (QL.qmean f - QL.qmean h)) (x' - (QL.qmean f' - QL.qmean h'))) by (unfold AR; rewrite Hx, M1, M2; ring).
  assert (Qq : GenUtils.threshold_cdf_vals (cdf D (fit D h) (x - (QL.qmean f - QL.qmean h))) thr == GenUtils.threshold_cdf_vals (cdf D (fit D h') (x' - (QL.qmean f' - QL.qmean h'))) thr)
    by (apply thr_proper; symmetry; apply Ch; exact X).
  rewrite (Po _ _ Qq), M1, M2. ring.
Qed.

Theorem qm_param_detrended_trend_preserved_through_windows thr L S dobs dhist dfut obs hist fut :
  windows_ok good good good L S dfut dobs dhist dfut obs hist fut ->
  same_in_other_unit 1 c (driver_rw Q L S dobs dhist dfut obs hist fut (W_qm_param_detrended thr)) (driver_rw Q L S dobs dhist dfut obs hist (map (fun x => x + c) fut) (W_qm_param_detrended thr)).
Proof.
  intro Hw.
  apply (driver_rw_rel_ok (AR 1 0) (AR 1 0) (AR 1 c) (AR 1 c) _ _ good good good (W_qm_param_detrended_trend thr)); try assumption; try apply ARL_id.
  clear. induction fut; constructor; [unfold AR; ring|assumption].
Qed.
End Trend.
