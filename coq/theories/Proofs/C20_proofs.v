(** C20: the evaluation formulas (Model/Eval.v, tied to evaluate/*.py by correspondence K13). *)
From Coq Require Import QArith Qabs ZArith List Bool Lia Lqa.
From IV Require Import QL NP Ecdf QFacts C16_step QListFacts Metrics Eval C19_proofs.
Import ListNotations.
Open Scope Q_scope.

Lemma nth_map2 {A B C} (f : A -> B -> C) (a : list A) (b : list B) dA dB dC k :
  (k < length a)%nat -> (k < length b)%nat -> nth k (map2 f a b) dC = f (nth k a dA) (nth k b dB).
Proof.
  unfold map2. revert b k. induction a as [|x a IH]; intros [|y b] k Ha Hb; cbn in *; try lia.
  destruct k as [|k]; [reflexivity|]. apply IH; lia.
Qed.

Lemma map2_length {A B C} (f : A -> B -> C) a b : length a = length b -> length (map2 f a b) = length a.
Proof. intro H. unfold map2. rewrite map_length, combine_length. lia. Qed.

(* ---------- marginal bias: the documented formula at every location, any grid shape ---------- *)
Theorem mean_bias_formula percentage obs cm c : length obs = length cm -> (c < length obs)%nat ->
  nth c (mean_bias percentage obs cm) 0 =
  let o := QL.qmean (nth c obs []) in let m := QL.qmean (nth c cm []) in
  if percentage then 100 * (m - o) / o else m - o.
Proof.
  intros Hl Hc. unfold mean_bias, gmean.
  rewrite (nth_map2 _ _ _ (QL.qmean []) (QL.qmean []) 0) by (rewrite map_length; lia).
  rewrite !(map_nth QL.qmean). reflexivity.
Qed.

Theorem quantile_bias_formula percentage q obs cm c : length obs = length cm -> (c < length obs)%nat ->
  nth c (quantile_bias percentage q obs cm) 0 =
  let o := Ecdf.iecdf linear (nth c obs []) q in let m := Ecdf.iecdf linear (nth c cm []) q in
  if percentage then 100 * (m - o) / o else m - o.
Proof.
  intros Hl Hc. unfold quantile_bias, gquant.
  rewrite (nth_map2 _ _ _ (Ecdf.iecdf linear [] q) (Ecdf.iecdf linear [] q) 0) by (rewrite map_length; lia).
  rewrite !(map_nth (fun c0 => Ecdf.iecdf linear c0 q)). reflexivity.
Qed.

(** a dataset evaluated against itself has zero bias at every location *)
Theorem self_bias_zero percentage obs : Forall (fun b => b == 0) (mean_bias percentage obs obs).
Proof.
  unfold mean_bias, map2. apply Forall_forall. intros b Hb. apply in_map_iff in Hb. destruct Hb as ([o m] & <- & Hin). cbn [fst snd].
  assert (E : o = m).
  { clear - Hin. induction (gmean obs) as [|x l IH]; [destruct Hin|]. cbn in Hin. destruct Hin as [H|H]; [congruence|auto]. }
  subst m. destruct percentage; [unfold Qdiv|]; ring.
Qed.

Theorem self_quantile_bias_zero percentage q obs : Forall (fun b => b == 0) (quantile_bias percentage q obs obs).
Proof.
  unfold quantile_bias, map2. apply Forall_forall. intros b Hb. apply in_map_iff in Hb. destruct Hb as ([o m] & <- & Hin). cbn [fst snd].
  assert (E : o = m).
  { clear - Hin. induction (gquant q obs) as [|x l IH]; [destruct Hin|]. cbn in Hin. destruct Hin as [H|H]; [congruence|auto]. }
  subst m. destruct percentage; [unfold Qdiv|]; ring.
Qed.

(* ---------- days per year ---------- *)
Lemma split_at_concat {A} idx : forall prev (x : list A), concat (split_at prev idx x) = x.
Proof.
  induction idx as [|i idx IH]; intros prev x; cbn [split_at concat]; [apply app_nil_r|].
  rewrite IH. apply firstn_skipn.
Qed.
Lemma split_at_length {A} idx : forall prev (x : list A), length (split_at prev idx x) = S (length idx).
Proof. induction idx as [|i idx IH]; intros prev x; cbn [split_at length]; [reflexivity|]. rewrite IH. reflexivity. Qed.

Lemma cumsum_length l : forall acc, length (cumsum_nat acc l) = length l.
Proof. induction l as [|a l IH]; intro acc; cbn; [reflexivity|]. rewrite IH. reflexivity. Qed.

Lemma count_concat (ls : list (list bool)) : count (concat ls) = fold_right Nat.add 0%nat (map count ls).
Proof. induction ls as [|l ls IH]; [reflexivity|]. cbn [concat map fold_right]. rewrite count_app, IH. reflexivity. Qed.

(** for EVERY number of years >= 1 the data are split into exactly one chunk per year, and the yearly
    counts add up to the total number of exceedance days *)
Theorem yearly_chunks counts col : counts <> [] -> length (yearly_exceedances counts col) = length counts.
Proof.
  intro Hne. unfold yearly_exceedances, year_indices. rewrite map_length, split_at_length.
  assert (L : forall (A : Type) (l : list A), l <> [] -> S (length (removelast l)) = length l).
  { intros A l. induction l as [|a l IH]; intro H; [congruence|]. destruct l as [|b l]; [reflexivity|].
    change (removelast (a :: b :: l)) with (a :: removelast (b :: l)). cbn [length]. rewrite IH by discriminate. reflexivity. }
  rewrite L.
  - apply cumsum_length.
  - intro E. apply (f_equal (@length nat)) in E. rewrite cumsum_length in E. destruct counts; [congruence|discriminate].
Qed.

Theorem yearly_conserves counts col : fold_right Nat.add 0%nat (yearly_exceedances counts col) = count col.
Proof. unfold yearly_exceedances. rewrite <- count_concat, split_at_concat. reflexivity. Qed.

Theorem mean_yearly_is_total_over_years counts col : counts <> [] ->
  mean_yearly_exceedances counts col == inject_Z (Z.of_nat (count col)) / inject_Z (Z.of_nat (length counts)).
Proof.
  intro Hne. unfold mean_yearly_exceedances. cbv zeta. rewrite yearly_conserves, (yearly_chunks counts col Hne). reflexivity.
Qed.

(* ---------- trends ---------- *)
Lemma trend_bias_self t : Forall (fun b => b == 0) (trend_bias_of t t).
Proof.
  unfold trend_bias_of, map2. apply Forall_forall. intros b Hb. apply in_map_iff in Hb. destruct Hb as ([x y] & <- & Hin). cbn [fst snd].
  assert (E : x = y) by (clear - Hin; induction t as [|a l IH]; [destruct Hin|]; cbn in Hin; destruct Hin as [H|H]; [congruence|auto]).
  subst y. unfold Qdiv. ring.
Qed.

(** a dataset evaluated against itself has zero trend bias, additive and multiplicative *)
Theorem self_trend_bias_zero mult v f : Forall (fun b => b == 0) (mean_trend_bias mult v f v f).
Proof. unfold mean_trend_bias. apply trend_bias_self. Qed.

Theorem trend_bias_formula mult raw_v raw_f bc_v bc_f c :
  length raw_v = length raw_f -> length bc_v = length bc_f -> length raw_v = length bc_v -> (c < length raw_v)%nat ->
  nth c (mean_trend_bias mult raw_v raw_f bc_v bc_f) 0 =
  let tr := fun a b => if mult then b / a else b - a in
  let bc := tr (QL.qmean (nth c bc_v [])) (QL.qmean (nth c bc_f [])) in
  let raw := tr (QL.qmean (nth c raw_v [])) (QL.qmean (nth c raw_f [])) in
  100 * (bc - raw) / raw.
Proof.
  intros H1 H2 H3 Hc. unfold mean_trend_bias, trend_bias_of, trend, gmean.
  rewrite (nth_map2 _ _ _ 0 0 0) by (rewrite map2_length; rewrite !map_length; lia).
  rewrite !(nth_map2 _ _ _ (QL.qmean []) (QL.qmean []) 0) by (rewrite map_length; lia).
  rewrite !(map_nth QL.qmean). reflexivity.
Qed.

(** the raw model's trend is computed from the raw datasets (slots), the corrected one from the corrected *)
Theorem metrics_trend_bias_slots mult p_raw_v p_raw_f p_bc_v p_bc_f out :
  metrics_trend_bias mult p_raw_v p_raw_f p_bc_v p_bc_f = Some out ->
  out = trend_bias_of (trend mult p_bc_v p_bc_f) (trend mult p_raw_v p_raw_f).
Proof. unfold metrics_trend_bias. destruct (mult && _)%bool; [discriminate|]. intro H. injection H as <-. reflexivity. Qed.

(** multiplicative trends are refused exactly when a validation-period value is zero somewhere; the number
    of locations plays no other role *)
Theorem quantile_trend_defined mult q bc_v bc_f :
  quantile_trend mult q bc_v bc_f = None <-> (mult = true /\ all_nonzero (gquant q bc_v) = false).
Proof.
  unfold quantile_trend. destruct mult; cbn [andb].
  - destruct (all_nonzero (gquant q bc_v)); cbn [negb]; split; try discriminate; try tauto. intros [_ H]. discriminate.
  - split; [discriminate|]. intros [H _]. discriminate.
Qed.

(* ---------- conditional joint exceedance ---------- *)
Lemma map2_andb_self m : map2 andb m m = m.
Proof. unfold map2. induction m as [|b m IH]; [reflexivity|]. cbn [combine map fst snd]. rewrite IH. destruct b; reflexivity. Qed.

(** a metric conditioned on itself has probability 1 *)
Theorem chi_self_one m : (0 < count m)%nat -> exists v, chi m m = Some v /\ v == 1.
Proof.
  intro H. unfold chi. destruct (Nat.eqb (count m) 0) eqn:E; [apply Nat.eqb_eq in E; lia|].
  eexists. split; [reflexivity|]. rewrite map2_andb_self. field.
  intro Z. assert (0 < inject_Z (Z.of_nat (count m))) by (apply inject_Z_pos; lia). lra.
Qed.

Theorem chi_range m1 m2 v : length m1 = length m2 -> chi m1 m2 = Some v -> 0 <= v <= 1.
Proof.
  intros Hl. unfold chi. destruct (Nat.eqb (count m2) 0) eqn:E; [discriminate|]. intro H. injection H as <-.
  apply Nat.eqb_neq in E. assert (Np : 0 < inject_Z (Z.of_nat (count m2))) by (apply inject_Z_pos; lia).
  assert (Le : (count (map2 andb m1 m2) <= count m2)%nat).
  { clear E Np. unfold map2. revert m2 Hl. induction m1 as [|a m1 IH]; intros [|b m2] Hl; try discriminate; [cbn; lia|].
    cbn [combine map fst snd]. rewrite !count_cons. specialize (IH m2 ltac:(cbn in Hl; lia)). destruct a, b; cbn; lia. }
  split.
  - apply Qle_shift_div_l; [exact Np|]. rewrite Qmult_0_l. change 0 with (inject_Z 0). apply inject_Z_le. lia.
  - apply Qle_shift_div_r; [exact Np|]. rewrite Qmult_1_l. apply inject_Z_le. lia.
Qed.
