(** The central lemma about the window scatter loop (Model/Driver.v over the regenerated
    window functions): the loop never fails its length checks, writes every time step exactly
    once, and the value written at index k is the window result at k's position in the window
    of the unique centre that adjusts k.  C07 (defined everywhere), C08 (locality) and C06
    (equivariance) are corollaries. *)
From Coq Require Import ZArith List Bool Lia ZifyBool Sorted.
From IV Require Import NP NPFacts WindowArith GenWindows Grid Grid_proofs Driver C07_proofs.
Import ListNotations.
Open Scope Z_scope.
Ltac Zify.zify_post_hook ::= Z.to_euclidean_division_equations.

Section DP.
Variable V : Type.

Fixpoint lookupZ (k : Z) (l : list (Z * V)) : option V :=
  match l with [] => None | (i, v) :: r => if k =? i then Some v else lookupZ k r end.

Lemma lookupZ_none k l : ~ In k (map fst l) -> lookupZ k l = None.
Proof.
  induction l as [|[i v] l IH]; cbn [map fst In lookupZ]; intro H; [reflexivity|].
  destruct (k =? i) eqn:E; [exfalso; apply H; left; lia|]. apply IH. tauto.
Qed.

Lemma lookupZ_in k idx : forall vals : list V, In k idx -> length vals = length idx ->
  exists v, lookupZ k (combine idx vals) = Some v.
Proof.
  induction idx as [|i idx IH]; intros vals Hin Hl; [destruct Hin|].
  destruct vals as [|v vals]; [discriminate|]. cbn [combine lookupZ].
  destruct (k =? i) eqn:E; [eexists; reflexivity|].
  destruct Hin as [->|Hin]; [lia|]. apply IH; [exact Hin|cbn in Hl; lia].
Qed.

Lemma lookupZ_filter (P : Z -> bool) k l :
  lookupZ k (filter (fun p : Z * V => P (fst p)) l) = if P k then lookupZ k l else None.
Proof.
  induction l as [|[i v] l IH]; cbn [filter fst lookupZ]; [destruct (P k); reflexivity|].
  destruct (P i) eqn:Pi; cbn [lookupZ]; destruct (k =? i) eqn:E.
  - assert (k = i) by lia. subst. rewrite Pi. reflexivity.
  - exact IH.
  - assert (k = i) by lia. subst. rewrite Pi in *. rewrite IH. reflexivity.
  - exact IH.
Qed.

Lemma lookupZ_notin k idx : forall vals : list V, ~ In k idx -> lookupZ k (combine idx vals) = None.
Proof.
  induction idx as [|i idx IH]; intros vals H; [reflexivity|]. destruct vals as [|v vals]; [reflexivity|].
  cbn [combine lookupZ]. destruct (k =? i) eqn:E; [exfalso; apply H; left; lia|]. apply IH. intro X. apply H. right. exact X.
Qed.

(* ---------- put ---------- *)
Lemma put_all_length idx : forall (vals : list V) b, length (put_all V b idx vals) = length b.
Proof.
  induction idx as [|i idx IH]; intros vals b; [reflexivity|]. destruct vals as [|v vals]; [reflexivity|].
  cbn [put_all]. rewrite IH, upd_length. reflexivity.
Qed.

Lemma put_all_spec idx : forall (vals : list V) b k, length idx = length vals -> NoDup idx ->
  (forall i, In i idx -> 0 <= i < Z.of_nat (length b)) -> 0 <= k ->
  nth (Z.to_nat k) (put_all V b idx vals) None =
  match lookupZ k (combine idx vals) with Some v => Some v | None => nth (Z.to_nat k) b None end.
Proof.
  induction idx as [|i idx IH]; intros vals b k Hl Hnd Hr Hk; [reflexivity|].
  destruct vals as [|v vals]; [discriminate|]. cbn [put_all combine lookupZ].
  inversion Hnd as [|? ? Hni Hnd']; subst.
  rewrite IH; [|cbn in Hl; lia|exact Hnd'|intros j Hj; rewrite upd_length; apply Hr; right; exact Hj|exact Hk].
  destruct (k =? i) eqn:E.
  - assert (k = i) by lia. subst k.
    rewrite lookupZ_notin by exact Hni.
    apply upd_nth_same. specialize (Hr i (or_introl eq_refl)). lia.
  - destruct (lookupZ k (combine idx vals)); [reflexivity|].
    apply upd_nth_other. specialize (Hr i (or_introl eq_refl)). lia.
Qed.

Lemma put_spec b idx (vals : list V) : length idx = length vals -> NoDup idx ->
  (forall i, In i idx -> 0 <= i < Z.of_nat (length b)) ->
  put V b idx vals = Some (put_all V b idx vals).
Proof.
  intros Hl Hnd Hr. unfold put. rewrite Hl, Nat.eqb_refl. cbn [andb].
  assert (E : forallb (fun i => (0 <=? i) && (i <? Z.of_nat (length b))) idx = true).
  { apply forallb_forall. intros i Hi. specialize (Hr i Hi). lia. }
  rewrite E. reflexivity.
Qed.

(* ---------- select ---------- *)
Lemma select_combine {A B} (x : list A) : forall (y : list B) m, length y = length x ->
  combine (NP.select x m) (NP.select y m) = NP.select (combine x y) m.
Proof.
  induction x as [|a x IH]; intros y m Hl; destruct y as [|b y]; try discriminate; [destruct m; reflexivity|].
  destruct m as [|[] m]; cbn [NP.select combine]; [reflexivity| |]; rewrite IH by (cbn in Hl; lia); reflexivity.
Qed.

Lemma select_length_eq {A B} (x : list A) : forall (y : list B) m, length y = length x ->
  length (NP.select y m) = length (NP.select x m).
Proof.
  induction x as [|a x IH]; intros y m Hl; destruct y as [|b y]; try discriminate; [destruct m; reflexivity|].
  destruct m as [|[] m]; cbn [NP.select length]; [reflexivity| |]; rewrite (IH y m) by (cbn in Hl; lia); reflexivity.
Qed.

Lemma select_combine_isin iw : forall (vals : list V) ia, length vals = length iw ->
  NP.select (combine iw vals) (NP.isin iw ia) = filter (fun p => NP.zmem (fst p) ia) (combine iw vals).
Proof.
  unfold NP.isin. induction iw as [|a iw IH]; intros vals ia Hl; destruct vals as [|v vals]; try discriminate; [reflexivity|].
  cbn [map combine NP.select filter fst]. destruct (NP.zmem a ia); rewrite IH by (cbn in Hl; lia); reflexivity.
Qed.

Lemma mask_is_isin iw ia : StronglySorted Z.lt iw -> days_mask_adjust_in_window iw ia = NP.isin iw ia.
Proof.
  intro Hw. unfold days_mask_adjust_in_window, NP.mask_first_occurrence.
  rewrite (mask_first_aux_all_true iw []); [|apply sorted_lt_nodup; exact Hw|intros v _ []].
  replace (length iw) with (length (NP.isin iw ia)) by (unfold NP.isin; apply map_length).
  apply logical_and_true_r.
Qed.

(* ---------- one centre ---------- *)
Section OneCentre.
Variables (L S : Z) (dA : list Z) (Wc : Z -> list V).
Hypothesis HS : 0 < S.
Hypothesis HSL : S <= L.
Hypothesis Hdays : forall d, In d dA -> 1 <= d <= 366.
Notation iw := (days_indices_in_window L dA).
Notation ia := (days_indices_to_adjust S dA).
Notation n := (length dA).

Lemma iw_sorted c : StronglySorted Z.lt (iw c).
Proof. unfold days_indices_in_window. cbv zeta. apply where_idx_sorted. Qed.
Lemma ia_sorted c : StronglySorted Z.lt (ia c).
Proof. unfold days_indices_to_adjust. cbv zeta. apply where_idx_sorted. Qed.
Lemma ia_range c i : In i (ia c) -> 0 <= i < Z.of_nat n.
Proof. intro H. apply days_adjust_spec in H. tauto. Qed.

Definition selected (c : Z) : list V := NP.select (Wc c) (days_mask_adjust_in_window (iw c) (ia c)).

Lemma selected_pairs c : length (Wc c) = length (iw c) ->
  combine (ia c) (selected c) = filter (fun p => NP.zmem (fst p) (ia c)) (combine (iw c) (Wc c)).
Proof.
  intro Hl. unfold selected.
  rewrite <- (days_mask_selects L S dA c HS HSL Hdays) at 1.
  rewrite select_combine by exact Hl.
  rewrite mask_is_isin by apply iw_sorted. apply select_combine_isin. exact Hl.
Qed.

Lemma selected_length c : length (Wc c) = length (iw c) -> length (ia c) = length (selected c).
Proof.
  intro Hl. unfold selected. rewrite (select_length_eq (iw c) (Wc c) _ Hl).
  rewrite (days_mask_selects L S dA c HS HSL Hdays). reflexivity.
Qed.

(** scatter of one centre: every adjusted index receives the window result at its position *)
Lemma step_spec c b k : length (Wc c) = length (iw c) -> length b = n -> 0 <= k ->
  put V b (ia c) (selected c) = Some (put_all V b (ia c) (selected c)) /\
  length (put_all V b (ia c) (selected c)) = n /\
  nth (Z.to_nat k) (put_all V b (ia c) (selected c)) None =
    if NP.zmem k (ia c) then lookupZ k (combine (iw c) (Wc c)) else nth (Z.to_nat k) b None.
Proof.
  intros Hl Hb Hk.
  assert (Hr : forall i, In i (ia c) -> 0 <= i < Z.of_nat (length b)) by (intros i Hi; rewrite Hb; apply ia_range with c; exact Hi).
  split; [apply put_spec; [apply selected_length; exact Hl|apply sorted_lt_nodup; apply ia_sorted|exact Hr]|].
  split; [rewrite put_all_length; exact Hb|].
  rewrite put_all_spec; [|apply selected_length; exact Hl|apply sorted_lt_nodup; apply ia_sorted|exact Hr|exact Hk].
  rewrite (selected_pairs c Hl), (lookupZ_filter (fun z => NP.zmem z (ia c))).
  destruct (NP.zmem k (ia c)) eqn:E; [|reflexivity].
  apply zmem_spec in E.
  destruct (lookupZ_in k (iw c) (Wc c)) as (v & Ev); [apply (days_adjusted_in_window L S dA c k HS HSL Hdays E)|exact Hl|].
  rewrite Ev. reflexivity.
Qed.

(* ---------- all centres ---------- *)
Definition stepf (buf : option (list (option V))) (ci : Z * list Z) : option (list (option V)) :=
  match buf with
  | None => None
  | Some b => put V b (snd ci) (NP.select (Wc (fst ci)) (days_mask_adjust_in_window (iw (fst ci)) (snd ci)))
  end.

Lemma fold_centres cs : forall b, length b = n -> (forall c, In c cs -> length (Wc c) = length (iw c)) ->
  exists b', fold_left stepf (map (fun c => (c, ia c)) cs) (Some b) = Some b' /\ length b' = n /\
    forall k, 0 <= k ->
      (forall c, In c cs -> NP.zmem k (ia c) = false) -> nth (Z.to_nat k) b' None = nth (Z.to_nat k) b None.
Proof.
  induction cs as [|c cs IH]; intros b Hb Hl.
  - exists b. split; [reflexivity|]. split; [exact Hb|]. intros; reflexivity.
  - cbn [map fold_left stepf fst snd]. fold (selected c).
    destruct (step_spec c b 0 (Hl c (or_introl eq_refl)) Hb ltac:(lia)) as (E & Hlen & _).
    rewrite E.
    destruct (IH (put_all V b (ia c) (selected c)) Hlen) as (b' & E' & Hb' & Hun).
    { intros c' Hc'. apply Hl. right. exact Hc'. }
    exists b'. split; [exact E'|]. split; [exact Hb'|]. intros k Hk Hnone.
    rewrite Hun by (try exact Hk; intros c' Hc'; apply Hnone; right; exact Hc').
    destruct (step_spec c b k (Hl c (or_introl eq_refl)) Hb Hk) as (_ & _ & Hn).
    rewrite Hn, (Hnone c (or_introl eq_refl)). reflexivity.
Qed.

Lemma fold_centres_hit cs : forall b, NoDup cs -> length b = n -> (forall c, In c cs -> length (Wc c) = length (iw c)) ->
  forall k c, 0 <= k -> In c cs -> NP.zmem k (ia c) = true ->
    (forall c', In c' cs -> NP.zmem k (ia c') = true -> c' = c) ->
  exists b', fold_left stepf (map (fun c => (c, ia c)) cs) (Some b) = Some b' /\ length b' = n /\
    nth (Z.to_nat k) b' None = lookupZ k (combine (iw c) (Wc c)).
Proof.
  induction cs as [|c0 cs IH]; intros b Hnd Hb Hl k c Hk Hin Hz Hu; [destruct Hin|].
  inversion Hnd as [|? ? Hni Hnd']; subst.
  cbn [map fold_left stepf fst snd]. fold (selected c0).
  destruct (step_spec c0 b k (Hl c0 (or_introl eq_refl)) Hb Hk) as (E & Hlen & Hn).
  rewrite E.
  destruct (NP.zmem k (ia c0)) eqn:Z0.
  - assert (c0 = c) by (apply Hu; [left; reflexivity|exact Z0]). subst c0.
    destruct (fold_centres cs (put_all V b (ia c) (selected c)) Hlen) as (b' & E' & Hb' & Hun).
    { intros c' Hc'. apply Hl. right. exact Hc'. }
    exists b'. split; [exact E'|]. split; [exact Hb'|]. rewrite Hun; [exact Hn|exact Hk|].
    intros c' Hc'. destruct (NP.zmem k (ia c')) eqn:Zc; [|reflexivity].
    exfalso. assert (c' = c) by (apply Hu; [right; exact Hc'|exact Zc]). subst c'. contradiction.
  - destruct Hin as [->|Hin]; [congruence|].
    apply (IH (put_all V b (ia c0) (selected c0)) Hnd' Hlen); try assumption.
    + intros c' Hc'. apply Hl. right. exact Hc'.
    + intros c' Hc' Zc. apply Hu; [right; exact Hc'|exact Zc].
Qed.

(** THE driver lemma: for well-formed days and window lengths the loop succeeds, and the value at
    every index k is the window result, at k's position, of the unique centre adjusting k *)
Hypothesis Hodd : S mod 2 = 1.
Theorem driver_spec : (forall c, In c (days_window_centers S dA) -> length (Wc c) = length (iw c)) ->
  exists out, driver V L S dA Wc = Some out /\ length out = n /\
    forall k, 0 <= k < Z.of_nat n ->
      exists c v, In c (days_window_centers S dA) /\ In k (ia c) /\ In k (iw c) /\
        (forall c', In c' (days_window_centers S dA) -> In k (ia c') -> c' = c) /\
        lookupZ k (combine (iw c) (Wc c)) = Some v /\ nth (Z.to_nat k) out None = Some v.
Proof.
  intro Hl.
  assert (Hfold : driver V L S dA Wc = fold_left stepf (map (fun c => (c, ia c)) (days_window_centers S dA)) (Some (repeat None n))) by reflexivity.
  destruct (fold_centres (days_window_centers S dA) (repeat None n) (repeat_length _ _) Hl) as (out & E & Hlen & _).
  exists out. split; [rewrite Hfold; exact E|]. split; [exact Hlen|]. intros k Hk.
  set (d := nth (Z.to_nat k) dA 0).
  assert (Hin : In d dA) by (apply nth_In; lia).
  destruct (centers_cover (NP.zmin dA) (NP.zmax dA) S d HS Hodd) as (c & Hc & Hcd & Hu).
  { split; [apply zmin_le|apply zmax_ge]; exact Hin. }
  rewrite <- days_window_centers_eq in Hc, Hu.
  assert (Ka : In k (ia c)).
  { apply days_adjust_spec. split; [exact Hk|]. cbv zeta. fold d. specialize (Hdays d Hin). lia. }
  assert (Uniq : forall c', In c' (days_window_centers S dA) -> In k (ia c') -> c' = c).
  { intros c' Hc' P. apply days_adjust_spec in P. destruct P as [_ P]. cbv zeta in P. fold d in P. apply Hu; [exact Hc'|lia]. }
  assert (Kw : In k (iw c)) by (apply (days_adjusted_in_window L S dA c k HS HSL Hdays Ka)).
  destruct (lookupZ_in k (iw c) (Wc c) Kw (Hl c Hc)) as (v & Ev).
  exists c, v. repeat split; try assumption.
  destruct (fold_centres_hit (days_window_centers S dA) (repeat None n)) with (k := k) (c := c) as (out' & E' & _ & Hv).
  - rewrite days_window_centers_eq. apply arange_nodup.
  - apply repeat_length.
  - exact Hl.
  - lia.
  - exact Hc.
  - apply zmem_spec. exact Ka.
  - intros c' Hc' Z'. apply Uniq; [exact Hc'|apply zmem_spec; exact Z'].
  - rewrite E in E'. injection E' as <-. rewrite Hv. exact Ev.
Qed.
End OneCentre.
End DP.
