(** C01 for non-parametric QuantileMapping (REGENERATED qm_apply_on_window, default step ECDF / inverted CDF):
    debiasing the reference period itself (cm_future = cm_hist) with equally long, tie-free samples returns
    exactly the observed values, arranged in the rank order of cm_hist: the time mean of the output IS the observed
    mean (no residual bias at all). *)
From Coq Require Import QArith Qround ZArith List Bool String Lia Lqa Permutation SetoidList.
From IV Require Import QL Dist Ecdf QFacts QListFacts C16_step C16_compose C16_sortlike Affine_debiasers GenUtils GenScalars.
Import ListNotations.
Open Scope Q_scope.

Definition tie_free (l : list Q) : Prop := NoDupA Qeq l.

Lemma cnt_eq_zero_notin t l : ~ InA Qeq t l -> cnt (eq_of t) l = 0%nat.
Proof.
  induction l as [|a l IH]; intro H; [reflexivity|]. rewrite cnt_cons. unfold eq_of at 1.
  destruct (Qeq_bool a t) eqn:E.
  - exfalso. apply H. left. apply Qeq_bool_iff in E. symmetry. exact E.
  - rewrite IH; [reflexivity|]. intro X. apply H. right. exact X.
Qed.

Lemma cnt_eq_tiefree t l : tie_free l -> InA Qeq t l -> cnt (eq_of t) l = 1%nat.
Proof.
  induction 1 as [|a l Ha Hl IH]; intro Hin; [inversion Hin|]. rewrite cnt_cons. unfold eq_of at 1.
  destruct (Qeq_bool a t) eqn:E.
  - apply Qeq_bool_iff in E. rewrite cnt_eq_zero_notin; [reflexivity|]. intro X. apply Ha.
    eapply InA_eqA; [exact Q_Setoid|symmetry; exact E|exact X].
  - inversion Hin as [? ? X|? ? X]; subst.
    + apply Qeq_bool_neq in E. exfalso. apply E. symmetry. exact X.
    + rewrite (IH X). reflexivity.
Qed.

Lemma cnt_le_split t l : cnt (fun v => Qle_bool v t) l = (cnt (lt_of t) l + cnt (eq_of t) l)%nat.
Proof.
  induction l as [|a l IH]; [reflexivity|]. rewrite !cnt_cons, IH. unfold lt_of, eq_of.
  destruct (Qle_bool a t) eqn:A; destruct (Qlt_bool a t) eqn:B; destruct (Qeq_bool a t) eqn:C; try lia;
    try (apply Qeq_bool_iff in C); try (apply Qeq_bool_neq in C); qb; exfalso; try lra; apply C; lra.
Qed.

Lemma nth_InA (l : list Q) i : (i < length l)%nat -> InA Qeq (nth i l 0) l.
Proof. intro H. apply In_InA; [exact Q_Setoid|]. apply nth_In. exact H. Qed.

(** the step ECDF of a tie-free sample at its i-th element is (rank + 1) / n *)
Lemma ecdf_step_at_sample y i : tie_free y -> (i < length y)%nat ->
  ecdf_step y (nth i y 0) == inject_Z (Z.of_nat (rank_in y i) + 1) / inject_Z (zlen y).
Proof.
  intros Ht Hi. unfold ecdf_step. rewrite Qred_correct.
  change (zlen (filter (fun v => Qle_bool v (nth i y 0)) y)) with (Z.of_nat (cnt (fun v => Qle_bool v (nth i y 0)) y)).
  rewrite cnt_le_split. rewrite (cnt_eq_tiefree _ _ Ht (nth_InA y i Hi)).
  rewrite rank_unfold. fold (yv y i).
  pose proof (eq_before_lt_all y i Hi) as E. fold (yv y i) in E. unfold yv in *.
  rewrite (cnt_eq_tiefree _ _ Ht (nth_InA y i Hi)) in E.
  set (t := nth i y 0) in *. clearbody t.
  replace (cnt (eq_of t) (firstn i y)) with 0%nat by lia.
  replace (Z.of_nat (cnt (lt_of t) y + 1)) with (Z.of_nat (cnt (lt_of t) y + 0) + 1)%Z by lia. reflexivity.
Qed.

Lemma map_via_seq (f : Q -> Q) (g : nat -> Q) l : (forall i, (i < length l)%nat -> f (nth i l 0) = g i) -> map f l = map g (seq 0 (length l)).
Proof.
  intro H. transitivity (map f (map (fun k => nth k l 0) (seq 0 (length l)))); [rewrite map_nth_seq; reflexivity|].
  rewrite map_map. apply map_ext_in. intros i Hi. apply in_seq in Hi. apply H. lia.
Qed.

Section QM.
Context {P : Type} (D : dist P).
Variable thr : Q.

Theorem qm_nonparam_reference_period obs hist :
  length obs = length hist -> tie_free hist -> hist <> [] ->
  qm_apply_on_window "no_detrending" "nonparametric" D thr obs hist hist = Some (sort_like obs hist).
Proof.
  intros L Ht Hne. rewrite qm_nonparam_form. cbn [String.eqb Ascii.eqb Bool.eqb]. f_equal.
  unfold sort_like. cbv zeta. apply map_via_seq. intros i Hi'.
  set (x := nth i hist 0).
  assert (Hx : In x hist) by (apply nth_In; exact Hi').
  unfold qmap_extrap. cbv zeta.
  assert (B1 : Qlt_bool x (QL.qmin hist) = false) by (apply Qlt_bool_false; apply qmin_le; exact Hx). rewrite B1.
  assert (B2 : Qlt_bool (QL.qmax hist) x = false) by (apply Qlt_bool_false; apply qmax_ge; exact Hx). rewrite B2.
  unfold qmap. cbn [ecdf iecdf_sorted]. unfold iecdf. cbn [iecdf_sorted]. unfold iecdf_inv.
  pose proof (ecdf_step_at_sample hist i Ht Hi') as E. fold x in E.
  pose proof (rank_lt_length hist i Hi') as Rl.
  assert (Zl : zlen (qsort obs) = zlen hist) by (unfold zlen; rewrite qsort_length, L; reflexivity).
  assert (EP : inject_Z (zlen (qsort obs) - 1) * ecdf_step hist x == inject_Z (zlen (qsort obs) - 1) * (inject_Z (Z.of_nat (rank_in hist i) + 1) / inject_Z (zlen (qsort obs)))).
  { rewrite E, Zl. reflexivity. }
  rewrite (Qfloor_comp _ _ EP).
  pose proof (equal_size_rank_transfer (qsort obs) (Z.of_nat (rank_in hist i) + 1)) as T.
  unfold iecdf_inv in T. rewrite T by (rewrite Zl; unfold zlen; lia).
  unfold nthq. f_equal. lia.
Qed.

(** hence: the output is a rearrangement of the observed values and has exactly the observed mean *)
Theorem qm_nonparam_no_residual_bias obs hist :
  length obs = length hist -> tie_free hist -> hist <> [] ->
  exists out, qm_apply_on_window "no_detrending" "nonparametric" D thr obs hist hist = Some out /\
              Permutation out obs /\ QL.qmean out = QL.qmean obs.
Proof.
  intros L Ht Hne. exists (sort_like obs hist). split; [apply qm_nonparam_reference_period; assumption|].
  pose proof (sort_like_permutation obs hist L) as Pm. split; [exact Pm|apply qmean_perm; exact Pm].
Qed.
End QM.
