(** Soundness of the effect checker of Model/Effects.v: if the claimed points-to facts and
    summaries check, then every execution of a function (any interleaving / repetition of its
    statements, any call depth) writes only locations of parameters listed in its [mut] summary or
    locations allocated during the call, returns only such locations or parameters listed in [retal],
    and assigns only the self attributes listed in [selfw]. *)
From Coq Require Import List Bool String Arith Lia.
From IV Require Import Effects.
Import ListNotations.
Open Scope string_scope.

Lemma nmem_in n l : nmem n l = true <-> In n l.
Proof.
  unfold nmem. rewrite existsb_exists. split.
  - intros (x & Hx & E). apply Nat.eqb_eq in E. subst. exact Hx.
  - intro H. exists n. split; [exact H|apply Nat.eqb_refl].
Qed.
Lemma smem_in s l : smem s l = true <-> In s l.
Proof.
  unfold smem. rewrite existsb_exists. split.
  - intros (x & Hx & E). apply String.eqb_eq in E. subst. exact Hx.
  - intro H. exists s. split; [exact H|apply String.eqb_refl].
Qed.
Lemma subset_in a b : subset a b = true -> forall x, In x a -> In x b.
Proof. unfold subset. rewrite forallb_forall. intros H x Hx. apply nmem_in. apply H. exact Hx. Qed.

Lemma get_set e x l y : get (set e x l) y = if String.eqb y x then Some l else get e y.
Proof. unfold get, set. cbn [lookup]. reflexivity. Qed.

Lemma get_all_nth e : forall args locs j a, get_all e args = Some locs -> nth_error args j = Some a ->
  exists l, get e a = Some l /\ nth_error locs j = Some l.
Proof.
  induction args as [|x args IH]; intros locs j a H Hn; [destruct j; discriminate|].
  cbn [get_all] in H. destruct (get e x) as [lx|] eqn:Ex; [|discriminate].
  destruct (get_all e args) as [ls|] eqn:Es; [|discriminate]. injection H as <-.
  destruct j as [|j]; cbn [nth_error] in *.
  - injection Hn as <-. exists lx. split; [exact Ex|reflexivity].
  - apply (IH ls j a eq_refl Hn).
Qed.

Lemma get_all_length e : forall args locs, get_all e args = Some locs -> List.length locs = List.length args.
Proof.
  induction args as [|x args IH]; intros locs H; cbn [get_all] in H; [injection H as <-; reflexivity|].
  destruct (get e x); [|discriminate]. destruct (get_all e args) as [ls|] eqn:E; [|discriminate]. injection H as <-.
  cbn. f_equal. apply IH. reflexivity.
Qed.

Lemma get_all_nth_loc e : forall args locs j l, get_all e args = Some locs -> nth_error locs j = Some l ->
  exists a, nth_error args j = Some a /\ get e a = Some l.
Proof.
  induction args as [|x args IH]; intros locs j l H Hn; cbn [get_all] in H; [injection H as <-; destruct j; discriminate|].
  destruct (get e x) as [lx|] eqn:Ex; [|discriminate]. destruct (get_all e args) as [ls|] eqn:Es; [|discriminate]. injection H as <-.
  destruct j as [|j]; cbn [nth_error] in *.
  - injection Hn as <-. exists x. split; [reflexivity|exact Ex].
  - apply (IH ls j l eq_refl Hn).
Qed.

Section Sound.
Variable p : program.
Variable sums : summaries.
Variable pts : pointsto.
Hypothesis Hcheck : check_program p sums pts = true.

Lemma fun_checked f fd : lookup f p = Some fd ->
  exists s A, lookup f sums = Some s /\ lookup f pts = Some A /\ check_fun sums A s fd = true.
Proof.
  intro H. unfold check_program in Hcheck. rewrite forallb_forall in Hcheck.
  assert (Hin : exists f', In (f', fd) p /\ lookup f' p = Some fd /\ f' = f).
  { clear Hcheck. induction p as [|[k v] q IH]; [discriminate|]. cbn [lookup] in H. destruct (String.eqb f k) eqn:E.
    - injection H as <-. apply String.eqb_eq in E. subst k. exists f. split; [left; reflexivity|]. split; [cbn; rewrite String.eqb_refl; reflexivity|reflexivity].
    - destruct (IH H) as (f' & Hi & Hl & Ef). exists f'. split; [right; exact Hi|]. split; [|exact Ef]. subst f'. cbn [lookup]. rewrite E. exact Hl. }
  destruct Hin as (f' & Hi & _ & ->). specialize (Hcheck (f, fd) Hi). cbn [fst snd] in Hcheck.
  destruct (lookup f sums) as [s|]; [|discriminate]. destruct (lookup f pts) as [A|]; [|discriminate].
  exists s, A. repeat split; assumption.
Qed.

(** the invariant of one activation: parameters at [locs], everything below [nx0] existed before *)
Record inv (A : list (var * list nat)) (me : summary) (locs : list loc) (nx0 : loc) (h0 : heap) (sf0 : list string) (st : state) : Prop := {
  inv_next : nx0 <= st_next st;
  inv_env : forall x l, get (st_env st) x = Some l -> l < st_next st /\ (l < nx0 -> exists i, In i (pt A x) /\ nth_error locs i = Some l);
  inv_heap : forall k, k < nx0 -> st_heap st k <> h0 k -> exists j, In j (mut me) /\ nth_error locs j = Some k;
  inv_self : forall a, In a (st_self st) -> In a sf0 \/ In a (selfw me)
}.

Definition call_ok (n : nat) (f : fname) (locs : list loc) (h : heap) (nx : loc) (sf : list string) (h' : heap) (nx' : loc) (sf' : list string) (lr : loc) : Prop :=
  (forall l, In l locs -> l < nx) ->
  forall s, lookup f sums = Some s ->
    nx <= nx' /\ lr < nx' /\
    (forall k, k < nx -> h' k <> h k -> exists j, In j (mut s) /\ nth_error locs j = Some k) /\
    (lr < nx -> exists j, In j (retal s) /\ nth_error locs j = Some lr) /\
    (forall a, In a sf' -> In a sf \/ In a (selfw s)).

Definition step_ok (n : nat) (s : stmt) (st st1 : state) : Prop :=
  forall A me locs nx0 h0 sf0, check_stmt sums A me s = true -> inv A me locs nx0 h0 sf0 st -> inv A me locs nx0 h0 sf0 st1.
Definition steps_ok (n : nat) (fd : fundef) (st st' : state) : Prop :=
  forall A me locs nx0 h0 sf0, forallb (check_stmt sums A me) (body fd) = true -> inv A me locs nx0 h0 sf0 st -> inv A me locs nx0 h0 sf0 st'.

Scheme call_mut := Induction for call Sort Prop
  with steps_mut := Induction for steps Sort Prop
  with step_mut := Induction for step Sort Prop.
Combined Scheme sem_mutind from call_mut, steps_mut, step_mut.

Lemma bind_params_get ps : forall locs x l (i0 : nat), List.length locs = List.length ps -> get (bind_params ps locs) x = Some l ->
  exists i, nth_error ps i = Some x /\ nth_error locs i = Some l.
Proof.
  induction ps as [|q ps IH]; intros locs x l i0 Hl H; [destruct locs; discriminate|].
  destruct locs as [|m locs]; [discriminate|]. unfold get in H. cbn [bind_params lookup] in H.
  destruct (String.eqb x q) eqn:E.
  - injection H as <-. apply String.eqb_eq in E. subst q. exists 0. split; reflexivity.
  - destruct (IH locs x l i0 ltac:(cbn in Hl; lia) H) as (i & H1 & H2). exists (S i). split; assumption.
Qed.

Lemma index_params_spec A ps : forall i0, index_params A i0 ps = true ->
  forall i x, nth_error ps i = Some x -> In (i0 + i) (pt A x).
Proof.
  induction ps as [|q ps IH]; intros i0 H i x Hn; [destruct i; discriminate|].
  cbn [index_params] in H. apply andb_true_iff in H. destruct H as [H1 H2].
  destruct i as [|i]; cbn [nth_error] in Hn.
  - injection Hn as <-. rewrite Nat.add_0_r. apply nmem_in. exact H1.
  - replace (i0 + S i) with (S i0 + i) by lia. apply (IH (S i0) H2 i x Hn).
Qed.

Lemma call_effects_ok A me f args s : check_call_effects sums A me f args = true -> lookup f sums = Some s ->
  (forall j, In j (mut s) -> exists a, nth_error args j = Some a /\ forall i, In i (pt A a) -> In i (mut me)) /\
  (forall a, In a (selfw s) -> In a (selfw me)).
Proof.
  unfold check_call_effects. intros H Hs. rewrite Hs in H. apply andb_true_iff in H. destruct H as [H1 H2].
  rewrite forallb_forall in H1, H2. split.
  - intros j Hj. specialize (H1 j Hj). destruct (nth_error args j) as [a|]; [|discriminate]. exists a. split; [reflexivity|]. apply subset_in. exact H1.
  - intros a Ha. apply smem_in. apply H2. exact Ha.
Qed.

Theorem sem_sound :
  (forall n f locs h nx sf h' nx' sf' lr, call p n f locs h nx sf h' nx' sf' lr -> call_ok n f locs h nx sf h' nx' sf' lr) /\
  (forall n fd st st', steps p n fd st st' -> steps_ok n fd st st') /\
  (forall n s st st1, step p n s st st1 -> step_ok n s st st1).
Proof.
  apply sem_mutind; unfold call_ok, steps_ok, step_ok.
  - (* call *)
    intros n f fd locs h nx sf st' r lr Hf Hlen Hsteps IHsteps Hret Hargs s Hs.
    destruct (fun_checked f fd Hf) as (s' & A & Hs' & HA & Hc). rewrite Hs in Hs'. injection Hs' as <-.
    unfold check_fun in Hc. apply andb_true_iff in Hc. destruct Hc as [Hc Hrets]. apply andb_true_iff in Hc. destruct Hc as [Hidx Hbody].
    assert (I0 : inv A s locs nx h sf (mkSt (bind_params (params fd) locs) h nx sf)).
    { constructor; cbn [st_next st_env st_heap st_self].
      - lia.
      - intros x l Hg. destruct (bind_params_get _ _ _ _ 0 Hlen Hg) as (i & Hp & Hl).
        split; [apply Hargs; apply (nth_error_In _ _ Hl)|]. intros _. exists i. split; [|exact Hl].
        apply (index_params_spec A (params fd) 0 Hidx i x Hp).
      - intros k _ Hne. congruence.
      - intros a Ha. left. exact Ha. }
    pose proof (IHsteps A s locs nx h sf Hbody I0) as I. destruct I as [Hn1 Ie Ihp Isf].
    split; [lia|]. split.
    { destruct Hret as [[Hr Hg] | ->]; [destruct (Ie r lr Hg); lia|lia]. }
    split; [exact Ihp|]. split; [|exact Isf].
    intro Hlt. destruct Hret as [[Hr Hg] | ->]; [|lia].
    destruct (Ie r lr Hg) as [_ Hold]. destruct (Hold Hlt) as (i & Hi & Hl). exists i. split; [|exact Hl].
    rewrite forallb_forall in Hrets. apply (subset_in _ _ (Hrets r Hr)). exact Hi.
  - (* steps refl *) intros; assumption.
  - (* steps step *)
    intros n fd st st1 st2 s Hin Hstep IHstep Hsteps IHsteps A me locs nx0 h0 sf0 Hb I.
    apply (IHsteps A me locs nx0 h0 sf0 Hb). apply (IHstep A me locs nx0 h0 sf0); [|exact I].
    rewrite forallb_forall in Hb. apply Hb. exact Hin.
  - (* fresh *)
    intros n x e h nx sf A me locs nx0 h0 sf0 _ [Hn1 Ie Ihp Isf]. cbn [st_next st_env st_heap st_self] in *.
    constructor; cbn [st_next st_env st_heap st_self]; [lia| |exact Ihp|exact Isf].
    intros y l Hg. rewrite get_set in Hg. destruct (String.eqb y x).
    + injection Hg as <-. split; [lia|intro; lia].
    + destruct (Ie y l Hg). split; [lia|assumption].
  - (* may var *)
    intros n x ys y l e h nx sf Hy Hgy A me locs nx0 h0 sf0 Hc [Hn1 Ie Ihp Isf]. cbn [st_next st_env st_heap st_self] in *.
    cbn [check_stmt] in Hc. rewrite forallb_forall in Hc. specialize (Hc y Hy).
    constructor; cbn [st_next st_env st_heap st_self]; [lia| |exact Ihp|exact Isf].
    intros z lz Hg. rewrite get_set in Hg. destruct (String.eqb z x) eqn:E.
    + injection Hg as <-. apply String.eqb_eq in E. subst z. destruct (Ie y l Hgy) as [H1 H2]. split; [exact H1|].
      intro Hlt. destruct (H2 Hlt) as (i & Hi & Hl). exists i. split; [apply (subset_in _ _ Hc); exact Hi|exact Hl].
    + apply Ie. exact Hg.
  - (* may fresh *)
    intros n x ys e h nx sf A me locs nx0 h0 sf0 _ [Hn1 Ie Ihp Isf]. cbn [st_next st_env st_heap st_self] in *.
    constructor; cbn [st_next st_env st_heap st_self]; [lia| |exact Ihp|exact Isf].
    intros y l Hg. rewrite get_set in Hg. destruct (String.eqb y x).
    + injection Hg as <-. split; [lia|intro; lia].
    + destruct (Ie y l Hg). split; [lia|assumption].
  - (* bind call *)
    intros n x f args locs e h nx sf h' nx' sf' lr Hga Hcall IHcall A me plocs nx0 h0 sf0 Hc [Hn1 Ie Ihp Isf]. cbn [st_next st_env st_heap st_self] in *.
    cbn [check_stmt] in Hc. apply andb_true_iff in Hc. destruct Hc as [Hce Hra].
    destruct (lookup f sums) as [s|] eqn:Hs; [|discriminate].
    destruct (call_effects_ok A me f args s Hce Hs) as [Hm Hsw].
    assert (Hargs : forall l, In l locs -> l < nx).
    { intros l Hl. destruct (In_nth_error _ _ Hl) as (j & Hj). destruct (get_all_nth_loc e args locs j l Hga Hj) as (a & _ & Hg). apply (Ie a l Hg). }
    destruct (IHcall Hargs s eq_refl) as (N1 & N2 & Hh & Hr & Hsf).
    constructor; cbn [st_next st_env st_heap st_self].
    + lia.
    + intros y l Hg. rewrite get_set in Hg. destruct (String.eqb y x) eqn:E.
      * injection Hg as <-. apply String.eqb_eq in E. subst y. split; [exact N2|]. intro Hlt.
        destruct (Hr ltac:(lia)) as (j & Hj & Hl).
        destruct (get_all_nth_loc e args locs j lr Hga Hl) as (a & Ha & Hg).
        destruct (Ie a lr Hg) as [_ Hold]. destruct (Hold Hlt) as (i & Hi & Hli). exists i. split; [|exact Hli].
        rewrite forallb_forall in Hra. specialize (Hra j Hj). rewrite Ha in Hra. apply (subset_in _ _ Hra). exact Hi.
      * destruct (Ie y l Hg). split; [lia|assumption].
    + intros k Hk Hne. destruct (Nat.eq_dec (h' k) (h k)) as [E|NE]; [rewrite E in Hne; apply (Ihp k Hk Hne)|].
      destruct (Hh k ltac:(lia) NE) as (j & Hj & Hl).
      destruct (Hm j Hj) as (a & Ha & Hsub).
      destruct (get_all_nth e args locs j a Hga Ha) as (l & Hg & Hl'). rewrite Hl in Hl'. injection Hl' as <-.
      destruct (Ie a k Hg) as [_ Hold]. destruct (Hold Hk) as (i & Hi & Hli). exists i. split; [apply Hsub; exact Hi|exact Hli].
    + intros a Ha. destruct (Hsf a Ha) as [H|H]; [apply Isf; exact H|right; apply Hsw; exact H].
  - (* store *)
    intros n x l e h nx sf Hg A me locs nx0 h0 sf0 Hc [Hn1 Ie Ihp Isf]. cbn [st_next st_env st_heap st_self] in *.
    cbn [check_stmt] in Hc.
    constructor; cbn [st_next st_env st_heap st_self]; [lia|exact Ie| |exact Isf].
    intros k Hk Hne. unfold bump in Hne. destruct (Nat.eqb k l) eqn:E.
    + apply Nat.eqb_eq in E. subst k. destruct (Ie x l Hg) as [_ Hold]. destruct (Hold Hk) as (i & Hi & Hl). exists i. split; [apply (subset_in _ _ Hc); exact Hi|exact Hl].
    + apply (Ihp k Hk Hne).
  - (* call statement *)
    intros n f args locs e h nx sf h' nx' sf' lr Hga Hcall IHcall A me plocs nx0 h0 sf0 Hc [Hn1 Ie Ihp Isf]. cbn [st_next st_env st_heap st_self] in *.
    cbn [check_stmt] in Hc. destruct (lookup f sums) as [s|] eqn:Hs; [|unfold check_call_effects in Hc; rewrite Hs in Hc; discriminate].
    destruct (call_effects_ok A me f args s Hc Hs) as [Hm Hsw].
    assert (Hargs : forall l, In l locs -> l < nx).
    { intros l Hl. destruct (In_nth_error _ _ Hl) as (j & Hj). destruct (get_all_nth_loc e args locs j l Hga Hj) as (a & _ & Hg). apply (Ie a l Hg). }
    destruct (IHcall Hargs s eq_refl) as (N1 & N2 & Hh & Hr & Hsf).
    constructor; cbn [st_next st_env st_heap st_self].
    + lia.
    + intros y l Hg. destruct (Ie y l Hg). split; [lia|assumption].
    + intros k Hk Hne. destruct (Nat.eq_dec (h' k) (h k)) as [E|NE]; [rewrite E in Hne; apply (Ihp k Hk Hne)|].
      destruct (Hh k ltac:(lia) NE) as (j & Hj & Hl).
      destruct (Hm j Hj) as (a & Ha & Hsub).
      destruct (get_all_nth e args locs j a Hga Ha) as (l & Hg & Hl'). rewrite Hl in Hl'. injection Hl' as <-.
      destruct (Ie a k Hg) as [_ Hold]. destruct (Hold Hk) as (i & Hi & Hli). exists i. split; [apply Hsub; exact Hi|exact Hli].
    + intros a Ha. destruct (Hsf a Ha) as [H|H]; [apply Isf; exact H|right; apply Hsw; exact H].
  - (* self *)
    intros n a e h nx sf A me locs nx0 h0 sf0 Hc [Hn1 Ie Ihp Isf]. cbn [st_next st_env st_heap st_self] in *.
    cbn [check_stmt] in Hc. constructor; cbn [st_next st_env st_heap st_self]; [lia|exact Ie|exact Ihp|].
    intros b [<-|Hb]; [right; apply smem_in; exact Hc|apply Isf; exact Hb].
Qed.

(** a function whose summary has no mutated parameter leaves every pre-existing location untouched, in
    particular its arguments; one with an empty self-write list assigns no attribute *)
Corollary pure_function f s n locs h nx sf h' nx' sf' lr :
  lookup f sums = Some s -> mut s = [] -> (forall l, In l locs -> l < nx) ->
  call p n f locs h nx sf h' nx' sf' lr -> forall k, k < nx -> h' k = h k.
Proof.
  intros Hs Hm Hargs Hc k Hk. destruct (proj1 sem_sound _ _ _ _ _ _ _ _ _ _ Hc Hargs s Hs) as (_ & _ & Hh & _ & _).
  destruct (Nat.eq_dec (h' k) (h k)) as [E|NE]; [exact E|]. destruct (Hh k Hk NE) as (j & Hj & _). rewrite Hm in Hj. destruct Hj.
Qed.

Corollary self_writes_bounded f s n locs h nx sf h' nx' sf' lr :
  lookup f sums = Some s -> (forall l, In l locs -> l < nx) ->
  call p n f locs h nx sf h' nx' sf' lr -> forall a, In a sf' -> In a sf \/ In a (selfw s).
Proof.
  intros Hs Hargs Hc. destruct (proj1 sem_sound _ _ _ _ _ _ _ _ _ _ Hc Hargs s Hs) as (_ & _ & _ & _ & Hsf). exact Hsf.
Qed.
End Sound.
