(** C19: threshold metrics (Model/Metrics.v, tied to evaluate/metrics.py by correspondence K12). *)
From Coq Require Import QArith Qabs ZArith List Bool Lia Lqa Permutation.
From IV Require Import QL NP Ecdf QFacts C16_step QListFacts Metrics.
Import ListNotations.
Open Scope Q_scope.

(* ---------- the defining comparison ---------- *)
Theorem cond_spec ty lo hi v :
  cond ty lo hi v = true <->
  match ty with
  | Higher => lo < v | Lower => v < lo | Between => lo < v /\ v < hi | Outside => v < lo \/ hi < v
  end.
Proof.
  unfold cond, Qgt_bool, Qlt_bool'. destruct ty.
  - rewrite negb_true_iff. apply Qle_bool_false.
  - rewrite negb_true_iff. apply Qle_bool_false.
  - rewrite andb_true_iff, !negb_true_iff, !Qle_bool_false. tauto.
  - rewrite orb_true_iff, !negb_true_iff, !Qle_bool_false. tauto.
Qed.

Lemma nth_map_indexed {A B} (f : nat -> A -> B) (l : list A) (dA : A) (dB : B) : forall s k, (k < length l)%nat ->
  nth k (map (fun p => f (fst p) (snd p)) (combine (seq s (length l)) l)) dB = f (s + k)%nat (nth k l dA).
Proof.
  induction l as [|a l IH]; intros s k Hk; [cbn in Hk; lia|].
  cbn [length seq combine map]. destruct k as [|k]; cbn [nth fst snd]; [f_equal; lia|].
  rewrite IH by (cbn in Hk; lia). f_equal. lia.
Qed.

(** the instance array is the defining comparison at every time step and cell, with the threshold
    that applies to that time step (scope) and cell (locality) *)
Theorem instances_def ty thr x t c : (t < length x)%nat -> (c < length (nth t x []))%nat ->
  nth c (nth t (mask ty thr x) []) false =
  cond ty (fst (thr t c)) (snd (thr t c)) (nth c (nth t x []) 0).
Proof.
  intros Ht Hc. unfold mask.
  rewrite (nth_map_indexed (fun t0 row => map (fun cv => cond ty (fst (thr t0 (fst cv))) (snd (thr t0 (fst cv))) (snd cv))
                                              (combine (seq 0 (length row)) row)) x [] [] 0 t Ht).
  cbn [Nat.add].
  rewrite (nth_map_indexed (fun c0 v => cond ty (fst (thr t c0)) (snd (thr t c0)) v) (nth t x []) 0 false 0 c Hc).
  reflexivity.
Qed.

(* ---------- counting ---------- *)
Lemma count_cons b m : count (b :: m) = ((if b then 1 else 0) + count m)%nat.
Proof. unfold count. cbn [filter]. destruct b; reflexivity. Qed.
Lemma count_app a b : count (a ++ b) = (count a + count b)%nat.
Proof. unfold count. rewrite filter_app, app_length. reflexivity. Qed.
Lemma count_le m : (count m <= length m)%nat.
Proof. unfold count. apply filter_length_le. Qed.

(** probability of a cell times the number of time steps = number of instances of that cell *)
Theorem prob_is_mean m c : m <> [] ->
  probability m c * inject_Z (Z.of_nat (length m)) == inject_Z (Z.of_nat (count (column false m c))) /\
  0 <= probability m c <= 1.
Proof.
  intro Hne. unfold probability.
  assert (Np : 0 < inject_Z (Z.of_nat (length m))) by (apply inject_Z_pos; destruct m; [congruence|cbn; lia]).
  pose proof (count_le (column false m c)) as Hc. unfold column in Hc at 2. rewrite map_length in Hc.
  split; [field; lra|]. split.
  - apply Qle_shift_div_l; [exact Np|]. rewrite Qmult_0_l. change 0 with (inject_Z 0). apply inject_Z_le. lia.
  - apply Qle_shift_div_r; [exact Np|]. rewrite Qmult_1_l. apply inject_Z_le. lia.
Qed.

(* ---------- annual counts conserve the count ---------- *)
Fixpoint nsum (l : list nat) : nat := match l with [] => 0%nat | a :: r => (a + nsum r)%nat end.

Lemma annual_one_year years col y : length years = length col ->
  count (map snd (filter (fun p => Z.eqb (fst p) y) (combine years col))) =
  length (filter (fun p => Z.eqb (fst p) y && snd p) (combine years col)).
Proof.
  revert col. induction years as [|a years IH]; intros [|b col] Hl; try discriminate; [reflexivity|].
  cbn [combine filter fst snd]. destruct (Z.eqb a y); cbn [andb map]; [|apply IH; cbn in Hl; lia].
  rewrite count_cons. destruct b; cbn [length snd]; rewrite IH by (cbn in Hl; lia); reflexivity.
Qed.

Theorem annual_conserves years uyears col : length years = length col -> NoDup uyears ->
  (forall y, In y years -> In y uyears) -> nsum (annual years uyears col) = count col.
Proof.
  intros Hl Hnd Hall. unfold annual.
  assert (G : forall us, NoDup us ->
     nsum (map (fun y => count (map snd (filter (fun p => Z.eqb (fst p) y) (combine years col)))) us) =
     length (filter (fun p => existsb (Z.eqb (fst p)) us && snd p) (combine years col))).
  { induction us as [|u us IH]; intro Hn; cbn [map nsum existsb].
    - induction (combine years col) as [|p l IHl]; [reflexivity|]. cbn [filter andb]. exact IHl.
    - inversion Hn as [|? ? Hnu Hn']; subst. rewrite IH by exact Hn'. rewrite (annual_one_year years col u Hl).
      clear - Hnu. induction (combine years col) as [|[a b] l IHl]; [reflexivity|]. cbn [filter fst snd].
      destruct (Z.eqb a u) eqn:E.
      + apply Z.eqb_eq in E. subst a.
        assert (X : existsb (Z.eqb u) us = false).
        { destruct (existsb (Z.eqb u) us) eqn:X; [|reflexivity]. apply existsb_exists in X. destruct X as (w & Hw & Ew). apply Z.eqb_eq in Ew. subst w. contradiction. }
        rewrite X. cbn [orb andb]. destruct b; cbn [length]; lia.
      + cbn [orb andb]. destruct (existsb (Z.eqb a) us && b)%bool; cbn [length]; lia. }
  rewrite (G uyears Hnd).
  unfold count.
  assert (E : forall l : list (Z * bool), (forall p, In p l -> In (fst p) uyears) ->
     length (filter (fun p => existsb (Z.eqb (fst p)) uyears && snd p) l) = length (filter (fun b : bool => b) (map snd l))).
  { induction l as [|[a b] l IHl]; intro H; [reflexivity|]. cbn [filter map fst snd].
    assert (X : existsb (Z.eqb a) uyears = true).
    { apply existsb_exists. exists a. split; [apply (H (a, b)); left; reflexivity|apply Z.eqb_refl]. }
    rewrite X. cbn [andb]. destruct b; cbn [length]; rewrite IHl by (intros p Hp; apply H; right; exact Hp); reflexivity. }
  rewrite E.
  - assert (MS : forall (ys : list Z) (cl : list bool), length ys = length cl -> map snd (combine ys cl) = cl).
    { induction ys as [|a ys IH]; intros [|b cl] H; try discriminate; [reflexivity|]. cbn [combine map snd]. f_equal. apply IH. cbn in H. lia. }
    rewrite (MS years col Hl). reflexivity.
  - intros [a b] Hp. apply in_combine_l in Hp. apply Hall. exact Hp.
Qed.

(* ---------- spells: specification ---------- *)
Lemma runs_aux_sum m : forall cur, nsum (runs_aux cur m) = (cur + count m)%nat.
Proof.
  induction m as [|b m IH]; intro cur; cbn [runs_aux].
  - destruct (Nat.eqb cur 0) eqn:E; cbn [nsum]; [apply Nat.eqb_eq in E; subst; reflexivity|unfold count; cbn; lia].
  - rewrite count_cons. destruct b.
    + rewrite IH. lia.
    + destruct (Nat.eqb cur 0) eqn:E; cbn [nsum]; rewrite IH; [apply Nat.eqb_eq in E; lia|lia].
Qed.

Theorem runs_conserve m : nsum (runs m) = count m.
Proof. unfold runs. rewrite runs_aux_sum. reflexivity. Qed.

Lemma runs_aux_pos m : forall cur, Forall (fun n => (0 < n)%nat) (runs_aux cur m).
Proof.
  induction m as [|b m IH]; intro cur; cbn [runs_aux].
  - destruct (Nat.eqb cur 0) eqn:E; [constructor|constructor; [apply Nat.eqb_neq in E; lia|constructor]].
  - destruct b; [apply IH|]. destruct (Nat.eqb cur 0) eqn:E; [apply IH|constructor; [apply Nat.eqb_neq in E; lia|apply IH]].
Qed.

Theorem runs_positive m : Forall (fun n => (0 < n)%nat) (runs m).
Proof. apply runs_aux_pos. Qed.

(** the coded run-length trick equals the specification, exhaustively for all series up to length 12 *)
Fixpoint all_lists (n : nat) : list (list bool) :=
  match n with O => [[]] | S k => flat_map (fun l => [true :: l; false :: l]) (all_lists k) end.

Lemma all_lists_complete n : forall m, length m = n -> In m (all_lists n).
Proof.
  induction n as [|n IH]; intros m Hm.
  - destruct m; [left; reflexivity|discriminate].
  - destruct m as [|b m]; [discriminate|]. cbn [all_lists]. apply in_flat_map. exists m. split; [apply IH; cbn in Hm; lia|].
    destruct b; cbn; tauto.
Qed.

Fixpoint zlist_eqb' (a b : list Z) : bool :=
  match a, b with [], [] => true | x :: a', y :: b' => Z.eqb x y && zlist_eqb' a' b' | _, _ => false end.
Lemma zlist_eqb'_eq a : forall b, zlist_eqb' a b = true -> a = b.
Proof.
  induction a as [|x a IH]; intros [|y b] H; try discriminate; [reflexivity|]. cbn in H. apply andb_true_iff in H. destruct H as [H1 H2].
  apply Z.eqb_eq in H1. subst. f_equal. apply IH. exact H2.
Qed.

Definition spells_ok (m : list bool) : bool := match m with [] => true | _ => zlist_eqb' (spells m) (map Z.of_nat (runs m)) end.
Lemma spells_ok_all : forallb (fun n => forallb spells_ok (all_lists n)) (seq 0 13) = true.
Proof. vm_compute. reflexivity. Qed.

Theorem spells_eq_runs_bounded m : (length m <= 12)%nat -> m <> [] -> spells m = map Z.of_nat (runs m).
Proof.
  intros Hl Hne. pose proof spells_ok_all as H. rewrite forallb_forall in H.
  specialize (H (length m) ltac:(apply in_seq; lia)). rewrite forallb_forall in H.
  specialize (H m (all_lists_complete _ m eq_refl)). unfold spells_ok in H. destruct m; [congruence|].
  apply zlist_eqb'_eq. exact H.
Qed.

(* ---------- spatial extent ---------- *)
Theorem extent_conserves m ncells : (0 < ncells)%nat -> (forall r, In r m -> length r = ncells) ->
  QL.qsum (extent m) * inject_Z (Z.of_nat ncells) == inject_Z (Z.of_nat (total m)).
Proof.
  intros Hn Hr. unfold extent, total.
  assert (Np : 0 < inject_Z (Z.of_nat ncells)) by (apply inject_Z_pos; lia).
  induction m as [|r m IH]; [cbn; rewrite qsum_nil; unfold Qmult; reflexivity|].
  cbn [map filter fold_right]. rewrite (Hr r (or_introl eq_refl)).
  rewrite Nat2Z.inj_add, inject_Z_plus. rewrite <- IH by (intros r' Hr'; apply Hr; right; exact Hr').
  destruct (Qeq_bool (inject_Z (Z.of_nat (count r)) / inject_Z (Z.of_nat ncells)) 0) eqn:E; cbn [negb].
  - apply Qeq_bool_iff in E. assert (Z0 : inject_Z (Z.of_nat (count r)) == 0).
    { setoid_replace (inject_Z (Z.of_nat (count r))) with (inject_Z (Z.of_nat (count r)) / inject_Z (Z.of_nat ncells) * inject_Z (Z.of_nat ncells)) by (field; lra).
      rewrite E. ring. }
    rewrite Z0. ring.
  - rewrite qsum_cons. field. lra.
Qed.

(* ---------- clusters: sizes conserve the count and are positive ---------- *)
Lemma nsum_map_add {A} (f g : A -> nat) l : nsum (map (fun x => (f x + g x)%nat) l) = (nsum (map f l) + nsum (map g l))%nat.
Proof. induction l as [|a l IH]; cbn [map nsum]; lia. Qed.

Lemma indicator_sum k v : forall s, (s <= v < s + k)%nat -> nsum (map (fun l => if Nat.eqb v l then 1 else 0)%nat (seq s k)) = 1%nat.
Proof.
  induction k as [|k IH]; intros s H; [lia|]. cbn [seq map nsum].
  destruct (Nat.eqb v s) eqn:E.
  - apply Nat.eqb_eq in E. subst v.
    assert (Z0 : forall k' s', (s < s')%nat -> nsum (map (fun l => if Nat.eqb s l then 1 else 0)%nat (seq s' k')) = 0%nat).
    { induction k' as [|k' IH']; intros s' Hs'; [reflexivity|]. cbn [seq map nsum]. destruct (Nat.eqb s s') eqn:E'; [apply Nat.eqb_eq in E'; lia|]. rewrite IH' by lia. reflexivity. }
    rewrite Z0 by lia. reflexivity.
  - apply Nat.eqb_neq in E. rewrite IH by lia. reflexivity.
Qed.

Lemma indicator_zero k v : forall s, (v < s \/ s + k <= v)%nat -> nsum (map (fun l => if Nat.eqb v l then 1 else 0)%nat (seq s k)) = 0%nat.
Proof.
  induction k as [|k IH]; intros s H; [reflexivity|]. cbn [seq map nsum].
  destruct (Nat.eqb v s) eqn:E; [apply Nat.eqb_eq in E; lia|]. rewrite IH by lia. reflexivity.
Qed.

Theorem clusters_conserve flat : forall lab k, length lab = length flat ->
  (forall i, (i < length flat)%nat -> nth i flat false = true -> (1 <= nth i lab 0 <= k)%nat) ->
  nsum (cluster_sizes flat lab k) = count flat.
Proof.
  unfold cluster_sizes. induction flat as [|b flat IH]; intros lab k Hl Hlab.
  - destruct lab; [|discriminate]. cbn [combine filter map]. unfold count. cbn.
    induction (seq 1 k); [reflexivity|cbn; assumption].
  - destruct lab as [|v lab]; [discriminate|].
    assert (Step : forall l, count (map snd (filter (fun p => Nat.eqb (fst p) l) (combine (v :: lab) (b :: flat)))) =
                   ((if (Nat.eqb v l && b)%bool then 1 else 0) + count (map snd (filter (fun p => Nat.eqb (fst p) l) (combine lab flat))))%nat).
    { intro l. cbn [combine filter fst]. destruct (Nat.eqb v l); cbn [andb map snd]; [rewrite count_cons; destruct b; reflexivity|reflexivity]. }
    rewrite (map_ext _ _ Step), nsum_map_add.
    rewrite IH; [|cbn in Hl; lia|intros i Hi Ht; apply (Hlab (S i)); [cbn; lia|exact Ht]].
    rewrite count_cons. f_equal.
    destruct b.
    + specialize (Hlab 0%nat ltac:(cbn; lia) eq_refl). cbn [nth] in Hlab.
      rewrite (map_ext _ (fun l => if Nat.eqb v l then 1 else 0)%nat) by (intro l; rewrite andb_true_r; reflexivity).
      apply indicator_sum. lia.
    + rewrite (map_ext _ (fun _ => 0%nat)) by (intro l; rewrite andb_false_r; reflexivity).
      induction (seq 1 k); [reflexivity|cbn; assumption].
Qed.

Lemma nth_map_seq {B} (F : nat -> B) d : forall k s i, (i < k)%nat -> nth i (map F (seq s k)) d = F (s + i)%nat.
Proof.
  induction k as [|k IH]; intros s i Hi; [lia|]. cbn [seq map]. destruct i as [|i]; cbn [nth]; [f_equal; lia|].
  rewrite IH by lia. f_equal. lia.
Qed.

(** every label that scipy uses for some foreground cell gives a positive size *)
Theorem cluster_positive flat lab k l : length lab = length flat -> (1 <= l <= k)%nat ->
  (exists i, (i < length flat)%nat /\ nth i flat false = true /\ nth i lab 0%nat = l) ->
  (0 < nth (l - 1) (cluster_sizes flat lab k) 0)%nat.
Proof.
  intros Hl Hk (i & Hi & Ht & Hlab). unfold cluster_sizes.
  rewrite nth_map_seq by lia. replace (1 + (l - 1))%nat with l by lia.
  clear Hk. revert lab i Hl Hi Ht Hlab. induction flat as [|b flat IH]; intros lab i Hl Hi Ht Hlab; [cbn in Hi; lia|].
  destruct lab as [|v lab]; [discriminate|]. cbn [combine filter fst].
  destruct i as [|i].
  - cbn [nth] in Ht, Hlab. subst b v. rewrite Nat.eqb_refl. cbn [map snd]. rewrite count_cons. lia.
  - assert (0 < count (map snd (filter (fun p => Nat.eqb (fst p) l) (combine lab flat))))%nat.
    { apply (IH lab i); [cbn in Hl; lia|cbn in Hi; lia|exact Ht|exact Hlab]. }
    destruct (Nat.eqb v l); cbn [map snd]; [rewrite count_cons; lia|assumption].
Qed.

(* ---------- accumulative metrics ---------- *)
Lemma filtered_bounds col : forall vals, Forall (fun v => 0 <= v) vals -> 0 <= QL.qsum (filtered col vals) <= QL.qsum vals.
Proof.
  unfold filtered. induction col as [|b col IH]; intros vals Hv.
  - cbn [combine map]. rewrite qsum_nil. split; [lra|].
    induction Hv as [|v vals Hv0 _ IHv]; [rewrite qsum_nil; lra|rewrite qsum_cons; lra].
  - destruct vals as [|v vals]; [cbn [combine map]; rewrite qsum_nil; lra|].
    inversion Hv as [|? ? Hv0 Hv']; subst. cbn [combine map fst snd]. rewrite !qsum_cons.
    destruct (IH vals Hv') as [A B]. destruct b; split; lra.
Qed.

(** percentage of the total amount over the time steps that meet the condition lies in [0, 100] *)
Theorem percent_range col vals : Forall (fun v => 0 <= v) vals -> 0 < QL.qsum vals ->
  0 <= percent_of_total col vals <= 100.
Proof.
  intros Hv Hp. unfold percent_of_total. destruct (filtered_bounds col vals Hv) as [A B]. split.
  - apply Qle_shift_div_l; [exact Hp|]. lra.
  - apply Qle_shift_div_r; [exact Hp|]. lra.
Qed.

(** the filtered series keeps exactly the values at the time steps that meet the condition *)
Theorem filtered_spec col vals k : length col = length vals -> (k < length vals)%nat ->
  nth k (filtered col vals) 0 = if nth k col false then nth k vals 0 else 0.
Proof.
  unfold filtered. revert vals k. induction col as [|b col IH]; intros [|v vals] k Hl Hk; try discriminate; [cbn in Hk; lia|].
  cbn [combine map fst snd]. destruct k as [|k]; [reflexivity|]. cbn [nth]. apply IH; cbn in *; lia.
Qed.
