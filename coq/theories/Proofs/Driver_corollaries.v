(** Corollaries of driver_spec: defined everywhere (C07), seasonal locality (C08). *)
From Coq Require Import ZArith List Bool Lia ZifyBool Sorted.
From IV Require Import NP NPFacts WindowArith GenWindows Grid Grid_proofs Driver C07_proofs Driver_proofs.
Import ListNotations.
Open Scope Z_scope.
Ltac Zify.zify_post_hook ::= Z.to_euclidean_division_equations.

(* ---------- take ---------- *)
Lemma take_ext {T} (x y : list T) idx : length x = length y ->
  (forall j, In j idx -> 0 <= j -> nth_error x (Z.to_nat j) = nth_error y (Z.to_nat j)) ->
  NP.take x idx = NP.take y idx.
Proof.
  intros Hl H. unfold NP.take. induction idx as [|j idx IH]; [reflexivity|]. cbn [flat_map].
  rewrite IH by (intros j' Hj'; apply H; right; exact Hj'). f_equal.
  destruct (0 <=? j) eqn:E.
  - rewrite (H j (or_introl eq_refl)) by lia. reflexivity.
  - destruct (nth_error x (Z.to_nat j)); destruct (nth_error y (Z.to_nat j)); reflexivity.
Qed.


Lemma take_length_where {A} L (x : list A) (days : list Z) c : length x = length days ->
  length (NP.take x (days_indices_in_window L days c)) = length (days_indices_in_window L days c).
Proof.
  intro Hl. unfold NP.take.
  assert (G : forall idx, (forall j, In j idx -> 0 <= j < Z.of_nat (length x)) ->
     length (flat_map (fun i => match nth_error x (Z.to_nat i) with Some v => if 0 <=? i then [v] else [] | None => [] end) idx) = length idx).
  { induction idx as [|j idx IH]; intro Hr; [reflexivity|]. cbn [flat_map]. rewrite app_length, IH by (intros j' Hj'; apply Hr; right; exact Hj').
    specialize (Hr j (or_introl eq_refl)).
    destruct (nth_error x (Z.to_nat j)) eqn:E; [|apply nth_error_None in E; lia].
    destruct (0 <=? j) eqn:E0; [reflexivity|lia]. }
  apply G. intros j Hj. apply days_window_spec in Hj. rewrite Hl. tauto.
Qed.


Section DC.
Variable V : Type.
Variables (L S : Z).
Hypothesis HS : 0 < S.
Hypothesis HSL : S <= L.
Hypothesis Hodd : S mod 2 = 1.

(** C07: the returned series has a defined value at every time step *)
Theorem driver_defined_everywhere dA Wc : (forall d, In d dA -> 1 <= d <= 366) ->
  (forall c, In c (days_window_centers S dA) -> length (Wc c) = length (days_indices_in_window L dA c)) ->
  exists out, driver V L S dA Wc = Some out /\ length out = length dA /\
    forall k, 0 <= k < Z.of_nat (length dA) -> exists v, nth (Z.to_nat k) out None = Some v.
Proof.
  intros Hd Hl. destruct (driver_spec V L S dA Wc HS HSL Hd Hodd Hl) as (out & E & Hlen & H).
  exists out. split; [exact E|]. split; [exact Hlen|]. intros k Hk.
  destruct (H k Hk) as (c & v & _ & _ & _ & _ & _ & Hv). exists v. exact Hv.
Qed.

(* ---------- circular distance over the 366-day cycle ---------- *)
Definition circ (a b : Z) : Z := Z.min ((a - b) mod 366) ((b - a) mod 366).

Lemma window_within_halfwidth c v : L / 2 < 183 ->
  In v (NP.replace_eq (NP.zmod_list (NP.arange (c - L / 2) (c + L / 2 + 1) 1) (365 + 1)) 0 366) ->
  circ v c <= L / 2.
Proof.
  intros HL H. apply window_range_sound in H. destruct H as (Hv & w & Hw & Hm). unfold circ. lia.
Qed.

Lemma circ_triangle a b c : circ a c <= circ a b + circ b c.
Proof. unfold circ. lia. Qed.

Lemma circ_of_close a b h : 0 <= h -> a - h <= b <= a + h -> h < 183 -> circ b a <= h.
Proof. intros. unfold circ. lia. Qed.

(** C08: the value at time step k depends only on the inputs inside the window of the centre that
    adjusts k — in particular only on time steps whose day of year is within L/2 + S/2 (circularly)
    of k's day *)
Section Locality.
Variable T : Type.
Variables (dobs dhist dfut : list Z) (obs hist fut obs' hist' fut' : list T).
Variable W : list T -> list T -> list T -> list V.
Hypothesis Hdf : forall d, In d dfut -> 1 <= d <= 366.
Hypothesis HWlen : forall o h f, length (W o h f) = length f.
Hypothesis Hlo : length obs = length dobs.  Hypothesis Hlo' : length obs' = length dobs.
Hypothesis Hlh : length hist = length dhist. Hypothesis Hlh' : length hist' = length dhist.
Hypothesis Hlf : length fut = length dfut.  Hypothesis Hlf' : length fut' = length dfut.
Hypothesis HL183 : L / 2 + S / 2 < 183.

Definition near (days : list Z) (j : Z) (d : Z) : Prop := circ (nth (Z.to_nat j) days 0) d <= L / 2 + S / 2.

Theorem window_locality k :
  0 <= k < Z.of_nat (length dfut) ->
  let d := nth (Z.to_nat k) dfut 0 in
  (forall j, 0 <= j -> near dobs j d -> nth_error obs (Z.to_nat j) = nth_error obs' (Z.to_nat j)) ->
  (forall j, 0 <= j -> near dhist j d -> nth_error hist (Z.to_nat j) = nth_error hist' (Z.to_nat j)) ->
  (forall j, 0 <= j -> near dfut j d -> nth_error fut (Z.to_nat j) = nth_error fut' (Z.to_nat j)) ->
  exists out out', driver_rw V L S dobs dhist dfut obs hist fut W = Some out /\
                   driver_rw V L S dobs dhist dfut obs' hist' fut' W = Some out' /\
                   nth (Z.to_nat k) out None = nth (Z.to_nat k) out' None.
Proof.
  intros Hk d Ao Ah Af. unfold driver_rw.
  set (Wc := fun c => W (NP.take obs (days_indices_in_window L dobs c)) (NP.take hist (days_indices_in_window L dhist c)) (NP.take fut (days_indices_in_window L dfut c))).
  set (Wc' := fun c => W (NP.take obs' (days_indices_in_window L dobs c)) (NP.take hist' (days_indices_in_window L dhist c)) (NP.take fut' (days_indices_in_window L dfut c))).
  assert (Hl : forall c, In c (days_window_centers S dfut) -> length (Wc c) = length (days_indices_in_window L dfut c)).
  { intros c _. unfold Wc. rewrite HWlen. apply take_length_where. exact Hlf. }
  assert (Hl' : forall c, In c (days_window_centers S dfut) -> length (Wc' c) = length (days_indices_in_window L dfut c)).
  { intros c _. unfold Wc'. rewrite HWlen. apply take_length_where. exact Hlf'. }
  destruct (driver_spec V L S dfut Wc HS HSL Hdf Hodd Hl) as (out & E & _ & H).
  destruct (driver_spec V L S dfut Wc' HS HSL Hdf Hodd Hl') as (out' & E' & _ & H').
  exists out, out'. split; [exact E|]. split; [exact E'|].
  destruct (H k Hk) as (c & v & Hc & Ka & Kw & Uq & Ev & Hv).
  destruct (H' k Hk) as (c' & v' & Hc' & Ka' & _ & _ & Ev' & Hv').
  assert (c' = c) by (apply Uq; assumption). subst c'.
  rewrite Hv, Hv'. rewrite <- Ev, <- Ev'. f_equal. f_equal.
  (* the window results coincide because the slices coincide *)
  apply days_adjust_spec in Ka. destruct Ka as [_ Kd]. cbv zeta in Kd. fold d in Kd.
  assert (Close : forall days j, In j (days_indices_in_window L days c) -> near days j d).
  { intros days j Hj. apply days_window_spec in Hj. destruct Hj as [_ Hj].
    unfold near. apply Z.le_trans with (circ (nth (Z.to_nat j) days 0) c + circ c d); [apply circ_triangle|].
    assert (circ (nth (Z.to_nat j) days 0) c <= L / 2) by (apply window_within_halfwidth; [lia|exact Hj]).
    assert (circ c d <= S / 2) by (apply circ_of_close; lia). lia. }
  unfold Wc, Wc'. f_equal.
  - apply take_ext; [congruence|]. intros j Hj Hj0. apply Ao; [exact Hj0|apply Close; exact Hj].
  - apply take_ext; [congruence|]. intros j Hj Hj0. apply Ah; [exact Hj0|apply Close; exact Hj].
  - apply take_ext; [congruence|]. intros j Hj Hj0. apply Af; [exact Hj0|apply Close; exact Hj].
Qed.
End Locality.
End DC.
