(** C06 instantiated at QuantileDeltaMapping (REGENERATED _apply_debiasing_steps, fits computed from the window's obs
    and cm_hist; absolute trend preservation, either ECDF method, year window switched off): order-equivariant for
    every distribution whose fit does not depend on the order of the sample. *)
From Coq Require Import QArith ZArith List Bool String Permutation.
From IV Require Import NP QL Dist Ecdf GenWindows GenUtils GenScalars Driver Driver_proofs Driver_corollaries C06_proofs C06_instances QListFacts Affine_debiasers SortedPerm.
Import ListNotations.

Section QDM.
Variables (L S : Z).
Hypothesis HS : (0 < S)%Z.
Hypothesis HSL : (S <= L)%Z.
Hypothesis Hodd : (S mod 2 = 1)%Z.
Context {P : Type} (D : dist P).
Hypothesis fit_perm : forall l l', Permutation l l' -> fit D l = fit D l'.
Variables (em : ecdf_method) (t cth : Q).
Hypothesis Hem : em = step_function \/ em = linear_interpolation.

Definition W_qdm := fun o h f => unwrap (qdm_apply_debiasing_steps em t "absolute" D false cth f (fit D o) (fit D h)).

Theorem qdm_order_equivariant : order_equivariant L S W_qdm.
Proof.
  apply (of_pointwise L S HS HSL Hodd _ (fun o h f x =>
     (x + ppf D (fit D o) (GenUtils.threshold_cdf_vals (ecdf em f x) t) - ppf D (fit D h) (GenUtils.threshold_cdf_vals (ecdf em f x) t))%Q)).
  - intros o h f. unfold W_qdm. rewrite (qdm_abs_form D em t cth). cbn [unwrap]. unfold qdm_tau. rewrite !map_map.
    rewrite (zip2_maps (fun u v => (u - v)%Q) (fun u v => (u + v)%Q)). reflexivity.
  - intros o o' h h' f f' x Po Ph Pf. rewrite (fit_perm _ _ Po), (fit_perm _ _ Ph), (ecdf_perm em f f' x Hem Pf). reflexivity.
Qed.
End QDM.
