(** C02 for ISIMIP's window pipeline (unbounded additive variable): a constant added to cm_future — exactly or up to
    == — comes out of steps 3, 5, 6, 7 as the same constant added to every value.  Relational statements throughout
    (AR 1 c x x' := x' == x + c up to ring normalisation), for any distribution whose fit behaves like a location-scale
    family under a shift (fit_unit_change D 1 c), satisfiable by the rational family. *)
From Coq Require Import QArith ZArith List Bool Lia Lqa.
From IV Require Import NP NPFacts QL QListFacts QFacts Dist Ecdf GenUtils GenWindows Grid Driver Driver_rel YearsDriver_proofs C16_compose Affine C02_proofs ApplyLocation_units ApplyLocation_param
     IsimipStep3 IsimipStep3_proofs IsimipStep5 IsimipStep5_proofs IsimipWindow RatLS RatLS_proofs.
Import ListNotations.
Open Scope Q_scope.

(* ---------- step 3, relationally ---------- *)
Definition SH (c : Q) (l l' : list Q) : Prop := Forall2 (fun b b' => b' == b + c) l l'.

Lemma ARL_SH c l l' : ARL 1 c l l' <-> SH c l l'.
Proof.
  unfold ARL, SH, AR. split; intro H; induction H; constructor; auto; lra.
Qed.

Lemma SH_eql c l l' : SH c l l' -> eql l' (map (fun b => b + c) l).
Proof. induction 1; cbn [map]; constructor; assumption. Qed.

Lemma SH_length c l l' : SH c l l' -> length l = length l'.
Proof. induction 1; cbn; congruence. Qed.

Lemma select_SH c : forall l l' m, SH c l l' -> SH c (NP.select l m) (NP.select l' m).
Proof.
  intros l l' m H. revert m. induction H as [|b b' l l' Hb Hl IH]; intro m; [destruct m; constructor|].
  destruct m as [|[|] m]; cbn [NP.select]; [constructor | constructor; [exact Hb | apply IH] | apply IH].
Qed.

Lemma qmean_SH c l l' : l <> [] -> SH c l l' -> QL.qmean l' == QL.qmean l + c.
Proof.
  intros Hne H. pose proof (SH_eql c l l' H) as E.
  rewrite !qmean_spec, (qsum_eql _ _ E), qsum_shift.
  assert (L : QL.qlen l' = QL.qlen l) by (unfold QL.qlen; rewrite (SH_length c l l' H); reflexivity).
  rewrite L. pose proof (qlen_pos l Hne). field. lra.
Qed.

Lemma yearly_means_SH c years x x' : length x = length years -> SH c x x' ->
  eql (yearly_means years x') (map (fun v => v + c) (yearly_means years x)).
Proof.
  intros L H. unfold yearly_means. rewrite map_map. apply Forall2_map_both. intros y Hy.
  apply qmean_SH; [|apply select_SH; exact H].
  apply (vals_of_year_nonempty years x y L). apply unique_in. exact Hy.
Qed.

Lemma annual_trend_SH sig c years x x' : years <> [] -> length x = length years -> SH c x x' ->
  Forall2 (fun p p' => fst p = fst p' /\ snd p == snd p') (annual_trend sig years x') (annual_trend sig years x).
Proof.
  intros Hne L H. unfold annual_trend. cbv zeta.
  assert (Hs : ols_slope (map inject_Z (NP.unique years)) (yearly_means years x')
            == ols_slope (map inject_Z (NP.unique years)) (yearly_means years x)).
  { apply (ols_slope_shift c).
    - intro E0. apply map_eq_nil in E0. apply (unique_nonempty years Hne). exact E0.
    - unfold yearly_means. rewrite !map_length. reflexivity.
    - apply yearly_means_SH; assumption. }
  set (s1 := ols_slope (map inject_Z (NP.unique years)) (yearly_means years x')) in *.
  set (s2 := ols_slope (map inject_Z (NP.unique years)) (yearly_means years x)) in *.
  set (tm := QL.qsum (map inject_Z (NP.unique years)) / QL.qlen (map inject_Z (NP.unique years))).
  clearbody s1 s2 tm.
  induction (NP.unique years) as [|y uy IH]; cbn [map]; constructor; [|exact IH].
  cbn [fst snd]. split; [reflexivity|]. destruct sig; [rewrite Hs; reflexivity | reflexivity].
Qed.

Lemma step3_trend_SH sig c years x x' : years <> [] -> length x = length years -> SH c x x' ->
  eql (step3_trend sig years x') (step3_trend sig years x).
Proof.
  intros Hne L H. unfold step3_trend. apply Forall2_map_both. intros y _.
  apply lookup_year_eq. apply (annual_trend_SH sig c); assumption.
Qed.

Lemma zip_sub_SH c : forall a a' b b', SH c a a' -> eql b' b ->
  SH c (QL.zip2 (fun u v => Qred (u - v)) a b) (QL.zip2 (fun u v => Qred (u - v)) a' b').
Proof.
  intros a a' b b' H. revert b b'. induction H as [|x x' a a' Hx Ha IH]; intros b b' E.
  - destruct b, b'; constructor.
  - inversion E as [|y' y b'' b0 Hy Hr]; subst; cbn [QL.zip2]; constructor.
    + rewrite !Qred_correct, Hx, Hy. ring.
    + apply IH. exact Hr.
Qed.

Theorem step3_remove_SH sig c years x x' : years <> [] -> length x = length years -> SH c x x' ->
  SH c (step3_remove sig years x) (step3_remove sig years x').
Proof.
  intros Hne L H. unfold step3_remove. apply zip_sub_SH; [exact H|]. apply (step3_trend_SH sig c); assumption.
Qed.

(* ---------- step 5, additive, relationally ---------- *)
Lemma step5_additive_rel em im lb ub c oh oh' ch ch' cf cf' : em = step_function \/ em = linear_interpolation ->
  oh <> [] -> ch <> [] -> cf <> [] -> ARL 1 0 oh oh' -> ARL 1 0 ch ch' -> ARL 1 c cf cf' ->
  ARL 1 c (step5 TAdditive em im lb ub oh ch cf) (step5 TAdditive em im lb ub oh' ch' cf').
Proof.
  intros Hem No Nh Nf Ho Hh Hf. unfold step5. assert (H1 : 0 < 1) by lra.
  assert (G : forall l l', ARL 1 0 l l' -> forall g g' : Q -> Q, (forall x x', In x l -> AR 1 0 x x' -> AR 1 c (g x) (g' x')) -> ARL 1 c (map g l) (map g' l')).
  { intros l l' H g g' Hg. induction H as [|x x' l l' Hx Hl IH]; [constructor|]. cbn [map]. constructor.
    - apply Hg; [left; reflexivity | exact Hx].
    - apply IH. intros y y' Hy. apply Hg. right; exact Hy. }
  apply (G oh oh' Ho). intros x x' _ Hx. cbv zeta. unfold step5_value.
  rewrite (ecdf_rel 1 0 H1 em oh oh' x x' Hem Ho Hx).
  pose proof (ecdf_range em oh x Hem No) as Rg.
  pose proof (iecdf_rel 1 0 H1 im ch ch' _ Hh Nh Rg) as R1. pose proof (iecdf_rel 1 c H1 im cf cf' _ Hf Nf Rg) as R2.
  unfold AR in *. rewrite Hx, R1, R2. ring.
Qed.

(* ---------- the composed window ---------- *)
Section Window.
Context {P : Type} (D : dist P).
Variable c : Q.
Variable good : list Q -> Prop.
Hypothesis Hfit_c : fit_unit_change D 1 c good.
Hypothesis good_ne : forall l, good l -> l <> [].
Variables (em : ecdf_method) (im : iecdf_method) (thr : Q).
Hypothesis Hem : em = step_function \/ em = linear_interpolation.

Lemma step6_unbounded_rel ofu ofu' f f' : good ofu -> good f -> ARL 1 c ofu ofu' -> ARL 1 c f f' ->
  ARL 1 c (step6_unbounded D thr ofu f) (step6_unbounded D thr ofu' f').
Proof.
  intros No Nf Ho Hf. unfold step6_unbounded.
  destruct (Hfit_c ofu ofu' No Ho) as [_ Po]. destruct (Hfit_c f f' Nf Hf) as [Cf _].
  apply (ARL_map 1 c); [exact Hf|]. intros x x' _ Hx. unfold AR.
  apply Po. apply thr_proper. symmetry. apply Cf. exact Hx.
Qed.

Lemma zip_add_rel : forall m m' t t', ARL 1 c m m' -> eql t' t ->
  ARL 1 c (QL.zip2 (fun u v => Qred (u + v)) m t) (QL.zip2 (fun u v => Qred (u + v)) m' t').
Proof.
  intros m m' t t' H. revert t t'. induction H as [|x x' m m' Hx Hm IH]; intros t t' E.
  - destruct t, t'; constructor.
  - inversion E as [|y' y t'' t0 Hy Hr]; subst; cbn [QL.zip2]; constructor.
    + unfold AR in *. rewrite !Qred_correct, Hx, Hy. ring.
    + apply IH. exact Hr.
Qed.

(** a constant added to cm_future (the other two series unchanged) is added to every debiased value of the window *)
Theorem isimip_window_trend so sh sf yo yh yf obs hist fut fut' :
  yf <> [] -> length fut = length yf ->
  step3_remove so yo obs <> [] -> step3_remove sh yh hist <> [] ->
  good (step3_remove sf yf fut) ->
  good (step5 TAdditive em im 0 0 (step3_remove so yo obs) (step3_remove sh yh hist) (step3_remove sf yf fut)) ->
  ARL 1 c fut fut' ->
  ARL 1 c (isimip_window D em im thr so sh sf yo yh yf obs hist fut) (isimip_window D em im thr so sh sf yo yh yf obs hist fut').
Proof.
  intros Hyf Lf No Nh Gf Gof Hf. unfold isimip_window. cbv zeta. unfold step7_restore.
  pose proof (proj1 (ARL_SH c fut fut') Hf) as Sf.
  assert (R3 : ARL 1 c (step3_remove sf yf fut) (step3_remove sf yf fut')).
  { apply ARL_SH. apply step3_remove_SH; assumption. }
  assert (T3 : eql (step3_trend sf yf fut') (step3_trend sf yf fut)) by (apply (step3_trend_SH sf c); assumption).
  assert (R5 : ARL 1 c (step5 TAdditive em im 0 0 (step3_remove so yo obs) (step3_remove sh yh hist) (step3_remove sf yf fut))
                       (step5 TAdditive em im 0 0 (step3_remove so yo obs) (step3_remove sh yh hist) (step3_remove sf yf fut'))).
  { apply step5_additive_rel; try assumption; try apply ARL_id. apply good_ne; exact Gf. }
  apply zip_add_rel; [|exact T3]. apply step6_unbounded_rel; assumption.
Qed.
End Window.

(** the hypotheses are satisfiable: the rational location-scale family *)
Theorem isimip_window_trend_ratls c em im thr so sh sf yo yh yf obs hist fut fut' :
  em = step_function \/ em = linear_interpolation ->
  yf <> [] -> length fut = length yf ->
  step3_remove so yo obs <> [] -> step3_remove sh yh hist <> [] ->
  ratls_good (step3_remove sf yf fut) ->
  ratls_good (step5 TAdditive em im 0 0 (step3_remove so yo obs) (step3_remove sh yh hist) (step3_remove sf yf fut)) ->
  ARL 1 c fut fut' ->
  ARL 1 c (isimip_window ratls em im thr so sh sf yo yh yf obs hist fut) (isimip_window ratls em im thr so sh sf yo yh yf obs hist fut').
Proof.
  intro Hem. apply (isimip_window_trend ratls c ratls_good); [apply ratls_fit_unit_change; lra | intros l [H _]; exact H | exact Hem].
Qed.

(** non-vacuity: a concrete window (two years each) meeting every hypothesis, with a trend removed from cm_future *)
Definition ex_yo : list Z := [2000; 2000; 2001; 2001]%Z.
Definition ex_obs : list Q := [1; 3; 2; 5].
Definition ex_hist : list Q := [2; 6; 3; 4].
Definition ex_fut : list Q := [1; 4; 6; 9].
Lemma isimip_window_example :
  ex_yo <> [] /\ length ex_fut = length ex_yo /\
  step3_remove false ex_yo ex_obs <> [] /\ step3_remove false ex_yo ex_hist <> [] /\
  ratls_good (step3_remove true ex_yo ex_fut) /\
  ratls_good (step5 TAdditive linear_interpolation linear 0 0 (step3_remove false ex_yo ex_obs) (step3_remove false ex_yo ex_hist) (step3_remove true ex_yo ex_fut)) /\
  step3_trend true ex_yo ex_fut = [(-10 # 4); (-10 # 4); (10 # 4); (10 # 4)].
Proof.
  split; [discriminate|]. split; [reflexivity|].
  split; [intro H; vm_compute in H; discriminate|]. split; [intro H; vm_compute in H; discriminate|].
  split; [split; intro H; vm_compute in H; discriminate|].
  split; [split; intro H; vm_compute in H; discriminate|].
  vm_compute. reflexivity.
Qed.

(* ---------- through the day-window loop of ISIMIP.apply_location ---------- *)
(** dated values (value, year): the loop hands each window the slices of values AND of years *)
Definition PR (c : Q) (p p' : Q * Z) : Prop := snd p' = snd p /\ fst p' == fst p + c.

Lemma PR_fst c l l' : Forall2 (PR c) l l' -> ARL 1 c (map fst l) (map fst l').
Proof. induction 1 as [|p p' l l' [_ Hv] _ IH]; cbn [map]; constructor; [unfold AR; lra | exact IH]. Qed.
Lemma PR_snd c l l' : Forall2 (PR c) l l' -> map snd l' = map snd l.
Proof. induction 1 as [|p p' l l' [Hy _] _ IH]; cbn [map]; [reflexivity | rewrite Hy, IH; reflexivity]. Qed.

Section Loop.
Context {P : Type} (D : dist P).
Variable c : Q.
Variable good : list Q -> Prop.
Hypothesis Hfit_c : fit_unit_change D 1 c good.
Hypothesis good_ne : forall l, good l -> l <> [].
Variables (em : ecdf_method) (im : iecdf_method) (thr : Q).
Hypothesis Hem : em = step_function \/ em = linear_interpolation.
(** the significance decision of step 3 as a function of the window's dated values; invariant under a shift of the
    values (the p-value of the regression of annual means on years is) *)
Variable sigf : list Q -> list Z -> bool.
Hypothesis sig_shift : forall x x' y, ARL 1 c x x' -> sigf x' y = sigf x y.

Definition W_isimip (o h f : list (Q * Z)) : list Q :=
  isimip_window D em im thr (sigf (map fst o) (map snd o)) (sigf (map fst h) (map snd h)) (sigf (map fst f) (map snd f))
    (map snd o) (map snd h) (map snd f) (map fst o) (map fst h) (map fst f).

(** what a window must hold for the theorem to apply *)
Definition window_ok (o h f : list (Q * Z)) : Prop :=
  f <> [] /\
  step3_remove (sigf (map fst o) (map snd o)) (map snd o) (map fst o) <> [] /\
  step3_remove (sigf (map fst h) (map snd h)) (map snd h) (map fst h) <> [] /\
  good (step3_remove (sigf (map fst f) (map snd f)) (map snd f) (map fst f)) /\
  good (step5 TAdditive em im 0 0 (step3_remove (sigf (map fst o) (map snd o)) (map snd o) (map fst o))
              (step3_remove (sigf (map fst h) (map snd h)) (map snd h) (map fst h))
              (step3_remove (sigf (map fst f) (map snd f)) (map snd f) (map fst f))).

Lemma W_isimip_rel o h f f' : window_ok o h f -> Forall2 (PR c) f f' -> ARL 1 c (W_isimip o h f) (W_isimip o h f').
Proof.
  intros (Nf & No & Nh & Gf & Gof) Hf. unfold W_isimip.
  rewrite (PR_snd c f f' Hf). rewrite (sig_shift _ _ _ (PR_fst c f f' Hf)).
  apply (isimip_window_trend D c good Hfit_c good_ne em im thr Hem); try assumption.
  - intro E. apply map_eq_nil in E. exact (Nf E).
  - rewrite !map_length. reflexivity.
  - apply PR_fst. exact Hf.
Qed.

(** C02 for ISIMIP (unbounded additive variable) through the running-window loop: a constant added to every cm_future
    value (dates unchanged) is added to every debiased value *)
Theorem isimip_trend_preserved_through_windows L S dobs dhist dfut (obs hist fut fut' : list (Q * Z)) :
  (forall ci, In ci (days_use S dfut) ->
     window_ok (NP.take obs (days_indices_in_window L dobs (fst ci))) (NP.take hist (days_indices_in_window L dhist (fst ci)))
               (NP.take fut (days_indices_in_window L dfut (fst ci)))) ->
  Forall2 (PR c) fut fut' ->
  orel (Forall2 (orel (AR 1 c))) (driver_rw Q L S dobs dhist dfut obs hist fut W_isimip) (driver_rw Q L S dobs dhist dfut obs hist fut' W_isimip).
Proof.
  intros Hok Hf. unfold driver_rw. apply driver_rel. intros ci Hci.
  apply W_isimip_rel; [apply Hok; exact Hci | apply take_rel; exact Hf].
Qed.
End Loop.
