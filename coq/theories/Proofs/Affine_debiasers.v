(** Unit-change equivariance (C04) and trend preservation (C02) of the REGENERATED empirical-CDF methods:
    CDFt mapping, non-parametric QuantileMapping (all detrending modes), QuantileDeltaMapping. *)
From Coq Require Import QArith ZArith List Bool String Lia Lqa.
From IV Require Import QL Dist Ecdf QFacts QListFacts C16_compose Affine GenUtils GenScalars.
Import ListNotations.
Open Scope Q_scope.

Definition good_ecdf (m : ecdf_method) : Prop := m = step_function \/ m = linear_interpolation.

Lemma map_nonempty' {A B} (f : A -> B) l : l <> [] -> map f l <> [].
Proof. destruct l; [congruence|discriminate]. Qed.

(* ---------- CDFt ---------- *)
Section CDFt.
Variables (em : ecdf_method) (im : iecdf_method).
Hypothesis Hem : good_ecdf em.

(** the four-fold composition as a point function of the (shifted) samples *)
Definition cdft_point (obs hs fs : list Q) (x : Q) : Q :=
  iecdf im fs (ecdf em hs (iecdf im obs (ecdf em fs x))).

Lemma cdft_additive_form obs hist fut :
  cdft_apply_mapping "additive" em im obs hist fut =
  Some (let s := QL.qmean obs - QL.qmean hist in
        let hs := map (fun x => x + s) hist in let fs := map (fun x => x + s) fut in map (cdft_point obs hs fs) fs).
Proof. unfold cdft_apply_mapping, cdft_point. cbn [String.eqb Ascii.eqb Bool.eqb]. cbv zeta. rewrite !map_map. reflexivity. Qed.

Lemma cdft_point_rel a b (Ha : 0 < a) obs obs' hs hs' fs fs' x x' :
  ARL a b obs obs' -> ARL a b hs hs' -> ARL a b fs fs' -> AR a b x x' -> obs <> [] -> hs <> [] -> fs <> [] ->
  AR a b (cdft_point obs hs fs x) (cdft_point obs' hs' fs' x').
Proof.
  intros Ho Hh Hf Hx No Nh Nf. unfold cdft_point.
  rewrite (ecdf_rel a b Ha em fs fs' x x' Hem Hf Hx).
  assert (R1 : 0 <= ecdf em fs x <= 1) by (apply ecdf_range; assumption).
  pose proof (iecdf_rel a b Ha im obs obs' _ Ho No R1) as Q1.
  rewrite (ecdf_rel a b Ha em hs hs' _ _ Hem Hh Q1).
  apply (iecdf_rel a b Ha); [exact Hf|exact Nf|]. apply ecdf_range; assumption.
Qed.

(** C04: all three series in another unit *)
Theorem cdft_unit_change a b : 0 < a -> forall obs obs' hist hist' fut fut',
  ARL a b obs obs' -> ARL a b hist hist' -> ARL a b fut fut' -> obs <> [] -> hist <> [] -> fut <> [] ->
  exists out out', cdft_apply_mapping "additive" em im obs hist fut = Some out /\
                   cdft_apply_mapping "additive" em im obs' hist' fut' = Some out' /\ ARL a b out out'.
Proof.
  intros Ha obs obs' hist hist' fut fut' Ho Hh Hf No Nh Nf.
  rewrite !cdft_additive_form. eexists. eexists. split; [reflexivity|]. split; [reflexivity|]. cbv zeta.
  set (s := QL.qmean obs - QL.qmean hist). set (s' := QL.qmean obs' - QL.qmean hist').
  assert (Es : s' == a * s).
  { unfold s, s'. pose proof (qmean_rel a b obs obs' Ho No) as M1. pose proof (qmean_rel a b hist hist' Hh Nh) as M2.
    unfold AR in M1, M2. rewrite M1, M2. ring. }
  assert (Sh : forall l l', ARL a b l l' -> ARL a b (map (fun x => x + s) l) (map (fun x => x + s') l')).
  { intros l l' H. apply (ARL_map a b); [exact H|]. intros x x' _ Hx. unfold AR in *. rewrite Hx, Es. ring. }
  apply (ARL_map a b); [apply Sh; exact Hf|]. intros x x' _ Hx.
  apply cdft_point_rel; try assumption; try (apply Sh; assumption); apply map_nonempty'; assumption.
Qed.

(** C02: a constant added to cm_future alone passes through unchanged *)
Theorem cdft_trend_preserving c obs hist fut : obs <> [] -> hist <> [] -> fut <> [] ->
  exists out out', cdft_apply_mapping "additive" em im obs hist fut = Some out /\
                   cdft_apply_mapping "additive" em im obs hist (map (fun x => x + c) fut) = Some out' /\ ARL 1 c out out'.
Proof.
  intros No Nh Nf. rewrite !cdft_additive_form. eexists. eexists. split; [reflexivity|]. split; [reflexivity|]. cbv zeta.
  set (s := QL.qmean obs - QL.qmean hist). rewrite (map_map (fun x => x + c) (fun x => x + s) fut).
  assert (H1 : 0 < 1) by lra.
  assert (Hf : ARL 1 c (map (fun x => x + s) fut) (map (fun x => x + c + s) fut)).
  { rewrite <- (map_id fut) at 1. rewrite map_map. clear Nf. induction fut as [|x f IH]; [constructor|]. cbn [map]. constructor; [unfold AR; ring|exact IH]. }
  apply (ARL_map 1 c); [exact Hf|]. intros x x' _ Hx. unfold cdft_point.
  rewrite (ecdf_rel 1 c H1 em _ _ x x' Hem Hf Hx).
  apply (iecdf_rel 1 c H1); [exact Hf|apply map_nonempty'; exact Nf|]. apply ecdf_range; [exact Hem|apply map_nonempty'; exact Nh].
Qed.
End CDFt.

(* ---------- non-parametric QuantileMapping ---------- *)
Section QMnonparam.
Context {P : Type} (D : dist P).
Variable thr : Q.

Lemma qm_nonparam_form det obs hist fut :
  qm_apply_on_window det "nonparametric" D thr obs hist fut =
  if String.eqb det "additive" then
    Some (let d := QL.qmean fut - QL.qmean hist in map (fun x => qmap_extrap step_function inverted_cdf hist obs (x - d) + d) fut)
  else if String.eqb det "multiplicative" then
    Some (let d := QL.qmean fut / QL.qmean hist in map (fun x => qmap_extrap step_function inverted_cdf hist obs (x / d) * d) fut)
  else if String.eqb det "no_detrending" then Some (map (qmap_extrap step_function inverted_cdf hist obs) fut)
  else None.
Proof.
  unfold qm_apply_on_window, qm_standard_qm. cbn [String.eqb Ascii.eqb Bool.eqb].
  destruct (String.eqb det "additive"); [cbv zeta; rewrite !map_map; reflexivity|].
  destruct (String.eqb det "multiplicative"); [cbv zeta; rewrite !map_map; reflexivity|].
  destruct (String.eqb det "no_detrending"); reflexivity.
Qed.

Let Hstep : step_function = step_function \/ step_function = linear_interpolation := or_introl eq_refl.

(** C04, no detrending and additive detrending *)
Theorem qm_nonparam_unit_change a b : 0 < a -> forall det, det = "no_detrending"%string \/ det = "additive"%string ->
  forall obs obs' hist hist' fut fut', ARL a b obs obs' -> ARL a b hist hist' -> ARL a b fut fut' -> obs <> [] -> hist <> [] -> fut <> [] ->
  exists out out', qm_apply_on_window det "nonparametric" D thr obs hist fut = Some out /\
                   qm_apply_on_window det "nonparametric" D thr obs' hist' fut' = Some out' /\ ARL a b out out'.
Proof.
  intros Ha det Hdet obs obs' hist hist' fut fut' Ho Hh Hf No Nh Nf. rewrite !qm_nonparam_form.
  destruct Hdet as [-> | ->]; cbn [String.eqb Ascii.eqb Bool.eqb]; eexists; eexists; (split; [reflexivity|]); (split; [reflexivity|]).
  - apply (ARL_map a b); [exact Hf|]. intros x x' _ Hx. apply (qmap_extrap_rel a b Ha); assumption.
  - cbv zeta. set (d := QL.qmean fut - QL.qmean hist). set (d' := QL.qmean fut' - QL.qmean hist').
    assert (Ed : d' == a * d).
    { unfold d, d'. pose proof (qmean_rel a b fut fut' Hf Nf) as M1. pose proof (qmean_rel a b hist hist' Hh Nh) as M2.
      unfold AR in M1, M2. rewrite M1, M2. ring. }
    apply (ARL_map a b); [exact Hf|]. intros x x' _ Hx.
    assert (X : AR a b (x - d) (x' - d')) by (unfold AR in *; rewrite Hx, Ed; ring).
    pose proof (qmap_extrap_rel a b Ha step_function inverted_cdf hist hist' obs obs' _ _ Hstep Hh Ho X Nh No) as R.
    unfold AR in *. rewrite R, Ed. ring.
Qed.

(** C02: with additive detrending a constant added to cm_future passes through unchanged *)
Theorem qm_nonparam_trend_preserving c obs hist fut : obs <> [] -> hist <> [] -> fut <> [] ->
  exists out out', qm_apply_on_window "additive" "nonparametric" D thr obs hist fut = Some out /\
                   qm_apply_on_window "additive" "nonparametric" D thr obs hist (map (fun x => x + c) fut) = Some out' /\ ARL 1 c out out'.
Proof.
  intros No Nh Nf. rewrite !qm_nonparam_form. cbn [String.eqb Ascii.eqb Bool.eqb]. eexists. eexists. split; [reflexivity|]. split; [reflexivity|]. cbv zeta.
  assert (H1 : 0 < 1) by lra.
  set (d := QL.qmean fut - QL.qmean hist). set (d' := QL.qmean (map (fun x => x + c) fut) - QL.qmean hist).
  assert (Ed : d' == d + c) by (unfold d, d'; rewrite (qmean_shift c fut Nf); ring).
  rewrite map_map.
  assert (Hid : forall l, ARL 1 0 l l) by (intro l; induction l; constructor; [unfold AR; ring|assumption]).
  clearbody d d'. clear Nf. induction fut as [|x f IH]; [constructor|]. cbn [map]. constructor; [|exact IH].
  assert (X : AR 1 0 (x - d) (x + c - d')) by (unfold AR; rewrite Ed; ring).
  pose proof (qmap_extrap_rel 1 0 H1 step_function inverted_cdf hist hist obs obs _ _ Hstep (Hid hist) (Hid obs) X Nh No) as R.
  unfold AR in *. rewrite R, Ed. ring.
Qed.
End QMnonparam.

(* ---------- QuantileDeltaMapping ---------- *)
Section QDM.
Context {P : Type} (D : dist P).
Variables (em : ecdf_method) (t cth : Q).
Hypothesis Hem : good_ecdf em.

Definition qdm_tau (f : list Q) : list Q := map (fun x => GenUtils.threshold_cdf_vals x t) (map (ecdf em f) f).

(** the quantiles of the future values within their own sample do not depend on the unit *)
Lemma qdm_tau_invariant a b : 0 < a -> forall f f', ARL a b f f' -> qdm_tau f' = qdm_tau f.
Proof.
  intros Ha f f' H. unfold qdm_tau. f_equal.
  assert (G : forall l l', ARL a b l l' -> map (ecdf em f') l' = map (ecdf em f) l).
  { intros l l' Hl. induction Hl as [|x x' l l' Hx Hl IH]; [reflexivity|]. cbn [map]. f_equal; [|exact IH].
    apply (ecdf_rel a b Ha); assumption. }
  apply G. exact H.
Qed.

Lemma qdm_abs_form f fo fh :
  qdm_apply_debiasing_steps em t "absolute" D false cth f fo fh =
  Some (QL.zip2 (fun u v => u - v) (QL.zip2 (fun u v => u + v) f (map (ppf D fo) (qdm_tau f))) (map (ppf D fh) (qdm_tau f))).
Proof. unfold qdm_apply_debiasing_steps, qdm_tau. cbn [String.eqb Ascii.eqb Bool.eqb]. reflexivity. Qed.

Lemma qdm_abs_rel a b f f' (tau : list Q) (po ph po' ph' : Q -> Q) : ARL a b f f' -> List.length tau = List.length f ->
  (forall p, po' p == a * po p + b) -> (forall p, ph' p == a * ph p + b) ->
  ARL a b (QL.zip2 (fun u v => u - v) (QL.zip2 (fun u v => u + v) f (map po tau)) (map ph tau))
          (QL.zip2 (fun u v => u - v) (QL.zip2 (fun u v => u + v) f' (map po' tau)) (map ph' tau)).
Proof.
  intros H L Ho Hh. revert tau L. induction H as [|x x' f f' Hx Hf IH]; intros tau L; [destruct tau; constructor|].
  destruct tau as [|p tau]; [discriminate|]. cbn [map QL.zip2]. constructor.
  - unfold AR in *. rewrite Hx, Ho, Hh. ring.
  - apply IH. cbn in L. congruence.
Qed.

(** C04 (absolute trend preservation): the fitted distributions enter through their quantile functions, which
    transform like the data for a location-scale family (hypothesis; satisfiable by RatLS, see C04_ratls_fit_affine) *)
Theorem qdm_abs_unit_change a b : 0 < a -> forall f f' fo fh fo' fh', ARL a b f f' ->
  (forall p, ppf D fo' p == a * ppf D fo p + b) -> (forall p, ppf D fh' p == a * ppf D fh p + b) ->
  exists out out', qdm_apply_debiasing_steps em t "absolute" D false cth f fo fh = Some out /\
                   qdm_apply_debiasing_steps em t "absolute" D false cth f' fo' fh' = Some out' /\ ARL a b out out'.
Proof.
  intros Ha f f' fo fh fo' fh' H Ho Hh. rewrite !qdm_abs_form. eexists. eexists. split; [reflexivity|]. split; [reflexivity|].
  rewrite (qdm_tau_invariant a b Ha f f' H). apply qdm_abs_rel; try assumption. unfold qdm_tau. rewrite !map_length. reflexivity.
Qed.

(** C02 for both modelled ECDF methods: a constant added to cm_future passes through *)
Theorem qdm_abs_trend_preserving c f fo fh :
  exists out out', qdm_apply_debiasing_steps em t "absolute" D false cth f fo fh = Some out /\
                   qdm_apply_debiasing_steps em t "absolute" D false cth (map (fun x => x + c) f) fo fh = Some out' /\ ARL 1 c out out'.
Proof.
  assert (H1 : 0 < 1) by lra.
  assert (Hf : ARL 1 c f (map (fun x => x + c) f)) by (induction f; constructor; [unfold AR; ring|assumption]).
  rewrite !qdm_abs_form. eexists. eexists. split; [reflexivity|]. split; [reflexivity|].
  rewrite (qdm_tau_invariant 1 c H1 f _ Hf).
  set (tau := qdm_tau f). assert (L : List.length tau = List.length f) by (unfold tau, qdm_tau; rewrite !map_length; reflexivity).
  clearbody tau. revert tau L. induction Hf as [|x x' l l' Hx Hl IH]; intros tau L; [destruct tau; constructor|].
  destruct tau as [|p tau]; [discriminate|]. cbn [map QL.zip2]. constructor; [unfold AR in *; rewrite Hx; ring|].
  apply IH. cbn in L. congruence.
Qed.
End QDM.
