(** C07: proofs about the REGENERATED window definitions (Gen/GenWindows.v). *)
From Coq Require Import ZArith List Bool Lia ZifyBool Sorted.
From IV Require Import NP NPFacts WindowArith GenWindows.
Import ListNotations.
Open Scope Z_scope.
Ltac Zify.zify_post_hook ::= Z.to_euclidean_division_equations.

(* ---------- the generated centre functions are the arithmetic of WindowArith ---------- *)
Lemma days_window_centers_eq S days :
  days_window_centers S days =
  NP.arange (first_center (NP.zmin days) (NP.zmax days) S) (NP.zmax days + 1) S.
Proof. reflexivity. Qed.

Lemma years_window_centers_eq S ys :
  years_window_centers S ys =
  if NP.zmax ys - NP.zmin ys + 1 <=? S then [NP.round_half (NP.zmin ys + NP.zmax ys)]
  else NP.arange (first_center (NP.zmin ys) (NP.zmax ys) S) (NP.zmax ys + 1) S.
Proof. reflexivity. Qed.

(* ---------- post-init: odd lengths, step <= length, or ValueError ---------- *)
Lemma days_post_init_spec L S : 0 < L -> 0 < S ->
  match days_post_init L S with
  | Some (L', S') => L' mod 2 = 1 /\ S' mod 2 = 1 /\ 0 < S' <= L' /\ L <= L' <= L + 1 /\ S <= S' <= S + 1
  | None => (if S mod 2 =? 0 then S + 1 else S) > (if L mod 2 =? 0 then L + 1 else L)
  end.
Proof.
  intros HL HS. unfold days_post_init. cbv zeta.
  destruct (L mod 2 =? 0) eqn:EL; destruct (S mod 2 =? 0) eqn:ES;
  match goal with |- context [if ?c then None else _] => destruct c eqn:EC end; lia.
Qed.

Lemma years_post_init_spec L S : 0 < L -> 0 < S ->
  match years_post_init L S with
  | Some (L', S') => L' mod 2 = 1 /\ S' mod 2 = 1 /\ 0 < S' <= L' /\ L <= L' <= L + 1 /\ S <= S' <= S + 1
  | None => (if S mod 2 =? 0 then S + 1 else S) > (if L mod 2 =? 0 then L + 1 else L)
  end.
Proof.
  intros HL HS. unfold years_post_init. cbv zeta.
  destruct (L mod 2 =? 0) eqn:EL; destruct (S mod 2 =? 0) eqn:ES;
  match goal with |- context [if ?c then None else _] => destruct c eqn:EC end; lia.
Qed.

(* ---------- index sets ---------- *)
Lemma days_adjust_spec S days c i :
  In i (days_indices_to_adjust S days c) <->
  0 <= i < Z.of_nat (length days) /\
  let d := nth (Z.to_nat i) days 0 in c - S / 2 <= d <= c + S / 2 /\ 0 <= d <= 366.
Proof.
  unfold days_indices_to_adjust. cbv zeta. rewrite where_isin_spec.
  rewrite filter_In, in_arange1. split; intros [H1 H2]; (split; [exact H1|]); lia.
Qed.

Lemma in_window_range L c d : 1 <= d <= 366 -> c - L / 2 <= d <= c + L / 2 ->
  In d (NP.replace_eq (NP.zmod_list (NP.arange (c - L / 2) (c + L / 2 + 1) 1) (365 + 1)) 0 366).
Proof.
  intros Hd Hc. unfold NP.replace_eq, NP.zmod_list. rewrite map_map.
  apply in_map_iff. exists d. split; [|apply in_arange1; lia].
  destruct (d mod (365 + 1) =? 0) eqn:E; lia.
Qed.

Lemma window_range_sound L c v :
  In v (NP.replace_eq (NP.zmod_list (NP.arange (c - L / 2) (c + L / 2 + 1) 1) (365 + 1)) 0 366) ->
  1 <= v <= 366 /\ exists w, c - L / 2 <= w <= c + L / 2 /\ (w - v) mod 366 = 0.
Proof.
  unfold NP.replace_eq, NP.zmod_list. rewrite map_map. intro H. apply in_map_iff in H.
  destruct H as (w & E & Hw). apply in_arange1 in Hw.
  destruct (w mod (365 + 1) =? 0) eqn:E0; (split; [lia|]); exists w; (split; [lia|]); lia.
Qed.

Lemma days_window_spec L days c i :
  In i (days_indices_in_window L days c) <->
  0 <= i < Z.of_nat (length days) /\
  In (nth (Z.to_nat i) days 0)
     (NP.replace_eq (NP.zmod_list (NP.arange (c - L / 2) (c + L / 2 + 1) 1) (365 + 1)) 0 366).
Proof. unfold days_indices_in_window. cbv zeta. apply where_isin_spec. Qed.

(** an adjusted time step belongs to the calibration window of the same centre *)
Theorem days_adjusted_in_window L S days c i :
  0 < S -> S <= L -> (forall d, In d days -> 1 <= d <= 366) ->
  In i (days_indices_to_adjust S days c) -> In i (days_indices_in_window L days c).
Proof.
  intros HS HSL Hdays Hi. apply days_adjust_spec in Hi. destruct Hi as [Hr Hd]. cbv zeta in Hd.
  apply days_window_spec. split; [exact Hr|].
  apply in_window_range.
  - apply Hdays. apply nth_In. lia.
  - lia.
Qed.

(** each time step is adjusted by exactly one window centre *)
Theorem days_adjusted_exactly_once S days i :
  0 < S -> S mod 2 = 1 -> (forall d, In d days -> 1 <= d <= 366) ->
  0 <= i < Z.of_nat (length days) ->
  length (filter (fun c => NP.zmem i (days_indices_to_adjust S days c)) (days_window_centers S days)) = 1%nat.
Proof.
  intros HS Hodd Hdays Hi.
  set (d := nth (Z.to_nat i) days 0).
  assert (Hin : In d days) by (apply nth_In; lia).
  assert (Hne : days <> []) by (intro E; rewrite E in Hin; destruct Hin).
  destruct (centers_cover (NP.zmin days) (NP.zmax days) S d HS Hodd) as (c & Hc & Hcd & Hu).
  { split; [apply zmin_le|apply zmax_ge]; exact Hin. }
  rewrite days_window_centers_eq.
  apply (filter_unique_length _ _ c).
  - apply arange_nodup.
  - exact Hc.
  - apply zmem_spec. apply days_adjust_spec. split; [exact Hi|]. cbv zeta. fold d.
    specialize (Hdays d Hin). lia.
  - intros c' Hc' P. apply zmem_spec in P. apply days_adjust_spec in P. destruct P as [_ P]. cbv zeta in P. fold d in P.
    apply Hu; [exact Hc'|lia].
Qed.

(* ---------- the mask used to pick the adjusted values out of the window result ---------- *)
Lemma mask_first_aux_all_true x : forall seen, NoDup x -> (forall v, In v x -> ~ In v seen) ->
  NP.mask_first_aux seen x = repeat true (length x).
Proof.
  induction x as [|a x IH]; intros seen Hnd Hdis; [reflexivity|].
  inversion Hnd as [|? ? Hna Hnd']; subst. cbn [NP.mask_first_aux length repeat]. f_equal.
  - destruct (NP.zmem a seen) eqn:E; [|reflexivity]. apply zmem_spec in E. exfalso. apply (Hdis a); [left; reflexivity|exact E].
  - apply IH; [exact Hnd'|]. intros v Hv [E|Hs].
    + subst v. contradiction.
    + apply (Hdis v); [right; exact Hv|exact Hs].
Qed.

Lemma logical_and_true_r m : NP.logical_and m (repeat true (length m)) = m.
Proof.
  unfold NP.logical_and. induction m as [|b m IH]; [reflexivity|]. cbn [length repeat combine map fst snd].
  rewrite andb_true_r. f_equal. exact IH.
Qed.

Lemma select_isin x test : NP.select x (NP.isin x test) = filter (fun v => NP.zmem v test) x.
Proof.
  unfold NP.isin. induction x as [|a x IH]; [reflexivity|]. cbn [map NP.select filter].
  destruct (NP.zmem a test); rewrite IH; reflexivity.
Qed.

Lemma sorted_lt_ext l1 : forall l2, StronglySorted Z.lt l1 -> StronglySorted Z.lt l2 ->
  (forall x, In x l1 <-> In x l2) -> l1 = l2.
Proof.
  induction l1 as [|a l1 IH]; intros l2 H1 H2 Hext.
  - destruct l2 as [|b l2]; [reflexivity|]. exfalso. apply (Hext b). left. reflexivity.
  - destruct l2 as [|b l2]; [exfalso; apply (Hext a); left; reflexivity|].
    inversion H1 as [|? ? S1 F1]; subst. inversion H2 as [|? ? S2 F2]; subst.
    rewrite Forall_forall in F1, F2.
    assert (a = b).
    { destruct (proj1 (Hext a) (or_introl eq_refl)) as [E|Hin]; [symmetry; exact E|].
      destruct (proj2 (Hext b) (or_introl eq_refl)) as [E|Hin']; [exact E|].
      specialize (F1 b Hin'). specialize (F2 a Hin). lia. }
    subst b. f_equal. apply IH; try assumption.
    intro x. split; intro Hx.
    + destruct (proj1 (Hext x) (or_intror Hx)) as [E|Hin]; [|exact Hin]. subst x. specialize (F1 a Hx). lia.
    + destruct (proj2 (Hext x) (or_intror Hx)) as [E|Hin]; [|exact Hin]. subst x. specialize (F2 a Hx). lia.
Qed.

Lemma filter_sorted (P : Z -> bool) l : StronglySorted Z.lt l -> StronglySorted Z.lt (filter P l).
Proof.
  induction 1 as [|a l Hs IH Hf]; cbn [filter]; [constructor|].
  destruct (P a); [|exact IH]. constructor; [exact IH|].
  rewrite Forall_forall in *. intros x Hx. apply filter_In in Hx. apply Hf. tauto.
Qed.

(** [W(window)[mask]] are exactly the window positions of the adjusted indices, in order:
    selecting the window's index list with the mask gives back the adjust index list. *)
Theorem mask_selects_adjusted iw ia :
  StronglySorted Z.lt iw -> StronglySorted Z.lt ia -> (forall i, In i ia -> In i iw) ->
  NP.select iw (days_mask_adjust_in_window iw ia) = ia.
Proof.
  intros Hw Ha Hsub. unfold days_mask_adjust_in_window, NP.mask_first_occurrence.
  rewrite (mask_first_aux_all_true iw []); [|apply sorted_lt_nodup; exact Hw|intros v _ []].
  replace (length iw) with (length (NP.isin iw ia)) by (unfold NP.isin; apply map_length).
  rewrite logical_and_true_r. rewrite select_isin.
  apply sorted_lt_ext; [apply filter_sorted; exact Hw|exact Ha|].
  intro x. rewrite filter_In, zmem_spec. split; [tauto|]. intro Hx. split; [apply Hsub; exact Hx|exact Hx].
Qed.

Corollary days_mask_selects L S days c :
  0 < S -> S <= L -> (forall d, In d days -> 1 <= d <= 366) ->
  NP.select (days_indices_in_window L days c)
            (days_mask_adjust_in_window (days_indices_in_window L days c) (days_indices_to_adjust S days c))
  = days_indices_to_adjust S days c.
Proof.
  intros HS HSL Hd. apply mask_selects_adjusted.
  - unfold days_indices_in_window. cbv zeta. apply where_idx_sorted.
  - unfold days_indices_to_adjust. cbv zeta. apply where_idx_sorted.
  - intros i Hi. apply (days_adjusted_in_window L S days c i HS HSL Hd Hi).
Qed.

(* ---------- year windows ---------- *)
Lemma round_half_mid a b S : 0 < S -> S mod 2 = 1 -> a <= b -> b - a + 1 <= S ->
  NP.round_half (a + b) - S / 2 <= a /\ b <= NP.round_half (a + b) + S / 2.
Proof.
  intros HS Hodd Hab Hsp. unfold NP.round_half.
  destruct ((a + b) mod 2 =? 0) eqn:E1; [lia|].
  destruct (((a + b) / 2) mod 2 =? 0) eqn:E2; lia.
Qed.

(** every year between the first and last year present (in particular every year present)
    lies in the adjust range of exactly one centre, and that range lies inside its window *)
Theorem years_centers_cover S ys y : 0 < S -> S mod 2 = 1 -> ys <> [] -> NP.zmin ys <= y <= NP.zmax ys ->
  exists c, In c (years_window_centers S ys) /\ In y (years_to_adjust S c) /\
    forall c', In c' (years_window_centers S ys) -> In y (years_to_adjust S c') -> c' = c.
Proof.
  intros HS Hodd Hne Hy. rewrite years_window_centers_eq.
  assert (Hmm : NP.zmin ys <= NP.zmax ys) by lia.
  destruct (NP.zmax ys - NP.zmin ys + 1 <=? S) eqn:E.
  - exists (NP.round_half (NP.zmin ys + NP.zmax ys)). split; [left; reflexivity|]. split.
    + unfold years_to_adjust. cbv zeta. apply in_arange1.
      pose proof (round_half_mid (NP.zmin ys) (NP.zmax ys) S HS Hodd Hmm ltac:(lia)). lia.
    + intros c' [Ec|[]] _. symmetry. exact Ec.
  - destruct (centers_cover (NP.zmin ys) (NP.zmax ys) S y HS Hodd Hy) as (c & Hc & Hcd & Hu).
    exists c. split; [exact Hc|]. split.
    + unfold years_to_adjust. cbv zeta. apply in_arange1. lia.
    + intros c' Hc' Hin. unfold years_to_adjust in Hin. cbv zeta in Hin. apply in_arange1 in Hin.
      apply Hu; [exact Hc'|lia].
Qed.

Theorem years_adjust_in_window L S c y : 0 < S -> S <= L -> In y (years_to_adjust S c) -> In y (years_in_window L c).
Proof.
  intros HS HSL. unfold years_to_adjust, years_in_window. cbv zeta. rewrite !in_arange1. lia.
Qed.

Lemma years_centers_nodup S ys : NoDup (years_window_centers S ys).
Proof.
  rewrite years_window_centers_eq. destruct (_ <=? _); [|apply arange_nodup].
  constructor; [intros []|constructor].
Qed.

(** per time step: the year of time step i is claimed by exactly one (years_to_adjust, years_in_window) pair *)
Theorem years_adjusted_exactly_once S ys years i :
  0 < S -> S mod 2 = 1 -> ys <> [] -> (forall y, In y years -> NP.zmin ys <= y <= NP.zmax ys) ->
  (i < length years)%nat ->
  length (filter (fun c => NP.zmem (nth i years 0) (years_to_adjust S c)) (years_window_centers S ys)) = 1%nat.
Proof.
  intros HS Hodd Hne Hys Hi.
  destruct (years_centers_cover S ys (nth i years 0) HS Hodd Hne) as (c & Hc & Hin & Hu).
  { apply Hys. apply nth_In. exact Hi. }
  apply (filter_unique_length _ _ c).
  - apply years_centers_nodup.
  - exact Hc.
  - apply zmem_spec. exact Hin.
  - intros c' Hc' P. apply zmem_spec in P. apply Hu; assumption.
Qed.
