(** C16 for NumPy's two remaining discrete quantile methods (averaged_inverted_cdf, closest_observation):
    range, monotonicity in p and the end points, on a sorted non-empty sample. *)
From Coq Require Import QArith Qabs Qround ZArith List Bool Lia Lqa ZifyBool.
From IV Require Import QL Ecdf QFacts QListFacts C16_step C16_lerp.
Import ListNotations.
Open Scope Q_scope.

Section Disc.
Variable s : list Q.
Hypothesis Hs : sortedQ s.
Hypothesis Hne : s <> [].
Let n := zlen s.
Lemma n_pos : (0 < n)%Z.
Proof. apply zlen_pos. exact Hne. Qed.

Lemma nq_mono i j : (0 <= i <= j)%Z -> (j < n)%Z -> nthq s i <= nthq s j.
Proof. intros. apply nthq_mono; assumption. Qed.

Lemma floor_mono u v : u <= v -> (Qfloor u <= Qfloor v)%Z.
Proof. apply Qfloor_resp_le. Qed.

(* ---------- averaged_inverted_cdf ---------- *)
Definition avg_at (v : Q) : Q :=
  if Qle_bool (inject_Z (n - 1)) v then nthq s (n - 1)
  else if Qlt_bool v 0 then nthq s 0
  else let k := Qfloor v in if Qeq_bool (v - inject_Z k) 0 then Qred ((nthq s k + nthq s (k + 1)) / 2) else nthq s (k + 1).
Lemma quantile_avg_eq p : quantile_avg s p = avg_at (inject_Z n * p - 1).
Proof. reflexivity. Qed.

Lemma avg_at_bounds v : 0 <= v -> v < inject_Z (n - 1) ->
  nthq s (Qfloor v) <= avg_at v <= nthq s (Qfloor v + 1).
Proof.
  intros V0 V1. pose proof n_pos as Np. unfold avg_at. apply Qle_bool_false in V1. rewrite V1. apply Qle_bool_false in V1.
  pose proof V0 as V0'. apply Qlt_bool_false in V0'. rewrite V0'. cbv zeta.
  pose proof (Qfloor_nonneg v V0) as F0. pose proof (Qfloor_lt_Z v (n - 1) V1) as F1.
  pose proof (nq_mono (Qfloor v) (Qfloor v + 1) ltac:(lia) ltac:(lia)) as M.
  destruct (Qeq_bool _ 0); [rewrite Qred_correct; split; [apply Qle_shift_div_l; lra|apply Qle_shift_div_r; lra]|split; [exact M|apply Qle_refl]].
Qed.

Lemma avg_at_range v : nthq s 0 <= avg_at v <= nthq s (n - 1).
Proof.
  pose proof n_pos as Np. unfold avg_at.
  destruct (Qle_bool (inject_Z (n - 1)) v) eqn:E1; [split; [apply nq_mono; lia|apply Qle_refl]|].
  destruct (Qlt_bool v 0) eqn:E2; [split; [apply Qle_refl|apply nq_mono; lia]|]. qb.
  pose proof (Qfloor_nonneg v E2) as F0. pose proof (Qfloor_lt_Z v (n - 1) E1) as F1.
  destruct (avg_at_bounds v E2 E1) as [B1 B2]. unfold avg_at in B1, B2.
  apply Qle_bool_false in E1. rewrite E1 in B1, B2. apply Qlt_bool_false in E2. rewrite E2 in B1, B2. cbv zeta in B1, B2.
  split.
  - apply Qle_trans with (nthq s (Qfloor v)); [apply nq_mono; lia|exact B1].
  - apply Qle_trans with (nthq s (Qfloor v + 1)); [exact B2|apply nq_mono; lia].
Qed.

Lemma avg_at_mono u v : u <= v -> avg_at u <= avg_at v.
Proof.
  intro Huv. pose proof n_pos as Np.
  destruct (Qlt_le_dec v (inject_Z (n - 1))) as [V1|V1].
  2:{ assert (E : avg_at v = nthq s (n - 1)) by (unfold avg_at; apply Qle_bool_iff in V1; rewrite V1; reflexivity).
      rewrite E. apply avg_at_range. }
  destruct (Qlt_le_dec u 0) as [U0|U0].
  { assert (E : avg_at u = nthq s 0).
    { unfold avg_at. assert (X : u < inject_Z (n - 1)) by lra. apply Qle_bool_false in X. rewrite X.
      apply Qlt_bool_true in U0. rewrite U0. reflexivity. }
    rewrite E. apply avg_at_range. }
  assert (V0 : 0 <= v) by lra. assert (U1 : u < inject_Z (n - 1)) by lra.
  destruct (avg_at_bounds u U0 U1) as [A1 A2]. destruct (avg_at_bounds v V0 V1) as [B1 B2].
  pose proof (floor_mono u v Huv) as FM.
  pose proof (Qfloor_nonneg u U0) as F0. pose proof (Qfloor_lt_Z v (n - 1) V1) as F1.
  destruct (Z.eq_dec (Qfloor u) (Qfloor v)) as [Ef|Nf].
  - (* same bracket *)
    unfold avg_at. apply Qle_bool_false in U1. apply Qle_bool_false in V1. rewrite U1, V1.
    apply Qlt_bool_false in U0. apply Qlt_bool_false in V0. rewrite U0, V0. cbv zeta. rewrite Ef.
    destruct (Qeq_bool (u - inject_Z (Qfloor v)) 0) eqn:Gu; destruct (Qeq_bool (v - inject_Z (Qfloor v)) 0) eqn:Gv.
    + apply Qle_refl.
    + rewrite Qred_correct. pose proof (nq_mono (Qfloor v) (Qfloor v + 1) ltac:(lia) ltac:(lia)). apply Qle_shift_div_r; lra.
    + apply Qeq_bool_iff in Gv. apply Qeq_bool_neq in Gu. exfalso. apply Gu.
      destruct (floor_frac u) as [G0 _]. rewrite Ef in G0. lra.
    + apply Qle_refl.
  - apply Qle_trans with (nthq s (Qfloor u + 1)); [exact A2|]. apply Qle_trans with (nthq s (Qfloor v)); [apply nq_mono; lia|exact B1].
Qed.

(* ---------- closest_observation ---------- *)
Definition closest_index (idx : Q) : Z :=
  let prev := Qfloor idx in
  let r := if Qeq_bool (idx - inject_Z prev) 0 && (prev mod 2 =? 1)%Z then prev else (prev + 1)%Z in
  if (r <? 0)%Z then 0%Z else r.
Lemma quantile_closest_eq p : quantile_closest s p = nthq s (closest_index (inject_Z n * p - 1 - (1 # 2))).
Proof. reflexivity. Qed.

Lemma closest_index_bounds idx : (Z.max 0 (Qfloor idx) <= closest_index idx <= Z.max 0 (Qfloor idx + 1))%Z.
Proof. unfold closest_index. cbv zeta. destruct (_ && _)%bool; destruct (_ <? 0)%Z eqn:E; lia. Qed.

Lemma closest_index_mono u v : u <= v -> (closest_index u <= closest_index v)%Z.
Proof.
  intro Huv. pose proof (floor_mono u v Huv) as FM.
  destruct (Z.eq_dec (Qfloor u) (Qfloor v)) as [Ef|Nf].
  - unfold closest_index. cbv zeta. rewrite Ef.
    destruct (Qeq_bool (u - inject_Z (Qfloor v)) 0) eqn:Gu; destruct (Qeq_bool (v - inject_Z (Qfloor v)) 0) eqn:Gv; cbn [andb];
      try (destruct (Qfloor v mod 2 =? 1)%Z; repeat match goal with |- context[(?a <? ?b)%Z] => destruct (a <? b)%Z eqn:? end; lia).
    apply Qeq_bool_iff in Gv. apply Qeq_bool_neq in Gu. exfalso. apply Gu. destruct (floor_frac u) as [G0 _]. rewrite Ef in G0. lra.
  - pose proof (closest_index_bounds u). pose proof (closest_index_bounds v). lia.
Qed.

Lemma closest_in_range p : 0 <= p <= 1 -> (0 <= closest_index (inject_Z n * p - 1 - (1 # 2)) <= n - 1)%Z.
Proof.
  intros [P0 P1]. pose proof n_pos as Np. set (idx := inject_Z n * p - 1 - (1 # 2)).
  pose proof (closest_index_bounds idx) as B. split; [lia|].
  assert (I1 : idx < inject_Z (n - 1)).
  { unfold idx. unfold Z.sub. rewrite inject_Z_plus, inject_Z_opp. change (inject_Z 1) with 1.
    assert (0 < inject_Z n) by (apply inject_Z_pos; lia).
    assert (inject_Z n * p <= inject_Z n) by (rewrite <- (Qmult_1_r (inject_Z n)) at 2; apply Qmult_le_l; assumption). lra. }
  pose proof (Qfloor_lt_Z idx (n - 1) I1). lia.
Qed.
End Disc.

(** assembled for a sample *)
Definition discrete_numpy (m : iecdf_method) : Prop := m = averaged_inverted_cdf \/ m = closest_observation.

Theorem discrete_range m s p : discrete_numpy m -> sortedQ s -> s <> [] -> 0 <= p <= 1 ->
  nthq s 0 <= iecdf_sorted m s p <= nthq s (zlen s - 1).
Proof.
  intros [-> | ->] Hs Hne Hp; cbn [iecdf_sorted].
  - rewrite quantile_avg_eq. apply avg_at_range; assumption.
  - rewrite quantile_closest_eq. pose proof (closest_in_range s Hne p Hp) as [C0 C1].
    split; apply nthq_mono; try assumption; lia.
Qed.

Theorem discrete_mono m s p1 p2 : discrete_numpy m -> sortedQ s -> s <> [] -> 0 <= p1 -> p1 <= p2 -> p2 <= 1 ->
  iecdf_sorted m s p1 <= iecdf_sorted m s p2.
Proof.
  intros [-> | ->] Hs Hne P0 P12 P1; cbn [iecdf_sorted]; pose proof (zlen_pos s Hne) as Np;
    assert (N0 : 0 < inject_Z (zlen s)) by (apply inject_Z_pos; lia);
    assert (M : inject_Z (zlen s) * p1 <= inject_Z (zlen s) * p2) by (apply Qmult_le_l; assumption).
  - rewrite !quantile_avg_eq. apply avg_at_mono; try assumption. unfold Qminus. apply (proj2 (Qplus_le_l _ _ _)). exact M.
  - rewrite !quantile_closest_eq.
    pose proof (closest_in_range s Hne p1 ltac:(split; lra)) as [A0 A1]. pose proof (closest_in_range s Hne p2 ltac:(split; lra)) as [B0 B1].
    apply nthq_mono; try assumption; [|lia]. split; [lia|]. apply (closest_index_mono s). unfold Qminus. apply (proj2 (Qplus_le_l _ _ _)). apply (proj2 (Qplus_le_l _ _ _)). exact M.
Qed.

Theorem discrete_at_0 m s : discrete_numpy m -> s <> [] -> iecdf_sorted m s 0 = nthq s 0.
Proof.
  intros [-> | ->] Hne; cbn [iecdf_sorted]; pose proof (zlen_pos s Hne) as Np.
  - unfold quantile_avg. cbv zeta.
    assert (E : inject_Z (zlen s) * 0 - 1 == -(1)) by ring.
    assert (B1 : Qle_bool (inject_Z (zlen s - 1)) (inject_Z (zlen s) * 0 - 1) = false).
    { apply Qle_bool_false. rewrite E. assert (0 <= inject_Z (zlen s - 1)) by (change 0 with (inject_Z 0); apply inject_Z_le; lia). lra. }
    rewrite B1. assert (B2 : Qlt_bool (inject_Z (zlen s) * 0 - 1) 0 = true) by (apply Qlt_bool_true; rewrite E; lra). rewrite B2. reflexivity.
  - rewrite quantile_closest_eq. f_equal.
    assert (E : inject_Z (zlen s) * 0 - 1 - (1 # 2) == -(3 # 2)) by ring.
    unfold closest_index. cbv zeta. rewrite (Qfloor_comp _ _ E). change (Qfloor (-(3#2))) with (-2)%Z.
    assert (G : Qeq_bool (inject_Z (zlen s) * 0 - 1 - (1 # 2) - inject_Z (-2)) 0 = false).
    { destruct (Qeq_bool _ 0) eqn:X; [|reflexivity]. apply Qeq_bool_iff in X. rewrite E in X. vm_compute in X. discriminate. }
    rewrite G. reflexivity.
Qed.

Theorem discrete_at_1 m s : discrete_numpy m -> s <> [] -> iecdf_sorted m s 1 = nthq s (zlen s - 1).
Proof.
  intros [-> | ->] Hne; cbn [iecdf_sorted]; pose proof (zlen_pos s Hne) as Np.
  - unfold quantile_avg. cbv zeta.
    assert (B1 : Qle_bool (inject_Z (zlen s - 1)) (inject_Z (zlen s) * 1 - 1) = true).
    { apply Qle_bool_iff. unfold Z.sub. rewrite inject_Z_plus, inject_Z_opp. change (inject_Z 1) with 1. lra. }
    rewrite B1. reflexivity.
  - rewrite quantile_closest_eq. f_equal.
    assert (E : inject_Z (zlen s) * 1 - 1 - (1 # 2) == inject_Z (zlen s - 2) + (1 # 2)).
    { replace (zlen s - 2)%Z with (zlen s + -2)%Z by lia. rewrite inject_Z_plus. change (inject_Z (-2)) with (-(2)). ring. }
    assert (F : Qfloor (inject_Z (zlen s) * 1 - 1 - (1 # 2)) = (zlen s - 2)%Z).
    { rewrite (Qfloor_comp _ _ E). apply Z.le_antisymm.
      - assert (X : inject_Z (zlen s - 2) + (1 # 2) < inject_Z (zlen s - 2 + 1)) by (rewrite inject_Z_plus; change (inject_Z 1) with 1; lra).
        pose proof (Qfloor_lt_Z _ _ X). lia.
      - rewrite <- (Qfloor_Z (zlen s - 2)) at 1. apply Qfloor_resp_le. lra. }
    unfold closest_index. cbv zeta. rewrite F.
    assert (G : Qeq_bool (inject_Z (zlen s) * 1 - 1 - (1 # 2) - inject_Z (zlen s - 2)) 0 = false).
    { destruct (Qeq_bool _ 0) eqn:X; [|reflexivity]. apply Qeq_bool_iff in X. rewrite E in X. assert (Y : (1 # 2) == 0) by lra. vm_compute in Y. discriminate. }
    rewrite G. cbn [andb]. destruct (zlen s - 2 + 1 <? 0)%Z eqn:E0; lia.
Qed.

(** the discrete methods depend on p only up to == *)
Lemma Qle_bool_proper_r a u v : u == v -> Qle_bool a u = Qle_bool a v.
Proof. intro E. destruct (Qle_bool a u) eqn:A, (Qle_bool a v) eqn:B; qb; try reflexivity; lra. Qed.
Lemma Qlt_bool_proper_l u v a : u == v -> Qlt_bool u a = Qlt_bool v a.
Proof. intro E. destruct (Qlt_bool u a) eqn:A, (Qlt_bool v a) eqn:B; qb; try reflexivity; lra. Qed.
Lemma Qeq_bool_proper_l u v a : u == v -> Qeq_bool u a = Qeq_bool v a.
Proof.
  intro E. destruct (Qeq_bool u a) eqn:A, (Qeq_bool v a) eqn:B; try reflexivity.
  - apply Qeq_bool_iff in A. apply Qeq_bool_neq in B. exfalso. apply B. rewrite <- E. exact A.
  - apply Qeq_bool_iff in B. apply Qeq_bool_neq in A. exfalso. apply A. rewrite E. exact B.
Qed.

Theorem discrete_proper m s p p' : discrete_numpy m -> p == p' -> iecdf_sorted m s p = iecdf_sorted m s p'.
Proof.
  intros [-> | ->] E; cbn [iecdf_sorted].
  - unfold quantile_avg. cbv zeta.
    assert (Ev : inject_Z (zlen s) * p - 1 == inject_Z (zlen s) * p' - 1) by (rewrite E; reflexivity).
    rewrite (Qle_bool_proper_r _ _ _ Ev), (Qlt_bool_proper_l _ _ _ Ev), (Qfloor_comp _ _ Ev).
    assert (Eg : inject_Z (zlen s) * p - 1 - inject_Z (Qfloor (inject_Z (zlen s) * p' - 1)) == inject_Z (zlen s) * p' - 1 - inject_Z (Qfloor (inject_Z (zlen s) * p' - 1))) by (rewrite E; reflexivity).
    rewrite (Qeq_bool_proper_l _ _ _ Eg). reflexivity.
  - unfold quantile_closest. cbv zeta.
    assert (Ev : inject_Z (zlen s) * p - 1 - (1 # 2) == inject_Z (zlen s) * p' - 1 - (1 # 2)) by (rewrite E; reflexivity).
    rewrite (Qfloor_comp _ _ Ev).
    assert (Eg : inject_Z (zlen s) * p - 1 - (1 # 2) - inject_Z (Qfloor (inject_Z (zlen s) * p' - 1 - (1 # 2))) == inject_Z (zlen s) * p' - 1 - (1 # 2) - inject_Z (Qfloor (inject_Z (zlen s) * p' - 1 - (1 # 2)))) by (rewrite E; reflexivity).
    rewrite (Qeq_bool_proper_l _ _ _ Eg). reflexivity.
Qed.
