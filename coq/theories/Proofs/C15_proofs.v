(** C15: proofs over the configuration tables extracted from the source (Gen/GenConfig.v),
    the translated ISIMIP has_* properties (Gen/GenIsimip.v) and the model Model/Config.v. *)
From Coq Require Import ZArith List Bool String Ascii.
From IV Require Import ConfigBase XQ GenConfig GenIsimip Config.
Import ListNotations.
Open Scope string_scope.

Lemma all_debiasers_complete d : In d all_debiasers.
Proof. destruct d; cbn; tauto. Qed.

Lemma outcome_eqb_eq a b : outcome_eqb a b = true -> a = b.
Proof. destruct a, b; cbn; congruence. Qed.

(* ---------- the published table, exhaustively ---------- *)
Definition table_ok_obj : bool :=
  forallb (fun d => forallb (fun v => outcome_eqb (from_variable_obj d v) (expected (doc_cell d v))) variable_objects) all_debiasers.
Lemma table_ok_obj_true : table_ok_obj = true.
Proof. vm_compute. reflexivity. Qed.

Theorem support_table_objects d v : In v variable_objects -> from_variable_obj d v = expected (doc_cell d v).
Proof.
  intro Hv. pose proof table_ok_obj_true as H. unfold table_ok_obj in H.
  rewrite forallb_forall in H. specialize (H d (all_debiasers_complete d)).
  rewrite forallb_forall in H. apply outcome_eqb_eq. apply H. exact Hv.
Qed.

Definition table_ok_str : bool :=
  forallb (fun d => forallb (fun kv =>
     outcome_eqb (from_variable_str d (fst kv)) (expected (doc_cell d (snd kv))) &&
     outcome_eqb (from_variable_str d (upper (fst kv))) (expected (doc_cell d (snd kv))))
     str_to_variable) all_debiasers.
Lemma table_ok_str_true : table_ok_str = true.
Proof. vm_compute. reflexivity. Qed.

Theorem support_table_names d name v : In (name, v) str_to_variable ->
  from_variable_str d name = expected (doc_cell d v) /\ from_variable_str d (upper name) = expected (doc_cell d v).
Proof.
  intro Hin. pose proof table_ok_str_true as H. unfold table_ok_str in H.
  rewrite forallb_forall in H. specialize (H d (all_debiasers_complete d)).
  rewrite forallb_forall in H. specialize (H (name, v) Hin). cbn [fst snd] in H.
  apply andb_true_iff in H. destruct H as [H1 H2]. split; apply outcome_eqb_eq; assumption.
Qed.

(** every name the library knows maps to a Variable object *)
Lemma names_map_to_objects : forallb (fun kv => smem (snd kv) variable_objects) str_to_variable = true.
Proof. vm_compute. reflexivity. Qed.

(* ---------- case-insensitivity for ALL strings ---------- *)
Lemma lower_upper_ascii c : lower_ascii (upper_ascii c) = lower_ascii c.
Proof. destruct c as [[] [] [] [] [] [] [] []]; reflexivity. Qed.
Lemma lower_lower_ascii c : lower_ascii (lower_ascii c) = lower_ascii c.
Proof. destruct c as [[] [] [] [] [] [] [] []]; reflexivity. Qed.

Lemma lower_upper s : lower (upper s) = lower s.
Proof. induction s as [|c s IH]; cbn [lower upper]; [reflexivity|]. rewrite lower_upper_ascii, IH. reflexivity. Qed.
Lemma lower_idem s : lower (lower s) = lower s.
Proof. induction s as [|c s IH]; cbn [lower]; [reflexivity|]. rewrite lower_lower_ascii, IH. reflexivity. Qed.

Lemma lowercases_first : map_lowercases_first = true.
Proof. reflexivity. Qed.

Theorem case_insensitive d s1 s2 : lower s1 = lower s2 -> from_variable_str d s1 = from_variable_str d s2.
Proof. intro H. unfold from_variable_str, variable_of_str. rewrite lowercases_first, H. reflexivity. Qed.

Corollary case_insensitive_upper d s : from_variable_str d (upper s) = from_variable_str d s.
Proof. apply case_insensitive. apply lower_upper. Qed.

Theorem unknown_name_raises d s : variable_of_str s = None -> from_variable_str d s = RaiseValueError.
Proof. intro H. unfold from_variable_str. rewrite H. reflexivity. Qed.

(* ---------- {**parameters, **kwargs} ---------- *)
Lemma lookup_app {A} k (a b : list (string * A)) :
  lookup k (a ++ b) = match lookup k a with Some v => Some v | None => lookup k b end.
Proof.
  induction a as [|[k' v] a IH]; cbn [lookup app]; [reflexivity|]. destruct (String.eqb k k'); [reflexivity|exact IH].
Qed.

Theorem kwargs_override {A} k (params kwargs : list (string * A)) :
  lookup k (merge params kwargs) = match lookup k kwargs with Some v => Some v | None => lookup k params end.
Proof. unfold merge. apply lookup_app. Qed.

(* ---------- attribute assignment vs construction ---------- *)
Section LC.
  Variables (S D X Y : Type) (post : S -> D) (run : S -> D -> X -> Y).
  Lemma settings_fold (i : inst S D) fs :
    settings S D (fold_left (assign S D) fs i) = fold_left (fun s f => f s) fs (settings S D i).
  Proof. revert i. induction fs as [|f fs IH]; intro i; cbn [fold_left]; [reflexivity|]. rewrite IH. reflexivity. Qed.

  (** when apply re-runs post-init, any sequence of attribute assignments behaves like a fresh
      construction with the final settings *)
  Theorem attr_equals_ctor (i : inst S D) fs x :
    apply S D X Y post run true (fold_left (assign S D) fs i) x =
    apply S D X Y post run true (construct S D post (fold_left (fun s f => f s) fs (settings S D i))) x.
  Proof. unfold apply, construct. cbn [settings]. rewrite settings_fold. reflexivity. Qed.

  (** ... and when it does not, a stale derived state is observable *)
  Theorem stale_without_post_init (i : inst S D) f x :
    apply S D X Y post run false (assign S D i f) x = run (f (settings S D i)) (derived S D i) x.
  Proof. reflexivity. Qed.
End LC.

Theorem every_apply_reruns_post_init d : apply_calls_post_init d = true.
Proof. destruct d; reflexivity. Qed.

(** post-init writes only derived attributes (not attrs fields), except the None-guarded ones *)
Definition post_init_writes_ok (d : debiaser) : bool :=
  forallb (fun a => negb (smem a (map fst (fields d))) || smem a (post_init_none_guarded d)) (post_init_writes d).
Theorem post_init_writes_only_derived d : post_init_writes_ok d = true.
Proof. destruct d; vm_compute; reflexivity. Qed.

Theorem none_guarded_is_qdm_cdf_threshold d :
  post_init_none_guarded d = match d with QuantileDeltaMapping => ["cdf_threshold"] | _ => [] end.
Proof. destruct d; reflexivity. Qed.

(* ---------- ISIMIP built without bounds is unbounded ---------- *)
Theorem isimip_unbounded_default :
  has_lower_bound isimip_default_lower_bound = false /\ has_lower_threshold isimip_default_lower_threshold = false /\
  has_upper_bound isimip_default_upper_bound = false /\ has_upper_threshold isimip_default_upper_threshold = false.
Proof. vm_compute. repeat split. Qed.

Theorem has_bounds_spec lb ub :
  (has_lower_bound lb = true <-> lb <> XQ.NInf) /\ (has_upper_bound ub = true <-> ub <> XQ.PInf).
Proof.
  split; [destruct lb|destruct ub]; cbn; split; try congruence; try discriminate; intro H; try reflexivity;
  try (exfalso; apply H; reflexivity).
Qed.

(* ---------- validators ---------- *)
Theorem field_accepts_sound f v : field_accepts f v = true ->
  exists v', convert (f_converter f) v = Some v' /\ forall val, In val (f_validators f) -> check v' val = true.
Proof.
  unfold field_accepts. destruct (convert (f_converter f) v) as [v'|]; [|discriminate].
  intro H. exists v'. split; [reflexivity|]. rewrite forallb_forall in H. exact H.
Qed.

Theorem option_validator_rejects f opts s : In (V_in opts) (f_validators f) -> f_converter f = None ->
  smem s opts = false -> field_accepts f (VStr s) = false.
Proof.
  intros Hin Hc Hs. destruct (field_accepts f (VStr s)) eqn:E; [|reflexivity]. exfalso.
  destruct (field_accepts_sound f _ E) as (v' & Hv & Hall). rewrite Hc in Hv. cbn in Hv. injection Hv as <-.
  specialize (Hall _ Hin). cbn in Hall. congruence.
Qed.

(** every string-option field of every debiaser rejects an unknown option, and every field that
    has a default accepts nothing outside its declared types (decided on the extracted tables) *)
Definition bogus_rejected : bool :=
  forallb (fun d => forallb (fun nf =>
    match f_validators (snd nf) with
    | [V_in _] => negb (field_accepts (snd nf) (VStr "bogus")) && negb (field_accepts (snd nf) (VInt 1)) && negb (field_accepts (snd nf) VNone)
    | [V_instance_of ["bool"]] => negb (field_accepts (snd nf) (VStr "bogus")) && negb (field_accepts (snd nf) (VInt 1)) && field_accepts (snd nf) (VBool true)
    | [V_instance_of ["int"]; V_gt 0%Z] => negb (field_accepts (snd nf) (VInt 0)) && negb (field_accepts (snd nf) (VInt (-3))) && negb (field_accepts (snd nf) VFloat) && field_accepts (snd nf) (VInt 31)
    | _ => true
    end) (fields d)) all_debiasers.
Theorem invalid_settings_rejected : bogus_rejected = true.
Proof. vm_compute. reflexivity. Qed.

(** cross-field rejections of __attrs_post_init__ (extracted with the tests that enclose them): every
    one is unconditional, i.e. an invalid combination is rejected whatever the other settings (window
    mode switches in particular) are; the two documented ones are present *)
Definition rejections_unconditional : bool :=
  forallb (fun d => forallb (fun p => String.eqb (fst p) "") (post_init_rejections d)) all_debiasers.
Theorem rejections_unconditional_ok : rejections_unconditional = true.
Proof. vm_compute. reflexivity. Qed.
Theorem isimip_rejects_missing_distribution :
  In (""%string, "self.distribution is None and (not self.nonparametric_qm)"%string) (post_init_rejections ISIMIP).
Proof. vm_compute. auto. Qed.
Theorem window_step_le_length_enforced : forall d,
  In d [LinearScaling; QuantileMapping; ScaledDistributionMapping; CDFt; ECDFM; QuantileDeltaMapping] ->
  In (""%string, "self.running_window_step_length > self.running_window_length"%string) (post_init_rejections d).
Proof. intros d H. cbn in H. repeat (destruct H as [<-|H]; [vm_compute; auto|]). contradiction. Qed.
