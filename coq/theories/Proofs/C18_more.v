(** C18 (round 2): exact identities of the REGENERATED tas conversions that need no hypothesis. *)
From Coq Require Import QArith Lqa.
From IV Require Import GenUtils.
Open Scope Q_scope.

(** the reconstructed extremes are exactly one range apart, for every skew (also outside [0, 1]) and every range *)
Lemma minmax_range_exact tas r s : get_tasmax tas r s - get_tasmin tas r s == r.
Proof. unfold get_tasmax, _get_tasmax_from_tasmin_and_range, get_tasmin. ring. Qed.

(** tas is the skew-weighted mix of the reconstructed extremes *)
Lemma tas_is_mix tas r s : get_tasmin tas r s + s * (get_tasmax tas r s - get_tasmin tas r s) == tas.
Proof. unfold get_tasmax, _get_tasmax_from_tasmin_and_range, get_tasmin. ring. Qed.

(** degenerate day (tasmax == tasmin): the range is 0 and the reconstruction returns tas for both extremes
    whatever the (undefined) skew came out as — the round trip loses tmin/tmax there, which is why the
    round-trip theorems carry ~ tmax == tmin *)
Lemma degenerate_day tas tmin tmax s : tmax == tmin ->
  get_tasrange tmin tmax == 0 /\
  get_tasmin tas (get_tasrange tmin tmax) s == tas /\ get_tasmax tas (get_tasrange tmin tmax) s == tas.
Proof.
  intro E. unfold get_tasmax, _get_tasmax_from_tasmin_and_range, get_tasmin, get_tasrange.
  assert (Z0 : tmax - tmin == 0) by lra. repeat split; rewrite ?Z0; ring.
Qed.
