(** C10: physical bounds and dry-day structure. *)
From Coq Require Import QArith Qabs ZArith List Bool String Lia Lqa.
From IV Require Import QL NP Dist Ecdf QFacts C16_step C16_lerp C16_interp C16_compose QListFacts GenUtils GenScalars GenIsimip Isimip C03_proofs C11_proofs.
Import ListNotations.
Open Scope Q_scope.

(* ---------- ISIMIP step 6: every value is at a bound or strictly between the thresholds ---------- *)
Definition ok_value (lb lt ut ub y : Q) : Prop := y == lb \/ y == ub \/ (lt < y /\ y < ut).

Lemma put_const_spec vals : forall m c k, List.length m = List.length vals -> (k < List.length vals)%nat ->
  nth k (put_const vals m c) 0 = if nth k m false then c else nth k vals 0.
Proof.
  induction vals as [|v vals IH]; intros [|b m] c k Hl Hk; cbn in *; try lia.
  destruct k as [|k]; [reflexivity|]. apply IH; lia.
Qed.
Lemma put_const_length vals : forall m c, List.length (put_const vals m c) = List.length vals.
Proof. induction vals as [|v vals IH]; intros [|b m] c; cbn; auto. Qed.

Lemma put_vals_forall (P : Q -> Prop) vals : forall m new,
  (forall k, (k < List.length vals)%nat -> nth k m false = false -> P (nth k vals 0)) ->
  Forall P new -> List.length m = List.length vals -> List.length new = List.length (NP.select vals m) ->
  Forall P (put_vals vals m new).
Proof.
  induction vals as [|v vals IH]; intros m new Hkeep Hnew Hl Hn; [destruct m; constructor|].
  destruct m as [|b m]; [discriminate|]. destruct b.
  - cbn [NP.select length] in Hn. destruct new as [|y new]; [discriminate|]. cbn [put_vals].
    inversion Hnew; subst. constructor; [assumption|].
    apply IH; try assumption; [|cbn in Hl; lia|cbn in Hn; lia].
    intros k Hk Hm. apply (Hkeep (S k)); [cbn; lia|exact Hm].
  - cbn [put_vals NP.select] in *. constructor.
    + apply (Hkeep 0%nat); [cbn; lia|reflexivity].
    + apply IH; try assumption; [|cbn in Hl; lia].
      intros k Hk Hm. apply (Hkeep (S k)); [cbn; lia|exact Hm].
Qed.

Lemma mask_not_either_spec a : forall b k, List.length a = List.length b -> (k < List.length a)%nat ->
  nth k (mask_not_either a b) false = negb (nth k a false) && negb (nth k b false).
Proof.
  induction a as [|x a IH]; intros [|y b] k Hl Hk; cbn in *; try lia.
  destruct k as [|k]; [reflexivity|]. apply IH; lia.
Qed.
Lemma mask_not_either_length a : forall b, List.length a = List.length b -> List.length (mask_not_either a b) = List.length a.
Proof. induction a as [|x a IH]; intros [|y b] H; cbn in *; try lia. f_equal. apply IH. lia. Qed.

(** if the adjusted values lie strictly between the thresholds (quantile mapping onto pseudo-future
    observations between the thresholds: C16's range lemma; or a distribution supported there), every
    assembled value is exactly at a bound or strictly between the thresholds: inside [lb, ub] and never in
    the gap between a bound and its threshold *)
Theorem step6_values_ok lb lt ut ub nlo nhi fut_sorted A :
  (0 <= nlo <= Z.of_nat (List.length fut_sorted))%Z -> (0 <= nhi <= Z.of_nat (List.length fut_sorted))%Z ->
  (forall v, List.length (A v) = List.length v) -> (forall v y, In y (A v) -> lt < y /\ y < ut) ->
  existsb (fun b => b) (mask_not_either (step6_mask_lower nlo fut_sorted) (step6_mask_upper nhi fut_sorted)) = true \/
  (nlo + nhi >= Z.of_nat (List.length fut_sorted))%Z ->
  Forall (ok_value lb lt ut ub) (step6_assemble lb ub nlo nhi fut_sorted A).
Proof.
  intros Hlo Hhi HAl HAr Hcase. unfold step6_assemble. cbv zeta.
  set (ml := step6_mask_lower nlo fut_sorted). set (mu := step6_mask_upper nhi fut_sorted).
  assert (Lml : List.length ml = List.length fut_sorted) by (destruct fut_sorted as [|v vs]; [reflexivity|]; apply (proj1 (mask_lower_spec nlo (v :: vs) 0%nat Hlo ltac:(cbn; lia)))).
  assert (Lmu : List.length mu = List.length fut_sorted) by (destruct fut_sorted as [|v vs]; [reflexivity|]; apply (proj1 (mask_upper_spec nhi (v :: vs) 0%nat Hhi ltac:(cbn; lia)))).
  set (mapped := put_const (put_const fut_sorted ml lb) mu ub).
  assert (Lmap : List.length mapped = List.length fut_sorted) by (unfold mapped; rewrite !put_const_length; reflexivity).
  assert (Hmapped : forall k, (k < List.length fut_sorted)%nat ->
            nth k mapped 0 = if nth k mu false then ub else if nth k ml false then lb else nth k fut_sorted 0).
  { intros k Hk. unfold mapped. rewrite put_const_spec by (rewrite ?put_const_length; lia).
    rewrite put_const_spec by lia. reflexivity. }
  set (mnot := mask_not_either ml mu).
  assert (Lmn : List.length mnot = List.length fut_sorted) by (unfold mnot; rewrite mask_not_either_length; lia).
  assert (Keep : forall k, (k < List.length mapped)%nat -> nth k mnot false = false -> ok_value lb lt ut ub (nth k mapped 0)).
  { intros k Hk Hm. rewrite Lmap in Hk. unfold mnot in Hm. rewrite mask_not_either_spec in Hm by lia.
    rewrite (Hmapped k Hk). destruct (nth k mu false); [right; left; reflexivity|].
    destruct (nth k ml false); [left; reflexivity|discriminate]. }
  destruct (existsb (fun b => b) mnot) eqn:Ex.
  - apply put_vals_forall; [exact Keep| |lia|apply HAl].
    apply Forall_forall. intros y Hy. right. right. apply (HAr _ _ Hy).
  - (* no free position: every value sits at a bound *)
    apply Forall_forall. intros y Hy. destruct (In_nth _ _ 0 Hy) as (k & Hk & <-).
    apply Keep; [exact Hk|].
    destruct (nth k mnot false) eqn:E; [|reflexivity]. exfalso.
    assert (In true mnot) by (rewrite <- E; apply nth_In; lia).
    assert (existsb (fun b => b) mnot = true) by (apply existsb_exists; exists true; auto). congruence.
Qed.

Corollary step6_in_bounds_no_gap lb lt ut ub y : lb <= lt -> lt < ut -> ut <= ub -> ok_value lb lt ut ub y ->
  lb <= y <= ub /\ ~ (lb < y /\ y <= lt) /\ ~ (ut <= y /\ y < ub).
Proof. intros H1 H2 H3 [E|[E|[A B]]]; repeat split; lra. Qed.

(** non-parametric quantile mapping onto values strictly between the thresholds stays between them *)
Theorem nonparam_adjust_between em im x y lt ut v : proved_ecdf em -> proved_iecdf im -> x <> [] -> y <> [] ->
  (forall w, In w y -> lt < w /\ w < ut) -> lt < qmap em im x y v /\ qmap em im x y v < ut.
Proof.
  intros He Hi Hx Hy Hin. destruct (qmap_range em im x y v He Hi Hx Hy) as [A B].
  destruct (Hin _ (qmin_in y Hy)) as [L _]. destruct (Hin _ (qmax_in y Hy)) as [_ U]. lra.
Qed.

(* ---------- censoring: exact zeros, no sub-threshold drizzle ---------- *)
Theorem qdm_censored_output {P} (D : dist P) em t tp cth fo fh f out :
  qdm_apply_debiasing_steps em t tp D true cth f fo fh = Some out ->
  Forall (fun y => y == 0 \/ cth <= y) out.
Proof.
  unfold qdm_apply_debiasing_steps. cbv zeta.
  destruct (String.eqb tp "absolute"); [|destruct (String.eqb tp "relative"); [|discriminate]];
  intro H; injection H as <-; apply Forall_forall; intros y Hy; apply in_map_iff in Hy; destruct Hy as (v & <- & _);
  (destruct (negb (Qle_bool cth v)) eqn:E; [left; reflexivity|right; apply negb_false_iff in E; qb; exact E]).
Qed.

(** CDFt SSR: after the adjustment every value is 0 or at least the threshold, and the threshold is the
    smallest positive value of the three input series *)
Theorem ssr_floor x thr : let y := cdft_set_below_threshold_to_zero x thr in y == 0 \/ thr <= y.
Proof.
  unfold cdft_set_below_threshold_to_zero. destruct (negb (Qle_bool thr x)) eqn:E; [left; reflexivity|].
  right. apply negb_false_iff in E. qb. exact E.
Qed.

Theorem ssr_threshold_is_smallest_positive o h f v : In v (o ++ h ++ f) -> 0 < v ->
  0 < cdft_get_threshold o h f /\ cdft_get_threshold o h f <= v.
Proof.
  intros Hin Hv. unfold cdft_get_threshold. cbv zeta. change (inject_Z 0) with 0.
  set (pos := (filter (fun v0 => negb (Qle_bool v0 0)) o ++ filter (fun v0 => negb (Qle_bool v0 0)) h ++ filter (fun v0 => negb (Qle_bool v0 0)) f)%list).
  assert (Hp : In v pos).
  { unfold pos. rewrite <- !filter_app. apply filter_In. split; [exact Hin|]. apply negb_true_iff. apply Qle_bool_false. exact Hv. }
  assert (Hne : pos <> []) by (intro E; rewrite E in Hp; destruct Hp).
  destruct (Z.of_nat (List.length pos) >? 0)%Z eqn:E; [|destruct pos; [congruence|cbn in E; lia]].
  split; [|apply qmin_le; exact Hp].
  pose proof (qmin_in pos Hne) as Hm.
  assert (Epos : pos = filter (fun v0 => negb (Qle_bool v0 0)) (o ++ h ++ f)) by (unfold pos; rewrite !filter_app; reflexivity).
  rewrite Epos in Hm at 2. apply filter_In in Hm. destruct Hm as [_ Hm].
  apply negb_true_iff in Hm. qb. exact Hm.
Qed.

(** SSR randomisation keeps randomised zeros strictly below the threshold and never negative *)
Theorem ssr_randomised_below_threshold thr u : 0 < thr -> 0 <= u < 1 ->
  0 <= cdft_randomize_zero 0 thr u /\ cdft_randomize_zero 0 thr u < thr.
Proof.
  intros Ht Hu. unfold cdft_randomize_zero. change (Qeq_bool 0 (inject_Z 0)) with true. cbn iota. change (inject_Z 0) with 0. split; nra.
Qed.

(* ---------- multiplicative LinearScaling / DeltaChange never produce negative precipitation ---------- *)
Theorem ls_mul_nonneg o h f out : 0 <= QL.qmean o / QL.qmean h -> Forall (fun v => 0 <= v) f ->
  ls_apply_on_window "multiplicative" o h f = Some out -> Forall (fun v => 0 <= v) out.
Proof.
  intros Hr Hf H. cbn in H. injection H as <-. apply Forall_forall. intros y Hy. apply in_map_iff in Hy.
  destruct Hy as (v & <- & Hv). rewrite Forall_forall in Hf. specialize (Hf v Hv). apply Qmult_le_0_compat; assumption.
Qed.

Theorem dc_mul_nonneg o h f out : 0 <= QL.qmean f / QL.qmean h -> Forall (fun v => 0 <= v) o ->
  dc_apply_on_window "multiplicative" o h f = Some out -> Forall (fun v => 0 <= v) out.
Proof.
  intros Hr Ho H. cbn in H. injection H as <-. apply Forall_forall. intros y Hy. apply in_map_iff in Hy.
  destruct Hy as (v & <- & Hv). rewrite Forall_forall in Ho. specialize (Ho v Hv). apply Qmult_le_0_compat; assumption.
Qed.
