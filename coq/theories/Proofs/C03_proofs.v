(** C03: no-bias fixed point, about the per-window methods REGENERATED from the source
    (Gen/GenScalars.v). *)
From Coq Require Import QArith Qabs ZArith List Bool String Lia Lqa.
From IV Require Import QL Dist Ecdf QFacts C16_step QListFacts GenUtils GenScalars.
Import ListNotations.
Open Scope Q_scope.

Lemma zip2_length f (a b : list Q) : List.length a = List.length b -> List.length (QL.zip2 f a b) = List.length a.
Proof. revert b. induction a as [|x a IH]; intros [|y b] H; cbn in *; try lia. f_equal. apply IH. lia. Qed.

Lemma zip2_add_sub (f A B : list Q) : List.length A = List.length f -> eql A B ->
  eql (QL.zip2 (fun a b => a - b) (QL.zip2 (fun a b => a + b) f A) B) f.
Proof.
  revert A B. induction f as [|x f IH]; intros A B Hl E; destruct A as [|a A]; try discriminate; inversion E; subst; cbn [QL.zip2]; constructor.
  - lra.
  - apply IH; [cbn in Hl; lia|assumption].
Qed.

Lemma zip2_mul_div (f A B : list Q) : List.length A = List.length f -> eql A B -> Forall (fun b => ~ b == 0) B ->
  eql (QL.zip2 (fun a b => a / b) (QL.zip2 (fun a b => a * b) f A) B) f.
Proof.
  revert A B. induction f as [|x f IH]; intros A B Hl E NZ; destruct A as [|a A]; try discriminate; inversion E; subst; cbn [QL.zip2]; constructor.
  - inversion NZ; subst. match goal with H : a == _ |- _ => rewrite H end. field. assumption.
  - inversion NZ; subst. apply IH; [cbn in Hl; lia|assumption|assumption].
Qed.

(* ---------- LinearScaling ---------- *)
Theorem ls_fix_additive h f : ls_apply_on_window "additive" h h f = Some (map (fun x => x - (QL.qmean h - QL.qmean h)) f) /\
  eql (map (fun x => x - (QL.qmean h - QL.qmean h)) f) f.
Proof. split; [reflexivity|]. apply eql_map_id. intros x _. ring. Qed.

Theorem ls_fix_multiplicative h f : ~ QL.qmean h == 0 ->
  ls_apply_on_window "multiplicative" h h f = Some (map (fun x => x * (QL.qmean h / QL.qmean h)) f) /\
  eql (map (fun x => x * (QL.qmean h / QL.qmean h)) f) f.
Proof. intro H. split; [reflexivity|]. apply eql_map_id. intros x _. field. exact H. Qed.

(* ---------- DeltaChange: unchanged model returns the observations ---------- *)
Theorem dc_fix_additive o h : dc_apply_on_window "additive" o h h = Some (map (fun x => x + (QL.qmean h - QL.qmean h)) o) /\
  eql (map (fun x => x + (QL.qmean h - QL.qmean h)) o) o.
Proof. split; [reflexivity|]. apply eql_map_id. intros x _. ring. Qed.

Theorem dc_fix_multiplicative o h : ~ QL.qmean h == 0 ->
  dc_apply_on_window "multiplicative" o h h = Some (map (fun x => x * (QL.qmean h / QL.qmean h)) o) /\
  eql (map (fun x => x * (QL.qmean h / QL.qmean h)) o) o.
Proof. intro H. split; [reflexivity|]. apply eql_map_id. intros x _. field. exact H. Qed.

(* ---------- ECDFM and QuantileDeltaMapping: for ANY distribution object ---------- *)
Theorem ecdfm_fix {P} (D : dist P) t h f : eql (ecdfm_apply_on_window D t h h f) f.
Proof.
  unfold ecdfm_apply_on_window. cbv zeta. apply zip2_add_sub; [rewrite !map_length; reflexivity|apply eql_refl].
Qed.

Theorem qdm_fix_absolute {P} (D : dist P) em t cth (fit_h : P) f :
  exists out, qdm_apply_debiasing_steps em t "absolute" D false cth f fit_h fit_h = Some out /\ eql out f.
Proof.
  eexists. split; [reflexivity|]. cbv zeta. apply zip2_add_sub; [rewrite !map_length; reflexivity|apply eql_refl].
Qed.

Theorem qdm_fix_relative {P} (D : dist P) em t cth (fit_h : P) f :
  (forall p, ~ ppf D fit_h p == 0) ->
  exists out, qdm_apply_debiasing_steps em t "relative" D false cth f fit_h fit_h = Some out /\ eql out f.
Proof.
  intro NZ. eexists. split; [reflexivity|]. cbv zeta. apply zip2_mul_div; [rewrite !map_length; reflexivity|apply eql_refl|].
  apply Forall_forall. intros b Hb. apply in_map_iff in Hb. destruct Hb as (p & <- & _). apply NZ.
Qed.

(** with censoring: values at or above the censoring threshold are unchanged, values below become 0 *)
Definition censor (cth : Q) (v : Q) : Q := if negb (Qle_bool cth v) then inject_Z 0 else v.
Theorem qdm_fix_censored {P} (D : dist P) em t cth (fit_h : P) f :
  exists out mid, qdm_apply_debiasing_steps em t "absolute" D true cth f fit_h fit_h = Some out /\
    out = map (censor cth) mid /\ eql mid f.
Proof.
  eexists. eexists. split; [reflexivity|]. cbv zeta. split; [reflexivity|].
  apply zip2_add_sub; [rewrite !map_length; reflexivity|apply eql_refl].
Qed.

(* ---------- parametric QuantileMapping: identity between the cdf thresholds ---------- *)
Definition clampq (t v : Q) : Q := GenUtils.threshold_cdf_vals v t.

Theorem qm_param_fix_form {P} (D : dist P) t h x :
  qm_standard_qm "parametric" D t x h h = Some (map (fun v => ppf D (fit D h) (clampq t (cdf D (fit D h) v))) x).
Proof. unfold qm_standard_qm. cbn [String.eqb Ascii.eqb Bool.eqb]. cbv zeta. rewrite !map_map. reflexivity. Qed.

Lemma clamp_id t v : t <= v -> v <= 1 - t -> clampq t v == v.
Proof.
  intros H1 H2. unfold clampq, GenUtils.threshold_cdf_vals, QL.qmax2, QL.qmin2. change (inject_Z 1) with 1.
  destruct (Qle_bool v (1 - t)) eqn:E1; qb; [|lra].
  destruct (Qle_bool v t) eqn:E2; qb; lra.
Qed.

Theorem qm_param_fix {P} (D : dist P) t h x :
  (forall p v v', v == v' -> ppf D p v == ppf D p v') ->
  (forall p v, ppf D p (cdf D p v) == v) ->
  Forall (fun v => t <= cdf D (fit D h) v /\ cdf D (fit D h) v <= 1 - t) x ->
  exists out, qm_standard_qm "parametric" D t x h h = Some out /\ eql out x.
Proof.
  intros Hpr Hinv Hin. eexists. split; [apply qm_param_fix_form|].
  apply eql_map_id. intros v Hv. rewrite Forall_forall in Hin. destruct (Hin v Hv) as [A B].
  rewrite (Hpr _ _ _ (clamp_id t _ A B)). apply Hinv.
Qed.
