(** C02 / C04 at the level of apply_location with a running window over the year: the per-window statements
    (Affine_debiasers.v) lifted through the window scatter loop (Driver_rel.v), for every window length and
    step, every calendar, whenever each window that is used holds data of all three series. *)
From Coq Require Import QArith ZArith List Bool String Lia Lqa.
From IV Require Import QL NP Dist Ecdf QFacts QListFacts C16_compose Affine Affine_debiasers GenWindows GenUtils GenScalars Grid Driver Driver_rel C06_instances.
Import ListNotations.
Open Scope Q_scope.

(** per-window methods as total functions (None = raise -> []) *)
Definition W_ls (dt : string) := fun o h f => unwrap (ls_apply_on_window dt o h f).
Definition W_qm_np {P} (D : dist P) thr det := fun o h f => unwrap (qm_apply_on_window det "nonparametric" D thr o h f).
Definition W_cdft em im := fun o h f => unwrap (cdft_apply_mapping "additive" em im o h f).

Lemma ARL_id l : ARL 1 0 l l.
Proof. induction l; constructor; [unfold AR; ring|assumption]. Qed.

Section PerWindow.
Variables a b : Q.
Hypothesis Ha : 0 < a.

Lemma W_ls_add_rel o o' h h' f f' : o <> [] -> h <> [] -> f <> [] -> ARL a b o o' -> ARL a b h h' -> ARL a b f f' ->
  ARL a b (W_ls "additive" o h f) (W_ls "additive" o' h' f').
Proof.
  intros No Nh Nf Ho Hh Hf. unfold W_ls, ls_apply_on_window. cbn [String.eqb Ascii.eqb Bool.eqb unwrap]. cbv zeta.
  apply (ARL_map a b); [exact Hf|]. intros x x' _ Hx.
  pose proof (qmean_rel a b o o' Ho No) as M1. pose proof (qmean_rel a b h h' Hh Nh) as M2. unfold AR in *. rewrite Hx, M1, M2. ring.
Qed.

Lemma W_cdft_rel em im : good_ecdf em -> forall o o' h h' f f', o <> [] -> h <> [] -> f <> [] -> ARL a b o o' -> ARL a b h h' -> ARL a b f f' ->
  ARL a b (W_cdft em im o h f) (W_cdft em im o' h' f').
Proof.
  intros Hem o o' h h' f f' No Nh Nf Ho Hh Hf. unfold W_cdft.
  destruct (cdft_unit_change em im Hem a b Ha o o' h h' f f' Ho Hh Hf No Nh Nf) as (out & out' & E & E' & R).
  rewrite E, E'. exact R.
Qed.

Lemma W_qm_np_rel {P} (D : dist P) thr det : det = "no_detrending"%string \/ det = "additive"%string ->
  forall o o' h h' f f', o <> [] -> h <> [] -> f <> [] -> ARL a b o o' -> ARL a b h h' -> ARL a b f f' ->
  ARL a b (W_qm_np D thr det o h f) (W_qm_np D thr det o' h' f').
Proof.
  intros Hd o o' h h' f f' No Nh Nf Ho Hh Hf. unfold W_qm_np.
  destruct (qm_nonparam_unit_change D thr a b Ha det Hd o o' h h' f f' Ho Hh Hf No Nh Nf) as (out & out' & E & E' & R).
  rewrite E, E'. exact R.
Qed.
End PerWindow.

(** conclusion shape: both runs succeed or fail together, and every time step's value is the same in the other unit *)
Definition same_in_other_unit (a b : Q) (r r' : option (list (option Q))) : Prop := orel (Forall2 (orel (AR a b))) r r'.

Section Lifted.
Variables (L S : Z) (dobs dhist dfut : list Z) (obs hist fut obs' hist' fut' : list Q).

(** C04: all three series in another unit *)
Theorem apply_location_unit_change (W : list Q -> list Q -> list Q -> list Q) a b :
  (forall o o' h h' f f', o <> [] -> h <> [] -> f <> [] -> ARL a b o o' -> ARL a b h h' -> ARL a b f f' -> ARL a b (W o h f) (W o' h' f')) ->
  windows_nonempty L S dfut dobs dhist dfut obs hist fut ->
  ARL a b obs obs' -> ARL a b hist hist' -> ARL a b fut fut' ->
  same_in_other_unit a b (driver_rw Q L S dobs dhist dfut obs hist fut W) (driver_rw Q L S dobs dhist dfut obs' hist' fut' W).
Proof. intros HW Hne Ho Hh Hf. exact (driver_rw_rel (AR a b) (AR a b) (AR a b) (AR a b) W W HW L S dobs dhist dfut obs obs' hist hist' fut fut' Hne Ho Hh Hf). Qed.
End Lifted.

Theorem ls_apply_location_unit_change a b : 0 < a -> forall L S dobs dhist dfut obs hist fut obs' hist' fut',
  windows_nonempty L S dfut dobs dhist dfut obs hist fut -> ARL a b obs obs' -> ARL a b hist hist' -> ARL a b fut fut' ->
  same_in_other_unit a b (driver_rw Q L S dobs dhist dfut obs hist fut (W_ls "additive")) (driver_rw Q L S dobs dhist dfut obs' hist' fut' (W_ls "additive")).
Proof. intros Ha L S dobs dhist dfut obs hist fut obs' hist' fut'. apply apply_location_unit_change. apply W_ls_add_rel; try exact Ha. Qed.

Theorem cdft_apply_location_unit_change em im a b : good_ecdf em -> 0 < a -> forall L S dobs dhist dfut obs hist fut obs' hist' fut',
  windows_nonempty L S dfut dobs dhist dfut obs hist fut -> ARL a b obs obs' -> ARL a b hist hist' -> ARL a b fut fut' ->
  same_in_other_unit a b (driver_rw Q L S dobs dhist dfut obs hist fut (W_cdft em im)) (driver_rw Q L S dobs dhist dfut obs' hist' fut' (W_cdft em im)).
Proof. intros Hem Ha L S dobs dhist dfut obs hist fut obs' hist' fut'. apply apply_location_unit_change. apply W_cdft_rel; assumption. Qed.

Theorem qm_np_apply_location_unit_change {P} (D : dist P) thr det a b : det = "no_detrending"%string \/ det = "additive"%string -> 0 < a ->
  forall L S dobs dhist dfut obs hist fut obs' hist' fut',
  windows_nonempty L S dfut dobs dhist dfut obs hist fut -> ARL a b obs obs' -> ARL a b hist hist' -> ARL a b fut fut' ->
  same_in_other_unit a b (driver_rw Q L S dobs dhist dfut obs hist fut (W_qm_np D thr det)) (driver_rw Q L S dobs dhist dfut obs' hist' fut' (W_qm_np D thr det)).
Proof. intros Hd Ha L S dobs dhist dfut obs hist fut obs' hist' fut'. apply apply_location_unit_change. apply W_qm_np_rel; assumption. Qed.

(** C02 through the windows: a constant added to cm_future alone *)
Theorem trend_preserved_through_windows (W : list Q -> list Q -> list Q -> list Q) c :
  (forall o o' h h' f f', o <> [] -> h <> [] -> f <> [] -> ARL 1 0 o o' -> ARL 1 0 h h' -> ARL 1 c f f' -> ARL 1 c (W o h f) (W o' h' f')) ->
  forall L S dobs dhist dfut obs hist fut, windows_nonempty L S dfut dobs dhist dfut obs hist fut ->
  same_in_other_unit 1 c (driver_rw Q L S dobs dhist dfut obs hist fut W) (driver_rw Q L S dobs dhist dfut obs hist (map (fun x => x + c) fut) W).
Proof.
  intros HW L S dobs dhist dfut obs hist fut Hne.
  apply (driver_rw_rel (AR 1 0) (AR 1 0) (AR 1 c) (AR 1 c) W W HW); try assumption; try apply ARL_id.
  clear. induction fut; constructor; [unfold AR; ring|assumption].
Qed.

Lemma W_ls_add_trend c o o' h h' f f' : o <> [] -> h <> [] -> f <> [] -> ARL 1 0 o o' -> ARL 1 0 h h' -> ARL 1 c f f' ->
  ARL 1 c (W_ls "additive" o h f) (W_ls "additive" o' h' f').
Proof.
  intros No Nh Nf Ho Hh Hf. unfold W_ls, ls_apply_on_window. cbn [String.eqb Ascii.eqb Bool.eqb unwrap]. cbv zeta.
  assert (H1 : 0 < 1) by lra.
  apply (ARL_map 1 c); [exact Hf|]. intros x x' _ Hx.
  pose proof (qmean_rel 1 0 o o' Ho No) as M1. pose proof (qmean_rel 1 0 h h' Hh Nh) as M2. unfold AR in *. rewrite Hx, M1, M2. ring.
Qed.

Theorem ls_trend_preserved_through_windows c : forall L S dobs dhist dfut obs hist fut, windows_nonempty L S dfut dobs dhist dfut obs hist fut ->
  same_in_other_unit 1 c (driver_rw Q L S dobs dhist dfut obs hist fut (W_ls "additive")) (driver_rw Q L S dobs dhist dfut obs hist (map (fun x => x + c) fut) (W_ls "additive")).
Proof. apply trend_preserved_through_windows. apply W_ls_add_trend. Qed.

(** a decidable form of the side condition, and a concrete instance *)
Definition nonnil {A} (l : list A) : bool := match l with [] => false | _ => true end.
Definition windows_nonempty_b (L S : Z) (dA dobs dhist dfut : list Z) (obs hist fut : list Q) : bool :=
  forallb (fun ci => nonnil (NP.take obs (days_indices_in_window L dobs (fst ci))) && nonnil (NP.take hist (days_indices_in_window L dhist (fst ci)))
                     && nonnil (NP.take fut (days_indices_in_window L dfut (fst ci)))) (days_use S dA).
Lemma windows_nonempty_b_ok L S dA dobs dhist dfut obs hist fut :
  windows_nonempty_b L S dA dobs dhist dfut obs hist fut = true -> windows_nonempty L S dA dobs dhist dfut obs hist fut.
Proof.
  unfold windows_nonempty_b, windows_nonempty. rewrite forallb_forall. intros H ci Hci. specialize (H ci Hci).
  apply andb_true_iff in H. destruct H as [H H3]. apply andb_true_iff in H. destruct H as [H1 H2].
  repeat split; intro E; rewrite E in *; discriminate.
Qed.

Example unit_change_through_windows_nonvacuous :
  let d := [1; 2; 3; 4; 5; 6; 7]%Z in let o := [280; 281; 283; 279; 284; 286; 282] in let h := [282; 284; 283; 281; 287; 288; 285] in
  let f := [285; 286; 289; 284; 290; 291; 287] in let k := map (fun x => x - 273) in
  windows_nonempty_b 3 1 d d d d o h f = true /\
  match driver_rw Q 3 1 d d d o h f (W_cdft linear_interpolation linear), driver_rw Q 3 1 d d d (k o) (k h) (k f) (W_cdft linear_interpolation linear) with
  | Some out, Some out' => forallb (fun p => match p with (Some u, Some v) => Qeq_bool v (u - 273) | _ => false end) (combine out out') = true /\ List.length out = 7%nat
  | _, _ => False
  end.
Proof. vm_compute. repeat split; reflexivity. Qed.

(* ---------- DeltaChange: the loop runs over obs and the output follows obs ---------- *)
Definition W_dc (dt : string) := fun o h f => unwrap (dc_apply_on_window dt o h f).

Lemma W_dc_add_rel a b : 0 < a -> forall o o' h h' f f', o <> [] -> h <> [] -> f <> [] -> ARL a b o o' -> ARL a b h h' -> ARL a b f f' ->
  ARL a b (W_dc "additive" o h f) (W_dc "additive" o' h' f').
Proof.
  intros Ha o o' h h' f f' No Nh Nf Ho Hh Hf. unfold W_dc, dc_apply_on_window. cbn [String.eqb Ascii.eqb Bool.eqb unwrap]. cbv zeta.
  apply (ARL_map a b); [exact Ho|]. intros x x' _ Hx.
  pose proof (qmean_rel a b f f' Hf Nf) as M1. pose proof (qmean_rel a b h h' Hh Nh) as M2. unfold AR in *. rewrite Hx, M1, M2. ring.
Qed.

Theorem dc_apply_location_unit_change a b : 0 < a -> forall L S dobs dhist dfut obs hist fut obs' hist' fut',
  windows_nonempty L S dobs dobs dhist dfut obs hist fut -> ARL a b obs obs' -> ARL a b hist hist' -> ARL a b fut fut' ->
  same_in_other_unit a b (driver_dc Q L S dobs dhist dfut obs hist fut (W_dc "additive")) (driver_dc Q L S dobs dhist dfut obs' hist' fut' (W_dc "additive")).
Proof.
  intros Ha L S dobs dhist dfut obs hist fut obs' hist' fut' Hne Ho Hh Hf.
  exact (driver_dc_rel (AR a b) (AR a b) (AR a b) (AR a b) (W_dc "additive") (W_dc "additive") (W_dc_add_rel a b Ha) L S dobs dhist dfut obs obs' hist hist' fut fut' Hne Ho Hh Hf).
Qed.

Lemma F2_map2 (R R' : Q -> Q -> Prop) (g g' : Q -> Q) l l' : Forall2 R l l' -> (forall x x', R x x' -> R' (g x) (g' x')) -> Forall2 R' (map g l) (map g' l').
Proof. intros H Hg. induction H as [|x x' l l' Hx Hl IH]; cbn [map]; constructor; [apply Hg; exact Hx|exact IH]. Qed.

Lemma W_dc_add_trend c o o' h h' f f' : o <> [] -> h <> [] -> f <> [] -> ARL 1 0 o o' -> ARL 1 0 h h' -> ARL 1 c f f' ->
  ARL 1 c (W_dc "additive" o h f) (W_dc "additive" o' h' f').
Proof.
  intros No Nh Nf Ho Hh Hf. unfold W_dc, dc_apply_on_window. cbn [String.eqb Ascii.eqb Bool.eqb unwrap]. cbv zeta.
  apply (F2_map2 (AR 1 0) (AR 1 c)); [exact Ho|]. intros x x' Hx.
  pose proof (qmean_rel 1 c f f' Hf Nf) as M1. pose proof (qmean_rel 1 0 h h' Hh Nh) as M2. unfold AR in *. rewrite Hx, M1, M2. ring.
Qed.

(** C02 for DeltaChange through the windows: a constant added to cm_future is added to every output value *)
Theorem dc_trend_preserved_through_windows c : forall L S dobs dhist dfut obs hist fut, windows_nonempty L S dobs dobs dhist dfut obs hist fut ->
  same_in_other_unit 1 c (driver_dc Q L S dobs dhist dfut obs hist fut (W_dc "additive")) (driver_dc Q L S dobs dhist dfut obs hist (map (fun x => x + c) fut) (W_dc "additive")).
Proof.
  intros L S dobs dhist dfut obs hist fut Hne.
  apply (driver_dc_rel (AR 1 0) (AR 1 0) (AR 1 c) (AR 1 c) (W_dc "additive") (W_dc "additive") (W_dc_add_trend c)); try assumption; try apply ARL_id.
  clear. induction fut; constructor; [unfold AR; ring|assumption].
Qed.
