(** C16: sort_array_like_another_one(x, y) = np.sort(x)[argsort(argsort(y))] returns a permutation of x
    ordered like y (Model/Ecdf.v: sort_like, with the stable rank that K4 compares against the implementation
    group-wise, ties of y being broken arbitrarily by NumPy). *)
From Coq Require Import QArith ZArith List Bool Lia Lqa Permutation Sorted.
From IV Require Import QL Ecdf QFacts QListFacts.
Import ListNotations.
Open Scope Q_scope.

Definition cnt (P : Q -> bool) (l : list Q) : nat := length (filter P l).

Lemma cnt_app P a b : cnt P (a ++ b) = (cnt P a + cnt P b)%nat.
Proof. unfold cnt. rewrite filter_app, app_length. reflexivity. Qed.
Lemma cnt_cons P v l : cnt P (v :: l) = ((if P v then 1 else 0) + cnt P l)%nat.
Proof. unfold cnt. cbn [filter]. destruct (P v); reflexivity. Qed.

Lemma cnt_disjoint P R l : (forall v, P v = true -> R v = true -> False) -> (cnt P l + cnt R l <= length l)%nat.
Proof.
  intro D. unfold cnt. induction l as [|v l IH]; [cbn; lia|]. cbn [filter length].
  destruct (P v) eqn:A, (R v) eqn:B; cbn [length]; try lia. exfalso. exact (D v A B).
Qed.
Lemma cnt_mono P R l : (forall v, P v = true -> R v = true) -> (cnt P l <= cnt R l)%nat.
Proof. intro H. apply filter_length_mono. intros v _. apply H. Qed.

Lemma split_at (y : list Q) i : (i < length y)%nat -> y = firstn i y ++ nth i y 0 :: skipn (S i) y.
Proof.
  revert i. induction y as [|a l IH]; intros i Hi; [cbn in Hi; lia|].
  destruct i; [reflexivity|]. cbn [firstn nth skipn app]. f_equal. apply IH. cbn in Hi. lia.
Qed.

Definition yv (y : list Q) (i : nat) : Q := nth i y 0.
Definition lt_of (t : Q) := fun v => Qlt_bool v t.
Definition eq_of (t : Q) := fun v => Qeq_bool v t.

Lemma rank_unfold y i : rank_in y i = (cnt (lt_of (yv y i)) y + cnt (eq_of (yv y i)) (firstn i y))%nat.
Proof. reflexivity. Qed.

(** E(i) < number of all elements equal to y_i *)
Lemma eq_before_lt_all y i : (i < length y)%nat -> (cnt (eq_of (yv y i)) (firstn i y) < cnt (eq_of (yv y i)) y)%nat.
Proof.
  intro Hi. pose proof (split_at y i Hi) as S. fold (yv y i) in S. set (t := yv y i) in *. clearbody t.
  rewrite S at 2. rewrite cnt_app, cnt_cons.
  assert (E : eq_of t t = true) by (apply Qeq_bool_iff; reflexivity). rewrite E. lia.
Qed.

Lemma rank_lt_length y i : (i < length y)%nat -> (rank_in y i < length y)%nat.
Proof.
  intro Hi. rewrite rank_unfold. pose proof (eq_before_lt_all y i Hi).
  pose proof (cnt_disjoint (lt_of (yv y i)) (eq_of (yv y i)) y) as D.
  assert (Dj : forall v, lt_of (yv y i) v = true -> eq_of (yv y i) v = true -> False).
  { intros v A B. unfold lt_of, eq_of in *. apply Qeq_bool_iff in B. qb. lra. }
  specialize (D Dj). lia.
Qed.

Lemma cnt_lt_eq_le a b l : a < b -> (cnt (lt_of a) l + cnt (eq_of a) l <= cnt (lt_of b) l)%nat.
Proof.
  intro Hab. induction l as [|w t IH]; [cbn; lia|]. rewrite !cnt_cons. unfold lt_of, eq_of in *.
  destruct (Qlt_bool w a) eqn:A; destruct (Qeq_bool w a) eqn:B; destruct (Qlt_bool w b) eqn:C; try lia;
    try (apply Qeq_bool_iff in B); qb; exfalso; lra.
Qed.

(** strictly smaller value => strictly smaller rank *)
Lemma rank_lt_of_value_lt y i j : (i < length y)%nat -> (j < length y)%nat -> yv y i < yv y j -> (rank_in y i < rank_in y j)%nat.
Proof.
  intros Hi Hj Hv. rewrite !rank_unfold.
  pose proof (eq_before_lt_all y i Hi) as E1. pose proof (cnt_lt_eq_le _ _ y Hv) as M. lia.
Qed.

Lemma firstn_firstn_le (y : list Q) i j : (i <= j)%nat -> firstn i y = firstn i (firstn j y).
Proof. intro H. rewrite firstn_firstn. f_equal. lia. Qed.

(** equal values: the earlier position has the smaller rank *)
Lemma rank_lt_of_earlier_tie y i j : (i < j)%nat -> (j < length y)%nat -> yv y i == yv y j -> (rank_in y i < rank_in y j)%nat.
Proof.
  intros Hij Hj Hv. rewrite !rank_unfold.
  assert (L : cnt (lt_of (yv y i)) y = cnt (lt_of (yv y j)) y).
  { unfold cnt. f_equal. apply filter_ext. intro v. unfold lt_of.
    destruct (Qlt_bool v (yv y i)) eqn:A, (Qlt_bool v (yv y j)) eqn:B; qb; try reflexivity; lra. }
  assert (Eq : forall l, cnt (eq_of (yv y i)) l = cnt (eq_of (yv y j)) l).
  { intro l. unfold cnt. f_equal. apply filter_ext. intro v. unfold eq_of.
    destruct (Qeq_bool v (yv y i)) eqn:A, (Qeq_bool v (yv y j)) eqn:B; try reflexivity.
    - apply Qeq_bool_iff in A. apply Qeq_bool_neq in B. exfalso. apply B. rewrite A. exact Hv.
    - apply Qeq_bool_iff in B. apply Qeq_bool_neq in A. exfalso. apply A. rewrite B. symmetry. exact Hv. }
  rewrite L, Eq.
  (* firstn j y = firstn i y ++ y_i :: ... *)
  assert (Hi' : (i < length (firstn j y))%nat) by (rewrite firstn_length; lia).
  pose proof (split_at (firstn j y) i Hi') as S.
  assert (N : nth i (firstn j y) 0 = nth i y 0).
  { rewrite <- (firstn_skipn j y) at 2. rewrite app_nth1 by exact Hi'. reflexivity. }
  rewrite firstn_firstn in S. replace (Nat.min i j) with i in S by lia. rewrite N in S.
  rewrite S at 1. rewrite cnt_app, cnt_cons. fold (yv y i).
  assert (E : eq_of (yv y j) (yv y i) = true) by (apply Qeq_bool_iff; exact Hv). rewrite E. lia.
Qed.

Theorem rank_injective y i j : (i < length y)%nat -> (j < length y)%nat -> rank_in y i = rank_in y j -> i = j.
Proof.
  intros Hi Hj E.
  destruct (Qlt_le_dec (yv y i) (yv y j)) as [A|A]; [pose proof (rank_lt_of_value_lt y i j Hi Hj A); lia|].
  destruct (Qlt_le_dec (yv y j) (yv y i)) as [B|B]; [pose proof (rank_lt_of_value_lt y j i Hj Hi B); lia|].
  assert (V : yv y i == yv y j) by lra.
  destruct (Nat.lt_trichotomy i j) as [Lt|[Eq|Gt]]; [|exact Eq|].
  - pose proof (rank_lt_of_earlier_tie y i j Lt Hj V). lia.
  - assert (V' : yv y j == yv y i) by (symmetry; exact V). pose proof (rank_lt_of_earlier_tie y j i Gt Hi V'). lia.
Qed.

Lemma NoDup_map_inj_in {A B} (f : A -> B) l : (forall x y, In x l -> In y l -> f x = f y -> x = y) -> NoDup l -> NoDup (map f l).
Proof.
  intros Hf Hl. induction Hl as [|a l Ha Hl IH]; [constructor|]. cbn [map]. constructor.
  - intro Hin. apply in_map_iff in Hin. destruct Hin as (b & Eb & Hb). apply Ha.
    rewrite (Hf a b (or_introl eq_refl) (or_intror Hb) (eq_sym Eb)). exact Hb.
  - apply IH. intros x y Hx Hy. apply Hf; right; assumption.
Qed.

(** the ranks of 0..n-1 are a permutation of 0..n-1 *)
Theorem ranks_permutation y : Permutation (map (rank_in y) (seq 0 (length y))) (seq 0 (length y)).
Proof.
  apply NoDup_Permutation_bis.
  - apply NoDup_map_inj_in; [|apply seq_NoDup].
    intros i j Hi Hj. apply in_seq in Hi. apply in_seq in Hj. apply rank_injective; lia.
  - rewrite map_length. lia.
  - intros r Hr. apply in_map_iff in Hr. destruct Hr as (i & <- & Hi). apply in_seq in Hi. apply in_seq.
    pose proof (rank_lt_length y i ltac:(lia)). lia.
Qed.

Lemma map_nth_seq (s : list Q) : map (fun k => nth k s 0) (seq 0 (length s)) = s.
Proof.
  induction s as [|a s IH]; [reflexivity|]. cbn [length seq map nth]. f_equal.
  rewrite <- seq_shift, map_map. exact IH.
Qed.

(** sort_like x y is a permutation of x *)
Theorem sort_like_permutation x y : length x = length y -> Permutation (sort_like x y) x.
Proof.
  intro L. unfold sort_like. cbv zeta.
  rewrite <- (map_map (rank_in y) (fun k => nth k (qsort x) 0)).
  apply Permutation_trans with (map (fun k => nth k (qsort x) 0) (seq 0 (length y))).
  - apply Permutation_map. apply ranks_permutation.
  - rewrite <- L, <- (qsort_length x). rewrite map_nth_seq. apply Permutation_sym. apply qsort_perm.
Qed.

(** ... ordered like y: a strictly smaller y gets a value that is not larger *)
Theorem sort_like_ordered x y i j : length x = length y -> (i < length y)%nat -> (j < length y)%nat ->
  yv y i < yv y j -> nth i (sort_like x y) 0 <= nth j (sort_like x y) 0.
Proof.
  intros L Hi Hj Hv. unfold sort_like. cbv zeta.
  set (g := fun k => nth (rank_in y k) (qsort x) 0).
  assert (N : forall k, (k < length y)%nat -> nth k (map g (seq 0 (length y))) 0 = g k).
  { intros k Hk. rewrite (nth_indep _ 0 (g 0%nat)) by (rewrite map_length, seq_length; exact Hk). rewrite map_nth, seq_nth by exact Hk. reflexivity. }
  rewrite (N i Hi), (N j Hj). unfold g.
  pose proof (rank_lt_of_value_lt y i j Hi Hj Hv) as R. pose proof (rank_lt_length y j Hj) as Rj.
  apply sorted_nth_le; [apply qsort_sorted|]. rewrite qsort_length. lia.
Qed.
