(** C16 for the histogram ECDF (ecdf "kernel_density" = rv_histogram(np.histogram(x)).cdf): for ANY
    non-decreasing bin edges and non-negative counts with positive total (NumPy's choice of edges is an input),
    values lie in [0,1], are non-decreasing in the evaluation point and reach 1 at the last edge. *)
From Coq Require Import QArith Qabs Qround ZArith List Bool Lia Lqa Sorted.
From IV Require Import QL Ecdf QFacts QListFacts C16_step C16_lerp C16_interp.
Import ListNotations.
Open Scope Q_scope.

Section Hist.
Variables (edges counts : list Q).
Hypothesis He : sortedQ edges.
Hypothesis Hc : Forall (fun c => 0 <= c) counts.
Hypothesis Hlen : length edges = S (length counts).
Hypothesis Htot : 0 < QL.qsum counts.

Definition hist_fp : list Q := 0 :: map (fun c => Qred (c / QL.qsum counts)) (cumsum_from 0 counts).

Lemma cumsum_from_length l : forall acc, length (cumsum_from acc l) = length l.
Proof. induction l as [|c l IH]; intro acc; cbn; [reflexivity|]. rewrite IH. reflexivity. Qed.

Lemma hist_fp_length : length edges = length hist_fp.
Proof. unfold hist_fp. cbn [length]. rewrite map_length, cumsum_from_length. exact Hlen. Qed.

Lemma sorted_map_mono (g : Q -> Q) l : (forall u v, u <= v -> g u <= g v) -> sortedQ l -> sortedQ (map g l).
Proof.
  intros Hg Hl. induction Hl as [|x l Hl IH Hx]; cbn [map]; constructor; [exact IH|].
  apply Forall_forall. intros y Hy. apply in_map_iff in Hy. destruct Hy as (z & <- & Hz). apply Hg.
  rewrite Forall_forall in Hx. apply Hx. exact Hz.
Qed.

Lemma hist_fp_sorted : sortedQ hist_fp.
Proof.
  unfold hist_fp.
  pose proof (cumsum_from_sorted counts 0 Hc) as Sc.
  assert (G : forall u v, u <= v -> Qred (u / QL.qsum counts) <= Qred (v / QL.qsum counts)).
  { intros u v Huv. rewrite !Qred_correct. apply Qdiv_le_compat; assumption. }
  pose proof (sorted_map_mono _ _ G Sc) as Sm. cbn [map] in Sm.
  inversion Sm as [|? ? Sm' Hf]; subst. constructor; [exact Sm'|].
  apply Forall_forall. intros y Hy. rewrite Forall_forall in Hf. specialize (Hf y Hy).
  assert (Z0 : Qred (0 / QL.qsum counts) == 0) by (rewrite Qred_correct; unfold Qdiv; ring). lra.
Qed.

Lemma cumsum_last l : forall acc, last (acc :: cumsum_from acc l) 0 == acc + QL.qsum l.
Proof.
  induction l as [|c l IH]; intro acc; cbn [cumsum_from].
  - cbn. ring.
  - change (last (acc :: Qred (acc + c) :: cumsum_from (Qred (acc + c)) l) 0) with (last (Qred (acc + c) :: cumsum_from (Qred (acc + c)) l) 0).
    rewrite IH, Qred_correct, qsum_cons. ring.
Qed.

Lemma hist_fp_last : last hist_fp 0 == 1.
Proof.
  unfold hist_fp. destruct counts as [|c cs] eqn:Ec.
  - exfalso. rewrite qsum_nil in Htot. lra.
  - rewrite <- Ec in *.
    assert (L : forall (g : Q -> Q) l d, l <> [] -> last (map g l) (g d) = g (last l d)).
    { intros g l d. induction l as [|x l IH]; [congruence|]. intros _. destruct l as [|y l]; [reflexivity|]. cbn [map]. 
      change (last (g x :: g y :: map g l) (g d)) with (last (g y :: map g l) (g d)). change (last (x :: y :: l) d) with (last (y :: l) d).
      apply (IH ltac:(discriminate)). }
    assert (NE : cumsum_from 0 counts <> []) by (rewrite Ec; discriminate).
    assert (E1 : last (0 :: map (fun c0 => Qred (c0 / QL.qsum counts)) (cumsum_from 0 counts)) 0 = last (map (fun c0 => Qred (c0 / QL.qsum counts)) (cumsum_from 0 counts)) 0).
    { destruct (cumsum_from 0 counts); [congruence|reflexivity]. }
    rewrite E1.
    assert (E2 : last (map (fun c0 => Qred (c0 / QL.qsum counts)) (cumsum_from 0 counts)) 0 == Qred (last (cumsum_from 0 counts) 0 / QL.qsum counts)).
    { rewrite <- (L (fun c0 => Qred (c0 / QL.qsum counts)) _ 0 NE).
      assert (Z0 : (fun c0 => Qred (c0 / QL.qsum counts)) 0 = 0) by (cbv beta; transitivity (Qred 0); [apply Qred_complete; unfold Qdiv; ring|reflexivity]).
      rewrite Z0. reflexivity. }
    rewrite E2, Qred_correct.
    assert (E3 : last (cumsum_from 0 counts) 0 == QL.qsum counts).
    { pose proof (cumsum_last counts 0) as CL. destruct (cumsum_from 0 counts) eqn:Ecs; [congruence|].
      change (last (0 :: q :: l) 0) with (last (q :: l) 0) in CL. rewrite CL. ring. }
    rewrite E3. field. lra.
Qed.

Theorem ecdf_hist_range y : 0 <= ecdf_hist edges counts y <= 1.
Proof.
  unfold ecdf_hist. cbv zeta. fold hist_fp.
  assert (Nf : hist_fp <> []) by (unfold hist_fp; discriminate).
  destruct (interp_bounds y edges hist_fp hist_fp_length He hist_fp_sorted Nf) as [B0 B1].
  split.
  - apply Qle_trans with (hd 0 hist_fp); [cbn; apply Qle_refl|exact B0].
  - rewrite hist_fp_last in B1. exact B1.
Qed.

Theorem ecdf_hist_mono y1 y2 : y1 <= y2 -> ecdf_hist edges counts y1 <= ecdf_hist edges counts y2.
Proof.
  intro H. unfold ecdf_hist. cbv zeta. fold hist_fp.
  apply interp_mono; try assumption; [exact hist_fp_length|exact hist_fp_sorted|unfold hist_fp; discriminate].
Qed.

Theorem ecdf_hist_at_last_edge y : (forall e, In e edges -> e <= y) -> ecdf_hist edges counts y == 1.
Proof.
  intro H. unfold ecdf_hist. cbv zeta. fold hist_fp.
  rewrite (interp_at_or_above_last y edges hist_fp hist_fp_length); [exact hist_fp_last|unfold hist_fp; discriminate| |exact H].
  intro E. rewrite E in Hlen. discriminate.
Qed.
End Hist.
