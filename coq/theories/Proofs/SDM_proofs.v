(** ScaledDistributionMapping (absolute), hand model Model/SDM.v (tie: correspondence K15):
    C02 -- a constant added to cm_future passes through unchanged. *)
From Coq Require Import QArith Qabs ZArith List Bool Lia Lqa.
From IV Require Import QL Dist Ecdf QListFacts SDM.
Import ListNotations.
Open Scope Q_scope.

Lemma detrend_shift c l : l <> [] -> detrend_const (map (fun x => x + c) l) = detrend_const l.
Proof.
  intro Hne. unfold detrend_const. cbv zeta. rewrite map_map. apply map_ext. intro x.
  apply Qred_complete. rewrite (qmean_shift c l Hne). ring.
Qed.

Lemma F2_map_in {A} (f g : A -> Q) (R : Q -> Q -> Prop) l : (forall x, In x l -> R (f x) (g x)) -> Forall2 R (map f l) (map g l).
Proof. induction l as [|a l IH]; intro H; cbn [map]; constructor; [apply H; left; reflexivity|apply IH; intros x Hx; apply H; right; exact Hx]. Qed.

Section S.
Context {P : Type} (D : dist P).
Variable scale_of : P -> Q.

Theorem sdm_absolute_trend_preserving c obs hist fut : fut <> [] ->
  Forall2 (fun u v => v == u + c) (sdm_absolute D scale_of obs hist fut) (sdm_absolute D scale_of obs hist (map (fun x => x + c) fut)).
Proof.
  intro Hne. unfold sdm_absolute. cbv zeta. rewrite (detrend_shift c fut Hne), map_length.
  apply F2_map_in. intros i Hi. apply in_seq in Hi. rewrite !Qred_correct.
  rewrite (nth_indep (map (fun x => x + c) fut) 0 (0 + c)) by (rewrite map_length; lia).
  rewrite (map_nth (fun x => x + c)). ring.
Qed.
End S.

Lemma Qred_nonneg t : 0 <= t -> 0 <= Qred t.
Proof. intro H. rewrite Qred_correct. exact H. Qed.

(** relative variant (precipitation), C10: never negative, for a distribution on the non-negative half line *)
Section Rel.
Context {P : Type} (D : dist P).
Hypothesis ppf_nonneg : forall p q, 0 <= ppf D p q.

Lemma skipn_incl {A} (l : list A) : forall n x, In x (skipn n l) -> In x l.
Proof. induction l as [|a l IH]; intros [|n] x H; cbn in *; try contradiction; auto. right. apply (IH n). exact H. Qed.

Theorem sdm_relative_nonneg pr_thr cdf_thr obs hist fut out :
  sdm_relative D pr_thr cdf_thr obs hist fut = Some out -> Forall (fun v => 0 <= v) out.
Proof.
  unfold sdm_relative. lazy zeta. destruct (_ || _)%bool; [discriminate|].
  match goal with |- Some ?l = Some _ -> _ => set (L := l) end. intro E. injection E as <-. unfold L. clear L.
  apply Forall_forall. intros v Hv. apply in_map_iff in Hv. destruct Hv as (i & <- & _).
  assert (G : forall k (l : list Q), (forall y, In y l -> 0 <= y) -> 0 <= nth k l 0).
  { intros k l H. destruct (nth_in_or_default k l 0) as [Hin|E]; [apply H; exact Hin|rewrite E; apply Qle_refl]. }
  apply G. intros y Hin.
  apply in_app_or in Hin. destruct Hin as [Hz|Hb].
  - apply repeat_spec in Hz. rewrite Hz. apply Qle_refl.
  - unfold last_n in Hb. apply skipn_incl in Hb. apply in_map_iff in Hb. destruct Hb as (k & <- & _).
    apply Qred_nonneg. apply Qmult_le_0_compat; [apply ppf_nonneg|].
    unfold Qdiv. apply Qmult_le_0_compat; [apply ppf_nonneg|]. apply Qinv_le_0_compat. apply ppf_nonneg.
Qed.
End Rel.
