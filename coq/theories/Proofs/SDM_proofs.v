(** ScaledDistributionMapping (absolute), hand model Model/SDM.v (tie: correspondence K15):
    C02 -- a constant added to cm_future passes through unchanged. *)
From Coq Require Import QArith Qabs ZArith List Bool Lia Lqa.
From IV Require Import QL Dist Ecdf QListFacts SDM.
Import ListNotations.
Open Scope Q_scope.

Lemma detrend_shift c l : l <> [] -> detrend_const (map (fun x => x + c) l) = detrend_const l.
Proof.
  intro Hne. unfold detrend_const. cbv zeta. rewrite map_map. apply map_ext. intro x.
  apply Qred_complete. rewrite (qmean_shift c l Hne). ring.
Qed.

Lemma F2_map_in {A} (f g : A -> Q) (R : Q -> Q -> Prop) l : (forall x, In x l -> R (f x) (g x)) -> Forall2 R (map f l) (map g l).
Proof. induction l as [|a l IH]; intro H; cbn [map]; constructor; [apply H; left; reflexivity|apply IH; intros x Hx; apply H; right; exact Hx]. Qed.

Section S.
Context {P : Type} (D : dist P).
Variable scale_of : P -> Q.

Theorem sdm_absolute_trend_preserving c obs hist fut : fut <> [] ->
  Forall2 (fun u v => v == u + c) (sdm_absolute D scale_of obs hist fut) (sdm_absolute D scale_of obs hist (map (fun x => x + c) fut)).
Proof.
  intro Hne. unfold sdm_absolute. cbv zeta. rewrite (detrend_shift c fut Hne), map_length.
  apply F2_map_in. intros i Hi. apply in_seq in Hi. rewrite !Qred_correct.
  rewrite (nth_indep (map (fun x => x + c) fut) 0 (0 + c)) by (rewrite map_length; lia).
  rewrite (map_nth (fun x => x + c)). ring.
Qed.
End S.
