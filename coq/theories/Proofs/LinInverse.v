(** The interpolated ECDF (ecdf "linear_interpolation") and the linear quantile (iecdf "linear") of a tie-free
    sample are inverse to each other: used for the CDFt fixed point (C03). *)
From Coq Require Import QArith Qabs Qround ZArith List Bool Lia Lqa Sorted.
From IV Require Import QL Ecdf QFacts QListFacts C16_step C16_lerp C16_interp C16_compose Affine.
Import ListNotations.
Open Scope Q_scope.

Definition strictQ (l : list Q) : Prop := StronglySorted Qlt l.

Lemma strict_sorted l : strictQ l -> sortedQ l.
Proof. induction 1 as [|x l Hl IH Hx]; constructor; [exact IH|]. eapply Forall_impl; [|exact Hx]. intros y Hy. apply Qlt_le_weak. exact Hy. Qed.

Lemma strict_nth_lt l : strictQ l -> forall i j, (i < j < length l)%nat -> nth i l 0 < nth j l 0.
Proof.
  induction 1 as [|x l Hl IH Hx]; intros i j Hij; [cbn in Hij; lia|].
  destruct j; [lia|]. destruct i.
  - cbn. rewrite Forall_forall in Hx. apply Hx. apply nth_In. cbn in Hij. lia.
  - cbn. apply IH. cbn in Hij. lia.
Qed.

(** np.interp on a strictly increasing grid: the value on the bracket [xp_k, xp_{k+1}) *)
Lemma interp_aux_bracket y : forall k xp fp, length xp = length fp -> strictQ xp -> (S k < length xp)%nat ->
  nth k xp 0 <= y -> y < nth (S k) xp 0 ->
  interp_aux y xp fp == nth k fp 0 + (nth (S k) fp 0 - nth k fp 0) * ((y - nth k xp 0) / (nth (S k) xp 0 - nth k xp 0)).
Proof.
  induction k as [|k IH]; intros xp fp L St Hk H0 H1.
  - destruct xp as [|x0 [|x1 xr]]; try (cbn in Hk; lia). destruct fp as [|f0 [|f1 fr]]; try discriminate.
    rewrite interp_aux_cons2. cbn [nth] in *. apply Qle_bool_false in H1. rewrite H1. apply Qred_correct.
  - destruct xp as [|x0 [|x1 xr]]; try (cbn in Hk; lia). destruct fp as [|f0 [|f1 fr]]; try discriminate.
    rewrite interp_aux_cons2.
    assert (X1 : x1 <= y).
    { apply Qle_trans with (nth (S k) (x0 :: x1 :: xr) 0); [|exact H0].
      destruct k; [cbn; apply Qle_refl|]. apply Qlt_le_weak. apply (strict_nth_lt _ St 1%nat (S (S k))). cbn in *. lia. }
    apply Qle_bool_iff in X1. rewrite X1.
    change (nth (S k) (x0 :: x1 :: xr) 0) with (nth k (x1 :: xr) 0) in *.
    change (nth (S (S k)) (x0 :: x1 :: xr) 0) with (nth (S k) (x1 :: xr) 0) in *.
    change (nth (S k) (f0 :: f1 :: fr) 0) with (nth k (f1 :: fr) 0).
    change (nth (S (S k)) (f0 :: f1 :: fr) 0) with (nth (S k) (f1 :: fr) 0).
    apply IH; try assumption; [cbn in *; lia|inversion St; assumption|cbn in *; lia].
Qed.

Lemma interp_bracket y k xp fp : length xp = length fp -> strictQ xp -> (S k < length xp)%nat ->
  nth k xp 0 <= y -> y < nth (S k) xp 0 ->
  interp y xp fp == nth k fp 0 + (nth (S k) fp 0 - nth k fp 0) * ((y - nth k xp 0) / (nth (S k) xp 0 - nth k xp 0)).
Proof.
  intros L St Hk H0 H1. unfold interp.
  destruct xp as [|x0 xr]; [cbn in Hk; lia|]. destruct fp as [|f0 fr]; [discriminate|].
  assert (X0 : x0 <= y).
  { apply Qle_trans with (nth k (x0 :: xr) 0); [|exact H0]. destruct k; [cbn; apply Qle_refl|].
    apply Qlt_le_weak. apply (strict_nth_lt _ St 0%nat (S k)). lia. }
  apply Qlt_bool_false in X0. rewrite X0. apply interp_aux_bracket; assumption.
Qed.

Lemma linspace01_nth n k : (2 <= n)%nat -> (k < n)%nat -> nth k (linspace01 n) 0 == inject_Z (Z.of_nat k) / inject_Z (Z.of_nat n - 1).
Proof.
  intros Hn Hk. destruct n as [|[|n]]; try lia. unfold linspace01.
  set (g := fun k0 : nat => Qred (inject_Z (Z.of_nat k0) / inject_Z (Z.of_nat (S (S n)) - 1))).
  change 0 with (g 0%nat) at 1.
  rewrite map_nth. rewrite seq_nth by exact Hk. unfold g. rewrite Qred_correct. reflexivity.
Qed.

Section Inverse.
Variable s : list Q.
Hypothesis Hs : strictQ s.
Hypothesis Hn : (2 <= length s)%nat.
Let n1 : Q := inject_Z (zlen s - 1).
Lemma n1_pos : 0 < n1.
Proof. unfold n1. apply inject_Z_pos. unfold zlen. lia. Qed.

(** ecdf at the k-th order statistic *)
Lemma ecdf_lin_at_order_stat k : (k < length s)%nat -> ecdf_lin_sorted s (nth k s 0) == inject_Z (Z.of_nat k) / n1.
Proof.
  intro Hk. unfold ecdf_lin_sorted. pose proof n1_pos as Np.
  destruct (Nat.eq_dec (S k) (length s)) as [E|E].
  - (* the maximum *)
    rewrite (interp_at_or_above_last (nth k s 0) s (linspace01 (length s))).
    + rewrite (linspace01_last _ Hn). unfold n1, zlen. replace (Z.of_nat (length s) - 1)%Z with (Z.of_nat k) by lia. field.
      intro Z0. assert (0 < inject_Z (Z.of_nat k)) by (apply inject_Z_pos; lia). lra.
    + rewrite linspace01_length. reflexivity.
    + intro Z0. pose proof (linspace01_length (length s)) as L. rewrite Z0 in L. cbn in L. lia.
    + destruct s; [cbn in Hn; lia|discriminate].
    + intros x Hx. destruct (In_nth _ _ 0 Hx) as (j & Hj & <-).
      destruct (Nat.eq_dec j k) as [->|Nj]; [apply Qle_refl|]. apply Qlt_le_weak. apply (strict_nth_lt _ Hs). lia.
  - rewrite (interp_bracket _ k); try assumption; try lia.
    + rewrite !linspace01_nth by lia. unfold n1, zlen.
      setoid_replace ((nth k s 0 - nth k s 0) / (nth (S k) s 0 - nth k s 0)) with 0 by (unfold Qdiv; ring). ring.
    + rewrite linspace01_length. reflexivity.
    + apply Qle_refl.
    + apply (strict_nth_lt _ Hs). lia.
Qed.

Lemma zlen_nat : zlen s = Z.of_nat (length s).
Proof. reflexivity. Qed.

Lemma lerp_at_proper v v' : v == v' -> lerp_at s v == lerp_at s v'.
Proof.
  intro E. unfold lerp_at. cbv zeta.
  assert (B1 : Qle_bool (inject_Z (zlen s - 1)) v = Qle_bool (inject_Z (zlen s - 1)) v').
  { destruct (Qle_bool _ v) eqn:A, (Qle_bool _ v') eqn:B; qb; try reflexivity; lra. }
  assert (B2 : Qlt_bool v 0 = Qlt_bool v' 0).
  { destruct (Qlt_bool v 0) eqn:A, (Qlt_bool v' 0) eqn:B; qb; try reflexivity; lra. }
  rewrite B1, B2. destruct (Qle_bool _ v'); [reflexivity|]. destruct (Qlt_bool v' 0); [reflexivity|].
  rewrite !Qred_correct. rewrite (Qfloor_comp _ _ E). rewrite E. reflexivity.
Qed.

(** the linear quantile at an integer virtual index is the order statistic *)
Lemma lerp_at_int k v : (k < length s)%nat -> v == inject_Z (Z.of_nat k) -> lerp_at s v == nth k s 0.
Proof.
  intros Hk E. rewrite (lerp_at_proper _ _ E). clear E v.
  destruct (Nat.eq_dec (S k) (length s)) as [Ek|Ek].
  - rewrite lerp_at_high; [unfold nthq; f_equal|]; rewrite zlen_nat.
    + replace (Z.of_nat (length s) - 1)%Z with (Z.of_nat k) by lia. rewrite Nat2Z.id. reflexivity.
    + apply inject_Z_le. lia.
  - rewrite lerp_at_mid.
    + rewrite Qfloor_Z. unfold nthq. rewrite Nat2Z.id. setoid_replace (inject_Z (Z.of_nat k) - inject_Z (Z.of_nat k)) with 0 by ring. ring.
    + apply inject_Z_lt. rewrite zlen_nat. lia.
    + change 0 with (inject_Z 0). apply inject_Z_le. lia.
Qed.

Lemma vindex_linear p : vindex (fst (alpha_beta linear)) (snd (alpha_beta linear)) (zlen s) p == n1 * p.
Proof. unfold vindex, n1. cbn [alpha_beta fst snd]. unfold Z.sub. rewrite inject_Z_plus, inject_Z_opp. change (inject_Z 1) with 1. ring. Qed.

(** (I1) quantile of the ECDF value of a sample point is the sample point *)
Theorem iecdf_ecdf_lin_at_sample y : In y s -> iecdf_sorted linear s (ecdf_lin_sorted s y) == y.
Proof.
  intro Hy. destruct (In_nth _ _ 0 Hy) as (k & Hk & <-). cbn [iecdf_sorted]. cbv zeta.
  apply lerp_at_int; [exact Hk|]. rewrite vindex_linear, (ecdf_lin_at_order_stat k Hk).
  pose proof n1_pos. field. lra.
Qed.

(** (I2) ECDF value of the p-quantile is p *)
Theorem ecdf_iecdf_lin p : 0 <= p <= 1 -> ecdf_lin_sorted s (iecdf_sorted linear s p) == p.
Proof.
  intros [P0 P1]. cbn [iecdf_sorted]. cbv zeta. pose proof n1_pos as Np.
  set (v := n1 * p).
  assert (Ev : lerp_at s (vindex (fst (alpha_beta linear)) (snd (alpha_beta linear)) (zlen s) p) == lerp_at s v) by (apply lerp_at_proper; apply vindex_linear).
  assert (V0 : 0 <= v) by (unfold v; apply Qmult_le_0_compat; lra).
  assert (V1 : v <= n1) by (unfold v; rewrite <- (Qmult_1_r n1) at 2; apply Qmult_le_l; lra).
  assert (Pv : p == v / n1) by (unfold v; field; lra).
  (* properness of ecdf_lin_sorted in its evaluation point *)
  assert (PE : forall y y', y == y' -> ecdf_lin_sorted s y == ecdf_lin_sorted s y').
  { intros y y' E. assert (Hid : Affine.ARL 1 0 s s) by (clear; induction s; constructor; [unfold Affine.AR; ring|assumption]).
    unfold ecdf_lin_sorted. symmetry. apply (Affine.interp_rel 1 0 ltac:(lra) y y' s s); [exact Hid|unfold Affine.AR; rewrite E; ring]. }
  rewrite (PE _ _ Ev). rewrite Pv. clear Ev Pv.
  destruct (Qlt_le_dec v n1) as [Lt|Ge].
  - (* interior *)
    rewrite (PE _ _ (lerp_at_mid s v Lt V0)).
    pose proof (Qfloor_nonneg v V0) as F0. pose proof (Qfloor_lt_Z v (zlen s - 1) Lt) as F1. rewrite zlen_nat in F1.
    destruct (floor_frac v) as [G0 G1]. set (kz := Qfloor v) in *. set (g := v - inject_Z kz) in *.
    set (k := Z.to_nat kz). assert (Kz : kz = Z.of_nat k) by (unfold k; lia).
    assert (Hk : (S k < length s)%nat) by lia.
    unfold nthq. replace (Z.to_nat (kz + 1)) with (S k) by lia. fold k.
    pose proof (strict_nth_lt _ Hs k (S k) ltac:(lia)) as D.
    unfold ecdf_lin_sorted. rewrite (interp_bracket _ k); try assumption.
    + rewrite !linspace01_nth by lia. fold n1. replace (inject_Z (Z.of_nat (length s) - 1)) with n1 by reflexivity.
      assert (Vg : v == inject_Z (Z.of_nat k) + g) by (unfold g; rewrite Kz; ring).
      rewrite Nat2Z.inj_succ. unfold Z.succ. rewrite inject_Z_plus. change (inject_Z 1) with 1. rewrite Vg. field. split; lra.
    + rewrite linspace01_length. reflexivity.
    + nra.
    + nra.
  - (* the last point *)
    assert (E : v == n1) by lra.
    rewrite (PE _ _ (lerp_at_proper _ _ E)). rewrite lerp_at_high by (unfold n1; apply Qle_refl).
    unfold nthq. rewrite zlen_nat. replace (Z.to_nat (Z.of_nat (length s) - 1)) with (length s - 1)%nat by lia.
    rewrite (ecdf_lin_at_order_stat (length s - 1)) by lia. rewrite E. unfold n1. rewrite zlen_nat.
    replace (Z.of_nat (length s - 1)) with (Z.of_nat (length s) - 1)%Z by lia. field. fold n1. unfold n1 in Np. rewrite zlen_nat in Np. lra.
Qed.
End Inverse.
