(** C12: the program extracted from the source (Gen/GenEffects.v) passes the effect checker; with the
    soundness theorem of Proofs/Effects_proofs.v this is a statement about every execution. *)
From Coq Require Import List Bool String Arith Lia.
From IV Require Import Effects Effects_proofs GenEffects.
Import ListNotations.
Open Scope string_scope.

Lemma extracted_program_checks : check_program gen_program gen_summaries gen_pointsto = true.
Proof. vm_compute. reflexivity. Qed.

Definition is_nil {A} (l : list A) : bool := match l with [] => true | _ => false end.
Definition summary_of (f : fname) : summary := match lookup f gen_summaries with Some s => s | None => mkSum [0] [0] ["<missing>"] end.

(** apply / apply_location of every debiaser: no parameter is mutated *)
Lemma entries_mutate_nothing : forallb (fun e => is_nil (mut (summary_of e))) entry_points = true.
Proof. vm_compute. reflexivity. Qed.

(** apply_location assigns no attribute of the instance; apply assigns only derived helper attributes
    (and QDM's None-guarded cdf_threshold) *)
Definition allowed_self_writes : list string :=
  ["running_window"; "running_window_over_years_of_cm_future"; "cdf_threshold";
   "window_length_in_days"; "window_step_length_in_days"; "window_length_in_years"; "window_step_length_in_years"].
Lemma entries_self_writes : forallb (fun e =>
    if String.eqb (substring (String.length e - 14) 14 e) "apply_location" then is_nil (selfw (summary_of e))
    else forallb (fun a => smem a allowed_self_writes) (selfw (summary_of e))) entry_points = true.
Proof. vm_compute. reflexivity. Qed.

(** the metric methods never modify the dataset passed in (C19's clause) *)
Lemma metrics_mutate_nothing : forallb (fun e => is_nil (mut (summary_of e))) metric_methods = true.
Proof. vm_compute. reflexivity. Qed.

Lemma lookup_summary_of e s : lookup e gen_summaries = Some s -> summary_of e = s.
Proof. unfold summary_of. intros ->. reflexivity. Qed.

(** every execution of an entry point (any call depth, any interleaving / repetition of the extracted
    statements) leaves every array that existed before the call — in particular obs, cm_hist, cm_future
    and the time arrays — unwritten *)
Theorem entry_points_pure e : In e entry_points ->
  forall n locs h nx sf h' nx' sf' lr, (forall l, In l locs -> l < nx) ->
  call gen_program n e locs h nx sf h' nx' sf' lr -> forall k, k < nx -> h' k = h k.
Proof.
  intros He n locs h nx sf h' nx' sf' lr Hargs Hcall k Hk.
  pose proof entries_mutate_nothing as Hm. rewrite forallb_forall in Hm. specialize (Hm e He).
  destruct (lookup e gen_summaries) as [s|] eqn:Es.
  - apply (pure_function gen_program gen_summaries gen_pointsto extracted_program_checks e s n locs h nx sf h' nx' sf' lr Es); try assumption.
    rewrite (lookup_summary_of e s Es) in Hm. destruct (mut s); [reflexivity|discriminate].
  - unfold summary_of in Hm. rewrite Es in Hm. discriminate.
Qed.

Theorem metric_methods_pure e : In e metric_methods ->
  forall n locs h nx sf h' nx' sf' lr, (forall l, In l locs -> l < nx) ->
  call gen_program n e locs h nx sf h' nx' sf' lr -> forall k, k < nx -> h' k = h k.
Proof.
  intros He n locs h nx sf h' nx' sf' lr Hargs Hcall k Hk.
  pose proof metrics_mutate_nothing as Hm. rewrite forallb_forall in Hm. specialize (Hm e He).
  destruct (lookup e gen_summaries) as [s|] eqn:Es.
  - apply (pure_function gen_program gen_summaries gen_pointsto extracted_program_checks e s n locs h nx sf h' nx' sf' lr Es); try assumption.
    rewrite (lookup_summary_of e s Es) in Hm. destruct (mut s); [reflexivity|discriminate].
  - unfold summary_of in Hm. rewrite Es in Hm. discriminate.
Qed.

(** instance state: whatever an entry point assigns is in its summary (for apply_location: nothing), so
    earlier calls cannot influence later ones through the instance *)
Theorem entry_points_self_writes e s : In e entry_points -> lookup e gen_summaries = Some s ->
  forall n locs h nx sf h' nx' sf' lr, (forall l, In l locs -> l < nx) ->
  call gen_program n e locs h nx sf h' nx' sf' lr -> forall a, In a sf' -> In a sf \/ In a (selfw s).
Proof.
  intros He Es n locs h nx sf h' nx' sf' lr Hargs Hcall.
  apply (self_writes_bounded gen_program gen_summaries gen_pointsto extracted_program_checks e s n locs h nx sf h' nx' sf' lr Es Hargs Hcall).
Qed.

(** no source of randomness or ambient state other than numpy's global generator is called anywhere in the
    analysed modules, and no call had to be classified fail-closed *)
Theorem no_other_random_sources : other_random_sources = [].
Proof. reflexivity. Qed.
Theorem no_unclassified_calls : unclassified_calls = [].
Proof. reflexivity. Qed.
