(** The coded run-length trick (np.diff(np.where(concat([m[0]], m[:-1]!=m[1:], [True]))[0])[::2])
    equals the lengths of the maximal runs of True, for series of EVERY length. *)
From Coq Require Import ZArith List Bool Lia.
From IV Require Import NP Metrics.
Import ListNotations.
Open Scope Z_scope.

(** positions (from [off]) at which the series changes value relative to [prev], then the end *)
Fixpoint pos_aux (off : Z) (prev : bool) (m : list bool) : list Z :=
  match m with
  | [] => [off]
  | b :: r => if Bool.eqb prev b then pos_aux (off + 1) b r else off :: pos_aux (off + 1) b r
  end.

Lemma where_changes r : forall prev off, NP.where_from off (changes (prev :: r) ++ [true]) = pos_aux off prev r.
Proof.
  induction r as [|b r IH]; intros prev off.
  - reflexivity.
  - change (changes (prev :: b :: r)) with (negb (Bool.eqb prev b) :: changes (b :: r)).
    cbn [app NP.where_from pos_aux]. rewrite IH. destruct (Bool.eqb prev b); reflexivity.
Qed.

Definition E (l : list Z) : list Z := every_other (diffs l).

Lemma E3 p q x l : E (p :: q :: x :: l) = (q - p) :: E (x :: l).
Proof. reflexivity. Qed.
Lemma E2 p q : E [p; q] = [q - p].
Proof. reflexivity. Qed.
Lemma E1 p : E [p] = [].
Proof. reflexivity. Qed.

Lemma pos_aux_nonempty off prev m : exists x l, pos_aux off prev m = x :: l.
Proof.
  revert off prev. induction m as [|b r IH]; intros off prev; cbn [pos_aux]; [eauto|].
  destruct (Bool.eqb prev b); [apply IH|eauto].
Qed.

Lemma E_runs r :
  (forall off, E (pos_aux off false r) = map Z.of_nat (runs_aux 0 r)) /\
  (forall off p, p < off -> E (p :: pos_aux off true r) = map Z.of_nat (runs_aux (Z.to_nat (off - p)) r)).
Proof.
  induction r as [|b r [IHf IHt]]; split.
  - intro off. reflexivity.
  - intros off p Hp. cbn [pos_aux runs_aux]. rewrite E2.
    destruct (Nat.eqb (Z.to_nat (off - p)) 0) eqn:Z0; [apply Nat.eqb_eq in Z0; lia|].
    cbn [map]. rewrite Z2Nat.id by lia. reflexivity.
  - intro off. destruct b; cbn [pos_aux Bool.eqb runs_aux].
    + rewrite (IHt (off + 1) off) by lia. replace (off + 1 - off) with 1 by lia. reflexivity.
    + apply IHf.
  - intros off p Hp. destruct b; cbn [pos_aux Bool.eqb runs_aux].
    + rewrite (IHt (off + 1) p) by lia. replace (Z.to_nat (off + 1 - p)) with (S (Z.to_nat (off - p))) by lia. reflexivity.
    + destruct (Nat.eqb (Z.to_nat (off - p)) 0) eqn:Z0; [apply Nat.eqb_eq in Z0; lia|].
      destruct (pos_aux_nonempty (off + 1) false r) as [x [l Hx]].
      pose proof (IHf (off + 1)) as Hf. rewrite Hx in *. rewrite E3, Hf. cbn [map]. rewrite Z2Nat.id by lia. reflexivity.
Qed.

Theorem spells_eq_runs m : spells m = map Z.of_nat (runs m).
Proof.
  destruct m as [|m0 r]; [reflexivity|].
  unfold spells, runs, NP.where_idx. change ((m0 :: changes (m0 :: r)) ++ [true]) with (m0 :: (changes (m0 :: r) ++ [true])).
  cbn [NP.where_from]. rewrite where_changes. replace (0 + 1) with 1 by reflexivity.
  destruct m0; cbn [runs_aux].
  - pose proof (proj2 (E_runs r) 1 0 ltac:(lia)) as H. unfold E in H. rewrite H. reflexivity.
  - pose proof (proj1 (E_runs r) 1) as H. unfold E in H. exact H.
Qed.
