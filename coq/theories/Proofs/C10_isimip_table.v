(** C10: the ISIMIP per-variable settings (EXTRACTED from ibicus/debias/_isimip_options.py) are well-formed
    -- lower bound <= lower threshold < upper threshold <= upper bound for every variable -- and every variable
    that has a bound or a threshold is run WITHOUT detrending, so that step 7 (REGENERATED) is the identity and
    the value structure established by step 6 is that of the window's final output. *)
From Coq Require Import QArith ZArith List Bool String.
From IV Require Import QL XQ ConfigBase GenConfig GenIsimip.
Import ListNotations.
Open Scope Q_scope.

Definition xle (a b : XQ.t) : bool := XQ.leb a b.
Definition xlt (a b : XQ.t) : bool := XQ.ltb a b.

Definition settings_well_formed (v : isimip_var) : bool :=
  xle (iv_lower_bound v) (iv_lower_threshold v) && xlt (iv_lower_threshold v) (iv_upper_threshold v) && xle (iv_upper_threshold v) (iv_upper_bound v).

Definition is_bounded (v : isimip_var) : bool :=
  has_lower_bound (iv_lower_bound v) || has_upper_bound (iv_upper_bound v) || has_lower_threshold (iv_lower_threshold v) || has_upper_threshold (iv_upper_threshold v).

Theorem isimip_settings_well_formed : forallb (fun p => settings_well_formed (snd p)) isimip_variable_settings = true.
Proof. vm_compute. reflexivity. Qed.

Theorem isimip_bounded_not_detrended : forallb (fun p => implb (is_bounded (snd p)) (negb (iv_detrending (snd p)))) isimip_variable_settings = true.
Proof. vm_compute. reflexivity. Qed.

Theorem isimip_table_covers_ten_variables : map fst isimip_variable_settings =
  ["hurs"; "pr"; "prsnratio"; "psl"; "rsds"; "rlds"; "sfcwind"; "tas"; "tasrange"; "tasskew"]%string.
Proof. vm_compute. reflexivity. Qed.

(** step 7 without detrending returns the step-6 values unchanged *)
Theorem step7_identity_without_detrending cm trend : isimip_step7 false cm trend = cm.
Proof. reflexivity. Qed.

Theorem step7_bounded_variables name v cm trend : In (name, v) isimip_variable_settings -> is_bounded v = true ->
  isimip_step7 (iv_detrending v) cm trend = cm.
Proof.
  intros Hin Hb. pose proof isimip_bounded_not_detrended as H. rewrite forallb_forall in H. specialize (H _ Hin). cbn [snd] in H.
  rewrite Hb in H. cbn [implb] in H. destruct (iv_detrending v); [discriminate|reflexivity].
Qed.
