(** C04 for ISIMIP's window pipeline (unbounded additive variable): expressing the three series in another unit
    (x -> a x + b, a > 0) changes every debiased value of the window by the same map.  Relational (AR a b). *)
From Coq Require Import QArith ZArith List Bool Lia Lqa.
From IV Require Import NP NPFacts QL QListFacts QFacts Dist Ecdf GenUtils GenWindows Grid Driver Driver_rel YearsDriver_proofs C16_compose Affine C02_proofs
     ApplyLocation_units ApplyLocation_param IsimipStep3 IsimipStep3_proofs IsimipStep5 IsimipStep5_proofs IsimipWindow IsimipWindow_proofs RatLS RatLS_proofs.
Import ListNotations.
Open Scope Q_scope.

Section Units.
Variables a b : Q.
Hypothesis Ha : 0 < a.

Lemma qsum_AR l l' : ARL a b l l' -> QL.qsum l' == a * QL.qsum l + b * QL.qlen l.
Proof. intro H. rewrite (qsum_eql _ _ (ARL_eql a b l l' H)). apply qsum_map_affine. Qed.

Lemma qmean_AR l l' : l <> [] -> ARL a b l l' -> QL.qmean l' == a * QL.qmean l + b.
Proof.
  intros Hne H. rewrite !qmean_spec, (qsum_AR l l' H).
  assert (L : QL.qlen l' = QL.qlen l) by (unfold QL.qlen; rewrite (ARL_length a b l l' H); reflexivity).
  rewrite L. pose proof (qlen_pos l Hne). field. lra.
Qed.

Lemma yearly_means_AR years x x' : length x = length years -> ARL a b x x' -> ARL a b (yearly_means years x) (yearly_means years x').
Proof.
  intros L H. unfold yearly_means, ARL.
  induction (NP.unique years) as [|y uy IH] eqn:E in |- *; [constructor|].
  generalize (fun y Hy => proj1 (unique_in years y) Hy). intro Hin.
  assert (G : forall l, (forall y, In y l -> In y years) ->
     Forall2 (AR a b) (map (fun y => QL.qmean (vals_of_year years x y)) l) (map (fun y => QL.qmean (vals_of_year years x' y)) l)).
  { induction l as [|z l IHl]; intro Hl; cbn [map]; constructor.
    - unfold AR. apply qmean_AR; [apply (vals_of_year_nonempty years x z L); apply Hl; left; reflexivity|].
      unfold vals_of_year. apply select_rel. exact H.
    - apply IHl. intros w Hw. apply Hl. right; exact Hw. }
  apply G. intros z Hz. apply Hin. rewrite E. exact Hz.
Qed.

Lemma sum2_scale k (f : Q -> Q -> Q) : forall t v, sum2 (fun x y => k * f x y) t v == k * sum2 f t v.
Proof.
  unfold sum2. induction t as [|x t IH]; intros v; [cbn [combine map]; rewrite !qsum_nil; ring|].
  destruct v as [|y v]; [cbn [combine map]; rewrite !qsum_nil; ring|]. cbn [combine map fst snd]. rewrite !qsum_cons, IH. ring.
Qed.

Lemma ols_slope_AR t v v' : t <> [] -> length v = length t -> ARL a b v v' -> ols_slope t v' == a * ols_slope t v.
Proof.
  intros Ht L H. unfold ols_slope. cbv zeta.
  assert (Hn : 0 < QL.qlen t) by (apply qlen_pos; exact Ht).
  assert (Hlen : QL.qlen v == QL.qlen t) by (unfold QL.qlen; rewrite L; reflexivity).
  assert (Hs : QL.qsum v' / QL.qlen t == a * (QL.qsum v / QL.qlen t) + b).
  { rewrite (qsum_AR v v' H), Hlen. field. lra. }
  assert (N : sum2 (fun x y => (x - QL.qsum t / QL.qlen t) * (y - QL.qsum v' / QL.qlen t)) t v'
           == a * sum2 (fun x y => (x - QL.qsum t / QL.qlen t) * (y - QL.qsum v / QL.qlen t)) t v).
  { rewrite <- sum2_scale. symmetry. apply sum2_pair. eapply Forall2_weaken; [|exact H]. cbn beta.
    intros y y' Hy x. unfold AR in Hy. rewrite Hy, Hs. ring. }
  assert (Dn : sum2 (fun x _ => (x - QL.qsum t / QL.qlen t) * (x - QL.qsum t / QL.qlen t)) t v'
           == sum2 (fun x _ => (x - QL.qsum t / QL.qlen t) * (x - QL.qsum t / QL.qlen t)) t v).
  { symmetry. apply sum2_pair. eapply Forall2_weaken; [|exact H]. cbn beta. intros y y' _ x. reflexivity. }
  rewrite N, Dn. unfold Qdiv. ring.
Qed.

Lemma annual_trend_AR sig years x x' : years <> [] -> length x = length years -> ARL a b x x' ->
  Forall2 (fun p p' => fst p' = fst p /\ snd p' == a * snd p) (annual_trend sig years x) (annual_trend sig years x').
Proof.
  intros Hne L H. unfold annual_trend. cbv zeta.
  assert (Hs : ols_slope (map inject_Z (NP.unique years)) (yearly_means years x')
            == a * ols_slope (map inject_Z (NP.unique years)) (yearly_means years x)).
  { apply ols_slope_AR.
    - intro E0. apply map_eq_nil in E0. apply (unique_nonempty years Hne). exact E0.
    - unfold yearly_means. rewrite !map_length. reflexivity.
    - apply yearly_means_AR; assumption. }
  set (s1 := ols_slope (map inject_Z (NP.unique years)) (yearly_means years x')) in *.
  set (s2 := ols_slope (map inject_Z (NP.unique years)) (yearly_means years x)) in *.
  set (tm := QL.qsum (map inject_Z (NP.unique years)) / QL.qlen (map inject_Z (NP.unique years))).
  clearbody s1 s2 tm.
  induction (NP.unique years) as [|y uy IH]; cbn [map]; constructor; [|exact IH].
  cbn [fst snd]. split; [reflexivity|]. destruct sig; [rewrite Hs; ring | ring].
Qed.

Lemma lookup_year_scale (tr tr' : list (Z * Q)) y :
  Forall2 (fun p p' => fst p' = fst p /\ snd p' == a * snd p) tr tr' -> lookup_year tr' y == a * lookup_year tr y.
Proof.
  induction 1 as [|[u v] [u' v'] tr tr' [Hu Hv] _ IH]; [cbn; ring|]. cbn [fst snd] in *. subst u'.
  cbn [lookup_year]. destruct (Z.eqb u y); [exact Hv | exact IH].
Qed.

Lemma step3_trend_AR sig years x x' : years <> [] -> length x = length years -> ARL a b x x' ->
  Forall2 (fun t t' => t' == a * t) (step3_trend sig years x) (step3_trend sig years x').
Proof.
  intros Hne L H. unfold step3_trend.
  induction years as [|y ys _] in |- * at 2 4; [constructor|].
  assert (G : forall l, Forall2 (fun t t' => t' == a * t) (map (lookup_year (annual_trend sig years x)) l) (map (lookup_year (annual_trend sig years x')) l)).
  { induction l as [|z l IHl]; cbn [map]; constructor; [|exact IHl]. apply lookup_year_scale. apply annual_trend_AR; assumption. }
  apply G.
Qed.

Lemma zip_sub_AR : forall x x' t t', ARL a b x x' -> Forall2 (fun t t' => t' == a * t) t t' ->
  ARL a b (QL.zip2 (fun u v => Qred (u - v)) x t) (QL.zip2 (fun u v => Qred (u - v)) x' t').
Proof.
  intros x x' t t' H. revert t t'. induction H as [|u u' x x' Hu Hx IH]; intros t t' E.
  - destruct t, t'; constructor.
  - inversion E as [|y y' t0 t0' Hy Hr]; subst; cbn [QL.zip2]; constructor.
    + unfold AR in *. rewrite !Qred_correct, Hu, Hy. ring.
    + apply IH. exact Hr.
Qed.

Theorem step3_remove_AR sig years x x' : years <> [] -> length x = length years -> ARL a b x x' ->
  ARL a b (step3_remove sig years x) (step3_remove sig years x').
Proof.
  intros Hne L H. unfold step3_remove. apply zip_sub_AR; [exact H|]. apply step3_trend_AR; assumption.
Qed.

Lemma zip_add_AR : forall m m' t t', ARL a b m m' -> Forall2 (fun t t' => t' == a * t) t t' ->
  ARL a b (QL.zip2 (fun u v => Qred (u + v)) m t) (QL.zip2 (fun u v => Qred (u + v)) m' t').
Proof.
  intros m m' t t' H. revert t t'. induction H as [|u u' m m' Hu Hm IH]; intros t t' E.
  - destruct t, t'; constructor.
  - inversion E as [|y y' t0 t0' Hy Hr]; subst; cbn [QL.zip2]; constructor.
    + unfold AR in *. rewrite !Qred_correct, Hu, Hy. ring.
    + apply IH. exact Hr.
Qed.

Section Window.
Context {P : Type} (D : dist P).
Variable good : list Q -> Prop.
Hypothesis Hfit : fit_unit_change D a b good.
Hypothesis good_ne : forall l, good l -> l <> [].
Variables (em : ecdf_method) (im : iecdf_method) (thr : Q).
Hypothesis Hem : em = step_function \/ em = linear_interpolation.

Lemma step6_unbounded_AR ofu ofu' f f' : good ofu -> good f -> ARL a b ofu ofu' -> ARL a b f f' ->
  ARL a b (step6_unbounded D thr ofu f) (step6_unbounded D thr ofu' f').
Proof.
  intros No Nf Ho Hf. unfold step6_unbounded.
  destruct (Hfit ofu ofu' No Ho) as [_ Po]. destruct (Hfit f f' Nf Hf) as [Cf _].
  apply (ARL_map a b); [exact Hf|]. intros x x' _ Hx. unfold AR.
  apply Po. apply thr_proper. symmetry. apply Cf. exact Hx.
Qed.

(** all three series expressed in the other unit (years unchanged, the same significance decisions) *)
Theorem isimip_window_unit_change so sh sf yo yh yf obs obs' hist hist' fut fut' :
  yo <> [] -> yh <> [] -> yf <> [] -> length obs = length yo -> length hist = length yh -> length fut = length yf ->
  step3_remove so yo obs <> [] -> step3_remove sh yh hist <> [] ->
  good (step3_remove sf yf fut) ->
  good (step5 TAdditive em im 0 0 (step3_remove so yo obs) (step3_remove sh yh hist) (step3_remove sf yf fut)) ->
  ARL a b obs obs' -> ARL a b hist hist' -> ARL a b fut fut' ->
  ARL a b (isimip_window D em im thr so sh sf yo yh yf obs hist fut) (isimip_window D em im thr so sh sf yo yh yf obs' hist' fut').
Proof.
  intros Hyo Hyh Hyf Lo Lh Lf No Nh Gf Gof Ho Hh Hf. unfold isimip_window. cbv zeta. unfold step7_restore.
  pose proof (step3_remove_AR so yo obs obs' Hyo Lo Ho) as Ro.
  pose proof (step3_remove_AR sh yh hist hist' Hyh Lh Hh) as Rh.
  pose proof (step3_remove_AR sf yf fut fut' Hyf Lf Hf) as Rf.
  apply zip_add_AR; [|apply step3_trend_AR; assumption].
  apply step6_unbounded_AR; try assumption.
  apply (step5_additive_unit_change em im a b 0 0); try assumption. apply good_ne; exact Gf.
Qed.
End Window.
End Units.

Theorem isimip_window_unit_change_ratls a b em im thr so sh sf yo yh yf obs obs' hist hist' fut fut' :
  0 < a -> em = step_function \/ em = linear_interpolation ->
  yo <> [] -> yh <> [] -> yf <> [] -> length obs = length yo -> length hist = length yh -> length fut = length yf ->
  step3_remove so yo obs <> [] -> step3_remove sh yh hist <> [] ->
  ratls_good (step3_remove sf yf fut) ->
  ratls_good (step5 TAdditive em im 0 0 (step3_remove so yo obs) (step3_remove sh yh hist) (step3_remove sf yf fut)) ->
  ARL a b obs obs' -> ARL a b hist hist' -> ARL a b fut fut' ->
  ARL a b (isimip_window ratls em im thr so sh sf yo yh yf obs hist fut) (isimip_window ratls em im thr so sh sf yo yh yf obs' hist' fut').
Proof.
  intros Ha Hem. apply (isimip_window_unit_change a b Ha ratls ratls_good); [apply ratls_fit_unit_change; exact Ha | intros l [H _]; exact H | exact Hem].
Qed.

(* ---------- through the day-window loop, all three series in the other unit ---------- *)
Definition PR2 (a b : Q) (p p' : Q * Z) : Prop := snd p' = snd p /\ fst p' == a * fst p + b.

Lemma PR2_fst a b l l' : Forall2 (PR2 a b) l l' -> ARL a b (map fst l) (map fst l').
Proof. induction 1 as [|p p' l l' [_ Hv] _ IH]; cbn [map]; constructor; [exact Hv | exact IH]. Qed.
Lemma PR2_snd a b l l' : Forall2 (PR2 a b) l l' -> map snd l' = map snd l.
Proof. induction 1 as [|p p' l l' [Hy _] _ IH]; cbn [map]; [reflexivity | rewrite Hy, IH; reflexivity]. Qed.

Section LoopUnits.
Variables a b : Q.
Hypothesis Ha : 0 < a.
Context {P : Type} (D : dist P).
Variable good : list Q -> Prop.
Hypothesis Hfit : fit_unit_change D a b good.
Hypothesis good_ne : forall l, good l -> l <> [].
Variables (em : ecdf_method) (im : iecdf_method) (thr : Q).
Hypothesis Hem : em = step_function \/ em = linear_interpolation.
Variable sigf : list Q -> list Z -> bool.
(** the significance decision does not depend on the unit *)
Hypothesis sig_unit : forall x x' y, ARL a b x x' -> sigf x' y = sigf x y.

Lemma W_isimip_unit_rel o o' h h' f f' : o <> [] -> h <> [] -> window_ok good em im sigf o h f ->
  Forall2 (PR2 a b) o o' -> Forall2 (PR2 a b) h h' -> Forall2 (PR2 a b) f f' ->
  ARL a b (W_isimip D em im thr sigf o h f) (W_isimip D em im thr sigf o' h' f').
Proof.
  intros Noo Nhh (Nf & No & Nh & Gf & Gof) Ho Hh Hf. unfold W_isimip.
  rewrite (PR2_snd a b o o' Ho), (PR2_snd a b h h' Hh), (PR2_snd a b f f' Hf).
  rewrite (sig_unit _ _ _ (PR2_fst a b o o' Ho)), (sig_unit _ _ _ (PR2_fst a b h h' Hh)), (sig_unit _ _ _ (PR2_fst a b f f' Hf)).
  apply (isimip_window_unit_change a b Ha D good Hfit good_ne em im thr Hem); try assumption;
    try (intro E; apply map_eq_nil in E; contradiction); try (rewrite !map_length; reflexivity); apply PR2_fst; assumption.
Qed.

Theorem isimip_unit_change_through_windows L S dobs dhist dfut (obs obs' hist hist' fut fut' : list (Q * Z)) :
  (forall ci, In ci (days_use S dfut) ->
     NP.take obs (days_indices_in_window L dobs (fst ci)) <> [] /\ NP.take hist (days_indices_in_window L dhist (fst ci)) <> [] /\
     window_ok good em im sigf (NP.take obs (days_indices_in_window L dobs (fst ci))) (NP.take hist (days_indices_in_window L dhist (fst ci)))
               (NP.take fut (days_indices_in_window L dfut (fst ci)))) ->
  Forall2 (PR2 a b) obs obs' -> Forall2 (PR2 a b) hist hist' -> Forall2 (PR2 a b) fut fut' ->
  orel (Forall2 (orel (AR a b))) (driver_rw Q L S dobs dhist dfut obs hist fut (W_isimip D em im thr sigf))
                                 (driver_rw Q L S dobs dhist dfut obs' hist' fut' (W_isimip D em im thr sigf)).
Proof.
  intros Hok Ho Hh Hf. unfold driver_rw. apply driver_rel. intros ci Hci. destruct (Hok ci Hci) as (N1 & N2 & Wok).
  apply W_isimip_unit_rel; try assumption; apply take_rel; assumption.
Qed.
End LoopUnits.
