(** C16 part 4: laws of the public helpers (unsorted samples) and of quantile mapping. *)
From Coq Require Import QArith Qabs Qround ZArith List Bool Lia Lqa Sorted.
From IV Require Import QL Ecdf QFacts C16_step C16_lerp C16_discrete C16_interp.
Import ListNotations.
Open Scope Q_scope.

Definition proved_iecdf (m : iecdf_method) : Prop := m = inverted_cdf \/ continuous_method m \/ discrete_numpy m.
(** ... which is every method *)
Lemma every_iecdf_method_proved m : proved_iecdf m.
Proof. destruct m; unfold proved_iecdf, continuous_method, discrete_numpy; intuition congruence. Qed.
Definition proved_ecdf (m : ecdf_method) : Prop := m = step_function \/ m = linear_interpolation.

Lemma qsort_nonempty x : x <> [] -> qsort x <> [].
Proof. intros Hne E. apply (f_equal (@length Q)) in E. rewrite qsort_length in E. destruct x; [congruence|discriminate]. Qed.

Lemma sorted_first_is_min x : x <> [] -> nthq (qsort x) 0 == QL.qmin x.
Proof.
  intro Hne. pose proof (qsort_nonempty x Hne) as Hs.
  apply Qle_antisym.
  - apply sorted_first_le; [apply qsort_sorted|]. apply qsort_in. apply qmin_in. exact Hne.
  - apply qmin_le. apply qsort_in. apply nthq_in. pose proof (zlen_pos _ Hs). lia.
Qed.

Lemma sorted_last_is_max x : x <> [] -> nthq (qsort x) (zlen (qsort x) - 1) == QL.qmax x.
Proof.
  intro Hne. pose proof (qsort_nonempty x Hne) as Hs.
  apply Qle_antisym.
  - apply qmax_ge. apply qsort_in. apply nthq_in. pose proof (zlen_pos _ Hs). lia.
  - apply sorted_last_ge; [apply qsort_sorted|]. apply qsort_in. apply qmax_in. exact Hne.
Qed.

(* ---------- ecdf ---------- *)
Lemma ecdf_range m x y : proved_ecdf m -> x <> [] -> 0 <= ecdf m x y <= 1.
Proof. intros [E|E] Hne; subst m; cbn [ecdf]; [apply ecdf_step_range|apply ecdf_lin_range]; exact Hne. Qed.

Lemma ecdf_mono m x y1 y2 : proved_ecdf m -> x <> [] -> y1 <= y2 -> ecdf m x y1 <= ecdf m x y2.
Proof. intros [E|E] Hne H; subst m; cbn [ecdf]; [apply ecdf_step_mono|apply ecdf_lin_mono]; assumption. Qed.

Lemma ecdf_at_max m x : proved_ecdf m -> (2 <= length x)%nat -> ecdf m x (QL.qmax x) == 1.
Proof.
  intros [E|E] Hn; subst m; cbn [ecdf]; [apply ecdf_step_at_max|apply ecdf_lin_at_max; exact Hn].
  destruct x; [cbn in Hn; lia|discriminate].
Qed.

(* ---------- iecdf ---------- *)
Lemma iecdf_range m x p : proved_iecdf m -> x <> [] -> 0 <= p <= 1 -> QL.qmin x <= iecdf m x p <= QL.qmax x.
Proof.
  intros Hm Hne Hp. pose proof (qsort_nonempty x Hne) as Hs. unfold iecdf.
  rewrite <- (sorted_first_is_min x Hne), <- (sorted_last_is_max x Hne).
  destruct Hm as [E|[Hc|Hd]].
  - subst m. cbn [iecdf_sorted]. apply iecdf_inv_range; [apply qsort_sorted|exact Hs|exact Hp].
  - apply quantile_ab_range; [exact Hc|apply qsort_sorted|exact Hs].
  - apply discrete_range; [exact Hd|apply qsort_sorted|exact Hs|exact Hp].
Qed.

Lemma iecdf_mono m x p1 p2 : proved_iecdf m -> x <> [] -> 0 <= p1 -> p1 <= p2 -> p2 <= 1 ->
  iecdf m x p1 <= iecdf m x p2.
Proof.
  intros Hm Hne H0 H12 H1. pose proof (qsort_nonempty x Hne) as Hs. unfold iecdf.
  destruct Hm as [E|[Hc|Hd]].
  - subst m. cbn [iecdf_sorted]. apply iecdf_inv_mono; try assumption. apply qsort_sorted.
  - apply quantile_ab_mono; try assumption. apply qsort_sorted.
  - apply discrete_mono; try assumption. apply qsort_sorted.
Qed.

Lemma iecdf_at_0 m x : proved_iecdf m -> x <> [] -> iecdf m x 0 == QL.qmin x.
Proof.
  intros Hm Hne. pose proof (qsort_nonempty x Hne) as Hs. unfold iecdf.
  rewrite <- (sorted_first_is_min x Hne). destruct Hm as [E|[Hc|Hd]].
  - subst m. cbn [iecdf_sorted]. rewrite iecdf_inv_0. reflexivity.
  - apply quantile_ab_0; [exact Hc|apply qsort_sorted|exact Hs].
  - rewrite (discrete_at_0 m _ Hd Hs). reflexivity.
Qed.

Lemma iecdf_at_1 m x : proved_iecdf m -> x <> [] -> iecdf m x 1 == QL.qmax x.
Proof.
  intros Hm Hne. pose proof (qsort_nonempty x Hne) as Hs. unfold iecdf.
  rewrite <- (sorted_last_is_max x Hne). destruct Hm as [E|[Hc|Hd]].
  - subst m. cbn [iecdf_sorted]. rewrite iecdf_inv_1. reflexivity.
  - rewrite (quantile_ab_1 m _ Hc Hs). reflexivity.
  - rewrite (discrete_at_1 m _ Hd Hs). reflexivity.
Qed.

(* ---------- quantile mapping ---------- *)
Lemma qmap_mono em im x y v1 v2 : proved_ecdf em -> proved_iecdf im -> x <> [] -> y <> [] -> v1 <= v2 ->
  qmap em im x y v1 <= qmap em im x y v2.
Proof.
  intros He Hi Hx Hy Hv. unfold qmap.
  pose proof (ecdf_range em x v1 He Hx) as R1. pose proof (ecdf_range em x v2 He Hx) as R2.
  apply iecdf_mono; try assumption; try lra. apply ecdf_mono; assumption.
Qed.

Lemma qmap_range em im x y v : proved_ecdf em -> proved_iecdf im -> x <> [] -> y <> [] ->
  QL.qmin y <= qmap em im x y v <= QL.qmax y.
Proof. intros He Hi Hx Hy. unfold qmap. apply iecdf_range; try assumption. apply ecdf_range; assumption. Qed.

(** the extrapolating variant: identical inside [min x, max x], a constant shift outside *)
Lemma qmap_extrap_inside em im x y v : QL.qmin x <= v <= QL.qmax x ->
  qmap_extrap em im x y v = qmap em im x y v.
Proof.
  intros [H1 H2]. unfold qmap_extrap. cbv zeta.
  apply Qlt_bool_false in H1. rewrite H1. apply Qlt_bool_false in H2. rewrite H2. reflexivity.
Qed.

Lemma qmap_extrap_below em im x y v : v < QL.qmin x -> qmap_extrap em im x y v == v + (QL.qmin y - QL.qmin x).
Proof. intro H. unfold qmap_extrap. cbv zeta. apply Qlt_bool_true in H. rewrite H. apply Qred_correct. Qed.

Lemma qmap_extrap_above em im x y v : x <> [] -> QL.qmax x < v -> qmap_extrap em im x y v == v + (QL.qmax y - QL.qmax x).
Proof.
  intros Hne H. unfold qmap_extrap. cbv zeta.
  assert (M : QL.qmin x <= QL.qmax x) by (apply qmin_le; apply qmax_in; exact Hne).
  assert (H1 : Qlt_bool v (QL.qmin x) = false) by (apply Qlt_bool_false; lra). rewrite H1.
  apply Qlt_bool_true in H. rewrite H. apply Qred_correct.
Qed.

Lemma qmap_extrap_mono em im x y v1 v2 : proved_ecdf em -> proved_iecdf im -> x <> [] -> y <> [] -> v1 <= v2 ->
  qmap_extrap em im x y v1 <= qmap_extrap em im x y v2.
Proof.
  intros He Hi Hx Hy Hv.
  assert (M : QL.qmin x <= QL.qmax x) by (apply qmin_le; apply qmax_in; exact Hx).
  assert (R : forall v, QL.qmin x <= v <= QL.qmax x -> QL.qmin y <= qmap_extrap em im x y v <= QL.qmax y).
  { intros v Hin. rewrite (qmap_extrap_inside em im x y v Hin). apply qmap_range; assumption. }
  destruct (Qlt_le_dec v1 (QL.qmin x)) as [A1|A1]; destruct (Qlt_le_dec v2 (QL.qmin x)) as [A2|A2];
  destruct (Qlt_le_dec (QL.qmax x) v1) as [B1|B1]; destruct (Qlt_le_dec (QL.qmax x) v2) as [B2|B2]; try lra.
  - rewrite (qmap_extrap_below em im x y v1 A1), (qmap_extrap_below em im x y v2 A2). lra.
  - rewrite (qmap_extrap_below em im x y v1 A1), (qmap_extrap_above em im x y v2 Hx B2).
    assert (QL.qmin y <= QL.qmax y) by (apply qmin_le; apply qmax_in; exact Hy). lra.
  - rewrite (qmap_extrap_below em im x y v1 A1). pose proof (R v2 ltac:(lra)). lra.
  - rewrite (qmap_extrap_above em im x y v1 Hx B1), (qmap_extrap_above em im x y v2 Hx B2). lra.
  - rewrite (qmap_extrap_above em im x y v2 Hx B2). pose proof (R v1 ltac:(lra)). lra.
  - rewrite (qmap_extrap_inside em im x y v1 ltac:(lra)), (qmap_extrap_inside em im x y v2 ltac:(lra)).
    apply qmap_mono; assumption.
Qed.

(** continuity at the ends of the source range for the interpolating pair: the shifted branch
    tends to min y / max y, which is the value of the inner branch at min x / max x *)
Lemma qmap_extrap_continuous_lin im x y : proved_iecdf im -> (2 <= length x)%nat -> y <> [] ->
  qmap linear_interpolation im x y (QL.qmax x) == QL.qmax y.
Proof.
  intros Hi Hn Hy. unfold qmap. cbn [ecdf].
  assert (E : ecdf_lin x (QL.qmax x) == 1) by (apply ecdf_lin_at_max; exact Hn).
  unfold iecdf. destruct Hi as [Ei|[Hc|Hd]].
  3:{ rewrite (discrete_proper im _ _ 1 Hd E). rewrite (discrete_at_1 im _ Hd (qsort_nonempty y Hy)). apply sorted_last_is_max. exact Hy. }
  - subst im. cbn [iecdf_sorted]. unfold iecdf_inv.
    rewrite (Qfloor_comp _ (inject_Z (zlen (qsort y) - 1))); [rewrite Qfloor_Z; apply sorted_last_is_max; exact Hy|].
    rewrite E. ring.
  - destruct im; try destruct Hc; cbn [iecdf_sorted];
    (rewrite lerp_at_high; [apply sorted_last_is_max; exact Hy|]);
    unfold vindex; rewrite E; cbn [alpha_beta fst snd]; unfold Zminus; rewrite inject_Z_plus, inject_Z_opp;
    change (inject_Z 1) with 1; lra.
Qed.

(* ---------- x on y ("normal" mode): order kept, equal values have equal images ---------- *)
Lemma xony_nth em im x y i : (i < length x)%nat ->
  nth i (xony_normal em im x y) 0 = qmap em im x y (nth i x 0).
Proof.
  intro H. unfold xony_normal. rewrite (nth_indep _ 0 (qmap em im x y 0)) by (rewrite map_length; exact H). apply map_nth.
Qed.

Lemma xony_order em im x y i j : proved_ecdf em -> proved_iecdf im -> y <> [] -> (i < length x)%nat -> (j < length x)%nat ->
  nth i x 0 <= nth j x 0 -> nth i (xony_normal em im x y) 0 <= nth j (xony_normal em im x y) 0.
Proof.
  intros He Hi Hy Hli Hlj Hle. rewrite !xony_nth by assumption.
  apply qmap_mono; try assumption. intro E; rewrite E in Hli; cbn in Hli; lia.
Qed.

Lemma xony_ties em im x y i j : proved_ecdf em -> proved_iecdf im -> y <> [] -> (i < length x)%nat -> (j < length x)%nat ->
  nth i x 0 == nth j x 0 -> nth i (xony_normal em im x y) 0 == nth j (xony_normal em im x y) 0.
Proof.
  intros He Hi Hy Hli Hlj E. apply Qle_antisym; apply xony_order; try assumption; rewrite E; apply Qle_refl.
Qed.
