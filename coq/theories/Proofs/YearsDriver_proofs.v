(** C07 for the year-window loop of CDFt / QuantileDeltaMapping (Model/Driver.v: years_driver over the
    REGENERATED year-window functions): for any list of years (gaps, leap-year-only sets, any order), any window
    length and odd step with step <= length, the loop succeeds and every time step of the window receives a value. *)
From Coq Require Import ZArith List Bool Lia.
From IV Require Import NP GenWindows Grid Driver NPFacts WindowArith C07_proofs.
Import ListNotations.
Open Scope Z_scope.

Definition ctrue (m : list bool) : nat := length (filter (fun b => b) m).

Lemma select_length {A} (x : list A) : forall m, length m = length x -> length (NP.select x m) = ctrue m.
Proof.
  induction x as [|v vs IH]; intros [|b ms] L; try discriminate; [reflexivity|]. cbn in L. injection L as L.
  cbn [NP.select]. unfold ctrue. cbn [filter]. destruct b; cbn [length]; rewrite (IH ms L); reflexivity.
Qed.

Lemma zcount_ctrue m : NP.zcount m = Z.of_nat (ctrue m).
Proof. reflexivity. Qed.

(* ---------- NP.unique ---------- *)
Lemma zinsert_in v l x : In x (NP.zinsert v l) <-> x = v \/ In x l.
Proof.
  induction l as [|a l IH]; cbn [NP.zinsert]; [cbn; intuition|].
  destruct (v <? a) eqn:E1; [cbn; intuition|]. destruct (v =? a) eqn:E2.
  - assert (v = a) by lia. subst. cbn. intuition.
  - cbn [In]. rewrite IH. intuition.
Qed.
Lemma unique_in l x : In x (NP.unique l) <-> In x l.
Proof. induction l as [|a l IH]; [reflexivity|]. unfold NP.unique in *. cbn [fold_right]. rewrite zinsert_in, IH. cbn. intuition. Qed.
Lemma unique_nonempty l : l <> [] -> NP.unique l <> [].
Proof. destruct l as [|a l]; [congruence|]. intros _ E. assert (H : In a (NP.unique (a :: l))) by (apply unique_in; left; reflexivity). rewrite E in H. destruct H. Qed.

(* ---------- Boolean-mask assignment ---------- *)
Section PutMask.
Variable V : Type.
Lemma put_mask_length (b : list (option V)) : forall m vals, length (put_mask V b m vals) = length b.
Proof.
  induction b as [|x b IH]; intros m vals; [destruct m; reflexivity|].
  destruct m as [|[|] m]; cbn [put_mask]; [reflexivity| |cbn; rewrite IH; reflexivity].
  destruct vals as [|v vals]; [reflexivity|]. cbn. rewrite IH. reflexivity.
Qed.

(** with enough values, every masked position is written and every other position is kept *)
Lemma put_mask_nth (b : list (option V)) : forall m vals k, length m = length b -> (ctrue m <= length vals)%nat -> (k < length b)%nat ->
  (nth k m false = true -> exists v, nth k (put_mask V b m vals) None = Some v) /\
  (nth k m false = false -> nth k (put_mask V b m vals) None = nth k b None).
Proof.
  induction b as [|x b IH]; intros m vals k L Hc Hk; [cbn in Hk; lia|].
  destruct m as [|mb m]; [discriminate|]. cbn in L. injection L as L. unfold ctrue in Hc. cbn [filter] in Hc.
  destruct mb.
  - destruct vals as [|v vals]; [cbn in Hc; lia|]. cbn [put_mask]. destruct k as [|k].
    + cbn. split; [eauto|discriminate].
    + cbn [nth]. apply IH; [exact L|cbn in Hc; unfold ctrue; lia|cbn in Hk; lia].
  - cbn [put_mask]. destruct k as [|k].
    + cbn. split; [discriminate|reflexivity].
    + cbn [nth]. apply IH; [exact L|exact Hc|cbn in Hk; lia].
Qed.
End PutMask.

(* ---------- masks ---------- *)
Lemma isin_length x t : length (NP.isin x t) = length x.
Proof. unfold NP.isin. apply map_length. Qed.

(** counting the adjusted years inside the window selection = counting them in the whole series, as the
    adjusted years are among the window's years *)
Lemma ctrue_isin_select years W A : (forall y, In y A -> In y W) ->
  ctrue (NP.isin (NP.select years (NP.isin years W)) A) = ctrue (NP.isin years A).
Proof.
  intro Sub. unfold NP.isin. induction years as [|y ys IH]; [reflexivity|]. cbn [map NP.select].
  destruct (NP.zmem y W) eqn:EW.
  - cbn [map]. unfold ctrue in *. cbn [filter]. destruct (NP.zmem y A); cbn [length]; rewrite IH; reflexivity.
  - unfold ctrue in *. cbn [filter]. destruct (NP.zmem y A) eqn:EA.
    + exfalso. apply zmem_spec in EA. apply Sub in EA. apply zmem_spec in EA. congruence.
    + exact IH.
Qed.

Section Years.
Variable V : Type.
Variables (L S : Z).
Hypothesis HS : 0 < S.
Hypothesis HSL : S <= L.
Hypothesis Hodd : S mod 2 = 1.
Variable years : list Z.
Hypothesis Hne : years <> [].
Variable Wy : list bool -> list V.
(** the method returns one value per selected time step *)
Hypothesis HW : forall m, length (Wy m) = ctrue m.

Let n := length years.
Let centres := years_window_centers S (NP.unique years).

Definition ystep (buf : option (list (option V))) (aw : list Z * list Z) : option (list (option V)) :=
  match buf with
  | None => None
  | Some b =>
      let m_win := years_if_in_chosen years (snd aw) in
      let m_adj := years_if_in_chosen years (fst aw) in
      let m_win_adj := years_if_in_chosen (NP.select years m_win) (fst aw) in
      let vals := NP.select (Wy m_win) m_win_adj in
      if Z.eqb (NP.zcount m_adj) (Z.of_nat (length vals)) then Some (put_mask V b m_adj vals) else None
  end.

Lemma years_driver_fold : years_driver V L S years Wy = fold_left ystep (years_use L S years) (Some (repeat None n)).
Proof. reflexivity. Qed.

(** one window: the check passes, adjusted positions become defined, the others are kept *)
Lemma ystep_spec b c : length b = n ->
  exists b', ystep (Some b) (years_to_adjust S c, years_in_window L c) = Some b' /\ length b' = n /\
    forall k, (k < n)%nat ->
      (In (nth k years 0) (years_to_adjust S c) -> exists v, nth k b' None = Some v) /\
      (~ In (nth k years 0) (years_to_adjust S c) -> nth k b' None = nth k b None).
Proof.
  intro Lb. unfold ystep. cbn [fst snd]. cbv zeta. unfold years_if_in_chosen.
  set (W := years_in_window L c). set (A := years_to_adjust S c).
  assert (Sub : forall y, In y A -> In y W) by (intros y Hy; apply (years_adjust_in_window L S c y HS HSL Hy)).
  assert (Lsel : length (NP.select years (NP.isin years W)) = ctrue (NP.isin years W)) by (apply select_length; apply isin_length).
  assert (Lv : length (NP.select (Wy (NP.isin years W)) (NP.isin (NP.select years (NP.isin years W)) A)) = ctrue (NP.isin years A)).
  { rewrite select_length; [apply ctrue_isin_select; exact Sub|]. rewrite isin_length, HW. exact Lsel. }
  rewrite zcount_ctrue, Lv, Z.eqb_refl.
  eexists. split; [reflexivity|]. split; [rewrite put_mask_length; exact Lb|].
  intros k Hk.
  destruct (put_mask_nth V b (NP.isin years A) (NP.select (Wy (NP.isin years W)) (NP.isin (NP.select years (NP.isin years W)) A)) k) as [P1 P0];
    [rewrite isin_length; lia|rewrite Lv; lia|lia|].
  assert (Mk : nth k (NP.isin years A) false = NP.zmem (nth k years 0) A) by (apply nth_isin; exact Hk).
  split; intro H.
  - apply P1. rewrite Mk. apply zmem_spec. exact H.
  - apply P0. rewrite Mk. destruct (NP.zmem (nth k years 0) A) eqn:E; [apply zmem_spec in E; contradiction|reflexivity].
Qed.

(** folding over a list of centres: positions adjusted by one of them are defined *)
Lemma yfold_spec cs : forall b, length b = n ->
  exists b', fold_left ystep (map (fun c => (years_to_adjust S c, years_in_window L c)) cs) (Some b) = Some b' /\ length b' = n /\
    forall k, (k < n)%nat ->
      ((exists c, In c cs /\ In (nth k years 0) (years_to_adjust S c)) \/ (exists v, nth k b None = Some v)) ->
      exists v, nth k b' None = Some v.
Proof.
  induction cs as [|c cs IH]; intros b Lb.
  - exists b. split; [reflexivity|]. split; [exact Lb|]. intros k Hk [[c [[] _]]|H]; exact H.
  - cbn [map fold_left]. destruct (ystep_spec b c Lb) as (b1 & E1 & L1 & H1). rewrite E1.
    destruct (IH b1 L1) as (b' & E' & L' & H'). exists b'. split; [exact E'|]. split; [exact L'|].
    intros k Hk Hcase. apply H'; [exact Hk|]. destruct (H1 k Hk) as [Hin Hout].
    destruct Hcase as [[c' [[<-|Hc'] Hy]]|[v Hv]].
    + right. apply Hin. exact Hy.
    + left. exists c'. split; assumption.
    + destruct (in_dec Z.eq_dec (nth k years 0) (years_to_adjust S c)) as [Y|N]; [right; apply Hin; exact Y|].
      right. exists v. rewrite (Hout N). exact Hv.
Qed.

Theorem years_driver_defined_everywhere :
  exists out, years_driver V L S years Wy = Some out /\ length out = length years /\
    forall k, (k < length years)%nat -> exists v, nth k out None = Some v.
Proof.
  rewrite years_driver_fold. unfold years_use. cbv zeta.
  destruct (yfold_spec (years_window_centers S (NP.unique years)) (repeat None n) (repeat_length _ _)) as (out & E & Lo & H).
  exists out. split; [exact E|]. split; [exact Lo|]. intros k Hk. apply H; [exact Hk|]. left.
  assert (Hy : In (nth k years 0) years) by (apply nth_In; exact Hk).
  assert (Hu : NP.unique years <> []) by (apply unique_nonempty; exact Hne).
  assert (Hr : NP.zmin (NP.unique years) <= nth k years 0 <= NP.zmax (NP.unique years)).
  { split; [apply zmin_le|apply zmax_ge]; apply unique_in; exact Hy. }
  destruct (years_centers_cover S (NP.unique years) (nth k years 0) HS Hodd Hu Hr) as (c & Hc & Hyc & _).
  exists c. split; assumption.
Qed.
End Years.
