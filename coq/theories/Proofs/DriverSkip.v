(** The skipping loop (RunningWindowDebiaser.apply_location after the D20 repair) computes exactly what
    the unconditional loop computes, whatever the window method returns; and it evaluates the window
    method only at centres that adjust at least one time step — whose cm_future slice is then non-empty. *)
From Coq Require Import ZArith List Bool Lia.
From IV Require Import NP GenWindows Grid Driver C07_proofs.
Import ListNotations.
Open Scope Z_scope.

Lemma select_all_false {A} (x : list A) (m : list bool) :
  (forall b, In b m -> b = false) -> NP.select x m = [].
Proof.
  revert m; induction x as [|v r IH]; intros m Hm; [reflexivity|].
  destruct m as [|b mr]; [reflexivity|]. cbn [NP.select].
  rewrite (Hm b (or_introl eq_refl)). apply IH. intros b' Hb'. apply Hm. right; exact Hb'.
Qed.

Lemma mask_adjust_nil iw : forall b, In b (days_mask_adjust_in_window iw []) -> b = false.
Proof.
  unfold days_mask_adjust_in_window, NP.logical_and, NP.isin. intros b Hb.
  apply in_map_iff in Hb. destruct Hb as [[p q] [<- Hin]].
  apply in_combine_l in Hin. apply in_map_iff in Hin. destruct Hin as [v [<- _]].
  reflexivity.
Qed.

Section Skip.
Variable V : Type.

Lemma put_nil (b : list (option V)) iw (w : list V) :
  put V b [] (NP.select w (days_mask_adjust_in_window iw [])) = Some b.
Proof.
  rewrite (select_all_false w _ (mask_adjust_nil iw)). reflexivity.
Qed.

Theorem driver_skip_eq L S dA (Wc : Z -> list V) :
  driver_skip V L S dA Wc = driver V L S dA Wc.
Proof.
  unfold driver_skip, driver.
  generalize (Some (repeat (@None V) (length dA))) as b0.
  induction (days_use S dA) as [|ci l IH]; intro b0; [reflexivity|].
  cbn [fold_left]. rewrite IH. f_equal.
  destruct b0 as [b|]; [|reflexivity].
  destruct ci as [c idx]; cbn [fst snd]. destruct idx as [|i idx']; [|reflexivity].
  symmetry. apply put_nil.
Qed.

Theorem driver_rw_skip_eq {T} L S dobs dhist dfut (obs hist fut : list T) W :
  driver_rw_skip V L S dobs dhist dfut obs hist fut W = driver_rw V L S dobs dhist dfut obs hist fut W.
Proof. apply driver_skip_eq. Qed.

(** the skipping loop only depends on the window method at the evaluated centres *)
Theorem driver_skip_ext L S dA (Wc Wc' : Z -> list V) :
  (forall c, In c (evaluated_centres S dA) -> Wc c = Wc' c) ->
  driver_skip V L S dA Wc = driver_skip V L S dA Wc'.
Proof.
  unfold driver_skip, evaluated_centres.
  generalize (Some (repeat (@None V) (length dA))) as b0.
  induction (days_use S dA) as [|ci l IH]; intros b0 H; [reflexivity|].
  cbn [fold_left].
  assert (E : (match b0 with None => None | Some b => match snd ci with [] => Some b | _ :: _ =>
             put V b (snd ci) (NP.select (Wc (fst ci)) (days_mask_adjust_in_window (days_indices_in_window L dA (fst ci)) (snd ci))) end end)
           = (match b0 with None => None | Some b => match snd ci with [] => Some b | _ :: _ =>
             put V b (snd ci) (NP.select (Wc' (fst ci)) (days_mask_adjust_in_window (days_indices_in_window L dA (fst ci)) (snd ci))) end end)).
  { destruct b0 as [b|]; [|reflexivity]. destruct (snd ci) eqn:E; [reflexivity|].
    rewrite (H (fst ci)); [reflexivity|]. cbn [filter]. rewrite E. left; reflexivity. }
  rewrite E. apply IH. intros c Hc. apply H. cbn [filter].
  destruct (snd ci); [exact Hc| right; exact Hc].
Qed.
End Skip.

(** at every evaluated centre the window's slice of the adjusted series is non-empty: the window method
    is never called on an empty cm_future *)
Theorem evaluated_window_nonempty L S dA c :
  0 < S -> S <= L -> (forall d, In d dA -> 1 <= d <= 366) ->
  In c (evaluated_centres S dA) -> days_indices_in_window L dA c <> [].
Proof.
  intros HS HL Hd Hc. unfold evaluated_centres, days_use in Hc.
  apply in_map_iff in Hc. destruct Hc as [[c' idx] [Hc' Hf]]. cbn [fst] in Hc'. subst c'.
  apply filter_In in Hf. destruct Hf as [Hin Hne]. cbn [snd] in Hne.
  apply in_map_iff in Hin. destruct Hin as [c0 [Heq _]]. inversion Heq; subst c0 idx; clear Heq.
  destruct (days_indices_to_adjust S dA c) as [|i r] eqn:E; [discriminate|].
  intro Hnil.
  assert (Hi : In i (days_indices_in_window L dA c)).
  { apply (days_adjusted_in_window L S dA c i HS HL Hd). rewrite E. left; reflexivity. }
  rewrite Hnil in Hi. exact Hi.
Qed.
