(** C11 (round 2): the REGENERATED four-branch frequency formula is monotone in the model's
    future frequency: a model that simulates more beyond-threshold events in the application
    period never gets fewer after adjustment (all branches, the isclose shortcut included). *)
From Coq Require Import QArith Qabs Qround ZArith List Bool Lia Lqa.
From IV Require Import NP QL QFacts GenIsimip C11_proofs.
Open Scope Q_scope.

Lemma scaled_mono p h f1 f2 : 0 < h -> 0 <= p -> f1 <= f2 -> p * f1 / h <= p * f2 / h.
Proof.
  intros Hh Hp Hf. unfold Qdiv. apply Qmult_le_compat_r; [nra|].
  apply Qinv_le_0_compat. lra.
Qed.

Lemma scaled_below p h f : 0 < h -> 0 <= p -> f <= h -> p * f / h <= p.
Proof. intros Hh Hp Hf. apply Qle_shift_div_r; [exact Hh|nra]. Qed.

Theorem P_monotone_in_future Po Ph Pf1 Pf2 : 0 <= Po <= 1 -> 0 <= Ph <= 1 -> Pf1 <= Pf2 ->
  step6_P_obs_future Po Ph Pf1 <= step6_P_obs_future Po Ph Pf2.
Proof.
  intros Ho Hh Hf. unfold step6_P_obs_future. change (inject_Z 1) with 1.
  destruct (QL.isclose Ph Po) eqn:Ec; [exact Hf|].
  destruct (Qle_bool Ph Po) eqn:Ehp; destruct (Qle_bool Po Ph) eqn:Eph; cbn [negb andb];
    rewrite ?andb_false_r, ?andb_true_r.
  - (* Ph == Po, not close: additive branch on both sides *) lra.
  - (* Ph < Po : g2 above Ph, additive below *)
    qb. assert (Hp : 0 < 1 - Ph) by lra.
    destruct (Qle_bool Ph Pf1) eqn:E1; destruct (Qle_bool Ph Pf2) eqn:E2; qb.
    + pose proof (scaled_mono (1 - Po) (1 - Ph) (1 - Pf2) (1 - Pf1) Hp ltac:(lra) ltac:(lra)). lra.
    + lra.
    + pose proof (scaled_below (1 - Po) (1 - Ph) (1 - Pf2) Hp ltac:(lra) ltac:(lra)). lra.
    + lra.
  - (* Ph > Po : g1 below Ph, additive above *)
    qb. assert (Hp : 0 < Ph) by lra.
    destruct (Qle_bool Pf1 Ph) eqn:E1; destruct (Qle_bool Pf2 Ph) eqn:E2; qb.
    + apply scaled_mono; lra.
    + pose proof (scaled_below Po Ph Pf1 Hp ltac:(lra) ltac:(lra)). lra.
    + lra.
    + lra.
  - qb. lra.
Qed.

(* ---------- rounding (Python's round: half to even) is monotone ---------- *)
Lemma round_half_even_monotone q1 q2 : q1 <= q2 -> (QL.round_half_even q1 <= QL.round_half_even q2)%Z.
Proof.
  intro Hq.
  destruct (round_half_even_spec q1) as [_ [L1 U1]]. destruct (round_half_even_spec q2) as [_ [L2 U2]].
  assert (Ff : (Qfloor q1 <= Qfloor q2)%Z) by (apply Qfloor_resp_le; exact Hq).
  destruct (Z.eq_dec (Qfloor q1) (Qfloor q2)) as [Ef|Nf]; [|lia].
  clear L1 U1 L2 U2. unfold QL.round_half_even. cbv zeta. rewrite <- Ef.
  set (f := Qfloor q1). set (r1 := q1 - inject_Z f). set (r2 := q2 - inject_Z f).
  assert (Hr : r1 <= r2) by (unfold r1, r2; lra).
  destruct (Qle_bool r1 (1 # 2)) eqn:A1; destruct (Qle_bool r2 (1 # 2)) eqn:A2; qb; try lia; try (exfalso; lra).
  - destruct (Qeq_bool r1 (1 # 2)) eqn:B1; destruct (Qeq_bool r2 (1 # 2)) eqn:B2.
    + destruct (Z.even f); lia.
    + apply Qeq_bool_iff in B1. apply Qeq_bool_neq in B2. exfalso. apply B2. lra.
    + destruct (Z.even f); lia.
    + lia.
  - destruct (Qeq_bool r1 (1 # 2)); destruct (Z.even f); lia.
Qed.

(** the COUNT of values set to a bound, round(n * P), is monotone in the model's future frequency *)
Theorem count_monotone_in_future (n : Z) Po Ph Pf1 Pf2 : (0 <= n)%Z -> 0 <= Po <= 1 -> 0 <= Ph <= 1 -> Pf1 <= Pf2 ->
  (QL.round_half_even (inject_Z n * step6_P_obs_future Po Ph Pf1) <=
   QL.round_half_even (inject_Z n * step6_P_obs_future Po Ph Pf2))%Z.
Proof.
  intros Hn Ho Hh Hf. apply round_half_even_monotone.
  pose proof (P_monotone_in_future Po Ph Pf1 Pf2 Ho Hh Hf) as M.
  assert (N0 : 0 <= inject_Z n) by (change 0 with (inject_Z 0); rewrite <- Zle_Qle; exact Hn).
  nra.
Qed.
