(** C11 (round 2): the REGENERATED four-branch frequency formula is monotone in the model's
    future frequency: a model that simulates more beyond-threshold events in the application
    period never gets fewer after adjustment (all branches, the isclose shortcut included). *)
From Coq Require Import QArith Qabs ZArith List Bool Lia Lqa.
From IV Require Import NP QL QFacts GenIsimip C11_proofs.
Open Scope Q_scope.

Lemma scaled_mono p h f1 f2 : 0 < h -> 0 <= p -> f1 <= f2 -> p * f1 / h <= p * f2 / h.
Proof.
  intros Hh Hp Hf. unfold Qdiv. apply Qmult_le_compat_r; [nra|].
  apply Qinv_le_0_compat. lra.
Qed.

Lemma scaled_below p h f : 0 < h -> 0 <= p -> f <= h -> p * f / h <= p.
Proof. intros Hh Hp Hf. apply Qle_shift_div_r; [exact Hh|nra]. Qed.

Theorem P_monotone_in_future Po Ph Pf1 Pf2 : 0 <= Po <= 1 -> 0 <= Ph <= 1 -> Pf1 <= Pf2 ->
  step6_P_obs_future Po Ph Pf1 <= step6_P_obs_future Po Ph Pf2.
Proof.
  intros Ho Hh Hf. unfold step6_P_obs_future. change (inject_Z 1) with 1.
  destruct (QL.isclose Ph Po) eqn:Ec; [exact Hf|].
  destruct (Qle_bool Ph Po) eqn:Ehp; destruct (Qle_bool Po Ph) eqn:Eph; cbn [negb andb];
    rewrite ?andb_false_r, ?andb_true_r.
  - (* Ph == Po, not close: additive branch on both sides *) lra.
  - (* Ph < Po : g2 above Ph, additive below *)
    qb. assert (Hp : 0 < 1 - Ph) by lra.
    destruct (Qle_bool Ph Pf1) eqn:E1; destruct (Qle_bool Ph Pf2) eqn:E2; qb.
    + pose proof (scaled_mono (1 - Po) (1 - Ph) (1 - Pf2) (1 - Pf1) Hp ltac:(lra) ltac:(lra)). lra.
    + lra.
    + pose proof (scaled_below (1 - Po) (1 - Ph) (1 - Pf2) Hp ltac:(lra) ltac:(lra)). lra.
    + lra.
  - (* Ph > Po : g1 below Ph, additive above *)
    qb. assert (Hp : 0 < Ph) by lra.
    destruct (Qle_bool Pf1 Ph) eqn:E1; destruct (Qle_bool Pf2 Ph) eqn:E2; qb.
    + apply scaled_mono; lra.
    + pose proof (scaled_below Po Ph Pf1 Hp ltac:(lra) ltac:(lra)). lra.
    + lra.
    + lra.
  - qb. lra.
Qed.
