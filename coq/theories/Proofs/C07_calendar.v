(** C07 for real calendars: the days of the year come from the time helpers (Model/Calendar.v), any
    start date, any length — no hypothesis on the days is left. *)
From Coq Require Import ZArith List Bool Lia.
From IV Require Import NP GenWindows Grid Driver Driver_proofs Driver_corollaries DriverSkip Calendar Calendar_proofs.
Import ListNotations.
Open Scope Z_scope.

Theorem apply_location_defined_on_real_calendars (V : Type) (L S : Z) (n : nat) (y m d : Z) (Wc : Z -> list V) :
  0 < S -> S <= L -> S mod 2 = 1 -> valid_date y m d ->
  let dA := days_of_year_of (consecutive_dates n y m d) in
  (forall c, In c (days_window_centers S dA) -> length (Wc c) = length (days_indices_in_window L dA c)) ->
  exists out, driver_skip V L S dA Wc = Some out /\ length out = n /\
    forall k, (k < n)%nat -> exists v, nth k out None = Some v.
Proof.
  intros HS HL Hodd Hv dA HW.
  assert (Hlen : length dA = n).
  { unfold dA, days_of_year_of, consecutive_dates. rewrite map_length. apply dates_from_length. }
  destruct (driver_defined_everywhere V L S HS HL Hodd dA Wc
              (consecutive_dates_days_in_range n y m d Hv) HW) as (out & E & Hl & Hk).
  exists out. rewrite driver_skip_eq. split; [exact E|]. split; [congruence|].
  intros k Hkn. specialize (Hk (Z.of_nat k) ltac:(lia)). rewrite Nat2Z.id in Hk. exact Hk.
Qed.
