(** Sums and means of rational lists: affine maps, pointwise equality, permutations. *)
From Coq Require Import QArith Qabs ZArith List Bool Lia Lqa Permutation Morphisms.
From IV Require Import QL Ecdf QFacts C16_step.
Import ListNotations.
Open Scope Q_scope.

Definition eql (a b : list Q) : Prop := Forall2 Qeq a b.

Lemma eql_refl l : eql l l.
Proof. induction l; constructor; [reflexivity|assumption]. Qed.
Lemma eql_sym a b : eql a b -> eql b a.
Proof. induction 1; constructor; [symmetry|]; assumption. Qed.
Lemma eql_trans a b c : eql a b -> eql b c -> eql a c.
Proof.
  intro H. revert c. induction H as [|x y a b Hxy Hab IH]; intros c Hc; inversion Hc; subst; constructor.
  - rewrite Hxy. assumption.
  - apply IH. assumption.
Qed.
Lemma eql_length a b : eql a b -> length a = length b.
Proof. induction 1; cbn; congruence. Qed.

Lemma eql_map_pointwise (f g : Q -> Q) l : (forall x, In x l -> f x == g x) -> eql (map f l) (map g l).
Proof.
  induction l as [|a l IH]; intro H; cbn [map]; constructor.
  - apply H. left. reflexivity.
  - apply IH. intros x Hx. apply H. right. exact Hx.
Qed.

Lemma eql_map_id (f : Q -> Q) l : (forall x, In x l -> f x == x) -> eql (map f l) l.
Proof. intro H. rewrite <- (map_id l) at 2. apply eql_map_pointwise. exact H. Qed.

Lemma eql_map_compat (f g : Q -> Q) a b : (forall x y, x == y -> f x == g y) -> eql a b -> eql (map f a) (map g b).
Proof. intros H E. induction E; cbn [map]; constructor; [apply H; assumption|assumption]. Qed.

(* ---------- sums ---------- *)
Lemma qsum_cons x l : QL.qsum (x :: l) == x + QL.qsum l.
Proof. unfold QL.qsum. cbn [fold_right]. apply Qred_correct. Qed.
Lemma qsum_nil : QL.qsum [] == 0.
Proof. reflexivity. Qed.

Lemma qsum_eql a b : eql a b -> QL.qsum a == QL.qsum b.
Proof. induction 1 as [|x y a b Hxy _ IH]; [reflexivity|]. rewrite !qsum_cons, Hxy, IH. reflexivity. Qed.

Lemma qlen_cons x l : QL.qlen (x :: l) == 1 + QL.qlen l.
Proof. unfold QL.qlen. cbn [length]. rewrite Nat2Z.inj_succ. unfold Z.succ. rewrite inject_Z_plus. change (inject_Z 1) with 1. ring. Qed.
Lemma qlen_pos l : l <> [] -> 0 < QL.qlen l.
Proof. intro H. unfold QL.qlen. apply inject_Z_pos. destruct l; [congruence|cbn; lia]. Qed.
Lemma qlen_map (f : Q -> Q) l : QL.qlen (map f l) = QL.qlen l.
Proof. unfold QL.qlen. rewrite map_length. reflexivity. Qed.

Lemma qsum_map_affine a b l : QL.qsum (map (fun x => a * x + b) l) == a * QL.qsum l + b * QL.qlen l.
Proof.
  induction l as [|x l IH]; cbn [map].
  - rewrite !qsum_nil. unfold QL.qlen. cbn. ring.
  - rewrite !qsum_cons, IH, qlen_cons. ring.
Qed.

Lemma qsum_perm a b : Permutation a b -> QL.qsum a == QL.qsum b.
Proof.
  induction 1 as [|x a b _ IH|x y a|a b c _ IH1 _ IH2].
  - reflexivity.
  - rewrite !qsum_cons, IH. reflexivity.
  - rewrite !qsum_cons. ring.
  - rewrite IH1. exact IH2.
Qed.

(* ---------- means ---------- *)
Lemma qmean_spec l : QL.qmean l == QL.qsum l / QL.qlen l.
Proof. unfold QL.qmean. apply Qred_correct. Qed.

Lemma qmean_eql a b : eql a b -> QL.qmean a == QL.qmean b.
Proof.
  intro E. rewrite !qmean_spec, (qsum_eql a b E). unfold QL.qlen. rewrite (eql_length a b E). reflexivity.
Qed.

Lemma qmean_affine a b l : l <> [] -> QL.qmean (map (fun x => a * x + b) l) == a * QL.qmean l + b.
Proof.
  intro H. rewrite !qmean_spec, qsum_map_affine, qlen_map. pose proof (qlen_pos l H). field. lra.
Qed.

Lemma qmean_shift c l : l <> [] -> QL.qmean (map (fun x => x + c) l) == QL.qmean l + c.
Proof.
  intro H. rewrite (qmean_eql _ (map (fun x => 1 * x + c) l)) by (apply eql_map_pointwise; intros; ring).
  rewrite qmean_affine by exact H. ring.
Qed.
Lemma qmean_sub c l : l <> [] -> QL.qmean (map (fun x => x - c) l) == QL.qmean l - c.
Proof.
  intro H. rewrite (qmean_eql _ (map (fun x => 1 * x + (- c)) l)) by (apply eql_map_pointwise; intros; ring).
  rewrite qmean_affine by exact H. ring.
Qed.
Lemma qmean_scale k l : l <> [] -> QL.qmean (map (fun x => x * k) l) == QL.qmean l * k.
Proof.
  intro H. rewrite (qmean_eql _ (map (fun x => k * x + 0) l)) by (apply eql_map_pointwise; intros; ring).
  rewrite qmean_affine by exact H. ring.
Qed.

Lemma qmean_perm a b : Permutation a b -> QL.qmean a = QL.qmean b.
Proof.
  intro P. unfold QL.qmean. apply Qred_complete. rewrite (qsum_perm a b P). unfold QL.qlen.
  rewrite (Permutation_length P). reflexivity.
Qed.

Lemma map_nonempty {A B} (f : A -> B) l : l <> [] -> map f l <> [].
Proof. destruct l; [congruence|discriminate]. Qed.
