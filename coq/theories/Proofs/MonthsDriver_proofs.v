(** The month loop of ISIMIP.apply_location: for ANY assignment of months 1..12 to the time steps (any
    calendar, storage order, missing months) and any step pipeline that returns one value per cm_future
    value of the month, the loop succeeds, keeps the length, and gives every time step a value; with the
    calendar of Model/Calendar.v the hypothesis on the months is discharged. *)
From Coq Require Import ZArith List Bool Lia.
From IV Require Import NP NPFacts Grid Driver YearsDriver_proofs Calendar Calendar_proofs.
Import ListNotations.
Open Scope Z_scope.

Section Months.
Variables (T V : Type).
Variables (mo mh mf : list Z) (obs hist fut : list T).
Variable W : list T -> list T -> list T -> list V.
Hypothesis Hlen : length fut = length mf.
Hypothesis HW : forall o h f, length (W o h f) = length f.
Let n := length mf.

Definition mstep (buf : option (list (option V))) (m : Z) : option (list (option V)) :=
  match buf with
  | None => None
  | Some b =>
      let mask := map (Z.eqb m) mf in
      let vals := W (NP.select obs (map (Z.eqb m) mo)) (NP.select hist (map (Z.eqb m) mh)) (NP.select fut mask) in
      if Z.eqb (NP.zcount mask) (Z.of_nat (length vals)) then Some (put_mask V b mask vals) else None
  end.

Lemma months_driver_fold : months_driver V mo mh mf obs hist fut W = fold_left mstep (NP.arange1 1 13) (Some (repeat None n)).
Proof. reflexivity. Qed.

Lemma nth_eqb_mask m k : (k < n)%nat -> nth k (map (Z.eqb m) mf) false = Z.eqb m (nth k mf 0).
Proof.
  intro Hk. rewrite (nth_indep _ false (Z.eqb m 0)) by (rewrite map_length; exact Hk). apply map_nth.
Qed.

Lemma mstep_spec b m : length b = n ->
  exists b', mstep (Some b) m = Some b' /\ length b' = n /\
    forall k, (k < n)%nat ->
      (nth k mf 0 = m -> exists v, nth k b' None = Some v) /\
      (nth k mf 0 <> m -> nth k b' None = nth k b None).
Proof.
  intro Lb. unfold mstep. cbv zeta.
  set (mask := map (Z.eqb m) mf).
  assert (Lm : length mask = length fut) by (unfold mask; rewrite map_length; symmetry; exact Hlen).
  assert (Lv : length (W (NP.select obs (map (Z.eqb m) mo)) (NP.select hist (map (Z.eqb m) mh)) (NP.select fut mask)) = ctrue mask).
  { rewrite HW. apply select_length. exact Lm. }
  rewrite zcount_ctrue, Lv, Z.eqb_refl. eexists. split; [reflexivity|]. split; [rewrite put_mask_length; exact Lb|].
  intros k Hk.
  destruct (put_mask_nth V b mask (W (NP.select obs (map (Z.eqb m) mo)) (NP.select hist (map (Z.eqb m) mh)) (NP.select fut mask)) k) as [P1 P0];
    [unfold mask; rewrite map_length; lia | rewrite Lv; lia | lia |].
  unfold mask in P1, P0. rewrite (nth_eqb_mask m k Hk) in P1, P0.
  split; intro H.
  - apply P1. apply Z.eqb_eq. symmetry; exact H.
  - apply P0. apply Z.eqb_neq. intro E; apply H; symmetry; exact E.
Qed.

Lemma mfold_spec ms : forall b, length b = n ->
  exists b', fold_left mstep ms (Some b) = Some b' /\ length b' = n /\
    forall k, (k < n)%nat -> (In (nth k mf 0) ms \/ (exists v, nth k b None = Some v)) -> exists v, nth k b' None = Some v.
Proof.
  induction ms as [|m ms IH]; intros b Lb.
  - exists b. split; [reflexivity|]. split; [exact Lb|]. intros k Hk [[]|H]; exact H.
  - cbn [fold_left]. destruct (mstep_spec b m Lb) as (b1 & E1 & L1 & H1). rewrite E1.
    destruct (IH b1 L1) as (b' & E' & L' & H'). exists b'. split; [exact E'|]. split; [exact L'|].
    intros k Hk Hcase. apply H'; [exact Hk|]. destruct (H1 k Hk) as [Hin Hout].
    destruct (Z.eq_dec (nth k mf 0) m) as [Em|Nm]; [right; apply Hin; exact Em|].
    destruct Hcase as [[Eq|Hms]|[v Hv]].
    + exfalso; apply Nm; symmetry; exact Eq.
    + left; exact Hms.
    + right. exists v. rewrite (Hout Nm). exact Hv.
Qed.

Theorem months_driver_defined_everywhere : (forall m, In m mf -> 1 <= m <= 12) ->
  exists out, months_driver V mo mh mf obs hist fut W = Some out /\ length out = length mf /\
    forall k, (k < length mf)%nat -> exists v, nth k out None = Some v.
Proof.
  intro Hm. rewrite months_driver_fold.
  destruct (mfold_spec (NP.arange1 1 13) (repeat None n) (repeat_length _ _)) as (out & E & Lo & H).
  exists out. split; [exact E|]. split; [exact Lo|]. intros k Hk. apply H; [exact Hk|]. left.
  apply in_arange1. assert (In (nth k mf 0) mf) by (apply nth_In; exact Hk). specialize (Hm _ H0). lia.
Qed.
End Months.

(** the months the calendar gives are in 1..12, whatever the start date and length *)
Lemma month_of_range y d : 1 <= month_of y d <= 12.
Proof.
  unfold month_of. repeat match goal with |- context [if ?a <=? ?b then _ else _] => destruct (a <=? b) end; lia.
Qed.

Theorem consecutive_dates_months_in_range n y m d x :
  In x (months_of (consecutive_dates n y m d)) -> 1 <= x <= 12.
Proof. unfold months_of. intro H. apply in_map_iff in H. destruct H as [p [<- _]]. apply month_of_range. Qed.

Theorem isimip_month_mode_defined_on_real_calendars (T V : Type) (n : nat) (y m d : Z) (mo mh : list Z)
        (obs hist fut : list T) (W : list T -> list T -> list T -> list V) :
  length fut = n -> (forall o h f, length (W o h f) = length f) ->
  let mf := months_of (consecutive_dates n y m d) in
  exists out, months_driver V mo mh mf obs hist fut W = Some out /\ length out = n /\
    forall k, (k < n)%nat -> exists v, nth k out None = Some v.
Proof.
  intros Hf HW mf.
  assert (Lmf : length mf = n) by (unfold mf, months_of, consecutive_dates; rewrite map_length; apply dates_from_length).
  destruct (months_driver_defined_everywhere T V mo mh mf obs hist fut W ltac:(congruence) HW
              (fun x Hx => consecutive_dates_months_in_range n y m d x Hx)) as (out & E & Lo & H).
  exists out. split; [exact E|]. split; [congruence|]. intros k Hk. apply H. lia.
Qed.

(* ---------- the functional specification: which value lands where ---------- *)
Section PutMaskVal.
Variable V : Type.
Lemma put_mask_val (b : list (option V)) : forall m vals k, length m = length b -> (ctrue m <= length vals)%nat -> (k < length b)%nat ->
  nth k m false = true -> nth k (put_mask V b m vals) None = nth_error vals (ctrue (firstn k m)).
Proof.
  induction b as [|x b IH]; intros m vals k L Hc Hk Hm; [cbn in Hk; lia|].
  destruct m as [|mb m]; [discriminate|]. cbn in L. injection L as L. unfold ctrue in Hc. cbn [filter] in Hc.
  destruct mb.
  - destruct vals as [|v vals]; [cbn in Hc; lia|]. cbn [put_mask]. destruct k as [|k].
    + reflexivity.
    + cbn [nth firstn]. unfold ctrue. cbn [filter length nth_error]. apply IH; [exact L | cbn in Hc; unfold ctrue; lia | cbn in Hk; lia | exact Hm].
  - cbn [put_mask]. destruct k as [|k]; [discriminate|].
    cbn [nth firstn]. unfold ctrue. cbn [filter]. apply IH; [exact L | exact Hc | cbn in Hk; lia | exact Hm].
Qed.
End PutMaskVal.

Section MonthsSpec.
Variables (T V : Type).
Variables (mo mh mf : list Z) (obs hist fut : list T).
Variable W : list T -> list T -> list T -> list V.
Hypothesis Hlen : length fut = length mf.
Hypothesis HW : forall o h f, length (W o h f) = length f.
Let n := length mf.

(** the pipeline result for month m, and the value time step k receives: the entry of its month's result at
    k's position among the time steps of that month *)
Definition month_result (m : Z) : list V :=
  W (NP.select obs (map (Z.eqb m) mo)) (NP.select hist (map (Z.eqb m) mh)) (NP.select fut (map (Z.eqb m) mf)).
Definition value_at (k : nat) : option V :=
  let m := nth k mf 0 in nth_error (month_result m) (ctrue (firstn k (map (Z.eqb m) mf))).

Lemma mstep_val b m : length b = n ->
  exists b', mstep T V mo mh mf obs hist fut W (Some b) m = Some b' /\ length b' = n /\
    forall k, (k < n)%nat ->
      (nth k mf 0 = m -> nth k b' None = value_at k) /\
      (nth k mf 0 <> m -> nth k b' None = nth k b None).
Proof.
  intro Lb. unfold mstep. cbv zeta.
  change (W (NP.select obs (map (Z.eqb m) mo)) (NP.select hist (map (Z.eqb m) mh)) (NP.select fut (map (Z.eqb m) mf))) with (month_result m).
  set (mask := map (Z.eqb m) mf).
  assert (Lm : length mask = length fut) by (unfold mask; rewrite map_length; symmetry; exact Hlen).
  assert (Lv : length (month_result m) = ctrue mask).
  { unfold month_result. rewrite HW. apply select_length. exact Lm. }
  rewrite zcount_ctrue, Lv, Z.eqb_refl. eexists. split; [reflexivity|]. split; [rewrite put_mask_length; exact Lb|].
  intros k Hk. split; intro H.
  - unfold value_at. rewrite H. fold mask. apply put_mask_val; [unfold mask; rewrite map_length; lia | rewrite Lv; lia | lia |].
    unfold mask. rewrite (nth_eqb_mask mf m k Hk). apply Z.eqb_eq. symmetry; exact H.
  - destruct (put_mask_nth V b mask (month_result m) k) as [_ P0]; [unfold mask; rewrite map_length; lia | rewrite Lv; lia | lia |].
    apply P0. unfold mask. rewrite (nth_eqb_mask mf m k Hk). apply Z.eqb_neq. intro E; apply H; symmetry; exact E.
Qed.

Lemma mfold_val ms : NoDup ms -> forall b, length b = n ->
  exists b', fold_left (mstep T V mo mh mf obs hist fut W) ms (Some b) = Some b' /\ length b' = n /\
    forall k, (k < n)%nat ->
      (In (nth k mf 0) ms -> nth k b' None = value_at k) /\ (~ In (nth k mf 0) ms -> nth k b' None = nth k b None).
Proof.
  induction 1 as [|m ms Hnin Hnd IH]; intros b Lb.
  - exists b. split; [reflexivity|]. split; [exact Lb|]. intros k Hk. split; [intros []|reflexivity].
  - cbn [fold_left]. destruct (mstep_val b m Lb) as (b1 & E1 & L1 & H1). rewrite E1.
    destruct (IH b1 L1) as (b' & E' & L' & H'). exists b'. split; [exact E'|]. split; [exact L'|].
    intros k Hk. destruct (H1 k Hk) as [Hin Hout]. destruct (H' k Hk) as [Hin' Hout'].
    split.
    + intros [Em | Hms].
      * rewrite Hout'; [apply Hin; symmetry; exact Em | rewrite <- Em; exact Hnin].
      * apply Hin'; exact Hms.
    + intro Hn. rewrite Hout'; [|intro; apply Hn; right; assumption]. apply Hout. intro E; apply Hn; left; symmetry; exact E.
Qed.

Theorem months_driver_spec : (forall m, In m mf -> 1 <= m <= 12) ->
  exists out, months_driver V mo mh mf obs hist fut W = Some out /\ length out = length mf /\
    forall k, (k < length mf)%nat -> nth k out None = value_at k.
Proof.
  intro Hm. rewrite (months_driver_fold T V mo mh mf obs hist fut W).
  destruct (mfold_val (NP.arange1 1 13) (arange_nodup 1 13 1) (repeat None n) (repeat_length _ _)) as (out & E & Lo & H).
  exists out. split; [exact E|]. split; [exact Lo|]. intros k Hk. apply (H k Hk).
  apply in_arange1. assert (Hin : In (nth k mf 0) mf) by (apply nth_In; exact Hk). specialize (Hm _ Hin). lia.
Qed.
End MonthsSpec.

(** locality of the month mode: the value of a time step depends only on the three series' values of ITS month
    (and on which time steps carry that month) *)
Theorem months_driver_local (T V : Type) (mo mh mf : list Z) (obs hist fut obs' hist' fut' : list T)
        (W : list T -> list T -> list T -> list V) (k : nat) :
  length fut = length mf -> length fut' = length mf -> (forall o h f, length (W o h f) = length f) ->
  (forall m, In m mf -> 1 <= m <= 12) -> (k < length mf)%nat ->
  let m := nth k mf 0 in
  NP.select obs (map (Z.eqb m) mo) = NP.select obs' (map (Z.eqb m) mo) ->
  NP.select hist (map (Z.eqb m) mh) = NP.select hist' (map (Z.eqb m) mh) ->
  NP.select fut (map (Z.eqb m) mf) = NP.select fut' (map (Z.eqb m) mf) ->
  forall out out', months_driver V mo mh mf obs hist fut W = Some out ->
    months_driver V mo mh mf obs' hist' fut' W = Some out' -> nth k out None = nth k out' None.
Proof.
  intros Hl Hl' HW Hm Hk m Eo Eh Ef out out' E E'.
  destruct (months_driver_spec T V mo mh mf obs hist fut W Hl HW Hm) as (o1 & E1 & _ & S1).
  destruct (months_driver_spec T V mo mh mf obs' hist' fut' W Hl' HW Hm) as (o2 & E2 & _ & S2).
  rewrite E in E1. rewrite E' in E2. inversion E1; inversion E2; subst o1 o2.
  rewrite (S1 k Hk), (S2 k Hk). unfold value_at, month_result. fold m. rewrite Eo, Eh, Ef. reflexivity.
Qed.
