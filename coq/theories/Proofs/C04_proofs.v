(** C04: unit-change equivariance x -> a x + b (a > 0) of the REGENERATED per-window methods. *)
From Coq Require Import QArith Qabs ZArith List Bool String Lia Lqa.
From IV Require Import QL Dist Ecdf QFacts C16_step QListFacts GenUtils GenScalars C03_proofs C02_proofs.
Import ListNotations.
Open Scope Q_scope.

Definition aff (a b : Q) (l : list Q) : list Q := map (fun x => a * x + b) l.

Lemma map_aff (g : Q -> Q) a b l : map g (aff a b l) = map (fun x => g (a * x + b)) l.
Proof. unfold aff. apply map_map. Qed.
Lemma aff_map (g : Q -> Q) a b l : aff a b (map g l) = map (fun x => a * g x + b) l.
Proof. unfold aff. apply map_map. Qed.

Theorem ls_affine_equivariant a b o h f : o <> [] -> h <> [] ->
  out_eql (ls_apply_on_window "additive" (aff a b o) (aff a b h) (aff a b f))
          (option_map (aff a b) (ls_apply_on_window "additive" o h f)).
Proof.
  intros Ho Hh. cbn [ls_apply_on_window String.eqb Ascii.eqb Bool.eqb option_map out_eql]. cbv zeta. unfold aff. rewrite !map_map.
  apply eql_map_pointwise. intros x _. rewrite (qmean_affine a b h Hh), (qmean_affine a b o Ho). ring.
Qed.

Theorem ls_rescaling_equivariant a o h f : o <> [] -> h <> [] -> ~ a == 0 -> ~ QL.qmean h == 0 ->
  out_eql (ls_apply_on_window "multiplicative" (aff a 0 o) (aff a 0 h) (aff a 0 f))
          (option_map (aff a 0) (ls_apply_on_window "multiplicative" o h f)).
Proof.
  intros Ho Hh Ha Hm. cbn [ls_apply_on_window String.eqb Ascii.eqb Bool.eqb option_map out_eql]. cbv zeta. unfold aff. rewrite !map_map.
  apply eql_map_pointwise. intros x _. rewrite (qmean_affine a 0 h Hh), (qmean_affine a 0 o Ho). field. split; [exact Hm|lra].
Qed.

Theorem dc_affine_equivariant a b o h f : f <> [] -> h <> [] ->
  out_eql (dc_apply_on_window "additive" (aff a b o) (aff a b h) (aff a b f))
          (option_map (aff a b) (dc_apply_on_window "additive" o h f)).
Proof.
  intros Hf Hh. cbn [dc_apply_on_window String.eqb Ascii.eqb Bool.eqb option_map out_eql]. cbv zeta. unfold aff. rewrite !map_map.
  apply eql_map_pointwise. intros x _. rewrite (qmean_affine a b h Hh), (qmean_affine a b f Hf). ring.
Qed.

Theorem dc_rescaling_equivariant a o h f : f <> [] -> h <> [] -> ~ a == 0 -> ~ QL.qmean h == 0 ->
  out_eql (dc_apply_on_window "multiplicative" (aff a 0 o) (aff a 0 h) (aff a 0 f))
          (option_map (aff a 0) (dc_apply_on_window "multiplicative" o h f)).
Proof.
  intros Hf Hh Ha Hm. cbn [dc_apply_on_window String.eqb Ascii.eqb Bool.eqb option_map out_eql]. cbv zeta. unfold aff. rewrite !map_map.
  apply eql_map_pointwise. intros x _. rewrite (qmean_affine a 0 h Hh), (qmean_affine a 0 f Hf). field. split; [exact Hm|lra].
Qed.

(* ---------- location-scale distributions ---------- *)
Section LS.
Context {P : Type} (D : dist P).
(** what "a location-scale family fitted equivariantly" means for the maps the debiasers use *)
Definition fit_affine_equivariant : Prop :=
  forall a b l, 0 < a -> l <> [] ->
    (forall x, cdf D (fit D (aff a b l)) (a * x + b) == cdf D (fit D l) x) /\
    (forall p, ppf D (fit D (aff a b l)) p == a * ppf D (fit D l) p + b).

Theorem qm_param_affine_equivariant t a b o h f : dist_proper D -> fit_affine_equivariant -> 0 < a -> o <> [] -> h <> [] ->
  out_eql (qm_apply_on_window "no_detrending" "parametric" D t (aff a b o) (aff a b h) (aff a b f))
          (option_map (aff a b) (qm_apply_on_window "no_detrending" "parametric" D t o h f)).
Proof.
  intros [Pc Pp] Hfa Ha Ho Hh. unfold qm_apply_on_window. cbn [String.eqb Ascii.eqb Bool.eqb]. cbv zeta.
  rewrite !qm_param_pointwise. cbn [option_map out_eql]. rewrite map_aff, aff_map.
  apply eql_map_pointwise. intros x _.
  destruct (Hfa a b h Ha Hh) as [Hc _]. destruct (Hfa a b o Ha Ho) as [_ Hp].
  rewrite Hp. rewrite (Pp _ _ _ (clamp_proper t _ _ (Hc x))). reflexivity.
Qed.

Theorem qm_param_detrended_affine_equivariant t a b o h f : dist_proper D -> fit_affine_equivariant -> 0 < a ->
  o <> [] -> h <> [] -> f <> [] ->
  out_eql (qm_apply_on_window "additive" "parametric" D t (aff a b o) (aff a b h) (aff a b f))
          (option_map (aff a b) (qm_apply_on_window "additive" "parametric" D t o h f)).
Proof.
  intros [Pc Pp] Hfa Ha Ho Hh Hf. unfold qm_apply_on_window. cbn [String.eqb Ascii.eqb Bool.eqb]. cbv zeta.
  rewrite !qm_param_pointwise. cbn [option_map out_eql].
  destruct (Hfa a b h Ha Hh) as [Hc _]. destruct (Hfa a b o Ha Ho) as [_ Hp].
  pose proof (qmean_affine a b f Hf) as Mf. pose proof (qmean_affine a b h Hh) as Mh.
  fold (aff a b f) in Mf. fold (aff a b h) in Mh.
  set (mf' := QL.qmean (aff a b f)) in *. set (mh' := QL.qmean (aff a b h)) in *.
  rewrite !map_map, map_aff, aff_map.
  apply eql_map_pointwise. intros x _.
  assert (E : a * x + b - (mf' - mh') == a * (x - (QL.qmean f - QL.qmean h)) + b) by (rewrite Mf, Mh; ring).
  rewrite Hp.
  assert (E2 : cdf D (fit D (aff a b h)) (a * x + b - (mf' - mh')) == cdf D (fit D h) (x - (QL.qmean f - QL.qmean h))).
  { rewrite (Pc _ _ _ E). apply Hc. }
  rewrite (Pp _ _ _ (clamp_proper t _ _ E2)). rewrite Mf, Mh. ring.
Qed.

Theorem ecdfm_affine_equivariant t a b o h f : dist_proper D -> fit_affine_equivariant -> 0 < a ->
  o <> [] -> h <> [] -> f <> [] ->
  eql (ecdfm_apply_on_window D t (aff a b o) (aff a b h) (aff a b f)) (aff a b (ecdfm_apply_on_window D t o h f)).
Proof.
  intros [Pc Pp] Hfa Ha Ho Hh Hf. unfold ecdfm_apply_on_window. cbv zeta.
  destruct (Hfa a b o Ha Ho) as [_ Hpo]. destruct (Hfa a b h Ha Hh) as [_ Hph]. destruct (Hfa a b f Ha Hf) as [Hcf _].
  set (q' := map (fun x => GenUtils.threshold_cdf_vals x t) (map (cdf D (fit D (aff a b f))) (aff a b f))).
  set (q := map (fun x => GenUtils.threshold_cdf_vals x t) (map (cdf D (fit D f)) f)).
  assert (Eq : eql q' q).
  { unfold q', q, aff. rewrite !map_map. apply eql_map_pointwise. intros x _. apply (clamp_proper t). apply Hcf. }
  clearbody q q'. clear Hcf Hfa.
  unfold aff at 3 4. revert q q' Eq. induction f as [|x f IH]; intros q q' Eq; [destruct q, q'; constructor|].
  inversion Eq as [|u v q0' q0 Huv Eq0]; subst; cbn [map QL.zip2]; [constructor|].
  constructor.
  - rewrite Hpo, Hph. rewrite (Pp (fit D o) _ _ Huv), (Pp (fit D h) _ _ Huv). ring.
  - destruct f as [|y f]; [destruct q0', q0; constructor|]. apply IH; [discriminate|exact Eq0].
Qed.
End LS.
