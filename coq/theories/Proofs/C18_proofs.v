(** C18: derived-variable conversions round-trip.  All statements are about the
    definitions regenerated from ibicus/utils/_utils.py (Gen/GenUtils.v). *)
From Coq Require Import QArith List Lqa.
From IV Require Import NP QL GenUtils.
Import ListNotations.
Open Scope Q_scope.

Lemma tas_roundtrip_min tas tmin tmax : ~ tmax == tmin ->
  get_tasmin tas (fst (get_tasrange_tasskew tas tmin tmax)) (snd (get_tasrange_tasskew tas tmin tmax)) == tmin.
Proof.
  intro H. unfold get_tasrange_tasskew, get_tasmin, get_tasrange, get_tasskew. cbn [fst snd].
  field. intro E. apply H. lra.
Qed.

Lemma tas_roundtrip_max tas tmin tmax : ~ tmax == tmin ->
  get_tasmax tas (fst (get_tasrange_tasskew tas tmin tmax)) (snd (get_tasrange_tasskew tas tmin tmax)) == tmax.
Proof.
  intro H. unfold get_tasrange_tasskew, get_tasmax, _get_tasmax_from_tasmin_and_range, get_tasmin, get_tasrange, get_tasskew.
  cbn [fst snd]. field. intro E. apply H. lra.
Qed.

Lemma pair_single_agree_minmax tas r s :
  get_tasmin_tasmax tas r s = (get_tasmin tas r s, get_tasmax tas r s).
Proof. reflexivity. Qed.

Lemma pair_single_agree_rangeskew tas tmin tmax :
  get_tasrange_tasskew tas tmin tmax = (get_tasrange tmin tmax, get_tasskew tas tmin tmax).
Proof. reflexivity. Qed.

Lemma tas_roundtrip_pair tas tmin tmax : ~ tmax == tmin ->
  let rs := get_tasrange_tasskew tas tmin tmax in
  fst (get_tasmin_tasmax tas (fst rs) (snd rs)) == tmin /\
  snd (get_tasmin_tasmax tas (fst rs) (snd rs)) == tmax.
Proof.
  intros H rs. rewrite pair_single_agree_minmax. cbn [fst snd]. split.
  - apply tas_roundtrip_min; exact H.
  - apply tas_roundtrip_max; exact H.
Qed.

(** the other direction: (tas, range, skew) -> (tasmin, tasmax) -> (range, skew) *)
Lemma rangeskew_roundtrip tas r s : ~ r == 0 ->
  let mm := get_tasmin_tasmax tas r s in
  fst (get_tasrange_tasskew tas (fst mm) (snd mm)) == r /\
  snd (get_tasrange_tasskew tas (fst mm) (snd mm)) == s.
Proof.
  intros H mm. unfold mm, get_tasrange_tasskew, get_tasmin_tasmax, get_tasrange, get_tasskew,
    _get_tasmax_from_tasmin_and_range, get_tasmin. cbn [fst snd]. split.
  - ring.
  - field. intro E. apply H. lra.
Qed.

Lemma order_preserved tas r s : 0 <= s -> s <= 1 -> 0 <= r ->
  get_tasmin tas r s <= tas /\ tas <= get_tasmax tas r s.
Proof.
  intros H0 H1 Hr. unfold get_tasmax, _get_tasmax_from_tasmin_and_range, get_tasmin.
  assert (0 <= s * r) by (apply Qmult_le_0_compat; assumption).
  assert (0 <= (1 - s) * r) by (apply Qmult_le_0_compat; lra).
  split; lra.
Qed.

Lemma order_min_le_max tas r s : 0 <= r -> get_tasmin tas r s <= get_tasmax tas r s.
Proof. intro Hr. unfold get_tasmax, _get_tasmax_from_tasmin_and_range. lra. Qed.

Lemma skew_in_unit tas tmin tmax : tmin < tmax -> tmin <= tas -> tas <= tmax ->
  0 <= get_tasskew tas tmin tmax /\ get_tasskew tas tmin tmax <= 1 /\ 0 <= get_tasrange tmin tmax.
Proof.
  intros Hlt H1 H2. unfold get_tasskew, get_tasrange.
  assert (Hp : 0 < tmax - tmin) by lra.
  split; [|split].
  - apply Qle_shift_div_l; [exact Hp|]. lra.
  - apply Qle_shift_div_r; [exact Hp|]. lra.
  - lra.
Qed.

Lemma pr_prsn_roundtrip pr prsn : ~ pr == 0 -> get_prsn pr (get_prsnratio pr prsn) == prsn.
Proof. intro H. unfold get_prsn, get_prsnratio. field. exact H. Qed.

Lemma pr_pr_roundtrip pr prsn : ~ pr == 0 -> ~ prsn == 0 -> get_pr prsn (get_prsnratio pr prsn) == pr.
Proof. intros H H'. unfold get_pr, get_prsnratio. field. split; assumption. Qed.

Lemma pr_ratio_roundtrip pr ratio : ~ pr == 0 -> get_prsnratio pr (get_prsn pr ratio) == ratio.
Proof. intro H. unfold get_prsn, get_prsnratio. field. exact H. Qed.

Lemma pr_ratio_roundtrip' prsn ratio : ~ prsn == 0 -> ~ ratio == 0 ->
  get_prsnratio (get_pr prsn ratio) prsn == ratio.
Proof. intros H H'. unfold get_pr, get_prsnratio. field. split; assumption. Qed.

Lemma prsn_bounds pr ratio : 0 <= pr -> 0 <= ratio -> ratio <= 1 ->
  0 <= get_prsn pr ratio /\ get_prsn pr ratio <= pr.
Proof.
  intros Hp H0 H1. unfold get_prsn.
  assert (0 <= ratio * pr) by (apply Qmult_le_0_compat; assumption).
  assert (0 <= (1 - ratio) * pr) by (apply Qmult_le_0_compat; lra).
  split; lra.
Qed.

(** Elementwise lifting: NumPy applies these scalar functions cell by cell to arrays of
    any shape (flattened here; broadcasting of equal shapes is the prelude's assumption). *)
Fixpoint map3 {A B C D} (f : A -> B -> C -> D) (a : list A) (b : list B) (c : list C) : list D :=
  match a, b, c with
  | x :: a', y :: b', z :: c' => f x y z :: map3 f a' b' c'
  | _, _, _ => []
  end.

Lemma array_roundtrip (tas tmin tmax : list Q) :
  length tmin = length tas -> length tmax = length tas ->
  Forall2 (fun a b => ~ b == a) tmin tmax ->
  let rs := map3 get_tasrange_tasskew tas tmin tmax in
  Forall2 Qeq (map3 get_tasmin tas (map fst rs) (map snd rs)) tmin /\
  Forall2 Qeq (map3 get_tasmax tas (map fst rs) (map snd rs)) tmax.
Proof.
  revert tmin tmax. induction tas as [|t tas IH]; intros [|a tmin] [|b tmax]; cbn [map3 map length]; intros L1 L2 HF;
    try discriminate; [split; constructor|].
  inversion HF as [|? ? ? ? Hab HF']; subst.
  destruct (IH tmin tmax) as [I1 I2]; [congruence|congruence|exact HF'|].
  split; constructor; try assumption.
  - exact (tas_roundtrip_min t a b Hab).
  - exact (tas_roundtrip_max t a b Hab).
Qed.
