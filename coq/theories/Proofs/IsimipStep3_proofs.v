(** ISIMIP steps 3 and 7: adding the trend back restores the series; the removed trend is centred (it sums to zero
    over the years present); a uniform shift of the series leaves the trend unchanged, so detrending commutes with it. *)
From Coq Require Import QArith ZArith List Bool Lia Lqa.
From IV Require Import NP NPFacts QL QListFacts YearsDriver_proofs IsimipStep3.
Import ListNotations.
Open Scope Q_scope.

Lemma Forall2_map_both {A} (f g : A -> Q) (l : list A) : (forall y, In y l -> f y == g y) -> eql (map f l) (map g l).
Proof.
  induction l as [|a l IH]; intro H; cbn [map]; constructor; [apply H; left; reflexivity|].
  apply IH. intros y Hy. apply H. right; exact Hy.
Qed.

(* ---------- step 7 undoes step 3 ---------- *)
Lemma zip_sub_add (a : list Q) : forall b, length a = length b ->
  eql (QL.zip2 (fun u v => Qred (u + v)) (QL.zip2 (fun u v => Qred (u - v)) a b) b) a.
Proof.
  induction a as [|x a IH]; intros b L; destruct b as [|y b]; try discriminate; [constructor|].
  cbn [QL.zip2]. constructor; [rewrite !Qred_correct; ring | apply IH; injection L as L; exact L].
Qed.

Theorem step7_restores sig years x : length x = length years ->
  eql (step7_restore (step3_remove sig years x) (step3_trend sig years x)) x.
Proof.
  intro L. unfold step7_restore, step3_remove. apply zip_sub_add. unfold step3_trend. rewrite map_length. exact L.
Qed.

(* ---------- the trend is centred ---------- *)
Lemma map_snd_annual sig years x :
  map snd (annual_trend sig years x) =
  map (fun y => if sig then ols_slope (map inject_Z (NP.unique years)) (yearly_means years x) *
                              (inject_Z y - QL.qsum (map inject_Z (NP.unique years)) / QL.qlen (map inject_Z (NP.unique years))) else 0)
      (NP.unique years).
Proof. unfold annual_trend. cbv zeta. rewrite map_map. reflexivity. Qed.

Theorem trend_centred sig years x : years <> [] -> QL.qsum (map snd (annual_trend sig years x)) == 0.
Proof.
  intro Hne. rewrite map_snd_annual.
  set (uy := NP.unique years). set (tq := map inject_Z uy). set (s := ols_slope tq (yearly_means years x)).
  set (tm := QL.qsum tq / QL.qlen tq).
  destruct sig.
  - assert (E : eql (map (fun y => s * (inject_Z y - tm)) uy) (map (fun t => s * t + (- s * tm)) tq)).
    { unfold tq. rewrite map_map. apply Forall2_map_both. intros y _. ring. }
    rewrite (qsum_eql _ _ E), qsum_map_affine. unfold tm.
    assert (Hq : 0 < QL.qlen tq).
    { apply qlen_pos. unfold tq, uy. intro E0. apply map_eq_nil in E0. apply (unique_nonempty years Hne). exact E0. }
    field. lra.
  - assert (E : eql (map (fun _ : Z => 0) uy) (map (fun t => 0 * t + 0) (map inject_Z uy))).
    { rewrite map_map. apply Forall2_map_both. intros y _. ring. }
    rewrite (qsum_eql _ _ E), qsum_map_affine. ring.
Qed.

(* ---------- a uniform shift leaves the trend unchanged ---------- *)
Lemma select_map {A B} (f : A -> B) : forall (x : list A) (m : list bool), NP.select (map f x) m = map f (NP.select x m).
Proof.
  induction x as [|a x IH]; intros m; [reflexivity|]. destruct m as [|b m]; [reflexivity|].
  cbn [map NP.select]. destruct b; cbn [map]; rewrite IH; reflexivity.
Qed.

Lemma qsum_shift c l : QL.qsum (map (fun v => v + c) l) == QL.qsum l + c * QL.qlen l.
Proof.
  assert (E : eql (map (fun v => v + c) l) (map (fun v => 1 * v + c) l)) by (apply eql_map_pointwise; intros; ring).
  rewrite (qsum_eql _ _ E), qsum_map_affine. ring.
Qed.

Lemma qmean_shift c l : l <> [] -> QL.qmean (map (fun v => v + c) l) == QL.qmean l + c.
Proof.
  intro Hne. rewrite !qmean_spec, qsum_shift, qlen_map. pose proof (qlen_pos l Hne). field. lra.
Qed.

Lemma vals_of_year_nonempty years : forall x y, length x = length years -> In y years -> vals_of_year years x y <> [].
Proof.
  unfold vals_of_year. induction years as [|a years IH]; intros x y L Hy; [destruct Hy|].
  destruct x as [|v x]; [discriminate|]. cbn [map NP.select]. injection L as L.
  destruct (Z.eqb y a) eqn:E; [discriminate|]. destruct Hy as [-> | Hy]; [rewrite Z.eqb_refl in E; discriminate|].
  apply IH; assumption.
Qed.

Lemma yearly_means_shift c years x : length x = length years ->
  eql (yearly_means years (map (fun v => v + c) x)) (map (fun v => v + c) (yearly_means years x)).
Proof.
  intro L. unfold yearly_means. rewrite map_map. apply Forall2_map_both. intros y Hy.
  unfold vals_of_year. rewrite select_map. apply qmean_shift.
  apply (vals_of_year_nonempty years x y L). apply unique_in. exact Hy.
Qed.

Lemma sum2_pair (f g : Q -> Q -> Q) : forall t v v', Forall2 (fun b b' => forall a, f a b == g a b') v v' ->
  sum2 f t v == sum2 g t v'.
Proof.
  unfold sum2. induction t as [|a t IH]; intros v v' H; [reflexivity|].
  destruct H as [|b b' v v' Hb Hr]; [reflexivity|]. cbn [combine map fst snd]. rewrite !qsum_cons, (Hb a), (IH v v' Hr). reflexivity.
Qed.

Lemma shifted_rel c v v' : eql v' (map (fun b => b + c) v) -> Forall2 (fun b b' => b' == b + c) v v'.
Proof.
  revert v'. induction v as [|b v IH]; intros v' H; inversion H; subst; constructor; [assumption | apply IH; assumption].
Qed.

Lemma Forall2_weaken {A B} (R R' : A -> B -> Prop) l l' : (forall a b, R a b -> R' a b) -> Forall2 R l l' -> Forall2 R' l l'.
Proof. intros H F. induction F; constructor; auto. Qed.

Lemma ols_slope_shift c t v v' : t <> [] -> length v = length t -> eql v' (map (fun b => b + c) v) ->
  ols_slope t v' == ols_slope t v.
Proof.
  intros Ht L E. unfold ols_slope. cbv zeta.
  assert (Hn : 0 < QL.qlen t) by (apply qlen_pos; exact Ht).
  assert (Hlen : QL.qlen v == QL.qlen t) by (unfold QL.qlen; rewrite L; reflexivity).
  assert (Hs : QL.qsum v' / QL.qlen t == QL.qsum v / QL.qlen t + c).
  { rewrite (qsum_eql _ _ E), qsum_shift, Hlen. field. lra. }
  pose proof (shifted_rel c v v' E) as R.
  assert (N : sum2 (fun a b => (a - QL.qsum t / QL.qlen t) * (b - QL.qsum v' / QL.qlen t)) t v'
           == sum2 (fun a b => (a - QL.qsum t / QL.qlen t) * (b - QL.qsum v / QL.qlen t)) t v).
  { symmetry. apply sum2_pair. eapply Forall2_weaken; [|exact R]. cbn beta. intros b b' Hb a. rewrite Hb, Hs. ring. }
  assert (D : sum2 (fun a _ => (a - QL.qsum t / QL.qlen t) * (a - QL.qsum t / QL.qlen t)) t v'
           == sum2 (fun a _ => (a - QL.qsum t / QL.qlen t) * (a - QL.qsum t / QL.qlen t)) t v).
  { symmetry. apply sum2_pair. eapply Forall2_weaken; [|exact R]. cbn beta. intros b b' _ a. reflexivity. }
  rewrite N, D. reflexivity.
Qed.

Lemma lookup_year_eq (tr tr' : list (Z * Q)) y :
  Forall2 (fun p p' => fst p = fst p' /\ snd p == snd p') tr tr' -> lookup_year tr y == lookup_year tr' y.
Proof.
  induction 1 as [|[u v] [u' v'] tr tr' [Hu Hv] _ IH]; [reflexivity|]. cbn [fst snd] in *. subst u'.
  cbn [lookup_year]. destruct (Z.eqb u y); [exact Hv | exact IH].
Qed.

Lemma annual_trend_shift sig c years x : years <> [] -> length x = length years ->
  Forall2 (fun p p' => fst p = fst p' /\ snd p == snd p') (annual_trend sig years (map (fun v => v + c) x)) (annual_trend sig years x).
Proof.
  intros Hne L. unfold annual_trend. cbv zeta.
  assert (Hs : ols_slope (map inject_Z (NP.unique years)) (yearly_means years (map (fun v => v + c) x))
            == ols_slope (map inject_Z (NP.unique years)) (yearly_means years x)).
  { apply (ols_slope_shift c).
    - intro E0. apply map_eq_nil in E0. apply (unique_nonempty years Hne). exact E0.
    - unfold yearly_means. rewrite !map_length. reflexivity.
    - apply yearly_means_shift. exact L. }
  set (s1 := ols_slope (map inject_Z (NP.unique years)) (yearly_means years (map (fun v => v + c) x))) in *.
  set (s2 := ols_slope (map inject_Z (NP.unique years)) (yearly_means years x)) in *.
  set (tm := QL.qsum (map inject_Z (NP.unique years)) / QL.qlen (map inject_Z (NP.unique years))).
  clearbody s1 s2 tm.
  induction (NP.unique years) as [|y uy IH]; cbn [map]; constructor; [|exact IH].
  cbn [fst snd]. split; [reflexivity|]. destruct sig; [rewrite Hs; reflexivity | reflexivity].
Qed.

(** C02 at step 3: detrending commutes with a uniform shift — the removed trend is the same, the detrended
    series is shifted by the same constant *)
Theorem step3_trend_shift sig c years x : years <> [] -> length x = length years ->
  eql (step3_trend sig years (map (fun v => v + c) x)) (step3_trend sig years x).
Proof.
  intros Hne L. unfold step3_trend. apply Forall2_map_both. intros y _.
  apply lookup_year_eq. apply annual_trend_shift; assumption.
Qed.

Lemma zip_sub_shift c : forall a b b', length a = length b -> eql b' b ->
  eql (QL.zip2 (fun u v => Qred (u - v)) (map (fun v => v + c) a) b') (map (fun v => v + c) (QL.zip2 (fun u v => Qred (u - v)) a b)).
Proof.
  induction a as [|x a IH]; intros b b' L E; destruct b as [|y b]; try discriminate.
  - inversion E; subst. constructor.
  - inversion E as [|y' y0 b'' b0 Hy Hr]; subst. cbn [map QL.zip2]. constructor.
    + rewrite !Qred_correct, Hy. ring.
    + apply IH; [injection L as L; exact L | exact Hr].
Qed.

Theorem step3_remove_shift sig c years x : years <> [] -> length x = length years ->
  eql (step3_remove sig years (map (fun v => v + c) x)) (map (fun v => v + c) (step3_remove sig years x)).
Proof.
  intros Hne L. unfold step3_remove. apply zip_sub_shift.
  - unfold step3_trend. rewrite map_length. exact L.
  - apply step3_trend_shift; assumption.
Qed.
