(** C03 for CDFt (REGENERATED mapping, default methods linear_interpolation / linear): if the model is unbiased
    in the reference period (cm_hist equals obs value for value) the future series is returned unchanged. *)
From Coq Require Import QArith ZArith List Bool String Lia Lqa.
From IV Require Import QL Dist Ecdf QFacts QListFacts C16_compose Affine LinInverse Affine_debiasers GenUtils GenScalars.
Import ListNotations.
Open Scope Q_scope.

Lemma iecdf_linear_proper s p p' : p == p' -> iecdf_sorted linear s p == iecdf_sorted linear s p'.
Proof.
  intro E. cbn [iecdf_sorted]. cbv zeta. apply lerp_at_proper. unfold vindex. rewrite E. reflexivity.
Qed.

Lemma ARL_id l : ARL 1 0 l l.
Proof. induction l; constructor; [unfold AR; ring|assumption]. Qed.

Lemma eql_ARL l l' : eql l l' -> ARL 1 0 l l'.
Proof. induction 1 as [|x x' l l' Hx Hl IH]; constructor; [unfold AR; rewrite Hx; ring|exact IH]. Qed.

Theorem cdft_fixed_point obs hist fut :
  eql obs hist -> strictQ (qsort obs) -> (2 <= List.length obs)%nat -> strictQ (qsort fut) -> (2 <= List.length fut)%nat ->
  exists out, cdft_apply_mapping "additive" linear_interpolation linear obs hist fut = Some out /\ eql out fut.
Proof.
  intros Eoh So No Sf Nf.
  assert (Hem : good_ecdf linear_interpolation) by (right; reflexivity).
  rewrite (cdft_additive_form linear_interpolation linear). eexists. split; [reflexivity|]. cbv zeta.
  assert (H1 : 0 < 1) by lra.
  assert (No' : obs <> []) by (destruct obs; [cbn in No; lia|discriminate]).
  assert (Nf' : fut <> []) by (destruct fut; [cbn in Nf; lia|discriminate]).
  assert (Nh' : hist <> []) by (intro E; subst; inversion Eoh; subst; congruence).
  set (s := QL.qmean obs - QL.qmean hist).
  assert (Es : s == 0) by (unfold s; rewrite (qmean_eql _ _ Eoh); ring).
  assert (Hh : ARL 1 0 obs (map (fun x => x + s) hist)).
  { clearbody s. clear -Eoh Es. induction Eoh as [|x x' l l' Hx Hl IH]; [constructor|]. cbn [map]. constructor; [unfold AR; rewrite Hx, Es; ring|exact IH]. }
  assert (Hf : ARL 1 0 fut (map (fun x => x + s) fut)).
  { clearbody s. clear -Es. induction fut as [|x l IH]; [constructor|]. cbn [map]. constructor; [unfold AR; rewrite Es; ring|exact IH]. }
  set (hs := map (fun x => x + s) hist) in *. set (fs := map (fun x => x + s) fut) in *.
  (* pointwise *)
  assert (G : forall x x', In x fut -> AR 1 0 x x' -> cdft_point linear_interpolation linear obs hs fs x' == x).
  { intros x x' Hx Hxx'. unfold cdft_point.
    rewrite (ecdf_rel 1 0 H1 linear_interpolation fut fs x x' Hem Hf Hxx').
    set (p1 := ecdf linear_interpolation fut x).
    assert (R1 : 0 <= p1 <= 1) by (apply ecdf_range; assumption).
    rewrite (ecdf_rel 1 0 H1 linear_interpolation obs hs _ _ Hem Hh (eq_ind_r (fun z => AR 1 0 z z) ltac:(unfold AR; ring) eq_refl)).
    set (p2 := ecdf linear_interpolation obs (iecdf linear obs p1)).
    assert (E2 : p2 == p1).
    { unfold p2. cbn [ecdf]. unfold ecdf_lin, iecdf. apply ecdf_iecdf_lin; [exact So|rewrite qsort_length; exact No|exact R1]. }
    assert (R2 : 0 <= p2 <= 1) by (apply ecdf_range; assumption).
    pose proof (iecdf_rel 1 0 H1 linear fut fs p2 Hf Nf' R2) as A. unfold AR in A. rewrite A.
    setoid_replace (1 * iecdf linear fut p2 + 0) with (iecdf linear fut p2) by ring.
    unfold iecdf. rewrite (iecdf_linear_proper _ _ _ E2). unfold p1. cbn [ecdf]. unfold ecdf_lin.
    apply iecdf_ecdf_lin_at_sample; [exact Sf|rewrite qsort_length; exact Nf|apply qsort_in; exact Hx]. }
  clearbody fs. clear Nf Sf Nf'. revert G. generalize (cdft_point linear_interpolation linear obs hs fs). intros g G.
  induction Hf as [|x x' l l' Hx Hl IH]; [constructor|]. cbn [map]. constructor.
  - apply G; [left; reflexivity|exact Hx].
  - apply IH. intros y y' Hy. apply G. right. exact Hy.
Qed.
