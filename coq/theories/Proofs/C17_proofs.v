(** C17: the precipitation models (hurdle, left-censored; REGENERATED from utils/_math_utils.py into
    Gen/GenPrecip.v) and the ignore-zeros model (hand model over extended rationals) are coherent. *)
From Coq Require Import QArith Qabs ZArith List Bool Lia Lqa.
From IV Require Import QL XQ Dist Ecdf QFacts C16_step GenPrecip.
Import ListNotations.
Open Scope Q_scope.

Section Amounts.
Context {P : Type} (D : dist P).
Variable fr : P.                               (* the fitted amounts distribution *)
Hypothesis ppf_proper : forall u v, u == v -> ppf D fr u == ppf D fr v.

(** wet values round-trip through cdf / ppf (any p0 < 1, any amounts distribution inverted by its ppf) *)
Theorem hurdle_roundtrip_wet rand x p0 u : ~ x == 0 -> 0 <= p0 -> p0 < 1 -> 0 < cdf D fr x ->
  ppf D fr (cdf D fr x) == x ->
  hurdle_ppf D (hurdle_cdf D rand x p0 fr u) p0 fr == x.
Proof.
  intros Hx H0 H1 HF Hinv. unfold hurdle_cdf, hurdle_ppf. cbv zeta. change (inject_Z 1) with 1. change (inject_Z 0) with 0.
  assert (E0 : Qeq_bool x 0 = false) by (destruct (Qeq_bool x 0) eqn:E; [apply Qeq_bool_iff in E; contradiction|reflexivity]).
  assert (Pos : 0 < (1 - p0) * cdf D fr x) by (apply Qmult_lt_0_compat; lra).
  destruct (negb rand); rewrite E0;
  (destruct (Qle_bool (p0 + (1 - p0) * cdf D fr x) p0) eqn:B; qb; [lra|];
   cbn [negb]; rewrite <- Hinv at 2; apply ppf_proper; field; lra).
Qed.

(** dry values come back as exact zeros, with or without cdf randomisation, for every random draw *)
Theorem hurdle_dry_zero rand p0 u : 0 <= p0 -> 0 <= u < 1 ->
  hurdle_ppf D (hurdle_cdf D rand 0 p0 fr u) p0 fr == 0.
Proof.
  intros H0 Hu. unfold hurdle_cdf, hurdle_ppf. cbv zeta. change (inject_Z 1) with 1. change (inject_Z 0) with 0.
  change (Qeq_bool 0 0) with true. cbn iota.
  destruct (negb rand).
  - assert (B : Qle_bool p0 p0 = true) by (apply Qle_bool_true; lra). rewrite B. reflexivity.
  - assert (B : Qle_bool (0 + (p0 - 0) * u) p0 = true) by (apply Qle_bool_true; nra). rewrite B. reflexivity.
Qed.

Theorem hurdle_cdf_range rand x p0 u : 0 <= p0 <= 1 -> 0 <= u < 1 -> 0 <= cdf D fr x <= 1 ->
  0 <= hurdle_cdf D rand x p0 fr u <= 1.
Proof.
  intros Hp Hu HF. unfold hurdle_cdf. cbv zeta. change (inject_Z 1) with 1. change (inject_Z 0) with 0.
  destruct (negb rand); destruct (Qeq_bool x 0); split; nra.
Qed.

(** wet values never receive a cdf value below the dry probability, and the cdf is monotone over wet values *)
Theorem hurdle_wet_ge_p0 rand x p0 u : ~ x == 0 -> p0 <= 1 -> 0 <= cdf D fr x -> p0 <= hurdle_cdf D rand x p0 fr u.
Proof.
  intros Hx Hp HF. unfold hurdle_cdf. cbv zeta. change (inject_Z 1) with 1.
  assert (E0 : Qeq_bool x (inject_Z 0) = false) by (destruct (Qeq_bool x (inject_Z 0)) eqn:E; [apply Qeq_bool_iff in E; contradiction|reflexivity]).
  destruct (negb rand); rewrite E0; nra.
Qed.

Theorem hurdle_cdf_mono_wet rand x y p0 u v : ~ x == 0 -> ~ y == 0 -> p0 <= 1 -> cdf D fr x <= cdf D fr y ->
  hurdle_cdf D rand x p0 fr u <= hurdle_cdf D rand y p0 fr v.
Proof.
  intros Hx Hy Hp HF. unfold hurdle_cdf. cbv zeta. change (inject_Z 1) with 1.
  assert (Ex : Qeq_bool x (inject_Z 0) = false) by (destruct (Qeq_bool x (inject_Z 0)) eqn:E; [apply Qeq_bool_iff in E; contradiction|reflexivity]).
  assert (Ey : Qeq_bool y (inject_Z 0) = false) by (destruct (Qeq_bool y (inject_Z 0)) eqn:E; [apply Qeq_bool_iff in E; contradiction|reflexivity]).
  destruct (negb rand); rewrite Ex, Ey; nra.
Qed.
End Amounts.

(** the fitted dry probability is the observed fraction of zeros *)
Lemma filter_split_length (f : Q -> bool) l : (length (filter f l) + length (filter (fun v => negb (f v)) l) = length l)%nat.
Proof. induction l as [|a l IH]; [reflexivity|]. cbn [filter]. destruct (f a); cbn [negb length]; lia. Qed.

Theorem hurdle_p0_is_zero_fraction {P} (D : dist P) data : data <> [] ->
  fst (hurdle_fit D data) == inject_Z (Z.of_nat (length (filter (fun v => Qeq_bool v 0) data))) / inject_Z (Z.of_nat (length data)).
Proof.
  intro Hne. unfold hurdle_fit. cbv zeta. cbn [fst]. change (inject_Z 1) with 1. change (inject_Z 0) with 0.
  pose proof (filter_split_length (fun v => Qeq_bool v 0) data) as Hs.
  assert (Np : 0 < inject_Z (Z.of_nat (length data))) by (apply inject_Z_pos; destruct data; [congruence|cbn; lia]).
  set (nz := length (filter (fun v => negb (Qeq_bool v 0)) data)) in *.
  set (z := length (filter (fun v => Qeq_bool v 0) data)) in *.
  assert (E : inject_Z (Z.of_nat (length data)) == inject_Z (Z.of_nat z) + inject_Z (Z.of_nat nz)).
  { rewrite <- inject_Z_plus. rewrite <- Nat2Z.inj_add, Hs. reflexivity. }
  field_simplify_eq; [|lra]. rewrite E. ring.
Qed.

(* ---------- left-censored gamma model (the gamma distribution is a parameter G) ---------- *)
Section Censored.
Context {P : Type} (G : dist P).
Variable gf : P.

Theorem censored_roundtrip thr x u : thr <= x -> ppf G gf (cdf G gf x) == x ->
  censored_ppf thr true (censored_cdf thr x gf G u) gf G == x.
Proof.
  intros Hx Hinv. unfold censored_cdf, censored_ppf. cbv zeta.
  assert (B : Qle_bool thr x = true) by (apply Qle_bool_true; exact Hx). rewrite B. cbn [negb].
  destruct (Qle_bool thr (ppf G gf (cdf G gf x))) eqn:B2; qb; cbn [negb]; [exact Hinv|lra].
Qed.

(** values below the censoring threshold are randomised below it and come back as exact zeros *)
Theorem censored_dry_zero thr x u : 0 < thr -> x < thr -> 0 <= u < 1 ->
  (forall y, ppf G gf (cdf G gf y) == y) ->
  censored_ppf thr true (censored_cdf thr x gf G u) gf G == 0.
Proof.
  intros Ht Hx Hu Hinv. unfold censored_cdf, censored_ppf. cbv zeta. change (inject_Z 0) with 0.
  assert (B : Qle_bool thr x = false) by (apply Qle_bool_false; exact Hx). rewrite B. cbn [negb].
  set (x' := 0 + (thr - 0) * u).
  assert (X : x' < thr) by (unfold x'; nra).
  destruct (Qle_bool thr (ppf G gf (cdf G gf x'))) eqn:B2; qb; cbn [negb]; [rewrite Hinv in B2; lra|reflexivity].
Qed.

Theorem censored_uncensored_ppf thr q : censored_ppf thr false q gf G = ppf G gf q.
Proof. reflexivity. Qed.
End Censored.

(* ---------- ignore-zeros model (REGENERATED: GenPrecip.ignorezeros_cdf / ignorezeros_ppf) ---------- *)
Section IgnoreZeros.
Context {P : Type} (D : dist P).
Variable fr : P.

Theorem ignorezeros_sentinel : ignorezeros_cdf D 0 fr = XQ.NInf /\ ignorezeros_ppf D XQ.NInf fr == 0.
Proof. split; reflexivity. Qed.

(** exactly the zeros are sent to -inf: every other value, however small, keeps a finite cdf value *)
Theorem ignorezeros_cdf_spec x :
  (x == 0 -> ignorezeros_cdf D x fr = XQ.NInf) /\ (~ x == 0 -> ignorezeros_cdf D x fr = XQ.Fin (cdf D fr x)).
Proof.
  unfold ignorezeros_cdf. change (inject_Z 0) with 0. split; intro H.
  - apply Qeq_bool_iff in H. rewrite H. reflexivity.
  - destruct (Qeq_bool x 0) eqn:E; [apply Qeq_bool_iff in E; contradiction|reflexivity].
Qed.

Theorem ignorezeros_roundtrip_wet x : ~ x == 0 -> ppf D fr (cdf D fr x) == x -> ignorezeros_ppf D (ignorezeros_cdf D x fr) fr == x.
Proof.
  intros Hx Hinv. rewrite (proj2 (ignorezeros_cdf_spec x) Hx). unfold ignorezeros_ppf. cbn. exact Hinv.
Qed.

Theorem ignorezeros_dry_zero : ignorezeros_ppf D (ignorezeros_cdf D 0 fr) fr == 0.
Proof. reflexivity. Qed.
End IgnoreZeros.
