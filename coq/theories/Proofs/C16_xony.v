(** quantile_map_x_on_y_non_parametically(mode = "isimipv3.0"): the rank-based probability is in [0, 1] and
    non-decreasing in the value, hence the mapping keeps the order and gives equal values equal images. *)
From Coq Require Import QArith ZArith List Bool Lia Lqa.
From IV Require Import QL Ecdf QFacts C16_step C16_compose.
Import ListNotations.
Open Scope Q_scope.

Lemma count_bounds (x : list Q) v : x <> [] -> In v x ->
  (0 <= zlen (filter (fun u => Qlt_bool u v) x))%Z /\
  (zlen (filter (fun u => Qlt_bool u v) x) + 1 <= zlen (filter (fun u => Qle_bool u v) x))%Z /\
  (zlen (filter (fun u => Qle_bool u v) x) <= zlen x)%Z.
Proof.
  intros Hne Hin. unfold zlen. split; [lia|]. split.
  - (* one more element (v itself) is <= v than < v *)
    assert (H : forall l, In v l -> (length (filter (fun u => Qlt_bool u v) l) + 1 <= length (filter (fun u => Qle_bool u v) l))%nat).
    { induction l as [|a l IH]; intro Hi; [destruct Hi|]. cbn [filter].
      destruct Hi as [-> | Hi].
      - assert (E1 : Qlt_bool v v = false) by (apply Qlt_bool_false; apply Qle_refl).
        assert (E2 : Qle_bool v v = true) by (apply Qle_bool_true; apply Qle_refl).
        rewrite E1, E2. cbn [length].
        pose proof (filter_length_mono (fun u => Qlt_bool u v) (fun u => Qle_bool u v) l) as M.
        assert (length (filter (fun u => Qlt_bool u v) l) <= length (filter (fun u => Qle_bool u v) l))%nat.
        { apply M. intros u _ Hu. qb. apply Qle_bool_true. lra. }
        lia.
      - specialize (IH Hi). destruct (Qlt_bool a v) eqn:E1.
        + assert (E2 : Qle_bool a v = true) by (qb; apply Qle_bool_true; lra). rewrite E2. cbn [length]. lia.
        + destruct (Qle_bool a v); cbn [length]; lia. }
    specialize (H x Hin). lia.
  - pose proof (filter_length_le (fun u => Qle_bool u v) x). lia.
Qed.

Lemma rank_p_range x v : x <> [] -> In v x -> 0 <= rank_p x v <= 1.
Proof.
  intros Hne Hin. unfold rank_p. rewrite Qred_correct.
  destruct (count_bounds x v Hne Hin) as (H0 & H1 & H2).
  set (a := zlen (filter (fun u => Qlt_bool u v) x)) in *. set (b := zlen (filter (fun u => Qle_bool u v) x)) in *.
  assert (Hn : 0 < inject_Z (zlen x)) by (apply inject_Z_pos, zlen_pos; exact Hne).
  split.
  - apply Qle_shift_div_l; [exact Hn|]. rewrite Qmult_0_l. apply Qle_shift_div_l; [lra|]. rewrite Qmult_0_l.
    change 0 with (inject_Z 0). apply inject_Z_le. lia.
  - apply Qle_shift_div_r; [exact Hn|]. rewrite Qmult_1_l. apply Qle_shift_div_r; [lra|].
    setoid_replace (inject_Z (zlen x) * 2) with (inject_Z (2 * zlen x)) by (rewrite inject_Z_mult; ring).
    apply inject_Z_le. lia.
Qed.

Lemma rank_p_mono x v1 v2 : x <> [] -> v1 <= v2 -> rank_p x v1 <= rank_p x v2.
Proof.
  intros Hne Hv. unfold rank_p. rewrite !Qred_correct.
  assert (Hn : 0 < inject_Z (zlen x)) by (apply inject_Z_pos, zlen_pos; exact Hne).
  apply Qdiv_le_compat; [exact Hn|]. apply Qdiv_le_compat; [lra|]. apply inject_Z_le. unfold zlen.
  pose proof (filter_length_mono (fun u => Qlt_bool u v1) (fun u => Qlt_bool u v2) x) as M1.
  pose proof (filter_length_mono (fun u => Qle_bool u v1) (fun u => Qle_bool u v2) x) as M2.
  assert (length (filter (fun u => Qlt_bool u v1) x) <= length (filter (fun u => Qlt_bool u v2) x))%nat
    by (apply M1; intros u _ Hu; qb; apply Qlt_bool_true; lra).
  assert (length (filter (fun u => Qle_bool u v1) x) <= length (filter (fun u => Qle_bool u v2) x))%nat
    by (apply M2; intros u _ Hu; qb; apply Qle_bool_true; lra).
  lia.
Qed.

Lemma xony_isimip_nth x y i : (i < length x)%nat ->
  nth i (xony_isimip x y) 0 = iecdf linear y (rank_p x (nth i x 0)).
Proof.
  intro H. unfold xony_isimip. rewrite (nth_indep _ 0 ((fun v => iecdf linear y (rank_p x v)) 0)) by (rewrite map_length; exact H).
  apply (map_nth (fun v => iecdf linear y (rank_p x v))).
Qed.

Theorem xony_isimip_order x y i j : y <> [] -> (i < length x)%nat -> (j < length x)%nat ->
  nth i x 0 <= nth j x 0 -> nth i (xony_isimip x y) 0 <= nth j (xony_isimip x y) 0.
Proof.
  intros Hy Hi Hj Hle. rewrite !xony_isimip_nth by assumption.
  assert (Hne : x <> []) by (intro E; rewrite E in Hi; cbn in Hi; lia).
  assert (R1 := rank_p_range x (nth i x 0) Hne (nth_In x 0 Hi)).
  assert (R2 := rank_p_range x (nth j x 0) Hne (nth_In x 0 Hj)).
  apply iecdf_mono; [apply every_iecdf_method_proved | exact Hy | lra | apply rank_p_mono; assumption | lra].
Qed.

Theorem xony_isimip_ties x y i j : y <> [] -> (i < length x)%nat -> (j < length x)%nat ->
  nth i x 0 == nth j x 0 -> nth i (xony_isimip x y) 0 == nth j (xony_isimip x y) 0.
Proof.
  intros Hy Hi Hj E. apply Qle_antisym; apply xony_isimip_order; try assumption; rewrite E; apply Qle_refl.
Qed.

(** within the range of y *)
Theorem xony_isimip_range x y i : y <> [] -> (i < length x)%nat ->
  QL.qmin y <= nth i (xony_isimip x y) 0 <= QL.qmax y.
Proof.
  intros Hy Hi. rewrite xony_isimip_nth by assumption.
  assert (Hne : x <> []) by (intro E; rewrite E in Hi; cbn in Hi; lia).
  apply iecdf_range; [apply every_iecdf_method_proved | exact Hy | apply rank_p_range; [exact Hne | apply nth_In; exact Hi]].
Qed.
