(** ISIMIP step 5 (hand model Model/IsimipStep5.v, correspondence K17): range and trend statements. *)
From Coq Require Import QArith Qabs ZArith List Bool Lia Lqa.
From IV Require Import QL Ecdf QFacts QListFacts C16_compose Affine IsimipStep5.
Import ListNotations.
Open Scope Q_scope.

Lemma clip_range a b v : a <= b -> a <= QL.qmax2 a (QL.qmin2 v b) /\ QL.qmax2 a (QL.qmin2 v b) <= b.
Proof.
  intro H. unfold QL.qmax2, QL.qmin2. destruct (Qle_bool v b) eqn:E1; qb.
  - destruct (Qle_bool a v) eqn:E2; qb; split; lra.
  - destruct (Qle_bool a b) eqn:E2; qb; split; lra.
Qed.

(** bounded trend preservation: the pseudo future observations stay inside the variable's bounds *)
Theorem step5_bounded_in_bounds em im a b oh ch cf : a <= b -> Forall (fun v => a <= v /\ v <= b) (step5 TBounded em im a b oh ch cf).
Proof.
  intro H. unfold step5. apply Forall_forall. intros v Hv. apply in_map_iff in Hv. destruct Hv as (x & <- & _).
  cbv zeta. unfold step5_value. cbv zeta. apply clip_range. exact H.
Qed.

(** multiplicative: the change factor is clipped to [1/100, 100]; non-negative observations stay non-negative *)
Theorem step5_multiplicative_nonneg em im a b oh ch cf : Forall (fun v => 0 <= v) oh -> Forall (fun v => 0 <= v) (step5 TMultiplicative em im a b oh ch cf).
Proof.
  intro H. unfold step5. apply Forall_forall. intros v Hv. apply in_map_iff in Hv. destruct Hv as (x & <- & Hx).
  rewrite Forall_forall in H. specialize (H x Hx). cbv zeta. unfold step5_value. cbv zeta.
  apply Qmult_le_0_compat; [exact H|]. unfold QL.qmax2. destruct (Qle_bool (1 # 100) _) eqn:E; qb; lra.
Qed.

(** additive: a constant added to cm_future is added to every pseudo future observation (C02), and a change of
    units of all three series carries over (C04) *)
Lemma F2_map_same (f g : Q -> Q) (R : Q -> Q -> Prop) l : (forall x, In x l -> R (f x) (g x)) -> Forall2 R (map f l) (map g l).
Proof. induction l as [|a0 l IH]; intro H; cbn [map]; constructor; [apply H; left; reflexivity|apply IH; intros x Hx; apply H; right; exact Hx]. Qed.

Theorem step5_additive_trend em im a b c oh ch cf : em = step_function \/ em = linear_interpolation -> oh <> [] -> cf <> [] ->
  ARL 1 c (step5 TAdditive em im a b oh ch cf) (step5 TAdditive em im a b oh ch (map (fun x => x + c) cf)).
Proof.
  intros Hem No Nf. unfold step5. assert (H1 : 0 < 1) by lra.
  assert (Hf : ARL 1 c cf (map (fun x => x + c) cf)) by (clear; induction cf; constructor; [unfold AR; ring|assumption]).
  apply F2_map_same. intros y _. cbv zeta. unfold step5_value.
  pose proof (iecdf_rel 1 c H1 im cf _ (ecdf em oh y) Hf Nf (ecdf_range em oh y Hem No)) as R. unfold AR in *. rewrite R. ring.
Qed.

Theorem step5_additive_unit_change em im a b lb ub oh oh' ch ch' cf cf' : 0 < a -> em = step_function \/ em = linear_interpolation ->
  oh <> [] -> ch <> [] -> cf <> [] -> ARL a b oh oh' -> ARL a b ch ch' -> ARL a b cf cf' ->
  ARL a b (step5 TAdditive em im lb ub oh ch cf) (step5 TAdditive em im lb ub oh' ch' cf').
Proof.
  intros Ha Hem No Nh Nf Ho Hh Hf. unfold step5.
  apply (ARL_map a b); [exact Ho|]. intros x x' _ Hx. cbv zeta. unfold step5_value.
  rewrite (ecdf_rel a b Ha em oh oh' x x' Hem Ho Hx).
  pose proof (ecdf_range em oh x Hem No) as Rg.
  pose proof (iecdf_rel a b Ha im ch ch' _ Hh Nh Rg) as R1. pose proof (iecdf_rel a b Ha im cf cf' _ Hf Nf Rg) as R2.
  unfold AR in *. rewrite Hx, R1, R2. ring.
Qed.
