(** C14: the extracted input check list (Gen/GenChecks.v), interpreted over argument descriptors,
    equals its closed-form specification for EVERY combination of descriptors. *)
From Coq Require Import ZArith QArith List Bool String Lia.
From IV Require Import ChecksBase GenChecks Checks NP QL GenUtils.
Import ListNotations.
Open Scope string_scope.

Lemma seq_result_assoc r k1 k2 :
  seq_result (seq_result r k1) k2 = seq_result r (fun st => seq_result (k1 st) k2).
Proof.
  destruct r as [e|st w|]; cbn; try reflexivity.
  destruct (k1 st) as [e|st' w'|]; cbn; try reflexivity.
  destruct (k2 st') as [e|st'' w''|]; cbn; try reflexivity. rewrite app_assoc. reflexivity.
Qed.

Lemma run_list_app l1 l2 st : run_list (l1 ++ l2)%list st = seq_result (run_list l1 st) (run_list l2).
Proof.
  revert st. induction l1 as [|a l1 IH]; intro st; cbn [run_list app].
  - cbn. destruct (run_list l2 st); reflexivity.
  - rewrite seq_result_assoc.
    destruct (run_action 8 a st) as [e|st' w|]; cbn [seq_result]; try reflexivity. rewrite IH. reflexivity.
Qed.

(* ---------- the four phases of the extracted list ---------- *)
Definition phaseA := firstn 10 input_checks.
Definition phaseB := firstn 3 (skipn 10 input_checks).
Definition phaseC := firstn 3 (skipn 13 input_checks).
Definition phaseD := skipn 16 input_checks.
Lemma input_checks_split : input_checks = (phaseA ++ phaseB ++ phaseC ++ phaseD)%list.
Proof. reflexivity. Qed.

Definition floated (d : desc) : desc := mkDesc (nd d) DFloat (ndim3 d) (nonfinite d) (oor d) (msk d).
Definition stA (st : state) : state :=
  mkState (floated (s_obs st)) (floated (s_hist st)) (floated (s_fut st)) (same_spatial st) (range_configured st).

Ltac dstate st :=
  destruct st as [[no to so fo oo mo] [nh th sh fh oh mh] [nf tf sf ff of' mf] same rc].

Lemma phaseA_spec st :
  run_list phaseA st =
  if negb (all_nd st) then Raised E_Type
  else if value_error st then Raised E_Value
  else Done (stA st) (warns_for st (fun d => negb (is_float (dt d))) W_dtype).
Proof.
  dstate st. destruct no, nh, nf; try reflexivity;
  destruct to; try reflexivity; destruct th; try reflexivity; destruct tf; try reflexivity;
  destruct so; try reflexivity; destruct sh; try reflexivity; destruct sf; try reflexivity;
  destruct same; reflexivity.
Qed.

Lemma phaseB_spec st : run_list phaseB st = Done st (warns_for st nonfinite W_nonfinite).
Proof. dstate st. destruct fo, fh, ff; reflexivity. Qed.

Lemma phaseC_spec st : run_list phaseC st = Done st (warns_for st (fun d => range_configured st && oor d) W_range).
Proof. dstate st. destruct rc, oo, oh, of'; reflexivity. Qed.

Definition unmasked (d : desc) : desc :=
  mkDesc (nd d) (dt d) (ndim3 d) (nonfinite d || is_masked_invalid (msk d)) (oor d) NotMasked.
Definition stD (st : state) : state :=
  mkState (unmasked (s_obs st)) (unmasked (s_hist st)) (unmasked (s_fut st)) (same_spatial st) (range_configured st).

Lemma phaseD_spec st :
  run_list phaseD st =
  Done (stD st) (flat_map (fun a => match msk (get st a) with
                     | NotMasked => [] | MaskedValid => [(W_masked_valid, a)] | MaskedInvalid => [(W_masked_invalid, a)] end) arg_list).
Proof.
  dstate st. unfold stD, unmasked. destruct mo, mh, mf; cbn; rewrite ?orb_false_r, ?orb_true_r; reflexivity.
Qed.

(** the whole extracted list = its closed form, for every state *)
Theorem run_spec st :
  run input_checks st =
  if negb (all_nd st) then Raised E_Type
  else if value_error st then Raised E_Value
  else Done (spec_state st) (spec_warnings st).
Proof.
  unfold run. rewrite input_checks_split, run_list_app, phaseA_spec.
  destruct (negb (all_nd st)); [reflexivity|].
  destruct (value_error st); [reflexivity|].
  cbn [seq_result]. rewrite run_list_app, phaseB_spec. cbn [seq_result].
  rewrite run_list_app, phaseC_spec. cbn [seq_result].
  rewrite phaseD_spec. unfold spec_warnings, spec_state.
  dstate st. cbn. rewrite ?app_nil_r, <- ?app_assoc. reflexivity.
Qed.

(* ---------- the statements of the property ---------- *)
Theorem type_first st : run input_checks st = Raised E_Type <-> all_nd st = false.
Proof.
  rewrite run_spec. destruct (all_nd st); cbn [negb]; split; try congruence; try reflexivity.
  destruct (value_error st); discriminate.
Qed.

Theorem value_error_iff st : all_nd st = true ->
  (run input_checks st = Raised E_Value <-> value_error st = true).
Proof.
  intro H. rewrite run_spec, H. cbn [negb]. destruct (value_error st); split; try congruence; try reflexivity; discriminate.
Qed.

Theorem ok_iff st : (exists st' w, run input_checks st = Done st' w) <-> all_nd st = true /\ value_error st = false.
Proof.
  rewrite run_spec. destruct (all_nd st); cbn [negb]; [destruct (value_error st)|]; split.
  - intros (? & ? & H). discriminate.
  - intros [_ H]. discriminate.
  - intros _. split; reflexivity.
  - intros _. eexists. eexists. reflexivity.
  - intros (? & ? & H). discriminate.
  - intros [H _]. discriminate.
Qed.

Theorem warnings_exact st : all_nd st = true -> value_error st = false ->
  run input_checks st = Done (spec_state st) (spec_warnings st).
Proof. intros H1 H2. rewrite run_spec, H1, H2. reflexivity. Qed.

Theorem never_stuck st : run input_checks st <> Stuck.
Proof. rewrite run_spec. destruct (negb (all_nd st)); [discriminate|]. destruct (value_error st); discriminate. Qed.

(** accepted input is converted: floating dtype, no masked array left, masked-invalid cells become NaN *)
Theorem converted st : forall a, In a arg_list ->
  dt (get (spec_state st) a) = DFloat /\ msk (get (spec_state st) a) = NotMasked /\
  nonfinite (get (spec_state st) a) = nonfinite (get st a) || is_masked_invalid (msk (get st a)).
Proof. intros a [<-|[<-|[<-|[]]]]; cbn; repeat split. Qed.

(** the output check only warns *)
Theorem output_check_only_warns st : exists w, run output_checks st = Done st w /\
  w = ((if nonfinite (s_fut st) then [(W_out_nonfinite, A_output)] else []) ++
      (if range_configured st && oor (s_fut st) then [(W_out_range, A_output)] else []))%list.
Proof. dstate st. destruct ff, rc, of'; eexists; split; reflexivity. Qed.

Theorem check_before_map : check_before_map_Debiaser = true /\ check_before_map_DeltaChange = true.
Proof. split; reflexivity. Qed.

(** time arrays: ValueError iff some length differs *)
Theorem time_mismatch (o h f : list Q) (to th tf : list Z) :
  check_time_information_and_raise_error o h f to th tf = None <->
  (List.length o <> List.length to \/ List.length h <> List.length th \/ List.length f <> List.length tf).
Proof.
  unfold check_time_information_and_raise_error.
  destruct (Z.of_nat (List.length o) =? Z.of_nat (List.length to))%Z eqn:E1;
  destruct (Z.of_nat (List.length h) =? Z.of_nat (List.length th))%Z eqn:E2;
  destruct (Z.of_nat (List.length f) =? Z.of_nat (List.length tf))%Z eqn:E3; cbn; split; intro H;
  try discriminate; try reflexivity; try lia;
  repeat match goal with X : (_ =? _)%Z = _ |- _ => first [apply Z.eqb_eq in X | apply Z.eqb_neq in X] end; lia.
Qed.
