(** C06 instantiated at the REGENERATED per-window methods: LinearScaling, parametric
    QuantileMapping (all detrending modes) and ECDFM are value-wise functions whose calibration
    arguments enter only through order-free statistics (mean, fitted parameters), so the general
    order-equivariance theorem applies to them. *)
From Coq Require Import QArith ZArith List Bool String Permutation.
From IV Require Import NP QL Dist GenWindows GenUtils GenScalars Driver Driver_proofs Driver_corollaries C06_proofs QListFacts.
Import ListNotations.

Definition unwrap (o : option (list Q)) : list Q := match o with Some l => l | None => [] end.

(** the driver uses the per-window method only through its results *)
Lemma driver_ext {V} L S dA (Wc Wc' : Z -> list V) : (forall c, Wc c = Wc' c) -> driver V L S dA Wc = driver V L S dA Wc'.
Proof.
  intro H. unfold driver. generalize (Some (repeat (@None V) (List.length dA))). generalize (days_use S dA).
  intro l. induction l as [|ci l IH]; intro acc; [reflexivity|]. cbn [fold_left]. rewrite H. apply IH.
Qed.

Lemma driver_rw_ext {T V} L S dobs dhist dfut (obs hist fut : list T) (W W' : list T -> list T -> list T -> list V) :
  (forall o h f, W o h f = W' o h f) ->
  driver_rw V L S dobs dhist dfut obs hist fut W = driver_rw V L S dobs dhist dfut obs hist fut W'.
Proof. intro H. unfold driver_rw. apply driver_ext. intro c. apply H. Qed.

Section Instances.
Variables (L S : Z).
Hypothesis HS : (0 < S)%Z.
Hypothesis HSL : (S <= L)%Z.
Hypothesis Hodd : (S mod 2 = 1)%Z.

(** the conclusion of C06 for a per-window method W *)
Definition order_equivariant (W : list Q -> list Q -> list Q -> list Q) : Prop :=
  forall dobs dhist dfut (obs hist fut : list Q) dobs' dhist' dfut' (obs' hist' fut' : list Q),
  (forall d, In d dfut -> (1 <= d <= 366)%Z) ->
  List.length obs = List.length dobs -> List.length obs' = List.length dobs' -> List.length hist = List.length dhist -> List.length hist' = List.length dhist' ->
  List.length fut = List.length dfut -> List.length fut' = List.length dfut' ->
  Permutation (combine dobs obs) (combine dobs' obs') -> Permutation (combine dhist hist) (combine dhist' hist') ->
  Permutation (combine dfut fut) (combine dfut' fut') ->
  exists out out', driver_rw Q L S dobs dhist dfut obs hist fut W = Some out /\
                   driver_rw Q L S dobs' dhist' dfut' obs' hist' fut' W = Some out' /\
    forall k k', (0 <= k < Z.of_nat (List.length dfut))%Z -> (0 <= k' < Z.of_nat (List.length dfut'))%Z ->
      nth (Z.to_nat k) dfut 0%Z = nth (Z.to_nat k') dfut' 0%Z ->
      nth_error fut (Z.to_nat k) = nth_error fut' (Z.to_nat k') ->
      nth (Z.to_nat k) out None = nth (Z.to_nat k') out' None.

Lemma of_pointwise (W : list Q -> list Q -> list Q -> list Q) (g : list Q -> list Q -> list Q -> Q -> Q) :
  (forall o h f, W o h f = map (g o h f) f) ->
  (forall o o' h h' f f' x, Permutation o o' -> Permutation h h' -> Permutation f f' -> g o h f x = g o' h' f' x) ->
  order_equivariant W.
Proof.
  intros HW Hg dobs dhist dfut obs hist fut dobs' dhist' dfut' obs' hist' fut' A1 A2 A3 A4 A5 A6 A7 A8 A9 A10.
  rewrite (driver_rw_ext L S dobs dhist dfut obs hist fut W (Wg Q Q g) HW).
  rewrite (driver_rw_ext L S dobs' dhist' dfut' obs' hist' fut' W (Wg Q Q g) HW).
  exact (order_equivariance Q Q g Hg L S HS HSL Hodd dobs dhist dfut obs hist fut dobs' dhist' dfut' obs' hist' fut' A1 A2 A3 A4 A5 A6 A7 A8 A9 A10).
Qed.

(** LinearScaling, both delta types *)
Theorem ls_add_order_equivariant : order_equivariant (fun o h f => unwrap (ls_apply_on_window "additive" o h f)).
Proof.
  apply (of_pointwise _ (fun o h f x => x - (QL.qmean h - QL.qmean o))); [reflexivity|].
  intros o o' h h' f f' x Po Ph _. rewrite (qmean_perm _ _ Po), (qmean_perm _ _ Ph). reflexivity.
Qed.
Theorem ls_mul_order_equivariant : order_equivariant (fun o h f => unwrap (ls_apply_on_window "multiplicative" o h f)).
Proof.
  apply (of_pointwise _ (fun o h f x => x * (QL.qmean o / QL.qmean h))); [reflexivity|].
  intros o o' h h' f f' x Po Ph _. rewrite (qmean_perm _ _ Po), (qmean_perm _ _ Ph). reflexivity.
Qed.

(** parametric QuantileMapping and ECDFM, for any distribution whose fit is order-free *)
Section Parametric.
Context {P : Type} (D : dist P).
Hypothesis fit_perm : forall l l', Permutation l l' -> fit D l = fit D l'.
Variable thr : Q.

Theorem qm_param_order_equivariant :
  order_equivariant (fun o h f => unwrap (qm_apply_on_window "no_detrending" "parametric" D thr o h f)).
Proof.
  apply (of_pointwise _ (fun o h f x => ppf D (fit D o) (GenUtils.threshold_cdf_vals (cdf D (fit D h) x) thr))).
  - intros o h f. unfold qm_apply_on_window, qm_standard_qm. cbn [String.eqb Ascii.eqb Bool.eqb unwrap]. rewrite !map_map. reflexivity.
  - intros o o' h h' f f' x Po Ph _. rewrite (fit_perm _ _ Po), (fit_perm _ _ Ph). reflexivity.
Qed.

Theorem qm_param_detrended_order_equivariant :
  order_equivariant (fun o h f => unwrap (qm_apply_on_window "additive" "parametric" D thr o h f)).
Proof.
  apply (of_pointwise _ (fun o h f x =>
     ppf D (fit D o) (GenUtils.threshold_cdf_vals (cdf D (fit D h) (x - (QL.qmean f - QL.qmean h))) thr) + (QL.qmean f - QL.qmean h))).
  - intros o h f. unfold qm_apply_on_window, qm_standard_qm. cbn [String.eqb Ascii.eqb Bool.eqb unwrap]. rewrite !map_map. reflexivity.
  - intros o o' h h' f f' x Po Ph Pf. rewrite (fit_perm _ _ Po), (fit_perm _ _ Ph), (qmean_perm _ _ Ph), (qmean_perm _ _ Pf). reflexivity.
Qed.

Theorem qm_param_mult_detrended_order_equivariant :
  order_equivariant (fun o h f => unwrap (qm_apply_on_window "multiplicative" "parametric" D thr o h f)).
Proof.
  apply (of_pointwise _ (fun o h f x =>
     ppf D (fit D o) (GenUtils.threshold_cdf_vals (cdf D (fit D h) (x / (QL.qmean f / QL.qmean h))) thr) * (QL.qmean f / QL.qmean h))).
  - intros o h f. unfold qm_apply_on_window, qm_standard_qm. cbn [String.eqb Ascii.eqb Bool.eqb unwrap]. rewrite !map_map. reflexivity.
  - intros o o' h h' f f' x Po Ph Pf. rewrite (fit_perm _ _ Po), (fit_perm _ _ Ph), (qmean_perm _ _ Ph), (qmean_perm _ _ Pf). reflexivity.
Qed.

Lemma zip2_maps (op op' : Q -> Q -> Q) (u v : Q -> Q) (l : list Q) :
  QL.zip2 op (QL.zip2 op' l (map u l)) (map v l) = map (fun x => op (op' x (u x)) (v x)) l.
Proof. induction l as [|x l IH]; [reflexivity|]. cbn [map QL.zip2]. rewrite IH. reflexivity. Qed.

Theorem ecdfm_order_equivariant : order_equivariant (fun o h f => ecdfm_apply_on_window D thr o h f).
Proof.
  apply (of_pointwise _ (fun o h f x =>
     let q := GenUtils.threshold_cdf_vals (cdf D (fit D f) x) thr in x + ppf D (fit D o) q - ppf D (fit D h) q)).
  - intros o h f. unfold ecdfm_apply_on_window. cbv zeta. rewrite !map_map. rewrite zip2_maps. reflexivity.
  - intros o o' h h' f f' x Po Ph Pf. cbv zeta. rewrite (fit_perm _ _ Po), (fit_perm _ _ Ph), (fit_perm _ _ Pf). reflexivity.
Qed.
End Parametric.

End Instances.

(** the hypothesis is satisfiable: the rational location-scale family used in the correspondence
    runs has an order-free fit *)
From IV Require Import RatLS.
Lemma ratls_fit_perm l l' : Permutation l l' -> fit ratls l = fit ratls l'.
Proof.
  intro Pm. cbn [fit ratls]. unfold ratls_fit, mad. cbv zeta. rewrite (qmean_perm _ _ Pm). f_equal.
  apply Qred_complete. rewrite (qsum_perm _ _ (Permutation_map (fun x => Qabs.Qabs (x - QL.qmean l')) Pm)).
  unfold QL.qlen. rewrite (Permutation_length Pm). reflexivity.
Qed.

(** DeltaChange: its loop runs over obs and the output follows obs; it is the RunningWindowDebiaser loop with the
    roles of obs and cm_future exchanged, so the same theorem applies *)
Lemma driver_dc_as_rw {T V} L S dobs dhist dfut (obs hist fut : list T) (W : list T -> list T -> list T -> list V) :
  driver_dc V L S dobs dhist dfut obs hist fut W = driver_rw V L S dfut dhist dobs fut hist obs (fun o h f => W f h o).
Proof. reflexivity. Qed.

Section DC.
Variables (L S : Z).
Hypothesis HS : (0 < S)%Z.
Hypothesis HSL : (S <= L)%Z.
Hypothesis Hodd : (S mod 2 = 1)%Z.

Definition order_equivariant_dc (W : list Q -> list Q -> list Q -> list Q) : Prop :=
  forall dobs dhist dfut (obs hist fut : list Q) dobs' dhist' dfut' (obs' hist' fut' : list Q),
  (forall d, In d dobs -> (1 <= d <= 366)%Z) ->
  List.length obs = List.length dobs -> List.length obs' = List.length dobs' -> List.length hist = List.length dhist -> List.length hist' = List.length dhist' ->
  List.length fut = List.length dfut -> List.length fut' = List.length dfut' ->
  Permutation (combine dobs obs) (combine dobs' obs') -> Permutation (combine dhist hist) (combine dhist' hist') ->
  Permutation (combine dfut fut) (combine dfut' fut') ->
  exists out out', driver_dc Q L S dobs dhist dfut obs hist fut W = Some out /\
                   driver_dc Q L S dobs' dhist' dfut' obs' hist' fut' W = Some out' /\
    forall k k', (0 <= k < Z.of_nat (List.length dobs))%Z -> (0 <= k' < Z.of_nat (List.length dobs'))%Z ->
      nth (Z.to_nat k) dobs 0%Z = nth (Z.to_nat k') dobs' 0%Z ->
      nth_error obs (Z.to_nat k) = nth_error obs' (Z.to_nat k') ->
      nth (Z.to_nat k) out None = nth (Z.to_nat k') out' None.

Lemma of_pointwise_dc (W : list Q -> list Q -> list Q -> list Q) (g : list Q -> list Q -> list Q -> Q -> Q) :
  (forall o h f, W o h f = map (g o h f) o) ->
  (forall o o' h h' f f' x, Permutation o o' -> Permutation h h' -> Permutation f f' -> g o h f x = g o' h' f' x) ->
  order_equivariant_dc W.
Proof.
  intros HW Hg dobs dhist dfut obs hist fut dobs' dhist' dfut' obs' hist' fut' A1 A2 A3 A4 A5 A6 A7 A8 A9 A10.
  rewrite !driver_dc_as_rw.
  set (g' := fun a b c x => g c b a x).
  assert (HW' : forall o h f, (fun o h f => W f h o) o h f = Wg Q Q g' o h f) by (intros o h f; unfold Wg, g'; apply HW).
  rewrite (driver_rw_ext L S dfut dhist dobs fut hist obs _ (Wg Q Q g') HW').
  rewrite (driver_rw_ext L S dfut' dhist' dobs' fut' hist' obs' _ (Wg Q Q g') HW').
  assert (Hg' : forall o o' h h' f f' x, Permutation o o' -> Permutation h h' -> Permutation f f' -> g' o h f x = g' o' h' f' x)
    by (intros; unfold g'; apply Hg; assumption).
  exact (order_equivariance Q Q g' Hg' L S HS HSL Hodd dfut dhist dobs fut hist obs dfut' dhist' dobs' fut' hist' obs' A1 A6 A7 A4 A5 A2 A3 A10 A9 A8).
Qed.

Theorem dc_add_order_equivariant : order_equivariant_dc (fun o h f => unwrap (dc_apply_on_window "additive" o h f)).
Proof.
  apply (of_pointwise_dc _ (fun o h f x => x + (QL.qmean f - QL.qmean h))); [reflexivity|].
  intros o o' h h' f f' x _ Ph Pf. rewrite (qmean_perm _ _ Ph), (qmean_perm _ _ Pf). reflexivity.
Qed.
Theorem dc_mul_order_equivariant : order_equivariant_dc (fun o h f => unwrap (dc_apply_on_window "multiplicative" o h f)).
Proof.
  apply (of_pointwise_dc _ (fun o h f x => x * (QL.qmean f / QL.qmean h))); [reflexivity|].
  intros o o' h h' f f' x _ Ph Pf. rewrite (qmean_perm _ _ Ph), (qmean_perm _ _ Pf). reflexivity.
Qed.
End DC.
