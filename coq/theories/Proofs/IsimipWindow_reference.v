(** C01 for ISIMIP's window pipeline (unbounded additive variable): when the series to correct is the reference
    simulation itself (cm_future = cm_hist, same years, same significance decision), the pseudo future observations are
    the detrended observations and, for a location-scale distribution whose fitted location is the sample mean, the
    debiased window has the mean of the detrended observations plus the mean of the trend added back — the observed
    mean exactly when no trend is removed. *)
From Coq Require Import QArith ZArith List Bool Lia Lqa.
From IV Require Import NP QL QListFacts QFacts Dist Ecdf GenUtils C16_compose C03_proofs C02_proofs C01_proofs C09_proofs
     IsimipStep3 IsimipStep3_proofs IsimipStep5 IsimipWindow RatLS RatLS_proofs.
Import ListNotations.
Open Scope Q_scope.

(** with cm_future = cm_hist the additive trend transfer returns obs_hist itself *)
Lemma step5_additive_self em im a b oh ch : eql (step5 TAdditive em im a b oh ch ch) oh.
Proof. unfold step5. apply eql_map_id. intros x _. cbv zeta. unfold step5_value. ring. Qed.

Lemma zip2_length (f : Q -> Q -> Q) : forall a b, length a = length b -> length (QL.zip2 f a b) = length a.
Proof.
  induction a as [|x a IH]; intros b L; destruct b as [|y b]; try discriminate; [reflexivity|].
  cbn [QL.zip2 length]. rewrite IH by (injection L as L; exact L). reflexivity.
Qed.

Lemma step3_remove_length sig years x : length x = length years -> length (step3_remove sig years x) = length years.
Proof.
  intro L. unfold step3_remove. rewrite zip2_length; [exact L|]. unfold step3_trend. rewrite map_length. exact L.
Qed.

Lemma qmean_zip_add : forall m t, length m = length t -> m <> [] ->
  QL.qmean (QL.zip2 (fun u v => Qred (u + v)) m t) == QL.qmean m + QL.qmean t.
Proof.
  intros m t L Hne.
  assert (S : forall m t, length m = length t -> QL.qsum (QL.zip2 (fun u v => Qred (u + v)) m t) == QL.qsum m + QL.qsum t).
  { clear. induction m as [|x m IH]; intros t L; destruct t as [|y t]; try discriminate; [cbn [QL.zip2]; rewrite !qsum_nil; ring|].
    cbn [QL.zip2]. rewrite !qsum_cons, Qred_correct, IH by (injection L as L; exact L). ring. }
  assert (Lz : length (QL.zip2 (fun u v => Qred (u + v)) m t) = length m).
  { clear Hne. revert t L. induction m as [|x m IH]; intros t L; destruct t as [|y t]; try discriminate; [reflexivity|].
    cbn [QL.zip2 length]. rewrite IH by (injection L as L; exact L). reflexivity. }
  rewrite !qmean_spec, (S m t L). unfold QL.qlen. rewrite Lz, <- L. pose proof (qlen_pos m Hne) as Hp. unfold QL.qlen in Hp. field. lra.
Qed.

Section Reference.
Context {P : Type} (D : dist P).
Variables (loc sc : P -> Q) (F0 Q0 : Q -> Q).
Hypothesis cdf_form : forall p x, cdf D p x == F0 ((x - loc p) / sc p).
Hypothesis ppf_form : forall p q, ppf D p q == loc p + sc p * Q0 q.
Hypothesis Q0_F0 : forall z, Q0 (F0 z) == z.
Hypothesis Q0_proper : forall u v, u == v -> Q0 u == Q0 v.
Hypothesis sc_nz : forall p, ~ sc p == 0.
Hypothesis loc_mean : forall l, loc (fit D l) == QL.qmean l.
Variables (em : ecdf_method) (im : iecdf_method) (thr : Q).

Theorem isimip_window_reference_mean so sh yo yh obs hist :
  length hist = length yh -> step3_remove sh yh hist <> [] ->
  Forall (fun x => thr <= cdf D (fit D (step3_remove sh yh hist)) x /\ cdf D (fit D (step3_remove sh yh hist)) x <= 1 - thr) (step3_remove sh yh hist) ->
  QL.qmean (isimip_window D em im thr so sh sh yo yh yh obs hist hist)
  == QL.qmean (step3_remove so yo obs) + QL.qmean (step3_trend sh yh hist).
Proof.
  intros L Hne Hin. unfold isimip_window. cbv zeta. unfold step7_restore.
  set (o' := step3_remove so yo obs). set (h' := step3_remove sh yh hist) in *. set (tr := step3_trend sh yh hist).
  set (ofu := step5 TAdditive em im 0 0 o' h' h').
  assert (Eo : eql ofu o') by apply step5_additive_self.
  assert (Lh : length h' = length yh) by (apply step3_remove_length; exact L).
  assert (E6 : eql (step6_unbounded D thr ofu h')
                   (map (fun x => sc (fit D ofu) / sc (fit D h') * x + (loc (fit D ofu) - sc (fit D ofu) / sc (fit D h') * loc (fit D h'))) h')).
  { unfold step6_unbounded. apply eql_map_pointwise. intros x Hx. rewrite Forall_forall in Hin. destruct (Hin x Hx) as [A B].
    change (GenUtils.threshold_cdf_vals (cdf D (fit D h') x) thr) with (clampq thr (cdf D (fit D h') x)).
    rewrite (qm_value D loc sc F0 Q0 cdf_form ppf_form Q0_F0 Q0_proper sc_nz thr (fit D ofu) (fit D h') x A B). ring. }
  rewrite qmean_zip_add.
  - rewrite (qmean_eql _ _ E6), (qmean_affine _ _ h' Hne), !loc_mean, (qmean_eql _ _ Eo). ring.
  - unfold step6_unbounded, tr, step3_trend. rewrite !map_length. exact Lh.
  - unfold step6_unbounded. intro E. apply map_eq_nil in E. exact (Hne E).
Qed.

(** no significant trend in either series: the debiased reference period has exactly the observed mean *)
Corollary isimip_window_reference_mean_no_trend yo yh obs hist :
  length obs = length yo -> length hist = length yh -> hist <> [] ->
  Forall (fun x => thr <= cdf D (fit D (step3_remove false yh hist)) x /\ cdf D (fit D (step3_remove false yh hist)) x <= 1 - thr) (step3_remove false yh hist) ->
  QL.qmean (isimip_window D em im thr false false false yo yh yh obs hist hist) == QL.qmean obs.
Proof.
  intros Lo L Hne Hin.
  assert (Z0 : forall years x, eql (step3_trend false years x) (map (fun _ => 0) years)).
  { intros years x. unfold step3_trend. apply Forall2_map_both. intros y _.
    unfold annual_trend. cbv zeta. induction (NP.unique years) as [|u uy IH]; [reflexivity|].
    cbn [map lookup_year]. destruct (Z.eqb u y); [reflexivity | exact IH]. }
  assert (R0 : forall years x, length x = length years -> eql (step3_remove false years x) x).
  { intros years x Lx. unfold step3_remove.
    assert (G : forall x t, length x = length t -> eql t (map (fun _ => 0) t) -> eql (QL.zip2 (fun u v => Qred (u - v)) x t) x).
    { clear. induction x as [|v x IH]; intros t Lt E; destruct t as [|w t]; try discriminate; [constructor|].
      inversion E; subst. cbn [QL.zip2]. constructor; [rewrite Qred_correct; lra | apply IH; [injection Lt as Lt; exact Lt | assumption]]. }
    apply G; [unfold step3_trend; rewrite map_length; exact Lx|].
    pose proof (Z0 years x) as Hz. unfold step3_trend in *. rewrite map_map. 
    eapply eql_trans; [exact Hz|]. apply Forall2_map_both. intros; reflexivity. }
  assert (Hne' : step3_remove false yh hist <> []).
  { intro E. pose proof (eql_length _ _ (R0 yh hist L)) as Le. rewrite E in Le. destruct hist; [congruence | discriminate]. }
  rewrite (isimip_window_reference_mean false false yo yh obs hist L Hne' Hin).
  rewrite (qmean_eql _ _ (R0 yo obs Lo)), (qmean_eql _ _ (Z0 yh hist)).
  assert (M0 : QL.qmean (map (fun _ : Z => 0) yh) == 0).
  { rewrite qmean_spec. assert (S0 : QL.qsum (map (fun _ : Z => 0) yh) == 0) by (clear; induction yh; [reflexivity | cbn [map]; rewrite qsum_cons, IHyh; ring]).
    rewrite S0. unfold Qdiv. ring. }
  rewrite M0. ring.
Qed.
End Reference.

(** C09 at step 6 (parametric value adjustment of an unbounded variable): a value-wise non-decreasing map of cm_future *)
Theorem step6_unbounded_monotone {P} (D : dist P) thr ofu f : C09_proofs.dist_monotone D -> thr <= 1 - thr ->
  exists G, step6_unbounded D thr ofu f = map G f /\ C09_proofs.monotone G.
Proof.
  intros [Mc Mp] Ht. eexists. split; [reflexivity|].
  intros u v H. apply Mp. apply (C09_proofs.clamp_mono thr Ht). apply Mc. exact H.
Qed.
