(** C03 through apply_location with a running window over the year: if the per-window method returns the
    future slice of every window unchanged (up to ==), apply_location returns cm_future unchanged. *)
From Coq Require Import QArith ZArith List Bool String Lia Permutation.
From IV Require Import QL NP Dist Ecdf QListFacts GenWindows GenUtils GenScalars Grid Driver Driver_proofs Driver_corollaries C06_proofs Driver_rel C06_instances C03_proofs LinInverse C03_cdft ApplyLocation_units.
Import ListNotations.

Lemma F2_nth {A B} (R : A -> B -> Prop) l l' dA dB : Forall2 R l l' -> forall k, (k < List.length l)%nat -> R (nth k l dA) (nth k l' dB).
Proof. induction 1 as [|x x' l l' Hx Hl IH]; intros k Hk; [cbn in Hk; lia|]. destruct k; [exact Hx|]. cbn. apply IH. cbn in Hk. lia. Qed.

Section FP.
Variables (L S : Z).
Hypothesis HS : (0 < S)%Z.
Hypothesis HSL : (S <= L)%Z.
Hypothesis Hodd : (S mod 2 = 1)%Z.
Variables (dobs dhist dfut : list Z) (obs hist fut : list Q).
Hypothesis Hdf : forall d, In d dfut -> (1 <= d <= 366)%Z.
Hypothesis Hlf : List.length fut = List.length dfut.
Variable W : list Q -> list Q -> list Q -> list Q.

Definition slice_o c := NP.take obs (days_indices_in_window L dobs c).
Definition slice_h c := NP.take hist (days_indices_in_window L dhist c).
Definition slice_f c := NP.take fut (days_indices_in_window L dfut c).

Theorem fixed_point_through_windows :
  (forall ci, In ci (days_use S dfut) -> eql (W (slice_o (fst ci)) (slice_h (fst ci)) (slice_f (fst ci))) (slice_f (fst ci))) ->
  exists out, driver_rw Q L S dobs dhist dfut obs hist fut W = Some out /\ List.length out = List.length fut /\
    forall k, (k < List.length fut)%nat -> exists v, nth k out None = Some v /\ v == nth k fut 0.
Proof.
  intro HW.
  set (g := fun (_ _ _ : list Q) (x : Q) => x).
  assert (gp : forall o o' h h' f f' x, Permutation o o' -> Permutation h h' -> Permutation f f' -> g o h f x = g o' h' f' x) by reflexivity.
  destruct (pointwise_output Q Q g gp L S HS HSL Hodd dobs dhist dfut obs hist fut Hdf Hlf) as (oid & Eid & Lid & Hid).
  pose proof (driver_rel (V := Q) (V' := Q) Qeq L S dfut
     (fun c => W (slice_o c) (slice_h c) (slice_f c)) (fun c => Wg Q Q g (slice_o c) (slice_h c) (slice_f c))) as R.
  assert (HR : forall ci, In ci (days_use S dfut) -> Forall2 Qeq (W (slice_o (fst ci)) (slice_h (fst ci)) (slice_f (fst ci))) (Wg Q Q g (slice_o (fst ci)) (slice_h (fst ci)) (slice_f (fst ci)))).
  { intros ci Hci. unfold Wg, g. rewrite map_id. apply HW. exact Hci. }
  specialize (R HR). unfold driver_rw in *. fold slice_o slice_h slice_f in Eid. unfold slice_o, slice_h, slice_f in *. rewrite Eid in R.
  match type of R with orel _ ?d _ => destruct d as [out|] end; unfold orel at 1 in R; [|contradiction].
  exists out. split; [reflexivity|]. pose proof (F2_length _ _ _ R) as LL. split; [lia|].
  intros k Hk. destruct (Hid (Z.of_nat k) ltac:(lia)) as (x & Ex & Ox). rewrite Nat2Z.id in Ex, Ox.
  pose proof (F2_nth _ _ _ None None R k ltac:(lia)) as Rk. rewrite Ox in Rk.
  destruct (nth k out None) as [v|]; unfold orel in Rk; [|contradiction]. exists v. split; [reflexivity|].
  unfold g in Rk. rewrite Rk. rewrite (nth_error_nth _ _ 0 Ex). reflexivity.
Qed.
End FP.

(** instances: cm_hist equals obs value for value, on the same time axis *)
Section Instances.
Variables (L S : Z).
Hypothesis HS : (0 < S)%Z.
Hypothesis HSL : (S <= L)%Z.
Hypothesis Hodd : (S mod 2 = 1)%Z.
Variables (dobs dfut : list Z) (obs hist fut : list Q).
Hypothesis Hdf : forall d, In d dfut -> (1 <= d <= 366)%Z.
Hypothesis Hlf : List.length fut = List.length dfut.
Hypothesis Hoh : eql obs hist.

Lemma slices_eql c : eql (slice_o L dobs obs c) (slice_h L dobs hist c).
Proof. unfold slice_o, slice_h. apply take_rel. exact Hoh. Qed.

Theorem ls_fixed_point_apply_location :
  exists out, driver_rw Q L S dobs dobs dfut obs hist fut (W_ls "additive") = Some out /\ List.length out = List.length fut /\
    forall k, (k < List.length fut)%nat -> exists v, nth k out None = Some v /\ v == nth k fut 0.
Proof.
  apply (fixed_point_through_windows L S HS HSL Hodd dobs dobs dfut obs hist fut Hdf Hlf). intros ci _.
  unfold W_ls, ls_apply_on_window. cbn [String.eqb Ascii.eqb Bool.eqb unwrap]. cbv zeta.
  apply eql_map_id. intros x _. rewrite (qmean_eql _ _ (slices_eql (fst ci))). ring.
Qed.

Theorem cdft_fixed_point_apply_location :
  (forall ci, In ci (days_use S dfut) ->
     strictQ (qsort (slice_o L dobs obs (fst ci))) /\ (2 <= List.length (slice_o L dobs obs (fst ci)))%nat /\
     strictQ (qsort (slice_f L dfut fut (fst ci))) /\ (2 <= List.length (slice_f L dfut fut (fst ci)))%nat) ->
  exists out, driver_rw Q L S dobs dobs dfut obs hist fut (W_cdft linear_interpolation linear) = Some out /\ List.length out = List.length fut /\
    forall k, (k < List.length fut)%nat -> exists v, nth k out None = Some v /\ v == nth k fut 0.
Proof.
  intro Hw. apply (fixed_point_through_windows L S HS HSL Hodd dobs dobs dfut obs hist fut Hdf Hlf). intros ci Hci.
  destruct (Hw ci Hci) as (S1 & N1 & S2 & N2).
  destruct (cdft_fixed_point _ _ _ (slices_eql (fst ci)) S1 N1 S2 N2) as (out & E & R).
  unfold W_cdft. rewrite E. exact R.
Qed.
End Instances.

(** DeltaChange: with cm_future equal to cm_hist value for value (same time axis) apply_location returns obs *)
Section DCfix.
Variables (L S : Z).
Hypothesis HS : (0 < S)%Z.
Hypothesis HSL : (S <= L)%Z.
Hypothesis Hodd : (S mod 2 = 1)%Z.
Variables (dobs dm : list Z) (obs hist fut : list Q).
Hypothesis Hdo : forall d, In d dobs -> (1 <= d <= 366)%Z.
Hypothesis Hlo : List.length obs = List.length dobs.
Hypothesis Hhf : eql hist fut.

Theorem dc_fixed_point_apply_location :
  exists out, driver_dc Q L S dobs dm dm obs hist fut (W_dc "additive") = Some out /\ List.length out = List.length obs /\
    forall k, (k < List.length obs)%nat -> exists v, nth k out None = Some v /\ v == nth k obs 0.
Proof.
  rewrite driver_dc_as_rw.
  apply (fixed_point_through_windows L S HS HSL Hodd dm dm dobs fut hist obs Hdo Hlo). intros ci _.
  unfold W_dc, dc_apply_on_window. cbn [String.eqb Ascii.eqb Bool.eqb unwrap]. cbv zeta.
  apply eql_map_id. intros x _.
  assert (E : eql (slice_h L dm hist (fst ci)) (slice_o L dm fut (fst ci))) by (unfold slice_h, slice_o; apply take_rel; exact Hhf).
  unfold slice_o, slice_h in *. rewrite (qmean_eql _ _ E). ring.
Qed.
End DCfix.
