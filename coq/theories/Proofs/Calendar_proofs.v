(** Calendar facts used to discharge the calendar hypotheses of the window theorems (C07, C08):
    every day of the year produced by the time helpers lies in 1..366, for every start date and length. *)
From Coq Require Import ZArith List Bool Lia.
From IV Require Import Calendar.
Import ListNotations.
Open Scope Z_scope.

Lemma year_len_cases y : year_len y = 365 \/ year_len y = 366.
Proof. unfold year_len. destruct (is_leap y); [right | left]; reflexivity. Qed.

Lemma month_cases m : 1 <= m <= 12 ->
  m = 1 \/ m = 2 \/ m = 3 \/ m = 4 \/ m = 5 \/ m = 6 \/ m = 7 \/ m = 8 \/ m = 9 \/ m = 10 \/ m = 11 \/ m = 12.
Proof. lia. Qed.

Theorem doy_range y m d : valid_date y m d -> 1 <= doy y m d <= year_len y.
Proof.
  intros [Hm Hd]. unfold doy, year_len. unfold month_len in Hd.
  destruct (month_cases m Hm) as [-> | [-> | [-> | [-> | [-> | [-> | [-> | [-> | [-> | [-> | [-> | ->]]]]]]]]]]];
    revert Hd; destruct (is_leap y); unfold cum_days; cbn [Z.eqb Pos.eqb Z.ltb Z.compare Pos.compare Pos.compare_cont andb orb negb]; lia.
Qed.

Theorem month_of_doy y m d : valid_date y m d -> month_of y (doy y m d) = m.
Proof.
  intros [Hm Hd]. unfold doy, month_of. unfold month_len in Hd.
  destruct (month_cases m Hm) as [-> | [-> | [-> | [-> | [-> | [-> | [-> | [-> | [-> | [-> | [-> | ->]]]]]]]]]]];
    revert Hd; destruct (is_leap y); unfold cum_days; cbn [Z.eqb Pos.eqb Z.ltb Z.compare Pos.compare Pos.compare_cont andb orb negb]; intro Hd;
    repeat match goal with |- context [if ?a <=? ?b then _ else _] => destruct (Z.leb_spec a b); try lia end; reflexivity.
Qed.

Definition well_formed (p : Z * Z) : Prop := 1 <= snd p <= year_len (fst p).

Lemma next_day_wf p : well_formed p -> well_formed (next_day p).
Proof.
  destruct p as [y d]. unfold well_formed, next_day. cbn [fst snd]. intro H.
  destruct (Z.ltb_spec d (year_len y)); cbn [fst snd]; [lia|].
  destruct (year_len_cases (y + 1)); lia.
Qed.

Theorem dates_from_wf n : forall p, well_formed p -> forall q, In q (dates_from n p) -> well_formed q.
Proof.
  induction n as [|n IH]; intros p Hp q Hq; [destruct Hq|].
  cbn [dates_from] in Hq. destruct Hq as [<- | Hq]; [exact Hp|].
  eapply IH; [apply next_day_wf; exact Hp | exact Hq].
Qed.

(** what the window theorems assume of the days of the year: 1 <= d <= 366 — for EVERY start date and length *)
Theorem consecutive_dates_days_in_range n y m d : valid_date y m d ->
  forall x, In x (days_of_year_of (consecutive_dates n y m d)) -> 1 <= x <= 366.
Proof.
  intros Hv x Hx. unfold days_of_year_of in Hx. apply in_map_iff in Hx. destruct Hx as [q [<- Hq]].
  assert (W : well_formed q).
  { eapply dates_from_wf; [|exact Hq]. unfold well_formed; cbn [fst snd]. apply doy_range; exact Hv. }
  unfold well_formed in W. destruct (year_len_cases (fst q)); lia.
Qed.

Theorem inferred_dates_days_in_range n x : In x (days_of_year_of (inferred_dates n)) -> 1 <= x <= 366.
Proof. apply consecutive_dates_days_in_range. unfold valid_date, month_len. cbn [Z.eqb Pos.eqb orb]. lia. Qed.

Lemma dates_from_length n : forall p, length (dates_from n p) = n.
Proof. induction n as [|n IH]; intro p; cbn [dates_from length]; [reflexivity | rewrite IH; reflexivity]. Qed.

(** consecutive days: the year never decreases, and the day of the year increases by one or restarts at 1 *)
Theorem dates_from_step n : forall p k a b, nth_error (dates_from n p) k = Some a ->
  nth_error (dates_from n p) (S k) = Some b -> b = next_day a.
Proof.
  induction n as [|n IH]; intros p k a b Ha Hb; [destruct k; discriminate|].
  destruct k as [|k]; cbn [dates_from nth_error] in Ha, Hb.
  - inversion Ha; subst. destruct n; [discriminate|]. cbn [dates_from nth_error] in Hb. congruence.
  - eapply IH; eassumption.
Qed.
