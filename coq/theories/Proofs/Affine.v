(** Equivariance of the sorting / ECDF / quantile toolkit (Model/Ecdf.v) under a change of units
    x -> a*x + b (a > 0), stated RELATIONALLY so that one proof covers both "the sample was transformed
    exactly" and "the sample is equal up to ==":   AR a b x x'  :=  x' == a*x + b. *)
From Coq Require Import QArith Qabs Qround ZArith List Bool Lia Lqa Sorting.Mergesort.
From IV Require Import QL Ecdf QFacts QListFacts C16_step C16_lerp C16_interp C16_compose.
Import ListNotations.
Open Scope Q_scope.

Section Rel.
Variables a b : Q.
Hypothesis Ha : 0 < a.

Definition AR (x x' : Q) : Prop := x' == a * x + b.
Definition ARL (l l' : list Q) : Prop := Forall2 AR l l'.

Lemma AR_le x x' y y' : AR x x' -> AR y y' -> Qle_bool x' y' = Qle_bool x y.
Proof.
  unfold AR. intros Hx Hy.
  destruct (Qle_bool x y) eqn:E; destruct (Qle_bool x' y') eqn:E'; qb; try reflexivity; exfalso; nra.
Qed.
Lemma AR_lt x x' y y' : AR x x' -> AR y y' -> Qlt_bool x' y' = Qlt_bool x y.
Proof. intros Hx Hy. unfold Qlt_bool. rewrite (AR_le y y' x x' Hy Hx). reflexivity. Qed.
Lemma AR_eqb x x' y y' : AR x x' -> AR y y' -> Qeq_bool x' y' = Qeq_bool x y.
Proof.
  unfold AR. intros Hx Hy.
  destruct (Qeq_bool x y) eqn:E; destruct (Qeq_bool x' y') eqn:E'; try reflexivity.
  - apply Qeq_bool_iff in E. apply Qeq_bool_neq in E'. exfalso. apply E'. rewrite Hx, Hy, E. reflexivity.
  - apply Qeq_bool_iff in E'. apply Qeq_bool_neq in E. exfalso. apply E. nra.
Qed.

Lemma ARL_length l l' : ARL l l' -> length l = length l'.
Proof. induction 1; cbn; congruence. Qed.
Lemma ARL_zlen l l' : ARL l l' -> zlen l = zlen l'.
Proof. intro H. unfold zlen. rewrite (ARL_length _ _ H). reflexivity. Qed.

(* ---------- merge sort is parametric in the comparison ---------- *)
Lemma merge_rel l1 : forall l1' l2 l2', ARL l1 l1' -> ARL l2 l2' -> ARL (QSort.merge l1 l2) (QSort.merge l1' l2').
Proof.
  induction l1 as [|x l1 IH1]; intros l1' l2 l2' H1 H2; inversion H1 as [|? x' ? r1' Hx Hr1]; subst.
  - destruct l2; inversion H2; subst; cbn; assumption.
  - induction H2 as [|y y' l2 l2' Hy Hr2 IH2].
    + cbn. constructor; assumption.
    + cbn [QSort.merge]. change (QOrder.leb x y) with (Qle_bool x y). change (QOrder.leb x' y') with (Qle_bool x' y').
      rewrite (AR_le x x' y y' Hx Hy). destruct (Qle_bool x y).
      * constructor; [exact Hx|]. apply IH1; [exact Hr1|constructor; assumption].
      * constructor; [exact Hy|]. exact IH2.
Qed.

Definition ARS (s s' : list (option (list Q))) : Prop :=
  Forall2 (fun o o' => match o, o' with None, None => True | Some l, Some l' => ARL l l' | _, _ => False end) s s'.

Lemma merge_list_to_stack_rel s : forall s' l l', ARS s s' -> ARL l l' ->
  ARS (QSort.merge_list_to_stack s l) (QSort.merge_list_to_stack s' l').
Proof.
  induction s as [|o s IH]; intros s' l l' Hs Hl; inversion Hs as [|? o' ? r' Ho Hr]; subst.
  - cbn. constructor; [exact Hl|constructor].
  - destruct o, o'; try contradiction; cbn.
    + constructor; [exact I|]. apply IH; [exact Hr|]. apply merge_rel; assumption.
    + constructor; [exact Hl|exact Hr].
Qed.

Lemma merge_stack_rel s : forall s', ARS s s' -> ARL (QSort.merge_stack s) (QSort.merge_stack s').
Proof.
  induction s as [|o s IH]; intros s' Hs; inversion Hs as [|? o' ? r' Ho Hr]; subst; [constructor|].
  destruct o, o'; try contradiction; cbn.
  - apply merge_rel; [exact Ho|apply IH; exact Hr].
  - apply IH; exact Hr.
Qed.

Lemma iter_merge_rel l : forall l' s s', ARL l l' -> ARS s s' -> ARL (QSort.iter_merge s l) (QSort.iter_merge s' l').
Proof.
  induction l as [|x l IH]; intros l' s s' Hl Hs; inversion Hl; subst; cbn.
  - apply merge_stack_rel; exact Hs.
  - apply IH; [assumption|]. apply merge_list_to_stack_rel; [exact Hs|]. constructor; [assumption|constructor].
Qed.

Theorem qsort_rel l l' : ARL l l' -> ARL (qsort l) (qsort l').
Proof. intro H. unfold qsort, QSort.sort. apply iter_merge_rel; [exact H|constructor]. Qed.


(* ---------- element access ---------- *)
Lemma ARL_nth l l' : ARL l l' -> forall k, (k < length l)%nat -> AR (nth k l 0) (nth k l' 0).
Proof.
  induction 1 as [|x x' l l' Hx Hl IH]; intros k Hk; [cbn in Hk; lia|].
  destruct k; [exact Hx|]. cbn. apply IH. cbn in Hk. lia.
Qed.
Lemma ARL_nthq l l' k : ARL l l' -> (0 <= k < zlen l)%Z -> AR (nthq l k) (nthq l' k).
Proof. intros H Hk. unfold nthq. apply ARL_nth; [exact H|]. unfold zlen in Hk. lia. Qed.

Lemma ARL_filter_le l l' y y' : ARL l l' -> AR y y' ->
  length (filter (fun v => Qle_bool v y') l') = length (filter (fun v => Qle_bool v y) l).
Proof.
  intros H Hy. induction H as [|x x' l l' Hx Hl IH]; [reflexivity|]. cbn [filter].
  rewrite (AR_le x x' y y' Hx Hy). destruct (Qle_bool x y); cbn [length]; congruence.
Qed.

(** the step ECDF does not move at all *)
Theorem ecdf_step_rel x x' y y' : ARL x x' -> AR y y' -> ecdf_step x' y' = ecdf_step x y.
Proof.
  intros H Hy. unfold ecdf_step, zlen. rewrite (ARL_filter_le x x' y y' H Hy), (ARL_length _ _ H). reflexivity.
Qed.

(* ---------- quantiles ---------- *)
Lemma AR_affine_comb u u' v v' g : AR u u' -> AR v v' -> AR (u + (v - u) * g) (u' + (v' - u') * g).
Proof. unfold AR. intros Hu Hv. rewrite Hu, Hv. ring. Qed.

Lemma lerp_at_rel s s' v : ARL s s' -> s <> [] -> AR (lerp_at s v) (lerp_at s' v).
Proof.
  intros H Hne. pose proof (ARL_zlen _ _ H) as Hz. pose proof (zlen_pos s Hne) as Hp.
  unfold lerp_at. cbv zeta. rewrite <- Hz.
  destruct (Qle_bool (inject_Z (zlen s - 1)) v) eqn:E1.
  - apply ARL_nthq; [exact H|lia].
  - destruct (Qlt_bool v 0) eqn:E2.
    + apply ARL_nthq; [exact H|lia].
    + qb. pose proof (Qfloor_nonneg v E2) as F0. pose proof (Qfloor_lt_Z v (zlen s - 1) E1) as F1.
      unfold AR. rewrite !Qred_correct.
      apply AR_affine_comb; apply ARL_nthq; try exact H; lia.
Qed.

Lemma iecdf_sorted_rel m s s' p : ARL s s' -> s <> [] -> 0 <= p <= 1 -> AR (iecdf_sorted m s p) (iecdf_sorted m s' p).
Proof.
  intros H Hne Hp. pose proof (ARL_zlen _ _ H) as Hz. pose proof (zlen_pos s Hne) as Hn.
  destruct m; cbn [iecdf_sorted]; try (cbv zeta; rewrite <- Hz; apply lerp_at_rel; assumption).
  - (* inverted_cdf *) unfold iecdf_inv. rewrite <- Hz. apply ARL_nthq; [exact H|].
    destruct (iecdf_inv_index s p Hne Hp) as [I0 I1]. lia.
  - (* averaged *) unfold quantile_avg. cbv zeta. rewrite <- Hz.
    destruct (Qle_bool (inject_Z (zlen s - 1)) (inject_Z (zlen s) * p - 1)) eqn:E1; [apply ARL_nthq; [exact H|lia]|].
    destruct (Qlt_bool (inject_Z (zlen s) * p - 1) 0) eqn:E2; [apply ARL_nthq; [exact H|lia]|].
    qb. pose proof (Qfloor_nonneg _ E2) as F0. pose proof (Qfloor_lt_Z _ _ E1) as F1.
    destruct (Qeq_bool _ 0).
    + unfold AR. rewrite !Qred_correct.
      pose proof (ARL_nthq s s' (Qfloor (inject_Z (zlen s) * p - 1)) H ltac:(lia)) as A1.
      pose proof (ARL_nthq s s' (Qfloor (inject_Z (zlen s) * p - 1) + 1) H ltac:(lia)) as A2.
      unfold AR in A1, A2. rewrite A1, A2. field.
    + apply ARL_nthq; [exact H|lia].
  - (* closest observation *) unfold quantile_closest. cbv zeta. rewrite <- Hz.
    set (idx := inject_Z (zlen s) * p - 1 - (1 # 2)).
    assert (B1 : idx < inject_Z (zlen s - 1)).
    { unfold idx. unfold Z.sub. rewrite inject_Z_plus, inject_Z_opp. change (inject_Z 1) with 1. destruct Hp as [_ Hp1].
      assert (P0 : 0 < inject_Z (zlen s)) by (apply inject_Z_pos; lia).
      assert (P1 : inject_Z (zlen s) * p <= inject_Z (zlen s)) by (rewrite <- (Qmult_1_r (inject_Z (zlen s))) at 2; apply Qmult_le_l; assumption).
      lra. }
    pose proof (Qfloor_lt_Z idx (zlen s - 1) B1) as F1.
    set (r := if Qeq_bool (idx - inject_Z (Qfloor idx)) 0 && (Qfloor idx mod 2 =? 1)%Z then Qfloor idx else (Qfloor idx + 1)%Z).
    assert (R1 : (r <= zlen s - 1)%Z) by (unfold r; destruct (_ && _); lia).
    apply ARL_nthq; [exact H|]. destruct (r <? 0)%Z eqn:E; lia.
Qed.

Theorem iecdf_rel m x x' p : ARL x x' -> x <> [] -> 0 <= p <= 1 -> AR (iecdf m x p) (iecdf m x' p).
Proof.
  intros H Hne Hp. unfold iecdf. apply iecdf_sorted_rel; [apply qsort_rel; exact H| |exact Hp].
  intro E. apply Hne. pose proof (qsort_length x) as L. rewrite E in L. destruct x; [reflexivity|discriminate].
Qed.

(* ---------- np.interp over a transformed grid ---------- *)
Lemma chord_rel f0 f1 x0 x0' x1 x1' y y' : AR x0 x0' -> AR x1 x1' -> AR y y' ->
  f0 + (f1 - f0) * ((y' - x0') / (x1' - x0')) == f0 + (f1 - f0) * ((y - x0) / (x1 - x0)).
Proof.
  unfold AR. intros H0 H1 Hy.
  destruct (Qeq_dec (x1 - x0) 0) as [Z|NZ].
  - assert (Z' : x1' - x0' == 0) by (rewrite H0, H1; nra).
    unfold Qdiv. rewrite Z, Z'. change (/ 0) with 0. ring.
  - rewrite H0, H1, Hy. field. split; [exact NZ|].
    intro E. apply NZ. assert (E2 : a * (x1 - x0) == 0) by (rewrite <- E; ring).
    apply Qmult_integral in E2. destruct E2 as [E2|E2]; [lra|exact E2].
Qed.

Lemma interp_aux_rel y y' fp : forall xp xp', ARL xp xp' -> AR y y' -> interp_aux y' xp' fp == interp_aux y xp fp.
Proof.
  intros xp xp' H Hy. revert fp. induction H as [|x0 x0' xr xr' H0 Hr IH]; intro fp; [destruct fp; reflexivity|].
  destruct Hr as [|x1 x1' xr2 xr2' H1 Hr2].
  - destruct fp as [|f0 [|f1 fr]]; reflexivity.
  - destruct fp as [|f0 [|f1 fr]]; try reflexivity.
    rewrite !interp_aux_cons2. rewrite (AR_le x1 x1' y y' H1 Hy).
    destruct (Qle_bool x1 y).
    + apply IH.
    + rewrite !Qred_correct. apply chord_rel; assumption.
Qed.

Lemma interp_rel y y' xp xp' fp : ARL xp xp' -> AR y y' -> interp y' xp' fp == interp y xp fp.
Proof.
  intros H Hy. unfold interp. destruct H as [|x0 x0' xr xr' H0 Hr]; [reflexivity|].
  destruct fp as [|f0 fr]; [reflexivity|].
  rewrite (AR_lt y y' x0 x0' Hy H0). destruct (Qlt_bool y x0); [reflexivity|].
  apply interp_aux_rel; [constructor; assumption|exact Hy].
Qed.

(** the interpolated ECDF does not move either (up to ==; made Leibniz below) *)
Theorem ecdf_lin_rel x x' y y' : ARL x x' -> AR y y' -> ecdf_lin x' y' == ecdf_lin x y.
Proof.
  intros H Hy. unfold ecdf_lin, ecdf_lin_sorted.
  rewrite <- (ARL_length _ _ (qsort_rel _ _ H)). apply interp_rel; [apply qsort_rel; exact H|exact Hy].
Qed.
End Rel.

(* ---------- canonical values: == becomes = ---------- *)
Definition canon (q : Q) : Prop := Qred q = q.
Lemma canon_Qred q : canon (Qred q).
Proof. unfold canon. apply Qred_complete. apply Qred_correct. Qed.
Lemma canon_eq p q : canon p -> canon q -> p == q -> p = q.
Proof. unfold canon. intros Hp Hq E. rewrite <- Hp, <- Hq. apply Qred_complete. exact E. Qed.

Lemma interp_aux_canon y : forall xp fp, Forall canon fp -> canon (interp_aux y xp fp).
Proof.
  intros xp. induction xp as [|x0 xr IH]; intros fp Hf.
  - destruct fp as [|f0 fr]; [reflexivity|]. inversion Hf; subst. destruct fr; cbn; assumption.
  - destruct xr as [|x1 xr2].
    + destruct fp as [|f0 fr]; [reflexivity|]. inversion Hf; subst. destruct fr; cbn; assumption.
    + destruct fp as [|f0 [|f1 fr]]; [reflexivity|inversion Hf; subst; cbn; assumption|].
      rewrite interp_aux_cons2. destruct (Qle_bool x1 y).
      * apply IH. inversion Hf; assumption.
      * apply canon_Qred.
Qed.
Lemma interp_canon y xp fp : Forall canon fp -> canon (interp y xp fp).
Proof.
  intro Hf. unfold interp. destruct xp as [|x0 xr]; [reflexivity|]. destruct fp as [|f0 fr]; [reflexivity|].
  destruct (Qlt_bool y x0); [inversion Hf; assumption|apply interp_aux_canon; exact Hf].
Qed.
Lemma linspace01_canon n : Forall canon (linspace01 n).
Proof.
  unfold linspace01. destruct n as [|[|n]]; [constructor|constructor; [reflexivity|constructor]|].
  apply Forall_forall. intros q Hq. apply in_map_iff in Hq. destruct Hq as (k & <- & _). apply canon_Qred.
Qed.
Lemma ecdf_lin_canon x y : canon (ecdf_lin x y).
Proof. unfold ecdf_lin, ecdf_lin_sorted. apply interp_canon. apply linspace01_canon. Qed.

Section Rel2.
Variables a b : Q.
Hypothesis Ha : 0 < a.
Local Notation AR := (AR a b).
Local Notation ARL := (ARL a b).

(** both modelled ECDFs are invariant, as Leibniz equalities *)
Theorem ecdf_rel m x x' y y' : m = step_function \/ m = linear_interpolation -> ARL x x' -> AR y y' -> ecdf m x' y' = ecdf m x y.
Proof.
  intros [->| ->] H Hy; cbn [ecdf].
  - apply (ecdf_step_rel a b Ha); assumption.
  - apply canon_eq; try apply ecdf_lin_canon. apply (ecdf_lin_rel a b Ha); assumption.
Qed.

Lemma ARL_map (g g' : Q -> Q) l l' : ARL l l' -> (forall x x', In x l -> AR x x' -> AR (g x) (g' x')) -> ARL (map g l) (map g' l').
Proof.
  intros H Hg. induction H as [|x x' l l' Hx Hl IH]; [constructor|]. cbn [map]. constructor.
  - apply Hg; [left; reflexivity|exact Hx].
  - apply IH. intros y y' Hy. apply Hg. right. exact Hy.
Qed.

Lemma ARL_nonempty l l' : ARL l l' -> l <> [] -> l' <> [].
Proof. intros H Hne E. subst. inversion H. subst. apply Hne. reflexivity. Qed.

Lemma ARL_eql l l' : ARL l l' -> eql l' (map (fun x => a * x + b) l).
Proof. induction 1 as [|x x' l l' Hx Hl IH]; [constructor|]. cbn [map]. constructor; [exact Hx|exact IH]. Qed.

Lemma qmean_rel l l' : ARL l l' -> l <> [] -> AR (QL.qmean l) (QL.qmean l').
Proof.
  intros H Hne. unfold Affine.AR. rewrite (qmean_eql _ _ (ARL_eql _ _ H)). apply qmean_affine. exact Hne.
Qed.

Lemma fold_qmin_rel l : forall l' x x', ARL l l' -> AR x x' -> AR (fold_left QL.qmin2 l x) (fold_left QL.qmin2 l' x').
Proof.
  induction l as [|y l IH]; intros l' x x' H Hx; inversion H as [|? y' ? r' Hy Hr]; subst; [exact Hx|].
  cbn [fold_left]. apply IH; [exact Hr|]. unfold QL.qmin2. rewrite (AR_le a b Ha x x' y y' Hx Hy). destruct (Qle_bool x y); assumption.
Qed.
Lemma fold_qmax_rel l : forall l' x x', ARL l l' -> AR x x' -> AR (fold_left QL.qmax2 l x) (fold_left QL.qmax2 l' x').
Proof.
  induction l as [|y l IH]; intros l' x x' H Hx; inversion H as [|? y' ? r' Hy Hr]; subst; [exact Hx|].
  cbn [fold_left]. apply IH; [exact Hr|]. unfold QL.qmax2. rewrite (AR_le a b Ha x x' y y' Hx Hy). destruct (Qle_bool x y); assumption.
Qed.
Lemma qmin_rel l l' : ARL l l' -> l <> [] -> AR (QL.qmin l) (QL.qmin l').
Proof. intros H Hne. destruct H as [|x x' l l' Hx Hl]; [congruence|]. unfold QL.qmin. apply fold_qmin_rel; assumption. Qed.
Lemma qmax_rel l l' : ARL l l' -> l <> [] -> AR (QL.qmax l) (QL.qmax l').
Proof. intros H Hne. destruct H as [|x x' l l' Hx Hl]; [congruence|]. unfold QL.qmax. apply fold_qmax_rel; assumption. Qed.

(** quantile mapping (and its extrapolating variant) commutes with the change of units *)
Theorem qmap_rel em im x x' y y' v v' : em = step_function \/ em = linear_interpolation ->
  ARL x x' -> ARL y y' -> AR v v' -> x <> [] -> y <> [] -> AR (qmap em im x y v) (qmap em im x' y' v').
Proof.
  intros Hem Hx Hy Hv Nx Ny. unfold qmap. rewrite (ecdf_rel em x x' v v' Hem Hx Hv).
  apply (iecdf_rel a b Ha); [exact Hy|exact Ny|]. apply C16_compose.ecdf_range; [exact Hem|exact Nx].
Qed.

Theorem qmap_extrap_rel em im x x' y y' v v' : em = step_function \/ em = linear_interpolation ->
  ARL x x' -> ARL y y' -> AR v v' -> x <> [] -> y <> [] -> AR (qmap_extrap em im x y v) (qmap_extrap em im x' y' v').
Proof.
  intros Hem Hx Hy Hv Nx Ny. unfold qmap_extrap. cbv zeta.
  pose proof (qmin_rel x x' Hx Nx) as M1. pose proof (qmax_rel x x' Hx Nx) as M2.
  pose proof (qmin_rel y y' Hy Ny) as M3. pose proof (qmax_rel y y' Hy Ny) as M4.
  rewrite (AR_lt a b Ha v v' _ _ Hv M1). destruct (Qlt_bool v (QL.qmin x)).
  - unfold Affine.AR in *. rewrite !Qred_correct. rewrite Hv, M1, M3. ring.
  - rewrite (AR_lt a b Ha _ _ v v' M2 Hv). destruct (Qlt_bool (QL.qmax x) v).
    + unfold Affine.AR in *. rewrite !Qred_correct. rewrite Hv, M2, M4. ring.
    + apply qmap_rel; assumption.
Qed.
End Rel2.
