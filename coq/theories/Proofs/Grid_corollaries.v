(** C05 / C13 statements derived from Grid_proofs. *)
From Coq Require Import List Bool Arith Lia Permutation.
From IV Require Import Grid Grid_proofs.
Import ListNotations.

Section GC.
Variable V : Type.
Variable nan : V.

Definition returns_length (f : locfun V) (T : nat) : Prop := forall o h fu c, f o h fu = Some c -> length c = T.
Definition fails_at (f : locfun V) (obs hist fut : grid V) (i j : nat) : Prop :=
  f (cell V obs i j) (cell V hist i j) (cell V fut i j) = None.

(** serial grid application = the per-location function at every cell; shape X x Y x T *)
Theorem cell_independence f T X Y obs hist fut :
  returns_length f T -> (forall i j, i < X -> j < Y -> ~ fails_at f obs hist fut i j) ->
  forall failsafe, exists b, apply_serial V nan failsafe f T X Y obs hist fut = Some b /\ dims V b X Y /\
    forall i j, i < X -> j < Y ->
      exists c, f (cell V obs i j) (cell V hist i j) (cell V fut i j) = Some c /\ ocell V b i j = Some c /\ length c = T.
Proof.
  intros HL Hok failsafe.
  destruct (serial_spec V nan failsafe f T X Y obs hist fut) as (b & E & Hd & Hc).
  - intros [i j] Hin. apply in_indices in Hin. unfold good, task, run_loc. cbn [fst snd].
    destruct (f _ _ _) as [c|] eqn:Ef; [apply (HL _ _ _ _ Ef)|]. exfalso. apply (Hok i j); tauto.
  - exists b. split; [exact E|]. split; [exact Hd|]. intros i j Hi Hj.
    destruct (f (cell V obs i j) (cell V hist i j) (cell V fut i j)) as [c|] eqn:Ef; [|exfalso; apply (Hok i j Hi Hj); exact Ef].
    exists c. split; [reflexivity|]. split; [|apply (HL _ _ _ _ Ef)].
    rewrite (Hc i j Hi Hj). unfold val, task, run_loc. cbn [fst snd]. rewrite Ef. reflexivity.
Qed.

(** no cell influences another: the result at a cell depends only on that cell's three columns *)
Theorem no_cross_influence f T X Y obs hist fut obs' hist' fut' i j b b' failsafe :
  apply_serial V nan failsafe f T X Y obs hist fut = Some b ->
  apply_serial V nan failsafe f T X Y obs' hist' fut' = Some b' ->
  i < X -> j < Y ->
  cell V obs i j = cell V obs' i j -> cell V hist i j = cell V hist' i j -> cell V fut i j = cell V fut' i j ->
  ocell V b i j = ocell V b' i j.
Proof.
  intros E E' Hi Hj Co Ch Cf.
  assert (G : forall o h fu, (forall ij, In ij (indices X Y) -> good V T (task V failsafe f o h fu) ij) \/
                             (exists ij, In ij (indices X Y) /\ ~ good V T (task V failsafe f o h fu) ij)).
  { intros o h fu. induction (indices X Y) as [|a l IH]; [left; intros ij []|].
    destruct (good_dec V T (task V failsafe f o h fu) a) as [Ga|Ba].
    - destruct IH as [IH|(ij & Hin & Hb)]; [left; intros ij [<-|H]; auto|right; exists ij; split; [right; exact Hin|exact Hb]].
    - right. exists a. split; [left; reflexivity|exact Ba]. }
  destruct (G obs hist fut) as [Gd|Bd]; [|rewrite (serial_fail V nan failsafe f T X Y obs hist fut Bd) in E; discriminate].
  destruct (G obs' hist' fut') as [Gd'|Bd']; [|rewrite (serial_fail V nan failsafe f T X Y obs' hist' fut' Bd') in E'; discriminate].
  destruct (serial_spec V nan failsafe f T X Y obs hist fut Gd) as (b0 & E0 & _ & Hc).
  destruct (serial_spec V nan failsafe f T X Y obs' hist' fut' Gd') as (b0' & E0' & _ & Hc').
  rewrite E in E0. injection E0 as <-. rewrite E' in E0'. injection E0' as <-.
  rewrite (Hc i j Hi Hj), (Hc' i j Hi Hj). unfold val, task. cbn [fst snd]. rewrite Co, Ch, Cf. reflexivity.
Qed.

(** failsafe: failing cells become NaN columns, every other cell is the per-location result *)
Theorem failsafe_isolation f T X Y obs hist fut : returns_length f T ->
  exists b, apply_serial V nan true f T X Y obs hist fut = Some b /\ dims V b X Y /\
    forall i j, i < X -> j < Y ->
      match f (cell V obs i j) (cell V hist i j) (cell V fut i j) with
      | Some c => ocell V b i j = Some c
      | None => ocell V b i j = Some (repeat nan T)
      end.
Proof.
  intro HL.
  destruct (serial_spec V nan true f T X Y obs hist fut) as (b & E & Hd & Hc).
  - intros [i j] _. unfold good, task, run_loc. cbn [fst snd].
    destruct (f _ _ _) as [c|] eqn:Ef; [apply (HL _ _ _ _ Ef)|exact I].
  - exists b. split; [exact E|]. split; [exact Hd|]. intros i j Hi Hj. rewrite (Hc i j Hi Hj).
    unfold val, task, run_loc. cbn [fst snd]. destruct (f _ _ _); reflexivity.
Qed.

(** ... identical to a run in which nothing failed, at every cell that did not fail *)
Theorem failsafe_matches_unfailing_run f f' T X Y obs hist fut b b' i j :
  returns_length f T -> returns_length f' T ->
  (forall o h fu c, f o h fu = Some c -> f' o h fu = Some c) ->
  apply_serial V nan true f T X Y obs hist fut = Some b ->
  apply_serial V nan true f' T X Y obs hist fut = Some b' ->
  i < X -> j < Y -> ~ fails_at f obs hist fut i j -> ocell V b i j = ocell V b' i j.
Proof.
  intros HL HL' Hext E E' Hi Hj Hnf.
  destruct (failsafe_isolation f T X Y obs hist fut HL) as (b0 & E0 & _ & Hc).
  destruct (failsafe_isolation f' T X Y obs hist fut HL') as (b0' & E0' & _ & Hc').
  rewrite E in E0. injection E0 as <-. rewrite E' in E0'. injection E0' as <-.
  specialize (Hc i j Hi Hj). specialize (Hc' i j Hi Hj). unfold fails_at in Hnf.
  destruct (f (cell V obs i j) (cell V hist i j) (cell V fut i j)) as [c|] eqn:Ef; [|contradiction].
  rewrite (Hext _ _ _ _ Ef) in Hc'. congruence.
Qed.

(** failsafe off: a failing cell means no array, serially and for every pool schedule *)
Theorem nofailsafe_raises f T X Y obs hist fut i j : i < X -> j < Y -> fails_at f obs hist fut i j ->
  apply_serial V nan false f T X Y obs hist fut = None /\
  forall sched, Permutation sched (seq 0 (X * Y)) -> apply_parallel V nan false f T X Y obs hist fut sched = None.
Proof.
  intros Hi Hj Hf.
  assert (S : apply_serial V nan false f T X Y obs hist fut = None).
  { apply serial_fail. exists (i, j). split; [apply in_indices; tauto|].
    unfold good, task, run_loc. cbn [fst snd]. unfold fails_at in Hf. rewrite Hf. tauto. }
  split; [exact S|]. intros sched P. rewrite (parallel_eq_serial V nan false f T X Y obs hist fut sched P). exact S.
Qed.
End GC.
