(** Two sorted lists that are permutations of each other agree element by element (up to ==); hence sorting is
    invariant under permutation of its input, and so are the ECDFs and quantiles of a sample. *)
From Coq Require Import QArith ZArith List Bool Lia Lqa Permutation.
From IV Require Import QL Ecdf QFacts QListFacts C16_sortlike C19_quantile Affine.
Import ListNotations.
Open Scope Q_scope.

Definition le_of (t : Q) := fun v => Qle_bool v t.

Lemma cnt_all P l : (forall y, In y l -> P y = true) -> cnt P l = length l.
Proof. intro H. induction l as [|a l IH]; [reflexivity|]. rewrite cnt_cons, (H a (or_introl eq_refl)), IH; [reflexivity|]. intros y Hy. apply H. right. exact Hy. Qed.

(** in a sorted list at least k+1 elements are <= s_k *)
Lemma cnt_le_at_least s k : sortedQ s -> (k < length s)%nat -> (S k <= cnt (le_of (yv s k)) s)%nat.
Proof.
  intros Hs Hk. unfold yv. set (t := nth k s 0). rewrite <- (firstn_skipn (S k) s). rewrite cnt_app. rewrite cnt_all.
  - rewrite firstn_length. lia.
  - intros y Hy. apply Qle_bool_iff. destruct (In_nth _ _ 0 Hy) as (j & Hj & <-). rewrite firstn_length in Hj.
    rewrite nth_firstn_lt' by lia. unfold t. apply sorted_nth_le; [exact Hs|lia].
Qed.

(** ... and at most k elements are <= v when v < s_k *)
Lemma cnt_le_below s k v : sortedQ s -> (k < length s)%nat -> v < nth k s 0 -> (cnt (le_of v) s <= k)%nat.
Proof.
  intros Hs Hk Hv. apply Nat.le_trans with (count_lt (nth k s 0) s).
  - apply cnt_mono. intros y Hy. unfold le_of in Hy. qb. apply Qlt_bool_true. lra.
  - apply count_lt_sorted; [exact Hs|exact Hk|apply Qle_refl].
Qed.

Theorem sorted_perm_eql a b : sortedQ a -> sortedQ b -> Permutation a b -> eql a b.
Proof.
  intros Sa Sb Pm. pose proof (Permutation_length Pm) as L.
  assert (N : forall k, (k < length a)%nat -> nth k a 0 == nth k b 0).
  { intros k Hk.
    destruct (Qlt_le_dec (nth k a 0) (nth k b 0)) as [Lt|Ge1].
    - exfalso. pose proof (cnt_le_at_least a k Sa Hk) as A. unfold yv in A. rewrite (cnt_perm _ _ _ Pm) in A.
      pose proof (cnt_le_below b k (nth k a 0) Sb ltac:(lia) Lt). lia.
    - destruct (Qlt_le_dec (nth k b 0) (nth k a 0)) as [Lt|Ge2]; [|lra].
      exfalso. pose proof (cnt_le_at_least b k Sb ltac:(lia)) as A. unfold yv in A. rewrite <- (cnt_perm _ _ _ Pm) in A.
      pose proof (cnt_le_below a k (nth k b 0) Sa Hk Lt). lia. }
  clear Sa Sb Pm. revert b L N. induction a as [|x a IH]; intros [|y b] L N; try discriminate; [constructor|].
  constructor; [apply (N 0%nat); cbn; lia|]. apply IH; [cbn in L; lia|]. intros k Hk. apply (N (S k)). cbn. lia.
Qed.

Theorem qsort_perm_eql l l' : Permutation l l' -> eql (qsort l) (qsort l').
Proof.
  intro Pm. apply sorted_perm_eql; try apply qsort_sorted.
  apply Permutation_trans with l; [apply Permutation_sym; apply qsort_perm|]. apply Permutation_trans with l'; [exact Pm|apply qsort_perm].
Qed.

Lemma eql_ARL10 l l' : eql l l' -> ARL 1 0 l l'.
Proof. induction 1 as [|x x' l l' Hx Hl IH]; constructor; [unfold AR; rewrite Hx; ring|exact IH]. Qed.

(** the ECDFs of a sample do not depend on the order in which the sample is stored (Leibniz equalities) *)
Theorem ecdf_perm m x x' y : m = step_function \/ m = linear_interpolation -> Permutation x x' -> ecdf m x y = ecdf m x' y.
Proof.
  intros [-> | ->] Pm; cbn [ecdf].
  - unfold ecdf_step, zlen. rewrite (Permutation_length Pm).
    change (length (filter (fun v => Qle_bool v y) x)) with (cnt (le_of y) x). change (length (filter (fun v => Qle_bool v y) x')) with (cnt (le_of y) x').
    rewrite (cnt_perm _ _ _ Pm). reflexivity.
  - apply canon_eq; try apply ecdf_lin_canon. unfold ecdf_lin, ecdf_lin_sorted.
    pose proof (qsort_perm_eql _ _ Pm) as E. rewrite (eql_length _ _ E).
    symmetry. apply (interp_rel 1 0 ltac:(lra) y y (qsort x) (qsort x')); [apply eql_ARL10; exact E|unfold AR; ring].
Qed.
