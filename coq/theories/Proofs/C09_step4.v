(** C09 for ISIMIP step 4 (hand model Model/IsimipStep4.v): the randomisation of the values at or beyond a
    threshold never reorders values -- whatever the uniform draws are. *)
From Coq Require Import QArith ZArith List Bool Lia Lqa Permutation.
From IV Require Import QL NP Ecdf QFacts QListFacts C16_sortlike IsimipStep4.
Import ListNotations.
Open Scope Q_scope.

Definition ctrue (m : list bool) : nat := length (filter (fun b => b) m).

Lemma select_length (vals : list Q) : forall m, length m = length vals -> length (NP.select vals m) = ctrue m.
Proof.
  induction vals as [|v vs IH]; intros [|b ms] L; try discriminate; [reflexivity|]. cbn in L. injection L as L.
  cbn [NP.select]. unfold ctrue. cbn [filter]. destruct b; cbn [length]; rewrite (IH ms L); reflexivity.
Qed.

Lemma ctrue_firstn_lt m i : (i < length m)%nat -> nth i m false = true -> (ctrue (firstn i m) < ctrue m)%nat.
Proof.
  revert i. induction m as [|b ms IH]; intros i Hi Hb; [cbn in Hi; lia|].
  destruct i as [|i]; unfold ctrue in *; cbn in *.
  - subst b. cbn. lia.
  - destruct b; cbn; specialize (IH i ltac:(lia) Hb); lia.
Qed.

(** position i of the full series <-> position (number of masked entries before i) of the masked sub-series *)
Lemma select_nth (vals : list Q) : forall m i, length m = length vals -> (i < length vals)%nat -> nth i m false = true ->
  nth (ctrue (firstn i m)) (NP.select vals m) 0 = nth i vals 0.
Proof.
  induction vals as [|v vs IH]; intros [|b ms] i L Hi Hb; try discriminate; [cbn in Hi; lia|]. cbn in L. injection L as L.
  destruct i as [|i].
  - cbn in Hb. subst b. reflexivity.
  - cbn [firstn nth NP.select]. unfold ctrue. cbn [filter]. destruct b; cbn [length nth]; apply IH; try assumption; cbn in Hi; lia.
Qed.

Lemma scatter_nth (vals : list Q) : forall m new i, length m = length vals -> length new = ctrue m -> (i < length vals)%nat ->
  nth i (scatter vals m new) 0 = if nth i m false then nth (ctrue (firstn i m)) new 0 else nth i vals 0.
Proof.
  induction vals as [|v vs IH]; intros [|b ms] new i L Ln Hi; try discriminate; [cbn in Hi; lia|]. cbn in L. injection L as L.
  unfold ctrue in Ln. cbn [filter] in Ln.
  destruct b.
  - destruct new as [|x xs]; [cbn in Ln; lia|]. cbn [scatter]. destruct i as [|i]; [reflexivity|].
    cbn [nth firstn]. unfold ctrue. cbn [filter length nth]. apply IH; try assumption; [cbn in Ln; unfold ctrue; lia|cbn in Hi; lia].
  - cbn [scatter]. destruct i as [|i]; [reflexivity|]. cbn [nth firstn]. unfold ctrue. cbn [filter]. apply IH; try assumption. cbn in Hi. lia.
Qed.

Lemma firstn_In' {A} (l : list A) : forall n x, In x (firstn n l) -> In x l.
Proof. induction l as [|a l IH]; intros [|n] x H; cbn in *; try contradiction. destruct H as [H|H]; [left; exact H|right; apply (IH n); exact H]. Qed.

Section Step4.
Variable beyond : Q -> bool.
Variables lo hi : Q.
Hypothesis Hlohi : lo <= hi.
Variables (us vals : list Q).
Hypothesis Hus : Forall (fun u => 0 <= u /\ u <= 1) us.
Hypothesis Hlen : (ctrue (map beyond vals) <= length us)%nat.

Let m := map beyond vals.
Let sel := NP.select vals m.
Let draws := qsort (map (fun u => Qred (lo + (hi - lo) * u)) (firstn (length sel) us)).

Lemma sel_len : length sel = ctrue m.
Proof. unfold sel. apply select_length. unfold m. apply map_length. Qed.

Lemma draws_len : length draws = length sel.
Proof. unfold draws. rewrite qsort_length, map_length, firstn_length, sel_len. unfold m. lia. Qed.

Lemma draws_range x : In x draws -> lo <= x /\ x <= hi.
Proof.
  unfold draws. rewrite qsort_in. intro H. apply in_map_iff in H. destruct H as (u & <- & Hu).
  apply firstn_In' in Hu. rewrite Forall_forall in Hus. destruct (Hus u Hu) as [U0 U1]. rewrite Qred_correct. split; nra.
Qed.

Lemma new_range k : (k < length sel)%nat -> lo <= nth k (sort_like draws sel) 0 /\ nth k (sort_like draws sel) 0 <= hi.
Proof.
  intro Hk. apply draws_range. apply (Permutation_in _ (sort_like_permutation draws sel draws_len)).
  apply nth_In. unfold sort_like. rewrite map_length, seq_length. exact Hk.
Qed.

Lemma out_nth i : (i < length vals)%nat ->
  nth i (step4_generic beyond lo hi us vals) 0 = if beyond (nth i vals 0) then nth (ctrue (firstn i m)) (sort_like draws sel) 0 else nth i vals 0.
Proof.
  intro Hi. unfold step4_generic. cbv zeta. fold m sel draws.
  rewrite scatter_nth; [|unfold m; apply map_length| |exact Hi].
  - unfold m at 1. rewrite (nth_indep (map beyond vals) false (beyond 0)) by (rewrite map_length; exact Hi). rewrite map_nth. reflexivity.
  - unfold sort_like. rewrite map_length, seq_length. apply sel_len.
Qed.

Lemma m_nth i : (i < length vals)%nat -> nth i m false = beyond (nth i vals 0).
Proof. intro Hi. unfold m. rewrite (nth_indep (map beyond vals) false (beyond 0)) by (rewrite map_length; exact Hi). apply map_nth. Qed.

(** order preservation, given that "beyond" is a down-set (lower twin) bounded by hi *)
Theorem step4_lower_never_reorders :
  (forall v, beyond v = true -> v <= hi) -> (forall v, beyond v = false -> hi < v) ->
  forall i j, (i < length vals)%nat -> (j < length vals)%nat -> nth i vals 0 < nth j vals 0 ->
  nth i (step4_generic beyond lo hi us vals) 0 <= nth j (step4_generic beyond lo hi us vals) 0.
Proof.
  intros B1 B0 i j Hi Hj Hv. rewrite (out_nth i Hi), (out_nth j Hj).
  assert (Lm : length m = length vals) by (unfold m; apply map_length).
  destruct (beyond (nth i vals 0)) eqn:Bi; destruct (beyond (nth j vals 0)) eqn:Bj.
  - (* both randomised: the order of the draws follows the order of the replaced values *)
    pose proof (ctrue_firstn_lt m i ltac:(lia) ltac:(rewrite m_nth; assumption)) as Ki.
    pose proof (ctrue_firstn_lt m j ltac:(lia) ltac:(rewrite m_nth; assumption)) as Kj.
    rewrite <- sel_len in Ki, Kj.
    apply sort_like_ordered; [apply draws_len|exact Ki|exact Kj|].
    unfold yv, sel. rewrite !select_nth; try assumption; rewrite m_nth; assumption.
  - pose proof (ctrue_firstn_lt m i ltac:(lia) ltac:(rewrite m_nth; assumption)) as Ki. rewrite <- sel_len in Ki.
    destruct (new_range _ Ki) as [_ R]. pose proof (B0 _ Bj). lra.
  - pose proof (B1 _ Bj). pose proof (B0 _ Bi). lra.
  - apply Qlt_le_weak. exact Hv.
Qed.

(** ... and the upper twin: "beyond" is an up-set bounded below by lo *)
Theorem step4_upper_never_reorders :
  (forall v, beyond v = true -> lo <= v) -> (forall v, beyond v = false -> v < lo) ->
  forall i j, (i < length vals)%nat -> (j < length vals)%nat -> nth i vals 0 < nth j vals 0 ->
  nth i (step4_generic beyond lo hi us vals) 0 <= nth j (step4_generic beyond lo hi us vals) 0.
Proof.
  intros B1 B0 i j Hi Hj Hv. rewrite (out_nth i Hi), (out_nth j Hj).
  assert (Lm : length m = length vals) by (unfold m; apply map_length).
  destruct (beyond (nth i vals 0)) eqn:Bi; destruct (beyond (nth j vals 0)) eqn:Bj.
  - pose proof (ctrue_firstn_lt m i ltac:(lia) ltac:(rewrite m_nth; assumption)) as Ki.
    pose proof (ctrue_firstn_lt m j ltac:(lia) ltac:(rewrite m_nth; assumption)) as Kj.
    rewrite <- sel_len in Ki, Kj.
    apply sort_like_ordered; [apply draws_len|exact Ki|exact Kj|].
    unfold yv, sel. rewrite !select_nth; try assumption; rewrite m_nth; assumption.
  - pose proof (B1 _ Bi). pose proof (B0 _ Bj). lra.
  - pose proof (ctrue_firstn_lt m j ltac:(lia) ltac:(rewrite m_nth; assumption)) as Kj. rewrite <- sel_len in Kj.
    destruct (new_range _ Kj) as [R _]. pose proof (B0 _ Bi). lra.
  - apply Qlt_le_weak. exact Hv.
Qed.
End Step4.

(** the two steps of ISIMIP *)
Theorem isimip_step4_lower_never_reorders lb lt us vals : lb <= lt -> Forall (fun u => 0 <= u /\ u <= 1) us ->
  (ctrue (map (fun v => Qle_bool v lt) vals) <= length us)%nat ->
  forall i j, (i < length vals)%nat -> (j < length vals)%nat -> nth i vals 0 < nth j vals 0 ->
  nth i (step4_lower lb lt us vals) 0 <= nth j (step4_lower lb lt us vals) 0.
Proof.
  intros H1 H2 H3. unfold step4_lower. apply step4_lower_never_reorders; try assumption.
  - intros v B. qb. exact B.
  - intros v B. qb. exact B.
Qed.

Theorem isimip_step4_upper_never_reorders ut ub us vals : ut <= ub -> Forall (fun u => 0 <= u /\ u <= 1) us ->
  (ctrue (map (fun v => Qle_bool ut v) vals) <= length us)%nat ->
  forall i j, (i < length vals)%nat -> (j < length vals)%nat -> nth i vals 0 < nth j vals 0 ->
  nth i (step4_upper ut ub us vals) 0 <= nth j (step4_upper ut ub us vals) 0.
Proof.
  intros H1 H2 H3. unfold step4_upper. apply step4_upper_never_reorders; try assumption.
  - intros v B. qb. exact B.
  - intros v B. qb. exact B.
Qed.

(** randomised values stay between bound and threshold; the others are untouched *)
Theorem isimip_step4_lower_values lb lt us vals : lb <= lt -> Forall (fun u => 0 <= u /\ u <= 1) us ->
  (ctrue (map (fun v => Qle_bool v lt) vals) <= length us)%nat ->
  forall i, (i < length vals)%nat ->
  (nth i vals 0 <= lt -> lb <= nth i (step4_lower lb lt us vals) 0 /\ nth i (step4_lower lb lt us vals) 0 <= lt) /\
  (lt < nth i vals 0 -> nth i (step4_lower lb lt us vals) 0 = nth i vals 0).
Proof.
  intros H1 H2 H3 i Hi. unfold step4_lower. rewrite (out_nth _ lb lt us vals i Hi). split; intro Hv.
  - apply Qle_bool_iff in Hv. rewrite Hv. apply new_range; try assumption.
    rewrite (sel_len (fun v => Qle_bool v lt) vals). apply ctrue_firstn_lt; [rewrite map_length; exact Hi|].
    rewrite (m_nth _ vals i Hi). exact Hv.
  - apply Qle_bool_false in Hv. rewrite Hv. reflexivity.
Qed.


(** CDFt SSR (REGENERATED cdft_randomize_zero): zeros are replaced by thr * u with u in [0,1); when thr does not
    exceed any positive value of the series (it is the smallest positive value of the three inputs, C10) the
    randomisation never reorders two values, whatever the draws *)
From IV Require Import GenScalars.
Open Scope Q_scope.
Theorem ssr_never_reorders (thr x y ux uy : Q) : 0 <= x -> x < y -> thr <= y -> 0 <= ux -> ux < 1 -> 0 < thr ->
  cdft_randomize_zero x thr ux <= cdft_randomize_zero y thr uy.
Proof.
  intros Hx Hxy Hy U0 U1 Ht. unfold cdft_randomize_zero. change (inject_Z 0) with 0.
  assert (By : Qeq_bool y 0 = false) by (destruct (Qeq_bool y 0) eqn:E; [apply Qeq_bool_iff in E; lra|reflexivity]). rewrite By.
  destruct (Qeq_bool x 0) eqn:Bx; [|lra]. nra.
Qed.
