(** C13 — failsafe mode isolates failing locations.
    Property theorems only (model: Model/Grid.v, tied to _debiaser.py by correspondence K8). *)
From Coq Require Import List Bool Arith Permutation.
From IV Require Import Grid Grid_proofs Grid_corollaries Grid_more.
Import ListNotations.

(** for EVERY grid and EVERY set of failing cells (not just the subsets of small grids): with
    failsafe the result is an array; failing cells are all-NaN columns, the others are the
    per-location results *)
Theorem C13_failsafe_isolation : forall (V : Type) (nan : V) f T X Y obs hist fut, returns_length V f T ->
  exists b, apply_serial V nan true f T X Y obs hist fut = Some b /\ dims V b X Y /\
    forall i j, i < X -> j < Y ->
      match f (cell V obs i j) (cell V hist i j) (cell V fut i j) with
      | Some c => ocell V b i j = Some c
      | None => ocell V b i j = Some (repeat nan T)
      end.
Proof. exact failsafe_isolation. Qed.
Print Assumptions C13_failsafe_isolation.

(** ... and every cell that did not fail is identical to a run in which nothing failed *)
Theorem C13_matches_unfailing_run : forall (V : Type) (nan : V) f f' T X Y obs hist fut b b' i j,
  returns_length V f T -> returns_length V f' T ->
  (forall o h fu c, f o h fu = Some c -> f' o h fu = Some c) ->
  apply_serial V nan true f T X Y obs hist fut = Some b ->
  apply_serial V nan true f' T X Y obs hist fut = Some b' ->
  i < X -> j < Y -> ~ fails_at V f obs hist fut i j -> ocell V b i j = ocell V b' i j.
Proof. exact failsafe_matches_unfailing_run. Qed.
Print Assumptions C13_matches_unfailing_run.

(** failsafe off: any failing cell => no array, serially and for every pool schedule *)
Theorem C13_nofailsafe_raises : forall (V : Type) (nan : V) f T X Y obs hist fut i j,
  i < X -> j < Y -> fails_at V f obs hist fut i j ->
  apply_serial V nan false f T X Y obs hist fut = None /\
  forall sched, Permutation sched (seq 0 (X * Y)) -> apply_parallel V nan false f T X Y obs hist fut sched = None.
Proof. exact nofailsafe_raises. Qed.
Print Assumptions C13_nofailsafe_raises.

(** serial and parallel agree in failsafe mode too, for every schedule *)
Theorem C13_parallel_eq_serial : forall (V : Type) (nan : V) f T X Y obs hist fut sched,
  Permutation sched (seq 0 (X * Y)) ->
  apply_parallel V nan true f T X Y obs hist fut sched = apply_serial V nan true f T X Y obs hist fut.
Proof. intros V nan. exact (parallel_eq_serial V nan true). Qed.
Print Assumptions C13_parallel_eq_serial.

(** failsafe off: the application raises EXACTLY when some location fails (no spurious failure, none swallowed),
    serially and for every completion order of the pool *)
Theorem C13_nofailsafe_raises_iff : forall (V : Type) (nan : V) f T X Y obs hist fut, returns_length V f T ->
  (apply_serial V nan false f T X Y obs hist fut = None <->
   exists i j, i < X /\ j < Y /\ fails_at V f obs hist fut i j).
Proof. exact nofailsafe_none_iff. Qed.
Print Assumptions C13_nofailsafe_raises_iff.

Theorem C13_nofailsafe_parallel_raises_iff : forall (V : Type) (nan : V) f T X Y obs hist fut sched,
  returns_length V f T -> Permutation sched (seq 0 (X * Y)) ->
  (apply_parallel V nan false f T X Y obs hist fut sched = None <->
   exists i j, i < X /\ j < Y /\ fails_at V f obs hist fut i j).
Proof. exact nofailsafe_parallel_none_iff. Qed.
Print Assumptions C13_nofailsafe_parallel_raises_iff.

(** failsafe on: whatever a failing location holds (NaN, garbage, anything at all) has no effect on any other
    location of the result *)
Theorem C13_failing_cell_is_isolated : forall (V : Type) (nan : V) f T X Y obs hist fut obs' hist' fut' i0 j0,
  returns_length V f T ->
  (forall i j, i < X -> j < Y -> (i, j) <> (i0, j0) ->
     cell V obs i j = cell V obs' i j /\ cell V hist i j = cell V hist' i j /\ cell V fut i j = cell V fut' i j) ->
  exists b b', apply_serial V nan true f T X Y obs hist fut = Some b /\
               apply_serial V nan true f T X Y obs' hist' fut' = Some b' /\
               forall i j, i < X -> j < Y -> (i, j) <> (i0, j0) -> ocell V b i j = ocell V b' i j.
Proof. exact failsafe_failing_cell_is_isolated. Qed.
Print Assumptions C13_failing_cell_is_isolated.

(** non-vacuity: cell (0,1) fails; failsafe gives NaN there and the normal result elsewhere *)
Example C13_nonvacuous :
  let f := fun (o h fu : list nat) => if Nat.eqb (hd 0 o) 99 then None else Some (map (fun x => x + hd 0 o) fu) in
  let obs := [[[1; 1]; [99; 1]]; [[3; 3]; [4; 4]]] in let g := [[[10; 10]; [20; 20]]; [[30; 30]; [40; 40]]] in
  apply_serial nat 777 true f 2 2 2 obs g g = Some [[Some [11; 11]; Some [777; 777]]; [Some [33; 33]; Some [44; 44]]] /\
  apply_serial nat 777 false f 2 2 2 obs g g = None /\
  apply_parallel nat 777 false f 2 2 2 obs g g [2; 0; 3; 1] = None.
Proof. vm_compute. repeat split. Qed.
