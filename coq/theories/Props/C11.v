(** C11 — ISIMIP adjusts the frequency of beyond-threshold events as specified.
    Property theorems only, about the definitions REGENERATED from ibicus/debias/_isimip.py. *)
From Coq Require Import QArith Qabs Qround ZArith List Bool.
From IV Require Import NP QL GenIsimip C11_proofs C11_monotone.
Import ListNotations.
Open Scope Q_scope.

Theorem C11_P_range : forall Po Ph Pf, 0 <= Po <= 1 -> 0 <= Ph <= 1 -> 0 <= Pf <= 1 ->
  0 <= step6_P_obs_future Po Ph Pf <= 1.
Proof. exact P_range. Qed.
Print Assumptions C11_P_range.

Theorem C11_P_same_model_exact : forall Po Ph, 0 <= Po <= 1 -> 0 <= Ph <= 1 -> QL.isclose Ph Po = false ->
  step6_P_obs_future Po Ph Ph == Po.
Proof. exact P_same_model_exact. Qed.
Print Assumptions C11_P_same_model_exact.

Theorem C11_P_same_model_close : forall Po Ph, QL.isclose Ph Po = true ->
  step6_P_obs_future Po Ph Ph = Ph /\ Qabs (Ph - Po) <= (1 # 100000000) + (1 # 100000) * Qabs Po.
Proof. exact P_same_model_close. Qed.
Print Assumptions C11_P_same_model_close.

Theorem C11_P_unbiased : forall Po Ph Pf, Ph == Po -> step6_P_obs_future Po Ph Pf = Pf.
Proof. exact P_unbiased_eq. Qed.
Print Assumptions C11_P_unbiased.

(** monotone in the model's future frequency, over ALL four branches and across their boundaries (isclose shortcut
    included): a model that simulates more beyond-threshold events never gets fewer after the adjustment *)
Theorem C11_P_monotone_in_future : forall Po Ph Pf1 Pf2, 0 <= Po <= 1 -> 0 <= Ph <= 1 -> Pf1 <= Pf2 ->
  step6_P_obs_future Po Ph Pf1 <= step6_P_obs_future Po Ph Pf2.
Proof. exact P_monotone_in_future. Qed.
Print Assumptions C11_P_monotone_in_future.

(** non-vacuity across a branch boundary: a wet-biased model (Ph = 2/5 > Po = 1/5); Pf = 3/10 falls in the scaling
    branch (-> 3/20), Pf = 1/2 in the additive one (-> 3/10) *)
Example C11_P_monotone_crosses_branches :
  Qeq_bool (step6_P_obs_future (1 # 5) (2 # 5) (3 # 10)) (3 # 20) = true /\
  Qeq_bool (step6_P_obs_future (1 # 5) (2 # 5) (1 # 2)) (3 # 10) = true.
Proof. vm_compute. split; reflexivity. Qed.

(** ... and so does the COUNT of values set to the bound, round(n * P) with Python's round-half-to-even, which is
    itself monotone (ties included) *)
Theorem C11_round_monotone : forall q1 q2, q1 <= q2 -> (QL.round_half_even q1 <= QL.round_half_even q2)%Z.
Proof. exact round_half_even_monotone. Qed.
Print Assumptions C11_round_monotone.

Theorem C11_count_monotone_in_future : forall (n : Z) Po Ph Pf1 Pf2, (0 <= n)%Z -> 0 <= Po <= 1 -> 0 <= Ph <= 1 -> Pf1 <= Pf2 ->
  (QL.round_half_even (inject_Z n * step6_P_obs_future Po Ph Pf1) <=
   QL.round_half_even (inject_Z n * step6_P_obs_future Po Ph Pf2))%Z.
Proof. exact count_monotone_in_future. Qed.
Print Assumptions C11_count_monotone_in_future.

Theorem C11_isclose_is_equality_on_grids : forall k1 k2 n, (0 < n <= 50000)%Z -> (0 <= k2 <= n)%Z -> k1 <> k2 ->
  QL.isclose (inject_Z k1 / inject_Z n) (inject_Z k2 / inject_Z n) = false.
Proof. exact isclose_grid. Qed.
Print Assumptions C11_isclose_is_equality_on_grids.

Theorem C11_count_is_round_nP : forall adj mo mh mf,
  step6_nr_to_bound adj mo mh mf =
  QL.round_half_even (inject_Z (Z.of_nat (length mf)) *
    (if adj then step6_P_obs_future (step6_percent_beyond mo) (step6_percent_beyond mh) (step6_percent_beyond mf)
     else step6_percent_beyond mo)).
Proof. exact nr_to_bound_spec. Qed.
Print Assumptions C11_count_is_round_nP.

Theorem C11_round_is_nearest : forall q,
  Qabs (inject_Z (QL.round_half_even q) - q) <= 1 # 2 /\ (Qfloor q <= QL.round_half_even q <= Qfloor q + 1)%Z.
Proof. exact round_half_even_spec. Qed.
Print Assumptions C11_round_is_nearest.

Theorem C11_count_range : forall adj mo mh mf, mo <> [] -> mh <> [] -> mf <> [] ->
  (0 <= step6_nr_to_bound adj mo mh mf <= Z.of_nat (length mf))%Z.
Proof. exact nr_to_bound_range. Qed.
Print Assumptions C11_count_range.

Theorem C11_rescaled_counts_sum_to_n : forall lo hi n, (0 <= lo)%Z -> (0 <= hi)%Z -> (0 <= n < lo + hi)%Z ->
  let p := step6_scale_nr lo hi n in
  (fst p + snd p = n)%Z /\ (0 <= fst p <= n)%Z /\ (0 <= snd p <= n)%Z /\
  Qabs (inject_Z (fst p) - inject_Z (lo * n) / inject_Z (lo + hi)) <= 1 # 2 /\
  Qabs (inject_Z (snd p) - inject_Z (hi * n) / inject_Z (lo + hi)) <= 1 # 2.
Proof. exact scale_nr_spec. Qed.
Print Assumptions C11_rescaled_counts_sum_to_n.

Theorem C11_mask_lower : forall nr x k, (0 <= nr <= Z.of_nat (length x))%Z -> (k < length x)%nat ->
  length (step6_mask_lower nr x) = length x /\ nth k (step6_mask_lower nr x) false = (Z.of_nat k <? nr)%Z.
Proof. exact mask_lower_spec. Qed.
Print Assumptions C11_mask_lower.

Theorem C11_mask_upper : forall nr x k, (0 <= nr <= Z.of_nat (length x))%Z -> (k < length x)%nat ->
  length (step6_mask_upper nr x) = length x /\
  nth k (step6_mask_upper nr x) false = (Z.of_nat (length x) - nr <=? Z.of_nat k)%Z.
Proof. exact mask_upper_spec. Qed.
Print Assumptions C11_mask_upper.

Theorem C11_masks_disjoint : forall lo hi x k, (0 <= lo)%Z -> (0 <= hi)%Z -> (lo + hi <= Z.of_nat (length x))%Z ->
  (k < length x)%nat ->
  nth k (step6_mask_lower lo x) false && nth k (step6_mask_upper hi x) false = false.
Proof. exact masks_disjoint. Qed.
Print Assumptions C11_masks_disjoint.

(** exhaustive on the grids k/n, n <= 12 (finite, decided by computation, in addition to the
    unbounded theorems): range, same-model and unbiased laws hold exactly *)
Definition grid_ok (n : Z) : bool :=
  forallb (fun a => forallb (fun b => forallb (fun c =>
    let Po := inject_Z a / inject_Z n in let Ph := inject_Z b / inject_Z n in let Pf := inject_Z c / inject_Z n in
    let P := step6_P_obs_future Po Ph Pf in
    Qle_bool 0 P && Qle_bool P 1 &&
    (if (b =? c)%Z then Qeq_bool P Po else true) && (if (a =? b)%Z then Qeq_bool P Pf else true))
    (NP.arange 0 (n + 1) 1)) (NP.arange 0 (n + 1) 1)) (NP.arange 0 (n + 1) 1).
Example C11_exhaustive_grids_up_to_12 : forallb grid_ok (NP.arange 1 13 1) = true.
Proof. vm_compute. reflexivity. Qed.

(** non-vacuity: a wet-biased model that gets drier, and the rescaling witness of the repaired defect *)
Example C11_nonvacuous :
  Qred (step6_P_obs_future (1 # 4) (1 # 2) (1 # 4)) = 1 # 8 /\ step6_scale_nr 2 2 3 = (2, 1)%Z /\
  step6_nr_to_bound true [true; false; false; false] [true; true; false; false] [true; true; false; false; false; false; false; false] = 1%Z.
Proof. vm_compute. repeat split. Qed.
