(** C14 — input contract: malformed input rejected up front, convertible input converted.
    Property theorems only; the check list is EXTRACTED from Debiaser._check_inputs_and_convert_if_possible /
    _check_output / apply on every run (Gen/GenChecks.v) and interpreted over argument descriptors. *)
From Coq Require Import ZArith QArith List Bool String.
From IV Require Import ChecksBase GenChecks Checks GenUtils C14_proofs.
Import ListNotations.

(** for EVERY combination of argument descriptors the extracted list behaves as its closed form *)
Theorem C14_run_spec : forall st,
  run input_checks st =
  if negb (all_nd st) then Raised E_Type
  else if value_error st then Raised E_Value
  else Done (spec_state st) (spec_warnings st).
Proof. exact run_spec. Qed.
Print Assumptions C14_run_spec.

(** TypeError iff some argument is not an ndarray (checked first, in every argument position) *)
Theorem C14_type_first : forall st, run input_checks st = Raised E_Type <-> all_nd st = false.
Proof. exact type_first. Qed.
Print Assumptions C14_type_first.

(** otherwise ValueError iff unconvertible dtype, some ndim <> 3, or differing spatial shapes;
    the descriptor has no time-length component: the outcome cannot depend on the time lengths *)
Theorem C14_value_error_iff : forall st, all_nd st = true ->
  (run input_checks st = Raised E_Value <-> value_error st = true).
Proof. exact value_error_iff. Qed.
Print Assumptions C14_value_error_iff.

Theorem C14_ok_iff : forall st,
  (exists st' w, run input_checks st = Done st' w) <-> all_nd st = true /\ value_error st = false.
Proof. exact ok_iff. Qed.
Print Assumptions C14_ok_iff.

(** accepted input: exactly the documented warnings, in order *)
Theorem C14_warnings_exact : forall st, all_nd st = true -> value_error st = false ->
  run input_checks st = Done (spec_state st) (spec_warnings st).
Proof. exact warnings_exact. Qed.
Print Assumptions C14_warnings_exact.

(** ... and converted: float dtype, plain array, masked-invalid cells as NaN *)
Theorem C14_converted : forall st a, In a arg_list ->
  dt (get (spec_state st) a) = DFloat /\ msk (get (spec_state st) a) = NotMasked /\
  nonfinite (get (spec_state st) a) = nonfinite (get st a) || is_masked_invalid (msk (get st a)).
Proof. exact converted. Qed.
Print Assumptions C14_converted.

Theorem C14_never_stuck : forall st, run input_checks st <> Stuck.
Proof. exact never_stuck. Qed.
Print Assumptions C14_never_stuck.

Theorem C14_output_check_only_warns : forall st, exists w, run output_checks st = Done st w /\
  w = ((if nonfinite (s_fut st) then [(W_out_nonfinite, A_output)] else []) ++
       (if range_configured st && oor (s_fut st) then [(W_out_range, A_output)] else []))%list.
Proof. exact output_check_only_warns. Qed.
Print Assumptions C14_output_check_only_warns.

(** the check precedes the location loop in Debiaser.apply and in DeltaChange.apply *)
Theorem C14_check_before_map : check_before_map_Debiaser = true /\ check_before_map_DeltaChange = true.
Proof. exact check_before_map. Qed.
Print Assumptions C14_check_before_map.

(** time arrays that do not match the series lengths: ValueError, iff some length differs *)
Theorem C14_time_mismatch : forall (o h f : list Q) (to th tf : list Z),
  check_time_information_and_raise_error o h f to th tf = None <->
  (List.length o <> List.length to \/ List.length h <> List.length th \/ List.length f <> List.length tf).
Proof. exact time_mismatch. Qed.
Print Assumptions C14_time_mismatch.

(** non-vacuity: an int obs, a masked cm_hist with invalid cells and a float cm_future with NaN *)
Example C14_nonvacuous :
  let good := mkDesc true DFloat true false false NotMasked in
  run input_checks (mkState (mkDesc true DConvertible true false false NotMasked)
                            (mkDesc true DFloat true false false MaskedInvalid)
                            (mkDesc true DFloat true true false NotMasked) true true)
  = Done (mkState good (mkDesc true DFloat true true false NotMasked) (mkDesc true DFloat true true false NotMasked) true true)
         [(W_dtype, A_obs); (W_nonfinite, A_cm_future); (W_masked_invalid, A_cm_hist)].
Proof. vm_compute. reflexivity. Qed.
