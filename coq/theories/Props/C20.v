(** C20 — bias and trend evaluation report the documented quantities.
    Property theorems only (model: Model/Eval.v, tied to evaluate/{marginal,trend,multivariate}.py by
    correspondence K13).  Grids are lists of cells of ANY length: every statement is per location. *)
From Coq Require Import QArith ZArith List Bool.
From IV Require Import QL NP Ecdf Metrics Eval C19_proofs C20_proofs.
Import ListNotations.
Open Scope Q_scope.

Theorem C20_mean_bias_formula : forall percentage obs cm c,
  length obs = length cm -> (c < length obs)%nat ->
  nth c (mean_bias percentage obs cm) 0 =
  let o := QL.qmean (nth c obs []) in let m := QL.qmean (nth c cm []) in
  if percentage then 100 * (m - o) / o else m - o.
Proof. exact @mean_bias_formula. Qed.
Print Assumptions C20_mean_bias_formula.

Theorem C20_quantile_bias_formula : forall percentage q obs cm c,
  length obs = length cm -> (c < length obs)%nat ->
  nth c (quantile_bias percentage q obs cm) 0 =
  let o := Ecdf.iecdf linear (nth c obs []) q in let m := Ecdf.iecdf linear (nth c cm []) q in
  if percentage then 100 * (m - o) / o else m - o.
Proof. exact @quantile_bias_formula. Qed.
Print Assumptions C20_quantile_bias_formula.

Theorem C20_self_bias_zero : forall percentage obs,
  Forall (fun b => b == 0) (mean_bias percentage obs obs).
Proof. exact @self_bias_zero. Qed.
Print Assumptions C20_self_bias_zero.

Theorem C20_self_quantile_bias_zero : forall percentage q obs,
  Forall (fun b => b == 0) (quantile_bias percentage q obs obs).
Proof. exact @self_quantile_bias_zero. Qed.
Print Assumptions C20_self_quantile_bias_zero.

Theorem C20_yearly_chunks : forall counts col,
  counts <> [] -> length (yearly_exceedances counts col) = length counts.
Proof. exact @yearly_chunks. Qed.
Print Assumptions C20_yearly_chunks.

Theorem C20_yearly_conserves : forall counts col,
  fold_right Nat.add 0%nat (yearly_exceedances counts col) = count col.
Proof. exact @yearly_conserves. Qed.
Print Assumptions C20_yearly_conserves.

Theorem C20_mean_yearly_is_total_over_years : forall counts col,
  counts <> [] ->
  mean_yearly_exceedances counts col == inject_Z (Z.of_nat (count col)) / inject_Z (Z.of_nat (length counts)).
Proof. exact @mean_yearly_is_total_over_years. Qed.
Print Assumptions C20_mean_yearly_is_total_over_years.

Theorem C20_self_trend_bias_zero : forall mult v f,
  Forall (fun b => b == 0) (mean_trend_bias mult v f v f).
Proof. exact @self_trend_bias_zero. Qed.
Print Assumptions C20_self_trend_bias_zero.

Theorem C20_trend_bias_formula : forall mult raw_v raw_f bc_v bc_f c,
  length raw_v = length raw_f -> length bc_v = length bc_f -> length raw_v = length bc_v -> (c < length raw_v)%nat ->
  nth c (mean_trend_bias mult raw_v raw_f bc_v bc_f) 0 =
  let tr := fun a b => if mult then b / a else b - a in
  let bc := tr (QL.qmean (nth c bc_v [])) (QL.qmean (nth c bc_f [])) in
  let raw := tr (QL.qmean (nth c raw_v [])) (QL.qmean (nth c raw_f [])) in
  100 * (bc - raw) / raw.
Proof. exact @trend_bias_formula. Qed.
Print Assumptions C20_trend_bias_formula.

Theorem C20_metrics_trend_bias_slots : forall mult p_raw_v p_raw_f p_bc_v p_bc_f out,
  metrics_trend_bias mult p_raw_v p_raw_f p_bc_v p_bc_f = Some out ->
  out = trend_bias_of (trend mult p_bc_v p_bc_f) (trend mult p_raw_v p_raw_f).
Proof. exact @metrics_trend_bias_slots. Qed.
Print Assumptions C20_metrics_trend_bias_slots.

Theorem C20_quantile_trend_defined : forall mult q bc_v bc_f,
  quantile_trend mult q bc_v bc_f = None <-> (mult = true /\ all_nonzero (gquant q bc_v) = false).
Proof. exact @quantile_trend_defined. Qed.
Print Assumptions C20_quantile_trend_defined.

Theorem C20_chi_self_one : forall m,
  (0 < count m)%nat -> exists v, chi m m = Some v /\ v == 1.
Proof. exact @chi_self_one. Qed.
Print Assumptions C20_chi_self_one.

Theorem C20_chi_range : forall m1 m2 v,
  length m1 = length m2 -> chi m1 m2 = Some v -> 0 <= v <= 1.
Proof. exact @chi_range. Qed.
Print Assumptions C20_chi_range.

