(** C06 — values stay attached to their time steps (time-order equivariance).
    Property theorems only; window functions REGENERATED, scatter loop Model/Driver.v (K3). *)
From Coq Require Import QArith ZArith List Bool Permutation.
From Coq Require String.
From IV Require Import NP GenWindows GenScalars Dist RatLS Grid Driver Driver_proofs Driver_corollaries C06_proofs C06_instances Ecdf SortedPerm C06_qdm MonthsDriver_proofs MonthsDriver_order.
Import ListNotations.
Open Scope Z_scope.

(** window centres depend on the set of days present, not on their order *)
Theorem C06_centres_order_free : forall S d d', Permutation d d' -> days_window_centers S d = days_window_centers S d'.
Proof. exact centers_perm. Qed.
Print Assumptions C06_centres_order_free.

(** re-ordering a dated series re-orders each of its window slices (the slice is a filter of the
    dated values by day-of-year membership) *)
Theorem C06_slice_perm : forall (T : Type) L (days days' : list Z) (x x' : list T) c,
  length x = length days -> length x' = length days' ->
  Permutation (combine days x) (combine days' x') ->
  Permutation (NP.take x (days_indices_in_window L days c)) (NP.take x' (days_indices_in_window L days' c)).
Proof. exact slice_perm. Qed.
Print Assumptions C06_slice_perm.

(** for a pointwise per-window method (value-wise function g whose calibration arguments are
    order-free): the output at index k is F (day at k) (value at k) *)
Theorem C06_pointwise_output : forall (T V : Type) (g : list T -> list T -> list T -> T -> V),
  (forall o o' h h' f f' x, Permutation o o' -> Permutation h h' -> Permutation f f' -> g o h f x = g o' h' f' x) ->
  forall (L S : Z), 0 < S -> S <= L -> S mod 2 = 1 ->
  forall dobs dhist dfut (obs hist fut : list T), (forall d, In d dfut -> 1 <= d <= 366) -> length fut = length dfut ->
  exists out, driver_rw V L S dobs dhist dfut obs hist fut (Wg T V g) = Some out /\ length out = length dfut /\
    forall k, 0 <= k < Z.of_nat (length dfut) ->
      exists x, nth_error fut (Z.to_nat k) = Some x /\
                nth (Z.to_nat k) out None = Some (F T V g L S dobs dhist dfut obs hist fut (nth (Z.to_nat k) dfut 0) x).
Proof. exact pointwise_output. Qed.
Print Assumptions C06_pointwise_output.

(** ... and any re-ordering of obs, cm_hist, cm_future together with their time arrays leaves the
    debiased value of every dated cm_future value unchanged: the output is permuted like cm_future *)
Theorem C06_order_equivariance : forall (T V : Type) (g : list T -> list T -> list T -> T -> V),
  (forall o o' h h' f f' x, Permutation o o' -> Permutation h h' -> Permutation f f' -> g o h f x = g o' h' f' x) ->
  forall (L S : Z), 0 < S -> S <= L -> S mod 2 = 1 ->
  forall dobs dhist dfut (obs hist fut : list T) dobs' dhist' dfut' (obs' hist' fut' : list T),
  (forall d, In d dfut -> 1 <= d <= 366) ->
  length obs = length dobs -> length obs' = length dobs' -> length hist = length dhist -> length hist' = length dhist' ->
  length fut = length dfut -> length fut' = length dfut' ->
  Permutation (combine dobs obs) (combine dobs' obs') -> Permutation (combine dhist hist) (combine dhist' hist') ->
  Permutation (combine dfut fut) (combine dfut' fut') ->
  exists out out', driver_rw V L S dobs dhist dfut obs hist fut (Wg T V g) = Some out /\
                   driver_rw V L S dobs' dhist' dfut' obs' hist' fut' (Wg T V g) = Some out' /\
    forall k k', 0 <= k < Z.of_nat (length dfut) -> 0 <= k' < Z.of_nat (length dfut') ->
      nth (Z.to_nat k) dfut 0 = nth (Z.to_nat k') dfut' 0 ->
      nth_error fut (Z.to_nat k) = nth_error fut' (Z.to_nat k') ->
      nth (Z.to_nat k) out None = nth (Z.to_nat k') out' None.
Proof. exact order_equivariance. Qed.
Print Assumptions C06_order_equivariance.

(** ... instantiated at the REGENERATED per-window methods (GenScalars): the conclusion of
    C06_order_equivariance holds for LinearScaling (both delta types), parametric QuantileMapping
    (all three detrending modes) and ECDFM, for every distribution whose fit does not depend on the
    order of the sample; the rational location-scale family of the correspondence runs is one. *)
Import Coq.Strings.String.
Theorem C06_linear_scaling_additive : forall L S, 0 < S -> S <= L -> S mod 2 = 1 ->
  order_equivariant L S (fun o h f => unwrap (GenScalars.ls_apply_on_window "additive"%string o h f)).
Proof. exact ls_add_order_equivariant. Qed.
Print Assumptions C06_linear_scaling_additive.

Theorem C06_linear_scaling_multiplicative : forall L S, 0 < S -> S <= L -> S mod 2 = 1 ->
  order_equivariant L S (fun o h f => unwrap (GenScalars.ls_apply_on_window "multiplicative"%string o h f)).
Proof. exact ls_mul_order_equivariant. Qed.
Print Assumptions C06_linear_scaling_multiplicative.

Theorem C06_quantile_mapping_parametric : forall L S, 0 < S -> S <= L -> S mod 2 = 1 ->
  forall (P : Type) (D : Dist.dist P), (forall l l', Permutation l l' -> Dist.fit D l = Dist.fit D l') ->
  forall thr,
  order_equivariant L S (fun o h f => unwrap (GenScalars.qm_apply_on_window "no_detrending"%string "parametric"%string D thr o h f)) /\
  order_equivariant L S (fun o h f => unwrap (GenScalars.qm_apply_on_window "additive"%string "parametric"%string D thr o h f)) /\
  order_equivariant L S (fun o h f => unwrap (GenScalars.qm_apply_on_window "multiplicative"%string "parametric"%string D thr o h f)).
Proof.
  intros L S H1 H2 H3 P D Hf thr. split; [|split].
  - exact (qm_param_order_equivariant L S H1 H2 H3 D Hf thr).
  - exact (qm_param_detrended_order_equivariant L S H1 H2 H3 D Hf thr).
  - exact (qm_param_mult_detrended_order_equivariant L S H1 H2 H3 D Hf thr).
Qed.
Print Assumptions C06_quantile_mapping_parametric.

Theorem C06_ecdfm : forall L S, 0 < S -> S <= L -> S mod 2 = 1 ->
  forall (P : Type) (D : Dist.dist P), (forall l l', Permutation l l' -> Dist.fit D l = Dist.fit D l') ->
  forall thr, order_equivariant L S (fun o h f => GenScalars.ecdfm_apply_on_window D thr o h f).
Proof. intros L S H1 H2 H3 P D Hf thr. exact (ecdfm_order_equivariant L S H1 H2 H3 D Hf thr). Qed.
Print Assumptions C06_ecdfm.

Theorem C06_fit_hypothesis_satisfiable : forall l l', Permutation l l' -> Dist.fit RatLS.ratls l = Dist.fit RatLS.ratls l'.
Proof. exact ratls_fit_perm. Qed.
Print Assumptions C06_fit_hypothesis_satisfiable.

(** DeltaChange (the loop runs over obs, the output follows obs): the same statement with obs in the role of the
    adjusted series, for both delta types -- obtained from the RunningWindowDebiaser theorem by exchanging roles *)
Theorem C06_delta_change_additive : forall L S, 0 < S -> S <= L -> S mod 2 = 1 ->
  order_equivariant_dc L S (fun o h f => unwrap (GenScalars.dc_apply_on_window "additive" o h f)).
Proof. exact dc_add_order_equivariant. Qed.
Print Assumptions C06_delta_change_additive.

Theorem C06_delta_change_multiplicative : forall L S, 0 < S -> S <= L -> S mod 2 = 1 ->
  order_equivariant_dc L S (fun o h f => unwrap (GenScalars.dc_apply_on_window "multiplicative" o h f)).
Proof. exact dc_mul_order_equivariant. Qed.
Print Assumptions C06_delta_change_multiplicative.

(** QuantileDeltaMapping (absolute, either ECDF method, fits from the window's obs / cm_hist, year window off): the
    quantile of a future value within its own window sample does not depend on the storage order of the sample
    (the ECDF of a sample is invariant under permutations: two sorted permutations of one another agree) *)
Theorem C06_ecdf_order_free : forall m x x' y, m = step_function \/ m = linear_interpolation -> Permutation x x' -> ecdf m x y = ecdf m x' y.
Proof. exact ecdf_perm. Qed.
Print Assumptions C06_ecdf_order_free.

Theorem C06_quantile_delta_mapping : forall L S, 0 < S -> S <= L -> S mod 2 = 1 ->
  forall (P : Type) (D : Dist.dist P), (forall l l', Permutation l l' -> Dist.fit D l = Dist.fit D l') ->
  forall em t cth, em = step_function \/ em = linear_interpolation -> order_equivariant L S (W_qdm D em t cth).
Proof. intros L S H1 H2 H3 P D Hf em t cth Hem. exact (qdm_order_equivariant L S H1 H2 H3 D Hf em t cth Hem). Qed.
Print Assumptions C06_quantile_delta_mapping.

(** ISIMIP's month mode (running_window_mode = False; Model/Driver.v months_driver, correspondence K20): for every
    value-wise pipeline whose calibration arguments are order-free, any re-ordering of obs, cm_hist, cm_future together
    with their month arrays leaves the value of every dated cm_future value unchanged *)
Theorem C06_month_mode_order_equivariance : forall (T V : Type) (g : list T -> list T -> list T -> T -> V),
  (forall o o' h h' f f' x, Permutation o o' -> Permutation h h' -> Permutation f f' -> g o h f x = g o' h' f' x) ->
  forall mo mh mf (obs hist fut : list T) mo' mh' mf' (obs' hist' fut' : list T),
  (forall m, In m mf -> 1 <= m <= 12) ->
  List.length obs = List.length mo -> List.length obs' = List.length mo' -> List.length hist = List.length mh -> List.length hist' = List.length mh' ->
  List.length fut = List.length mf -> List.length fut' = List.length mf' ->
  Permutation (combine mo obs) (combine mo' obs') -> Permutation (combine mh hist) (combine mh' hist') ->
  Permutation (combine mf fut) (combine mf' fut') ->
  exists out out', months_driver V mo mh mf obs hist fut (fun o h f => map (g o h f) f) = Some out /\
                   months_driver V mo' mh' mf' obs' hist' fut' (fun o h f => map (g o h f) f) = Some out' /\
    forall k k', (k < List.length mf)%nat -> (k' < List.length mf')%nat -> nth k mf 0 = nth k' mf' 0 -> nth_error fut k = nth_error fut' k' ->
      nth k out None = nth k' out' None.
Proof. exact months_order_equivariance. Qed.
Print Assumptions C06_month_mode_order_equivariance.
