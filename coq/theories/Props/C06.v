(** C06 — values stay attached to their time steps (time-order equivariance).
    Property theorems only; window functions REGENERATED, scatter loop Model/Driver.v (K3). *)
From Coq Require Import ZArith List Bool Permutation.
From IV Require Import NP GenWindows Grid Driver Driver_proofs Driver_corollaries C06_proofs.
Import ListNotations.
Open Scope Z_scope.

(** window centres depend on the set of days present, not on their order *)
Theorem C06_centres_order_free : forall S d d', Permutation d d' -> days_window_centers S d = days_window_centers S d'.
Proof. exact centers_perm. Qed.
Print Assumptions C06_centres_order_free.

(** re-ordering a dated series re-orders each of its window slices (the slice is a filter of the
    dated values by day-of-year membership) *)
Theorem C06_slice_perm : forall (T : Type) L (days days' : list Z) (x x' : list T) c,
  length x = length days -> length x' = length days' ->
  Permutation (combine days x) (combine days' x') ->
  Permutation (NP.take x (days_indices_in_window L days c)) (NP.take x' (days_indices_in_window L days' c)).
Proof. exact slice_perm. Qed.
Print Assumptions C06_slice_perm.

(** for a pointwise per-window method (value-wise function g whose calibration arguments are
    order-free): the output at index k is F (day at k) (value at k) *)
Theorem C06_pointwise_output : forall (T V : Type) (g : list T -> list T -> list T -> T -> V),
  (forall o o' h h' f f' x, Permutation o o' -> Permutation h h' -> Permutation f f' -> g o h f x = g o' h' f' x) ->
  forall (L S : Z), 0 < S -> S <= L -> S mod 2 = 1 ->
  forall dobs dhist dfut (obs hist fut : list T), (forall d, In d dfut -> 1 <= d <= 366) -> length fut = length dfut ->
  exists out, driver_rw V L S dobs dhist dfut obs hist fut (Wg T V g) = Some out /\ length out = length dfut /\
    forall k, 0 <= k < Z.of_nat (length dfut) ->
      exists x, nth_error fut (Z.to_nat k) = Some x /\
                nth (Z.to_nat k) out None = Some (F T V g L S dobs dhist dfut obs hist fut (nth (Z.to_nat k) dfut 0) x).
Proof. exact pointwise_output. Qed.
Print Assumptions C06_pointwise_output.

(** ... and any re-ordering of obs, cm_hist, cm_future together with their time arrays leaves the
    debiased value of every dated cm_future value unchanged: the output is permuted like cm_future *)
Theorem C06_order_equivariance : forall (T V : Type) (g : list T -> list T -> list T -> T -> V),
  (forall o o' h h' f f' x, Permutation o o' -> Permutation h h' -> Permutation f f' -> g o h f x = g o' h' f' x) ->
  forall (L S : Z), 0 < S -> S <= L -> S mod 2 = 1 ->
  forall dobs dhist dfut (obs hist fut : list T) dobs' dhist' dfut' (obs' hist' fut' : list T),
  (forall d, In d dfut -> 1 <= d <= 366) ->
  length obs = length dobs -> length obs' = length dobs' -> length hist = length dhist -> length hist' = length dhist' ->
  length fut = length dfut -> length fut' = length dfut' ->
  Permutation (combine dobs obs) (combine dobs' obs') -> Permutation (combine dhist hist) (combine dhist' hist') ->
  Permutation (combine dfut fut) (combine dfut' fut') ->
  exists out out', driver_rw V L S dobs dhist dfut obs hist fut (Wg T V g) = Some out /\
                   driver_rw V L S dobs' dhist' dfut' obs' hist' fut' (Wg T V g) = Some out' /\
    forall k k', 0 <= k < Z.of_nat (length dfut) -> 0 <= k' < Z.of_nat (length dfut') ->
      nth (Z.to_nat k) dfut 0 = nth (Z.to_nat k') dfut' 0 ->
      nth_error fut (Z.to_nat k) = nth_error fut' (Z.to_nat k') ->
      nth (Z.to_nat k) out None = nth (Z.to_nat k') out' None.
Proof. exact order_equivariance. Qed.
Print Assumptions C06_order_equivariance.
