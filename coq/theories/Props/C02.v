(** C02 — trend preservation: a uniform climate-change signal passes through unchanged.
    Property theorems only, about the per-window methods REGENERATED from the source (Gen/GenScalars.v;
    translation validated by correspondence K5).  [eql] = elementwise equality of rationals. *)
From Coq Require Import QArith Qabs List Bool String.
From IV Require Import QL Dist Ecdf QListFacts GenUtils GenScalars RatLS C16_compose C03_proofs C02_proofs C04_proofs C01_proofs C09_proofs RatLS_proofs Affine Affine_debiasers Driver Driver_rel ApplyLocation_units ApplyLocation_param SDM SDM_proofs IsimipStep5 IsimipStep5_proofs NP IsimipStep3 IsimipStep3_proofs IsimipWindow IsimipWindow_proofs GenWindows.
Import ListNotations.
Open Scope Q_scope.

Theorem C02_ls_shift_equivariant : forall o h f c,
  out_eql (ls_apply_on_window "additive" o h (shift c f))
          (option_map (shift c) (ls_apply_on_window "additive" o h f)).
Proof. exact @ls_shift_equivariant. Qed.
Print Assumptions C02_ls_shift_equivariant.

Theorem C02_ls_scale_equivariant : forall o h f k,
  out_eql (ls_apply_on_window "multiplicative" o h (scale k f))
          (option_map (scale k) (ls_apply_on_window "multiplicative" o h f)).
Proof. exact @ls_scale_equivariant. Qed.
Print Assumptions C02_ls_scale_equivariant.

Theorem C02_dc_shift_equivariant : forall o h f c,
  f <> [] ->
  out_eql (dc_apply_on_window "additive" o h (shift c f))
          (option_map (shift c) (dc_apply_on_window "additive" o h f)).
Proof. exact @dc_shift_equivariant. Qed.
Print Assumptions C02_dc_shift_equivariant.

Theorem C02_dc_scale_equivariant : forall o h f k,
  f <> [] -> ~ QL.qmean h == 0 ->
  out_eql (dc_apply_on_window "multiplicative" o h (scale k f))
          (option_map (scale k) (dc_apply_on_window "multiplicative" o h f)).
Proof. exact @dc_scale_equivariant. Qed.
Print Assumptions C02_dc_scale_equivariant.

Theorem C02_ls_signal : forall o h f,
  f <> [] ->
  exists out, ls_apply_on_window "additive" o h f = Some out /\
    QL.qmean out - QL.qmean o == QL.qmean f - QL.qmean h.
Proof. exact @ls_signal. Qed.
Print Assumptions C02_ls_signal.

Theorem C02_dc_signal : forall o h f,
  o <> [] ->
  exists out, dc_apply_on_window "additive" o h f = Some out /\
    QL.qmean out - QL.qmean o == QL.qmean f - QL.qmean h.
Proof. exact @dc_signal. Qed.
Print Assumptions C02_dc_signal.

Theorem C02_ls_signal_multiplicative : forall o h f,
  f <> [] -> ~ QL.qmean h == 0 ->
  exists out, ls_apply_on_window "multiplicative" o h f = Some out /\
    QL.qmean out * QL.qmean h == QL.qmean o * QL.qmean f.
Proof. exact @ls_signal_multiplicative. Qed.
Print Assumptions C02_ls_signal_multiplicative.

Theorem C02_qm_param_shift_equivariant : forall (P : Type) (D : dist P) t o h f c, dist_proper D -> f <> [] ->
  out_eql (qm_apply_on_window "additive" "parametric" D t o h (shift c f))
          (option_map (shift c) (qm_apply_on_window "additive" "parametric" D t o h f)).
Proof. exact @qm_param_shift_equivariant. Qed.
Print Assumptions C02_qm_param_shift_equivariant.

Theorem C02_qm_param_scale_equivariant : forall (P : Type) (D : dist P) t o h f k, dist_proper D -> f <> [] ->
  ~ k == 0 -> ~ QL.qmean f == 0 -> ~ QL.qmean h == 0 ->
  out_eql (qm_apply_on_window "multiplicative" "parametric" D t o h (scale k f))
          (option_map (scale k) (qm_apply_on_window "multiplicative" "parametric" D t o h f)).
Proof. exact @qm_param_scale_equivariant. Qed.
Print Assumptions C02_qm_param_scale_equivariant.

Theorem C02_ecdfm_shift_equivariant : forall (P : Type) (D : dist P) t o h f c,
  dist_proper D -> fit_shift_equivariant D -> f <> [] ->
  eql (ecdfm_apply_on_window D t o h (shift c f)) (shift c (ecdfm_apply_on_window D t o h f)).
Proof. exact @ecdfm_shift_equivariant. Qed.
Print Assumptions C02_ecdfm_shift_equivariant.

(** the hypotheses are satisfiable: the rational location-scale family *)
Theorem C02_hypotheses_satisfiable : dist_proper ratls.
Proof. exact ratls_proper. Qed.
Print Assumptions C02_hypotheses_satisfiable.

Theorem C02_qdm_abs_shift_equivariant : forall (P : Type) (D : dist P) t cth (fo fh : P) f c,
  out_eql (qdm_apply_debiasing_steps step_function t "absolute" D false cth (shift c f) fo fh)
          (option_map (shift c) (qdm_apply_debiasing_steps step_function t "absolute" D false cth f fo fh)).
Proof. exact @qdm_abs_shift_equivariant. Qed.
Print Assumptions C02_qdm_abs_shift_equivariant.


(** ---- the empirical-CDF methods: a constant c added to every value of cm_future changes every debiased
    value by exactly c ([ARL 1 c out out'] : out'_i == out_i + c), for the step and the interpolated ECDF and
    all nine inverse-CDF methods (Proofs/Affine.v, Affine_debiasers.v) *)
Theorem C02_cdft_trend_preserving : forall em im, em = step_function \/ em = linear_interpolation ->
  forall c obs hist fut, obs <> [] -> hist <> [] -> fut <> [] ->
  exists out out', cdft_apply_mapping "additive" em im obs hist fut = Some out /\
                   cdft_apply_mapping "additive" em im obs hist (map (fun x => x + c) fut) = Some out' /\ Affine.ARL 1 c out out'.
Proof. exact Affine_debiasers.cdft_trend_preserving. Qed.
Print Assumptions C02_cdft_trend_preserving.

Theorem C02_qm_nonparametric_detrended_trend_preserving : forall (P : Type) (D : dist P) thr c obs hist fut,
  obs <> [] -> hist <> [] -> fut <> [] ->
  exists out out', qm_apply_on_window "additive" "nonparametric" D thr obs hist fut = Some out /\
                   qm_apply_on_window "additive" "nonparametric" D thr obs hist (map (fun x => x + c) fut) = Some out' /\ Affine.ARL 1 c out out'.
Proof. exact @Affine_debiasers.qm_nonparam_trend_preserving. Qed.
Print Assumptions C02_qm_nonparametric_detrended_trend_preserving.

Theorem C02_qdm_trend_preserving_both_ecdfs : forall (P : Type) (D : dist P) em t cth, em = step_function \/ em = linear_interpolation ->
  forall c f fo fh,
  exists out out', qdm_apply_debiasing_steps em t "absolute" D false cth f fo fh = Some out /\
                   qdm_apply_debiasing_steps em t "absolute" D false cth (map (fun x => x + c) f) fo fh = Some out' /\ Affine.ARL 1 c out out'.
Proof. exact @Affine_debiasers.qdm_abs_trend_preserving. Qed.
Print Assumptions C02_qdm_trend_preserving_both_ecdfs.

(** ---- through apply_location with a running window over the year: a constant added to cm_future alone
    passes through the window loop, for any per-window method with that property (instantiated at
    LinearScaling); side condition: each window that is used holds data of all three series *)
Theorem C02_trend_preserved_through_windows : forall (W : list Q -> list Q -> list Q -> list Q) c,
  (forall o o' h h' f f', o <> [] -> h <> [] -> f <> [] -> Affine.ARL 1 0 o o' -> Affine.ARL 1 0 h h' -> Affine.ARL 1 c f f' -> Affine.ARL 1 c (W o h f) (W o' h' f')) ->
  forall L S dobs dhist dfut obs hist fut, Driver_rel.windows_nonempty L S dfut dobs dhist dfut obs hist fut ->
  ApplyLocation_units.same_in_other_unit 1 c (Driver.driver_rw Q L S dobs dhist dfut obs hist fut W)
                                             (Driver.driver_rw Q L S dobs dhist dfut obs hist (map (fun x => x + c) fut) W).
Proof. exact ApplyLocation_units.trend_preserved_through_windows. Qed.
Print Assumptions C02_trend_preserved_through_windows.

Theorem C02_linear_scaling_apply_location : forall c L S dobs dhist dfut obs hist fut,
  Driver_rel.windows_nonempty L S dfut dobs dhist dfut obs hist fut ->
  ApplyLocation_units.same_in_other_unit 1 c (Driver.driver_rw Q L S dobs dhist dfut obs hist fut (ApplyLocation_units.W_ls "additive"))
                                             (Driver.driver_rw Q L S dobs dhist dfut obs hist (map (fun x => x + c) fut) (ApplyLocation_units.W_ls "additive")).
Proof. exact ApplyLocation_units.ls_trend_preserved_through_windows. Qed.
Print Assumptions C02_linear_scaling_apply_location.

(** ScaledDistributionMapping (absolute; hand model Model/SDM.v, tied to the code by correspondence K15), for any
    distribution: a constant added to cm_future changes every debiased value by exactly that constant *)
Theorem C02_sdm_absolute_trend_preserving : forall (P : Type) (D : dist P) (scale_of : P -> Q) c obs hist fut, fut <> [] ->
  Forall2 (fun u v => v == u + c) (sdm_absolute D scale_of obs hist fut) (sdm_absolute D scale_of obs hist (map (fun x => x + c) fut)).
Proof. exact @sdm_absolute_trend_preserving. Qed.
Print Assumptions C02_sdm_absolute_trend_preserving.

Theorem C02_delta_change_apply_location : forall c L S dobs dhist dfut obs hist fut,
  Driver_rel.windows_nonempty L S dobs dobs dhist dfut obs hist fut ->
  ApplyLocation_units.same_in_other_unit 1 c (Driver.driver_dc Q L S dobs dhist dfut obs hist fut (ApplyLocation_units.W_dc "additive"))
                                             (Driver.driver_dc Q L S dobs dhist dfut obs hist (map (fun x => x + c) fut) (ApplyLocation_units.W_dc "additive")).
Proof. exact ApplyLocation_units.dc_trend_preserved_through_windows. Qed.
Print Assumptions C02_delta_change_apply_location.

(** ECDFM and additively detrended parametric QuantileMapping through apply_location: for any distribution whose fit
    follows a shift of the sample (and respects ==) on the admissible samples; satisfiable by the rational family
    (C04_fit_unit_change_satisfiable with a = 1) *)
Theorem C02_ecdfm_apply_location : forall (P : Type) (D : dist P) c good,
  fit_unit_change D 1 c good -> fit_unit_change D 1 0 good ->
  forall thr L S dobs dhist dfut obs hist fut, Driver_rel.windows_ok good good good L S dfut dobs dhist dfut obs hist fut ->
  ApplyLocation_units.same_in_other_unit 1 c (Driver.driver_rw Q L S dobs dhist dfut obs hist fut (W_ecdfm D thr))
                                             (Driver.driver_rw Q L S dobs dhist dfut obs hist (map (fun x => x + c) fut) (W_ecdfm D thr)).
Proof. intros P D c good H1 H0. exact (ecdfm_trend_preserved_through_windows D c good H1 H0). Qed.
Print Assumptions C02_ecdfm_apply_location.

Theorem C02_qm_parametric_detrended_apply_location : forall (P : Type) (D : dist P) c good,
  fit_unit_change D 1 0 good -> (forall l, good l -> l <> []) ->
  forall thr L S dobs dhist dfut obs hist fut, Driver_rel.windows_ok good good good L S dfut dobs dhist dfut obs hist fut ->
  ApplyLocation_units.same_in_other_unit 1 c (Driver.driver_rw Q L S dobs dhist dfut obs hist fut (W_qm_param_detrended D thr))
                                             (Driver.driver_rw Q L S dobs dhist dfut obs hist (map (fun x => x + c) fut) (W_qm_param_detrended D thr)).
Proof. intros P D c good H0 Hn. exact (qm_param_detrended_trend_preserved_through_windows D c good H0 Hn). Qed.
Print Assumptions C02_qm_parametric_detrended_apply_location.

(** ISIMIP step 5, additive trend preservation (hand model, K17): a constant added to cm_future is added to every
    pseudo future observation, for both modelled ECDFs and all nine inverse-CDF methods *)
Theorem C02_isimip_step5_additive : forall em im a b c oh ch cf, em = step_function \/ em = linear_interpolation -> oh <> [] -> cf <> [] ->
  Affine.ARL 1 c (step5 TAdditive em im a b oh ch cf) (step5 TAdditive em im a b oh ch (map (fun x => x + c) cf)).
Proof. exact step5_additive_trend. Qed.
Print Assumptions C02_isimip_step5_additive.

(** ISIMIP steps 3 and 7 (hand model Model/IsimipStep3.v, correspondence K21; scipy's significance decision is an
    input of the model): a uniform shift of the series leaves the removed trend unchanged and shifts the detrended
    series by the same constant, and step 7 adds back exactly what step 3 removed — for every set of years (gaps,
    unequal numbers of values, any storage order) *)
Theorem C02_isimip_step3_trend_shift_invariant : forall sig c years x, years <> [] -> List.length x = List.length years ->
  eql (step3_trend sig years (map (fun v => v + c) x)) (step3_trend sig years x).
Proof. exact step3_trend_shift. Qed.
Print Assumptions C02_isimip_step3_trend_shift_invariant.

Theorem C02_isimip_step3_commutes_with_shift : forall sig c years x, years <> [] -> List.length x = List.length years ->
  eql (step3_remove sig years (map (fun v => v + c) x)) (map (fun v => v + c) (step3_remove sig years x)).
Proof. exact step3_remove_shift. Qed.
Print Assumptions C02_isimip_step3_commutes_with_shift.

Theorem C02_isimip_step7_restores_step3 : forall sig years x, List.length x = List.length years ->
  eql (step7_restore (step3_remove sig years x) (step3_trend sig years x)) x.
Proof. exact step7_restores. Qed.
Print Assumptions C02_isimip_step7_restores_step3.

(** ISIMIP's window pipeline for an unbounded additive variable (tas, psl, rlds; Model/IsimipWindow.v = steps 3, 5, 6
    (parametric value adjustment), 7 composed; correspondence K22 against the real ISIMIP._apply_on_window): a constant
    added to cm_future — exactly or up to == — is added to every debiased value of the window, for any distribution
    whose fit behaves like a location-scale family under a shift ... *)
Theorem C02_isimip_window_trend_preserving : forall (P : Type) (D : dist P) (c : Q) (good : list Q -> Prop),
  fit_unit_change D 1 c good -> (forall l, good l -> l <> []) ->
  forall em im thr, em = step_function \/ em = linear_interpolation ->
  forall so sh sf yo yh yf obs hist fut fut',
  yf <> [] -> List.length fut = List.length yf ->
  step3_remove so yo obs <> [] -> step3_remove sh yh hist <> [] ->
  good (step3_remove sf yf fut) ->
  good (step5 TAdditive em im 0 0 (step3_remove so yo obs) (step3_remove sh yh hist) (step3_remove sf yf fut)) ->
  ARL 1 c fut fut' ->
  ARL 1 c (isimip_window D em im thr so sh sf yo yh yf obs hist fut) (isimip_window D em im thr so sh sf yo yh yf obs hist fut').
Proof. intros P D c good H1 H2 em im thr H3. exact (isimip_window_trend D c good H1 H2 em im thr H3). Qed.
Print Assumptions C02_isimip_window_trend_preserving.

(** ... such as the rational family used in K22; and the hypotheses hold of a concrete window *)
Theorem C02_isimip_window_trend_preserving_ratls : forall c em im thr so sh sf yo yh yf obs hist fut fut',
  em = step_function \/ em = linear_interpolation ->
  yf <> [] -> List.length fut = List.length yf ->
  step3_remove so yo obs <> [] -> step3_remove sh yh hist <> [] ->
  ratls_good (step3_remove sf yf fut) ->
  ratls_good (step5 TAdditive em im 0 0 (step3_remove so yo obs) (step3_remove sh yh hist) (step3_remove sf yf fut)) ->
  ARL 1 c fut fut' ->
  ARL 1 c (isimip_window ratls em im thr so sh sf yo yh yf obs hist fut) (isimip_window ratls em im thr so sh sf yo yh yf obs hist fut').
Proof. exact isimip_window_trend_ratls. Qed.
Print Assumptions C02_isimip_window_trend_preserving_ratls.

Theorem C02_isimip_window_hypotheses_satisfiable :
  ex_yo <> [] /\ List.length ex_fut = List.length ex_yo /\
  step3_remove false ex_yo ex_obs <> [] /\ step3_remove false ex_yo ex_hist <> [] /\
  ratls_good (step3_remove true ex_yo ex_fut) /\
  ratls_good (step5 TAdditive linear_interpolation linear 0 0 (step3_remove false ex_yo ex_obs) (step3_remove false ex_yo ex_hist) (step3_remove true ex_yo ex_fut)) /\
  step3_trend true ex_yo ex_fut = [(-10 # 4); (-10 # 4); (10 # 4); (10 # 4)].
Proof. exact isimip_window_example. Qed.
Print Assumptions C02_isimip_window_hypotheses_satisfiable.

(** ... and through the running-window loop of ISIMIP.apply_location, whose windows receive the slices of values AND of
    years (dated values): a constant added to every cm_future value is added to every debiased value, provided every
    window that is used holds admissible samples and the significance decision of step 3 does not depend on a shift *)
Theorem C02_isimip_trend_preserved_through_windows : forall (P : Type) (D : dist P) (c : Q) (good : list Q -> Prop),
  fit_unit_change D 1 c good -> (forall l, good l -> l <> []) ->
  forall em im thr, em = step_function \/ em = linear_interpolation ->
  forall sigf : list Q -> list Z -> bool, (forall x x' y, ARL 1 c x x' -> sigf x' y = sigf x y) ->
  forall (L S : Z) (dobs dhist dfut : list Z) (obs hist fut fut' : list (Q * Z)),
  (forall ci, In ci (days_use S dfut) ->
     window_ok good em im sigf (NP.take obs (days_indices_in_window L dobs (fst ci))) (NP.take hist (days_indices_in_window L dhist (fst ci)))
               (NP.take fut (days_indices_in_window L dfut (fst ci)))) ->
  Forall2 (PR c) fut fut' ->
  orel (Forall2 (orel (AR 1 c))) (driver_rw Q L S dobs dhist dfut obs hist fut (W_isimip D em im thr sigf))
                                 (driver_rw Q L S dobs dhist dfut obs hist fut' (W_isimip D em im thr sigf)).
Proof. exact @isimip_trend_preserved_through_windows. Qed.
Print Assumptions C02_isimip_trend_preserved_through_windows.
