(** C08 — seasonal locality: a day is corrected only from data inside its window.
    Property theorems only; window functions REGENERATED from _running_window_mode.py, scatter
    loop modelled in Model/Driver.v (correspondence K3). *)
From Coq Require Import ZArith QArith List Bool.
From IV Require Import NP QL GenWindows Grid Driver Driver_proofs Driver_corollaries DriverCorr MonthsDriver_proofs C07_proofs Window_exact.
Import ListNotations.
Open Scope Z_scope.

(** for EVERY per-window method W (it only sees the slices), all day arrays, all odd S <= L with
    L/2 + S/2 < 183: if two input triples agree at every time step whose day of year is within
    L/2 + S/2 (circularly over the 366-day cycle) of the target step's day, the outputs at the
    target step are equal *)
Theorem C08_window_locality : forall (V : Type) (L S : Z), 0 < S -> S <= L -> S mod 2 = 1 ->
  forall (T : Type) (dobs dhist dfut : list Z) (obs hist fut obs' hist' fut' : list T)
         (W : list T -> list T -> list T -> list V),
  (forall d, In d dfut -> 1 <= d <= 366) -> (forall o h f, length (W o h f) = length f) ->
  length obs = length dobs -> length obs' = length dobs -> length hist = length dhist -> length hist' = length dhist ->
  length fut = length dfut -> length fut' = length dfut -> L / 2 + S / 2 < 183 ->
  forall k, 0 <= k < Z.of_nat (length dfut) ->
  let d := nth (Z.to_nat k) dfut 0 in
  (forall j, 0 <= j -> near L S dobs j d -> nth_error obs (Z.to_nat j) = nth_error obs' (Z.to_nat j)) ->
  (forall j, 0 <= j -> near L S dhist j d -> nth_error hist (Z.to_nat j) = nth_error hist' (Z.to_nat j)) ->
  (forall j, 0 <= j -> near L S dfut j d -> nth_error fut (Z.to_nat j) = nth_error fut' (Z.to_nat j)) ->
  exists out out', driver_rw V L S dobs dhist dfut obs hist fut W = Some out /\
                   driver_rw V L S dobs dhist dfut obs' hist' fut' W = Some out' /\
                   nth (Z.to_nat k) out None = nth (Z.to_nat k) out' None.
Proof. exact window_locality. Qed.
Print Assumptions C08_window_locality.

(** the calibration window of a centre reaches exactly L/2 days to each side (membership of the
    regenerated window range, wrap-around included) *)
Theorem C08_window_reach : forall L c v, L / 2 < 183 ->
  In v (NP.replace_eq (NP.zmod_list (NP.arange (c - L / 2) (c + L / 2 + 1) 1) (365 + 1)) 0 366) ->
  circ v c <= L / 2.
Proof. exact (fun L c v => window_within_halfwidth L 1 c v). Qed.
Print Assumptions C08_window_reach.

(** ... and it reaches ALL of them: the regenerated window range is EXACTLY the set of days of year within L/2
    (circularly over the 366-day cycle) of the centre — nothing outside is used, nothing inside is left out *)
Theorem C08_window_exact : forall L c v, 0 <= L / 2 -> L / 2 < 183 -> 1 <= v <= 366 ->
  (In v (NP.replace_eq (NP.zmod_list (NP.arange (c - L / 2) (c + L / 2 + 1) 1) (365 + 1)) 0 366) <->
   circ v c <= L / 2).
Proof. exact window_exact. Qed.
Print Assumptions C08_window_exact.

(** non-vacuity, across the turn of the year: with L = 31 the window of centre day 10 contains day 361 (distance 15)
    and not day 360 (distance 16) *)
Example C08_window_exact_wraps :
  0 <= 31 / 2 /\ 31 / 2 < 183 /\ circ 361 10 <= 31 / 2 /\ ~ circ 360 10 <= 31 / 2 /\
  In 361 (NP.replace_eq (NP.zmod_list (NP.arange (10 - 31 / 2) (10 + 31 / 2 + 1) 1) (365 + 1)) 0 366) /\
  ~ In 360 (NP.replace_eq (NP.zmod_list (NP.arange (10 - 31 / 2) (10 + 31 / 2 + 1) 1) (365 + 1)) 0 366).
Proof.
  assert (A : 0 <= 31 / 2) by (vm_compute; discriminate). assert (B : 31 / 2 < 183) by reflexivity.
  assert (C : circ 361 10 <= 31 / 2) by (vm_compute; discriminate).
  assert (D : ~ circ 360 10 <= 31 / 2) by (vm_compute; intro H; apply H; reflexivity).
  repeat split; try assumption.
  - apply (proj2 (window_exact 31 10 361 A B ltac:(split; vm_compute; discriminate))). exact C.
  - intro H. apply D. apply (proj1 (window_exact 31 10 360 A B ltac:(split; vm_compute; discriminate))). exact H.
Qed.

(** the time steps handed to a window's calibration are exactly those whose day of year is within L/2 of the centre *)
Theorem C08_window_indices_exact : forall L days c i, 0 <= L / 2 -> L / 2 < 183 -> (forall d, In d days -> 1 <= d <= 366) ->
  (In i (days_indices_in_window L days c) <->
   0 <= i < Z.of_nat (length days) /\ circ (nth (Z.to_nat i) days 0) c <= L / 2).
Proof. exact days_window_exact. Qed.
Print Assumptions C08_window_indices_exact.

(** tightness, by computation: with L = 5, S = 1 on days 1..20 the probe's output on day 10
    changes when obs on day 12 (distance L/2 = 2) changes, and does not when obs on day 13 changes *)
Example C08_window_uses_full_halfwidth :
  let days := NP.arange 1 21 1 in
  let base := map (fun d => inject_Z d) days in
  let bump := fun at_day => map (fun d => if (d =? at_day) then (1000 # 1)%Q else inject_Z d) days in
  let out := fun o => match run_rw 5 1 days days days o base base with Some l => nth 9 l 0%Q | None => 0%Q end in
  Qeq_bool (out base) (out (bump 12)) = false /\ Qeq_bool (out base) (out (bump 13)) = true.
Proof. vm_compute. split; reflexivity. Qed.

(** the month mode of ISIMIP (running_window_mode = False; Model/Driver.v months_driver, correspondence K20) is local
    in the same sense: for EVERY step pipeline W, the value of a time step depends only on the values the three series
    have in ITS month — changing anything in another month leaves it unchanged *)
Theorem C08_isimip_month_mode_local : forall (T V : Type) (mo mh mf : list Z) (obs hist fut obs' hist' fut' : list T)
    (W : list T -> list T -> list T -> list V) (k : nat),
  length fut = length mf -> length fut' = length mf -> (forall o h f, length (W o h f) = length f) ->
  (forall m, In m mf -> 1 <= m <= 12) -> (k < length mf)%nat ->
  let m := nth k mf 0 in
  NP.select obs (map (Z.eqb m) mo) = NP.select obs' (map (Z.eqb m) mo) ->
  NP.select hist (map (Z.eqb m) mh) = NP.select hist' (map (Z.eqb m) mh) ->
  NP.select fut (map (Z.eqb m) mf) = NP.select fut' (map (Z.eqb m) mf) ->
  forall out out', months_driver V mo mh mf obs hist fut W = Some out ->
    months_driver V mo mh mf obs' hist' fut' W = Some out' -> nth k out None = nth k out' None.
Proof. exact months_driver_local. Qed.
Print Assumptions C08_isimip_month_mode_local.
