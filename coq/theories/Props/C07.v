(** C07 — running windows adjust every time step exactly once, from a window containing it.
    Property theorems only, about the definitions REGENERATED from
    ibicus/utils/_running_window_mode.py (Gen/GenWindows.v). *)
From Coq Require Import ZArith List Bool Sorted.
From IV Require Import NP GenWindows C07_proofs Grid Driver Driver_proofs Driver_corollaries YearsDriver_proofs DriverSkip Calendar Calendar_proofs C07_calendar MonthsDriver_proofs Calendar_coverage.
Import ListNotations.
Open Scope Z_scope.

(** construction either raises (None) or delivers odd lengths with 0 < step <= length *)
Theorem C07_days_post_init : forall L S, 0 < L -> 0 < S ->
  match days_post_init L S with
  | Some (L', S') => L' mod 2 = 1 /\ S' mod 2 = 1 /\ 0 < S' <= L' /\ L <= L' <= L + 1 /\ S <= S' <= S + 1
  | None => (if S mod 2 =? 0 then S + 1 else S) > (if L mod 2 =? 0 then L + 1 else L)
  end.
Proof. exact days_post_init_spec. Qed.
Print Assumptions C07_days_post_init.

Theorem C07_years_post_init : forall L S, 0 < L -> 0 < S ->
  match years_post_init L S with
  | Some (L', S') => L' mod 2 = 1 /\ S' mod 2 = 1 /\ 0 < S' <= L' /\ L <= L' <= L + 1 /\ S <= S' <= S + 1
  | None => (if S mod 2 =? 0 then S + 1 else S) > (if L mod 2 =? 0 then L + 1 else L)
  end.
Proof. exact years_post_init_spec. Qed.
Print Assumptions C07_years_post_init.

(** for ANY array of days of the year (any length, order, calendar, gaps) and any odd step:
    every time step is in the adjust index set of exactly one window centre *)
Theorem C07_days_adjusted_exactly_once : forall S days i,
  0 < S -> S mod 2 = 1 -> (forall d, In d days -> 1 <= d <= 366) ->
  0 <= i < Z.of_nat (length days) ->
  length (filter (fun c => NP.zmem i (days_indices_to_adjust S days c)) (days_window_centers S days)) = 1%nat.
Proof. exact days_adjusted_exactly_once. Qed.
Print Assumptions C07_days_adjusted_exactly_once.

(** ... and that centre's calibration window (length L >= S, wrap-around over the year end
    included) contains the time step *)
Theorem C07_days_adjusted_in_window : forall L S days c i,
  0 < S -> S <= L -> (forall d, In d days -> 1 <= d <= 366) ->
  In i (days_indices_to_adjust S days c) -> In i (days_indices_in_window L days c).
Proof. exact days_adjusted_in_window. Qed.
Print Assumptions C07_days_adjusted_in_window.

(** the Boolean mask applied to the window result picks exactly the adjusted time steps, in
    order: the scatter [out[ia] = W(window)[mask]] has matching lengths and aligned values *)
Theorem C07_days_mask_selects : forall L S days c,
  0 < S -> S <= L -> (forall d, In d days -> 1 <= d <= 366) ->
  NP.select (days_indices_in_window L days c)
            (days_mask_adjust_in_window (days_indices_in_window L days c) (days_indices_to_adjust S days c))
  = days_indices_to_adjust S days c.
Proof. exact days_mask_selects. Qed.
Print Assumptions C07_days_mask_selects.

(** year windows: for ANY non-empty set of years (consecutive, leap-year-only, with gaps) every
    year between the first and last one lies in exactly one adjust range *)
Theorem C07_years_centers_cover : forall S ys y, 0 < S -> S mod 2 = 1 -> ys <> [] ->
  NP.zmin ys <= y <= NP.zmax ys ->
  exists c, In c (years_window_centers S ys) /\ In y (years_to_adjust S c) /\
    forall c', In c' (years_window_centers S ys) -> In y (years_to_adjust S c') -> c' = c.
Proof. exact years_centers_cover. Qed.
Print Assumptions C07_years_centers_cover.

Theorem C07_years_adjust_in_window : forall L S c y, 0 < S -> S <= L ->
  In y (years_to_adjust S c) -> In y (years_in_window L c).
Proof. exact years_adjust_in_window. Qed.
Print Assumptions C07_years_adjust_in_window.

Theorem C07_years_adjusted_exactly_once : forall S ys years i,
  0 < S -> S mod 2 = 1 -> ys <> [] -> (forall y, In y years -> NP.zmin ys <= y <= NP.zmax ys) ->
  (i < length years)%nat ->
  length (filter (fun c => NP.zmem (nth i years 0) (years_to_adjust S c)) (years_window_centers S ys)) = 1%nat.
Proof. exact years_adjusted_exactly_once. Qed.
Print Assumptions C07_years_adjusted_exactly_once.

(** the scatter loop (Model/Driver.v, correspondence K3) over the regenerated window functions:
    for every per-window result Wc aligned with the window, the loop never fails its length check
    and the value at every index k is the window result, at k's position in the window, of the
    UNIQUE centre adjusting k *)
Theorem C07_driver_spec : forall (V : Type) (L S : Z) (dA : list Z) (Wc : Z -> list V),
  0 < S -> S <= L -> (forall d, In d dA -> 1 <= d <= 366) -> S mod 2 = 1 ->
  (forall c, In c (days_window_centers S dA) -> length (Wc c) = length (days_indices_in_window L dA c)) ->
  exists out, driver V L S dA Wc = Some out /\ length out = length dA /\
    forall k, 0 <= k < Z.of_nat (length dA) ->
      exists c v, In c (days_window_centers S dA) /\ In k (days_indices_to_adjust S dA c) /\
        In k (days_indices_in_window L dA c) /\
        (forall c', In c' (days_window_centers S dA) -> In k (days_indices_to_adjust S dA c') -> c' = c) /\
        lookupZ V k (combine (days_indices_in_window L dA c) (Wc c)) = Some v /\ nth (Z.to_nat k) out None = Some v.
Proof. exact driver_spec. Qed.
Print Assumptions C07_driver_spec.

(** hence the returned series has a defined value at every time step *)
Theorem C07_driver_defined_everywhere : forall (V : Type) (L S : Z), 0 < S -> S <= L -> S mod 2 = 1 ->
  forall dA (Wc : Z -> list V), (forall d, In d dA -> 1 <= d <= 366) ->
  (forall c, In c (days_window_centers S dA) -> length (Wc c) = length (days_indices_in_window L dA c)) ->
  exists out, driver V L S dA Wc = Some out /\ length out = length dA /\
    forall k, 0 <= k < Z.of_nat (length dA) -> exists v, nth (Z.to_nat k) out None = Some v.
Proof. exact driver_defined_everywhere. Qed.
Print Assumptions C07_driver_defined_everywhere.

(** the year-window loop of CDFt / QuantileDeltaMapping inside one day window (Model/Driver.v years_driver over the
    REGENERATED year-window functions): for ANY list of years (gaps, leap-year-only sets, any storage order), any window
    length and odd step <= length, and any method returning one value per selected time step, the loop succeeds
    and every time step receives a value *)
Theorem C07_years_driver_defined_everywhere : forall (V : Type) (L S : Z), 0 < S -> S <= L -> S mod 2 = 1 ->
  forall years, years <> [] -> forall Wy : list bool -> list V, (forall m, length (Wy m) = ctrue m) ->
  exists out, years_driver V L S years Wy = Some out /\ length out = length years /\
    forall k, (k < length years)%nat -> exists v, nth k out None = Some v.
Proof. exact years_driver_defined_everywhere. Qed.
Print Assumptions C07_years_driver_defined_everywhere.

(** non-vacuity / sanity by computation: a leap year starting on 1 March (days 61..366, 1..60),
    S = 31, L = 91; and the sub-annual span 4..18 with S = L = 15 that the unrepaired formula missed *)
Definition covered_once_b (S : Z) (days : list Z) : bool :=
  forallb (fun i => Nat.eqb (length (filter (fun c => NP.zmem i (days_indices_to_adjust S days c))
                                            (days_window_centers S days))) 1)
          (NP.arange 0 (Z.of_nat (length days)) 1).
Example C07_nonvacuous_leap_from_march :
  covered_once_b 31 (NP.arange 61 367 1 ++ NP.arange 1 61 1) = true /\
  covered_once_b 15 (NP.arange 4 19 1) = true /\
  days_window_centers 15 (NP.arange 4 19 1) = [11] /\
  years_window_centers 3 [2000; 2004] = [2001; 2004].
Proof. vm_compute. repeat split. Qed.

(** RunningWindowDebiaser.apply_location skips a window that adjusts no time step (a gap in the days of
    the year of a sub-annual series): the skipping loop returns exactly what the unconditional loop
    returns, for ANY window method — so every theorem above about [driver] holds of it — ... *)
Theorem C07_skipping_loop_is_the_loop : forall (V : Type) L S dA (Wc : Z -> list V),
  driver_skip V L S dA Wc = driver V L S dA Wc.
Proof. exact driver_skip_eq. Qed.
Print Assumptions C07_skipping_loop_is_the_loop.

(** ... it consults the window method only at centres that adjust some time step ... *)
Theorem C07_skipping_loop_evaluates_only_adjusting_windows : forall (V : Type) L S dA (Wc Wc' : Z -> list V),
  (forall c, In c (evaluated_centres S dA) -> Wc c = Wc' c) ->
  driver_skip V L S dA Wc = driver_skip V L S dA Wc'.
Proof. exact driver_skip_ext. Qed.
Print Assumptions C07_skipping_loop_evaluates_only_adjusting_windows.

(** ... and at each of those the window's slice of the adjusted series is non-empty: the window method
    is never handed an empty cm_future *)
Theorem C07_evaluated_window_nonempty : forall L S dA c,
  0 < S -> S <= L -> (forall d, In d dA -> 1 <= d <= 366) ->
  In c (evaluated_centres S dA) -> days_indices_in_window L dA c <> [].
Proof. exact evaluated_window_nonempty. Qed.
Print Assumptions C07_evaluated_window_nonempty.

(** the calendar hypothesis discharged: the time helpers (Model/Calendar.v, correspondence K19) give days of
    the year in 1..366 for EVERY start date and every length (leap years, century years, series not starting
    on 1 January), also when the time arrays are inferred (1950-01-01) *)
Theorem C07_calendar_days_in_range : forall n y m d, valid_date y m d ->
  forall x, In x (days_of_year_of (consecutive_dates n y m d)) -> 1 <= x <= 366.
Proof. exact consecutive_dates_days_in_range. Qed.
Print Assumptions C07_calendar_days_in_range.

Theorem C07_inferred_calendar_days_in_range : forall n x, In x (days_of_year_of (inferred_dates n)) -> 1 <= x <= 366.
Proof. exact inferred_dates_days_in_range. Qed.
Print Assumptions C07_inferred_calendar_days_in_range.

Theorem C07_day_of_year_range : forall y m d, valid_date y m d -> 1 <= doy y m d <= year_len y.
Proof. exact doy_range. Qed.
Print Assumptions C07_day_of_year_range.

Theorem C07_month_of_day_of_year : forall y m d, valid_date y m d -> month_of y (doy y m d) = m.
Proof. exact month_of_doy. Qed.
Print Assumptions C07_month_of_day_of_year.

(** end to end, no hypothesis on the days left: for every start date, every series length, every window
    length and odd step <= length, and every window method returning one value per window element, the
    loop of RunningWindowDebiaser.apply_location succeeds and gives every time step a value *)
Theorem C07_apply_location_defined_on_real_calendars : forall (V : Type) (L S : Z) (n : nat) (y m d : Z) (Wc : Z -> list V),
  0 < S -> S <= L -> S mod 2 = 1 -> valid_date y m d ->
  let dA := days_of_year_of (consecutive_dates n y m d) in
  (forall c, In c (days_window_centers S dA) -> length (Wc c) = length (days_indices_in_window L dA c)) ->
  exists out, driver_skip V L S dA Wc = Some out /\ length out = n /\
    forall k, (k < n)%nat -> exists v, nth k out None = Some v.
Proof. exact apply_location_defined_on_real_calendars. Qed.
Print Assumptions C07_apply_location_defined_on_real_calendars.

(** beyond the running-window modes: ISIMIP's month mode (running_window_mode = False; Model/Driver.v
    months_driver, correspondence K20).  For ANY assignment of months 1..12 to the time steps (any calendar,
    storage order, months missing) and any step pipeline returning one value per cm_future value of the month,
    the loop succeeds and every time step receives a value ... *)
Theorem C07_isimip_month_mode_defined_everywhere : forall (T V : Type) (mo mh mf : list Z) (obs hist fut : list T)
    (W : list T -> list T -> list T -> list V),
  length fut = length mf -> (forall o h f, length (W o h f) = length f) -> (forall m, In m mf -> 1 <= m <= 12) ->
  exists out, months_driver V mo mh mf obs hist fut W = Some out /\ length out = length mf /\
    forall k, (k < length mf)%nat -> exists v, nth k out None = Some v.
Proof. exact months_driver_defined_everywhere. Qed.
Print Assumptions C07_isimip_month_mode_defined_everywhere.

(** ... and on the calendar of the time helpers the hypothesis on the months is discharged *)
Theorem C07_isimip_month_mode_defined_on_real_calendars : forall (T V : Type) (n : nat) (y m d : Z) (mo mh : list Z)
    (obs hist fut : list T) (W : list T -> list T -> list T -> list V),
  length fut = n -> (forall o h f, length (W o h f) = length f) ->
  let mf := months_of (consecutive_dates n y m d) in
  exists out, months_driver V mo mh mf obs hist fut W = Some out /\ length out = n /\
    forall k, (k < n)%nat -> exists v, nth k out None = Some v.
Proof. exact isimip_month_mode_defined_on_real_calendars. Qed.
Print Assumptions C07_isimip_month_mode_defined_on_real_calendars.

(** ... and the value each time step receives is the entry of ITS month's pipeline result at its position among the
    time steps of that month (exactly once, from the sample containing it) *)
Theorem C07_isimip_month_mode_spec : forall (T V : Type) (mo mh mf : list Z) (obs hist fut : list T)
    (W : list T -> list T -> list T -> list V),
  length fut = length mf -> (forall o h f, length (W o h f) = length f) -> (forall m, In m mf -> 1 <= m <= 12) ->
  exists out, months_driver V mo mh mf obs hist fut W = Some out /\ length out = length mf /\
    forall k, (k < length mf)%nat -> nth k out None = value_at T V mo mh mf obs hist fut W k.
Proof. exact months_driver_spec. Qed.
Print Assumptions C07_isimip_month_mode_spec.

(** when does the loop skip a window?  Never, unless the days of the year present have a gap between their minimum
    and maximum ... *)
Theorem C07_centre_adjusts_something : forall S days c, 0 < S -> S mod 2 = 1 -> days <> [] ->
  (forall d, In d days -> 1 <= d <= 366) -> no_gap days ->
  In c (days_window_centers S days) -> days_indices_to_adjust S days c <> [].
Proof. exact centre_adjusts_something. Qed.
Print Assumptions C07_centre_adjusts_something.

(** ... and a series of at least 366 consecutive days has none (every day 1..365 occurs), so there nothing is
    skipped; only a sub-annual series crossing the turn of the year has skipped windows (the D20 witness) *)
Theorem C07_full_year_coverage : forall n y d x, (366 <= n)%nat -> 1 <= d <= year_len y -> 1 <= x <= 365 ->
  In x (days_of_year_of (dates_from n (y, d))).
Proof. exact full_year_coverage. Qed.
Print Assumptions C07_full_year_coverage.

Theorem C07_long_series_nothing_skipped : forall S n y m d, 0 < S -> S mod 2 = 1 -> (366 <= n)%nat -> valid_date y m d ->
  let days := days_of_year_of (consecutive_dates n y m d) in
  evaluated_centres S days = days_window_centers S days.
Proof. exact long_series_nothing_skipped. Qed.
Print Assumptions C07_long_series_nothing_skipped.

Theorem C07_short_series_crossing_the_year_skips :
  let days := days_of_year_of (consecutive_dates 40 2017 11 26) in
  evaluated_centres 3 days <> days_window_centers 3 days /\ (length (evaluated_centres 3 days) < length (days_window_centers 3 days))%nat.
Proof. exact short_series_skips. Qed.
Print Assumptions C07_short_series_crossing_the_year_skips.
