(** C16 — empirical CDF / quantile toolkit obeys the laws of distribution functions.
    Property theorems only (model: Model/Ecdf.v, tied to utils/_math_utils.py by correspondence K4).
    Proved for ecdf methods step_function and linear_interpolation and for ALL nine iecdf methods
    (ibicus' inverted_cdf, NumPy's six continuous and two discrete ones), for samples of ANY size,
    ties allowed; and for the histogram ECDF (kernel_density) given ANY non-decreasing bin edges and
    non-negative counts.  PARTIAL: NumPy's choice of bin edges (np.histogram(bins="auto")) is an input of
    the model, not modelled; that is where the recorded finding D16 lives. *)
From Coq Require Import QArith List ZArith.
From Coq Require Import Permutation.
From IV Require Import QL Ecdf QFacts C16_step C16_lerp C16_interp C16_compose C16_hist C16_sortlike C16_xony.
Import ListNotations.
Open Scope Q_scope.

Theorem C16_ecdf_range : forall m x y, proved_ecdf m -> x <> [] -> 0 <= ecdf m x y <= 1.
Proof. exact ecdf_range. Qed.
Print Assumptions C16_ecdf_range.

Theorem C16_ecdf_mono : forall m x y1 y2, proved_ecdf m -> x <> [] -> y1 <= y2 -> ecdf m x y1 <= ecdf m x y2.
Proof. exact ecdf_mono. Qed.
Print Assumptions C16_ecdf_mono.

Theorem C16_ecdf_at_max : forall m x, proved_ecdf m -> (2 <= length x)%nat -> ecdf m x (QL.qmax x) == 1.
Proof. exact ecdf_at_max. Qed.
Print Assumptions C16_ecdf_at_max.

Theorem C16_iecdf_range : forall m x p, proved_iecdf m -> x <> [] -> 0 <= p <= 1 ->
  QL.qmin x <= iecdf m x p <= QL.qmax x.
Proof. exact iecdf_range. Qed.
Print Assumptions C16_iecdf_range.

Theorem C16_iecdf_mono : forall m x p1 p2, proved_iecdf m -> x <> [] -> 0 <= p1 -> p1 <= p2 -> p2 <= 1 ->
  iecdf m x p1 <= iecdf m x p2.
Proof. exact iecdf_mono. Qed.
Print Assumptions C16_iecdf_mono.

Theorem C16_iecdf_at_0 : forall m x, proved_iecdf m -> x <> [] -> iecdf m x 0 == QL.qmin x.
Proof. exact iecdf_at_0. Qed.
Print Assumptions C16_iecdf_at_0.

Theorem C16_iecdf_at_1 : forall m x, proved_iecdf m -> x <> [] -> iecdf m x 1 == QL.qmax x.
Proof. exact iecdf_at_1. Qed.
Print Assumptions C16_iecdf_at_1.

Theorem C16_qmap_mono : forall em im x y v1 v2, proved_ecdf em -> proved_iecdf im -> x <> [] -> y <> [] ->
  v1 <= v2 -> qmap em im x y v1 <= qmap em im x y v2.
Proof. exact qmap_mono. Qed.
Print Assumptions C16_qmap_mono.

Theorem C16_qmap_range : forall em im x y v, proved_ecdf em -> proved_iecdf im -> x <> [] -> y <> [] ->
  QL.qmin y <= qmap em im x y v <= QL.qmax y.
Proof. exact qmap_range. Qed.
Print Assumptions C16_qmap_range.

Theorem C16_qmap_extrap_mono : forall em im x y v1 v2, proved_ecdf em -> proved_iecdf im -> x <> [] -> y <> [] ->
  v1 <= v2 -> qmap_extrap em im x y v1 <= qmap_extrap em im x y v2.
Proof. exact qmap_extrap_mono. Qed.
Print Assumptions C16_qmap_extrap_mono.

Theorem C16_qmap_extrap_shift_below : forall em im x y v, v < QL.qmin x ->
  qmap_extrap em im x y v == v + (QL.qmin y - QL.qmin x).
Proof. exact qmap_extrap_below. Qed.
Print Assumptions C16_qmap_extrap_shift_below.

Theorem C16_qmap_extrap_shift_above : forall em im x y v, x <> [] -> QL.qmax x < v ->
  qmap_extrap em im x y v == v + (QL.qmax y - QL.qmax x).
Proof. exact qmap_extrap_above. Qed.
Print Assumptions C16_qmap_extrap_shift_above.

Theorem C16_qmap_extrap_continuous_at_max : forall im x y, proved_iecdf im -> (2 <= length x)%nat -> y <> [] ->
  qmap linear_interpolation im x y (QL.qmax x) == QL.qmax y.
Proof. exact qmap_extrap_continuous_lin. Qed.
Print Assumptions C16_qmap_extrap_continuous_at_max.

(** equal sizes, default methods: the k-th smallest source value (step ECDF value k/n) is sent
    to the k-th smallest target value *)
Theorem C16_equal_size_rank_transfer : forall s k, (1 <= k <= zlen s)%Z ->
  iecdf_inv s (inject_Z k / inject_Z (zlen s)) = nthq s (k - 1).
Proof. exact equal_size_rank_transfer. Qed.
Print Assumptions C16_equal_size_rank_transfer.

(** the hypothesis [proved_iecdf m] of the theorems above holds for EVERY supported inverse-CDF method:
    ibicus' own inverted_cdf, NumPy's six continuous methods and its two discrete ones
    (averaged_inverted_cdf, closest_observation: Proofs/C16_discrete.v) *)
Theorem C16_every_iecdf_method_covered : forall m, proved_iecdf m.
Proof. exact every_iecdf_method_proved. Qed.
Print Assumptions C16_every_iecdf_method_covered.

(** sort_array_like_another_one(x, y): a permutation of x, ordered like y (for every pair of positions with
    y_i < y_j the value placed at i is not larger than the value placed at j), for equally long x and y with
    arbitrary ties; the ranks argsort(argsort(y)) are a permutation of 0..n-1 *)
Theorem C16_sort_like_permutation : forall x y, length x = length y -> Permutation (sort_like x y) x.
Proof. exact sort_like_permutation. Qed.
Print Assumptions C16_sort_like_permutation.

Theorem C16_sort_like_ordered : forall x y i j, length x = length y -> (i < length y)%nat -> (j < length y)%nat ->
  nth i y 0 < nth j y 0 -> nth i (sort_like x y) 0 <= nth j (sort_like x y) 0.
Proof. exact sort_like_ordered. Qed.
Print Assumptions C16_sort_like_ordered.

Theorem C16_ranks_are_a_permutation : forall y, Permutation (map (rank_in y) (seq 0 (length y))) (seq 0 (length y)).
Proof. exact ranks_permutation. Qed.
Print Assumptions C16_ranks_are_a_permutation.

(** histogram ECDF, for any non-decreasing edges and non-negative counts with a positive total *)
Theorem C16_ecdf_hist_range : forall edges counts, sortedQ edges -> Forall (fun c => 0 <= c) counts ->
  length edges = S (length counts) -> 0 < QL.qsum counts -> forall y, 0 <= ecdf_hist edges counts y <= 1.
Proof. exact ecdf_hist_range. Qed.
Print Assumptions C16_ecdf_hist_range.

Theorem C16_ecdf_hist_mono : forall edges counts, sortedQ edges -> Forall (fun c => 0 <= c) counts ->
  length edges = S (length counts) -> 0 < QL.qsum counts -> forall y1 y2, y1 <= y2 -> ecdf_hist edges counts y1 <= ecdf_hist edges counts y2.
Proof. exact ecdf_hist_mono. Qed.
Print Assumptions C16_ecdf_hist_mono.

Theorem C16_ecdf_hist_at_last_edge : forall edges counts, Forall (fun c => 0 <= c) counts ->
  length edges = S (length counts) -> 0 < QL.qsum counts -> forall y, (forall e, In e edges -> e <= y) -> ecdf_hist edges counts y == 1.
Proof. exact ecdf_hist_at_last_edge. Qed.
Print Assumptions C16_ecdf_hist_at_last_edge.

(** recorded finding D16 (known_findings.json): the histogram ECDF of an all-equal sample is 1/2,
    not 1, at the sample maximum (NumPy's edges for x = [29/8]*4 are [25/8, 33/8], counts [4]) *)
Theorem C16_hist_at_max_constant_sample_refuted :
  Qred (ecdf_hist [25 # 8; 33 # 8] [4 # 1] (29 # 8)) = 1 # 2.
Proof. vm_compute. reflexivity. Qed.
Print Assumptions C16_hist_at_max_constant_sample_refuted.

(** non-vacuity: a sample with ties meets the hypotheses; values computed by the model *)
Example C16_nonvacuous :
  let x := [2; 3 # 2; 3 # 2; 5 # 2; 1; 1] in
  proved_ecdf linear_interpolation /\ proved_iecdf linear /\ x <> [] /\
  Qred (ecdf step_function x (QL.qmax x)) = 1 /\ Qred (iecdf linear x (1 # 2)) = 3 # 2 /\
  Qred (qmap step_function inverted_cdf x [10; 20; 30; 40; 50; 60] 2) = 50.
Proof. cbv zeta. repeat split; try (right; reflexivity); try discriminate; try apply every_iecdf_method_proved; vm_compute; reflexivity. Qed.

(** quantile_map_x_on_y_non_parametically in "normal" mode (the sample mapped through its own ECDF; used by ISIMIP's
    imputation): the order of the values is kept and equal values have equal images *)
Theorem C16_x_on_y_keeps_order : forall em im x y i j, proved_ecdf em -> proved_iecdf im -> y <> [] ->
  (i < length x)%nat -> (j < length x)%nat -> nth i x 0 <= nth j x 0 ->
  nth i (xony_normal em im x y) 0 <= nth j (xony_normal em im x y) 0.
Proof. exact xony_order. Qed.
Print Assumptions C16_x_on_y_keeps_order.

Theorem C16_x_on_y_equal_values_equal_images : forall em im x y i j, proved_ecdf em -> proved_iecdf im -> y <> [] ->
  (i < length x)%nat -> (j < length x)%nat -> nth i x 0 == nth j x 0 ->
  nth i (xony_normal em im x y) 0 == nth j (xony_normal em im x y) 0.
Proof. exact xony_ties. Qed.
Print Assumptions C16_x_on_y_equal_values_equal_images.

(** ... and in "isimipv3.0" mode (average ranks, then the linear quantile of y): order kept, equal values equal
    images, images within the range of y *)
Theorem C16_x_on_y_isimip_keeps_order : forall x y i j, y <> [] -> (i < length x)%nat -> (j < length x)%nat ->
  nth i x 0 <= nth j x 0 -> nth i (xony_isimip x y) 0 <= nth j (xony_isimip x y) 0.
Proof. exact xony_isimip_order. Qed.
Print Assumptions C16_x_on_y_isimip_keeps_order.

Theorem C16_x_on_y_isimip_equal_values_equal_images : forall x y i j, y <> [] -> (i < length x)%nat -> (j < length x)%nat ->
  nth i x 0 == nth j x 0 -> nth i (xony_isimip x y) 0 == nth j (xony_isimip x y) 0.
Proof. exact xony_isimip_ties. Qed.
Print Assumptions C16_x_on_y_isimip_equal_values_equal_images.

Theorem C16_x_on_y_isimip_range : forall x y i, y <> [] -> (i < length x)%nat ->
  QL.qmin y <= nth i (xony_isimip x y) 0 <= QL.qmax y.
Proof. exact xony_isimip_range. Qed.
Print Assumptions C16_x_on_y_isimip_range.
