(** C15 — configuration: documented variable support and setting overrides are honoured.
    Property theorems only; every table they mention is EXTRACTED from the current source. *)
From Coq Require Import ZArith List Bool String.
From IV Require Import ConfigBase XQ GenConfig GenIsimip Config C15_proofs.
Import ListNotations.
Open Scope string_scope.

(** from_variable on every Variable object, for all 8 debiasers: silent / experimental warning /
    ValueError exactly as the published table says (a variable without a row is unsupported) *)
Theorem C15_support_table_objects : forall d v, In v variable_objects ->
  from_variable_obj d v = expected (doc_cell d v).
Proof. exact support_table_objects. Qed.
Print Assumptions C15_support_table_objects.

(** ... and on every known name (all 14, including the alias "ps"), lower and upper case *)
Theorem C15_support_table_names : forall d name v, In (name, v) str_to_variable ->
  from_variable_str d name = expected (doc_cell d v) /\ from_variable_str d (upper name) = expected (doc_cell d v).
Proof. exact support_table_names. Qed.
Print Assumptions C15_support_table_names.

(** names are case-insensitive: for ALL strings *)
Theorem C15_case_insensitive : forall d s1 s2, lower s1 = lower s2 -> from_variable_str d s1 = from_variable_str d s2.
Proof. exact case_insensitive. Qed.
Print Assumptions C15_case_insensitive.

Theorem C15_case_insensitive_upper : forall d s, from_variable_str d (upper s) = from_variable_str d s.
Proof. exact case_insensitive_upper. Qed.
Print Assumptions C15_case_insensitive_upper.

Theorem C15_unknown_name_raises : forall d s, variable_of_str s = None -> from_variable_str d s = RaiseValueError.
Proof. exact unknown_name_raises. Qed.
Print Assumptions C15_unknown_name_raises.

(** keyword arguments override the variable defaults, every other key keeps its default *)
Theorem C15_kwargs_override : forall (A : Type) k (params kwargs : list (string * A)),
  lookup k (merge params kwargs) = match lookup k kwargs with Some v => Some v | None => lookup k params end.
Proof. exact @kwargs_override. Qed.
Print Assumptions C15_kwargs_override.

(** attribute assignment before apply == passing the setting at construction, for any sequence
    of assignments, whenever apply re-runs post-init ... *)
Theorem C15_attr_equals_ctor : forall (S D X Y : Type) (post : S -> D) (run : S -> D -> X -> Y) (i : inst S D) fs x,
  apply S D X Y post run true (fold_left (assign S D) fs i) x =
  apply S D X Y post run true (construct S D post (fold_left (fun s f => f s) fs (settings S D i))) x.
Proof. exact attr_equals_ctor. Qed.
Print Assumptions C15_attr_equals_ctor.

(** ... which every debiaser's apply does (extracted from the source; DeltaChange after its repair) *)
Theorem C15_every_apply_reruns_post_init : forall d, apply_calls_post_init d = true.
Proof. exact every_apply_reruns_post_init. Qed.
Print Assumptions C15_every_apply_reruns_post_init.

Theorem C15_post_init_writes_only_derived : forall d, post_init_writes_ok d = true.
Proof. exact post_init_writes_only_derived. Qed.
Print Assumptions C15_post_init_writes_only_derived.

Theorem C15_none_guarded_is_qdm_cdf_threshold : forall d,
  post_init_none_guarded d = match d with QuantileDeltaMapping => ["cdf_threshold"] | _ => [] end.
Proof. exact none_guarded_is_qdm_cdf_threshold. Qed.
Print Assumptions C15_none_guarded_is_qdm_cdf_threshold.

(** an ISIMIP debiaser built without bounds treats the variable as unbounded *)
Theorem C15_isimip_unbounded_default :
  has_lower_bound isimip_default_lower_bound = false /\ has_lower_threshold isimip_default_lower_threshold = false /\
  has_upper_bound isimip_default_upper_bound = false /\ has_upper_threshold isimip_default_upper_threshold = false.
Proof. exact isimip_unbounded_default. Qed.
Print Assumptions C15_isimip_unbounded_default.

Theorem C15_has_bounds_spec : forall lb ub,
  (has_lower_bound lb = true <-> lb <> XQ.NInf) /\ (has_upper_bound ub = true <-> ub <> XQ.PInf).
Proof. exact has_bounds_spec. Qed.
Print Assumptions C15_has_bounds_spec.

(** invalid settings are rejected at construction *)
Theorem C15_option_validator_rejects : forall f opts s, In (V_in opts) (f_validators f) -> f_converter f = None ->
  smem s opts = false -> field_accepts f (VStr s) = false.
Proof. exact option_validator_rejects. Qed.
Print Assumptions C15_option_validator_rejects.

Theorem C15_invalid_settings_rejected : bogus_rejected = true.
Proof. exact invalid_settings_rejected. Qed.
Print Assumptions C15_invalid_settings_rejected.

(** cross-field checks of __attrs_post_init__ (extracted from the source): none of them is nested under
    another test, so an invalid combination is rejected at construction whatever the window-mode switches
    are; ISIMIP rejects a missing distribution unless non-parametric mapping is chosen, the running-window
    debiasers reject a step longer than the window *)
Theorem C15_cross_field_rejections_unconditional : rejections_unconditional = true.
Proof. exact rejections_unconditional_ok. Qed.
Print Assumptions C15_cross_field_rejections_unconditional.

Theorem C15_isimip_rejects_missing_distribution :
  In (""%string, "self.distribution is None and (not self.nonparametric_qm)"%string) (post_init_rejections ISIMIP).
Proof. exact isimip_rejects_missing_distribution. Qed.
Print Assumptions C15_isimip_rejects_missing_distribution.

Theorem C15_window_step_le_length_enforced : forall d,
  In d [LinearScaling; QuantileMapping; ScaledDistributionMapping; CDFt; ECDFM; QuantileDeltaMapping] ->
  In (""%string, "self.running_window_step_length > self.running_window_length"%string) (post_init_rejections d).
Proof. exact window_step_le_length_enforced. Qed.
Print Assumptions C15_window_step_le_length_enforced.

(** non-vacuity *)
Example C15_nonvacuous :
  from_variable_str CDFt "TasRange" = Warn /\ from_variable_str ISIMIP "prsn" = RaiseValueError /\
  from_variable_str QuantileMapping "PS" = Warn /\ In ("ps", "psl") str_to_variable /\
  List.length variable_objects = 13%nat /\ List.length str_to_variable = 14%nat.
Proof. vm_compute. repeat split. do 4 right. left. reflexivity. Qed.
