(** C19 — threshold metrics count and accumulate exactly what their definition says.
    Property theorems only (model: Model/Metrics.v, tied to evaluate/metrics.py by correspondence K12). *)
From Coq Require Import QArith ZArith List Bool.
From IV Require Import QL NP Ecdf Metrics C19_proofs C19_spells C19_quantile.
Import ListNotations.
Open Scope Q_scope.

Theorem C19_cond_spec : forall ty lo hi v,
  cond ty lo hi v = true <->
  match ty with
  | Higher => lo < v | Lower => v < lo | Between => lo < v /\ v < hi | Outside => v < lo \/ hi < v
  end.
Proof. exact @cond_spec. Qed.
Print Assumptions C19_cond_spec.

Theorem C19_instances_def : forall ty thr x t c,
  (t < length x)%nat -> (c < length (nth t x []))%nat ->
  nth c (nth t (mask ty thr x) []) false =
  cond ty (fst (thr t c)) (snd (thr t c)) (nth c (nth t x []) 0).
Proof. exact @instances_def. Qed.
Print Assumptions C19_instances_def.

Theorem C19_prob_is_mean : forall m c,
  m <> [] ->
  probability m c * inject_Z (Z.of_nat (length m)) == inject_Z (Z.of_nat (count (column false m c))) /\
  0 <= probability m c <= 1.
Proof. exact @prob_is_mean. Qed.
Print Assumptions C19_prob_is_mean.

Theorem C19_annual_conserves : forall years uyears col,
  length years = length col -> NoDup uyears ->
  (forall y, In y years -> In y uyears) -> nsum (annual years uyears col) = count col.
Proof. exact @annual_conserves. Qed.
Print Assumptions C19_annual_conserves.

Theorem C19_runs_conserve : forall m,
  nsum (runs m) = count m.
Proof. exact @runs_conserve. Qed.
Print Assumptions C19_runs_conserve.

Theorem C19_runs_positive : forall m,
  Forall (fun n => (0 < n)%nat) (runs m).
Proof. exact @runs_positive. Qed.
Print Assumptions C19_runs_positive.

(** the coded run-length trick equals the maximal-run specification for series of every length *)
Theorem C19_spells_eq_runs : forall m, spells m = map Z.of_nat (runs m).
Proof. exact spells_eq_runs. Qed.
Print Assumptions C19_spells_eq_runs.

Theorem C19_spells_eq_runs_bounded : forall m,
  (length m <= 12)%nat -> m <> [] -> spells m = map Z.of_nat (runs m).
Proof. exact @spells_eq_runs_bounded. Qed.
Print Assumptions C19_spells_eq_runs_bounded.

Theorem C19_extent_conserves : forall m ncells,
  (0 < ncells)%nat -> (forall r, In r m -> length r = ncells) ->
  QL.qsum (extent m) * inject_Z (Z.of_nat ncells) == inject_Z (Z.of_nat (total m)).
Proof. exact @extent_conserves. Qed.
Print Assumptions C19_extent_conserves.

Theorem C19_clusters_conserve : forall flat,
  forall lab k, length lab = length flat ->
  (forall i, (i < length flat)%nat -> nth i flat false = true -> (1 <= nth i lab 0 <= k)%nat) ->
  nsum (cluster_sizes flat lab k) = count flat.
Proof. exact @clusters_conserve. Qed.
Print Assumptions C19_clusters_conserve.

Theorem C19_cluster_positive : forall flat lab k l,
  length lab = length flat -> (1 <= l <= k)%nat ->
  (exists i, (i < length flat)%nat /\ nth i flat false = true /\ nth i lab 0%nat = l) ->
  (0 < nth (l - 1) (cluster_sizes flat lab k) 0)%nat.
Proof. exact @cluster_positive. Qed.
Print Assumptions C19_cluster_positive.

Theorem C19_percent_range : forall col vals,
  Forall (fun v => 0 <= v) vals -> 0 < QL.qsum vals ->
  0 <= percent_of_total col vals <= 100.
Proof. exact @percent_range. Qed.
Print Assumptions C19_percent_range.

Theorem C19_filtered_spec : forall col vals k,
  length col = length vals -> (k < length vals)%nat ->
  nth k (filtered col vals) 0 = if nth k col false then nth k vals 0 else 0.
Proof. exact @filtered_spec. Qed.
Print Assumptions C19_filtered_spec.


(** quantile-defined metrics (ThresholdMetric.from_quantile: threshold = np.quantile(data, q), linear method, modelled
    by Ecdf.iecdf linear and tied by K4): writing k = floor((n-1) q), at most n - 1 - k values lie strictly above the
    threshold and at most min(k+1, n-1) strictly below it -- the exceedance count never exceeds (n-1)(1-q) + 1 *)
Theorem C19_quantile_threshold_exceedance_count : forall x, x <> [] -> forall q, 0 <= q <= 1 ->
  (Z.of_nat (count_gt (qv x q) x) <= zlen x - 1 - Qround.Qfloor (inject_Z (zlen x - 1) * q))%Z.
Proof. exact quantile_exceedance_count. Qed.
Print Assumptions C19_quantile_threshold_exceedance_count.

Theorem C19_quantile_threshold_below_count : forall x, x <> [] -> forall q, 0 <= q <= 1 ->
  (Z.of_nat (count_lt (qv x q) x) <= Z.min (Qround.Qfloor (inject_Z (zlen x - 1) * q) + 1) (zlen x - 1))%Z.
Proof. exact quantile_below_count. Qed.
Print Assumptions C19_quantile_threshold_below_count.

Theorem C19_quantile_threshold_exceedance_frequency : forall x, x <> [] -> forall q, 0 <= q <= 1 ->
  inject_Z (Z.of_nat (count_gt (qv x q) x)) <= inject_Z (zlen x - 1) * (1 - q) + 1.
Proof. exact quantile_exceedance_frequency. Qed.
Print Assumptions C19_quantile_threshold_exceedance_frequency.
