(** C18 — derived-variable conversions round-trip.  Property theorems only; each is closed
    by [exact] of a lemma from Proofs/C18_proofs.v about the REGENERATED definitions. *)
From Coq Require Import QArith List.
From IV Require Import GenUtils C18_proofs C18_more.
Open Scope Q_scope.

Theorem C18_tas_roundtrip : forall tas tmin tmax, ~ tmax == tmin ->
  let rs := get_tasrange_tasskew tas tmin tmax in
  fst (get_tasmin_tasmax tas (fst rs) (snd rs)) == tmin /\
  snd (get_tasmin_tasmax tas (fst rs) (snd rs)) == tmax.
Proof. exact tas_roundtrip_pair. Qed.
Print Assumptions C18_tas_roundtrip.

Theorem C18_tas_roundtrip_single_min : forall tas tmin tmax, ~ tmax == tmin ->
  get_tasmin tas (fst (get_tasrange_tasskew tas tmin tmax)) (snd (get_tasrange_tasskew tas tmin tmax)) == tmin.
Proof. exact tas_roundtrip_min. Qed.
Print Assumptions C18_tas_roundtrip_single_min.

Theorem C18_tas_roundtrip_single_max : forall tas tmin tmax, ~ tmax == tmin ->
  get_tasmax tas (fst (get_tasrange_tasskew tas tmin tmax)) (snd (get_tasrange_tasskew tas tmin tmax)) == tmax.
Proof. exact tas_roundtrip_max. Qed.
Print Assumptions C18_tas_roundtrip_single_max.

Theorem C18_pair_single_agree_minmax : forall tas r s,
  get_tasmin_tasmax tas r s = (get_tasmin tas r s, get_tasmax tas r s).
Proof. exact pair_single_agree_minmax. Qed.
Print Assumptions C18_pair_single_agree_minmax.

Theorem C18_pair_single_agree_rangeskew : forall tas tmin tmax,
  get_tasrange_tasskew tas tmin tmax = (get_tasrange tmin tmax, get_tasskew tas tmin tmax).
Proof. exact pair_single_agree_rangeskew. Qed.
Print Assumptions C18_pair_single_agree_rangeskew.

Theorem C18_rangeskew_roundtrip : forall tas r s, ~ r == 0 ->
  let mm := get_tasmin_tasmax tas r s in
  fst (get_tasrange_tasskew tas (fst mm) (snd mm)) == r /\
  snd (get_tasrange_tasskew tas (fst mm) (snd mm)) == s.
Proof. exact rangeskew_roundtrip. Qed.
Print Assumptions C18_rangeskew_roundtrip.

(** exact identities that need no hypothesis: the reconstructed extremes are one range apart for EVERY skew and
    range, and tas is their skew-weighted mix *)
Theorem C18_minmax_range_exact : forall tas r s, get_tasmax tas r s - get_tasmin tas r s == r.
Proof. exact minmax_range_exact. Qed.
Print Assumptions C18_minmax_range_exact.

Theorem C18_tas_is_mix : forall tas r s, get_tasmin tas r s + s * (get_tasmax tas r s - get_tasmin tas r s) == tas.
Proof. exact tas_is_mix. Qed.
Print Assumptions C18_tas_is_mix.

(** the excluded case of the round trips, covered explicitly: on a degenerate day (tasmax == tasmin) the range is 0
    and both reconstructed extremes equal tas, whatever value the undefined skew took *)
Theorem C18_degenerate_day : forall tas tmin tmax s, tmax == tmin ->
  get_tasrange tmin tmax == 0 /\
  get_tasmin tas (get_tasrange tmin tmax) s == tas /\ get_tasmax tas (get_tasrange tmin tmax) s == tas.
Proof. exact degenerate_day. Qed.
Print Assumptions C18_degenerate_day.

Theorem C18_order_preserved : forall tas r s, 0 <= s -> s <= 1 -> 0 <= r ->
  get_tasmin tas r s <= tas /\ tas <= get_tasmax tas r s.
Proof. exact order_preserved. Qed.
Print Assumptions C18_order_preserved.

Theorem C18_skew_in_unit : forall tas tmin tmax, tmin < tmax -> tmin <= tas -> tas <= tmax ->
  0 <= get_tasskew tas tmin tmax /\ get_tasskew tas tmin tmax <= 1 /\ 0 <= get_tasrange tmin tmax.
Proof. exact skew_in_unit. Qed.
Print Assumptions C18_skew_in_unit.

Theorem C18_pr_prsn_roundtrip : forall pr prsn, ~ pr == 0 -> get_prsn pr (get_prsnratio pr prsn) == prsn.
Proof. exact pr_prsn_roundtrip. Qed.
Print Assumptions C18_pr_prsn_roundtrip.

Theorem C18_pr_pr_roundtrip : forall pr prsn, ~ pr == 0 -> ~ prsn == 0 ->
  get_pr prsn (get_prsnratio pr prsn) == pr.
Proof. exact pr_pr_roundtrip. Qed.
Print Assumptions C18_pr_pr_roundtrip.

Theorem C18_pr_ratio_roundtrip : forall pr ratio, ~ pr == 0 -> get_prsnratio pr (get_prsn pr ratio) == ratio.
Proof. exact pr_ratio_roundtrip. Qed.
Print Assumptions C18_pr_ratio_roundtrip.

Theorem C18_pr_ratio_roundtrip' : forall prsn ratio, ~ prsn == 0 -> ~ ratio == 0 ->
  get_prsnratio (get_pr prsn ratio) prsn == ratio.
Proof. exact pr_ratio_roundtrip'. Qed.
Print Assumptions C18_pr_ratio_roundtrip'.

Theorem C18_prsn_bounds : forall pr ratio, 0 <= pr -> 0 <= ratio -> ratio <= 1 ->
  0 <= get_prsn pr ratio /\ get_prsn pr ratio <= pr.
Proof. exact prsn_bounds. Qed.
Print Assumptions C18_prsn_bounds.

Theorem C18_array_roundtrip : forall (tas tmin tmax : list Q),
  length tmin = length tas -> length tmax = length tas ->
  Forall2 (fun a b => ~ b == a) tmin tmax ->
  let rs := map3 get_tasrange_tasskew tas tmin tmax in
  Forall2 Qeq (map3 get_tasmin tas (map fst rs) (map snd rs)) tmin /\
  Forall2 Qeq (map3 get_tasmax tas (map fst rs) (map snd rs)) tmax.
Proof. exact array_roundtrip. Qed.
Print Assumptions C18_array_roundtrip.

(** non-vacuity: a concrete day satisfies the hypotheses and the round trip computes *)
Example C18_nonvacuous :
  let tas := 285 # 1 in let tmin := 280 # 1 in let tmax := 293 # 1 in
  ~ tmax == tmin /\ tmin < tmax /\ tmin <= tas /\ tas <= tmax /\
  Qred (get_tasmax tas (fst (get_tasrange_tasskew tas tmin tmax)) (snd (get_tasrange_tasskew tas tmin tmax))) = tmax.
Proof. vm_compute. repeat split; try discriminate. Qed.
