(** C04 — unit-change equivariance for unbounded variables.
    Property theorems only, about the per-window methods REGENERATED from the source (Gen/GenScalars.v;
    translation validated by correspondence K5).  [eql] = elementwise equality of rationals. *)
From Coq Require Import QArith Qabs List Bool String.
From IV Require Import QL Dist Ecdf QListFacts GenUtils GenScalars RatLS C16_compose C03_proofs C02_proofs C04_proofs C01_proofs C09_proofs RatLS_proofs Affine Affine_debiasers Driver Driver_rel ApplyLocation_units ApplyLocation_param IsimipStep5 IsimipStep5_proofs SDM SDM_units IsimipStep3 IsimipStep5 IsimipWindow IsimipWindow_proofs IsimipWindow_units NP GenWindows.
Import ListNotations.
Open Scope Q_scope.

Theorem C04_ls_affine_equivariant : forall a b o h f,
  o <> [] -> h <> [] ->
  out_eql (ls_apply_on_window "additive" (aff a b o) (aff a b h) (aff a b f))
          (option_map (aff a b) (ls_apply_on_window "additive" o h f)).
Proof. exact @ls_affine_equivariant. Qed.
Print Assumptions C04_ls_affine_equivariant.

Theorem C04_ls_rescaling_equivariant : forall a o h f,
  o <> [] -> h <> [] -> ~ a == 0 -> ~ QL.qmean h == 0 ->
  out_eql (ls_apply_on_window "multiplicative" (aff a 0 o) (aff a 0 h) (aff a 0 f))
          (option_map (aff a 0) (ls_apply_on_window "multiplicative" o h f)).
Proof. exact @ls_rescaling_equivariant. Qed.
Print Assumptions C04_ls_rescaling_equivariant.

Theorem C04_dc_affine_equivariant : forall a b o h f,
  f <> [] -> h <> [] ->
  out_eql (dc_apply_on_window "additive" (aff a b o) (aff a b h) (aff a b f))
          (option_map (aff a b) (dc_apply_on_window "additive" o h f)).
Proof. exact @dc_affine_equivariant. Qed.
Print Assumptions C04_dc_affine_equivariant.

Theorem C04_dc_rescaling_equivariant : forall a o h f,
  f <> [] -> h <> [] -> ~ a == 0 -> ~ QL.qmean h == 0 ->
  out_eql (dc_apply_on_window "multiplicative" (aff a 0 o) (aff a 0 h) (aff a 0 f))
          (option_map (aff a 0) (dc_apply_on_window "multiplicative" o h f)).
Proof. exact @dc_rescaling_equivariant. Qed.
Print Assumptions C04_dc_rescaling_equivariant.

Theorem C04_qm_param_affine_equivariant : forall (P : Type) (D : dist P) t a b o h f,
  dist_proper D -> fit_affine_equivariant D -> 0 < a -> o <> [] -> h <> [] ->
  out_eql (qm_apply_on_window "no_detrending" "parametric" D t (aff a b o) (aff a b h) (aff a b f))
          (option_map (aff a b) (qm_apply_on_window "no_detrending" "parametric" D t o h f)).
Proof. exact @qm_param_affine_equivariant. Qed.
Print Assumptions C04_qm_param_affine_equivariant.

Theorem C04_qm_param_detrended_affine_equivariant : forall (P : Type) (D : dist P) t a b o h f,
  dist_proper D -> fit_affine_equivariant D -> 0 < a -> o <> [] -> h <> [] -> f <> [] ->
  out_eql (qm_apply_on_window "additive" "parametric" D t (aff a b o) (aff a b h) (aff a b f))
          (option_map (aff a b) (qm_apply_on_window "additive" "parametric" D t o h f)).
Proof. exact @qm_param_detrended_affine_equivariant. Qed.
Print Assumptions C04_qm_param_detrended_affine_equivariant.

Theorem C04_ecdfm_affine_equivariant : forall (P : Type) (D : dist P) t a b o h f,
  dist_proper D -> fit_affine_equivariant D -> 0 < a -> o <> [] -> h <> [] -> f <> [] ->
  eql (ecdfm_apply_on_window D t (aff a b o) (aff a b h) (aff a b f)) (aff a b (ecdfm_apply_on_window D t o h f)).
Proof. exact @ecdfm_affine_equivariant. Qed.
Print Assumptions C04_ecdfm_affine_equivariant.

(** the location-scale hypotheses are satisfiable: the rational family, fitted by (mean, mean absolute
    deviation), is affine-equivariant on every sample with non-zero spread *)
Theorem C04_ratls_fit_affine : forall a b l, 0 < a -> l <> [] -> ~ mad l == 0 ->
    (forall x, cdf ratls (fit ratls (aff a b l)) (a * x + b) == cdf ratls (fit ratls l) x) /\
    (forall p, ppf ratls (fit ratls (aff a b l)) p == a * ppf ratls (fit ratls l) p + b).
Proof. exact ratls_fit_affine. Qed.
Print Assumptions C04_ratls_fit_affine.


(** ---- the empirical-CDF methods (CDFt, non-parametric QuantileMapping, QuantileDeltaMapping).
    [ARL a b l l'] : l' is l expressed in the other unit, element by element (l'_i == a*l_i + b); it covers
    both an exactly converted series and one that is equal up to ==.  Proved from the relational
    parametricity of merge sort and of the ECDF / quantile toolkit (Proofs/Affine.v), for the step and the
    interpolated ECDF and all nine inverse-CDF methods. *)
Theorem C04_ecdf_invariant : forall a b, 0 < a -> forall m x x' y y',
  m = step_function \/ m = linear_interpolation -> Affine.ARL a b x x' -> Affine.AR a b y y' -> ecdf m x' y' = ecdf m x y.
Proof. exact Affine.ecdf_rel. Qed.
Print Assumptions C04_ecdf_invariant.

Theorem C04_iecdf_equivariant : forall a b, 0 < a -> forall m x x' p,
  Affine.ARL a b x x' -> x <> [] -> 0 <= p <= 1 -> Affine.AR a b (iecdf m x p) (iecdf m x' p).
Proof. exact Affine.iecdf_rel. Qed.
Print Assumptions C04_iecdf_equivariant.

Theorem C04_cdft_unit_change : forall em im, em = step_function \/ em = linear_interpolation ->
  forall a b, 0 < a -> forall obs obs' hist hist' fut fut',
  Affine.ARL a b obs obs' -> Affine.ARL a b hist hist' -> Affine.ARL a b fut fut' -> obs <> [] -> hist <> [] -> fut <> [] ->
  exists out out', cdft_apply_mapping "additive" em im obs hist fut = Some out /\
                   cdft_apply_mapping "additive" em im obs' hist' fut' = Some out' /\ Affine.ARL a b out out'.
Proof. exact Affine_debiasers.cdft_unit_change. Qed.
Print Assumptions C04_cdft_unit_change.

Theorem C04_qm_nonparametric_unit_change : forall (P : Type) (D : dist P) thr a b, 0 < a ->
  forall det, det = "no_detrending"%string \/ det = "additive"%string ->
  forall obs obs' hist hist' fut fut', Affine.ARL a b obs obs' -> Affine.ARL a b hist hist' -> Affine.ARL a b fut fut' ->
  obs <> [] -> hist <> [] -> fut <> [] ->
  exists out out', qm_apply_on_window det "nonparametric" D thr obs hist fut = Some out /\
                   qm_apply_on_window det "nonparametric" D thr obs' hist' fut' = Some out' /\ Affine.ARL a b out out'.
Proof. exact @Affine_debiasers.qm_nonparam_unit_change. Qed.
Print Assumptions C04_qm_nonparametric_unit_change.

Theorem C04_qdm_unit_change : forall (P : Type) (D : dist P) em t cth, em = step_function \/ em = linear_interpolation ->
  forall a b, 0 < a -> forall f f' fo fh fo' fh', Affine.ARL a b f f' ->
  (forall p, ppf D fo' p == a * ppf D fo p + b) -> (forall p, ppf D fh' p == a * ppf D fh p + b) ->
  exists out out', qdm_apply_debiasing_steps em t "absolute" D false cth f fo fh = Some out /\
                   qdm_apply_debiasing_steps em t "absolute" D false cth f' fo' fh' = Some out' /\ Affine.ARL a b out out'.
Proof. exact @Affine_debiasers.qdm_abs_unit_change. Qed.
Print Assumptions C04_qdm_unit_change.

(** non-vacuity: a concrete CDFt window in Kelvin and in Celsius *)
Example C04_cdft_nonvacuous :
  let o := [280; 283; 285; 290] in let h := [282; 284; 289; 291; 295] in let f := [284; 288; 293] in
  let k := map (fun x => x - 273) in
  match cdft_apply_mapping "additive" linear_interpolation linear o h f, cdft_apply_mapping "additive" linear_interpolation linear (k o) (k h) (k f) with
  | Some out, Some out' => forallb (fun p => Qeq_bool (snd p) (fst p - 273)) (combine out out') = true /\ List.length out = 3%nat
  | _, _ => False
  end.
Proof. vm_compute. split; reflexivity. Qed.

(** ---- through apply_location with a running window over the year (Model/Driver.v scatter loop over the
    REGENERATED window functions): for every window length and step and every calendar, if each window
    that is used holds data of all three series, then both runs succeed or fail together and every time
    step's value is the same in the other unit.  Generic in the per-window method, and instantiated. *)
Theorem C04_apply_location_unit_change : forall L S dobs dhist dfut obs hist fut obs' hist' fut' (W : list Q -> list Q -> list Q -> list Q) a b,
  (forall o o' h h' f f', o <> [] -> h <> [] -> f <> [] -> Affine.ARL a b o o' -> Affine.ARL a b h h' -> Affine.ARL a b f f' -> Affine.ARL a b (W o h f) (W o' h' f')) ->
  Driver_rel.windows_nonempty L S dfut dobs dhist dfut obs hist fut ->
  Affine.ARL a b obs obs' -> Affine.ARL a b hist hist' -> Affine.ARL a b fut fut' ->
  ApplyLocation_units.same_in_other_unit a b (Driver.driver_rw Q L S dobs dhist dfut obs hist fut W) (Driver.driver_rw Q L S dobs dhist dfut obs' hist' fut' W).
Proof. exact ApplyLocation_units.apply_location_unit_change. Qed.
Print Assumptions C04_apply_location_unit_change.

Theorem C04_cdft_apply_location : forall em im a b, em = step_function \/ em = linear_interpolation -> 0 < a ->
  forall L S dobs dhist dfut obs hist fut obs' hist' fut',
  Driver_rel.windows_nonempty L S dfut dobs dhist dfut obs hist fut -> Affine.ARL a b obs obs' -> Affine.ARL a b hist hist' -> Affine.ARL a b fut fut' ->
  ApplyLocation_units.same_in_other_unit a b (Driver.driver_rw Q L S dobs dhist dfut obs hist fut (ApplyLocation_units.W_cdft em im))
                                             (Driver.driver_rw Q L S dobs dhist dfut obs' hist' fut' (ApplyLocation_units.W_cdft em im)).
Proof. exact ApplyLocation_units.cdft_apply_location_unit_change. Qed.
Print Assumptions C04_cdft_apply_location.

Theorem C04_linear_scaling_apply_location : forall a b, 0 < a -> forall L S dobs dhist dfut obs hist fut obs' hist' fut',
  Driver_rel.windows_nonempty L S dfut dobs dhist dfut obs hist fut -> Affine.ARL a b obs obs' -> Affine.ARL a b hist hist' -> Affine.ARL a b fut fut' ->
  ApplyLocation_units.same_in_other_unit a b (Driver.driver_rw Q L S dobs dhist dfut obs hist fut (ApplyLocation_units.W_ls "additive"))
                                             (Driver.driver_rw Q L S dobs dhist dfut obs' hist' fut' (ApplyLocation_units.W_ls "additive")).
Proof. exact ApplyLocation_units.ls_apply_location_unit_change. Qed.
Print Assumptions C04_linear_scaling_apply_location.

Theorem C04_qm_nonparametric_apply_location : forall (P : Type) (D : dist P) thr det a b, det = "no_detrending"%string \/ det = "additive"%string -> 0 < a ->
  forall L S dobs dhist dfut obs hist fut obs' hist' fut',
  Driver_rel.windows_nonempty L S dfut dobs dhist dfut obs hist fut -> Affine.ARL a b obs obs' -> Affine.ARL a b hist hist' -> Affine.ARL a b fut fut' ->
  ApplyLocation_units.same_in_other_unit a b (Driver.driver_rw Q L S dobs dhist dfut obs hist fut (ApplyLocation_units.W_qm_np D thr det))
                                             (Driver.driver_rw Q L S dobs dhist dfut obs' hist' fut' (ApplyLocation_units.W_qm_np D thr det)).
Proof. exact @ApplyLocation_units.qm_np_apply_location_unit_change. Qed.
Print Assumptions C04_qm_nonparametric_apply_location.

Theorem C04_delta_change_apply_location : forall a b, 0 < a -> forall L S dobs dhist dfut obs hist fut obs' hist' fut',
  Driver_rel.windows_nonempty L S dobs dobs dhist dfut obs hist fut -> Affine.ARL a b obs obs' -> Affine.ARL a b hist hist' -> Affine.ARL a b fut fut' ->
  ApplyLocation_units.same_in_other_unit a b (Driver.driver_dc Q L S dobs dhist dfut obs hist fut (ApplyLocation_units.W_dc "additive"))
                                             (Driver.driver_dc Q L S dobs dhist dfut obs' hist' fut' (ApplyLocation_units.W_dc "additive")).
Proof. exact ApplyLocation_units.dc_apply_location_unit_change. Qed.
Print Assumptions C04_delta_change_apply_location.

(** parametric QuantileMapping and ECDFM through apply_location, for any distribution whose fit behaves like a
    location-scale family under the change of units on the admissible samples ([good]); satisfiable: the rational
    family on samples with non-zero spread *)
Theorem C04_qm_parametric_apply_location : forall (P : Type) (D : dist P) a b, 0 < a -> forall good, fit_unit_change D a b good ->
  forall thr L S dobs dhist dfut obs hist fut obs' hist' fut',
  Driver_rel.windows_ok good good good L S dfut dobs dhist dfut obs hist fut -> Affine.ARL a b obs obs' -> Affine.ARL a b hist hist' -> Affine.ARL a b fut fut' ->
  ApplyLocation_units.same_in_other_unit a b (Driver.driver_rw Q L S dobs dhist dfut obs hist fut (W_qm_param D thr)) (Driver.driver_rw Q L S dobs dhist dfut obs' hist' fut' (W_qm_param D thr)).
Proof. intros P D a b Ha good Hf. exact (qm_param_apply_location_unit_change D a b good Hf). Qed.
Print Assumptions C04_qm_parametric_apply_location.

Theorem C04_ecdfm_apply_location : forall (P : Type) (D : dist P) a b, 0 < a -> forall good, fit_unit_change D a b good ->
  forall thr L S dobs dhist dfut obs hist fut obs' hist' fut',
  Driver_rel.windows_ok good good good L S dfut dobs dhist dfut obs hist fut -> Affine.ARL a b obs obs' -> Affine.ARL a b hist hist' -> Affine.ARL a b fut fut' ->
  ApplyLocation_units.same_in_other_unit a b (Driver.driver_rw Q L S dobs dhist dfut obs hist fut (W_ecdfm D thr)) (Driver.driver_rw Q L S dobs dhist dfut obs' hist' fut' (W_ecdfm D thr)).
Proof. intros P D a b Ha good Hf. exact (ecdfm_apply_location_unit_change D a b good Hf). Qed.
Print Assumptions C04_ecdfm_apply_location.

Theorem C04_fit_unit_change_satisfiable : forall a b, 0 < a -> fit_unit_change ratls a b ratls_good.
Proof. exact ratls_fit_unit_change. Qed.
Print Assumptions C04_fit_unit_change_satisfiable.

(** ISIMIP step 5, additive trend preservation (hand model, K17): a change of units of the three series carries over
    to the pseudo future observations *)
Theorem C04_isimip_step5_additive : forall em im a b lb ub oh oh' ch ch' cf cf', 0 < a -> em = step_function \/ em = linear_interpolation ->
  oh <> [] -> ch <> [] -> cf <> [] -> Affine.ARL a b oh oh' -> Affine.ARL a b ch ch' -> Affine.ARL a b cf cf' ->
  Affine.ARL a b (step5 TAdditive em im lb ub oh ch cf) (step5 TAdditive em im lb ub oh' ch' cf').
Proof. exact step5_additive_unit_change. Qed.
Print Assumptions C04_isimip_step5_additive.

(** ScaledDistributionMapping (absolute; hand model Model/SDM.v, correspondence K15): a change of units of the three
    series carries over to the output, for any distribution whose fit on the detrended samples follows a rescaling
    (cdf, ppf and the scale parameter read as fit[1]); satisfiable by the rational family *)
Theorem C04_sdm_absolute_unit_change : forall (P : Type) (D : dist P) (scale_of : P -> Q) a b, 0 < a -> forall good,
  fit_unit_change D a 0 good ->
  (forall l l', good l -> Affine.ARL a 0 l l' -> scale_of (fit D l') == a * scale_of (fit D l) /\ ~ scale_of (fit D l) == 0) ->
  forall obs obs' hist hist' fut fut', Affine.ARL a b obs obs' -> Affine.ARL a b hist hist' -> Affine.ARL a b fut fut' ->
  obs <> [] -> hist <> [] -> fut <> [] -> good (detrend_const obs) -> good (detrend_const hist) -> good (detrend_const fut) ->
  Affine.ARL a b (sdm_absolute D scale_of obs hist fut) (sdm_absolute D scale_of obs' hist' fut').
Proof. intros P D scale_of a b Ha good H1 H2. exact (sdm_absolute_unit_change D scale_of a b Ha good H1 H2). Qed.
Print Assumptions C04_sdm_absolute_unit_change.

Theorem C04_sdm_hypotheses_satisfiable : forall a, 0 < a ->
  fit_unit_change ratls a 0 ratls_good /\
  (forall l l', ratls_good l -> Affine.ARL a 0 l l' -> snd (fit ratls l') == a * snd (fit ratls l) /\ ~ snd (fit ratls l) == 0).
Proof. intros a Ha. split; [exact (ratls_fit_unit_change a 0 Ha)|exact (ratls_scale_unit_change a Ha)]. Qed.
Print Assumptions C04_sdm_hypotheses_satisfiable.

(** QuantileDeltaMapping (absolute, either ECDF method, fits from the window's obs / cm_hist, year window off) through
    apply_location *)
Theorem C04_qdm_apply_location : forall (P : Type) (D : dist P) a b, 0 < a -> forall good, fit_unit_change D a b good ->
  forall em tq cth, em = step_function \/ em = linear_interpolation ->
  forall L S dobs dhist dfut obs hist fut obs' hist' fut',
  Driver_rel.windows_ok good good good L S dfut dobs dhist dfut obs hist fut -> Affine.ARL a b obs obs' -> Affine.ARL a b hist hist' -> Affine.ARL a b fut fut' ->
  ApplyLocation_units.same_in_other_unit a b (Driver.driver_rw Q L S dobs dhist dfut obs hist fut (W_qdm_fit D em tq cth))
                                             (Driver.driver_rw Q L S dobs dhist dfut obs' hist' fut' (W_qdm_fit D em tq cth)).
Proof. intros P D a b Ha good Hf em tq cth Hem. exact (qdm_apply_location_unit_change D a b Ha good Hf em tq cth Hem). Qed.
Print Assumptions C04_qdm_apply_location.

(** ISIMIP's window pipeline for an unbounded additive variable (Model/IsimipWindow.v, correspondence K22): expressing
    obs, cm_hist and cm_future in another unit (x -> a x + b, a > 0; years and significance decisions unchanged)
    changes every debiased value of the window by the same map — the annual means, the least-squares slope (times a),
    the centred trend (times a), the pseudo future observations, the fitted distributions and the restored trend all
    follow — for any distribution with fit_unit_change D a b, e.g. the rational family *)
Theorem C04_isimip_window_unit_change : forall (a b : Q), 0 < a -> forall (P : Type) (D : dist P) (good : list Q -> Prop),
  fit_unit_change D a b good -> (forall l, good l -> l <> []) ->
  forall em im thr, em = step_function \/ em = linear_interpolation ->
  forall so sh sf yo yh yf obs obs' hist hist' fut fut',
  yo <> [] -> yh <> [] -> yf <> [] -> List.length obs = List.length yo -> List.length hist = List.length yh -> List.length fut = List.length yf ->
  step3_remove so yo obs <> [] -> step3_remove sh yh hist <> [] ->
  good (step3_remove sf yf fut) ->
  good (step5 TAdditive em im 0 0 (step3_remove so yo obs) (step3_remove sh yh hist) (step3_remove sf yf fut)) ->
  ARL a b obs obs' -> ARL a b hist hist' -> ARL a b fut fut' ->
  ARL a b (isimip_window D em im thr so sh sf yo yh yf obs hist fut) (isimip_window D em im thr so sh sf yo yh yf obs' hist' fut').
Proof. intros a b Ha P D good H1 H2 em im thr H3. exact (isimip_window_unit_change a b Ha D good H1 H2 em im thr H3). Qed.
Print Assumptions C04_isimip_window_unit_change.

Theorem C04_isimip_window_unit_change_ratls : forall a b em im thr so sh sf yo yh yf obs obs' hist hist' fut fut',
  0 < a -> em = step_function \/ em = linear_interpolation ->
  yo <> [] -> yh <> [] -> yf <> [] -> List.length obs = List.length yo -> List.length hist = List.length yh -> List.length fut = List.length yf ->
  step3_remove so yo obs <> [] -> step3_remove sh yh hist <> [] ->
  ratls_good (step3_remove sf yf fut) ->
  ratls_good (step5 TAdditive em im 0 0 (step3_remove so yo obs) (step3_remove sh yh hist) (step3_remove sf yf fut)) ->
  ARL a b obs obs' -> ARL a b hist hist' -> ARL a b fut fut' ->
  ARL a b (isimip_window ratls em im thr so sh sf yo yh yf obs hist fut) (isimip_window ratls em im thr so sh sf yo yh yf obs' hist' fut').
Proof. exact isimip_window_unit_change_ratls. Qed.
Print Assumptions C04_isimip_window_unit_change_ratls.

(** ... and through the running-window loop of ISIMIP.apply_location on dated values: all three series expressed in
    the other unit (dates unchanged, a significance decision that does not depend on the unit) *)
Theorem C04_isimip_unit_change_through_windows : forall (a b : Q), 0 < a -> forall (P : Type) (D : dist P) (good : list Q -> Prop),
  fit_unit_change D a b good -> (forall l, good l -> l <> []) ->
  forall em im thr, em = step_function \/ em = linear_interpolation ->
  forall sigf : list Q -> list Z -> bool, (forall x x' y, ARL a b x x' -> sigf x' y = sigf x y) ->
  forall (L S : Z) (dobs dhist dfut : list Z) (obs obs' hist hist' fut fut' : list (Q * Z)),
  (forall ci, In ci (days_use S dfut) ->
     NP.take obs (days_indices_in_window L dobs (fst ci)) <> [] /\ NP.take hist (days_indices_in_window L dhist (fst ci)) <> [] /\
     window_ok good em im sigf (NP.take obs (days_indices_in_window L dobs (fst ci))) (NP.take hist (days_indices_in_window L dhist (fst ci)))
               (NP.take fut (days_indices_in_window L dfut (fst ci)))) ->
  Forall2 (PR2 a b) obs obs' -> Forall2 (PR2 a b) hist hist' -> Forall2 (PR2 a b) fut fut' ->
  orel (Forall2 (orel (AR a b))) (driver_rw Q L S dobs dhist dfut obs hist fut (W_isimip D em im thr sigf))
                                 (driver_rw Q L S dobs dhist dfut obs' hist' fut' (W_isimip D em im thr sigf)).
Proof. exact @isimip_unit_change_through_windows. Qed.
Print Assumptions C04_isimip_unit_change_through_windows.
