(** C04 — unit-change equivariance for unbounded variables.
    Property theorems only, about the per-window methods REGENERATED from the source (Gen/GenScalars.v;
    translation validated by correspondence K5).  [eql] = elementwise equality of rationals. *)
From Coq Require Import QArith Qabs List Bool String.
From IV Require Import QL Dist Ecdf QListFacts GenUtils GenScalars RatLS C16_compose C03_proofs C02_proofs C04_proofs C01_proofs C09_proofs RatLS_proofs.
Import ListNotations.
Open Scope Q_scope.

Theorem C04_ls_affine_equivariant : forall a b o h f,
  o <> [] -> h <> [] ->
  out_eql (ls_apply_on_window "additive" (aff a b o) (aff a b h) (aff a b f))
          (option_map (aff a b) (ls_apply_on_window "additive" o h f)).
Proof. exact @ls_affine_equivariant. Qed.
Print Assumptions C04_ls_affine_equivariant.

Theorem C04_ls_rescaling_equivariant : forall a o h f,
  o <> [] -> h <> [] -> ~ a == 0 -> ~ QL.qmean h == 0 ->
  out_eql (ls_apply_on_window "multiplicative" (aff a 0 o) (aff a 0 h) (aff a 0 f))
          (option_map (aff a 0) (ls_apply_on_window "multiplicative" o h f)).
Proof. exact @ls_rescaling_equivariant. Qed.
Print Assumptions C04_ls_rescaling_equivariant.

Theorem C04_dc_affine_equivariant : forall a b o h f,
  f <> [] -> h <> [] ->
  out_eql (dc_apply_on_window "additive" (aff a b o) (aff a b h) (aff a b f))
          (option_map (aff a b) (dc_apply_on_window "additive" o h f)).
Proof. exact @dc_affine_equivariant. Qed.
Print Assumptions C04_dc_affine_equivariant.

Theorem C04_dc_rescaling_equivariant : forall a o h f,
  f <> [] -> h <> [] -> ~ a == 0 -> ~ QL.qmean h == 0 ->
  out_eql (dc_apply_on_window "multiplicative" (aff a 0 o) (aff a 0 h) (aff a 0 f))
          (option_map (aff a 0) (dc_apply_on_window "multiplicative" o h f)).
Proof. exact @dc_rescaling_equivariant. Qed.
Print Assumptions C04_dc_rescaling_equivariant.

Theorem C04_qm_param_affine_equivariant : forall (P : Type) (D : dist P) t a b o h f,
  dist_proper D -> fit_affine_equivariant D -> 0 < a -> o <> [] -> h <> [] ->
  out_eql (qm_apply_on_window "no_detrending" "parametric" D t (aff a b o) (aff a b h) (aff a b f))
          (option_map (aff a b) (qm_apply_on_window "no_detrending" "parametric" D t o h f)).
Proof. exact @qm_param_affine_equivariant. Qed.
Print Assumptions C04_qm_param_affine_equivariant.

Theorem C04_qm_param_detrended_affine_equivariant : forall (P : Type) (D : dist P) t a b o h f,
  dist_proper D -> fit_affine_equivariant D -> 0 < a -> o <> [] -> h <> [] -> f <> [] ->
  out_eql (qm_apply_on_window "additive" "parametric" D t (aff a b o) (aff a b h) (aff a b f))
          (option_map (aff a b) (qm_apply_on_window "additive" "parametric" D t o h f)).
Proof. exact @qm_param_detrended_affine_equivariant. Qed.
Print Assumptions C04_qm_param_detrended_affine_equivariant.

Theorem C04_ecdfm_affine_equivariant : forall (P : Type) (D : dist P) t a b o h f,
  dist_proper D -> fit_affine_equivariant D -> 0 < a -> o <> [] -> h <> [] -> f <> [] ->
  eql (ecdfm_apply_on_window D t (aff a b o) (aff a b h) (aff a b f)) (aff a b (ecdfm_apply_on_window D t o h f)).
Proof. exact @ecdfm_affine_equivariant. Qed.
Print Assumptions C04_ecdfm_affine_equivariant.

(** the location-scale hypotheses are satisfiable: the rational family, fitted by (mean, mean absolute
    deviation), is affine-equivariant on every sample with non-zero spread *)
Theorem C04_ratls_fit_affine : forall a b l, 0 < a -> l <> [] -> ~ mad l == 0 ->
    (forall x, cdf ratls (fit ratls (aff a b l)) (a * x + b) == cdf ratls (fit ratls l) x) /\
    (forall p, ppf ratls (fit ratls (aff a b l)) p == a * ppf ratls (fit ratls l) p + b).
Proof. exact ratls_fit_affine. Qed.
Print Assumptions C04_ratls_fit_affine.

