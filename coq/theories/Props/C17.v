(** C17 — precipitation statistical models are coherent (fit, cdf, ppf; dry stays dry).
    Property theorems only.  Hurdle and left-censored models: REGENERATED from utils/_math_utils.py
    (Gen/GenPrecip.v); the amounts distribution / gamma distribution is a PARAMETER (any distribution,
    any fitted parameters); u is the uniform draw of the cdf randomisation (any value in [0,1)). *)
From Coq Require Import QArith List Bool.
From IV Require Import QL XQ Dist GenPrecip C17_proofs.
Import ListNotations.
Open Scope Q_scope.

Theorem C17_hurdle_roundtrip_wet : forall (P : Type) (D : dist P) (fr : P),
  (forall u v, u == v -> ppf D fr u == ppf D fr v) ->
  forall rand x p0 u, ~ x == 0 -> 0 <= p0 -> p0 < 1 -> 0 < cdf D fr x -> ppf D fr (cdf D fr x) == x ->
  hurdle_ppf D (hurdle_cdf D rand x p0 fr u) p0 fr == x.
Proof. exact @hurdle_roundtrip_wet. Qed.
Print Assumptions C17_hurdle_roundtrip_wet.

Theorem C17_hurdle_dry_zero : forall (P : Type) (D : dist P) (fr : P) rand p0 u, 0 <= p0 -> 0 <= u < 1 ->
  hurdle_ppf D (hurdle_cdf D rand 0 p0 fr u) p0 fr == 0.
Proof. exact @hurdle_dry_zero. Qed.
Print Assumptions C17_hurdle_dry_zero.

Theorem C17_hurdle_cdf_range : forall (P : Type) (D : dist P) (fr : P) rand x p0 u,
  0 <= p0 <= 1 -> 0 <= u < 1 -> 0 <= cdf D fr x <= 1 -> 0 <= hurdle_cdf D rand x p0 fr u <= 1.
Proof. exact @hurdle_cdf_range. Qed.
Print Assumptions C17_hurdle_cdf_range.

Theorem C17_hurdle_wet_ge_p0 : forall (P : Type) (D : dist P) (fr : P) rand x p0 u,
  ~ x == 0 -> p0 <= 1 -> 0 <= cdf D fr x -> p0 <= hurdle_cdf D rand x p0 fr u.
Proof. exact @hurdle_wet_ge_p0. Qed.
Print Assumptions C17_hurdle_wet_ge_p0.

Theorem C17_hurdle_cdf_mono_wet : forall (P : Type) (D : dist P) (fr : P) rand x y p0 u v,
  ~ x == 0 -> ~ y == 0 -> p0 <= 1 -> cdf D fr x <= cdf D fr y ->
  hurdle_cdf D rand x p0 fr u <= hurdle_cdf D rand y p0 fr v.
Proof. exact @hurdle_cdf_mono_wet. Qed.
Print Assumptions C17_hurdle_cdf_mono_wet.

Theorem C17_hurdle_p0_is_zero_fraction : forall (P : Type) (D : dist P) data, data <> [] ->
  fst (hurdle_fit D data) == inject_Z (Z.of_nat (length (filter (fun v => Qeq_bool v 0) data))) / inject_Z (Z.of_nat (length data)).
Proof. exact @hurdle_p0_is_zero_fraction. Qed.
Print Assumptions C17_hurdle_p0_is_zero_fraction.

Theorem C17_censored_roundtrip : forall (P : Type) (G : dist P) (gf : P) thr x u,
  thr <= x -> ppf G gf (cdf G gf x) == x -> censored_ppf thr true (censored_cdf thr x gf G u) gf G == x.
Proof. exact @censored_roundtrip. Qed.
Print Assumptions C17_censored_roundtrip.

Theorem C17_censored_dry_zero : forall (P : Type) (G : dist P) (gf : P) thr x u,
  0 < thr -> x < thr -> 0 <= u < 1 -> (forall y, ppf G gf (cdf G gf y) == y) ->
  censored_ppf thr true (censored_cdf thr x gf G u) gf G == 0.
Proof. exact @censored_dry_zero. Qed.
Print Assumptions C17_censored_dry_zero.

(** ignore-zeros model (REGENERATED from the source): exactly the zeros are sent to -inf and come back as 0;
    every other value, however small, keeps a finite cdf value and round-trips *)
Theorem C17_ignorezeros_sentinel : forall (P : Type) (D : dist P) (fr : P),
  ignorezeros_cdf D 0 fr = XQ.NInf /\ ignorezeros_ppf D XQ.NInf fr == 0.
Proof. exact @ignorezeros_sentinel. Qed.
Print Assumptions C17_ignorezeros_sentinel.

Theorem C17_ignorezeros_only_zeros_ignored : forall (P : Type) (D : dist P) (fr : P) x,
  (x == 0 -> ignorezeros_cdf D x fr = XQ.NInf) /\ (~ x == 0 -> ignorezeros_cdf D x fr = XQ.Fin (cdf D fr x)).
Proof. exact @ignorezeros_cdf_spec. Qed.
Print Assumptions C17_ignorezeros_only_zeros_ignored.

Theorem C17_ignorezeros_roundtrip_wet : forall (P : Type) (D : dist P) (fr : P) x,
  ~ x == 0 -> ppf D fr (cdf D fr x) == x -> ignorezeros_ppf D (ignorezeros_cdf D x fr) fr == x.
Proof. exact @ignorezeros_roundtrip_wet. Qed.
Print Assumptions C17_ignorezeros_roundtrip_wet.

Theorem C17_ignorezeros_dry_zero : forall (P : Type) (D : dist P) (fr : P),
  ignorezeros_ppf D (ignorezeros_cdf D 0 fr) fr == 0.
Proof. exact @ignorezeros_dry_zero. Qed.
Print Assumptions C17_ignorezeros_dry_zero.
