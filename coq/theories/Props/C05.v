(** C05 — grid application is exactly the per-location method, serial or parallel.
    Property theorems only (model: Model/Grid.v, tied to _debiaser.py by correspondence K8). *)
From Coq Require Import List Bool Arith Permutation.
From IV Require Import Grid Grid_proofs Grid_corollaries Grid_more.
Import ListNotations.

(** for ALL grid shapes X x Y (1xN, Nx1 included), all time lengths (obs / cm_hist / cm_future
    columns may have different lengths), every per-location function returning T values:
    the output has shape X x Y x T and its column at every cell is the per-location result *)
Theorem C05_cell_independence : forall (V : Type) (nan : V) f T X Y obs hist fut,
  returns_length V f T -> (forall i j, i < X -> j < Y -> ~ fails_at V f obs hist fut i j) ->
  forall failsafe, exists b, apply_serial V nan failsafe f T X Y obs hist fut = Some b /\ dims V b X Y /\
    forall i j, i < X -> j < Y ->
      exists c, f (cell V obs i j) (cell V hist i j) (cell V fut i j) = Some c /\ ocell V b i j = Some c /\ length c = T.
Proof. exact cell_independence. Qed.
Print Assumptions C05_cell_independence.

Theorem C05_no_cross_influence : forall (V : Type) (nan : V) f T X Y obs hist fut obs' hist' fut' i j b b' failsafe,
  apply_serial V nan failsafe f T X Y obs hist fut = Some b ->
  apply_serial V nan failsafe f T X Y obs' hist' fut' = Some b' ->
  i < X -> j < Y ->
  cell V obs i j = cell V obs' i j -> cell V hist i j = cell V hist' i j -> cell V fut i j = cell V fut' i j ->
  ocell V b i j = ocell V b' i j.
Proof. exact no_cross_influence. Qed.
Print Assumptions C05_no_cross_influence.

(** parallel = serial for EVERY order in which the pool completes the locations (any permutation
    of the X*Y tasks); the number of worker processes does not appear in the result at all *)
Theorem C05_parallel_eq_serial : forall (V : Type) (nan : V) failsafe f T X Y obs hist fut sched,
  Permutation sched (seq 0 (X * Y)) ->
  apply_parallel V nan failsafe f T X Y obs hist fut sched = apply_serial V nan failsafe f T X Y obs hist fut.
Proof. exact parallel_eq_serial. Qed.
Print Assumptions C05_parallel_eq_serial.

(** inputs that differ in ONE cell (all three series may differ there) give outputs that differ at most in
    that cell, for every grid shape and with or without failsafe *)
Theorem C05_single_cell_change : forall (V : Type) (nan : V) f T X Y obs hist fut obs' hist' fut' i0 j0 b b' failsafe,
  (forall i j, i < X -> j < Y -> (i, j) <> (i0, j0) ->
     cell V obs i j = cell V obs' i j /\ cell V hist i j = cell V hist' i j /\ cell V fut i j = cell V fut' i j) ->
  apply_serial V nan failsafe f T X Y obs hist fut = Some b ->
  apply_serial V nan failsafe f T X Y obs' hist' fut' = Some b' ->
  forall i j, i < X -> j < Y -> (i, j) <> (i0, j0) -> ocell V b i j = ocell V b' i j.
Proof. exact single_cell_change. Qed.
Print Assumptions C05_single_cell_change.

(** when no location fails, the failsafe flag does not change the result *)
Theorem C05_failsafe_flag_irrelevant : forall (V : Type) (nan : V) f T X Y obs hist fut,
  returns_length V f T -> (forall i j, i < X -> j < Y -> ~ fails_at V f obs hist fut i j) ->
  exists b b', apply_serial V nan true f T X Y obs hist fut = Some b /\
               apply_serial V nan false f T X Y obs hist fut = Some b' /\
               dims V b X Y /\ dims V b' X Y /\
               forall i j, i < X -> j < Y -> ocell V b i j = ocell V b' i j.
Proof. exact failsafe_flag_irrelevant. Qed.
Print Assumptions C05_failsafe_flag_irrelevant.

(** non-vacuity: a 2 x 3 grid with different time lengths, parallel completion in reverse order *)
Example C05_nonvacuous :
  let f := fun (o h fu : list nat) => Some (map (fun x => x + length o + 2 * length h) fu) in
  let mk := fun T k => [[repeat k T; repeat (k + 1) T; repeat (k + 2) T]; [repeat (k + 3) T; repeat (k + 4) T; repeat (k + 5) T]] in
  apply_parallel nat 0 false f 4 2 3 (mk 2 10) (mk 3 20) (mk 4 30) [5; 4; 3; 2; 1; 0]
  = apply_serial nat 0 false f 4 2 3 (mk 2 10) (mk 3 20) (mk 4 30) /\
  ocell nat (match apply_serial nat 0 false f 4 2 3 (mk 2 10) (mk 3 20) (mk 4 30) with Some b => b | None => [] end) 1 2
  = Some [43; 43; 43; 43].
Proof. vm_compute. split; reflexivity. Qed.
