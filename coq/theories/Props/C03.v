(** C03 — no-bias fixed point: an unbiased model is left unchanged.
    Property theorems only, about the per-window methods REGENERATED from the source (Gen/GenScalars.v;
    translation validated by correspondence K5).  [eql] is elementwise equality of rationals. *)
From Coq Require Import QArith List Bool String.
From IV Require Import QL NP Dist Ecdf QListFacts GenWindows GenUtils GenScalars C03_proofs LinInverse C03_cdft Driver Driver_rel ApplyLocation_units FixedPoint_windows.
Import ListNotations.
Open Scope Q_scope.

Theorem C03_ls_fix_additive : forall h f,
  ls_apply_on_window "additive" h h f = Some (map (fun x => x - (QL.qmean h - QL.qmean h)) f) /\
  eql (map (fun x => x - (QL.qmean h - QL.qmean h)) f) f.
Proof. exact ls_fix_additive. Qed.
Print Assumptions C03_ls_fix_additive.

Theorem C03_ls_fix_multiplicative : forall h f, ~ QL.qmean h == 0 ->
  ls_apply_on_window "multiplicative" h h f = Some (map (fun x => x * (QL.qmean h / QL.qmean h)) f) /\
  eql (map (fun x => x * (QL.qmean h / QL.qmean h)) f) f.
Proof. exact ls_fix_multiplicative. Qed.
Print Assumptions C03_ls_fix_multiplicative.

Theorem C03_dc_fix_additive : forall o h,
  dc_apply_on_window "additive" o h h = Some (map (fun x => x + (QL.qmean h - QL.qmean h)) o) /\
  eql (map (fun x => x + (QL.qmean h - QL.qmean h)) o) o.
Proof. exact dc_fix_additive. Qed.
Print Assumptions C03_dc_fix_additive.

Theorem C03_dc_fix_multiplicative : forall o h, ~ QL.qmean h == 0 ->
  dc_apply_on_window "multiplicative" o h h = Some (map (fun x => x * (QL.qmean h / QL.qmean h)) o) /\
  eql (map (fun x => x * (QL.qmean h / QL.qmean h)) o) o.
Proof. exact dc_fix_multiplicative. Qed.
Print Assumptions C03_dc_fix_multiplicative.

(** ECDFM and QDM: exact for ANY distribution object (same sample => same fit) *)
Theorem C03_ecdfm_fix : forall (P : Type) (D : dist P) t h f, eql (ecdfm_apply_on_window D t h h f) f.
Proof. exact @ecdfm_fix. Qed.
Print Assumptions C03_ecdfm_fix.

Theorem C03_qdm_fix_absolute : forall (P : Type) (D : dist P) em t cth (fit_h : P) f,
  exists out, qdm_apply_debiasing_steps em t "absolute" D false cth f fit_h fit_h = Some out /\ eql out f.
Proof. exact @qdm_fix_absolute. Qed.
Print Assumptions C03_qdm_fix_absolute.

Theorem C03_qdm_fix_relative : forall (P : Type) (D : dist P) em t cth (fit_h : P) f,
  (forall p, ~ ppf D fit_h p == 0) ->
  exists out, qdm_apply_debiasing_steps em t "relative" D false cth f fit_h fit_h = Some out /\ eql out f.
Proof. exact @qdm_fix_relative. Qed.
Print Assumptions C03_qdm_fix_relative.

Theorem C03_qdm_fix_censored : forall (P : Type) (D : dist P) em t cth (fit_h : P) f,
  exists out mid, qdm_apply_debiasing_steps em t "absolute" D true cth f fit_h fit_h = Some out /\
    out = map (censor cth) mid /\ eql mid f.
Proof. exact @qdm_fix_censored. Qed.
Print Assumptions C03_qdm_fix_censored.

(** parametric QuantileMapping with obs = cm_hist: ppf(clamp(cdf x)) with the SAME fit, i.e. the
    identity wherever the cdf value lies between the thresholds (clamped outside: the precise form) *)
Theorem C03_qm_param_fix_form : forall (P : Type) (D : dist P) t h x,
  qm_standard_qm "parametric" D t x h h = Some (map (fun v => ppf D (fit D h) (clampq t (cdf D (fit D h) v))) x).
Proof. exact @qm_param_fix_form. Qed.
Print Assumptions C03_qm_param_fix_form.

Theorem C03_qm_param_fix : forall (P : Type) (D : dist P) t h x,
  (forall p v v', v == v' -> ppf D p v == ppf D p v') ->
  (forall p v, ppf D p (cdf D p v) == v) ->
  Forall (fun v => t <= cdf D (fit D h) v /\ cdf D (fit D h) v <= 1 - t) x ->
  exists out, qm_standard_qm "parametric" D t x h h = Some out /\ eql out x.
Proof. exact @qm_param_fix. Qed.
Print Assumptions C03_qm_param_fix.

(** CDFt (default methods: interpolated ECDF, linear quantile): with cm_hist equal to obs value for value and
    tie-free samples of at least two values, the mapping F_fut^-1 o F_hist o F_obs^-1 o F_fut is the identity on
    the future sample.  Rests on the two inverse laws of the interpolated pair, proved for every tie-free sample. *)
Theorem C03_interpolated_ecdf_quantile_inverse : forall s, strictQ s -> (2 <= List.length s)%nat ->
  (forall p, 0 <= p <= 1 -> ecdf_lin_sorted s (iecdf_sorted linear s p) == p) /\
  (forall y, In y s -> iecdf_sorted linear s (ecdf_lin_sorted s y) == y).
Proof. intros s Hs Hn. split; [exact (ecdf_iecdf_lin s Hs Hn)|exact (iecdf_ecdf_lin_at_sample s Hs Hn)]. Qed.
Print Assumptions C03_interpolated_ecdf_quantile_inverse.

Theorem C03_cdft_fix : forall obs hist fut,
  eql obs hist -> strictQ (qsort obs) -> (2 <= List.length obs)%nat -> strictQ (qsort fut) -> (2 <= List.length fut)%nat ->
  exists out, cdft_apply_mapping "additive" linear_interpolation linear obs hist fut = Some out /\ eql out fut.
Proof. exact cdft_fixed_point. Qed.
Print Assumptions C03_cdft_fix.

Example C03_cdft_nonvacuous :
  let o := [3; 1 # 2; 7; 5] in let f := [9; 2; 4] in
  strictQ (qsort o) /\ strictQ (qsort f) /\
  match cdft_apply_mapping "additive" linear_interpolation linear o o f with
  | Some out => forallb (fun p => Qeq_bool (fst p) (snd p)) (combine out f) = true
  | None => False
  end.
Proof.
  cbv zeta. split; [|split].
  - vm_compute. repeat constructor.
  - vm_compute. repeat constructor.
  - vm_compute. reflexivity.
Qed.

(** ---- through apply_location with a running window over the year (Model/Driver.v over the REGENERATED
    window functions), for every window length / step and calendar: if the per-window method returns the
    future slice of every window it is given unchanged, apply_location returns cm_future unchanged, at every
    time step.  Instantiated at LinearScaling and at CDFt (cm_hist = obs value for value on the same time
    axis; for CDFt tie-free window samples of at least two values). *)
Theorem C03_fixed_point_through_windows : forall L S, (0 < S)%Z -> (S <= L)%Z -> (S mod 2 = 1)%Z ->
  forall dobs dhist dfut obs hist fut, (forall d, In d dfut -> (1 <= d <= 366)%Z) -> List.length fut = List.length dfut ->
  forall W : list Q -> list Q -> list Q -> list Q,
  (forall ci, In ci (days_use S dfut) ->
     eql (W (slice_o L dobs obs (fst ci)) (slice_h L dhist hist (fst ci)) (slice_f L dfut fut (fst ci))) (slice_f L dfut fut (fst ci))) ->
  exists out, driver_rw Q L S dobs dhist dfut obs hist fut W = Some out /\ List.length out = List.length fut /\
    forall k, (k < List.length fut)%nat -> exists v, nth k out None = Some v /\ v == nth k fut 0.
Proof. exact fixed_point_through_windows. Qed.
Print Assumptions C03_fixed_point_through_windows.

Theorem C03_linear_scaling_apply_location : forall L S, (0 < S)%Z -> (S <= L)%Z -> (S mod 2 = 1)%Z ->
  forall dobs dfut obs hist fut, (forall d, In d dfut -> (1 <= d <= 366)%Z) -> List.length fut = List.length dfut -> eql obs hist ->
  exists out, driver_rw Q L S dobs dobs dfut obs hist fut (W_ls "additive") = Some out /\ List.length out = List.length fut /\
    forall k, (k < List.length fut)%nat -> exists v, nth k out None = Some v /\ v == nth k fut 0.
Proof. exact ls_fixed_point_apply_location. Qed.
Print Assumptions C03_linear_scaling_apply_location.

Theorem C03_cdft_apply_location : forall L S, (0 < S)%Z -> (S <= L)%Z -> (S mod 2 = 1)%Z ->
  forall dobs dfut obs hist fut, (forall d, In d dfut -> (1 <= d <= 366)%Z) -> List.length fut = List.length dfut -> eql obs hist ->
  (forall ci, In ci (days_use S dfut) ->
     strictQ (qsort (slice_o L dobs obs (fst ci))) /\ (2 <= List.length (slice_o L dobs obs (fst ci)))%nat /\
     strictQ (qsort (slice_f L dfut fut (fst ci))) /\ (2 <= List.length (slice_f L dfut fut (fst ci)))%nat) ->
  exists out, driver_rw Q L S dobs dobs dfut obs hist fut (W_cdft linear_interpolation linear) = Some out /\ List.length out = List.length fut /\
    forall k, (k < List.length fut)%nat -> exists v, nth k out None = Some v /\ v == nth k fut 0.
Proof. exact cdft_fixed_point_apply_location. Qed.
Print Assumptions C03_cdft_apply_location.

(** DeltaChange through its window loop: with cm_future equal to cm_hist value for value on the same time axis,
    apply_location returns obs at every time step *)
Theorem C03_delta_change_apply_location : forall L S, (0 < S)%Z -> (S <= L)%Z -> (S mod 2 = 1)%Z ->
  forall dobs dm obs hist fut, (forall d, In d dobs -> (1 <= d <= 366)%Z) -> List.length obs = List.length dobs -> eql hist fut ->
  exists out, driver_dc Q L S dobs dm dm obs hist fut (W_dc "additive") = Some out /\ List.length out = List.length obs /\
    forall k, (k < List.length obs)%nat -> exists v, nth k out None = Some v /\ v == nth k obs 0.
Proof. exact dc_fixed_point_apply_location. Qed.
Print Assumptions C03_delta_change_apply_location.
