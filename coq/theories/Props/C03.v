(** C03 — no-bias fixed point: an unbiased model is left unchanged.
    Property theorems only, about the per-window methods REGENERATED from the source (Gen/GenScalars.v;
    translation validated by correspondence K5).  [eql] is elementwise equality of rationals. *)
From Coq Require Import QArith List Bool String.
From IV Require Import QL Dist Ecdf QListFacts GenUtils GenScalars C03_proofs.
Import ListNotations.
Open Scope Q_scope.

Theorem C03_ls_fix_additive : forall h f,
  ls_apply_on_window "additive" h h f = Some (map (fun x => x - (QL.qmean h - QL.qmean h)) f) /\
  eql (map (fun x => x - (QL.qmean h - QL.qmean h)) f) f.
Proof. exact ls_fix_additive. Qed.
Print Assumptions C03_ls_fix_additive.

Theorem C03_ls_fix_multiplicative : forall h f, ~ QL.qmean h == 0 ->
  ls_apply_on_window "multiplicative" h h f = Some (map (fun x => x * (QL.qmean h / QL.qmean h)) f) /\
  eql (map (fun x => x * (QL.qmean h / QL.qmean h)) f) f.
Proof. exact ls_fix_multiplicative. Qed.
Print Assumptions C03_ls_fix_multiplicative.

Theorem C03_dc_fix_additive : forall o h,
  dc_apply_on_window "additive" o h h = Some (map (fun x => x + (QL.qmean h - QL.qmean h)) o) /\
  eql (map (fun x => x + (QL.qmean h - QL.qmean h)) o) o.
Proof. exact dc_fix_additive. Qed.
Print Assumptions C03_dc_fix_additive.

Theorem C03_dc_fix_multiplicative : forall o h, ~ QL.qmean h == 0 ->
  dc_apply_on_window "multiplicative" o h h = Some (map (fun x => x * (QL.qmean h / QL.qmean h)) o) /\
  eql (map (fun x => x * (QL.qmean h / QL.qmean h)) o) o.
Proof. exact dc_fix_multiplicative. Qed.
Print Assumptions C03_dc_fix_multiplicative.

(** ECDFM and QDM: exact for ANY distribution object (same sample => same fit) *)
Theorem C03_ecdfm_fix : forall (P : Type) (D : dist P) t h f, eql (ecdfm_apply_on_window D t h h f) f.
Proof. exact @ecdfm_fix. Qed.
Print Assumptions C03_ecdfm_fix.

Theorem C03_qdm_fix_absolute : forall (P : Type) (D : dist P) em t cth (fit_h : P) f,
  exists out, qdm_apply_debiasing_steps em t "absolute" D false cth f fit_h fit_h = Some out /\ eql out f.
Proof. exact @qdm_fix_absolute. Qed.
Print Assumptions C03_qdm_fix_absolute.

Theorem C03_qdm_fix_relative : forall (P : Type) (D : dist P) em t cth (fit_h : P) f,
  (forall p, ~ ppf D fit_h p == 0) ->
  exists out, qdm_apply_debiasing_steps em t "relative" D false cth f fit_h fit_h = Some out /\ eql out f.
Proof. exact @qdm_fix_relative. Qed.
Print Assumptions C03_qdm_fix_relative.

Theorem C03_qdm_fix_censored : forall (P : Type) (D : dist P) em t cth (fit_h : P) f,
  exists out mid, qdm_apply_debiasing_steps em t "absolute" D true cth f fit_h fit_h = Some out /\
    out = map (censor cth) mid /\ eql mid f.
Proof. exact @qdm_fix_censored. Qed.
Print Assumptions C03_qdm_fix_censored.

(** parametric QuantileMapping with obs = cm_hist: ppf(clamp(cdf x)) with the SAME fit, i.e. the
    identity wherever the cdf value lies between the thresholds (clamped outside: the precise form) *)
Theorem C03_qm_param_fix_form : forall (P : Type) (D : dist P) t h x,
  qm_standard_qm "parametric" D t x h h = Some (map (fun v => ppf D (fit D h) (clampq t (cdf D (fit D h) v))) x).
Proof. exact @qm_param_fix_form. Qed.
Print Assumptions C03_qm_param_fix_form.

Theorem C03_qm_param_fix : forall (P : Type) (D : dist P) t h x,
  (forall p v v', v == v' -> ppf D p v == ppf D p v') ->
  (forall p v, ppf D p (cdf D p v) == v) ->
  Forall (fun v => t <= cdf D (fit D h) v /\ cdf D (fit D h) v <= 1 - t) x ->
  exists out, qm_standard_qm "parametric" D t x h h = Some out /\ eql out x.
Proof. exact @qm_param_fix. Qed.
Print Assumptions C03_qm_param_fix.
