(** C09 — quantile-mapping transfer functions are monotone.
    Property theorems only, about the per-window methods REGENERATED from the source (Gen/GenScalars.v;
    translation validated by correspondence K5).  [eql] = elementwise equality of rationals. *)
From Coq Require Import QArith Qabs List Bool String.
From IV Require Import QL Dist Ecdf QListFacts GenUtils GenScalars RatLS C16_compose C03_proofs C02_proofs C04_proofs C01_proofs C09_proofs RatLS_proofs IsimipStep4 C09_step4 IsimipWindow IsimipWindow_reference.
Import ListNotations.
Open Scope Q_scope.

Theorem C09_ls_add_monotone : forall o h f,
  exists G, ls_apply_on_window "additive" o h f = Some (map G f) /\ monotone G.
Proof. exact @ls_add_monotone. Qed.
Print Assumptions C09_ls_add_monotone.

Theorem C09_ls_mul_monotone : forall o h f,
  0 <= QL.qmean o / QL.qmean h ->
  exists G, ls_apply_on_window "multiplicative" o h f = Some (map G f) /\ monotone G.
Proof. exact @ls_mul_monotone. Qed.
Print Assumptions C09_ls_mul_monotone.

Theorem C09_qm_param_monotone : forall (P : Type) (D : dist P) t o h x, dist_monotone D -> t <= 1 - t ->
  exists G, qm_standard_qm "parametric" D t x o h = Some (map G x) /\ monotone G.
Proof. exact @qm_param_monotone. Qed.
Print Assumptions C09_qm_param_monotone.

Theorem C09_qm_param_detrended_monotone : forall (P : Type) (D : dist P) t o h f, dist_monotone D -> t <= 1 - t ->
  exists G, qm_apply_on_window "additive" "parametric" D t o h f = Some (map G f) /\ monotone G.
Proof. exact @qm_param_detrended_monotone. Qed.
Print Assumptions C09_qm_param_detrended_monotone.

Theorem C09_qm_param_mult_detrended_monotone : forall (P : Type) (D : dist P) t o h f, dist_monotone D -> t <= 1 - t ->
  0 < QL.qmean f / QL.qmean h ->
  exists G, qm_apply_on_window "multiplicative" "parametric" D t o h f = Some (map G f) /\ monotone G.
Proof. exact @qm_param_mult_detrended_monotone. Qed.
Print Assumptions C09_qm_param_mult_detrended_monotone.

Theorem C09_qm_nonparam_monotone : forall (P : Type) (D : dist P) t o h x,
  o <> [] -> h <> [] ->
  exists G, qm_standard_qm "nonparametric" D t x o h = Some (map G x) /\ monotone G.
Proof. exact @qm_nonparam_monotone. Qed.
Print Assumptions C09_qm_nonparam_monotone.

Theorem C09_cdft_monotone : forall ds em im o h f,
  proved_ecdf em -> proved_iecdf im -> o <> [] -> h <> [] -> f <> [] ->
  (ds = "additive" \/ ds = "no_shift")%string ->
  exists G, cdft_apply_mapping ds em im o h f = Some (map G f) /\ monotone G.
Proof. exact @cdft_monotone. Qed.
Print Assumptions C09_cdft_monotone.


(** ISIMIP step 4 (hand model Model/IsimipStep4.v, tied to the code by correspondence K16): the randomisation of
    the values at or beyond a threshold never reorders values, whatever the uniform draws are; the randomised
    values stay between bound and threshold and the other values are untouched *)
Theorem C09_isimip_step4_lower_never_reorders : forall lb lt us vals, lb <= lt -> Forall (fun u => 0 <= u /\ u <= 1) us ->
  (ctrue (map (fun v => Qle_bool v lt) vals) <= List.length us)%nat ->
  forall i j, (i < List.length vals)%nat -> (j < List.length vals)%nat -> nth i vals 0 < nth j vals 0 ->
  nth i (step4_lower lb lt us vals) 0 <= nth j (step4_lower lb lt us vals) 0.
Proof. exact isimip_step4_lower_never_reorders. Qed.
Print Assumptions C09_isimip_step4_lower_never_reorders.

Theorem C09_isimip_step4_upper_never_reorders : forall ut ub us vals, ut <= ub -> Forall (fun u => 0 <= u /\ u <= 1) us ->
  (ctrue (map (fun v => Qle_bool ut v) vals) <= List.length us)%nat ->
  forall i j, (i < List.length vals)%nat -> (j < List.length vals)%nat -> nth i vals 0 < nth j vals 0 ->
  nth i (step4_upper ut ub us vals) 0 <= nth j (step4_upper ut ub us vals) 0.
Proof. exact isimip_step4_upper_never_reorders. Qed.
Print Assumptions C09_isimip_step4_upper_never_reorders.

Theorem C09_isimip_step4_lower_values : forall lb lt us vals, lb <= lt -> Forall (fun u => 0 <= u /\ u <= 1) us ->
  (ctrue (map (fun v => Qle_bool v lt) vals) <= List.length us)%nat ->
  forall i, (i < List.length vals)%nat ->
  (nth i vals 0 <= lt -> lb <= nth i (step4_lower lb lt us vals) 0 /\ nth i (step4_lower lb lt us vals) 0 <= lt) /\
  (lt < nth i vals 0 -> nth i (step4_lower lb lt us vals) 0 = nth i vals 0).
Proof. exact isimip_step4_lower_values. Qed.
Print Assumptions C09_isimip_step4_lower_values.

(** CDFt SSR randomisation of zeros (REGENERATED): never reorders two values, whatever the draws, given the SSR
    threshold does not exceed any positive value (C10_ssr_threshold_is_smallest_positive) *)
Theorem C09_cdft_ssr_never_reorders : forall thr x y ux uy : Q, 0 <= x -> x < y -> thr <= y -> 0 <= ux -> ux < 1 -> 0 < thr ->
  cdft_randomize_zero x thr ux <= cdft_randomize_zero y thr uy.
Proof. exact ssr_never_reorders. Qed.
Print Assumptions C09_cdft_ssr_never_reorders.

(** ISIMIP step 6, parametric value adjustment of an unbounded variable (Model/IsimipWindow.v step6_unbounded, K22): a
    value-wise non-decreasing function of the cm_future value, for any distribution with monotone cdf and ppf *)
Theorem C09_isimip_step6_unbounded_monotone : forall (P : Type) (D : dist P) thr ofu f, dist_monotone D -> thr <= 1 - thr ->
  exists G, step6_unbounded D thr ofu f = map G f /\ monotone G.
Proof. exact @step6_unbounded_monotone. Qed.
Print Assumptions C09_isimip_step6_unbounded_monotone.
