(** C09 — quantile-mapping transfer functions are monotone.
    Property theorems only, about the per-window methods REGENERATED from the source (Gen/GenScalars.v;
    translation validated by correspondence K5).  [eql] = elementwise equality of rationals. *)
From Coq Require Import QArith Qabs List Bool String.
From IV Require Import QL Dist Ecdf QListFacts GenUtils GenScalars RatLS C16_compose C03_proofs C02_proofs C04_proofs C01_proofs C09_proofs RatLS_proofs.
Import ListNotations.
Open Scope Q_scope.

Theorem C09_ls_add_monotone : forall o h f,
  exists G, ls_apply_on_window "additive" o h f = Some (map G f) /\ monotone G.
Proof. exact @ls_add_monotone. Qed.
Print Assumptions C09_ls_add_monotone.

Theorem C09_ls_mul_monotone : forall o h f,
  0 <= QL.qmean o / QL.qmean h ->
  exists G, ls_apply_on_window "multiplicative" o h f = Some (map G f) /\ monotone G.
Proof. exact @ls_mul_monotone. Qed.
Print Assumptions C09_ls_mul_monotone.

Theorem C09_qm_param_monotone : forall (P : Type) (D : dist P) t o h x, dist_monotone D -> t <= 1 - t ->
  exists G, qm_standard_qm "parametric" D t x o h = Some (map G x) /\ monotone G.
Proof. exact @qm_param_monotone. Qed.
Print Assumptions C09_qm_param_monotone.

Theorem C09_qm_param_detrended_monotone : forall (P : Type) (D : dist P) t o h f, dist_monotone D -> t <= 1 - t ->
  exists G, qm_apply_on_window "additive" "parametric" D t o h f = Some (map G f) /\ monotone G.
Proof. exact @qm_param_detrended_monotone. Qed.
Print Assumptions C09_qm_param_detrended_monotone.

Theorem C09_qm_param_mult_detrended_monotone : forall (P : Type) (D : dist P) t o h f, dist_monotone D -> t <= 1 - t ->
  0 < QL.qmean f / QL.qmean h ->
  exists G, qm_apply_on_window "multiplicative" "parametric" D t o h f = Some (map G f) /\ monotone G.
Proof. exact @qm_param_mult_detrended_monotone. Qed.
Print Assumptions C09_qm_param_mult_detrended_monotone.

Theorem C09_qm_nonparam_monotone : forall (P : Type) (D : dist P) t o h x,
  o <> [] -> h <> [] ->
  exists G, qm_standard_qm "nonparametric" D t x o h = Some (map G x) /\ monotone G.
Proof. exact @qm_nonparam_monotone. Qed.
Print Assumptions C09_qm_nonparam_monotone.

Theorem C09_cdft_monotone : forall ds em im o h f,
  proved_ecdf em -> proved_iecdf im -> o <> [] -> h <> [] -> f <> [] ->
  (ds = "additive" \/ ds = "no_shift")%string ->
  exists G, cdft_apply_mapping ds em im o h f = Some (map G f) /\ monotone G.
Proof. exact @cdft_monotone. Qed.
Print Assumptions C09_cdft_monotone.

