(** C12 — debiasing is pure: inputs untouched, instances reusable.
    Property theorems only.  The program analysed (Gen/GenEffects.v) is EXTRACTED from the current source on
    every run; the checker's soundness (Proofs/Effects_proofs.v) is proved once for all programs. *)
From Coq Require Import List Bool String Arith.
From IV Require Import Effects Effects_proofs GenEffects C12_proofs.
Import ListNotations.
Open Scope string_scope.

(** soundness of the effect checker, for ALL programs, summaries and points-to claims: a function writes only
    locations of parameters in its [mut] summary or locations allocated during the call *)
Theorem C12_checker_sound : forall (p : program) (sums : summaries) (pts : pointsto), check_program p sums pts = true ->
  forall f s n locs h nx sf h' nx' sf' lr, lookup f sums = Some s -> mut s = [] -> (forall l, In l locs -> l < nx) ->
  call p n f locs h nx sf h' nx' sf' lr -> forall k, k < nx -> h' k = h k.
Proof. exact pure_function. Qed.
Print Assumptions C12_checker_sound.

Theorem C12_extracted_program_checks : check_program gen_program gen_summaries gen_pointsto = true.
Proof. exact extracted_program_checks. Qed.
Print Assumptions C12_extracted_program_checks.

(** apply and apply_location of all eight debiasers (and the ISIMIP steps reached through them) never write
    into an array that existed before the call: obs, cm_hist, cm_future and the time arrays are untouched *)
Theorem C12_entry_points_pure : forall e, In e entry_points ->
  forall n locs h nx sf h' nx' sf' lr, (forall l, In l locs -> l < nx) ->
  call gen_program n e locs h nx sf h' nx' sf' lr -> forall k, k < nx -> h' k = h k.
Proof. exact entry_points_pure. Qed.
Print Assumptions C12_entry_points_pure.

Theorem C12_entry_points_self_writes : forall e s, In e entry_points -> lookup e gen_summaries = Some s ->
  forall n locs h nx sf h' nx' sf' lr, (forall l, In l locs -> l < nx) ->
  call gen_program n e locs h nx sf h' nx' sf' lr -> forall a, In a sf' -> In a sf \/ In a (selfw s).
Proof. exact entry_points_self_writes. Qed.
Print Assumptions C12_entry_points_self_writes.

Theorem C12_apply_location_assigns_no_attribute_apply_only_derived : forallb (fun e =>
    if String.eqb (substring (String.length e - 14) 14 e) "apply_location" then is_nil (selfw (summary_of e))
    else forallb (fun a => smem a allowed_self_writes) (selfw (summary_of e))) entry_points = true.
Proof. exact entries_self_writes. Qed.
Print Assumptions C12_apply_location_assigns_no_attribute_apply_only_derived.

(** the threshold-metric methods never modify the dataset passed in (C19) *)
Theorem C12_metric_methods_pure : forall e, In e metric_methods ->
  forall n locs h nx sf h' nx' sf' lr, (forall l, In l locs -> l < nx) ->
  call gen_program n e locs h nx sf h' nx' sf' lr -> forall k, k < nx -> h' k = h k.
Proof. exact metric_methods_pure. Qed.
Print Assumptions C12_metric_methods_pure.

(** the only generator of randomness called anywhere in the analysed modules is numpy's global one (no
    np.random.default_rng / RandomState / random / time / os.environ): with C12_entry_points_self_writes (no
    instance or module-level state is written by apply_location, reflective access included) this is what makes
    the result a function of the settings, the arguments and that generator's state.  Every call met by the
    extractor was classified by its tables (an unknown library function or method would have been treated as
    writing its arguments and listed here). *)
Theorem C12_only_the_global_generator : other_random_sources = [].
Proof. exact no_other_random_sources. Qed.
Print Assumptions C12_only_the_global_generator.

Theorem C12_every_call_classified : unclassified_calls = [].
Proof. exact no_unclassified_calls. Qed.
Print Assumptions C12_every_call_classified.

(** non-vacuity: the entry points are the five definitions the eight classes resolve to, and the extracted
    program really contains mutating helpers (reached only with fresh slices) *)
Example C12_nonvacuous :
  List.length entry_points = 5%nat /\ mut (summary_of "ISIMIP._step2_impute_values") = [1%nat] /\
  mut (summary_of "ISIMIP.apply_location") = [].
Proof. vm_compute. repeat split. Qed.
