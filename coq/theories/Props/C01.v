(** C01 — bias removal: debiasing the reference period reproduces observed statistics.
    Property theorems only, about the per-window methods REGENERATED from the source (Gen/GenScalars.v;
    translation validated by correspondence K5).  [eql] = elementwise equality of rationals. *)
From Coq Require Import QArith Qabs List Bool String.
From Coq Require Import Permutation.
From IV Require Import QL Dist Ecdf QListFacts GenUtils GenScalars RatLS C16_compose C03_proofs C02_proofs C04_proofs C01_proofs C09_proofs RatLS_proofs C16_sortlike C01_nonparam NP IsimipStep3 IsimipStep3_proofs IsimipStep5 IsimipWindow IsimipWindow_reference.
Import ListNotations.
Open Scope Q_scope.

Theorem C01_ls_add_mean : forall o h,
  h <> [] ->
  exists out, ls_apply_on_window "additive" o h h = Some out /\ QL.qmean out == QL.qmean o.
Proof. exact @ls_add_mean. Qed.
Print Assumptions C01_ls_add_mean.

Theorem C01_ls_mul_mean : forall o h,
  h <> [] -> ~ QL.qmean h == 0 ->
  exists out, ls_apply_on_window "multiplicative" o h h = Some out /\ QL.qmean out == QL.qmean o.
Proof. exact @ls_mul_mean. Qed.
Print Assumptions C01_ls_mul_mean.

Theorem C01_dc_identity : forall o h,
  exists out, dc_apply_on_window "additive" o h h = Some out /\ eql out o.
Proof. exact @dc_identity. Qed.
Print Assumptions C01_dc_identity.

(** location-scale distributions (cdf = F0((x - loc)/sc), ppf = loc + sc Q0, Q0 o F0 = id): where the cdf
    value is not clamped, parametric QuantileMapping maps the reference period by the affine transfer *)
Theorem C01_qm_param_affine_form : forall (P : Type) (D : dist P) (loc sc : P -> Q) (F0 Q0 : Q -> Q),
  (forall p x, cdf D p x == F0 ((x - loc p) / sc p)) -> (forall p q, ppf D p q == loc p + sc p * Q0 q) ->
  (forall z, Q0 (F0 z) == z) -> (forall u v, u == v -> Q0 u == Q0 v) -> (forall p, ~ sc p == 0) ->
  forall t o h, Forall (fun x => t <= cdf D (fit D h) x /\ cdf D (fit D h) x <= 1 - t) h ->
  exists out, qm_apply_on_window "no_detrending" "parametric" D t o h h = Some out /\
    eql out (map (fun x => loc (fit D o) + sc (fit D o) / sc (fit D h) * (x - loc (fit D h))) h).
Proof. exact @qm_param_affine_form. Qed.
Print Assumptions C01_qm_param_affine_form.

(** ... hence the debiased reference period has exactly the observed location (the observed mean when the
    fitted location is the sample mean; the spread is rescaled by sc_o / sc_h) *)
Theorem C01_qm_param_mean : forall (P : Type) (D : dist P) (loc sc : P -> Q) (F0 Q0 : Q -> Q),
  (forall p x, cdf D p x == F0 ((x - loc p) / sc p)) -> (forall p q, ppf D p q == loc p + sc p * Q0 q) ->
  (forall z, Q0 (F0 z) == z) -> (forall u v, u == v -> Q0 u == Q0 v) -> (forall p, ~ sc p == 0) ->
  forall t o h, h <> [] -> loc (fit D h) == QL.qmean h ->
  Forall (fun x => t <= cdf D (fit D h) x /\ cdf D (fit D h) x <= 1 - t) h ->
  exists out, qm_apply_on_window "no_detrending" "parametric" D t o h h = Some out /\ QL.qmean out == loc (fit D o).
Proof. exact @qm_param_mean. Qed.
Print Assumptions C01_qm_param_mean.

Theorem C01_ecdfm_affine_form : forall (P : Type) (D : dist P) (loc sc : P -> Q) (F0 Q0 : Q -> Q),
  (forall p x, cdf D p x == F0 ((x - loc p) / sc p)) -> (forall p q, ppf D p q == loc p + sc p * Q0 q) ->
  (forall z, Q0 (F0 z) == z) -> (forall u v, u == v -> Q0 u == Q0 v) -> (forall p, ~ sc p == 0) ->
  forall t o h, Forall (fun x => t <= cdf D (fit D h) x /\ cdf D (fit D h) x <= 1 - t) h ->
  eql (ecdfm_apply_on_window D t o h h)
      (map (fun x => loc (fit D o) + sc (fit D o) / sc (fit D h) * (x - loc (fit D h))) h).
Proof. exact @ecdfm_affine_form. Qed.
Print Assumptions C01_ecdfm_affine_form.

(** the hypotheses are satisfiable (rational location-scale family), with the mean as location *)
Theorem C01_ratls_location_scale :
  (forall p x, cdf ratls p x == F0 ((x - fst p) / snd p)) /\ (forall p q, ppf ratls p q == fst p + snd p * Q0 q) /\
  (forall z, Q0 (F0 z) == z) /\ (forall u v, u == v -> Q0 u == Q0 v) /\ (forall l, fst (fit ratls l) = QL.qmean l).
Proof. exact (conj ratls_cdf_form (conj ratls_ppf_form (conj Q0_F0 (conj Q0_proper ratls_mean_loc)))). Qed.
Print Assumptions C01_ratls_location_scale.


(** non-parametric QuantileMapping (step ECDF / inverted CDF): debiasing the reference period itself with equally
    long, tie-free samples returns exactly the observed values in the rank order of cm_hist -- the output has the
    observed mean with NO residual (for unequal lengths the statement of the property is "a small fraction":
    searched on the implementation) *)
Theorem C01_qm_nonparametric_reference_period : forall (P : Type) (D : dist P) thr obs hist,
  List.length obs = List.length hist -> tie_free hist -> hist <> [] ->
  qm_apply_on_window "no_detrending" "nonparametric" D thr obs hist hist = Some (sort_like obs hist).
Proof. exact @qm_nonparam_reference_period. Qed.
Print Assumptions C01_qm_nonparametric_reference_period.

Theorem C01_qm_nonparametric_no_residual_bias : forall (P : Type) (D : dist P) thr obs hist,
  List.length obs = List.length hist -> tie_free hist -> hist <> [] ->
  exists out, qm_apply_on_window "no_detrending" "nonparametric" D thr obs hist hist = Some out /\
              Permutation out obs /\ QL.qmean out = QL.qmean obs.
Proof. exact @qm_nonparam_no_residual_bias. Qed.
Print Assumptions C01_qm_nonparametric_no_residual_bias.

(** ISIMIP step 3: the removed trend is centred on the mean of the years present — over those years it sums to zero,
    so detrending does not move the level of the annual means (the slip "anchor the trend at the first year" breaks
    exactly this) *)
Theorem C01_isimip_trend_centred : forall sig years x, years <> [] -> QL.qsum (map snd (annual_trend sig years x)) == 0.
Proof. exact trend_centred. Qed.
Print Assumptions C01_isimip_trend_centred.

(** ISIMIP's window pipeline (unbounded additive variable; Model/IsimipWindow.v, correspondence K22) on the reference
    period (cm_future = cm_hist with its years and significance decision): for a location-scale distribution whose fitted
    location is the sample mean (hypotheses as above, satisfiable by the rational family: C01_ratls_location_scale), where
    the cdf values are not clamped, the debiased window has the mean of the detrended observations plus the mean of the
    trend added back ... *)
Theorem C01_isimip_window_reference_mean : forall (P : Type) (D : dist P) (loc sc : P -> Q) (F0 Q0 : Q -> Q),
  (forall p x, cdf D p x == F0 ((x - loc p) / sc p)) -> (forall p q, ppf D p q == loc p + sc p * Q0 q) ->
  (forall z, Q0 (F0 z) == z) -> (forall u v, u == v -> Q0 u == Q0 v) -> (forall p, ~ sc p == 0) ->
  (forall l, loc (fit D l) == QL.qmean l) ->
  forall em im thr so sh yo yh obs hist,
  List.length hist = List.length yh -> step3_remove sh yh hist <> [] ->
  Forall (fun x => thr <= cdf D (fit D (step3_remove sh yh hist)) x /\ cdf D (fit D (step3_remove sh yh hist)) x <= 1 - thr) (step3_remove sh yh hist) ->
  QL.qmean (isimip_window D em im thr so sh sh yo yh yh obs hist hist)
  == QL.qmean (step3_remove so yo obs) + QL.qmean (step3_trend sh yh hist).
Proof. exact @isimip_window_reference_mean. Qed.
Print Assumptions C01_isimip_window_reference_mean.

(** ... and exactly the observed mean when no trend is removed *)
Theorem C01_isimip_window_reference_mean_no_trend : forall (P : Type) (D : dist P) (loc sc : P -> Q) (F0 Q0 : Q -> Q),
  (forall p x, cdf D p x == F0 ((x - loc p) / sc p)) -> (forall p q, ppf D p q == loc p + sc p * Q0 q) ->
  (forall z, Q0 (F0 z) == z) -> (forall u v, u == v -> Q0 u == Q0 v) -> (forall p, ~ sc p == 0) ->
  (forall l, loc (fit D l) == QL.qmean l) ->
  forall em im thr yo yh obs hist,
  List.length obs = List.length yo -> List.length hist = List.length yh -> hist <> [] ->
  Forall (fun x => thr <= cdf D (fit D (step3_remove false yh hist)) x /\ cdf D (fit D (step3_remove false yh hist)) x <= 1 - thr) (step3_remove false yh hist) ->
  QL.qmean (isimip_window D em im thr false false false yo yh yh obs hist hist) == QL.qmean obs.
Proof. exact @isimip_window_reference_mean_no_trend. Qed.
Print Assumptions C01_isimip_window_reference_mean_no_trend.
