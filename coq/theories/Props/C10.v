(** C10 — physical bounds and dry-day structure of the output.
    Property theorems only.  ISIMIP step 6: hand model Model/Isimip.v over the REGENERATED masks (K6);
    QDM / CDFt SSR / LinearScaling / DeltaChange: definitions REGENERATED from the source (GenScalars). *)
From Coq Require Import QArith ZArith List Bool String.
From IV Require Import QL NP Dist Ecdf GenUtils GenScalars GenPrecip GenIsimip Isimip C16_compose C10_proofs C10_precip XQ ConfigBase GenConfig C10_isimip_table SDM SDM_proofs IsimipStep5 IsimipStep5_proofs IsimipStep1 IsimipStep1_proofs.
Import ListNotations.
Open Scope Q_scope.

Theorem C10_step6_values_ok : forall lb lt ut ub nlo nhi fut_sorted A,
  (0 <= nlo <= Z.of_nat (List.length fut_sorted))%Z -> (0 <= nhi <= Z.of_nat (List.length fut_sorted))%Z ->
  (forall v, List.length (A v) = List.length v) -> (forall v y, In y (A v) -> lt < y /\ y < ut) ->
  existsb (fun b => b) (mask_not_either (step6_mask_lower nlo fut_sorted) (step6_mask_upper nhi fut_sorted)) = true \/
  (nlo + nhi >= Z.of_nat (List.length fut_sorted))%Z ->
  Forall (ok_value lb lt ut ub) (step6_assemble lb ub nlo nhi fut_sorted A).
Proof. exact @step6_values_ok. Qed.
Print Assumptions C10_step6_values_ok.

Theorem C10_nonparam_adjust_between : forall em im x y lt ut v,
  proved_ecdf em -> proved_iecdf im -> x <> [] -> y <> [] ->
  (forall w, In w y -> lt < w /\ w < ut) -> lt < qmap em im x y v /\ qmap em im x y v < ut.
Proof. exact @nonparam_adjust_between. Qed.
Print Assumptions C10_nonparam_adjust_between.

Theorem C10_qdm_censored_output : forall (P : Type) (D : dist P) em t tp cth fo fh f out,
  qdm_apply_debiasing_steps em t tp D true cth f fo fh = Some out ->
  Forall (fun y => y == 0 \/ cth <= y) out.
Proof. exact @qdm_censored_output. Qed.
Print Assumptions C10_qdm_censored_output.

Theorem C10_ssr_floor : forall x thr,
  let y := cdft_set_below_threshold_to_zero x thr in y == 0 \/ thr <= y.
Proof. exact @ssr_floor. Qed.
Print Assumptions C10_ssr_floor.

Theorem C10_ssr_threshold_is_smallest_positive : forall o h f v,
  In v (o ++ h ++ f) -> 0 < v ->
  0 < cdft_get_threshold o h f /\ cdft_get_threshold o h f <= v.
Proof. exact @ssr_threshold_is_smallest_positive. Qed.
Print Assumptions C10_ssr_threshold_is_smallest_positive.

Theorem C10_ssr_randomised_below_threshold : forall thr u,
  0 < thr -> 0 <= u < 1 ->
  0 <= cdft_randomize_zero 0 thr u /\ cdft_randomize_zero 0 thr u < thr.
Proof. exact @ssr_randomised_below_threshold. Qed.
Print Assumptions C10_ssr_randomised_below_threshold.

Theorem C10_ls_mul_nonneg : forall o h f out,
  0 <= QL.qmean o / QL.qmean h -> Forall (fun v => 0 <= v) f ->
  ls_apply_on_window "multiplicative" o h f = Some out -> Forall (fun v => 0 <= v) out.
Proof. exact @ls_mul_nonneg. Qed.
Print Assumptions C10_ls_mul_nonneg.

Theorem C10_dc_mul_nonneg : forall o h f out,
  0 <= QL.qmean f / QL.qmean h -> Forall (fun v => 0 <= v) o ->
  dc_apply_on_window "multiplicative" o h f = Some out -> Forall (fun v => 0 <= v) out.
Proof. exact @dc_mul_nonneg. Qed.
Print Assumptions C10_dc_mul_nonneg.


Theorem C10_step6_in_bounds_no_gap : forall lb lt ut ub y, lb <= lt -> lt < ut -> ut <= ub -> ok_value lb lt ut ub y ->
  lb <= y <= ub /\ ~ (lb < y /\ y <= lt) /\ ~ (ut <= y /\ y < ub).
Proof. exact step6_in_bounds_no_gap. Qed.
Print Assumptions C10_step6_in_bounds_no_gap.

(** ---- precipitation models of QuantileMapping / ECDFM (REGENERATED: GenPrecip) and parametric QuantileMapping
    over them: the output is never negative (given an amounts distribution on the non-negative half line, such as
    the gamma distribution), a quantile in the dry part of the hurdle model comes back as an exact zero, and the
    censored model returns an exact zero or a value not below the censoring threshold -- never sub-threshold drizzle *)
Theorem C10_hurdle_ppf_nonneg : forall (P : Type) (D : dist P), (forall p q, 0 <= ppf D p q) ->
  forall q p0 fr, 0 <= hurdle_ppf D q p0 fr.
Proof. exact @hurdle_ppf_nonneg. Qed.
Print Assumptions C10_hurdle_ppf_nonneg.

Theorem C10_hurdle_dry_exact_zero : forall (P : Type) (D : dist P) q p0 fr, q <= p0 -> hurdle_ppf D q p0 fr = 0.
Proof. exact @hurdle_ppf_dry_exact_zero. Qed.
Print Assumptions C10_hurdle_dry_exact_zero.

Theorem C10_censored_zero_or_above_threshold : forall (P : Type) (D : dist P) thr q gf, 0 <= thr ->
  censored_ppf thr true q gf D = 0 \/ thr <= censored_ppf thr true q gf D.
Proof. exact @censored_ppf_zero_or_above. Qed.
Print Assumptions C10_censored_zero_or_above_threshold.

Theorem C10_qm_hurdle_output_nonneg : forall (P : Type) (D : dist P) rand u thr obs hist fut out,
  (forall p q, 0 <= ppf D p q) ->
  qm_apply_on_window "no_detrending" "parametric" (hurdle_dist D rand u) thr obs hist fut = Some out -> Forall (fun v => 0 <= v) out.
Proof. exact @qm_hurdle_output_nonneg. Qed.
Print Assumptions C10_qm_hurdle_output_nonneg.

Theorem C10_qm_censored_output_zero_or_above : forall (P : Type) (G : dist P) gfit cth u thr obs hist fut out, 0 <= cth ->
  qm_apply_on_window "no_detrending" "parametric" (censored_dist G gfit cth true u) thr obs hist fut = Some out ->
  Forall (fun v => v = 0 \/ cth <= v) out.
Proof. exact @qm_censored_output_zero_or_above. Qed.
Print Assumptions C10_qm_censored_output_zero_or_above.

(** ---- the ISIMIP per-variable settings (EXTRACTED from _isimip_options.py on every run): bounds and thresholds
    are ordered lower bound <= lower threshold < upper threshold <= upper bound for each of the ten variables, and
    every variable with a bound or threshold runs without detrending, so that step 7 (REGENERATED) returns the
    step-6 values unchanged: the structure proved for step 6 above is that of the window's final output *)
Theorem C10_isimip_settings_well_formed : forallb (fun p => settings_well_formed (snd p)) isimip_variable_settings = true.
Proof. exact isimip_settings_well_formed. Qed.
Print Assumptions C10_isimip_settings_well_formed.

Theorem C10_isimip_bounded_variables_not_detrended :
  forallb (fun p => implb (is_bounded (snd p)) (negb (iv_detrending (snd p)))) isimip_variable_settings = true.
Proof. exact isimip_bounded_not_detrended. Qed.
Print Assumptions C10_isimip_bounded_variables_not_detrended.

Theorem C10_step7_keeps_step6_values : forall name v cm trend, In (name, v) isimip_variable_settings -> is_bounded v = true ->
  isimip_step7 (iv_detrending v) cm trend = cm.
Proof. exact step7_bounded_variables. Qed.
Print Assumptions C10_step7_keeps_step6_values.

(** ScaledDistributionMapping, relative variant for precipitation (hand model Model/SDM.v, correspondence K15): the
    output is never negative for an amounts distribution on the non-negative half line *)
Theorem C10_sdm_relative_nonneg : forall (P : Type) (D : dist P), (forall p q, 0 <= ppf D p q) ->
  forall pr_thr cdf_thr obs hist fut out, sdm_relative D pr_thr cdf_thr obs hist fut = Some out -> Forall (fun v => 0 <= v) out.
Proof. exact @sdm_relative_nonneg. Qed.
Print Assumptions C10_sdm_relative_nonneg.

(** ISIMIP step 5 (hand model Model/IsimipStep5.v, correspondence K17): with bounded trend preservation the pseudo
    future observations lie inside [lower bound, upper bound]; with the multiplicative method non-negative
    observations stay non-negative (the change factor is clipped to [1/100, 100]) *)
Theorem C10_step5_bounded_in_bounds : forall em im a b oh ch cf, a <= b -> Forall (fun v => a <= v /\ v <= b) (step5 TBounded em im a b oh ch cf).
Proof. exact step5_bounded_in_bounds. Qed.
Print Assumptions C10_step5_bounded_in_bounds.

Theorem C10_step5_multiplicative_nonneg : forall em im a b oh ch cf, Forall (fun v => 0 <= v) oh -> Forall (fun v => 0 <= v) (step5 TMultiplicative em im a b oh ch cf).
Proof. exact step5_multiplicative_nonneg. Qed.
Print Assumptions C10_step5_multiplicative_nonneg.

(** rsds, ISIMIP steps 1 and 8 (hand model Model/IsimipStep1.v, correspondence K18).
    The annual cycle of upper bounds — running mean of the running maximum of the multi-year daily maxima,
    wrap-around windows of ANY size over ANY set of days of the year — is non-negative for non-negative data *)
Theorem C10_rsds_cycle_nonneg : forall size days vals y, (0 < size)%Z -> (forall v, In v vals -> 0 <= v) ->
  In y (annual_cycle size days vals) -> 0 <= y.
Proof. exact annual_cycle_nonneg. Qed.
Print Assumptions C10_rsds_cycle_nonneg.

(** for odd window sizes the cycle entry of a day dominates every value observed on that day ... *)
Theorem C10_rsds_cycle_dominates : forall size days vals i v, (0 < size)%Z -> (size mod 2 = 1)%Z ->
  (i < List.length (NP.unique days))%nat -> In (nth i (NP.unique days) 0%Z, v) (combine days vals) ->
  v <= nth i (annual_cycle size days vals) 0.
Proof. exact cycle_dominates_values. Qed.
Print Assumptions C10_rsds_cycle_dominates.

(** ... so step 1 scales non-negative data into [0, 1], by day-1 indexing (all 366 days present) or by search *)
Theorem C10_rsds_step1_scales_into_unit_interval : forall size days vals l,
  (0 < size)%Z -> (size mod 2 = 1)%Z -> (forall x, In x days -> 1 <= x <= 366)%Z ->
  (forall v, In v vals -> 0 <= v) ->
  step1_scale vals days (annual_cycle size days vals) (NP.unique days) = Some l ->
  forall y, In y l -> 0 <= y <= 1.
Proof. exact step1_scale_in_unit_interval. Qed.
Print Assumptions C10_rsds_step1_scales_into_unit_interval.

(** the debiased cycle is non-negative in both branches (equal calendars: clipped factor; otherwise day by day) *)
Theorem C10_rsds_debiased_cycle_nonneg : forall co uo ch uh cf uf y,
  (forall v, In v co -> 0 <= v) -> (forall v, In v ch -> 0 <= v) -> (forall v, In v cf -> 0 <= v) ->
  In y (debiased_cycle co uo ch uh cf uf) -> 0 <= y.
Proof. exact debiased_cycle_nonneg. Qed.
Print Assumptions C10_rsds_debiased_cycle_nonneg.

(** rsds output is non-negative: whatever non-negative series steps 2-7 hand over, step 8's rescaling by
    the debiased cycle computed in step 1 from non-negative obs / cm_hist / cm_future is non-negative *)
Theorem C10_rsds_output_nonneg : forall size days_o obs days_h hist days_f fut x l,
  (0 < size)%Z ->
  (forall v, In v obs -> 0 <= v) -> (forall v, In v hist -> 0 <= v) -> (forall v, In v fut -> 0 <= v) ->
  (forall v, In v x -> 0 <= v) ->
  step8_rescale x days_f
    (debiased_cycle (annual_cycle size days_o obs) (NP.unique days_o)
                    (annual_cycle size days_h hist) (NP.unique days_h)
                    (annual_cycle size days_f fut) (NP.unique days_f)) (NP.unique days_f) = Some l ->
  forall y, In y l -> 0 <= y.
Proof. exact rsds_output_nonneg. Qed.
Print Assumptions C10_rsds_output_nonneg.

Theorem C10_rsds_hypotheses_satisfiable :
  step1_scale ex_vals ex_days (annual_cycle 3 ex_days ex_vals) (NP.unique ex_days)
    = Some [(1 # 2); (5 # 6); (1 # 3); (2 # 3); (1 # 6); 1]
  /\ exists l, step8_rescale [(1 # 2); 1; 0; (1 # 4); (3 # 4); 1] ex_days
       (debiased_cycle (annual_cycle 3 ex_days ex_vals) (NP.unique ex_days)
                       (annual_cycle 3 ex_days ex_vals) (NP.unique ex_days)
                       (annual_cycle 3 ex_days ex_vals) (NP.unique ex_days)) (NP.unique ex_days) = Some l.
Proof. exact rsds_example. Qed.
Print Assumptions C10_rsds_hypotheses_satisfiable.

Theorem C10_rsds_cycle_dominance_needs_odd_size_refuted :
  exists days vals i v, (i < List.length (NP.unique days))%nat /\ In (nth i (NP.unique days) 0%Z, v) (combine days vals) /\
    ~ v <= nth i (annual_cycle 2 days vals) 0.
Proof. exact cycle_dominates_even_refuted. Qed.
Print Assumptions C10_rsds_cycle_dominance_needs_odd_size_refuted.
