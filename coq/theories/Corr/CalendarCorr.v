(** runner for correspondence K19 (time helpers) *)
From Coq Require Import ZArith List Bool.
From IV Require Import Calendar CorrBase.
Import ListNotations.
Open Scope Z_scope.

Definition k19 (n : nat) (y m d : Z) (years days months : list Z) : bool :=
  let l := consecutive_dates n y m d in
  zlist_eqb (years_of l) years && zlist_eqb (days_of_year_of l) days && zlist_eqb (months_of l) months.
Definition k19_inferred (n : nat) (years days : list Z) : bool :=
  let l := inferred_dates n in zlist_eqb (years_of l) years && zlist_eqb (days_of_year_of l) days.
