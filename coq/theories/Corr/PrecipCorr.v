(** oracle distributions for correspondence K7: the amounts distribution's cdf / ppf values at the
    points the model asks for are supplied by the harness (computed by SciPy) *)
From Coq Require Import QArith List.
From IV Require Import Dist.
Definition const_dist (c p : Q) : dist unit := mkDist (fun _ => tt) (fun _ _ => c) (fun _ _ => p).
From IV Require Import XQ CorrBase.
(** extended rationals agree: same infinity, or finite values within 1e-12 *)
Definition xq_close (a b : XQ.t) : bool :=
  match a, b with
  | XQ.NInf, XQ.NInf => true | XQ.PInf, XQ.PInf => true
  | XQ.Fin x, XQ.Fin y => close x y (1 # 1000000000000)
  | _, _ => false
  end.
