(** oracle distributions for correspondence K7: the amounts distribution's cdf / ppf values at the
    points the model asks for are supplied by the harness (computed by SciPy) *)
From Coq Require Import QArith List.
From IV Require Import Dist.
Definition const_dist (c p : Q) : dist unit := mkDist (fun _ => tt) (fun _ _ => c) (fun _ _ => p).
