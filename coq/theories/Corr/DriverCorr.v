(** probe window methods and runners for correspondence K3 (window drivers) *)
From Coq Require Import ZArith QArith List Bool.
From IV Require Import NP QL GenWindows Grid Driver CorrBase GridCorr.
Import ListNotations.
Open Scope Q_scope.

(** position-dependent probe: fut_k + 1000 k + (sum obs - sum hist) *)
Fixpoint add_pos (k : Z) (l : list Q) (d : Q) : list Q :=
  match l with [] => [] | x :: r => Qred (x + inject_Z (1000 * k) + d) :: add_pos (k + 1) r d end.
Definition probe_w (o h f : list Q) : list Q := add_pos 0 f (Qred (QL.qsum o - QL.qsum h)).
(** DeltaChange-like probe: aligned with obs *)
Definition probe_w_dc (o h f : list Q) : list Q := add_pos 0 o (Qred (QL.qsum f - QL.qsum h)).

Definition flatten (r : option (list (option Q))) : option (list Q) :=
  match r with None => None | Some b => Some (map (fun c => match c with Some v => v | None => sentinel end) b) end.
Definition agree_series (m : option (list Q)) (impl : option (list Q)) : bool :=
  match m, impl with None, None => true | Some a, Some b => qlist_eqb a b | _, _ => false end.

Definition run_rw (L S : Z) (dobs dhist dfut : list Z) (obs hist fut : list Q) : option (list Q) :=
  flatten (driver_rw_skip Q L S dobs dhist dfut obs hist fut probe_w).
Definition run_dc (L S : Z) (dobs dhist dfut : list Z) (obs hist fut : list Q) : option (list Q) :=
  flatten (driver_dc Q L S dobs dhist dfut obs hist fut probe_w_dc).

(** CDFt-like: day windows outside, year windows inside; values carry their year *)
Definition w_years (Ly Sy : Z) (o h f : list (Q * Z)) : list Q :=
  match flatten (years_driver Q Ly Sy (map snd f)
                   (fun m => probe_w (map fst o) (map fst h) (NP.select (map fst f) m))) with
  | Some l => l | None => [] end.
Definition run_rw_years (L S Ly Sy : Z) (dobs dhist dfut : list Z) (obs hist fut : list (Q * Z)) : option (list Q) :=
  flatten (driver_rw_skip Q L S dobs dhist dfut obs hist fut (w_years Ly Sy)).

(** ISIMIP month mode (K20): the month loop with the probe pipeline *)
Definition run_months (mo mh mf : list Z) (obs hist fut : list Q) : option (list Q) :=
  flatten (months_driver Q mo mh mf obs hist fut probe_w).
