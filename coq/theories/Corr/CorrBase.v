(** Helpers for correspondence cases (comparison happens inside Coq). *)
From Coq Require Import ZArith QArith Qabs List Bool.
Import ListNotations.
Open Scope Q_scope.

Definition close (m o tol : Q) : bool := Qle_bool (Qabs (m - o)) tol.

Fixpoint close_list (m o : list Q) (tol : Q) : bool :=
  match m, o with
  | [], [] => true
  | x :: m', y :: o' => close x y tol && close_list m' o' tol
  | _, _ => false
  end.

Fixpoint zlist_eqb (a b : list Z) : bool :=
  match a, b with
  | [], [] => true
  | x :: a', y :: b' => Z.eqb x y && zlist_eqb a' b'
  | _, _ => false
  end.

Fixpoint blist_eqb (a b : list bool) : bool :=
  match a, b with
  | [], [] => true
  | x :: a', y :: b' => Bool.eqb x y && blist_eqb a' b'
  | _, _ => false
  end.

Fixpoint zlistlist_eqb (a b : list (list Z)) : bool :=
  match a, b with
  | [], [] => true
  | x :: a', y :: b' => zlist_eqb x y && zlistlist_eqb a' b'
  | _, _ => false
  end.

Definition opt_eqb {A} (eqb : A -> A -> bool) (a b : option A) : bool :=
  match a, b with
  | None, None => true
  | Some x, Some y => eqb x y
  | _, _ => false
  end.
