(** runner for correspondence K6: the adjusted values are an oracle (recorded from the implementation) *)
From Coq Require Import QArith ZArith List.
From IV Require Import QL Ecdf GenIsimip Isimip.
Definition run_step6 (lb ub : Q) (nlo nhi : Z) (fut adjusted : list Q) : list Q :=
  step6 lb ub nlo nhi fut (fun _ => adjusted).
