(** comparison helpers for correspondence K12 *)
From Coq Require Import QArith ZArith List Bool.
From IV Require Import CorrBase GridCorr.
Import ListNotations.
Definition tabthr (tab : list (list (Q * Q))) (t c : nat) : Q * Q := nth c (nth t tab []) (0, 0)%Q.
Fixpoint bll_eqb (a b : list (list bool)) : bool :=
  match a, b with [], [] => true | x :: a', y :: b' => blist_eqb x y && bll_eqb a' b' | _, _ => false end.
Fixpoint nlist_eqb (a b : list nat) : bool :=
  match a, b with [], [] => true | x :: a', y :: b' => Nat.eqb x y && nlist_eqb a' b' | _, _ => false end.
Fixpoint nll_eqb (a b : list (list nat)) : bool :=
  match a, b with [], [] => true | x :: a', y :: b' => nlist_eqb x y && nll_eqb a' b' | _, _ => false end.
Fixpoint zll_eqb (a b : list (list Z)) : bool :=
  match a, b with [], [] => true | x :: a', y :: b' => zlist_eqb x y && zll_eqb a' b' | _, _ => false end.
Fixpoint qll_eqb (a b : list (list Q)) : bool :=
  match a, b with [], [] => true | x :: a', y :: b' => qlist_eqb x y && qll_eqb a' b' | _, _ => false end.
Definition nlist_eqb' := nlist_eqb.
