(** comparison helpers for correspondence K9 *)
From Coq Require Import List Bool String.
From IV Require Import ChecksBase GenChecks Checks.
Import ListNotations.

Definition arg_eqb (a b : argname) : bool :=
  match a, b with A_obs, A_obs | A_cm_hist, A_cm_hist | A_cm_future, A_cm_future | A_output, A_output => true | _, _ => false end.
Definition wkind_eqb (a b : wkind) : bool :=
  match a, b with
  | W_dtype, W_dtype | W_nonfinite, W_nonfinite | W_range, W_range | W_masked_invalid, W_masked_invalid
  | W_masked_valid, W_masked_valid | W_out_nonfinite, W_out_nonfinite | W_out_range, W_out_range => true
  | _, _ => false end.
Definition exc_eqb (a b : exc) : bool := match a, b with E_Type, E_Type | E_Value, E_Value => true | _, _ => false end.

(** for masked arguments the non-finite / range warnings are not compared *)
Definition keep (masked : list argname) (w : wkind * argname) : bool :=
  negb (existsb (arg_eqb (snd w)) masked && (wkind_eqb (fst w) W_nonfinite || wkind_eqb (fst w) W_range)).
Fixpoint wlist_eqb (a b : list (wkind * argname)) : bool :=
  match a, b with
  | [], [] => true
  | x :: a', y :: b' => wkind_eqb (fst x) (fst y) && arg_eqb (snd x) (snd y) && wlist_eqb a' b'
  | _, _ => false
  end.

Definition agree_input (st : state) (masked : list argname) (impl : option (exc + list (wkind * argname))) : bool :=
  match run input_checks st, impl with
  | Raised e, Some (inl e') => exc_eqb e e'
  | Done _ w, Some (inr w') => wlist_eqb (filter (keep masked) w) (filter (keep masked) w')
  | _, _ => false
  end.
