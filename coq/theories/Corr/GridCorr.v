(** probe location functions and comparison helpers for correspondence K8 *)
From Coq Require Import QArith Qround List Bool.
From IV Require Import QL Grid CorrBase.
Import ListNotations.
Open Scope Q_scope.

Definition sentinel : Q := (-123456789 # 1).
(* markers 992..999 select the exception class the Python probe raises (gridcommon.EXC): any of them is a failure *)
Definition fails_marker (o : list Q) : bool := match o with x :: _ => Qle_bool 992 x && Qle_bool x 999 && Qeq_bool x (inject_Z (Qfloor x)) | [] => false end.
(** LinearScaling-like probe: cm_future + (sum obs - sum cm_hist) *)
Definition probe_ls : locfun Q := fun o h fu =>
  if fails_marker o then None else let d := Qred (QL.qsum o - QL.qsum h) in Some (map (fun x => Qred (x + d)) fu).
(** DeltaChange-like probe (output follows obs): obs + (sum cm_future - sum cm_hist) *)
Definition probe_dc : locfun Q := fun o h fu =>
  if fails_marker o then None else let d := Qred (QL.qsum fu - QL.qsum h) in Some (map (fun x => Qred (x + d)) o).

Fixpoint qlist_eqb (a b : list Q) : bool :=
  match a, b with
  | [], [] => true
  | x :: a', y :: b' => Qeq_bool x y && qlist_eqb a' b'
  | _, _ => false
  end.
Definition ocol_eqb (a : option (list Q)) (b : list Q) : bool := match a with Some c => qlist_eqb c b | None => false end.
Fixpoint rows_eqb (a : list (list (option (list Q)))) (b : list (list (list Q))) : bool :=
  match a, b with
  | [], [] => true
  | r :: a', s :: b' =>
      (fix go (x : list (option (list Q))) (y : list (list Q)) : bool :=
         match x, y with [], [] => true | c :: x', d :: y' => ocol_eqb c d && go x' y' | _, _ => false end) r s && rows_eqb a' b'
  | _, _ => false
  end.
(** impl: None = an exception propagated *)
Definition agree_grid (m : option (obuf Q)) (impl : option (list (list (list Q)))) : bool :=
  match m, impl with
  | None, None => true
  | Some b, Some g => rows_eqb b g
  | _, _ => false
  end.
