(** runners for correspondence K18 (ISIMIP steps 1 and 8) *)
From Coq Require Import ZArith QArith List Bool.
From IV Require Import NP QL IsimipStep1 CorrBase.
Import ListNotations.
Open Scope Q_scope.

Definition k18_cycle (size : Z) (days : list Z) (vals out : list Q) (udays : list Z) (tol : Q) : bool :=
  close_list (annual_cycle size days vals) out tol && CorrBase.zlist_eqb (NP.unique days) udays.
Definition k18_opt (r : option (list Q)) (out : list Q) (tol : Q) : bool :=
  match r with Some l => close_list l out tol | None => false end.

(** K21 (ISIMIP step 3): detrended series and trend *)
From IV Require Import IsimipStep3.
Definition k21 (sig : bool) (years : list Z) (x out trend : list Q) (tol : Q) : bool :=
  close_list (step3_remove sig years x) out tol && close_list (step3_trend sig years x) trend tol.

(** K22 (ISIMIP window pipeline for an unbounded additive variable, rational distribution) *)
From IV Require Import Dist Ecdf RatLS IsimipWindow.
Definition k22 (em : ecdf_method) (im : iecdf_method) (so sh sf : bool) (yo yh yf : list Z) (obs hist fut out : list Q) (tol : Q) : bool :=
  close_list (isimip_window ratls em im (1 # 10000000000) so sh sf yo yh yf obs hist fut) out tol.
