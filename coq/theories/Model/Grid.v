(** Hand-written model of Debiaser.map_over_locations / parallel_map_over_locations /
    _run_func_on_location_and_catch_error (ibicus/debias/_debiaser.py).
    Arrays [t, x, y] are viewed cell-major: grid[i][j] is the time column of cell (i, j); that
    NumPy's x[:, i, j] reads and out[:, i, j] = c writes satisfy the get/set laws of this view is
    part of the NumPy prelude (validated by correspondence K8 on real arrays). *)
From Coq Require Import List Bool Arith Lia Permutation.
Import ListNotations.

Section Grid.
Variable V : Type.
Variable nan : V.

Definition col := list V.
Definition grid := list (list col).
Definition cell (g : grid) (i j : nat) : col := nth j (nth i g []) [].

Fixpoint upd {A} (l : list A) (k : nat) (v : A) : list A :=
  match l, k with
  | [], _ => []
  | _ :: r, O => v :: r
  | x :: r, S k' => x :: upd r k' v
  end.

(** output buffer: None = never written *)
Definition obuf := list (list (option col)).
Definition ocell (b : obuf) (i j : nat) : option col := nth j (nth i b []) None.
Definition oset (b : obuf) (i j : nat) (c : col) : obuf := upd b i (upd (nth i b []) j (Some c)).
Definition empty_buf (X Y : nat) : obuf := repeat (repeat None Y) X.

(** np.ndindex(X, Y) / [(i, j) for i in range(X) for j in range(Y)] : row-major *)
Definition indices (X Y : nat) : list (nat * nat) := flat_map (fun i => map (pair i) (seq 0 Y)) (seq 0 X).

(** the per-location function: None = raises *)
Definition locfun := col -> col -> col -> option col.

Inductive locres := Col (c : col) | NaNScalar | Raise.

(** _run_func_on_location_and_catch_error *)
Definition run_loc (failsafe : bool) (f : locfun) (o h fu : col) : locres :=
  match f o h fu with
  | Some c => Col c
  | None => if failsafe then NaNScalar else Raise
  end.

(** out[:, i, j] = r  (a scalar NaN broadcasts over the column; a column of the wrong length is a
    NumPy broadcasting error, outside the try/except) *)
Definition write (T : nat) (b : obuf) (ij : nat * nat) (r : locres) : option obuf :=
  match r with
  | Col c => if Nat.eqb (length c) T then Some (oset b (fst ij) (snd ij) c) else None
  | NaNScalar => Some (oset b (fst ij) (snd ij) (repeat nan T))
  | Raise => None
  end.

Definition task (failsafe : bool) (f : locfun) (obs hist fut : grid) (ij : nat * nat) : locres :=
  run_loc failsafe f (cell obs (fst ij) (snd ij)) (cell hist (fst ij) (snd ij)) (cell fut (fst ij) (snd ij)).

(** map_over_locations: for i, j in np.ndindex(obs.shape[1:]) *)
Definition apply_serial (failsafe : bool) (f : locfun) (T X Y : nat) (obs hist fut : grid) : option obuf :=
  fold_left (fun ob ij => match ob with None => None | Some b => write T b ij (task failsafe f obs hist fut ij) end)
            (indices X Y) (Some (empty_buf X Y)).

(** parallel_map_over_locations: tasks in index order are handed to the pool; workers complete
    them in ANY order (the schedule, a list of task numbers); starmap returns the results in task
    order (trusted contract), modelled by slots filled at completion time and read in order; an
    exception in any task propagates and no array is produced; then the write-back loop *)
Definition fill_slots (results : list locres) (schedule : list nat) : list (option locres) :=
  fold_left (fun slots k => upd slots k (Some (nth k results Raise))) schedule (repeat None (length results)).
Definition starmap (results : list locres) (schedule : list nat) : option (list locres) :=
  let slots := fill_slots results schedule in
  if forallb (fun s => match s with Some Raise | None => false | _ => true end) slots
  then Some (map (fun s => match s with Some r => r | None => Raise end) slots) else None.

Definition apply_parallel (failsafe : bool) (f : locfun) (T X Y : nat) (obs hist fut : grid) (schedule : list nat) : option obuf :=
  let idx := indices X Y in
  match starmap (map (task failsafe f obs hist fut) idx) schedule with
  | None => None
  | Some res =>
      fold_left (fun ob p => match ob with None => None | Some b => write T b (fst p) (snd p) end)
                (combine idx res) (Some (empty_buf X Y))
  end.
End Grid.
