(** Hand-written interpreter of the extracted check list over abstract argument descriptors.
    The descriptor records exactly the facts the predicates of Debiaser read; the semantics of
    each predicate / conversion on descriptors is the modelled part (tied by correspondence K9,
    exhaustive over the descriptor space with real arrays). *)
From Coq Require Import List Bool String.
From IV Require Import ChecksBase.
Import ListNotations.
Open Scope string_scope.

Inductive dtype := DFloat | DConvertible | DUnconvertible.
Inductive maskst := NotMasked | MaskedValid | MaskedInvalid.

Record desc := mkDesc {
  nd : bool;            (* isinstance(x, np.ndarray) *)
  dt : dtype;           (* floating / convertible by astype(float) / not convertible *)
  ndim3 : bool;         (* x.ndim == 3 *)
  nonfinite : bool;     (* contains nan or inf *)
  oor : bool;           (* some finite value outside the configured range *)
  msk : maskst
}.

Record state := mkState {
  s_obs : desc; s_hist : desc; s_fut : desc;
  same_spatial : bool;        (* obs.shape[1:] == cm_hist.shape[1:] == cm_future.shape[1:] *)
  range_configured : bool     (* reasonable_physical_range is not None *)
}.

Definition get (st : state) (a : argname) : desc :=
  match a with A_obs => s_obs st | A_cm_hist => s_hist st | A_cm_future => s_fut st | A_output => s_fut st end.
Definition set (st : state) (a : argname) (d : desc) : state :=
  match a with
  | A_obs => mkState d (s_hist st) (s_fut st) (same_spatial st) (range_configured st)
  | A_cm_hist => mkState (s_obs st) d (s_fut st) (same_spatial st) (range_configured st)
  | _ => mkState (s_obs st) (s_hist st) d (same_spatial st) (range_configured st)
  end.

Definition is_float (t : dtype) : bool := match t with DFloat => true | _ => false end.
Definition is_masked (m : maskst) : bool := match m with NotMasked => false | _ => true end.
Definition is_masked_invalid (m : maskst) : bool := match m with MaskedInvalid => true | _ => false end.

(** truth value of a predicate; None = the interpreter does not know the predicate (stuck) *)
Definition pred_val (p : string) (args : list argname) (st : state) : option bool :=
  match args with
  | [a] =>
      let d := get st a in
      if p =? "_is_correct_type" then Some (nd d)
      else if p =? "_has_float_dtype" then Some (is_float (dt d))
      else if p =? "_has_correct_shape" then Some (ndim3 d)
      else if p =? "_contains_inf_nan" then Some (nonfinite d)
      else if p =? "_not_if_or_nan_vals_outside_reasonable_physical_range" then Some (range_configured st && oor d)
      else if p =? "_is_masked_array" then Some (is_masked (msk d))
      else if p =? "_masked_array_contains_invalid_values" then Some (is_masked_invalid (msk d))
      else None
  | [A_obs; A_cm_hist; A_cm_future] => if p =? "_have_same_shape" then Some (same_spatial st) else None
  | _ => None
  end.

Inductive result := Raised (e : exc) | Done (st : state) (w : list (wkind * argname)) | Stuck.

Definition convert (f : string) (a : argname) (st : state) : option (option state) :=
  let d := get st a in
  if f =? "_convert_to_float_dtype" then
    match dt d with
    | DUnconvertible => Some None          (* raises ValueError *)
    | _ => Some (Some (set st a (mkDesc (nd d) DFloat (ndim3 d) (nonfinite d) (oor d) (msk d))))
    end
  else if f =? "_fill_masked_array_with_nan" then
    Some (Some (set st a (mkDesc (nd d) (dt d) (ndim3 d) (nonfinite d || is_masked_invalid (msk d)) (oor d) NotMasked)))
  else None.

Definition seq_result (r1 : result) (k : state -> result) : result :=
  match r1 with
  | Done st' w1 => match k st' with Done st'' w2 => Done st'' (w1 ++ w2) | other => other end
  | other => other
  end.

Fixpoint run_action (fuel : nat) (a : action) (st : state) : result :=
  match fuel with
  | O => Stuck
  | S fuel' =>
    match a with
    | ARaise e => Raised e
    | AWarn k x => Done st [(k, x)]
    | AConvert f x =>
        match convert f x st with
        | None => Stuck
        | Some None => Raised E_Value
        | Some (Some st') => Done st' []
        end
    | AIf neg p args thn els =>
        match pred_val p args st with
        | None => Stuck
        | Some b =>
            (fix go (l : list action) (st : state) : result :=
               match l with
               | [] => Done st []
               | x :: r => seq_result (run_action fuel' x st) (go r)
               end) (if xorb neg b then thn else els) st
        end
    end
  end.

Fixpoint run_list (l : list action) (st : state) : result :=
  match l with
  | [] => Done st []
  | x :: r => seq_result (run_action 8 x st) (run_list r)
  end.

Definition run (l : list action) (st : state) : result := run_list l st.

(* ---------- closed-form specification ---------- *)
Definition all_nd (st : state) : bool := nd (s_obs st) && nd (s_hist st) && nd (s_fut st).
Definition unconv (d : desc) : bool := match dt d with DUnconvertible => true | _ => false end.
Definition value_error (st : state) : bool :=
  unconv (s_obs st) || unconv (s_hist st) || unconv (s_fut st) ||
  negb (ndim3 (s_obs st) && ndim3 (s_hist st) && ndim3 (s_fut st)) || negb (same_spatial st).

Definition arg_list := [A_obs; A_cm_hist; A_cm_future].
Definition warns_for (st : state) (f : desc -> bool) (k : wkind) : list (wkind * argname) :=
  flat_map (fun a => if f (get st a) then [(k, a)] else []) arg_list.
Definition spec_warnings (st : state) : list (wkind * argname) :=
  warns_for st (fun d => negb (is_float (dt d))) W_dtype ++
  warns_for st nonfinite W_nonfinite ++
  warns_for st (fun d => range_configured st && oor d) W_range ++
  flat_map (fun a => match msk (get st a) with
                     | NotMasked => [] | MaskedValid => [(W_masked_valid, a)] | MaskedInvalid => [(W_masked_invalid, a)] end) arg_list.

Definition cleaned (d : desc) : desc :=
  mkDesc (nd d) DFloat (ndim3 d) (nonfinite d || is_masked_invalid (msk d)) (oor d) NotMasked.
Definition spec_state (st : state) : state :=
  mkState (cleaned (s_obs st)) (cleaned (s_hist st)) (cleaned (s_fut st)) (same_spatial st) (range_configured st).
