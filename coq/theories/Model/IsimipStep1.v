(** Hand-written model of ISIMIP steps 1 and 8 (rsds: scaling by the annual cycle of upper bounds):
    _step1_get_annual_cycle_of_upper_bounds (multi-year daily maxima, running maximum and running mean
    with wrap-around — scipy.ndimage.maximum_filter1d / uniform_filter1d, mode="wrap", whose window at
    position i is  i - size//2 .. i - size//2 + size - 1  modulo the number of days),
    _step1_calculate_debiased_annual_cycle_of_upper_bounds (both branches),
    _step1_scale_by_annual_cycle_of_upper_bounds and _step8_rescale_by_annual_cycle_of_upper_bounds.
    Tied to the code by correspondence K18. *)
From Coq Require Import QArith ZArith List Bool.
From IV Require Import NP QL.
Import ListNotations.
Open Scope Q_scope.

(** values observed on day [d] (any order: the maximum does not depend on it) *)
Definition vals_on_day (days : list Z) (vals : list Q) (d : Z) : list Q :=
  NP.select vals (map (Z.eqb d) days).

(** np.unique(days) and np.maximum.reduceat over the day groups *)
Definition multiyear_max (days : list Z) (vals : list Q) : list Q :=
  map (fun d => QL.qmax (vals_on_day days vals d)) (NP.unique days).

Definition wrap_get (m : list Q) (i : Z) : Q :=
  nth (Z.to_nat (i mod Z.of_nat (length m))) m 0.

Definition window (m : list Q) (size i : Z) : list Q :=
  map (fun k => wrap_get m (i - size / 2 + k)) (NP.arange1 0 size).

Definition positions (m : list Q) : list Z := NP.arange1 0 (Z.of_nat (length m)).

Definition run_max (m : list Q) (size : Z) : list Q :=
  map (fun i => QL.qmax (window m size i)) (positions m).
Definition run_mean (m : list Q) (size : Z) : list Q :=
  map (fun i => Qred (QL.qsum (window m size i) / inject_Z size)) (positions m).

(** (annual cycle, unique days) *)
Definition annual_cycle (size : Z) (days : list Z) (vals : list Q) : list Q :=
  run_mean (run_max (multiyear_max days vals) size) size.

(** first cycle entry whose day is [d] *)
Fixpoint lookup_day (cyc : list Q) (udays : list Z) (d : Z) : option Q :=
  match cyc, udays with
  | c :: cr, u :: ur => if Z.eqb u d then Some c else lookup_day cr ur d
  | _, _ => None
  end.

(** the code indexes by day-1 when all 366 days are present, and searches the day otherwise
    (IndexError when the day is missing: None) *)
Definition per_day (cyc : list Q) (udays : list Z) (d : Z) : option Q :=
  if Nat.eqb (length udays) 366 then nth_error cyc (Z.to_nat (d - 1)) else lookup_day cyc udays d.

Fixpoint map2o (f : Q -> Q -> Q) (vals : list Q) (s : list (option Q)) : option (list Q) :=
  match vals, s with
  | [], [] => Some []
  | v :: vr, Some c :: sr => match map2o f vr sr with Some r => Some (Qred (f v c) :: r) | None => None end
  | _, _ => None
  end.

Definition step1_scale (vals : list Q) (days : list Z) (cyc : list Q) (udays : list Z) : option (list Q) :=
  let scaling := map (fun c => if Qeq_bool c 0 then 1 else 1 / c) cyc in
  map2o (fun v s => v * s) vals (map (per_day scaling udays) days).

Definition step8_rescale (vals : list Q) (days : list Z) (cyc : list Q) (udays : list Z) : option (list Q) :=
  map2o (fun v s => v * s) vals (map (per_day cyc udays) days).

Fixpoint zlist_eqb (a b : list Z) : bool :=
  match a, b with
  | [], [] => true
  | x :: a', y :: b' => Z.eqb x y && zlist_eqb a' b'
  | _, _ => false
  end.

Fixpoint map3 (f : Q -> Q -> Q -> Q) (a b c : list Q) : list Q :=
  match a, b, c with
  | x :: a', y :: b', z :: c' => f x y z :: map3 f a' b' c'
  | _, _, _ => []
  end.

Definition debias_factor (h f : Q) : Q :=
  QL.qmax2 (1 # 10) (QL.qmin2 10 (if Qeq_bool h 0 then 1 else f / h)).

Definition debiased_cycle (co : list Q) (uo : list Z) (ch : list Q) (uh : list Z) (cf : list Q) (uf : list Z) : list Q :=
  if zlist_eqb uh uf && zlist_eqb uo uf then
    map3 (fun o h f => Qred (o * debias_factor h f)) co ch cf
  else
    map (fun fd => let '(vf, d) := fd in
           match lookup_day ch uh d, lookup_day co uo d with
           | Some vh, Some vo => if Qeq_bool vh 0 then vo else Qred (vo * vf / vh)
           | _, _ => vf
           end) (combine cf uf).
