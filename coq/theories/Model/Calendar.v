(** Hand-written model of the time helpers of ibicus/utils/_utils.py on the proleptic Gregorian calendar
    (datetime.date / numpy datetime64): year, month, day_of_year (tm_yday) and
    create_array_of_consecutive_dates (consecutive days from a start date; 1950-01-01 when the time
    arrays are inferred).  A date is kept as (year, day of the year).  Tied to the code by correspondence K19. *)
From Coq Require Import ZArith List Bool.
Import ListNotations.
Open Scope Z_scope.

Definition is_leap (y : Z) : bool := ((y mod 4 =? 0) && negb (y mod 100 =? 0)) || (y mod 400 =? 0).
Definition year_len (y : Z) : Z := if is_leap y then 366 else 365.

Definition month_len (y m : Z) : Z :=
  if m =? 2 then (if is_leap y then 29 else 28)
  else if (m =? 4) || (m =? 6) || (m =? 9) || (m =? 11) then 30 else 31.

(** days before the first of month m in a non-leap year *)
Definition cum_days (m : Z) : Z :=
  if m =? 1 then 0 else if m =? 2 then 31 else if m =? 3 then 59 else if m =? 4 then 90 else if m =? 5 then 120
  else if m =? 6 then 151 else if m =? 7 then 181 else if m =? 8 then 212 else if m =? 9 then 243
  else if m =? 10 then 273 else if m =? 11 then 304 else 334.

Definition valid_date (y m d : Z) : Prop := 1 <= m <= 12 /\ 1 <= d <= month_len y m.

(** tm_yday *)
Definition doy (y m d : Z) : Z := cum_days m + d + (if is_leap y && (2 <? m) then 1 else 0).

(** the month a day of the year falls in *)
Definition month_of (y d : Z) : Z :=
  let l := if is_leap y then 1 else 0 in
  if d <=? 31 then 1 else if d <=? 59 + l then 2 else if d <=? 90 + l then 3 else if d <=? 120 + l then 4
  else if d <=? 151 + l then 5 else if d <=? 181 + l then 6 else if d <=? 212 + l then 7 else if d <=? 243 + l then 8
  else if d <=? 273 + l then 9 else if d <=? 304 + l then 10 else if d <=? 334 + l then 11 else 12.

(** the day after (year, day of the year) *)
Definition next_day (p : Z * Z) : Z * Z :=
  let '(y, d) := p in if d <? year_len y then (y, d + 1) else (y + 1, 1).

(** create_array_of_consecutive_dates(n, start): n consecutive days *)
Fixpoint dates_from (n : nat) (p : Z * Z) : list (Z * Z) :=
  match n with O => [] | S k => p :: dates_from k (next_day p) end.

Definition consecutive_dates (n : nat) (y m d : Z) : list (Z * Z) := dates_from n (y, doy y m d).
Definition years_of (l : list (Z * Z)) : list Z := map fst l.
Definition days_of_year_of (l : list (Z * Z)) : list Z := map snd l.
Definition months_of (l : list (Z * Z)) : list Z := map (fun p => month_of (fst p) (snd p)) l.

(** infer_and_create_time_arrays_if_not_given: the default start date *)
Definition inferred_dates (n : nat) : list (Z * Z) := consecutive_dates n 1950 1 1.
