(** C12: a small array-effect language with a heap semantics, a Boolean checker of claimed
    points-to facts and effect summaries, and (Proofs/Effects_proofs.v) its soundness.
    The program analysed is extracted from the source on every run (Gen/GenEffects.v).

    Abstraction: every statement of a function body may execute any number of times in any order
    (the relation [steps] below), which over-approximates Python's branches and loops.  Array values are
    heap locations; a location's content is summarised by a write counter. *)
From Coq Require Import List Bool String Arith Lia.
Import ListNotations.
Open Scope string_scope.

Definition var := string.
Definition fname := string.

Inductive rhs :=
  | RFresh                          (* a newly allocated array: arithmetic, np.sort, .copy(), fancy indexing, ... *)
  | RMay (ys : list var)            (* may be (a view of) any of ys, or fresh: names, basic slices, unknown expressions *)
  | RCall (f : fname) (args : list var).   (* result of a project function (positional args, see [acts]) *)

Inductive stmt :=
  | SBind (x : var) (r : rhs)
  | SStore (x : var)                (* in-place write into x *)
  | SCall (f : fname) (args : list var)
  | SSelf (attr : string).          (* self.attr = ... *)

Record fundef := mkFun { params : list var; body : list stmt; rets : list var }.
Record summary := mkSum { mut : list nat; retal : list nat; selfw : list string }.

Definition program := list (fname * fundef).
Definition summaries := list (fname * summary).
(** claimed points-to facts: for each function, for each variable the parameter indices it may alias *)
Definition pointsto := list (fname * list (var * list nat)).

Fixpoint lookup {A} (k : string) (l : list (string * A)) : option A :=
  match l with [] => None | (k', v) :: r => if String.eqb k k' then Some v else lookup k r end.
Definition nmem (n : nat) (l : list nat) : bool := existsb (Nat.eqb n) l.
Definition smem (s : string) (l : list string) : bool := existsb (String.eqb s) l.
Definition subset (a b : list nat) : bool := forallb (fun x => nmem x b) a.
Definition pt (A : list (var * list nat)) (x : var) : list nat := match lookup x A with Some l => l | None => [] end.

(* ---------- the checker ---------- *)
Section Check.
Variable sums : summaries.
Variable A : list (var * list nat).
Variable me : summary.

(** effects of calling f with the given argument variables, w.r.t. the caller's summary [me] *)
Definition check_call_effects (f : fname) (args : list var) : bool :=
  match lookup f sums with
  | None => false
  | Some s =>
      forallb (fun j => match nth_error args j with
                        | Some a => subset (pt A a) (mut me)
                        | None => false end) (mut s)
      && forallb (fun a => smem a (selfw me)) (selfw s)
  end.

Definition check_stmt (s : stmt) : bool :=
  match s with
  | SBind x RFresh => true
  | SBind x (RMay ys) => forallb (fun y => subset (pt A y) (pt A x)) ys
  | SBind x (RCall f args) =>
      check_call_effects f args &&
      match lookup f sums with
      | None => false
      | Some s => forallb (fun j => match nth_error args j with
                                    | Some a => subset (pt A a) (pt A x)
                                    | None => false end) (retal s)
      end
  | SStore x => subset (pt A x) (mut me)
  | SCall f args => check_call_effects f args
  | SSelf a => smem a (selfw me)
  end.

Fixpoint index_params (i : nat) (ps : list var) : bool :=
  match ps with [] => true | p :: r => nmem i (pt A p) && index_params (S i) r end.

Definition check_fun (fd : fundef) : bool :=
  index_params 0 (params fd) && forallb check_stmt (body fd) &&
  forallb (fun r => subset (pt A r) (retal me)) (rets fd).
End Check.

Definition check_program (p : program) (sums : summaries) (pts : pointsto) : bool :=
  forallb (fun nf => match lookup (fst nf) sums, lookup (fst nf) pts with
                     | Some s, Some A => check_fun sums A s (snd nf)
                     | _, _ => false end) p.

(* ---------- concrete semantics ---------- *)
Definition loc := nat.
Definition env := list (var * loc).
Definition heap := loc -> nat.          (* write counters *)
Definition bump (h : heap) (l : loc) : heap := fun k => if Nat.eqb k l then S (h k) else h k.

Record state := mkSt { st_env : env; st_heap : heap; st_next : loc; st_self : list string }.

Definition get (e : env) (x : var) : option loc := lookup x e.
Definition set (e : env) (x : var) (l : loc) : env := (x, l) :: e.

Fixpoint bind_params (ps : list var) (ls : list loc) : env :=
  match ps, ls with p :: pr, l :: lr => (p, l) :: bind_params pr lr | _, _ => [] end.
Fixpoint get_all (e : env) (xs : list var) : option (list loc) :=
  match xs with
  | [] => Some []
  | x :: r => match get e x, get_all e r with Some l, Some ls => Some (l :: ls) | _, _ => None end
  end.

Section Sem.
Variable p : program.

(** [call n f locs h next self h' next' self' result] : running f (call depth <= n) on argument locations *)
Inductive call : nat -> fname -> list loc -> heap -> loc -> list string -> heap -> loc -> list string -> loc -> Prop :=
  | call_intro n f fd locs h nx sf st' r lr :
      lookup f p = Some fd -> List.length locs = List.length (params fd) ->
      steps n fd (mkSt (bind_params (params fd) locs) h nx sf) st' ->
      (In r (rets fd) /\ get (st_env st') r = Some lr \/ lr = st_next st') ->
      call (S n) f locs h nx sf (st_heap st') (S (st_next st')) (st_self st') lr
with steps : nat -> fundef -> state -> state -> Prop :=
  | steps_refl n fd st : steps n fd st st
  | steps_step n fd st st1 st2 s : In s (body fd) -> step n s st st1 -> steps n fd st1 st2 -> steps n fd st st2
with step : nat -> stmt -> state -> state -> Prop :=
  | step_fresh n x e h nx sf : step n (SBind x RFresh) (mkSt e h nx sf) (mkSt (set e x nx) h (S nx) sf)
  | step_may_var n x ys y l e h nx sf : In y ys -> get e y = Some l ->
      step n (SBind x (RMay ys)) (mkSt e h nx sf) (mkSt (set e x l) h nx sf)
  | step_may_fresh n x ys e h nx sf : step n (SBind x (RMay ys)) (mkSt e h nx sf) (mkSt (set e x nx) h (S nx) sf)
  | step_callb n x f args locs e h nx sf h' nx' sf' lr : get_all e args = Some locs ->
      call n f locs h nx sf h' nx' sf' lr ->
      step n (SBind x (RCall f args)) (mkSt e h nx sf) (mkSt (set e x lr) h' nx' sf')
  | step_store n x l e h nx sf : get e x = Some l ->
      step n (SStore x) (mkSt e h nx sf) (mkSt e (bump h l) nx sf)
  | step_call n f args locs e h nx sf h' nx' sf' lr : get_all e args = Some locs ->
      call n f locs h nx sf h' nx' sf' lr ->
      step n (SCall f args) (mkSt e h nx sf) (mkSt e h' nx' sf')
  | step_self n a e h nx sf : step n (SSelf a) (mkSt e h nx sf) (mkSt e h nx (a :: sf)).
End Sem.
