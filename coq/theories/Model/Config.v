(** Hand-written model of ibicus' configuration logic over the tables extracted into
    Gen/GenConfig.v: Debiaser._from_variable, map_variable_str_to_variable_class, attrs'
    validator/converter dispatch, and the attribute-assignment / apply / __attrs_post_init__
    life cycle.  Tied to the code by correspondence K10. *)
From Coq Require Import ZArith List Bool String Ascii.
From IV Require Import ConfigBase GenConfig.
Import ListNotations.
Open Scope string_scope.

(* ---------- strings ---------- *)
Definition lower_ascii (c : ascii) : ascii :=
  let n := nat_of_ascii c in if (65 <=? n)%nat && (n <=? 90)%nat then ascii_of_nat (n + 32) else c.
Definition upper_ascii (c : ascii) : ascii :=
  let n := nat_of_ascii c in if (97 <=? n)%nat && (n <=? 122)%nat then ascii_of_nat (n - 32) else c.
Fixpoint lower (s : string) : string :=
  match s with EmptyString => EmptyString | String c r => String (lower_ascii c) (lower r) end.
Fixpoint upper (s : string) : string :=
  match s with EmptyString => EmptyString | String c r => String (upper_ascii c) (upper r) end.

Fixpoint lookup {A} (k : string) (l : list (string * A)) : option A :=
  match l with
  | [] => None
  | (k', v) :: r => if String.eqb k k' then Some v else lookup k r
  end.
Definition smem (k : string) (l : list string) : bool := existsb (String.eqb k) l.

(* ---------- from_variable ---------- *)
Inductive outcome := Silent | Warn | RaiseValueError.
Definition outcome_eqb (a b : outcome) : bool :=
  match a, b with Silent, Silent | Warn, Warn | RaiseValueError, RaiseValueError => true | _, _ => false end.

(** Debiaser._from_variable on a Variable object *)
Definition from_variable_obj (d : debiaser) (v : string) : outcome :=
  if smem v (default_vars d) then Silent
  else if smem v (experimental_vars d) then Warn
  else RaiseValueError.

(** ... on a string: map_variable_str_to_variable_class first *)
Definition variable_of_str (name : string) : option string :=
  lookup (if map_lowercases_first then lower name else name) str_to_variable.
Definition from_variable_str (d : debiaser) (name : string) : outcome :=
  match variable_of_str name with
  | None => RaiseValueError
  | Some v => from_variable_obj d v
  end.

(** the published table: row of a Variable object (labels compared case-insensitively), column of d;
    a variable without a row is unsupported everywhere *)
Definition doc_cell (d : debiaser) (v : string) : cell :=
  match lookup v (map (fun r => (lower (fst r), snd r)) doc_table) with
  | None => Blank
  | Some cells => nth (debiaser_index d) cells Blank
  end.
Definition expected (c : cell) : outcome :=
  match c with Default => Silent | Experimental => Warn | Blank => RaiseValueError end.

(** {**parameters, **kwargs} *)
Definition merge {A} (params kwargs : list (string * A)) : list (string * A) := kwargs ++ params.

(* ---------- validators ---------- *)
Inductive value :=
  | VStr (s : string) | VInt (z : Z) | VBool (b : bool) | VFloat | VNone | VDist | VDict | VOther.

Definition type_ok (t : string) (v : value) : bool :=
  match v with
  | VStr _ => String.eqb t "str"
  | VInt _ => String.eqb t "int"
  | VBool _ => String.eqb t "bool" || String.eqb t "int"
  | VFloat => String.eqb t "float"
  | VNone => String.eqb t "NoneType"
  | VDist => String.eqb t "rv_continuous" || String.eqb t "rv_discrete" || String.eqb t "rv_histogram" || String.eqb t "StatisticalModel"
  | VDict => String.eqb t "dict"
  | VOther => false
  end.

Definition convert (c : option string) (v : value) : option value :=
  match c with
  | None => Some v
  | Some conv =>
    if String.eqb conv "float" then
      match v with VInt _ | VBool _ | VFloat => Some VFloat | _ => None end
    else if String.eqb conv "int" || String.eqb conv "round" then
      match v with VInt z => Some (VInt z) | VBool b => Some (VInt (if b then 1 else 0)) | VFloat => Some (VInt 2) | _ => None end
    else Some v
  end.

Definition check (v : value) (val : validator) : bool :=
  match val with
  | V_instance_of ts => existsb (fun t => type_ok t v) ts
  | V_in opts => match v with VStr s => smem s opts | _ => false end
  | V_gt b => match v with VInt z => (b <? z)%Z | VBool x => (b <? (if x then 1 else 0))%Z | _ => false end
  end.

Definition field_accepts (f : field) (v : value) : bool :=
  match convert (f_converter f) v with
  | None => false
  | Some v' => forallb (check v') (f_validators f)
  end.

(* ---------- attribute assignment vs construction ---------- *)
Section LifeCycle.
  Variables (S D X Y : Type).
  Variable post : S -> D.              (* what __attrs_post_init__ derives from the settings *)
  Variable run : S -> D -> X -> Y.     (* apply after the derived state is in place *)
  Variable calls_post : bool.          (* does apply() re-run __attrs_post_init__ first? *)

  Record inst := { settings : S; derived : D }.
  Definition construct (s : S) : inst := {| settings := s; derived := post s |}.
  Definition assign (i : inst) (f : S -> S) : inst := {| settings := f (settings i); derived := derived i |}.
  Definition apply (i : inst) (x : X) : Y :=
    run (settings i) (if calls_post then post (settings i) else derived i) x.
End LifeCycle.
