(** Hand-written model of the evaluation formulas (ibicus/evaluate/marginal.py, trend.py,
    multivariate.py) on grids: a dataset is a list of cells, each a time column.
    Tied to the code by correspondence K13. *)
From Coq Require Import QArith ZArith List Bool.
From IV Require Import QL NP Ecdf Metrics.
Import ListNotations.
Open Scope Q_scope.

Definition grid := list (list Q).          (* cells x time *)
Definition map2 {A B C} (f : A -> B -> C) (a : list A) (b : list B) : list C := map (fun p => f (fst p) (snd p)) (combine a b).

(** np.mean(x, axis=0) / np.quantile(x, q, axis=0) per cell *)
Definition gmean (g : grid) : list Q := map QL.qmean g.
Definition gquant (q : Q) (g : grid) : list Q := map (fun c => Ecdf.iecdf linear c q) g.

(* ---------- marginal bias ---------- *)
Definition mean_bias (percentage : bool) (obs cm : grid) : list Q :=
  map2 (fun o c => if percentage then 100 * (c - o) / o else c - o) (gmean obs) (gmean cm).
Definition quantile_bias (percentage : bool) (q : Q) (obs cm : grid) : list Q :=
  map2 (fun o c => if percentage then 100 * (c - o) / o else c - o) (gquant q obs) (gquant q cm).
(** metric bias from the two exceedance probabilities per cell *)
Definition metrics_bias (po pc : list Q) : list Q := map2 (fun o c => 100 * (c - o) / o) po pc.
Definition metrics_absolute_bias (po pc : list Q) : list Q := map2 (fun o c => 365 * c - 365 * o) po pc.

(* ---------- days per year: _yearly_exceedances / _mean_yearly_exceedances of one cell ---------- *)
Fixpoint cumsum_nat (acc : nat) (l : list nat) : list nat :=
  match l with [] => [] | a :: r => (acc + a)%nat :: cumsum_nat (acc + a) r end.
(** np.split(x, indices): consecutive chunks x[0:i1], x[i1:i2], ..., x[ik:] *)
Fixpoint split_at {A} (prev : nat) (idx : list nat) (x : list A) : list (list A) :=
  match idx with
  | [] => [x]
  | i :: r => firstn (i - prev) x :: split_at i r (skipn (i - prev) x)
  end.
(** the split indices of the code: cumulative day counts of all years but the last *)
Definition year_indices (counts : list nat) : list nat := removelast (cumsum_nat 0 counts).
Definition yearly_exceedances (counts : list nat) (col : list bool) : list nat :=
  map count (split_at 0 (year_indices counts) col).
Definition mean_yearly_exceedances (counts : list nat) (col : list bool) : Q :=
  let y := yearly_exceedances counts col in
  inject_Z (Z.of_nat (fold_right Nat.add 0%nat y)) / inject_Z (Z.of_nat (length y)).

(* ---------- trends ---------- *)
Definition trend (multiplicative : bool) (v f : list Q) : list Q := map2 (fun a b => if multiplicative then b / a else b - a) v f.
Definition trend_bias_of (bc raw : list Q) : list Q := map2 (fun b r => 100 * (b - r) / r) bc raw.
Definition all_nonzero (l : list Q) : bool := forallb (fun v => negb (Qeq_bool v 0)) l.

Definition mean_trend_bias (mult : bool) (raw_v raw_f bc_v bc_f : grid) : list Q :=
  trend_bias_of (trend mult (gmean bc_v) (gmean bc_f)) (trend mult (gmean raw_v) (gmean raw_f)).
Definition mean_trend (mult : bool) (bc_v bc_f : grid) : list Q := trend mult (gmean bc_v) (gmean bc_f).

(** None = ZeroDivisionError (multiplicative trend with a zero validation-period quantile somewhere) *)
Definition quantile_trend_bias (mult : bool) (q : Q) (raw_v raw_f bc_v bc_f : grid) : option (list Q) :=
  if mult && negb (all_nonzero (gquant q bc_v) && all_nonzero (gquant q raw_v)) then None
  else Some (trend_bias_of (trend mult (gquant q bc_v) (gquant q bc_f)) (trend mult (gquant q raw_v) (gquant q raw_f))).
Definition quantile_trend (mult : bool) (q : Q) (bc_v bc_f : grid) : option (list Q) :=
  if mult && negb (all_nonzero (gquant q bc_v)) then None else Some (trend mult (gquant q bc_v) (gquant q bc_f)).
(** metric trends from exceedance probabilities per cell *)
Definition metrics_trend_bias (mult : bool) (p_raw_v p_raw_f p_bc_v p_bc_f : list Q) : option (list Q) :=
  if mult && negb (all_nonzero p_bc_v && all_nonzero p_raw_v) then None
  else Some (trend_bias_of (trend mult p_bc_v p_bc_f) (trend mult p_raw_v p_raw_f)).
Definition metrics_trend (mult : bool) (p_bc_v p_bc_f : list Q) : option (list Q) :=
  if mult && negb (all_nonzero p_bc_v) then None else Some (trend mult p_bc_v p_bc_f).

(* ---------- conditional joint exceedance of one cell: P(m1 and m2) / P(m2) ---------- *)
Definition chi (m1 m2 : list bool) : option Q :=
  if Nat.eqb (count m2) 0 then None
  else Some (inject_Z (Z.of_nat (count (map2 andb m1 m2))) / inject_Z (Z.of_nat (count m2))).
