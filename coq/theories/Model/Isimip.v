(** Hand-written model of the bookkeeping of ISIMIP.step6 (sorting, sending the lowest / highest
    counts to the bounds with the REGENERATED masks, inserting the adjusted values, sorting back).
    The quantile-mapping of the values not sent to a bound ([_step6_adjust_values_between_thresholds])
    is a parameter A.  Tied to the code by correspondence K6. *)
From Coq Require Import QArith ZArith List Bool.
From IV Require Import QL NP Ecdf GenIsimip.
Import ListNotations.
Open Scope Q_scope.

(** vals[mask] = c *)
Fixpoint put_const (vals : list Q) (m : list bool) (c : Q) : list Q :=
  match vals, m with
  | v :: vr, b :: mr => (if b then c else v) :: put_const vr mr c
  | _, _ => vals
  end.
(** vals[mask] = new (in order) *)
Fixpoint put_vals (vals : list Q) (m : list bool) (new : list Q) : list Q :=
  match vals, m with
  | v :: vr, true :: mr => match new with y :: nr => y :: put_vals vr mr nr | [] => v :: vr end
  | v :: vr, false :: mr => v :: put_vals vr mr new
  | _, _ => vals
  end.
Fixpoint mask_not_either (a b : list bool) : list bool :=
  match a, b with x :: ar, y :: br => (negb x && negb y) :: mask_not_either ar br | _, _ => [] end.

Definition step6_assemble (lb ub : Q) (nlo nhi : Z) (fut_sorted : list Q) (A : list Q -> list Q) : list Q :=
  let ml := step6_mask_lower nlo fut_sorted in
  let mu := step6_mask_upper nhi fut_sorted in
  let mapped := put_const (put_const fut_sorted ml lb) mu ub in
  let mnot := mask_not_either ml mu in
  if existsb (fun b => b) mnot then put_vals mapped mnot (A (NP.select mapped mnot)) else mapped.

(** the whole step: sort cm_future, assemble, and put every value back at its original position *)
Definition step6 (lb ub : Q) (nlo nhi : Z) (fut : list Q) (A : list Q -> list Q) : list Q :=
  let s := qsort fut in
  let asm := step6_assemble lb ub nlo nhi s A in
  map (fun i => nth (rank_in fut i) asm 0) (seq 0 (length fut)).
