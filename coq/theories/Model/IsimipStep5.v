(** Hand-written model of ISIMIP._step5_transfer_trend for the rational trend-preservation methods (additive,
    multiplicative, bounded; "mixed" uses a cosine weight and is not modelled): pseudo future observations
    from obs_hist and the simulated change at the same quantile.  Tied to the code by correspondence K17. *)
From Coq Require Import QArith ZArith List Bool.
From IV Require Import QL Ecdf.
Import ListNotations.
Open Scope Q_scope.

Inductive trend_method := TAdditive | TMultiplicative | TBounded.

(** value for one quantile: q_oh = the obs_hist value itself, q_ch / q_cf the cm_hist / cm_future quantiles at its rank *)
Definition step5_value (m : trend_method) (a b : Q) (q_oh q_ch q_cf : Q) : Q :=
  match m with
  | TAdditive => q_oh + (q_cf - q_ch)
  | TMultiplicative =>
      let d := if Qeq_bool q_ch 0 then 1 else q_cf / q_ch in
      q_oh * QL.qmax2 (1 # 100) (QL.qmin2 100 d)
  | TBounded =>
      let neg := Qlt_bool q_ch q_oh in let pos := Qlt_bool q_oh q_ch in
      let zero := QL.isclose q_ch q_oh in
      let additive := (neg && Qlt_bool q_cf q_ch) || (pos && Qlt_bool q_ch q_cf) in
      let v0 := 0 in      (* np.empty_like: every entry is overwritten by one of the four assignments below or left as is *)
      let v1 := if neg then b - (b - q_oh) * (b - q_cf) / (b - q_ch) else v0 in
      let v2 := if zero then q_cf else v1 in
      let v3 := if pos then a + (q_oh - a) * (q_cf - a) / (q_ch - a) else v2 in
      let v4 := if additive then q_oh + q_cf - q_ch else v3 in
      QL.qmax2 a (QL.qmin2 v4 b)
  end.

Definition step5 (m : trend_method) (em : ecdf_method) (im : iecdf_method) (a b : Q) (obs_hist cm_hist cm_future : list Q) : list Q :=
  map (fun x => let p := ecdf em obs_hist x in step5_value m a b x (iecdf im cm_hist p) (iecdf im cm_future p)) obs_hist.
