(** Hand-written executable model of ibicus/utils/_math_utils.py: ecdf / iecdf /
    quantile mapping helpers, and of the NumPy routines they call (np.sort, np.quantile's
    virtual-index family, np.interp, statsmodels ECDF, rv_histogram.cdf).  Exact over Q.
    Tied to the code by correspondence batch K4. *)
From Coq Require Import QArith Qabs Qround ZArith List Bool Sorting.Mergesort Orders.
From IV Require Import QL.
Import ListNotations.
Open Scope Q_scope.

Module QOrder <: TotalLeBool.
  Definition t := Q.
  Definition leb := Qle_bool.
  Theorem leb_total : forall a1 a2, leb a1 a2 = true \/ leb a2 a1 = true.
  Proof.
    intros a b. unfold leb. destruct (Qle_bool a b) eqn:E; [left; reflexivity|right].
    apply Qle_bool_iff. destruct (Qlt_le_dec b a) as [H|H]; [apply Qlt_le_weak; exact H|].
    apply Qle_bool_iff in H. congruence.
  Qed.
End QOrder.
Module QSort := Sort QOrder.

Definition qsort (l : list Q) : list Q := QSort.sort l.
Definition nthq (l : list Q) (k : Z) : Q := nth (Z.to_nat k) l 0.
Definition zlen {A} (l : list A) : Z := Z.of_nat (length l).
Definition Qlt_bool (a b : Q) : bool := negb (Qle_bool b a).

(** piecewise-linear function through the points (k, s_k), constant outside [0, n-1]:
    NumPy's [_get_indexes]/[_lerp] for the continuous quantile methods *)
Definition lerp_at (s : list Q) (v : Q) : Q :=
  let n := zlen s in
  if Qle_bool (inject_Z (n - 1)) v then nthq s (n - 1)
  else if Qlt_bool v 0 then nthq s 0
  else let k := Qfloor v in
       let g := v - inject_Z k in
       Qred (nthq s k + (nthq s (k + 1) - nthq s k) * g).

(** NumPy's virtual index  n*p + alpha + p*(1 - alpha - beta) - 1 *)
Definition vindex (alpha beta : Q) (n : Z) (p : Q) : Q :=
  inject_Z n * p + (alpha + p * (1 - alpha - beta)) - 1.

Inductive iecdf_method :=
  | inverted_cdf | averaged_inverted_cdf | closest_observation | interpolated_inverted_cdf
  | hazen | weibull | linear | median_unbiased | normal_unbiased.

Definition alpha_beta (m : iecdf_method) : Q * Q :=
  match m with
  | interpolated_inverted_cdf => (0, 1)
  | hazen => (1 # 2, 1 # 2)
  | weibull => (0, 0)
  | linear => (1, 1)
  | median_unbiased => (1 # 3, 1 # 3)
  | normal_unbiased => (3 # 8, 3 # 8)
  | _ => (1, 1)
  end.

(** ibicus' own IECDF: sorted[floor((n-1) p)] *)
Definition iecdf_inv (s : list Q) (p : Q) : Q := nthq s (Qfloor (inject_Z (zlen s - 1) * p)).

(** np.quantile(method="averaged_inverted_cdf") *)
Definition quantile_avg (s : list Q) (p : Q) : Q :=
  let n := zlen s in
  let v := inject_Z n * p - 1 in
  if Qle_bool (inject_Z (n - 1)) v then nthq s (n - 1)
  else if Qlt_bool v 0 then nthq s 0
  else let k := Qfloor v in
       if Qeq_bool (v - inject_Z k) 0 then Qred ((nthq s k + nthq s (k + 1)) / 2) else nthq s (k + 1).

(** np.quantile(method="closest_observation") *)
Definition quantile_closest (s : list Q) (p : Q) : Q :=
  let n := zlen s in
  let idx := inject_Z n * p - 1 - (1 # 2) in
  let prev := Qfloor idx in
  let g := idx - inject_Z prev in
  let r := if Qeq_bool g 0 && (prev mod 2 =? 1)%Z then prev else (prev + 1)%Z in
  nthq s (if (r <? 0)%Z then 0%Z else r).

Definition iecdf_sorted (m : iecdf_method) (s : list Q) (p : Q) : Q :=
  match m with
  | inverted_cdf => iecdf_inv s p
  | averaged_inverted_cdf => quantile_avg s p
  | closest_observation => quantile_closest s p
  | _ => let ab := alpha_beta m in lerp_at s (vindex (fst ab) (snd ab) (zlen s) p)
  end.
Definition iecdf (m : iecdf_method) (x : list Q) (p : Q) : Q := iecdf_sorted m (qsort x) p.

(** np.interp(y, xp, fp) for non-decreasing xp (right-most bracket, clamped ends) *)
Fixpoint interp_aux (y : Q) (xp fp : list Q) : Q :=
  match xp, fp with
  | x0 :: ((x1 :: _) as xr), f0 :: ((f1 :: _) as fr) =>
      if Qle_bool x1 y then interp_aux y xr fr
      else Qred (f0 + (f1 - f0) * ((y - x0) / (x1 - x0)))
  | _, f0 :: _ => f0
  | _, _ => 0
  end.
Definition interp (y : Q) (xp fp : list Q) : Q :=
  match xp, fp with
  | x0 :: _, f0 :: _ => if Qlt_bool y x0 then f0 else interp_aux y xp fp
  | _, _ => 0
  end.

(** np.linspace(0, 1, n) *)
Definition linspace01 (n : nat) : list Q :=
  match n with
  | O => []
  | S O => [0]
  | _ => map (fun k => Qred (inject_Z (Z.of_nat k) / inject_Z (Z.of_nat n - 1))) (seq 0 n)
  end.

Inductive ecdf_method := step_function | linear_interpolation | kernel_density.

(** statsmodels ECDF (side='right'): #{x_i <= y} / n *)
Definition ecdf_step (x : list Q) (y : Q) : Q :=
  Qred (inject_Z (zlen (filter (fun v => Qle_bool v y) x)) / inject_Z (zlen x)).

(** ecdf "linear_interpolation": np.interp(y, np.quantile(x, linspace), linspace); in exact
    arithmetic np.quantile(x, k/(n-1)) (method linear) is the k-th order statistic *)
Definition ecdf_lin_sorted (s : list Q) (y : Q) : Q := interp y s (linspace01 (length s)).
Definition ecdf_lin (x : list Q) (y : Q) : Q := ecdf_lin_sorted (qsort x) y.

(** rv_histogram(np.histogram(x, bins)).cdf: np.interp over the bin edges of the cumulative
    normalised counts.  Edges and counts are NumPy's (bins="auto" is not modelled). *)
Fixpoint cumsum_from (acc : Q) (l : list Q) : list Q :=
  match l with [] => [] | c :: r => let a := Qred (acc + c) in a :: cumsum_from a r end.
Definition ecdf_hist (edges counts : list Q) (y : Q) : Q :=
  let total := QL.qsum counts in
  interp y edges (0 :: map (fun c => Qred (c / total)) (cumsum_from 0 counts)).

Definition ecdf (m : ecdf_method) (x : list Q) (y : Q) : Q :=
  match m with
  | step_function => ecdf_step x y
  | linear_interpolation => ecdf_lin x y
  | kernel_density => 0  (* needs NumPy's histogram: use ecdf_hist *)
  end.

(** quantile_map_non_parametically(x, y, vals) = iecdf(y, ecdf(x, vals)) *)
Definition qmap (em : ecdf_method) (im : iecdf_method) (x y : list Q) (v : Q) : Q :=
  iecdf im y (ecdf em x v).

(** quantile_map_x_on_y_non_parametically(x, y, mode="normal"): the sample mapped through its own ECDF *)
Definition xony_normal (em : ecdf_method) (im : iecdf_method) (x y : list Q) : list Q :=
  map (qmap em im x y) x.

(** quantile_map_x_on_y_non_parametically(x, y, mode="isimipv3.0"):
    p_x = (scipy.stats.rankdata(x) - 1) / n with average ranks, then np.interp(p_x, linspace(0, 1, m), sort(y)),
    which is the "linear" quantile of y at p_x *)
Definition rank_p (x : list Q) (v : Q) : Q :=
  let less := zlen (filter (fun u => Qlt_bool u v) x) in
  let leq := zlen (filter (fun u => Qle_bool u v) x) in
  Qred (inject_Z (less + leq - 1) / 2 / inject_Z (zlen x)).
Definition xony_isimip (x y : list Q) : list Q := map (fun v => iecdf linear y (rank_p x v)) x.

(** ... _with_constant_extrapolation *)
Definition qmap_extrap (em : ecdf_method) (im : iecdf_method) (x y : list Q) (v : Q) : Q :=
  let xmin := QL.qmin x in let xmax := QL.qmax x in
  if Qlt_bool v xmin then Qred (v + (QL.qmin y - xmin))
  else if Qlt_bool xmax v then Qred (v + (QL.qmax y - xmax))
  else qmap em im x y v.

(** sort_array_like_another_one(x, y) = np.sort(x)[argsort(argsort(y))] : rank of y_i among y
    (stable: ties broken by position) *)
Definition rank_in (y : list Q) (i : nat) : nat :=
  let yi := nth i y 0 in
  length (filter (fun v => Qlt_bool v yi) y) +
  length (filter (fun v => Qeq_bool v yi) (firstn i y)).
Definition sort_like (x y : list Q) : list Q :=
  let s := qsort x in map (fun i => nth (rank_in y i) s 0) (seq 0 (length y)).
