(** Hand-written model of ISIMIP step 4 (_step4_randomize_values_between_lower_threshold_and_bound and its upper
    twin): values at or beyond a threshold are replaced by sorted uniform draws between bound and threshold,
    arranged in the order of the values they replace (sort_array_like_another_one).  The uniform draws of
    np.random.uniform are an input [us] (values in [0,1)).  Tied to the code by correspondence K16. *)
From Coq Require Import QArith ZArith List Bool.
From IV Require Import QL NP Ecdf.
Import ListNotations.
Open Scope Q_scope.

(** vals[mask] = new *)
Fixpoint scatter (vals : list Q) (m : list bool) (new : list Q) : list Q :=
  match vals, m with
  | v :: vs, true :: ms => match new with x :: xs => x :: scatter vs ms xs | [] => v :: vs end
  | v :: vs, false :: ms => v :: scatter vs ms new
  | _, _ => vals
  end.

Definition step4_generic (beyond : Q -> bool) (lo hi : Q) (us vals : list Q) : list Q :=
  let m := map beyond vals in
  let sel := NP.select vals m in
  let draws := qsort (map (fun u => Qred (lo + (hi - lo) * u)) (firstn (length sel) us)) in
  scatter vals m (sort_like draws sel).

Definition step4_lower (lb lt : Q) := step4_generic (fun v => Qle_bool v lt) lb lt.
Definition step4_upper (ut ub : Q) := step4_generic (fun v => Qle_bool ut v) ut ub.
