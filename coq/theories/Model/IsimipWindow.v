(** Hand-written composition of ISIMIP._apply_on_window for an UNBOUNDED variable with additive trend preservation
    (tas, psl, rlds: no thresholds, so steps 2 (no missing values) and 4 are the identity and step 6 is its parametric
    value adjustment alone): step 3 (detrending, Model/IsimipStep3.v) -> step 5 (pseudo future observations,
    Model/IsimipStep5.v) -> step 6 (ppf of the fit to the pseudo future observations at the clamped cdf of the fit to
    cm_future, value by value) -> step 7 (trend added back).  The three significance decisions of step 3 are inputs.
    Tied to the code by correspondence K22 (the real ISIMIP._apply_on_window with the rational distribution). *)
From Coq Require Import QArith ZArith List Bool.
From IV Require Import NP QL Dist Ecdf GenUtils IsimipStep3 IsimipStep5.
Import ListNotations.
Open Scope Q_scope.

Section Window.
Context {P : Type} (D : dist P).
Variables (em : ecdf_method) (im : iecdf_method) (thr : Q).

Definition step6_unbounded (obs_future cm_future : list Q) : list Q :=
  map (fun x => ppf D (fit D obs_future) (GenUtils.threshold_cdf_vals (cdf D (fit D cm_future) x) thr)) cm_future.

Definition isimip_window (so sh sf : bool) (yo yh yf : list Z) (obs hist fut : list Q) : list Q :=
  let o' := step3_remove so yo obs in
  let h' := step3_remove sh yh hist in
  let f' := step3_remove sf yf fut in
  let tr := step3_trend sf yf fut in
  let obs_future := step5 TAdditive em im 0 0 o' h' f' in
  step7_restore (step6_unbounded obs_future f') tr.
End Window.
