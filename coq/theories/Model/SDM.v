(** Hand-written model of ScaledDistributionMapping._apply_on_window_absolute_sdm
    (ibicus/debias/_scaled_distribution_mapping.py).  The distribution is a parameter with a scale accessor
    (the code reads fit[1]); np.argsort / fancy indexing / np.argsort(argsort) are expressed through order
    statistics and the stable rank of Model/Ecdf.v.  Tied to the code by correspondence K15. *)
From Coq Require Import QArith Qabs Qround ZArith List Bool.
From IV Require Import QL Dist Ecdf.
Import ListNotations.
Open Scope Q_scope.

Definition detrend_const (l : list Q) : list Q := let m := QL.qmean l in map (fun x => Qred (x - m)) l.

Definition thr_cdf (t c : Q) : Q := QL.qmax2 (QL.qmin2 c (1 - t)) t.
Definition default_thr : Q := 1 # 10000000000.

(** np.linspace(1, m, n) *)
Definition linspace1 (m n : nat) : list Q :=
  match n with
  | O => []
  | S O => [1]
  | _ => map (fun j => Qred (1 + inject_Z (Z.of_nat j) * (inject_Z (Z.of_nat m) - 1) / (inject_Z (Z.of_nat n) - 1))) (seq 0 n)
  end.

(** interp_sorted_cdf_vals_on_given_length *)
Definition interp_len (v : list Q) (n : nat) : list Q :=
  let m := length v in
  map (fun y => interp y (linspace1 m m) v) (linspace1 m n).

Definition qsign (x : Q) : Q := if Qlt_bool 0 x then 1 else if Qlt_bool x 0 then -(1) else 0.

Section SDM.
Context {P : Type} (D : dist P).
Variable scale_of : P -> Q.

Definition recurrence (c : Q) : Q := 1 / ((1 # 2) - Qabs (c - (1 # 2))).

Definition sdm_absolute (obs hist fut : list Q) : list Q :=
  let od := detrend_const obs in let hd := detrend_const hist in let fd := detrend_const fut in
  let fo := fit D od in let fh := fit D hd in let ff := fit D fd in
  let co := map (thr_cdf default_thr) (qsort (map (cdf D fo) od)) in
  let ch := map (thr_cdf default_thr) (qsort (map (cdf D fh) hd)) in
  let cf := map (thr_cdf default_thr) (map (cdf D ff) (qsort fd)) in
  let n := length fut in
  let coi := interp_len co n in let chi := interp_len ch n in
  let bc := map (fun k =>
       let cfk := nth k cf 0 in let cok := nth k coi 0 in let chk := nth k chi 0 in
       let scaling := (ppf D ff cfk - ppf D fh cfk) * scale_of fo / scale_of fh in
       let ris := QL.qmax2 1 (recurrence cok * recurrence cfk / recurrence chk) in
       let cs := thr_cdf default_thr ((1 # 2) + qsign (cok - (1 # 2)) * Qabs ((1 # 2) - 1 / ris)) in
       Qred (ppf D fo cs + scaling)) (seq 0 n) in
  let shift := QL.qmean obs - QL.qmean hist in
  map (fun i => Qred (nth (rank_in fd i) bc 0 + (nth i fut 0 - nth i fd 0 + shift))) (seq 0 n).
End SDM.

(** ScaledDistributionMapping._apply_on_window_relative_sdm (precipitation): None = the ValueError raised when one
    of the series has no value at or above the threshold *)
Section SDMrel.
Context {P : Type} (D : dist P).
Variables (pr_thr cdf_thr : Q).

Definition last_n {A} (k : nat) (l : list A) : list A := skipn (length l - k) l.

Definition sdm_relative (obs hist fut : list Q) : option (list Q) :=
  let fs := qsort fut in
  let rainy l := filter (fun v => Qle_bool pr_thr v) l in
  let ro := rainy (qsort obs) in let rh := rainy (qsort hist) in let rf := rainy fs in
  if (Nat.eqb (length ro) 0 || Nat.eqb (length rh) 0 || Nat.eqb (length rf) 0)%bool then None else
  let nq (l : list Q) := inject_Z (Z.of_nat (length l)) in
  let expected0 := QL.round_half_even (nq rf * (nq ro / nq obs) / (nq rh / nq hist)) in
  let expected := Z.to_nat (Z.min expected0 (Z.of_nat (length rf))) in
  let fo := fit D ro in let fh := fit D rh in let ff := fit D rf in
  let co := map (fun x => thr_cdf cdf_thr (cdf D fo x)) ro in
  let ch := map (fun x => thr_cdf cdf_thr (cdf D fh x)) rh in
  let cf := map (fun x => thr_cdf cdf_thr (cdf D ff x)) rf in
  let m := length rf in
  let coi := interp_len co m in let chi := interp_len ch m in
  let bc := map (fun k =>
       let cfk := nth k cf 0 in let cok := nth k coi 0 in let chk := nth k chi 0 in
       let scaling := ppf D ff cfk / ppf D fh cfk in
       let ri c := 1 / (1 - c) in
       let ris := QL.qmax2 1 (ri cok * ri cfk / ri chk) in
       let cs := thr_cdf default_thr (1 - 1 / ris) in
       Qred (ppf D fo cs * scaling)) (seq 0 m) in
  let n := length fut in
  let sorted_out := repeat 0 (n - expected) ++ last_n expected bc in
  Some (map (fun i => nth (rank_in fut i) sorted_out 0) (seq 0 n)).
End SDMrel.
