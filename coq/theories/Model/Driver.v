(** Hand-written model of the running-window scatter loops:
    RunningWindowDebiaser.apply_location, DeltaChange.apply_location, ISIMIP.apply_location
    (window mode) — all three iterate [use(days of the adjusted series)], compute the window
    result for the centre, select it with the Boolean mask and scatter it to the adjust indices —
    and of the year-window loop inside CDFt / QuantileDeltaMapping.apply_on_window.
    The window index functions are the REGENERATED ones (Gen/GenWindows.v).
    Tied to the code by correspondence K3. *)
From Coq Require Import ZArith List Bool.
From IV Require Import NP GenWindows Grid.
Import ListNotations.
Open Scope Z_scope.

Section Driver.
Variable V : Type.

(** out[idx] = vals (index-array assignment; lengths must agree, indices in range) *)
Fixpoint put_all (b : list (option V)) (idx : list Z) (vals : list V) : list (option V) :=
  match idx, vals with
  | i :: idx', v :: vals' => put_all (upd b (Z.to_nat i) (Some v)) idx' vals'
  | _, _ => b
  end.
Definition put (b : list (option V)) (idx : list Z) (vals : list V) : option (list (option V)) :=
  if (Nat.eqb (length idx) (length vals) && forallb (fun i => (0 <=? i) && (i <? Z.of_nat (length b))) idx)%bool
  then Some (put_all b idx vals) else None.

(** the day-window loop; [dA] are the days of year of the series that is adjusted (cm_future, or
    obs for DeltaChange), [Wc c] the window result for centre c, aligned with the window indices *)
Definition driver (L S : Z) (dA : list Z) (Wc : Z -> list V) : option (list (option V)) :=
  fold_left (fun buf ci =>
     match buf with
     | None => None
     | Some b =>
         let iw := days_indices_in_window L dA (fst ci) in
         put b (snd ci) (NP.select (Wc (fst ci)) (days_mask_adjust_in_window iw (snd ci)))
     end) (days_use S dA) (Some (repeat None (length dA))).

(** RunningWindowDebiaser.apply_location as the code is now written: a window whose adjust index set is
    empty (no time step of the adjusted series falls on its days) is skipped BEFORE the window method is
    called — so a method that cannot cope with an empty slice is never handed one for nothing *)
Definition driver_skip (L S : Z) (dA : list Z) (Wc : Z -> list V) : option (list (option V)) :=
  fold_left (fun buf ci =>
     match buf with
     | None => None
     | Some b =>
         match snd ci with
         | [] => Some b
         | _ :: _ =>
           let iw := days_indices_in_window L dA (fst ci) in
           put b (snd ci) (NP.select (Wc (fst ci)) (days_mask_adjust_in_window iw (snd ci)))
         end
     end) (days_use S dA) (Some (repeat None (length dA))).

(** the centres whose window method is actually evaluated by the skipping loop *)
Definition evaluated_centres (S : Z) (dA : list Z) : list Z :=
  map fst (filter (fun ci => match snd ci with [] => false | _ => true end) (days_use S dA)).

(** RunningWindowDebiaser / ISIMIP (window mode): the per-window method sees the three slices *)
Definition driver_rw {T : Type} (L S : Z) (dobs dhist dfut : list Z) (obs hist fut : list T)
           (W : list T -> list T -> list T -> list V) : option (list (option V)) :=
  driver L S dfut (fun c => W (NP.take obs (days_indices_in_window L dobs c))
                              (NP.take hist (days_indices_in_window L dhist c))
                              (NP.take fut (days_indices_in_window L dfut c))).

Definition driver_rw_skip {T : Type} (L S : Z) (dobs dhist dfut : list Z) (obs hist fut : list T)
           (W : list T -> list T -> list T -> list V) : option (list (option V)) :=
  driver_skip L S dfut (fun c => W (NP.take obs (days_indices_in_window L dobs c))
                                   (NP.take hist (days_indices_in_window L dhist c))
                                   (NP.take fut (days_indices_in_window L dfut c))).

(** DeltaChange: the loop runs over obs' days and the output follows obs *)
Definition driver_dc {T : Type} (L S : Z) (dobs dhist dfut : list Z) (obs hist fut : list T)
           (W : list T -> list T -> list T -> list V) : option (list (option V)) :=
  driver L S dobs (fun c => W (NP.take obs (days_indices_in_window L dobs c))
                              (NP.take hist (days_indices_in_window L dhist c))
                              (NP.take fut (days_indices_in_window L dfut c))).

(** Boolean-mask assignment out[mask] = vals *)
Fixpoint put_mask (b : list (option V)) (mask : list bool) (vals : list V) : list (option V) :=
  match b, mask with
  | x :: b', true :: m' => match vals with v :: vals' => Some v :: put_mask b' m' vals' | [] => x :: b' end
  | x :: b', false :: m' => x :: put_mask b' m' vals
  | _, _ => b
  end.

(** the year-window loop of CDFt / QDM inside one day window: [years] of the window's cm_future
    values; [Wy mask_in_window] the result for the values selected by that mask *)
Definition years_driver (L S : Z) (years : list Z) (Wy : list bool -> list V) : option (list (option V)) :=
  fold_left (fun buf aw =>
     match buf with
     | None => None
     | Some b =>
         let m_win := years_if_in_chosen years (snd aw) in
         let m_adj := years_if_in_chosen years (fst aw) in
         let m_win_adj := years_if_in_chosen (NP.select years m_win) (fst aw) in
         let vals := NP.select (Wy m_win) m_win_adj in
         if Z.eqb (NP.zcount m_adj) (Z.of_nat (length vals)) then Some (put_mask b m_adj vals) else None
     end) (years_use L S years) (Some (repeat None (length years))).
(** ISIMIP.apply_location in month mode (running_window_mode = False): for each month 1..12 the step
    pipeline sees the three series restricted to that month and its result is written back through the
    Boolean mask of cm_future's months *)
Definition months_driver {T : Type} (mo mh mf : list Z) (obs hist fut : list T)
           (W : list T -> list T -> list T -> list V) : option (list (option V)) :=
  fold_left (fun buf m =>
     match buf with
     | None => None
     | Some b =>
         let mask := map (Z.eqb m) mf in
         let vals := W (NP.select obs (map (Z.eqb m) mo)) (NP.select hist (map (Z.eqb m) mh)) (NP.select fut mask) in
         if Z.eqb (NP.zcount mask) (Z.of_nat (length vals)) then Some (put_mask b mask vals) else None
     end) (NP.arange1 1 13) (Some (repeat None (length mf))).
End Driver.
