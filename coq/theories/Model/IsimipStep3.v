(** Hand-written model of ISIMIP steps 3 and 7 (linear detrending of the annual means, trend added back):
    ISIMIP._step3_remove_trend and step7.  The annual means are regressed on the years (ordinary least squares, exact
    over Q); scipy's significance decision (p-value < 0.05 and detrending_with_significance_test) is an input [sig] of
    the model (recorded from the implementation by correspondence K21). *)
From Coq Require Import QArith ZArith List Bool.
From IV Require Import NP QL.
Import ListNotations.
Open Scope Q_scope.

(** values of year y *)
Definition vals_of_year (years : list Z) (x : list Q) (y : Z) : list Q := NP.select x (map (Z.eqb y) years).

(** get_years_and_yearly_means *)
Definition yearly_means (years : list Z) (x : list Q) : list Q :=
  map (fun y => QL.qmean (vals_of_year years x y)) (NP.unique years).

(** sum of f(t, v) over paired lists *)
Definition sum2 (f : Q -> Q -> Q) (t v : list Q) : Q := QL.qsum (map (fun p => f (fst p) (snd p)) (combine t v)).

(** ordinary least squares slope of v on t (scipy.stats.linregress(...).slope) *)
Definition ols_slope (t v : list Q) : Q :=
  let n := QL.qlen t in
  let tm := QL.qsum t / n in let vm := QL.qsum v / n in
  sum2 (fun a b => (a - tm) * (b - vm)) t v / sum2 (fun a _ => (a - tm) * (a - tm)) t v.

(** the trend value of each unique year: slope * (year - mean(unique years)), or zero when not significant *)
Definition annual_trend (sig : bool) (years : list Z) (x : list Q) : list (Z * Q) :=
  let uy := NP.unique years in
  let tq := map inject_Z uy in
  let slope := ols_slope tq (yearly_means years x) in
  let tm := QL.qsum tq / QL.qlen tq in
  map (fun y => (y, if sig then slope * (inject_Z y - tm) else 0)) uy.

Fixpoint lookup_year (tr : list (Z * Q)) (y : Z) : Q :=
  match tr with
  | [] => 0
  | (u, v) :: r => if Z.eqb u y then v else lookup_year r y
  end.

(** the trend mapped onto the time steps, and the detrended series *)
Definition step3_trend (sig : bool) (years : list Z) (x : list Q) : list Q :=
  map (lookup_year (annual_trend sig years x)) years.
Definition step3_remove (sig : bool) (years : list Z) (x : list Q) : list Q :=
  QL.zip2 (fun a b => Qred (a - b)) x (step3_trend sig years x).
Definition step7_restore (x trend : list Q) : list Q := QL.zip2 (fun a b => Qred (a + b)) x trend.
