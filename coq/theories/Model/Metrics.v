(** Hand-written model of ibicus/evaluate/metrics.py (ThresholdMetric / AccumulativeThresholdMetric)
    for one dataset [t][cell] (cells flattened).  Tied to the code by correspondence K12. *)
From Coq Require Import QArith ZArith List Bool.
From IV Require Import QL NP.
Import ListNotations.
Open Scope Q_scope.

Inductive ttype := Higher | Lower | Between | Outside.

Definition Qgt_bool (a b : Q) : bool := negb (Qle_bool a b).
Definition Qlt_bool' (a b : Q) : bool := negb (Qle_bool b a).

(** the defining comparison; [lo] is the (lower) threshold, [hi] the upper one for between/outside *)
Definition cond (ty : ttype) (lo hi v : Q) : bool :=
  match ty with
  | Higher => Qgt_bool v lo
  | Lower => Qlt_bool' v lo
  | Between => Qgt_bool v lo && Qlt_bool' v hi
  | Outside => Qlt_bool' v lo || Qgt_bool v hi
  end.

(** thresholds may depend on the time step (scope day/month/season: looked up by the time key) and
    on the cell (locality local): [thr t c] = (lo, hi) *)
Definition mask (ty : ttype) (thr : nat -> nat -> Q * Q) (x : list (list Q)) : list (list bool) :=
  map (fun tr => map (fun cv => cond ty (fst (thr (fst tr) (fst cv))) (snd (thr (fst tr) (fst cv))) (snd cv))
                     (combine (seq 0 (length (snd tr))) (snd tr)))
      (combine (seq 0 (length x)) x).

Definition count (m : list bool) : nat := length (filter (fun b => b) m).
Definition total (m : list (list bool)) : nat := fold_right (fun r a => (count r + a)%nat) 0%nat m.

(** column of one cell *)
Definition column {A} (d : A) (m : list (list A)) (c : nat) : list A := map (fun r => nth c r d) m.

(** exceedance probability of a cell = mean of its instances *)
Definition probability (m : list (list bool)) (c : nat) : Q :=
  inject_Z (Z.of_nat (count (column false m c))) / inject_Z (Z.of_nat (length m)).

(** annual counts of a cell *)
Definition annual (years : list Z) (uyears : list Z) (col : list bool) : list nat :=
  map (fun y => count (map snd (filter (fun p => Z.eqb (fst p) y) (combine years col)))) uyears.

(** spell lengths of one cell exactly as coded:
    np.diff(np.where(concat([m[0]], m[:-1] != m[1:], [True]))[0])[::2] *)
Fixpoint changes (m : list bool) : list bool :=
  match m with
  | a :: ((b :: _) as r) => negb (Bool.eqb a b) :: changes r
  | _ => []
  end.
Fixpoint diffs (l : list Z) : list Z :=
  match l with
  | a :: ((b :: _) as r) => (b - a)%Z :: diffs r
  | _ => []
  end.
Fixpoint every_other {A} (l : list A) : list A :=
  match l with
  | a :: _ :: r => a :: every_other r
  | [a] => [a]
  | [] => []
  end.
Definition spells (m : list bool) : list Z :=
  match m with
  | [] => []
  | m0 :: _ => every_other (diffs (NP.where_idx ((m0 :: changes m) ++ [true])))
  end.

(** specification: lengths of the maximal runs of [true] *)
Fixpoint runs_aux (cur : nat) (m : list bool) : list nat :=
  match m with
  | [] => if Nat.eqb cur 0 then [] else [cur]
  | true :: r => runs_aux (S cur) r
  | false :: r => if Nat.eqb cur 0 then runs_aux 0 r else cur :: runs_aux 0 r
  end.
Definition runs (m : list bool) : list nat := runs_aux 0 m.

(** spatial extent per time step (fraction of cells), zero rows dropped *)
Definition extent (m : list (list bool)) : list Q :=
  filter (fun q : Q => negb (Qeq_bool q 0))
         (map (fun r => inject_Z (Z.of_nat (count r)) / inject_Z (Z.of_nat (length r))) m).

(** cluster sizes given a labelling of the flattened [t][cell] array (scipy.ndimage.label is an
    oracle): sum of the instances over each label 1..k *)
Definition cluster_sizes (flat : list bool) (lab : list nat) (k : nat) : list nat :=
  map (fun l => count (map snd (filter (fun p => Nat.eqb (fst p) l) (combine lab flat)))) (seq 1 k).

(** accumulative metrics of one cell: values where the condition is met, zero elsewhere *)
Definition filtered (col : list bool) (vals : list Q) : list Q :=
  map (fun p : bool * Q => if fst p then snd p else 0) (combine col vals).
Definition percent_of_total (col : list bool) (vals : list Q) : Q := 100 * QL.qsum (filtered col vals) / QL.qsum vals.
Definition intensity (col : list bool) (vals : list Q) : Q := QL.qsum (filtered col vals) / inject_Z (Z.of_nat (count col)).
