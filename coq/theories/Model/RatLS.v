(** A computable, strictly increasing, symmetric location-scale family with rational cdf and ppf:
      F0 z = 1/2 (1 + z / (1 + |z|)),   Q0 = F0^-1,   fit = (mean, mean absolute deviation).
    It makes every hypothesis bundle about distributions non-vacuous and lets the models run
    against the real debiasers (the same family is passed as distribution= in the harness). *)
From Coq Require Import QArith Qabs List Lqa.
From IV Require Import QL Dist.
Import ListNotations.
Open Scope Q_scope.

Definition F0 (z : Q) : Q := (1 # 2) * (1 + z / (1 + Qabs z)).
Definition Q0 (p : Q) : Q :=
  let y := 2 * p - 1 in if Qle_bool 0 y then y / (1 - y) else y / (1 + y).

Definition mad (l : list Q) : Q :=
  let m := QL.qmean l in Qred (QL.qsum (map (fun x => Qabs (x - m)) l) / QL.qlen l).

Definition ratls_fit (l : list Q) : Q * Q := (QL.qmean l, mad l).
Definition ratls_cdf (p : Q * Q) (x : Q) : Q := Qred (F0 ((x - fst p) / snd p)).
Definition ratls_ppf (p : Q * Q) (q : Q) : Q := Qred (fst p + snd p * Q0 q).
Definition ratls : dist (Q * Q) := mkDist ratls_fit ratls_cdf ratls_ppf.
