#!/bin/sh
# (re)create _CoqProject file list and Makefile
cd "$(dirname "$0")"
{ head -2 _CoqProject; find theories -name '*.v' ! -path 'theories/Corr/cases/*' ! -name '*_pa.v' | sort; } > _CoqProject.new
if ! cmp -s _CoqProject.new _CoqProject || [ ! -f Makefile ]; then
  mv _CoqProject.new _CoqProject
  coq_makefile -f _CoqProject -o Makefile >/dev/null
else rm _CoqProject.new; fi
