#!/bin/bash
# usage: tools/runall.sh <tier> <seed>...   — runs every claimed check once per seed, prints one line per run
tier=${1:-quick}; shift
seeds=${@:-0}
cd "$(dirname "$0")/.."
for s in $seeds; do
  for i in $(seq -w 1 20); do
    id=C$i
    t0=$(date +%s)
    out=$(VERIF_SEED=$s ./check $id --tier $tier 2>&1); rc=$?
    t1=$(date +%s)
    echo "seed=$s $id rc=$rc $((t1-t0))s $(echo "$out" | grep -c '^KNOWN-FINDING') known $(echo "$out" | grep '^VIOLATION' | head -2 | tr '\n' ' ')"
  done
done
