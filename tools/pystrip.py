#!/usr/bin/env python3
"""Print a python file without docstrings/comments (reading aid)."""
import ast, sys
def strip(path):
    tree = ast.parse(open(path).read())
    for node in ast.walk(tree):
        if isinstance(node, (ast.FunctionDef, ast.ClassDef, ast.Module, ast.AsyncFunctionDef)):
            b = node.body
            if b and isinstance(b[0], ast.Expr) and isinstance(getattr(b[0], "value", None), ast.Constant) and isinstance(b[0].value.value, str):
                if len(b) > 1: node.body = b[1:]
                else: b[0].value.value = "doc"
    return ast.unparse(tree)
for p in sys.argv[1:]:
    print("#####", p); print(strip(p))
