#!/usr/bin/env python3
"""Apply one seeded change to /repo, run the named checks against it, undo it.
usage: tools/seedtest.py <patch.diff> <Cnn> [<Cmm> ...] [--thorough]
Prints one JSON line per check: {"id","tier","rc","violation","classes","seconds"}.  /repo is always restored."""
import json, os, subprocess, sys, time
ROOT = os.path.dirname(os.path.dirname(os.path.abspath(__file__)))
def sh(*a, **k): return subprocess.run(a, capture_output=True, text=True, **k)
def main():
    args = [a for a in sys.argv[1:] if not a.startswith("--")]
    thorough = "--thorough" in sys.argv
    patch, ids = os.path.abspath(args[0]), args[1:]
    if sh("git", "-C", "/repo", "status", "--porcelain").stdout.strip():
        print("refusing: /repo is not clean"); return 2
    r = sh("git", "-C", "/repo", "apply", patch)
    if r.returncode: print("patch does not apply:", r.stderr); return 2
    out = []
    try:
        for pid in ids:
            for tier in (["quick", "thorough"] if thorough else ["quick"]):
                t0 = time.time()
                r = sh(os.path.join(ROOT, "check"), pid, "--tier", tier, cwd=ROOT)
                v = [l for l in r.stdout.splitlines() if l.startswith("VIOLATION")]
                classes, broken = [], []
                for l in v:
                    rp = l.split("replay=")[1].split()[0]
                    try:
                        d = json.load(open(rp)); classes.append(d.get("class")); broken += [b.get("item", b) if isinstance(b, dict) else b for b in d.get("broken", [])]
                    except Exception: pass
                rec = dict(id=pid, tier=tier, rc=r.returncode, violation=v[:2], classes=classes, broken=[str(b)[:160] for b in broken][:6], seconds=round(time.time() - t0))
                print(json.dumps(rec)); sys.stdout.flush(); out.append(rec)
                if r.returncode != 0: break
    finally:
        sh("git", "-C", "/repo", "apply", "-R", patch)
        sh("git", "-C", "/repo", "checkout", "--", ".")
        left = sh("git", "-C", "/repo", "status", "--porcelain").stdout.strip()
        if left: print("WARNING: /repo not clean after undo:", left)
    return 0
sys.exit(main())
