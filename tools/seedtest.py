#!/usr/bin/env python3
"""Apply one seeded change to /repo, run the named checks against it, undo it.
usage: tools/seedtest.py [--repo DIR] <patch.diff> <Cnn> [<Cmm> ...] [--thorough]   (DIR: a scratch worktree; default /repo)
Prints one JSON line per check: {"id","tier","rc","violation","classes","seconds"}.  /repo is always restored."""
import json, os, subprocess, sys, time
ROOT = os.path.dirname(os.path.dirname(os.path.abspath(__file__)))
def sh(*a, **k): return subprocess.run(a, capture_output=True, text=True, **k)
def main():
    argv = sys.argv[1:]
    REPO = "/repo"
    if "--repo" in argv:
        i = argv.index("--repo"); REPO = os.path.abspath(argv[i + 1]); del argv[i:i + 2]
    os.environ["IBICUS_REPO"] = REPO
    args = [a for a in argv if not a.startswith("--")]
    thorough = "--thorough" in argv
    patch, ids = os.path.abspath(args[0]), args[1:]
    if sh("git", "-C", REPO, "status", "--porcelain").stdout.strip():
        print("refusing: %s is not clean" % REPO); return 2
    r = sh("git", "-C", REPO, "apply", patch)
    if r.returncode: print("patch does not apply:", r.stderr); return 2
    out = []
    try:
        for pid in ids:
            for tier in (["quick", "thorough"] if thorough else ["quick"]):
                t0 = time.time()
                r = sh(os.path.join(ROOT, "check"), pid, "--tier", tier, cwd=ROOT)
                v = [l for l in r.stdout.splitlines() if l.startswith("VIOLATION")]
                classes, broken = [], []
                for l in v:
                    rp = l.split("replay=")[1].split()[0]
                    try:
                        d = json.load(open(rp)); classes.append(d.get("class")); broken += [b.get("item", b) if isinstance(b, dict) else b for b in d.get("broken", [])]
                    except Exception: pass
                rec = dict(id=pid, tier=tier, rc=r.returncode, violation=v[:2], classes=classes, broken=[str(b)[:160] for b in broken][:6], seconds=round(time.time() - t0))
                print(json.dumps(rec)); sys.stdout.flush(); out.append(rec)
                if r.returncode != 0: break
    finally:
        sh("git", "-C", REPO, "apply", "-R", patch)
        sh("git", "-C", REPO, "checkout", "--", ".")
        left = sh("git", "-C", REPO, "status", "--porcelain").stdout.strip()
        if left: print("WARNING: /repo not clean after undo:", left)
    return 0
sys.exit(main())
