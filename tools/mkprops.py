#!/usr/bin/env python3
"""Emit a Props/<Cnn>.v skeleton from `Theorem` headers of a Proofs file (top-level theorems only; theorems
inside Sections must be restated by hand because their section variables are not in the header)."""
import re, sys
src = open(sys.argv[1]).read()
prefix = sys.argv[2]
out = []
depth = 0
for m in re.finditer(r"^(Section|End|Theorem)\s+([A-Za-z0-9_']+)(.*?)(?=\.\s*$)", src, re.M | re.S):
    kind, name, rest = m.group(1), m.group(2), m.group(3)
    if kind == "Section": depth += 1; continue
    if kind == "End": depth = max(0, depth - 1); continue
    if depth: out.append("(* in a Section, restate by hand: %s *)" % name); continue
    i = 0; par = 0
    while i < len(rest):
        ch = rest[i]
        if ch in "({": par += 1
        elif ch in ")}": par -= 1
        elif ch == ":" and par == 0 and rest[i:i+2] != ":=": break
        i += 1
    binders, stmt = rest[:i].strip(), rest[i+1:].strip()
    binders = re.sub(r"\{(\w+)\}", r"(\1 : Type)", binders)
    fa = ("forall %s,\n  " % binders) if binders else ""
    out.append("Theorem %s_%s : %s%s.\nProof. exact @%s. Qed.\nPrint Assumptions %s_%s.\n" % (prefix, name, fa, stmt, name, prefix, name))
print("\n".join(out))
