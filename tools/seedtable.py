#!/usr/bin/env python3
"""Markdown table of the seeded changes filed under /verif/seeded (from their meta.json)."""
import glob, json, os
ROOT = os.path.dirname(os.path.dirname(os.path.abspath(__file__)))
rows = []
for m in sorted(glob.glob(os.path.join(ROOT, "seeded", "*", "meta.json"))):
    d = json.load(open(m))
    first = next((c for c in d["checks"] if c["exit"] == 1), None)
    how = "-"
    if first:
        kinds = []
        if first["classes"] and first["classes"][0]: kinds.append("witness `%s`" % first["classes"][0])
        for b in first["broken"]:
            k = "proof" if "'kind': 'proof'" in b else "translator refusal" if "translator-refusal" in b else "correspondence" if "'kind': 'correspondence'" in b else None
            if k and k not in kinds: kinds.append(k)
        how = "%s: %s" % (first["tier"], ", ".join(kinds) or "broken obligation")
    rows.append("| %s | %s | %s | %s |" % (d["id"], (d.get("summary") or "").replace("|", "/")[:120], (d.get("needs_to_manifest") or "").replace("|", "/")[:110], how))
print("| id | change | needs | caught by |\n|---|---|---|---|")
print("\n".join(rows))
