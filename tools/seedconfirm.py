#!/usr/bin/env python3
"""Confirm the candidate changes left by the sub-agents against /repo's HEAD and file them under /verif/seeded/.
For each <outdir>/<Cnn>/mK(.diff|_rebased.diff):
  scratch worktree of /repo at HEAD: patch applies; pinned tests unchanged with the change; demo exits 0 without / 1 with it;
  then the change is applied to /repo itself, ./check <Cnn> is run (quick, then thorough if quick passes), and it is undone.
usage: seedconfirm.py <outroot> [Cnn ...]"""
import glob, json, os, shutil, subprocess, sys, time
ROOT = os.path.dirname(os.path.dirname(os.path.abspath(__file__)))
WT = "/tmp/wt_confirm"
def sh(cmd, cwd=None, timeout=6000):
    return subprocess.run(cmd, shell=True, capture_output=True, text=True, cwd=cwd, timeout=timeout)
def tests(wt):
    r = sh("/venv/bin/python -m pytest -q -p no:cacheprovider 2>&1 | tail -4", cwd=wt)
    lines = r.stdout.strip().splitlines()
    failed = sorted(l.split()[1] for l in lines if l.startswith("FAILED"))
    return lines[-1] if lines else "", failed
BASE_FAIL = ["tests/test_running_window_mode.py::TestRunningWindowOverDaysOfYear::test_use", "tests/test_running_window_mode.py::TestRunningWindowOverYears::test_use"]
def main():
    outroot = sys.argv[1]; only = sys.argv[2:]
    assert not sh("git -C /repo status --porcelain").stdout.strip(), "/repo not clean"
    sh("git -C /repo worktree remove --force %s" % WT); shutil.rmtree(WT, ignore_errors=True)
    assert sh("git -C /repo worktree add --detach -q %s HEAD" % WT).returncode == 0
    head = sh("git -C /repo rev-parse --short HEAD").stdout.strip()
    try:
        for pdir in sorted(glob.glob(os.path.join(outroot, "C??"))):
            pid = os.path.basename(pdir)
            if only and pid not in only: continue
            for meta in sorted(glob.glob(os.path.join(pdir, "m?.json"))):
                m = os.path.basename(meta)[:-5]
                diff = os.path.join(pdir, m + "_rebased.diff")
                if not os.path.exists(diff): diff = os.path.join(pdir, m + ".diff")
                demo = os.path.join(pdir, m + "_demo.py")
                rec = dict(id="%s-%s" % (pid, m), property=pid, repo_head=head, agent_meta=json.load(open(meta)))
                t0 = time.time()
                if sh("git apply --check %s" % diff, cwd=WT).returncode:
                    rec["status"] = "patch does not apply to HEAD"; print(json.dumps(rec)[:300]); continue
                rec["demo_exit_unchanged_tree"] = sh("PYTHONPATH=%s /venv/bin/python %s" % (WT, demo), cwd=WT).returncode
                sh("git apply %s" % diff, cwd=WT)
                try:
                    rec["demo_exit_changed_tree"] = sh("PYTHONPATH=%s /venv/bin/python %s" % (WT, demo), cwd=WT).returncode
                    rec["tests_changed_tree"], failed = tests(WT)
                    rec["tests_same_as_unchanged"] = failed == BASE_FAIL
                finally:
                    sh("git apply -R %s; git checkout -- .; git clean -fdq" % diff, cwd=WT)
                rec["confirmed"] = rec["demo_exit_unchanged_tree"] == 0 and rec["demo_exit_changed_tree"] == 1 and rec["tests_same_as_unchanged"]
                # the registered check against /repo itself
                r = sh("python3 %s/tools/seedtest.py %s %s --thorough" % (ROOT, diff, pid))
                checks = [json.loads(l) for l in r.stdout.splitlines() if l.startswith("{")]
                rec["checks"] = [dict(id=c["id"], tier=c["tier"], exit=c["rc"], classes=c["classes"], broken=[b[:200] for b in c["broken"]][:3], seconds=c["seconds"], violation_lines=c["violation"]) for c in checks]
                rec["caught_by"] = next(("%s --tier %s" % (c["id"], c["tier"]) for c in checks if c["rc"] == 1), None)
                rec["ran"] = ["git -C <scratch worktree at %s> apply patch.diff; pytest (pinned suite); demo.py with and without the change" % head,
                              "git -C /repo apply patch.diff; ./check %s --tier quick [then thorough]; git -C /repo apply -R patch.diff" % pid]
                assert not sh("git -C /repo status --porcelain").stdout.strip(), "/repo not clean after undo"
                if rec["confirmed"]:
                    d = os.path.join(ROOT, "seeded", rec["id"]); os.makedirs(d, exist_ok=True)
                    shutil.copy(diff, os.path.join(d, "patch.diff")); shutil.copy(demo, os.path.join(d, "demo.py"))
                    json.dump(dict(id=rec["id"], breaks_property=pid, summary=rec["agent_meta"].get("summary"), needs_to_manifest=rec["agent_meta"].get("needs"),
                                   files=rec["agent_meta"].get("files"), repo_head=head, what_was_run=rec["ran"],
                                   demo_exit=dict(unchanged_tree=rec["demo_exit_unchanged_tree"], changed_tree=rec["demo_exit_changed_tree"]),
                                   pinned_tests_with_change=rec["tests_changed_tree"], checks=rec["checks"], caught_by=rec["caught_by"]),
                              open(os.path.join(d, "meta.json"), "w"), indent=1)
                print("%s confirmed=%s caught_by=%s classes=%s (%ds)" % (rec["id"], rec["confirmed"], rec["caught_by"], [c["classes"] for c in checks if c["rc"] == 1][:1], time.time() - t0)); sys.stdout.flush()
    finally:
        sh("git -C /repo worktree remove --force %s" % WT)
main()
