#!/usr/bin/env python3
"""Rewrite MANIFEST.json from the table below (claimed checks) + properties.jsonl."""
import json, os
V = os.path.dirname(os.path.dirname(os.path.abspath(__file__)))
CLAIMED = json.load(open(os.path.join(V, "tools", "claims.json")))
props = [json.loads(l) for l in open(os.path.join(V, "properties.jsonl"))]
m = dict(version=1, setup_cmd="./setup.sh",
  hooks=dict(guard="IBICUS_VERIF", enable="export IBICUS_VERIF=1 (the ./check wrapper sets it)",
             baseline_off_cmd="cd /repo && env -u IBICUS_VERIF /venv/bin/python -m pytest -ra -q -p no:cacheprovider --timeout=900 --continue-on-collection-errors",
             source_commits=CLAIMED.get("_hook_commits", []), add_only=True),
  engines=[dict(name="coq-proof+correspondence", path="/verif/check", serves_properties=sorted(k for k in CLAIMED if not k.startswith("_")),
                kind_free_text="Coq 8.16.1 theorems over a model regenerated from / validated against /repo on every run (translator + vm_compute correspondence), with a failing-input search on the implementation")],
  checks=[], not_applicable=[], notes="see DESIGN.md; known_findings.json lists recorded and fixed defects")
for p in props:
    i = p["id"]
    if i in CLAIMED:
        d = CLAIMED[i]
        m["checks"].append(dict(property_id=i, quick_cmd="./check %s --tier quick" % i, thorough_cmd="./check %s --tier thorough" % i,
            evidence_file="/verif/evidence/%s.json" % i, replay_cmd_template="./check %s --replay {path}" % i,
            engine="coq-proof+correspondence", level_claimed=dict(category="proof", text=d["text"], design_ref=d["ref"]),
            level_note=d["note"], technique=d["tech"]))
    else:
        m["not_applicable"].append(dict(property_id=i, reason=CLAIMED.get("_na", {}).get(i, "not yet built in this round (planned, see DESIGN.md §9); no claim made")))
json.dump(m, open(os.path.join(V, "MANIFEST.json"), "w"), indent=1)
print("claimed:", len(m["checks"]), "not claimed:", len(m["not_applicable"]))
