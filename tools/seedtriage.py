#!/usr/bin/env python3
"""Triage the candidate changes a sub-agent left in <outdir> (m*.diff, m*_demo.py, m*.json) in the scratch
worktree <wt>: confirm (tests unchanged, demo 0 clean / 1 changed), then run this copy's checks against it.
usage: seedtriage.py <Cnn> <outdir> <wt> [extra check ids...]     writes <outdir>/mK.result.json"""
import glob, json, os, re, subprocess, sys
ROOT = os.path.dirname(os.path.dirname(os.path.abspath(__file__)))
def sh(cmd, cwd=None, timeout=3000):
    return subprocess.run(cmd, shell=True, capture_output=True, text=True, cwd=cwd, timeout=timeout)
def tests(wt):
    r = sh("/venv/bin/python -m pytest -q -p no:cacheprovider -x --deselect tests/test_running_window_mode.py::TestRunningWindowOverYears::test_use --deselect tests/test_running_window_mode.py::TestRunningWindowOverDaysOfYear::test_use 2>&1 | tail -1", cwd=wt)
    return r.stdout.strip()
def main():
    pid, out, wt = sys.argv[1:4]; extra = sys.argv[4:]
    assert not sh("git status --porcelain", cwd=wt).stdout.strip(), "worktree not clean"
    for diff in sorted(glob.glob(os.path.join(out, "m*.diff"))):
        m = os.path.basename(diff)[:-5]; demo = os.path.join(out, m + "_demo.py")
        rec = dict(mutation=m, property=pid)
        rec["demo_clean"] = sh("/venv/bin/python %s" % demo, cwd=wt).returncode
        a = sh("git apply %s" % diff, cwd=wt)
        if a.returncode: rec["apply_error"] = a.stderr; json.dump(rec, open(os.path.join(out, m + ".result.json"), "w"), indent=1); continue
        try:
            rec["demo_mutated"] = sh("/venv/bin/python %s" % demo, cwd=wt).returncode
            rec["tests_mutated"] = tests(wt)
        finally:
            sh("git apply -R %s; git checkout -- ." % diff, cwd=wt)
        rec["confirmed"] = rec["demo_clean"] == 0 and rec["demo_mutated"] == 1 and "failed" not in rec["tests_mutated"] and "passed" in rec["tests_mutated"]
        checks = []
        for cid in [pid] + extra:
            r = sh("python3 %s/tools/seedtest.py --repo %s %s %s --thorough" % (ROOT, wt, diff, cid))
            for l in r.stdout.splitlines():
                if l.startswith("{"): checks.append(json.loads(l))
                else: checks.append(dict(note=l))
        rec["checks"] = checks
        rec["caught_by"] = [(c["id"], c["tier"]) for c in checks if c.get("rc") == 1]
        json.dump(rec, open(os.path.join(out, m + ".result.json"), "w"), indent=1)
        print(pid, m, "confirmed" if rec["confirmed"] else "NOT-CONFIRMED", "caught_by", rec["caught_by"], [c.get("classes") for c in checks if c.get("rc") == 1][:1]); sys.stdout.flush()
main()
