#!/bin/bash
# setup_cmd: regenerate Gen/*.v from /repo, full .vo build from clean, axiom gate.
cd "$(dirname "$0")"
set -x
python3 translator/gen.py --repo "${IBICUS_REPO:-/repo}" || exit 1
cd coq
rm -f Makefile Makefile.conf .Makefile.d
find theories -name '*.vo' -o -name '*.vok' -o -name '*.vos' -o -name '*.glob' -o -name '.*.aux' | xargs rm -f
rm -rf theories/Corr/cases
./mkproject.sh
timeout 3000 make -k -j16 2>&1 | grep -v '^COQC\|^COQDEP\|Closed under the global context' | tail -40
cd ..
if grep -rnE '\b(Admitted|admit|Axiom|Parameter|Conjecture)\b' coq/theories --include='*.v' | grep -v '^\S*:\S*:\s*(\*' ; then echo "GATE: forbidden declaration"; exit 1; fi
exit 0
