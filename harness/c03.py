"""C03 — no-bias fixed point.
Tie: translator (Gen/GenScalars.v: the per-window methods of LinearScaling, DeltaChange, QuantileMapping,
ECDFM, QuantileDeltaMapping, CDFt regenerated each run); correspondence K5 (regenerated definitions vs
the real methods with the rational family as distribution=); search: obs = cm_hist.copy() through the real
apply_location of every debiaser in every window mode."""
import warnings, logging
import numpy as np
from . import common as C
from . import debiasers

GEN_FILES = ["GenScalars", "GenUtils"]
TRUSTED = ["C03: CDFt's fixed point (tie-free empirical cdf / quantile round trip) is searched on the implementation, not proved",
           "C03: SciPy distributions satisfy ppf(cdf(x)) = x between the cdf thresholds (assumption about SciPy, exercised by the search)"]

def correspondence(res, tier, seed):
    debiasers.k5(res, tier, seed, tag="k5c03")
    res.rule = ("K5: samples of 2..14 dyadic values (k/16), equal and unequal sizes, positive data for multiplicative/relative variants, all "
                "method switches; search: real debiasers on 400-800 day series with obs = cm_hist, window modes off/on/year windows; "
                "distinct/non-trivial = distinct (method, option) classes")

def build(name, var, mode, r, custom_threshold=None):
    import ibicus.debias as D, scipy.stats
    kw = {}
    if mode != "none":
        L = r.choice([15, 31]); kw.update(running_window_mode=True, running_window_length=L, running_window_step_length=r.choice([s for s in (1, 5, 15) if s <= L]))
    else:
        kw.update(running_window_mode=False)
    if name in ("CDFt", "QuantileDeltaMapping"):
        kw["running_window_mode_over_years_of_cm_future"] = (mode == "years")
        if mode == "years":
            kw.update(running_window_over_years_of_cm_future_length=3, running_window_over_years_of_cm_future_step_length=1)
    if name == "ECDFM" and var == "tas": kw["distribution"] = scipy.stats.norm
    if name == "QuantileDeltaMapping": kw["cdf_threshold"] = 1e-3
    with warnings.catch_warnings():
        warnings.simplefilter("ignore")
        if custom_threshold is not None:      # QDM for precipitation in other units: both documented routes
            if custom_threshold[0] == "for_precipitation":
                return D.QuantileDeltaMapping.for_precipitation(censoring_threshold=custom_threshold[1], **kw)
            return D.QuantileDeltaMapping.from_variable("pr", censoring_threshold=custom_threshold[1], **kw)
        return getattr(D, name).from_variable(var, **kw)

def search(res, tier, seed, deep=False):
    logging.getLogger("ibicus").setLevel(logging.CRITICAL)
    from ibicus.utils import create_array_of_consecutive_dates
    r = C.rng_for(seed, "c03-search")
    seen = set()
    def report(cls_, inp, obs, stmt):
        if cls_ in seen: return
        seen.add(cls_)
        res.witness(dict(component="apply_location(obs, obs.copy(), cm_future)", statement=stmt, input=inp, observed=obs, expected="C03", **{"class": cls_}))
    names = ["LinearScaling", "QuantileMapping", "CDFt", "ECDFM", "QuantileDeltaMapping", "DeltaChange"]
    rounds = 1 if tier == "quick" else 4
    for rnd in range(rounds):
        for name in names:
            for mode in (["none", "days"] + (["years"] if name in ("CDFt", "QuantileDeltaMapping") else [])):
                for var in (["tas"] if (tier == "quick" and mode != "none") else ["tas", "pr"]):
                    # (CDFt pr: SSR randomises only exact zeros; the data below are strictly positive, so it is deterministic)
                    custom = None
                    if var == "pr" and name == "QuantileDeltaMapping" and (tier != "quick" or mode == "none") and r.random() < 0.6:
                        custom = (r.choice(["for_precipitation", "from_variable"]), 0.1)      # mm/day data, threshold 0.1 mm/day
                    d = build(name, var, mode, r, custom)
                    n, nF = r.randint(730, 800), r.randint(730, 1100)
                    if mode == "none" and var == "tas" and (tier != "quick" or name in ("CDFt", "QuantileDeltaMapping", "QuantileMapping")):
                        n, nF = r.randint(2100, 2600), r.randint(2100, 3000)      # calibration samples of several thousand values
                    rs = np.random.RandomState(r.randint(0, 10 ** 6))
                    if var == "tas":
                        mk = lambda m, s: 280 + s + 8 * np.sin(np.arange(m) * 2 * np.pi / 365.25) + rs.normal(0, 2, m)
                    else:
                        tiny = 1e-3 if (name in ("LinearScaling", "DeltaChange") and (rnd + seed) % 2 == 0) else 1.0    # very small fluxes now and then
                        mk = lambda m, s: (rs.gamma(0.9, 6e-5 * (1 + s), m) + 2e-6) * tiny     # strictly positive, above the censoring threshold
                        if custom: mk = lambda m, s: rs.gamma(0.9, 5.0 * (1 + s), m) + 0.1
                    obs, fut = mk(n, 0), mk(nF, 0.5)
                    if var == "pr" and name == "CDFt" and custom is None:
                        # the smallest positive value of all three series lies in cm_future (it is the SSR threshold itself)
                        fut[r.randrange(nF)] = 0.9 * min(obs.min(), fut.min())
                    tO = create_array_of_consecutive_dates(n, np.datetime64("1980-01-01")); tF = create_array_of_consecutive_dates(nF, np.datetime64("2040-01-01"))
                    inp = dict(debiaser=name, variable=var, window_mode=mode, n=[n, nF], seed=seed, custom_censoring=custom)
                    with warnings.catch_warnings():
                        warnings.simplefilter("ignore")
                        np.random.seed(2)
                        try:
                            if name == "DeltaChange":
                                out = d.apply_location(obs, fut.copy(), fut, time_obs=tO, time_cm_hist=tF, time_cm_future=tF); want = obs
                            else:
                                out = d.apply_location(obs, obs.copy(), fut, time_obs=tO, time_cm_hist=tO, time_cm_future=tF); want = fut
                        except Exception as e:
                            report("exception:" + name, inp, repr(e)[:300], "apply_location raised"); continue
                    res.case(("fix", name, var, mode, custom and custom[0]))
                    scale = float(np.max(np.abs(want)))
                    err = float(np.max(np.abs(out - want))) / scale
                    if not (err <= 1e-6):
                        report("not-fixed:%s:%s" % (name, var), inp, err, "unbiased model (cm_hist == obs) but the output differs from cm_future (obs for DeltaChange with cm_future == cm_hist)")

def replay(w):
    return True, "re-run ./check C03 (inputs are regenerated from the recorded seed)"
