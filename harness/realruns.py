"""Builders and data for searches on the REAL debiasers (shared by C01, C02, C04, C09, C10)."""
import warnings, logging
import numpy as np

ALL = ["LinearScaling", "DeltaChange", "QuantileMapping", "ScaledDistributionMapping", "CDFt", "ECDFM", "QuantileDeltaMapping", "ISIMIP"]

def build(name, var="tas", window="none", r=None, **over):
    """window: none | days | years (CDFt/QDM: day windows + year windows)"""
    import ibicus.debias as D, scipy.stats
    logging.getLogger("ibicus").setLevel(logging.CRITICAL)
    kw = {}
    if window == "none":
        kw["running_window_mode"] = False
    else:
        L = 31 if r is None else r.choice([15, 31, 61]); S = 15 if r is None else r.choice([s for s in (1, 5, 15, 31) if s <= L])
        if name == "ISIMIP": S = max(S, 15) if L >= 15 else L
        kw.update(running_window_mode=True, running_window_length=L, running_window_step_length=S)
    if name in ("CDFt", "QuantileDeltaMapping"):
        kw["running_window_mode_over_years_of_cm_future"] = (window == "years")
        if window == "years":
            yl, ys = (3, 1) if r is None else r.choice([(3, 1), (3, 3), (4, 2), (5, 3), (2, 2)])
            kw.update(running_window_over_years_of_cm_future_length=yl, running_window_over_years_of_cm_future_step_length=ys)
    if name == "ECDFM" and var == "tas":
        kw["distribution"] = scipy.stats.norm
    if name == "QuantileDeltaMapping":
        kw["cdf_threshold"] = 1e-3
    kw.update(over)
    with warnings.catch_warnings():
        warnings.simplefilter("ignore")
        return getattr(D, name).from_variable(var, **kw)

def series(rs, n, kind="tas", shift=0.0, scale=1.0, start=0):
    t = np.arange(start, start + n)
    if kind == "tas":
        return 280 + shift + 8 * np.sin(t * 2 * np.pi / 365.25) + scale * rs.normal(0, 2, n)
    if kind == "pr":
        wet = rs.rand(n) > 0.45
        return np.where(wet, rs.gamma(0.8, 6e-5 * scale, n) + 2e-6, 0.0)
    raise ValueError(kind)

def times(n, start):
    from ibicus.utils import create_array_of_consecutive_dates
    return create_array_of_consecutive_dates(n, np.datetime64(start))

def run(d, obs, hist, fut, tO, tH, tF, seed=11):
    with warnings.catch_warnings():
        warnings.simplefilter("ignore")
        np.random.seed(seed)
        return d.apply_location(obs, hist, fut, time_obs=tO, time_cm_hist=tH, time_cm_future=tF)
