"""C10 — physical bounds and dry-day structure of the output.
Tie: translator (GenScalars: QDM censoring, CDFt SSR helpers, multiplicative LS/DC; GenIsimip: the step-6 masks) + hand
model Model/Isimip.v of the step-6 bookkeeping; correspondence K6: the real ISIMIP.step6 (adjusted values and counts
recorded) vs the model, and K5; search: all bounded ISIMIP variables and the precipitation configurations of seven
debiasers on in-range inputs with dry fractions 0.05..0.9 and wet/dry biases, with and without windows."""
import warnings, logging
import numpy as np
from fractions import Fraction
from . import common as C
from . import debiasers, realruns as R

GEN_FILES = ["GenPrecip", "GenConfig", "GenScalars", "GenIsimip", "GenUtils"]
TRUSTED = ["C10: the value-adjustment of ISIMIP step 6 is a parameter of the model (its range is proved for the non-parametric branch via C16, assumed for fitted distributions with fixed floc/fscale); steps 1/8 (rsds): hand model Model/IsimipStep1.v tied by K18 (scipy's wrap-around filters modelled by their window convention); the precipitation outputs of QM/SDM/CDFt/ISIMIP end to end are searched on the implementation",
           "C10: hypothesis of the property: each window keeps enough in-threshold values (the 'no pseudo-future observation between thresholds' fallback leaves values unadjusted by design)"]

def correspondence(res, tier, seed):
    debiasers.k5(res, tier, seed, tag="k5c10", n_quick=12, n_thorough=120)
    debiasers.k15_relative(res, tier, seed, tag="k15rc10")
    debiasers.k17(res, tier, seed, tag="k17c10")
    debiasers.k18(res, tier, seed, tag="k18c10")
    logging.getLogger("ibicus").setLevel(logging.CRITICAL)
    from ibicus.debias import ISIMIP
    r = C.rng_for(seed, "c10-corr")
    n = 40 if tier == "quick" else 400
    cc = C.CoqCases("c10", ["QL", "NP", "Ecdf", "GenIsimip", "Isimip", "IsimipCorr", "GridCorr", "CorrBase"], per_file=20)
    meta = []
    with warnings.catch_warnings():
        warnings.simplefilter("ignore")
        for i in range(n):
            var = ["pr", "tasskew", "hurs", "sfcwind", "prsnratio"][i % 5]
            lb, lt, ub, ut = {"pr": (0.0, 1.0, np.inf, np.inf), "tasskew": (0.0, 1.0, 10.0, 9.0), "hurs": (0.0, 1.0, 10.0, 9.0),
                              "sfcwind": (0.0, 0.5, np.inf, np.inf), "prsnratio": (0.0, 1.0, 10.0, 9.0)}[var]
            d = ISIMIP.from_variable(var, lower_bound=lb, lower_threshold=lt, upper_bound=ub, upper_threshold=ut, nonparametric_qm=True, running_window_mode=False)
            nf = r.randint(4, 30)
            vals = set()
            while len(vals) < nf:
                vals.add(r.randint(-20, 840) / 64)       # tie-free (argsort tie-breaking is not modelled)
            fut = np.array(sorted(vals)); fut = fut[np.array(r.sample(range(nf), nf))]
            mk = lambda m: np.array([r.randint(0, 640) / 64 for _ in range(m)])
            oh, ch = mk(r.randint(4, 30)), mk(r.randint(4, 30))
            rec = {}
            orig_adj = d._step6_adjust_values_between_thresholds
            def adj(*a, **k):
                out = orig_adj(*a, **k); rec["adj"] = np.array(out, dtype=float).copy(); return out
            d._step6_adjust_values_between_thresholds = adj
            orig_scale = ISIMIP._step6_scale_nr_of_entries_to_set_to_bounds
            nlo = d._step6_get_nr_of_entries_to_set_to_bound(np.sort(oh) <= lt, np.sort(ch) <= lt, np.sort(fut) <= lt) if d.has_lower_threshold else 0
            nhi = d._step6_get_nr_of_entries_to_set_to_bound(np.sort(oh) >= ut, np.sort(ch) >= ut, np.sort(fut) >= ut) if d.has_upper_threshold else 0
            if nlo + nhi > nf:
                nlo, nhi = orig_scale(nlo, nhi, nf)
            try:
                out = d.step6(oh.copy(), oh.copy(), ch.copy(), fut.copy())
            except Exception as e:
                res.broke("correspondence-error", "K6 implementation raised", dict(variable=var, error=repr(e)[:200])); continue
            if "adj" not in rec:
                adjv = []
            else:
                adjv = rec["adj"]
            UB = 10 ** 9 if not np.isfinite(ub) else ub
            outq = [Fraction(float(v)) if np.isfinite(v) else Fraction(10 ** 9) for v in out]
            cc.add("qlist_eqb (run_step6 %s %s %s %s %s %s) %s" % (C.q(lb), C.q(UB), C.z(nlo), C.z(nhi), C.ql(fut), C.ql(adjv), C.ql(outq)))
            m = dict(variable=var, n=nf, nlo=int(nlo), nhi=int(nhi))
            meta.append(m)
            res.case(("K6", var, nlo > 0, nhi > 0, nlo + nhi >= nf), sample=m if len(res.samples) < 6 else None)
    fails, errors = cc.run()
    res.components["K6 Model/Isimip.v (step-6 bookkeeping) vs ISIMIP.step6"] = dict(cases=len(cc.cases), disagreements=len(fails), errors=len(errors))
    for e in errors[:3]:
        res.broke("correspondence-error", "K6", e)
    for i in fails[:5]:
        res.broke("correspondence", "K6", meta[i])
    res.rule = ("K6: tie-free future samples of 4..30 values around the thresholds, lower-only and two-sided variables, counts from the implementation's own "
                "frequency functions, adjusted values recorded; K5 as for C03; search: 7 bounded ISIMIP variables and 7 precipitation configurations x dry fraction x bias x window mode; "
                "distinct/non-trivial = distinct (variable / debiaser, window mode, branch) classes")

BOUNDED = {"hurs": (0.0, 0.01, 100.0, 99.99), "pr": (0.0, 0.1 / 86400, np.inf, np.inf), "prsnratio": (0.0, 0.0001, 1.0, 0.9999), "rsds": (0.0, None, None, None),
           "sfcwind": (0.0, 0.01, np.inf, np.inf), "tasrange": (0.0, 0.01, np.inf, np.inf), "tasskew": (0.0, 0.0001, 1.0, 0.9999)}

def bounded_series(rs, var, n, dry, shift):
    if var == "hurs":
        x = np.clip(60 + shift * 10 + 25 * rs.standard_normal(n), 0, 100); x[rs.rand(n) < dry * 0.3] = 100.0; x[rs.rand(n) < 0.03] = 0.0; return x
    if var == "pr":
        return np.where(rs.rand(n) < dry, 0.0, rs.gamma(0.8, 6e-5 * (1 + shift), n) + 2e-6)
    if var in ("prsnratio", "tasskew"):
        x = np.clip(rs.beta(2, 3, n) + 0.1 * shift, 0, 1); x[rs.rand(n) < dry * 0.5] = 0.0; x[rs.rand(n) < dry * 0.2] = 1.0; return x
    if var == "rsds":
        t = np.arange(n); return np.clip(200 + 150 * np.sin(t * 2 * np.pi / 365.25) + shift * 20, 5, None) * np.clip(rs.beta(5, 2, n), 0.05, 1)
    if var in ("sfcwind", "tasrange"):
        x = rs.weibull(2.0, n) * (4 + shift) ; x[rs.rand(n) < dry * 0.2] = 0.0; return x
    raise ValueError(var)

def search(res, tier, seed, deep=False):
    logging.getLogger("ibicus").setLevel(logging.CRITICAL)
    import ibicus.debias as D
    r = C.rng_for(seed, "c10-search")
    seen = set()
    def report(cls_, inp, obs, stmt):
        if cls_ in seen: return
        seen.add(cls_)
        res.witness(dict(component="apply_location output range", statement=stmt, input=inp, observed=obs, expected="C10", **{"class": cls_}))
    rounds = 1 if tier == "quick" else 5
    with warnings.catch_warnings():
        warnings.simplefilter("ignore")
        for rnd in range(rounds):
            for var, (lb, lt, ub, ut) in BOUNDED.items():
                for mode, force_ela in [(m_, e_) for m_ in (["none", "days"] if tier != "quick" else [["none", "days"][(rnd + len(var)) % 2]])
                                        for e_ in ([False, True, True, True, True] if var == "pr" else [False])]:   # (the optional adjustment is data-sensitive: several samples)
                    kw = dict(running_window_mode=(mode == "days"))
                    if mode == "days": kw.update(running_window_length=31, running_window_step_length=15)
                    # non-default but valid options: the optional event-likelihood adjustment of step 6, non-parametric step 6
                    ela = force_ela or (var not in ("rsds", "pr") and r.random() < 0.25)
                    if ela: kw["event_likelihood_adjustment"] = True
                    elif var != "pr" and r.random() < 0.15: kw["nonparametric_qm"] = True
                    d = D.ISIMIP.from_variable(var, **kw)
                    rs = np.random.RandomState(r.randint(0, 10 ** 6))
                    n = 730; dry = r.choice([0.05, 0.3, 0.6]); 
                    obs, hist, fut = bounded_series(rs, var, n, dry, 0), bounded_series(rs, var, n, min(0.9, dry * 1.5), 0.5), bounded_series(rs, var, n, dry * 0.7, 1.0)
                    tO, tF = R.times(n, "1981-01-01"), R.times(n, "2041-01-01")
                    if var == "pr" and ela:       # wet days well above the threshold (gamma shape > 1), the future drier than the past
                        mkpr = lambda dryf, sc: np.where(rs.rand(n) < dryf, 0.0, rs.gamma(1.5, sc * 4.6e-5, n))
                        obs, hist, fut = mkpr(dry, 1.0), mkpr(dry * 0.9, r.choice([1.0, 2.0])), mkpr(dry, 0.5)      # wet-day amounts halve
                    inp = dict(variable=var, window_mode=mode, dry=dry, seed=seed, round=rnd, options={k: v for k, v in kw.items() if k in ("event_likelihood_adjustment", "nonparametric_qm")})
                    np.random.seed(3)
                    try:
                        out = d.apply_location(obs, hist, fut, time_obs=tO, time_cm_hist=tO, time_cm_future=tF)
                    except Exception as e:
                        report("exception:ISIMIP:" + var, inp, repr(e)[:300], "ISIMIP raised on in-range input"); continue
                    res.case(("isimip", var, mode, ela, kw.get("nonparametric_qm", False)))
                    if np.any(~np.isfinite(out)):
                        report("nonfinite:ISIMIP:" + var, inp, int(np.sum(~np.isfinite(out))), "ISIMIP output not finite")
                        continue
                    if var == "rsds":
                        if np.any(out < 0): report("rsds-negative", inp, float(out.min()), "rsds output negative")
                        continue
                    tol = 1e-12 * max(1.0, abs(ub) if np.isfinite(ub) else 1.0)
                    if np.any(out < lb - tol) or (np.isfinite(ub) and np.any(out > ub + tol)):
                        report("out-of-bounds:" + var, inp, [float(out.min()), float(out.max())], "ISIMIP output outside [lower bound, upper bound]")
                    gap_lo = (out > lb) & (out <= lt)
                    gap_hi = (out < ub) & (out >= ut) if np.isfinite(ub) else np.zeros_like(out, dtype=bool)
                    if np.any(gap_lo) or np.any(gap_hi):
                        report("gap:" + var, inp, dict(low=out[gap_lo][:3].tolist(), high=out[gap_hi][:3].tolist()), "ISIMIP output strictly between a bound and its threshold")
            # precipitation outputs of the other debiasers
            cfgs = [("LinearScaling", {}), ("DeltaChange", {}), ("QuantileMapping", {}), ("QuantileMapping", dict(censored=True)), ("ScaledDistributionMapping", {}),
                    ("CDFt", {}), ("QuantileDeltaMapping", {}),
                    ("CDFt", dict(long=True)),                                 # several year-windows of cm_future in turn
                    ("QuantileDeltaMapping", dict(years_window=False)),        # the year window switched off
                    ("CDFt", dict(over=dict(delta_shift="multiplicative"))), ("CDFt", dict(over=dict(delta_shift="no_shift")))]   # SSR stays on
            # (non-parametric QuantileMapping is not in the property's list: its constant extrapolation below the calibration
            #  range can go negative by construction)
            for name, opt in cfgs:
                for mode in (["none", "days"] if (tier != "quick" or name == "ScaledDistributionMapping") else [["none", "days"][(rnd + len(name)) % 2]]):
                    rs = np.random.RandomState(r.randint(0, 10 ** 6))
                    n = 730; dry = r.choice([0.05, 0.3, 0.6, 0.9]) if name not in ("ScaledDistributionMapping",) else r.choice([0.05, 0.3, 0.6])
                    if "years_window" in opt: dry = r.choice([0.3, 0.6])
                    if mode == "days":
                        # a day window holds only (window length x years) values: keep enough wet days in every
                        # window for the distribution fits (a window with < 2 wet values legitimately raises)
                        n = 1461; dry = min(dry, 0.3)
                    nF = n
                    if opt.get("long"):
                        nF = 365 * 24; dry = r.choice([0.3, 0.55])
                    # the model is drier than observed, or wetter (fewer dry days than obs: SSR / censoring then has to create dry days)
                    wet_bias = r.random() < 0.5 or bool(opt.get("long")) or ("years_window" in opt) or ("over" in opt)
                    dry_h, dry_f = (dry * 0.6, dry * 0.5) if wet_bias else (min(0.95, dry * 1.4), dry * 0.8)
                    obs, hist, fut = bounded_series(rs, "pr", n, dry, 0), bounded_series(rs, "pr", n, dry_h, 0.8), bounded_series(rs, "pr", nF, dry_f, 0.4)
                    # data as recorded in practice, now and then: a fixed resolution (0.1 mm/day: all positive values share a floor),
                    # one extreme wet day in cm_future (tens of times the mean wet-day amount)
                    quantised = r.random() < (0.6 if name == "CDFt" else 0.25) or "over" in opt
                    outlier = r.random() < 0.25 or (name == "ScaledDistributionMapping" and mode == "none")
                    if quantised:
                        q = 0.1 / 86400
                        obs, hist, fut = (np.where(x > 0, np.maximum(np.round(x / q), 1) * q, 0.0) for x in (obs, hist, fut))
                    if outlier:
                        fut = fut.copy(); fut[r.randrange(nF)] = r.choice([60, 100, 200]) * float(fut[fut > 0].mean())
                    tO, tF = R.times(n, "1981-01-01"), R.times(nF, "2041-01-01")
                    smallest = min(x[x > 0].min() for x in (obs, hist, fut))      # before the call: the inputs as given
                    obs, hist, fut = obs.copy(), hist.copy(), fut.copy()
                    try:
                        if opt.get("censored"):
                            d = D.QuantileMapping.for_precipitation(model_type="censored", running_window_mode=(mode == "days"))
                        elif "years_window" in opt:
                            d = R.build(name, "pr", mode if mode == "none" else "days", r, running_window_mode_over_years_of_cm_future=False)
                        elif opt.get("long"):
                            d = D.CDFt.from_variable("pr", running_window_mode=(mode == "days"))      # default year window 17 / 9
                        else:
                            d = R.build(name, "pr", mode if mode == "none" else "days", r, **opt.get("over", {}))
                        np.random.seed(4)
                        out = d.apply_location(obs, hist, fut, time_obs=tO, time_cm_hist=tO, time_cm_future=tF)
                    except Exception as e:
                        report("exception:%s" % name, dict(debiaser=name, opt=str(opt), window_mode=mode, dry=dry, seed=seed), repr(e)[:300], "precipitation debiasing raised on valid non-negative input"); continue
                    inp = dict(debiaser=name, opt=str(opt), window_mode=mode, dry=dry, seed=seed, round=rnd, quantised=quantised, outlier=outlier, wet_bias=wet_bias)
                    res.case(("pr", name, str(opt), mode, quantised, outlier))
                    if np.any(np.isnan(out)) or np.any(out < 0):
                        report("pr-negative-or-nan:%s%s" % (name, "-censored" if opt.get("censored") else ""), inp, dict(nan=int(np.isnan(out).sum()), min=float(np.nanmin(out))), "precipitation output negative or NaN for valid non-negative input")
                    if name == "QuantileDeltaMapping":
                        th = d.censoring_threshold
                        if np.any((out > 0) & (out < th)):
                            report("qdm-drizzle", inp, float(out[(out > 0) & (out < th)][0]), "QDM output strictly between 0 and the censoring threshold")
                    if name == "CDFt":
                        if np.any((out > 0) & (out < smallest * (1 - 1e-12))):
                            report("cdft-drizzle", inp, float(out[(out > 0) & (out < smallest)][0]), "CDFt (SSR) output strictly between 0 and the smallest positive input value")

def replay(w):
    return True, "re-run ./check C10 (inputs are regenerated from the recorded seed)"
