"""C12 — debiasing is pure: inputs untouched, instances reusable, seed-deterministic.
Tie: translator (Gen/GenEffects.v: the array-effect program of ibicus/{utils,debias}/*.py and evaluate/metrics.py
extracted on every run, with least points-to facts and effect summaries that Coq re-checks) + the checker's
soundness theorem; dynamic cross-check K14: bytes of every argument array before/after real apply / apply_location /
ISIMIP steps (contiguous, strided views, float32), outputs do not share memory with inputs, repeated and interleaved
calls under a fixed seed are bit-identical."""
import os, warnings, logging
import numpy as np
from . import common as C
from . import realruns as R

GEN_FILES = ["GenEffects"]
TRUSTED = ["C12: the extractor's classification of NumPy operations (names / basic slices may alias; arithmetic, np.sort, .copy(), comparisons, fancy and Boolean indexing are fresh; subscript / augmented assignment and in-place methods are stores) is a table, cross-checked dynamically (K14), not derived from NumPy",
           "C12: attributes of self are settings (reading one yields an independent value); module-level state other than numpy's global random generator is not modelled (none is written: no 'global' statement in the analysed modules)",
           "C12: determinism is a consequence of purity plus the functional shape of the numeric models; it is searched on the implementation (repeat / interleave under a fixed seed), not proved"]

def correspondence(res, tier, seed):
    """K14: dynamic validation of the effect claims on real runs"""
    logging.getLogger("ibicus").setLevel(logging.CRITICAL)
    r = C.rng_for(seed, "c12-corr")
    bad = []
    n_checked = 0
    with warnings.catch_warnings():
        warnings.simplefilter("ignore")
        for name in R.ALL:
            for var in ("tas", "pr"):
                if var == "pr" and name in ("ECDFM",) and tier == "quick":
                    continue
                for mode in (["none", "days"] if tier != "quick" else [["none", "days"][(len(name) + len(var)) % 2]]):
                    try:
                        d = R.build(name, var, mode, r)
                    except Exception:
                        continue
                    rs = np.random.RandomState(r.randint(0, 10 ** 6))
                    n = 420
                    big = {k: R.series(rs, 2 * n, var, s) for k, s in (("o", 0.0), ("h", 1.0), ("f", 2.0))}
                    layouts = {"contiguous": lambda a: a[:n].copy(), "strided": lambda a: a[::2], "float32": lambda a: a[:n].astype(np.float32)}
                    for lname, lay in layouts.items():
                        o, h, f = lay(big["o"]), lay(big["h"]), lay(big["f"])
                        tO = R.times(n, "1981-03-01"); tF = R.times(n, "2041-03-01")
                        before = [x.tobytes() for x in (o, h, f)] + [tO.tobytes(), tF.tobytes()]
                        try:
                            np.random.seed(5)
                            out = d.apply_location(o, h, f, time_obs=tO, time_cm_hist=tO.copy(), time_cm_future=tF)
                        except Exception as e:
                            continue
                        n_checked += 1
                        after = [x.tobytes() for x in (o, h, f)] + [tO.tobytes(), tF.tobytes()]
                        res.case(("K14", name, var, mode, lname))
                        if before != after:
                            bad.append(dict(debiaser=name, variable=var, window_mode=mode, layout=lname, what="argument modified"))
                        if any(np.shares_memory(out, x) for x in (o, h, f, big["o"], big["h"], big["f"])):
                            bad.append(dict(debiaser=name, variable=var, window_mode=mode, layout=lname, what="output shares memory with an input"))
    res.components["K14 dynamic cross-check of the effect claims (real apply_location runs)"] = dict(cases=n_checked, disagreements=len(bad))
    for b in bad[:5]:
        res.broke("correspondence", "K14", b)
        res.witness(dict(component="apply_location", statement="an argument array was modified / the output aliases an input", input=b, observed=b["what"],
                         expected="inputs untouched, fresh output", **{"class": "impure:" + b["debiaser"]}))
    res.rule = ("eight debiasers x {tas, pr} x window mode x memory layout (contiguous, strided view, float32); repeated / interleaved calls on one instance under a fixed seed; "
                "public ISIMIP steps; 3-d apply with masked / integer inputs; distinct/non-trivial = distinct (debiaser, variable, window mode, layout / history) classes")

FRESH = r"""
import sys, pickle, warnings, logging
import numpy as np
sys.path.insert(0, sys.argv[2]); sys.path.insert(0, sys.argv[1])
warnings.simplefilter("ignore"); logging.disable(logging.CRITICAL)
from harness import realruns as R
import random
job = pickle.load(sys.stdin.buffer)
d = R.build(job["name"], job["var"], job["mode"], random.Random(job["rseed"]))
out = R.run(d, *job["args"], seed=job["seed"])
sys.stdout.buffer.write(pickle.dumps(out))
"""

def fresh_process(name, var, mode, rseed, args, seed):
    """the same call in a new interpreter: nothing any earlier call left behind (instance attributes,
    module-level caches) can be seen there"""
    import subprocess, pickle, sys
    job = dict(name=name, var=var, mode=mode, rseed=rseed, args=args, seed=seed)
    env = dict(os.environ)
    p = subprocess.run([sys.executable, "-c", FRESH, C.REPO, C.VERIF], input=pickle.dumps(job), capture_output=True, env=env, timeout=600)
    if p.returncode != 0:
        raise RuntimeError("fresh interpreter failed: " + p.stderr.decode()[-300:])
    return pickle.loads(p.stdout)

def state_of(d):
    """observable instance state: attribute names, and sizes of container-valued attributes"""
    return {k: (len(v) if isinstance(v, (dict, list, set)) else None) for k, v in vars(d).items()}

def search(res, tier, seed, deep=False):
    logging.getLogger("ibicus").setLevel(logging.CRITICAL)
    r = C.rng_for(seed, "c12-search")
    seen = set()
    def report(cls_, inp, obs, stmt):
        if cls_ in seen: return
        seen.add(cls_)
        res.witness(dict(component="apply / apply_location", statement=stmt, input=inp, observed=obs, expected="C12", **{"class": cls_}))
    with warnings.catch_warnings():
        warnings.simplefilter("ignore")
        for name in R.ALL:
            for var in ("tas", "pr"):
                mode = ["none", "days"][(len(name) + len(var) + seed) % 2]
                try:
                    d = R.build(name, var, mode, r)
                except Exception:
                    continue
                rs = np.random.RandomState(r.randint(0, 10 ** 6))
                n = 400
                o, h, f = R.series(rs, n, var), R.series(rs, n, var, 1.0, 1.2), R.series(rs, n, var, 2.0, 1.1)
                if var == "pr":       # light drizzle below every wet-day threshold (values a thresholding step would overwrite)
                    for x in (o, h, f):
                        k = rs.rand(n) < 0.1; x[k] = rs.rand(int(k.sum())) * 5e-7 + 1e-9
                o2, h2, f2 = R.series(rs, 380, var, 3.0), R.series(rs, 380, var, -2.0), R.series(rs, 390, var, 5.0)
                tO, tF = R.times(n, "1981-01-01"), R.times(n, "2041-01-01")
                t2 = R.times(390, "2001-05-05")
                inp = dict(debiaser=name, variable=var, window_mode=mode, seed=seed)
                try:
                    st0 = state_of(d)
                    before_loc = [x.tobytes() for x in (o, h, f)]
                    a = R.run(d, o, h, f, tO, tO, tF, seed=9)
                    if before_loc != [x.tobytes() for x in (o, h, f)]:
                        report("apply_location-modified-input:" + name, inp, [i_ for i_, (u_, v_) in enumerate(zip(before_loc, [x.tobytes() for x in (o, h, f)])) if u_ != v_],
                               "apply_location modified one of the caller's series (0 = obs, 1 = cm_hist, 2 = cm_future)")
                    if state_of(d) != st0:
                        report("apply_location-changed-instance:" + name, inp, sorted(set(state_of(d).items()) ^ set(st0.items()), key=str)[:4], "apply_location added or grew an attribute of the debiaser")
                    b = R.run(d, o, h, f, tO, tO, tF, seed=9)                       # repeated call
                    _ = R.run(d, o2, h2, f2, t2[:380], t2[:380], t2, seed=1)          # unrelated call in between
                    c = R.run(d, o, h, f, tO, tO, tF, seed=9)
                    # 3-d apply, then apply_location again
                    g = lambda x: np.repeat(x[:, None, None], 2, axis=2)
                    np.random.seed(3)
                    _ = d.apply(g(o), g(h), g(f), progressbar=False, time_obs=tO, time_cm_hist=tO, time_cm_future=tF)
                    e = R.run(d, o, h, f, tO, tO, tF, seed=9)
                except Exception as ex:
                    report("exception:" + name + ":" + var, inp, repr(ex)[:300], "debiaser raised"); continue
                res.case(("history", name, var, mode))
                if not (np.array_equal(a, b, equal_nan=True) and np.array_equal(a, c, equal_nan=True) and np.array_equal(a, e, equal_nan=True)):
                    report("history-dependent:" + name + ":" + var, inp, None, "repeating a call / calling after unrelated calls on the same instance changed the output under a fixed seed")
                # 3-d apply leaves its arguments untouched (incl. integer and masked inputs which are converted)
                for kind in ("float", "int", "masked"):
                    O, H, F = g(o), g(h), g(f)
                    if kind == "int" and var == "tas": O, H, F = np.round(O).astype(int), np.round(H).astype(int), np.round(F).astype(int)
                    elif kind == "int": continue
                    if kind == "masked": O = np.ma.array(O, mask=np.zeros_like(O, dtype=bool))
                    before = [np.asarray(x).tobytes() for x in (O, H, F)]
                    try:
                        np.random.seed(3)
                        d.apply(O, H, F, progressbar=False, time_obs=tO, time_cm_hist=tO, time_cm_future=tF)
                    except Exception:
                        continue
                    res.case(("apply-3d", name, var, kind))
                    if before != [np.asarray(x).tobytes() for x in (O, H, F)]:
                        report("apply-modified-input:" + name, dict(inp, kind=kind), None, "apply modified one of its 3-d arguments")
        # apply_location without any window (the series reach the per-window method as they are, not as slices):
        # the caller's arrays are untouched, also when they hold drizzle below the wet-day thresholds and NaN-free zeros
        for name in R.ALL:
            for var in ("tas", "pr"):
                try:
                    d = R.build(name, var, "none", r)
                except Exception:
                    continue
                rs = np.random.RandomState(r.randint(0, 10 ** 6))
                n = 500
                o, h, f = R.series(rs, n, var), R.series(rs, n, var, 1.0, 1.2), R.series(rs, n, var, 2.0, 1.1)
                if var == "pr":
                    for x in (o, h, f):
                        k = rs.rand(n) < 0.15; x[k] = rs.rand(int(k.sum())) * 5e-7 + 1e-9
                t = R.times(n, "1981-01-01")
                before = [x.tobytes() for x in (o, h, f)]
                try:
                    R.run(d, o, h, f, t, t, t, seed=9)
                except Exception:
                    continue
                res.case(("no-window-purity", name, var))
                after = [x.tobytes() for x in (o, h, f)]
                if before != after:
                    report("apply_location-modified-input:" + name, dict(debiaser=name, variable=var, window_mode="none", seed=seed), [i_ for i_ in range(3) if before[i_] != after[i_]],
                           "apply_location modified one of the caller's series (0 = obs, 1 = cm_hist, 2 = cm_future)")
        # earlier calls with look-alike time axes: same first date, last date and length but another interior
        # (two years swapped in storage / a calendar without 29 February), then a longer series; the reference is
        # the same call in a fresh interpreter
        import random as _random
        cands = [(nm, md) for nm in R.ALL for md in ("days",)]
        r.shuffle(cands)
        for (name, mode) in cands[: (2 if tier == "quick" else 8)]:
            rseed = r.randint(0, 10 ** 6)
            d = R.build(name, "tas", mode, _random.Random(rseed))
            rs = np.random.RandomState(r.randint(0, 10 ** 6))
            n = 1461
            o, h, f = R.series(rs, n), R.series(rs, n, "tas", 1.0, 1.2), R.series(rs, n, "tas", 2.0, 1.1)
            tA = R.times(n, "1981-01-01")
            tB = tA.copy(); tB[365:730], tB[730:1095] = tA[730:1095].copy(), tA[365:730].copy()     # years 2 and 3 swapped in storage
            nL = 2200
            oL, hL, fL = R.series(rs, nL), R.series(rs, nL, "tas", 1.0, 1.2), R.series(rs, nL, "tas", 2.0, 1.1)
            tL = R.times(nL, "1981-01-01")
            inp = dict(debiaser=name, variable="tas", window_mode=mode, rseed=rseed, seed=seed, sequence=["chronological", "two years swapped, same end points", "longer series"])
            try:
                _ = R.run(d, o, h, f, tA, tA, tA, seed=9)
                got_B = R.run(d, o, h, f, tB, tB, tB, seed=9)
                got_L = R.run(d, oL, hL, fL, tL, tL, tL, seed=9)
                ref_B = fresh_process(name, "tas", mode, rseed, (o, h, f, tB, tB, tB), 9)
                ref_L = fresh_process(name, "tas", mode, rseed, (oL, hL, fL, tL, tL, tL), 9)
            except Exception as ex:
                report("exception-in-sequence:" + name, inp, repr(ex)[:300], "a call raised after an earlier call on the same instance"); continue
            res.case(("sequence-fresh-process", name))
            if not (np.array_equal(got_B, ref_B, equal_nan=True) and np.array_equal(got_L, ref_L, equal_nan=True)):
                report("depends-on-earlier-call:" + name, inp, [bool(np.array_equal(got_B, ref_B, equal_nan=True)), bool(np.array_equal(got_L, ref_L, equal_nan=True))],
                       "the result of a call differs from the same call in a fresh interpreter: it depends on an earlier call")
        # randomised configurations are reproducible from numpy's global seed: ISIMIP imputing missing values
        from ibicus.debias import ISIMIP
        for var in ("prsnratio", "pr", "hurs"):
            d = ISIMIP.from_variable(var, running_window_mode=False)
            rs = np.random.RandomState(r.randint(0, 10 ** 6))
            lo, hi = {"pr": (0, 3e-4), "prsnratio": (0, 1), "hurs": (0, 100)}[var]
            mk = lambda: np.clip(lo + (hi - lo) * rs.beta(1.2, 2.5, 400), lo, hi) * (rs.rand(400) > 0.2)
            o, h, f = mk(), mk(), mk()
            if var == "prsnratio":
                for x in (o, h, f): x[rs.rand(400) < 0.1] = np.nan
            t = R.times(400, "1981-01-01")
            outs = []
            try:
                for k in range(2):
                    np.random.seed(5)
                    outs.append(d.apply_location(o.copy(), h.copy(), f.copy(), time_obs=t, time_cm_hist=t, time_cm_future=t))
            except Exception as ex:
                report("exception:ISIMIP-seed:" + var, dict(variable=var), repr(ex)[:200], "ISIMIP raised"); continue
            res.case(("isimip-seed", var))
            if not np.array_equal(outs[0], outs[1], equal_nan=True):
                report("not-seed-deterministic:ISIMIP:" + var, dict(variable=var, seed=seed, missing_values=(var == "prsnratio")), None,
                       "two calls after np.random.seed(5) with identical arguments gave different output")
        # the public ISIMIP steps reached through apply_location do not modify the caller's series
        from ibicus.debias import ISIMIP
        for var in ("pr", "tasskew", "hurs", "tas", "rsds"):      # (rsds: steps 1 and 8 scale by the annual cycle of upper bounds)
            d = ISIMIP.from_variable(var, running_window_mode=False)
            rs = np.random.RandomState(r.randint(0, 10 ** 6))
            lo, hi = {"pr": (0, 3e-4), "tasskew": (0, 1), "hurs": (0, 100), "tas": (260, 300), "rsds": (20, 350)}[var]
            mk = lambda: np.clip(lo + (hi - lo) * rs.beta(1.2, 2.5, 400), lo, hi) * (rs.rand(400) > 0.2 if var not in ("tas", "rsds") else 1)
            o, h, f = mk(), mk(), mk()
            t = R.times(400, "1981-01-01")      # whole year: the month mode needs every month present
            before = [x.tobytes() for x in (o, h, f)]
            np.random.seed(2)
            try:
                d.apply_location(o, h, f, time_obs=t, time_cm_hist=t, time_cm_future=t)
            except Exception as ex:
                report("exception:ISIMIP:" + var, dict(variable=var), repr(ex)[:200], "ISIMIP raised"); continue
            res.case(("isimip-steps", var))
            if before != [x.tobytes() for x in (o, h, f)]:
                report("isimip-modified-input:" + var, dict(variable=var, seed=seed), None, "ISIMIP (steps 2/4 write in place) modified the caller's series")

        import ibicus.debias as D
        # purity under non-default option values (window-free, year windows off: the path on which a series reaches a
        # NumPy routine directly rather than through a slice copy)
        VAR = [("CDFt", "tas", dict(delta_shift="no_shift")), ("CDFt", "tas", dict(delta_shift="additive")), ("CDFt", "hurs", dict(delta_shift="multiplicative")),
               ("QuantileDeltaMapping", "tas", {}), ("QuantileMapping", "tas", dict(mapping_type="nonparametric")),
               ("ISIMIP", "tas", dict(event_likelihood_adjustment=True)), ("ISIMIP", "tas", dict(nonparametric_qm=True)), ("ScaledDistributionMapping", "tas", {})]
        for name, var, over in VAR:
            kw = dict(running_window_mode=False); kw.update(over)
            if name in ("CDFt", "QuantileDeltaMapping"): kw["running_window_mode_over_years_of_cm_future"] = False
            if name == "QuantileDeltaMapping": kw["cdf_threshold"] = 1e-3
            try:
                d = getattr(D, name).from_variable(var, **kw)
            except Exception:
                continue
            rs = np.random.RandomState(r.randint(0, 10 ** 6)); n = 400
            mkv = (lambda sh: R.series(rs, n, "tas", sh)) if var == "tas" else (lambda sh: np.clip(60 + sh * 5 + 20 * rs.standard_normal(n), 1, 100))
            o, h, f = mkv(0.0), mkv(1.0), mkv(2.0)
            t = R.times(n, "1981-01-01")
            before = [x.tobytes() for x in (o, h, f)]
            try:
                R.run(d, o, h, f, t, t, t, seed=9)
            except Exception as ex:
                report("exception:%s:%s" % (name, over), dict(debiaser=name, settings=str(over)), repr(ex)[:300], "debiaser raised"); continue
            res.case(("purity-variant", name, str(over)))
            after = [x.tobytes() for x in (o, h, f)]
            if before != after:
                report("apply_location-modified-input:%s:%s" % (name, ",".join("%s=%s" % kv for kv in over.items())), dict(debiaser=name, variable=var, settings={k: str(v) for k, v in kw.items()}, seed=seed),
                       [i_ for i_, (u_, v_) in enumerate(zip(before, after)) if u_ != v_], "apply_location modified one of the caller's series (0 = obs, 1 = cm_hist, 2 = cm_future)")
        # the result depends on the settings as they are at the time of the call: a window setting reassigned between two
        # applies (apply re-derives the window objects) gives what a fresh instance with those settings gives
        import ibicus.debias as D, scipy.stats
        for name in ("LinearScaling", "QuantileMapping", "CDFt", "DeltaChange", "ECDFM", "QuantileDeltaMapping", "ISIMIP"):
            kw0 = dict(running_window_mode=True, running_window_length=31, running_window_step_length=15)
            kw1 = dict(running_window_mode=True, running_window_length=r.choice([61, 91]), running_window_step_length=31)
            extra = {}
            if name == "ECDFM": extra["distribution"] = scipy.stats.norm
            if name == "QuantileDeltaMapping": extra["cdf_threshold"] = 1e-3
            ykw0, ykw1 = {}, {}
            if name in ("CDFt", "QuantileDeltaMapping"):
                ykw0 = dict(running_window_over_years_of_cm_future_length=3, running_window_over_years_of_cm_future_step_length=1)
                ykw1 = dict(running_window_over_years_of_cm_future_length=5, running_window_over_years_of_cm_future_step_length=3)
            rs = np.random.RandomState(r.randint(0, 10 ** 6))
            n = 1461
            mk3 = lambda sh: (R.series(rs, n, "tas", sh))[:, None, None] + np.zeros((1, 2, 1))
            o, h, f = mk3(0.0), mk3(1.5), mk3(3.0)
            t = R.times(n, "1981-01-01"); tf = R.times(n, "2041-01-01")
            try:
                with warnings.catch_warnings():
                    warnings.simplefilter("ignore")
                    d = getattr(D, name).from_variable("tas", **kw0, **ykw0, **extra)
                    run = lambda dd: (np.random.seed(6), dd.apply(o.copy(), h.copy(), f.copy(), time_obs=t, time_cm_hist=t, time_cm_future=tf, progressbar=False))[1]
                    run(d)
                    for k, v in list(kw1.items()) + list(ykw1.items()): setattr(d, k, v)
                    got = run(d)
                    ref = run(getattr(D, name).from_variable("tas", **kw1, **ykw1, **extra))
            except Exception as ex:
                report("exception-after-reassigning-settings:" + name, dict(debiaser=name, settings={k: str(v) for k, v in {**kw1, **ykw1}.items()}), repr(ex)[:300], "apply raised after a window setting was reassigned"); continue
            res.case(("settings-reassigned", name))
            if not np.array_equal(got, ref, equal_nan=True):
                report("stale-derived-state:" + name, dict(debiaser=name, first_settings={k: str(v) for k, v in {**kw0, **ykw0}.items()}, reassigned={k: str(v) for k, v in {**kw1, **ykw1}.items()}, seed=seed),
                       float(np.nanmax(np.abs(got - ref))), "after reassigning window settings, apply differs from a fresh instance with the same settings: the result depends on earlier state, not on the settings")

def replay(w):
    return True, "re-run ./check C12 (inputs are regenerated from the recorded seed)"
