"""C19 — threshold metrics count and accumulate exactly what their definition says.
Tie: hand model Model/Metrics.v; correspondence K12: real ThresholdMetric / AccumulativeThresholdMetric methods vs the
model (instances for all 4 types x global/local x overall/day/month/season, probability, annual counts, spell lengths,
spatial extent, cluster sizes with scipy's labelling as an oracle, accumulative amounts); search: the laws on the
implementation (defining comparison, conservation of the count, positivity, dataset untouched, quantile frequency)."""
import warnings
import numpy as np
from fractions import Fraction
from . import common as C

GEN_FILES = []
TRUSTED = ["C19: scipy.ndimage.label is an oracle (background -> 0, foreground -> 1..k); pandas' merge for scoped thresholds is modelled as a key lookup",
           "C19: the run-length encoding of spell lengths equals the maximal-run specification: proved by exhaustive computation for all Boolean series up to length 12 (bound stated in the theorem), conservation/positivity proved for the specification for all lengths"]

def metric(ty, lo, hi, scope="overall", locality="global", acc=False, keys=None, shape=None, r=None):
    from ibicus.evaluate.metrics import ThresholdMetric, AccumulativeThresholdMetric
    cls = AccumulativeThresholdMetric if acc else ThresholdMetric
    def val(base):
        if locality == "global":
            return float(base)
        return np.full(shape, float(base)) + np.arange(int(np.prod(shape))).reshape(shape) / 8.0
    def scoped(base):
        if scope == "overall":
            return val(base)
        # per-key thresholds; for local thresholds the library's own from_quantile produces [array] entries (shape (1, x, y))
        wrap = (lambda v: [v]) if locality == "local" else (lambda v: v)
        return {k: wrap(val(base + (sum(map(ord, str(k))) % 3) / 4.0)) for k in keys}
    tv = scoped(lo) if ty in ("higher", "lower") else [scoped(lo), scoped(hi)]
    with warnings.catch_warnings():
        warnings.simplefilter("ignore")
        return cls(threshold_value=tv, threshold_type=ty, threshold_scope=scope, threshold_locality=locality, name="m")

def dataset(r, T, X, Y, ties=True):
    a = np.array([[[r.randint(0, 40) / 4 for _ in range(Y)] for _ in range(X)] for _ in range(T)], dtype=float)
    return a

def times(T, start="2001-11-20"):
    from ibicus.utils import create_array_of_consecutive_dates
    return create_array_of_consecutive_dates(T, np.datetime64(start))

def thresholds_table(m, x, time):
    """(lo, hi) per (t, cell) as the metric resolves them (independent re-implementation of the lookup)"""
    from ibicus import utils
    T, X, Y = x.shape
    def resolve(tv):
        out = np.zeros((T, X, Y))
        if m.threshold_scope == "overall":
            out[:] = tv if m.threshold_locality == "global" else np.asarray(tv)[None, :, :]
        else:
            key = {"day": utils.day_of_year, "month": utils.month, "season": utils.season}[m.threshold_scope](time)
            for t in range(T):
                v = tv[key[t]]
                out[t] = v if m.threshold_locality == "global" else np.asarray(v)[0]
        return out
    if m.threshold_type in ("higher", "lower"):
        lo = resolve(m.threshold_value); hi = lo
    else:
        lo, hi = resolve(m.threshold_value[0]), resolve(m.threshold_value[1])
    return lo, hi

def defining(m, x, lo, hi):
    return {"higher": x > lo, "lower": x < lo, "between": (x > lo) & (x < hi), "outside": (x < lo) | (x > hi)}[m.threshold_type]

TY = {"higher": "Higher", "lower": "Lower", "between": "Between", "outside": "Outside"}

def coq_ll(a, f):
    return "[" + "; ".join("[" + "; ".join(f(v) for v in row) + "]" for row in a) + "]"

def correspondence(res, tier, seed):
    from scipy.ndimage import label
    from ibicus import utils
    r = C.rng_for(seed, "c19-corr")
    n = 40 if tier == "quick" else 400
    cc = C.CoqCases("c19", ["QL", "NP", "Metrics", "MetricsCorr", "CorrBase"], per_file=20)
    meta = []
    def add(e, m, key):
        cc.add(e); meta.append(m); res.case(key, sample=m if len(res.samples) < 4 else None)
    for i in range(n):
        T, X, Y = r.choice([5, 12, 40, 70]), r.choice([1, 2, 3]), r.choice([1, 2])
        x = dataset(r, T, X, Y)
        time = times(T, "20%02d-%02d-%02d" % (r.randint(1, 9), r.randint(1, 12), r.randint(1, 28)))
        ty = ["higher", "lower", "between", "outside"][i % 4]
        scope = ["overall", "month", "season", "day"][(i // 4) % 4]
        loc = ["global", "local"][(i // 16) % 2]
        keys = {"overall": None, "month": range(1, 13), "season": ["Spring", "Summer", "Autumn", "Winter"], "day": range(1, 367)}[scope]
        m = metric(ty, 3.0, 7.0, scope, loc, acc=True, keys=keys, shape=(X, Y), r=r)
        with warnings.catch_warnings():
            warnings.simplefilter("ignore")
            inst = m.calculate_instances_of_threshold_exceedance(x.copy(), time=time)
        lo, hi = thresholds_table(m, x, time)
        flat = lambda a: a.reshape(a.shape[0], -1)
        X2, LO, HI = flat(x), flat(lo), flat(hi)
        tab = "[" + "; ".join("[" + "; ".join("(%s, %s)" % (C.q(Fraction(float(a))), C.q(Fraction(float(b)))) for a, b in zip(ra, rb)) + "]" for ra, rb in zip(LO, HI)) + "]"
        xs = coq_ll(X2, lambda v: C.q(Fraction(float(v))))
        info = dict(type=ty, scope=scope, locality=loc, shape=[T, X, Y])
        M = "(mask %s (tabthr %s) %s)" % (TY[ty], tab, xs)
        add("bll_eqb %s %s" % (M, coq_ll(flat(inst).astype(bool), lambda b: "true" if b else "false")), dict(func="instances", **info), ("instances", ty, scope, loc))
        mk = flat(inst).astype(bool)
        MK = coq_ll(mk, lambda b: "true" if b else "false")
        with warnings.catch_warnings():
            warnings.simplefilter("ignore")
            prob = m.calculate_exceedance_probability(x.copy(), time=time)
            ann = m.calculate_number_annual_days_beyond_threshold(x.copy(), time=time)
        add("close_list (map (probability %s) (seq 0 %d)) %s (1#1000000000000)" % (MK, X * Y, C.ql(prob.reshape(-1))), dict(func="probability", **info), ("probability",))
        ys = utils.year(time); uy = np.unique(ys)
        add("nll_eqb (map (fun c => annual %s %s (column false %s c)) (seq 0 %d)) %s" % (C.zl(ys), C.zl(uy), MK, X * Y,
            "[" + "; ".join(C.nl(ann[:, c // Y, c % Y].astype(int)) for c in range(X * Y)) + "]"), dict(func="annual", years=len(uy), **info), ("annual", len(uy) > 1))
        from ibicus.evaluate.metrics import ThresholdMetric
        sp = [ThresholdMetric._calculate_spell_lengths_one_location(mk[:, c]) for c in range(X * Y)]
        add("zll_eqb (map (fun c => spells (column false %s c)) (seq 0 %d)) %s" % (MK, X * Y, "[" + "; ".join(C.zl(s) for s in sp) + "]"), dict(func="spells", **info), ("spells", bool(mk.all()), not mk.any()))
        with warnings.catch_warnings():
            warnings.simplefilter("ignore")
            ext = m.calculate_spatial_extent(d=[x.copy(), time])["Spatial extent (% of area)"].values
            clu = m.calculate_spatiotemporal_clusters(d=[x.copy(), time])["Spatiotemporal cluster size"].values
        add("close_list (extent %s) %s (1#1000000000000)" % (MK, C.ql(ext)), dict(func="extent", **info), ("extent",))
        lab, k = label(inst)
        add("nlist_eqb (cluster_sizes %s %s %d) %s" % (C.bl(mk.reshape(-1)), C.nl(lab.reshape(-1)), k, C.nl(clu.astype(int))), dict(func="clusters", k=int(k), **info), ("clusters", k > 1))
        # accumulative
        with warnings.catch_warnings():
            warnings.simplefilter("ignore")
            pct = m.calculate_percent_of_total_amount_beyond_threshold(x.copy(), time=time)
            fil = m.filter_threshold_exceedances(x.copy(), time=time)
        add("qll_eqb (map (fun c => filtered (column false %s c) (column 0 %s c)) (seq 0 %d)) %s" % (MK, xs, X * Y,
            "[" + "; ".join(C.ql(flat(fil)[:, c]) for c in range(X * Y)) + "]"), dict(func="filter", **info), ("filter",))
        if np.all(X2.sum(axis=0) > 0):
            add("close_list (map (fun c => percent_of_total (column false %s c) (column 0 %s c)) (seq 0 %d)) %s (1#1000000000)" % (MK, xs, X * Y, C.ql(pct.reshape(-1))), dict(func="percent", **info), ("percent",))
    fails, errors = cc.run()
    res.components["K12 Model/Metrics.v vs evaluate/metrics.py"] = dict(cases=len(cc.cases), disagreements=len(fails), errors=len(errors))
    for e in errors[:3]:
        res.broke("correspondence-error", "K12", e)
    for i in fails[:5]:
        res.broke("correspondence", "K12 " + meta[i]["func"], meta[i])
    res.rule = ("datasets [t, x, y] of quarter-integers (many ties with the thresholds), T in {5,12,40,70} over single- and multi-year axes, all 4 threshold "
                "types x 4 scopes x 2 localities; distinct/non-trivial = distinct (function, type, scope, locality / degenerate) classes")

def search(res, tier, seed, deep=False):
    from scipy.ndimage import label
    from ibicus import utils
    from ibicus.evaluate.metrics import ThresholdMetric, AccumulativeThresholdMetric
    r = C.rng_for(seed, "c19-search")
    seen = set()
    def report(cls_, inp, obs, stmt):
        if cls_ in seen: return
        seen.add(cls_)
        res.witness(dict(component="evaluate.metrics", statement=stmt, input=inp, observed=obs, expected="C19", **{"class": cls_}))
    n = 48 if tier == "quick" else 480
    with warnings.catch_warnings():
        warnings.simplefilter("ignore")
        for i in range(n):
            T, X, Y = r.choice([30, 200, 420, 800]), r.choice([1, 2, 3]), r.choice([1, 3])
            x = dataset(r, T, X, Y)
            if i % 7 == 0: x[:] = 9.0          # all exceeding / none
            time = times(T, "20%02d-%02d-%02d" % (r.randint(1, 9), r.randint(1, 12), r.randint(1, 28)))
            # the time axis need not be chronological (stacked ensemble members, a reversed or shuffled record)
            order = ["chronological", "chronological", "reversed", "shuffled", "stacked"][i % 5]
            if order == "reversed": x, time = x[::-1].copy(), time[::-1].copy()
            elif order == "shuffled":
                pp = np.array(r.sample(range(T), T)); x, time = x[pp].copy(), time[pp].copy()
            elif order == "stacked" and T >= 60:
                h_ = T // 2; time = np.concatenate([time[:h_], time[:T - h_]])      # two members over the same period
            ty = ["higher", "lower", "between", "outside"][i % 4]
            scope = ["overall", "month", "season", "day"][(i // 4) % 4]
            loc = ["global", "local"][(i // 16) % 2]
            keys = {"overall": None, "month": range(1, 13), "season": ["Spring", "Summer", "Autumn", "Winter"], "day": range(1, 367)}[scope]
            m = metric(ty, 3.0, 7.0, scope, loc, acc=True, keys=keys, shape=(X, Y), r=r)
            inp = dict(type=ty, scope=scope, locality=loc, shape=[T, X, Y], time_order=order, seed=seed, i=i)
            lo, hi = thresholds_table(m, x, time)
            want = defining(m, x, lo, hi)
            x0 = x.copy()
            try:
                inst = m.calculate_instances_of_threshold_exceedance(x, time=time)
                res.case(("laws", ty, scope, loc, order))
                if not np.array_equal(inst.astype(bool), want):
                    report("instances:" + ty, inp, None, "instance array differs from the defining comparison")
                total = int(want.sum())
                prob = m.calculate_exceedance_probability(x, time=time)
                if not np.allclose(prob, want.mean(axis=0), atol=1e-12):
                    report("probability", inp, None, "exceedance probability is not the per-location mean of the instances")
                ann = m.calculate_number_annual_days_beyond_threshold(x, time=time)
                if int(round(ann.sum())) != total or ann.shape[0] != len(np.unique(utils.year(time))):
                    report("annual-conservation", inp, [float(ann.sum()), total], "annual counts do not sum to the number of instances")
                sp = m.calculate_spell_length(0, d=[x, time])["Spell length (days)"].values
                if int(sp.sum()) != total or np.any(sp <= 0):
                    report("spell-conservation", inp, [int(sp.sum()), total], "spell lengths (minimum length 0) do not sum to the number of instances / are not positive")
                ext = m.calculate_spatial_extent(d=[x, time])["Spatial extent (% of area)"].values
                if abs(ext.sum() * X * Y - total) > 1e-9 * max(1, total):
                    report("extent-conservation", inp, [float(ext.sum() * X * Y), total], "spatial extents times the number of cells do not sum to the number of instances")
                clu = m.calculate_spatiotemporal_clusters(d=[x, time])["Spatiotemporal cluster size"].values
                if int(round(clu.sum())) != total or np.any(clu <= 0):
                    report("cluster-conservation", inp, dict(sizes=clu[:6].tolist(), total=total), "cluster sizes must all be positive and sum to the number of instances")
                # accumulative
                fil = m.filter_threshold_exceedances(x, time=time)
                if not np.array_equal(fil, np.where(want, x0, 0.0)):
                    report("filter", inp, None, "filter_threshold_exceedances must return the values where the condition is met and zero elsewhere")
                pct = m.calculate_percent_of_total_amount_beyond_threshold(x, time=time)
                tot = x0.sum(axis=0)
                okc = tot > 0
                wantp = 100 * np.where(want, x0, 0).sum(axis=0) / np.where(okc, tot, 1)
                if np.any(pct[okc] < -1e-9) or np.any(pct[okc] > 100 + 1e-9) or not np.allclose(pct[okc], wantp[okc], atol=1e-9):
                    report("percent", inp, pct.reshape(-1)[:4].tolist(), "percentage of the total amount beyond the threshold wrong / outside [0,100]")
                av = m.calculate_annual_value_beyond_threshold(x, time=time)
                if abs(av.sum() - np.where(want, x0, 0).sum()) > 1e-9 * max(1.0, abs(x0.sum())):
                    report("annual-value", inp, None, "yearly sums beyond the threshold do not add up to the total amount beyond the threshold")
                yrs_ = utils.year(time); uy_ = np.unique(yrs_)
                want_av = np.array([np.where(want, x0, 0)[yrs_ == y_].sum(axis=0) for y_ in uy_])
                want_ann = np.array([want[yrs_ == y_].sum(axis=0) for y_ in uy_])
                if av.shape != want_av.shape or not np.allclose(av, want_av, atol=1e-9 * max(1.0, abs(x0.sum()))):
                    report("annual-value:per-year", inp, None, "the amount beyond the threshold of a year is not the sum over that year's time steps")
                if ann.shape != want_ann.shape or not np.array_equal(np.round(ann).astype(int), want_ann):
                    report("annual-count:per-year", inp, None, "the annual count of a year is not the number of that year's time steps meeting the condition")
                ii = m.calculate_intensity_index(x, time=time)
                cnt = want.sum(axis=0)
                wi = np.where(want, x0, 0).sum(axis=0) / np.where(cnt > 0, cnt, 1)
                if not np.allclose(ii[cnt > 0], wi[cnt > 0], atol=1e-9):
                    report("intensity", inp, ii.reshape(-1)[:4].tolist(), "intensity index is not the mean amount over the time steps that meet the condition")
                if not np.array_equal(x, x0):
                    report("dataset-modified", inp, None, "a metric method modified the dataset passed in")
            except Exception as e:
                report("exception:" + type(e).__name__, inp, repr(e)[:300], "a metric method raised on a well-formed dataset")
            # quantile-defined metrics: exceeded with the corresponding empirical frequency (tie-free sample)
            q = r.choice([0.1, 0.5, 0.9, 0.95]); n_s = r.choice([50, 365, 1000])
            xs = np.random.RandomState(r.randint(0, 10 ** 6)).permutation(n_s).astype(float).reshape(n_s, 1, 1) + 0.5
            try:
                for ty2, qq, freq in (("higher", q, lambda m_: 1 - q), ("lower", q, lambda m_: q), ("between", [0.2, 0.7], lambda m_: 0.5), ("outside", [0.2, 0.7], lambda m_: 0.5)):
                    mq = ThresholdMetric.from_quantile(xs, qq, ty2)
                    f = float(mq.calculate_exceedance_probability(xs)[0, 0])
                    res.case(("quantile", ty2))
                    if abs(f - freq(mq)) > 2.0 / n_s + 1e-12:
                        report("quantile-frequency:" + ty2, dict(type=ty2, q=qq, n=n_s), f, "quantile-defined metric is not exceeded with the corresponding empirical frequency")
            except Exception as e:
                report("from_quantile:" + type(e).__name__, dict(type=ty2, q=str(qq), n=n_s), repr(e)[:300], "from_quantile raised for a valid threshold type")

def replay(w):
    return True, "re-run ./check C19 (inputs are regenerated from the recorded seed)"
