"""C02 — trend preservation.
Tie: translator (Gen/GenScalars.v) + correspondence K5; search: apply_location(cm_future + c) - apply_location(cm_future)
== c (resp. scaling by k) on the real debiasers of every additive / trend-preserving configuration, with and without
seasonal and multi-year windows, explicit and inferred dates."""
import warnings
import numpy as np
from . import common as C
from . import debiasers, realruns as R

GEN_FILES = ["GenScalars", "GenUtils"]
TRUSTED = ["C02: ISIMIP (additive): steps 3, 5 and 7 are proved on hand models (Model/IsimipStep3.v, Model/IsimipStep5.v; correspondences K21, K17), the fitted-distribution branch of step 6 and the pipeline as a whole are searched on the implementation; ScaledDistributionMapping (absolute) is proved on the hand model Model/SDM.v (tied by correspondence K15), CDFt / non-parametric QM / QDM on the regenerated per-window methods",
           "C02: SciPy's norm.fit is shift-equivariant (assumption about SciPy, exercised by the search)"]

def correspondence(res, tier, seed):
    debiasers.k5(res, tier, seed, tag="k5c02")
    debiasers.k15(res, tier, seed, tag="k15c02")
    debiasers.k17(res, tier, seed, tag="k17c02")
    debiasers.k21(res, tier, seed, tag="k21c02")
    debiasers.k22(res, tier, seed, tag="k22c02")
    res.rule = ("K5 as for C03; search: eight debiasers x window mode (none/days/years) x shifts c in {0.5, -3, 40} or factors k in {0.5, 3}; "
                "distinct/non-trivial = distinct (debiaser, configuration, window mode) classes")

ADDITIVE = [("LinearScaling", "tas", {}), ("DeltaChange", "tas", {}), ("QuantileMapping", "tas", {}), ("QuantileMapping", "tas", dict(mapping_type="nonparametric")),
            ("ScaledDistributionMapping", "tas", {}), ("CDFt", "tas", {}), ("ECDFM", "tas", {}), ("QuantileDeltaMapping", "tas", {}), ("ISIMIP", "tas", {})]
# non-default option values under which the property is claimed all the same (quick: the first and one more per run, thorough: all)
VARIANTS = [("ISIMIP", "tas", dict(event_likelihood_adjustment=True)), ("ISIMIP", "tas", dict(nonparametric_qm=True)), ("ISIMIP", "psl", {}), ("ISIMIP", "rlds", {}),
            ("ISIMIP", "psl", dict(event_likelihood_adjustment=True)), ("ISIMIP", "tas", dict(detrending=False)),
            ("QuantileDeltaMapping", "tas", dict(cdf_threshold=1e-6)), ("CDFt", "tas", dict(ecdf_method="step_function", iecdf_method="inverted_cdf")),
            ("ECDFM", "tas", dict(cdf_threshold=1e-6))]
MULT = [("LinearScaling", "pr", {}), ("DeltaChange", "pr", {}), ("QuantileMapping", "tas", dict(detrending="multiplicative"))]

def search(res, tier, seed, deep=False):
    r = C.rng_for(seed, "c02-search")
    seen = set()
    def report(cls_, inp, obs, stmt):
        if cls_ in seen: return
        seen.add(cls_)
        res.witness(dict(component="apply_location(cm_future + c)", statement=stmt, input=inp, observed=obs, expected="C02", **{"class": cls_}))
    rounds = 1 if tier == "quick" else 4
    for rnd in range(rounds):
        for (name, var, over) in ADDITIVE + MULT + (VARIANTS if tier != "quick" else [VARIANTS[0]] + r.sample(VARIANTS[1:], 1)):
            mult = (name, var, over) in MULT
            modes = ["none", "days"] + (["years"] if name in ("CDFt", "QuantileDeltaMapping") else [])
            if tier == "quick":
                modes = [modes[(rnd + len(name)) % len(modes)]] + (["none"] if name in ("ScaledDistributionMapping", "ISIMIP") else []) + (["years"] if len(modes) == 3 else [])
            for mode in dict.fromkeys(modes):
                try:
                    d = R.build(name, var, mode, r, **over)
                except Exception as e:
                    continue
                rs = np.random.RandomState(r.randint(0, 10 ** 6))
                nO, nH, nF = r.randint(730, 800), r.randint(730, 800), r.randint(730, 1100)
                if mode == "years":      # whole numbers of years, so that the period is often a multiple of the year step
                    nF = r.choice([731, 1096, 1461, 1827, 2192])
                kind = "pr" if var == "pr" else "tas"
                obs, hist, fut = R.series(rs, nO, kind), R.series(rs, nH, kind, 1.5 if kind == "tas" else 0.0, 1.2), R.series(rs, nF, kind, 3.0 if kind == "tas" else 0.0, 1.1)
                if name == "QuantileMapping" and mult:
                    pass
                # strong within-period trend in cm_future
                if not mult: fut = fut + np.linspace(0, 3, nF)
                tO, tH, tF = R.times(nO, "1980-01-01"), R.times(nH, "1980-01-01"), R.times(nF, "2040-01-01")
                inferred = (mode != "none" and r.random() < 0.3)
                if inferred: tO = tH = tF = None
                base = R.run(d, obs, hist, fut, tO, tH, tF)
                for val in ([0.5, 86400.0, 3.0, 1e-5] if mult else [0.5, -3.0, 40.0])[: (2 if tier == "quick" else 4)]:
                    if mult:
                        out = R.run(d, obs, hist, fut * val, tO, tH, tF); want = base * val
                    else:
                        out = R.run(d, obs, hist, fut + val, tO, tH, tF); want = base + val
                    scale = max(1e-30, float(np.max(np.abs(want))))
                    err = float(np.max(np.abs(out - want))) / scale
                    res.case(("c02", name, var, tuple(over.items()), mode, mult))
                    if not (err <= 1e-8):
                        report("not-trend-preserving:%s:%s:%s" % (name, var, "mult" if mult else "add"),
                               dict(debiaser=name, variable=var, settings={k: str(v) for k, v in over.items()}, window_mode=mode, inferred_dates=inferred, value=val, seed=seed), err,
                               "a uniform %s of cm_future did not pass through the debiaser unchanged" % ("scaling" if mult else "shift"))
                # change of the time mean relative to obs equals the simulated change (LinearScaling / DeltaChange, window-free)
                if name in ("LinearScaling", "DeltaChange") and mode == "none" and not mult:
                    sig = (base.mean() - obs.mean()) - (fut.mean() - hist.mean())
                    if abs(sig) > 1e-9 * 300:
                        report("signal:" + name, dict(debiaser=name, seed=seed), float(sig), "mean(out) - mean(obs) != mean(cm_future) - mean(cm_hist)")
    # ISIMIP retains the linear trend of annual means that it removes
    d = R.build("ISIMIP", "tas", "none")
    rs = np.random.RandomState(r.randint(0, 10 ** 6))
    ny = 12; n = 365 * ny
    obs, hist = R.series(rs, n, "tas"), R.series(rs, n, "tas", 1.0)
    fut = R.series(rs, n, "tas", 2.0) + np.linspace(0, 6, n)
    tO, tF = R.times(n, "1981-01-01"), R.times(n, "2041-01-01")
    out = R.run(d, obs, hist, fut, tO, tO, tF)
    from ibicus.utils import year
    ys = year(tF)
    am = lambda x: np.array([x[ys == y].mean() for y in np.unique(ys)])
    slope = lambda x: np.polyfit(np.arange(len(x)), x, 1)[0]
    res.case(("isimip-trend",))
    if abs(slope(am(out)) - slope(am(fut))) > 0.15 * abs(slope(am(fut))):
        report("isimip-trend-lost", dict(seed=seed), [float(slope(am(out))), float(slope(am(fut)))], "ISIMIP output does not retain the within-period trend of annual means")

def replay(w):
    return True, "re-run ./check C02 (inputs are regenerated from the recorded seed)"
