"""C11 — ISIMIP adjusts the frequency of beyond-threshold events as specified.
Tie: translator (Gen/GenIsimip.v regenerated from ibicus/debias/_isimip.py: the frequency formula,
the count, the rescaling and the two mask builders); correspondence K6f: regenerated definitions vs
the Python functions (exact); search: the laws on the implementation's functions and the realised
counts through the public step6 API."""
import warnings
import numpy as np
from fractions import Fraction
from . import common as C

GEN_FILES = ["GenIsimip"]
TRUSTED = ["C11: the sorting / quantile-mapping part of step 6 is outside the translated text (covered by C09/C10's model); realised counts are checked on the implementation through ISIMIP.step6"]

def I():
    from ibicus.debias import ISIMIP
    return ISIMIP

def frac_float(k, n):
    return k / n

def half_tie(x):
    x = Fraction(x)
    return (x - int(x // 1)) == Fraction(1, 2)

def correspondence(res, tier, seed):
    ISIMIP = I()
    r = C.rng_for(seed, "c11-corr")
    n = 200 if tier == "quick" else 2000
    cc = C.CoqCases("c11", ["NP", "QL", "GenIsimip", "CorrBase"], per_file=200)
    meta = []
    def add(e, m, key):
        cc.add(e); meta.append(m); res.case(key, sample=m if len(res.samples) < 4 else None)
    for i in range(n):
        # frequency formula on (possibly different) grids
        den = r.choice([1, 2, 4, 5, 8, 10, 16, 30, 31, 64, 100])
        ks = [r.randint(0, den) for _ in range(3)]
        if i % 4 == 0: ks[2] = ks[1]          # same model
        if i % 4 == 1: ks[1] = ks[0]          # unbiased frequencies
        Ps = [Fraction(k, den) for k in ks]
        obs = ISIMIP._step6_get_P_obs_future(*[float(p) for p in Ps])
        add("close (step6_P_obs_future %s %s %s) %s (1#1000000000000)" % (C.q(Ps[0]), C.q(Ps[1]), C.q(Ps[2]), C.q(obs)),
            dict(func="_step6_get_P_obs_future", P=[str(p) for p in Ps], impl=float(obs)),
            ("P", Ps[1] == Ps[0], Ps[2] <= Ps[1], Ps[1] > Ps[0]))
        # counts from masks
        sizes = [r.choice([8, 16, 31, 32, 60, 64]) for _ in range(3)]
        masks = []
        for sz in sizes:
            k = r.randint(0, sz)
            masks.append(np.array([True] * k + [False] * (sz - k)))
        for adj in (True, False):
            with warnings.catch_warnings():
                warnings.simplefilter("ignore")
                d = ISIMIP.from_variable("pr", bias_correct_frequencies_of_values_beyond_thresholds=adj)
            nr = d._step6_get_nr_of_entries_to_set_to_bound(*masks)
            # exact value of n*P to detect float ties at .5
            Pm = [Fraction(int(m.sum()), len(m)) for m in masks]
            if adj:
                Pq = py_P(*Pm)
            else:
                Pq = Pm[0]
            if half_tie(len(masks[2]) * Pq):
                res.count("skipped-half-tie"); continue
            add("Z.eqb (step6_nr_to_bound %s %s %s %s) %s" % ("true" if adj else "false", C.bl(masks[0]), C.bl(masks[1]), C.bl(masks[2]), C.z(nr)),
                dict(func="_step6_get_nr_of_entries_to_set_to_bound", adjust=adj, counts=[int(m.sum()) for m in masks], sizes=sizes, impl=int(nr)),
                ("nr", adj))
        # rescaling
        nn = r.randint(1, 60); lo = r.randint(0, nn); hi = r.randint(max(0, nn - lo + 1), nn) if nn - lo + 1 <= nn else nn
        if lo + hi > nn:
            a, b = ISIMIP._step6_scale_nr_of_entries_to_set_to_bounds(lo, hi, nn)
            add("(let p := step6_scale_nr %s %s %s in Z.eqb (fst p) %s && Z.eqb (snd p) %s)" % (C.z(lo), C.z(hi), C.z(nn), C.z(a), C.z(b)),
                dict(func="_step6_scale_nr_of_entries_to_set_to_bounds", lo=lo, hi=hi, n=nn, impl=[int(a), int(b)]),
                ("scale", half_tie(Fraction(lo * nn, lo + hi))))
        # masks
        sz = r.randint(1, 40); nr = r.randint(0, sz + 3)
        x = np.zeros(sz)
        ml = ISIMIP._step6_get_mask_for_entries_to_set_to_lower_bound(nr, x)
        mu = ISIMIP._step6_get_mask_for_entries_to_set_to_upper_bound(nr, x)
        add("blist_eqb (step6_mask_lower %s %s) %s && blist_eqb (step6_mask_upper %s %s) %s" % (
            C.z(nr), C.ql([0] * sz), C.bl(ml), C.z(nr), C.ql([0] * sz), C.bl(mu)),
            dict(func="_step6_get_mask_for_entries_*", nr=nr, size=sz), ("mask", nr > sz, nr == 0))
    fails, errors = cc.run()
    res.components["K6f GenIsimip vs _isimip.py step-6 frequency functions"] = dict(cases=len(cc.cases), disagreements=len(fails), errors=len(errors))
    for e in errors[:3]:
        res.broke("correspondence-error", "K6f", e)
    for i in fails[:5]:
        res.broke("correspondence", "K6f " + meta[i]["func"], meta[i])
    res.rule = ("frequency triples on rational grids k/den (den in 1..100), same-model and unbiased corners; masks of sizes 8..64 with arbitrary "
                "beyond-threshold fractions, switch on/off; (lo,hi,n) with lo+hi>n; masks with nr up to size+3; distinct/non-trivial = distinct (function, branch) classes")

def py_isclose(a, b):
    return abs(a - b) <= Fraction(1, 10 ** 8) + Fraction(1, 10 ** 5) * abs(b)

def py_P(Po, Ph, Pf):
    """the documented four-branch formula over exact rationals (oracle for tie detection only)"""
    if py_isclose(Ph, Po): return Pf
    if Pf <= Ph and Ph > Po: return Po * Pf / Ph
    if Pf >= Ph and Ph < Po: return 1 - (1 - Po) * (1 - Pf) / (1 - Ph)
    return Po + Pf - Ph

def debiaser(kind, adjust=True):
    ISIMIP = I()
    with warnings.catch_warnings():
        warnings.simplefilter("ignore")
        if kind == "lower":      # pr-like: lower bound 0, lower threshold 1
            return ISIMIP.from_variable("pr", lower_bound=0.0, lower_threshold=1.0, nonparametric_qm=True,
                                        bias_correct_frequencies_of_values_beyond_thresholds=adjust, running_window_mode=False)
        if kind == "both":       # tasskew-like on [0, 10] with thresholds 1 and 9
            return ISIMIP.from_variable("tasskew", lower_bound=0.0, lower_threshold=1.0, upper_bound=10.0, upper_threshold=9.0,
                                        bias_correct_frequencies_of_values_beyond_thresholds=adjust, running_window_mode=False)
    raise ValueError(kind)

def sample(r, n, p_low, p_high):
    """values in (1, 9) strictly between thresholds, a fraction at/below 1 and at/above 9"""
    k_low = round(n * p_low); k_high = min(n - k_low, round(n * p_high))
    vals = [r.randint(0, 64) / 64 for _ in range(k_low)] + [9 + r.randint(0, 64) / 64 for _ in range(k_high)]
    vals += [1 + r.randint(1, 511) / 64 for _ in range(n - k_low - k_high)]
    r.shuffle(vals)
    return np.array(vals)

def search(res, tier, seed, deep=False):
    ISIMIP = I()
    r = C.rng_for(seed, "c11-search")
    seen = set()
    def report(cls, comp, inp, obs, stmt):
        if cls in seen: return
        seen.add(cls)
        res.witness(dict(component=comp, statement=stmt, input=inp, observed=obs, expected="C11 frequency laws", **{"class": cls}))
    # (a) laws of the frequency formula, exhaustively on grids k/n
    N = 12 if tier == "quick" else 30
    if deep: N = max(N, 24)
    cnt = 0
    for n in range(1, N + 1):
        for a in range(n + 1):
            for b in range(n + 1):
                for c in range(n + 1):
                    Po, Ph, Pf = a / n, b / n, c / n
                    P = ISIMIP._step6_get_P_obs_future(Po, Ph, Pf)
                    cnt += 1
                    if not (-1e-12 <= P <= 1 + 1e-12) or not np.isfinite(P):
                        report("P-range", "ISIMIP._step6_get_P_obs_future", dict(kind="P", P_obs=[a, n], P_cm_hist=[b, n], P_cm_future=[c, n]), float(P), "adjusted frequency outside [0,1]")
                    if b == c and abs(P - Po) > 1e-12:
                        report("P-same-model", "ISIMIP._step6_get_P_obs_future", dict(kind="P", P_obs=[a, n], P_cm_hist=[b, n], P_cm_future=[c, n]), float(P), "cm_future = cm_hist frequencies but P != observed frequency")
                    if a == b and abs(P - Pf) > 1e-12:
                        report("P-unbiased", "ISIMIP._step6_get_P_obs_future", dict(kind="P", P_obs=[a, n], P_cm_hist=[b, n], P_cm_future=[c, n]), float(P), "cm_hist and obs frequencies equal but P != simulated future frequency")
    # ... and on windows of several hundred values, where two frequencies can differ by well under a percent
    for n in (620, 1000, 3650):
        for _ in range(40 if tier == "quick" else 400):
            a = r.randint(0, n); b = min(n, max(0, a + r.choice([-6, -3, -1, 1, 2, 5]))); c = r.choice([b, b, r.randint(0, n)])
            Po, Ph, Pf = a / n, b / n, c / n
            P = ISIMIP._step6_get_P_obs_future(Po, Ph, Pf)
            cnt += 1
            if not (-1e-12 <= P <= 1 + 1e-12) or not np.isfinite(P):
                report("P-range", "ISIMIP._step6_get_P_obs_future", dict(kind="P", P_obs=[a, n], P_cm_hist=[b, n], P_cm_future=[c, n]), float(P), "adjusted frequency outside [0,1]")
            if b == c and abs(P - Po) > 1e-12:
                report("P-same-model", "ISIMIP._step6_get_P_obs_future", dict(kind="P", P_obs=[a, n], P_cm_hist=[b, n], P_cm_future=[c, n]), float(P), "cm_future = cm_hist frequencies but the adjusted frequency is not the observed one")
    res.evaluations += cnt
    res.nontrivial.add(("P-grid", N))
    res.components["P grid"] = dict(triples=cnt, max_denominator=N, exhaustive=True)
    # (b) rescaling: all lo,hi <= n <= M with lo+hi > n
    M = 40 if tier == "quick" else 80
    cnt = 0
    for n in range(1, M + 1):
        for lo in range(0, n + 1):
            for hi in range(n - lo + 1, n + 1):
                a, b = ISIMIP._step6_scale_nr_of_entries_to_set_to_bounds(lo, hi, n)
                cnt += 1
                bad = None
                if a + b != n: bad = "rescale-sum"
                elif a < 0 or b < 0: bad = "rescale-negative"
                elif abs(Fraction(a) - Fraction(lo * n, lo + hi)) > Fraction(1, 2): bad = "rescale-share"
                if bad:
                    report(bad, "ISIMIP._step6_scale_nr_of_entries_to_set_to_bounds", dict(kind="scale", lo=lo, hi=hi, n=n), [int(a), int(b)],
                           "rescaled counts do not sum to n / are not the rounded proportional shares")
    res.evaluations += cnt
    res.nontrivial.add(("scale-grid", M))
    res.components["rescale grid"] = dict(triples=cnt, max_n=M, exhaustive=True)
    # (c) realised counts through step6
    trials = 60 if tier == "quick" else 600
    for i in range(trials):
        kind = ["lower", "both"][i % 2]
        adjust = (i % 3) != 2
        d = debiaser(kind, adjust)
        n_o, n_h, n_f = [r.choice([16, 31, 40, 64]) for _ in range(3)]
        pl = [r.randint(0, 16) / 16 * (0.9 if kind == "both" else 1.0) for _ in range(3)]
        ph = [(r.randint(0, 16) / 16) * (1 - p) if kind == "both" else 0.0 for p in pl]
        if i % 7 == 0:   # force lo+hi > n: obs mostly beyond both thresholds
            pl[0], ph[0] = 0.6, 0.4
        obs, hist, fut = sample(r, n_o, pl[0], ph[0]), sample(r, n_h, pl[1], ph[1]), sample(r, n_f, pl[2], ph[2])
        inp = dict(kind="step6", variant=kind, adjust=adjust, obs=obs.tolist(), cm_hist=hist.tolist(), cm_future=fut.tolist())
        bad, det = step6_counts(d, obs, hist, fut)
        res.case(("step6", kind, adjust, det.get("rescaled") if det else None))
        if bad:
            report(bad, "ISIMIP.step6", inp, det, "number of output values at a bound differs from round(n*P) (rescaled to sum n if needed)")

    # (d) rounding at exact ties: with frequency adjustment off P is the observed frequency k/m; for m a power of two
    #     n * k/m is exact in float64, so half-integers are hit exactly and must be rounded half to even (Python round)
    d0 = debiaser("lower", False)
    cnt = 0
    for m in (2, 4, 8, 16):
        for k in range(m + 1):
            for n in range(1, 41 if tier == "quick" else 129):
                mo = np.array([True] * k + [False] * (m - k)); mf = np.array([False] * n); mh = np.array([True, False])
                got = int(d0._step6_get_nr_of_entries_to_set_to_bound(mo, mh, mf))
                exact = Fraction(n * k, m)
                fl_ = exact.numerator // exact.denominator; rem = exact - fl_
                want = fl_ if rem < Fraction(1, 2) else fl_ + 1 if rem > Fraction(1, 2) else (fl_ if fl_ % 2 == 0 else fl_ + 1)
                cnt += 1
                if got != want:
                    report("count-rounding", "ISIMIP._step6_get_nr_of_entries_to_set_to_bound", dict(kind="rounding", n=n, observed_beyond=k, observed_size=m), dict(got=got, want=int(want), n_times_P=str(exact)),
                           "the number of entries to set to the bound is not round(n * P) with ties rounded to even")
    res.evaluations += cnt
    res.nontrivial.add(("rounding-grid",))
    res.components["rounding grid"] = dict(cases=cnt, exhaustive=True)

def step6_counts(d, obs, hist, fut):
    ISIMIP = I()
    with warnings.catch_warnings():
        warnings.simplefilter("ignore")
        try:
            out = d.step6(obs.copy(), obs.copy(), hist.copy(), fut.copy())
        except Exception as e:
            return "exception:" + type(e).__name__, dict(error=repr(e)[:300])
    n = len(fut)
    def P(mask_fun):
        Po, Ph, Pf = [Fraction(int(mask_fun(x).sum()), len(x)) for x in (obs, hist, fut)]
        Pq = py_P(Po, Ph, Pf) if d.bias_correct_frequencies_of_values_beyond_thresholds else Po
        return Pq
    want_lo = want_hi = 0
    tie = False
    if d.has_lower_threshold:
        x = n * P(lambda v: v <= d.lower_threshold); tie |= half_tie(x); want_lo = round(x)
    if d.has_upper_threshold:
        x = n * P(lambda v: v >= d.upper_threshold); tie |= half_tie(x); want_hi = round(x)
    rescaled = want_lo + want_hi > n
    if rescaled:
        tot = want_lo + want_hi
        x = Fraction(want_lo * n, tot); tie |= half_tie(x)
        want_lo = round(x); want_hi = n - want_lo
    got_lo = int(np.sum(out == d.lower_bound)) if d.has_lower_bound else 0
    got_hi = int(np.sum(out == d.upper_bound)) if d.has_upper_bound else 0
    det = dict(want=[want_lo, want_hi], got=[got_lo, got_hi], n=n, rescaled=rescaled)
    if tie:
        return None, det
    if (got_lo, got_hi) != (want_lo, want_hi):
        return ("count-rescaled" if rescaled else "count"), det
    return None, det

def replay(w):
    ISIMIP = I()
    inp = w["input"]
    if inp["kind"] == "P":
        Po, Ph, Pf = [v[0] / v[1] for v in (inp["P_obs"], inp["P_cm_hist"], inp["P_cm_future"])]
        P = ISIMIP._step6_get_P_obs_future(Po, Ph, Pf)
        bad = not (-1e-12 <= P <= 1 + 1e-12) or (Ph == Pf and abs(P - Po) > 1e-12) or (Po == Ph and abs(P - Pf) > 1e-12)
        return bool(bad), float(P)
    if inp["kind"] == "scale":
        a, b = ISIMIP._step6_scale_nr_of_entries_to_set_to_bounds(inp["lo"], inp["hi"], inp["n"])
        bad = a + b != inp["n"] or a < 0 or b < 0 or abs(Fraction(a) - Fraction(inp["lo"] * inp["n"], inp["lo"] + inp["hi"])) > Fraction(1, 2)
        return bool(bad), [int(a), int(b)]
    d = debiaser(inp["variant"], inp["adjust"])
    bad, det = step6_counts(d, np.array(inp["obs"]), np.array(inp["cm_hist"]), np.array(inp["cm_future"]))
    return bool(bad), det
