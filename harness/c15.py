"""C15 — configuration: documented variable support and setting overrides are honoured.
Tie: Gen/GenConfig.v (tables extracted from the source each run: variable map, default /
experimental dicts actually passed by each from_variable, the published reST table, attrs
fields/validators/converters/defaults, post-init writes, whether apply re-runs post-init,
ISIMIP bound defaults) + translated ISIMIP has_* (Gen/GenIsimip.v) + hand model Model/Config.v.
Correspondence K10: real from_variable for all 8 x 14 names x case variants and Variable objects;
real constructors on a grid of valid / invalid values per field.
Search: kwargs override, attribute-vs-constructor equivalence on data, ISIMIP without bounds."""
import os, warnings, logging
import numpy as np
from . import common as C

GEN_FILES = ["GenConfig", "GenIsimip"]
TRUSTED = ["C15: attrs' generated __init__ / validator and converter dispatch is modelled (Model/Config.v: convert then validate), tied by the constructor correspondence",
           "C15: the custom validator of reasonable_physical_range is not extracted (field skipped in the constructor grid)"]

NAMES = ["hurs", "pr", "prsn", "prsnratio", "ps", "psl", "rlds", "rsds", "sfcwind", "tas", "tasmin", "tasmax", "tasrange", "tasskew"]
DEB = ["LinearScaling", "DeltaChange", "QuantileMapping", "ScaledDistributionMapping", "CDFt", "ECDFM", "QuantileDeltaMapping", "ISIMIP"]

def classes():
    import ibicus.debias as D
    return {n: getattr(D, n) for n in DEB}

def outcome(cls, variable, **kw):
    with warnings.catch_warnings(record=True) as w:
        warnings.simplefilter("always")
        try:
            d = cls.from_variable(variable, **kw)
        except ValueError:
            return "RaiseValueError", None
        except Exception as e:
            return "Other:" + type(e).__name__, None
    exp = [x for x in w if "experimental" in str(x.message)]
    return ("Warn" if exp else "Silent"), d

def variants(name):
    out = [name, name.upper(), name.capitalize()]
    if name == "sfcwind":
        out.append("sfcWind")
    return out

def py2val(v):
    import scipy.stats
    if isinstance(v, bool): return "(VBool %s)" % ("true" if v else "false")
    if isinstance(v, int): return "(VInt (%d)%%Z)" % v
    if isinstance(v, float): return "VFloat"
    if isinstance(v, str): return '(VStr "%s")' % v
    if v is None: return "VNone"
    if isinstance(v, dict): return "VDict"
    if isinstance(v, (scipy.stats.rv_continuous,)): return "VDist"
    return "VOther"

def baseline_kwargs(cls, name):
    """a valid full constructor call: from_variable('tas') settings with unit window step"""
    import attrs
    with warnings.catch_warnings():
        warnings.simplefilter("ignore")
        d = cls.from_variable("tas")
    kw = {f.name: getattr(d, f.name) for f in attrs.fields(cls)}
    kw["running_window_length"] = 31
    kw["running_window_step_length"] = 1
    if "running_window_over_years_of_cm_future_step_length" in kw:
        kw["running_window_over_years_of_cm_future_step_length"] = 1
    if name == "QuantileDeltaMapping":
        kw["cdf_threshold"] = None
    return kw

def correspondence(res, tier, seed):
    import ibicus.variables as V
    import attrs, scipy.stats
    cl = classes()
    cc = C.CoqCases("c15", ["ConfigBase", "GenConfig", "Config", "CorrBase"], per_file=300,
                    prelude="Open Scope string_scope.")
    meta = []
    def add(e, m, key):
        cc.add(e); meta.append(m); res.case(key, sample=m if len(res.samples) < 4 else None)
    # from_variable outcomes: strings (with case variants) and Variable objects
    for dn, cls in cl.items():
        for name in NAMES:
            for v in variants(name):
                o, _ = outcome(cls, v)
                add('outcome_eqb (from_variable_str %s "%s") %s' % (dn, v, o if not o.startswith("Other") else "Silent && false"),
                    dict(kind="from_variable", debiaser=dn, variable=v, impl=o), ("fv-str", dn, name, v == name))
        for oname in ["hurs", "pr", "prsn", "prsnratio", "psl", "rlds", "rsds", "sfcwind", "tas", "tasmin", "tasmax", "tasrange", "tasskew"]:
            o, _ = outcome(cls, getattr(V, oname))
            add('outcome_eqb (from_variable_obj %s "%s") %s' % (dn, oname, o if not o.startswith("Other") else "Silent && false"),
                dict(kind="from_variable(Variable)", debiaser=dn, variable=oname, impl=o), ("fv-obj", dn, oname))
        for bad in ["temperature", "", "tas ", "TASX"]:
            o, _ = outcome(cls, bad)
            add('outcome_eqb (from_variable_str %s "%s") %s' % (dn, bad, o if not o.startswith("Other") else "Silent && false"),
                dict(kind="from_variable", debiaser=dn, variable=bad, impl=o), ("fv-unknown", dn))
    # constructors: one field overridden at a time
    pool = ["abc", "additive", "multiplicative", "absolute", "relative", "parametric", "no_shift", "linear", "step_function", "mixed",
            "normal", "no_detrending", "hazen", 1, 0, -1, 5, True, False, 2.5, None, scipy.stats.norm, {}, []]
    for dn, cls in cl.items():
        base = baseline_kwargs(cls, dn)
        for f in attrs.fields(cls):
            if f.name == "reasonable_physical_range":
                continue
            for v in pool:
                kw = dict(base); kw[f.name] = v
                if f.name == "running_window_step_length" and isinstance(v, int) and not isinstance(v, bool) and v > 31:
                    continue
                if f.name.startswith("running_window_over_years") and isinstance(v, int) and v <= 0:
                    continue     # rejected by the nested RunningWindowOverYears validators (gt 0), not by this field's own
                if dn == "ISIMIP" and f.name in ("distribution", "nonparametric_qm") :
                    kw["nonparametric_qm"] = True if f.name == "distribution" else kw["nonparametric_qm"]
                    if f.name == "nonparametric_qm" and v is False and kw["distribution"] is None:
                        continue
                with warnings.catch_warnings():
                    warnings.simplefilter("ignore")
                    try:
                        cls(**kw); acc = True
                    except (TypeError, ValueError):
                        acc = False
                    except Exception as e:
                        acc = "other:" + type(e).__name__
                add('Bool.eqb (match lookup "%s" (fields %s) with Some f => field_accepts f %s | None => false end) %s' % (
                        f.name, dn, py2val(v), "true" if acc is True else "false"),
                    dict(kind="constructor", debiaser=dn, field=f.name, value=repr(v)[:40], impl=acc), ("ctor", dn, f.name, acc is True))
    fails, errors = cc.run()
    res.components["K10 Model/Config.v + GenConfig vs from_variable / constructors"] = dict(cases=len(cc.cases), disagreements=len(fails), errors=len(errors))
    for e in errors[:3]:
        res.broke("correspondence-error", "K10", e)
    for i in fails[:6]:
        res.broke("correspondence", "K10 " + meta[i]["kind"], meta[i])
    res.exhaustive = True
    res.rule = ("exhaustive: 8 debiasers x 14 variable names x (lower, UPPER, Capitalised[, sfcWind]) + 13 Variable objects + unknown names; "
                "every attrs field of every debiaser x a pool of 24 valid/invalid values (strings, ints, bools, float, None, distribution, dict, list); "
                "distinct/non-trivial = distinct (kind, debiaser, variable/field, accepted) classes")

# ------------------------------------------------------------------ search on the implementation
def data(var, n=420, seed=1):
    from ibicus.utils import create_array_of_consecutive_dates
    rs = np.random.RandomState(seed)
    if var == "pr":
        mk = lambda s: (rs.gamma(0.8, 4e-5, n) * (rs.rand(n) > 0.4)).reshape(n, 1, 1)
    else:
        mk = lambda s: (280 + s + 8 * np.sin(np.arange(n) * 2 * np.pi / 365.25) + rs.normal(0, 2, n)).reshape(n, 1, 1)
    t = lambda start: create_array_of_consecutive_dates(n, np.datetime64(start))
    return mk(0), mk(2), mk(3), dict(time_obs=t("1980-01-01"), time_cm_hist=t("1980-01-01"), time_cm_future=t("2040-03-01"))

def run_apply(d, var):
    obs, h, f, tk = data(var)
    np.random.seed(123)
    with warnings.catch_warnings():
        warnings.simplefilter("ignore")
        return d.apply(obs, h, f, progressbar=False, **tk)

ALTS = {
    "delta_type": ["additive", "multiplicative"], "delta_shift": ["additive", "multiplicative", "no_shift"], "SSR": [True, False],
    "mapping_type": None, "detrending": None, "running_window_mode": [True, False], "running_window_length": [15, 61],
    "running_window_step_length": [1, 7], "ecdf_method": ["step_function", "linear_interpolation"], "iecdf_method": ["inverted_cdf", "hazen"],
    "trend_preservation": ["absolute", "relative"], "censor_values_to_zero": [True, False], "cdf_threshold": [1e-4, 1e-3],
    "running_window_mode_over_years_of_cm_future": [True, False], "running_window_over_years_of_cm_future_length": [3, 5],
    "running_window_over_years_of_cm_future_step_length": [1, 3], "censoring_threshold": [1e-6, 1e-5],
    "pr_lower_threshold": [1e-6, 2e-6], "nonparametric_qm": [True, False], "detrending_with_significance_test": [True, False],
    "trend_preservation_method": ["additive", "multiplicative"], "bias_correct_frequencies_of_values_beyond_thresholds": [True, False],
    "trend_transfer_only_for_values_within_threshold": [True, False], "mode_non_parametric_qm": ["normal", "isimipv3.0"],
    "event_likelihood_adjustment": None, "impute_missing_values": None, "scale_by_annual_cycle_of_upper_bounds": None,
    "window_length_annual_cycle_of_upper_bounds": None, "ks_test_for_goodness_of_cdf_fit": [True, False],
    "lower_bound": None, "lower_threshold": None, "upper_bound": None, "upper_threshold": None,
    "distribution": None, "distribution_fit_kwargs": None, "variable": None, "reasonable_physical_range": None, "apply_by_month": [True, False],
}
ALTS["mapping_type"] = {"QuantileMapping": ["parametric", "nonparametric"], "ScaledDistributionMapping": None}
ALTS["detrending"] = {"QuantileMapping": ["additive", "no_detrending"], "ISIMIP": [True, False]}

def alts_for(dn, fname):
    a = ALTS.get(fname)
    if isinstance(a, dict):
        a = a.get(dn)
    return a

def search(res, tier, seed, deep=False):
    import attrs, scipy.stats
    from ibicus.debias import ISIMIP
    cl = classes()
    logging.getLogger("ibicus").setLevel(logging.CRITICAL)
    seen = set()
    def report(cls_, comp, inp, obs, stmt):
        if cls_ in seen: return
        seen.add(cls_)
        res.witness(dict(component=comp, statement=stmt, input=inp, observed=obs, expected="C15", **{"class": cls_}))
    # 1. ISIMIP built without bounds is unbounded
    with warnings.catch_warnings():
        warnings.simplefilter("ignore")
        d = ISIMIP(trend_preservation_method="additive", distribution=scipy.stats.norm, nonparametric_qm=False, detrending=False)
    flags = dict(has_lower_bound=d.has_lower_bound, has_lower_threshold=d.has_lower_threshold, has_upper_bound=d.has_upper_bound, has_upper_threshold=d.has_upper_threshold)
    res.case(("isimip-unbounded",))
    if any(flags.values()):
        report("isimip-default-bounds", "ISIMIP.__init__", dict(kind="isimip-default-bounds"), flags,
               "an ISIMIP debiaser constructed without bounds treats the variable as bounded")
    # 1b. case-insensitive names give the same settings, also together with keyword arguments
    KW = {"running_window_length": 45, "censoring_threshold": 1e-4, "delta_type": "additive", "cdf_threshold": 1e-3,
          "pr_lower_threshold": 1e-5, "SSR": False, "lower_threshold": 1e-5, "detrending": "no_detrending"}
    for dn, cls in cl.items():
        names_f = {f.name for f in attrs.fields(cls)}
        for var in ("tas", "pr"):
            for k, v in KW.items():
                if k not in names_f or (dn == "ISIMIP" and k == "detrending"):
                    continue
                try:
                    with warnings.catch_warnings():
                        warnings.simplefilter("ignore")
                        a = cls.from_variable(var, **{k: v}); b = cls.from_variable(var.upper(), **{k: v})
                    diff = [f.name for f in attrs.fields(cls) if not (getattr(a, f.name) == getattr(b, f.name))]
                except Exception as e:
                    diff = ["exception: " + repr(e)[:200]]
                res.case(("case-kwargs", dn, var, k))
                if diff:
                    report("case-insensitive-settings:" + dn, dn + ".from_variable", dict(kind="case-kwargs", debiaser=dn, variable=var, kwarg=k, value=repr(v)), dict(differing_fields=diff),
                           "upper-case variable name with a keyword argument configures the debiaser differently from the lower-case name")
    # 1bb. the published table holds for EVERY initialisation, not only the first one in a process (no once-only
    #      warnings, no caches): each (debiaser, variable) pair is initialised twice more and compared with the table
    import ast as _ast, sys as _sys
    _sys.path.insert(0, os.path.join(C.VERIF, "translator"))
    import gen_config as _gc
    _cols, _rows = _gc.parse_table(_ast.get_docstring(_ast.parse(open(os.path.join(C.REPO, "ibicus/debias/__init__.py")).read()), clean=False))
    want = {"Default": "silent", "Experimental": "warn", "Blank": "raise"}
    for label, cells in _rows.items():
        v = label
        for dn, cell in zip(_cols, cells):
            if dn not in cl: continue
            kinds = []
            for rep in range(2):
                with warnings.catch_warnings(record=True) as w:
                    warnings.simplefilter("always")
                    try:
                        cl[dn].from_variable(v); kinds.append("warn" if any("experimental" in str(x.message).lower() for x in w) else "silent")
                    except ValueError:
                        kinds.append("raise")
                    except Exception as e:
                        kinds.append("other:" + type(e).__name__)
            res.case(("from_variable-repeated", dn, cell))
            if any(k != want[cell] for k in kinds):
                report("support-table-repeated-call:" + dn, dn + ".from_variable", dict(kind="from-variable-twice", debiaser=dn, variable=v, table=cell), kinds,
                       "initialising a (debiaser, variable) pair again in the same process does not behave as the support table says")
    # 1c. two keyword arguments together: both override, whichever route from_variable takes
    PAIRS = {"running_window_length": 45, "running_window_step_length": 3, "censoring_threshold": 1e-4, "cdf_threshold": 1e-3, "delta_type": "additive",
             "pr_lower_threshold": 1e-5, "SSR": False, "running_window_mode": False, "ecdf_method": "step_function", "iecdf_method": "linear",
             "running_window_over_years_of_cm_future_length": 7, "running_window_mode_over_years_of_cm_future": False, "trend_preservation": "relative",
             "mapping_type": "nonparametric", "detrending": "no_detrending", "distribution_fit_kwargs": {"floc": 0}}
    for dn, cls in cl.items():
        names_f = [f.name for f in attrs.fields(cls) if f.name in PAIRS and not (dn == "ISIMIP" and f.name == "detrending")]
        for var in ("tas", "pr", "PR"):
            for i, k1 in enumerate(names_f):
                for k2 in names_f[i + 1:]:
                    kw = {k1: PAIRS[k1], k2: PAIRS[k2]}
                    try:
                        with warnings.catch_warnings():
                            warnings.simplefilter("ignore")
                            a = cls.from_variable(var, **kw)
                        bad = [k for k in kw if getattr(a, k) != kw[k]]
                    except Exception as e:
                        # a combination the class itself rejects is not an override failure
                        res.count("pair-rejected-by-validators"); continue
                    res.case(("kwargs-pair", dn, var.lower()))
                    if bad:
                        report("kwargs-pair-dropped:" + dn, dn + ".from_variable", dict(kind="kwargs-pair", debiaser=dn, variable=var, kwargs={k: repr(v) for k, v in kw.items()}),
                               dict(not_taken=bad, got={k: repr(getattr(a, k)) for k in bad}), "two keyword arguments given together: one of them did not override the default")
    # 1c'. None is a value too: an explicit None override (no range check; no distribution for the non-parametric mapping) wins
    #      over the variable's default exactly like any other value
    for dn, cls in cl.items():
        fields_ = {f.name for f in attrs.fields(cls)}
        tries = [dict(reasonable_physical_range=None)]
        if dn == "QuantileMapping": tries.append(dict(mapping_type="nonparametric", distribution=None))
        if dn == "ISIMIP": tries.append(dict(distribution=None, nonparametric_qm=True))
        for var in ("tas", "hurs"):
            for kw in tries:
                if not set(kw) <= fields_: continue
                try:
                    with warnings.catch_warnings():
                        warnings.simplefilter("ignore")
                        a = cls.from_variable(var, **kw)
                    bad = [k for k in kw if not (getattr(a, k) is None if kw[k] is None else getattr(a, k) == kw[k])]
                except Exception:
                    res.count("none-override-rejected-by-validators"); continue
                res.case(("kwargs-none", dn, var))
                if bad:
                    report("kwargs-none-dropped:" + dn, dn + ".from_variable", dict(kind="kwargs-none", debiaser=dn, variable=var, kwargs={k: repr(v) for k, v in kw.items()}),
                           dict(not_taken=bad, got={k: repr(getattr(a, k))[:60] for k in bad}), "an explicit None given as keyword argument did not override the variable default")
    # 1d. invalid combinations are rejected at construction whatever the unrelated switches are
    for rwm in (True, False):
        for kwargs, what in [(dict(distribution=None, nonparametric_qm=False), "ISIMIP without a distribution and without non-parametric mapping"),
                             (dict(distribution=None, nonparametric_qm=False, detrending=True), "ISIMIP without a distribution and without non-parametric mapping")]:
            try:
                with warnings.catch_warnings():
                    warnings.simplefilter("ignore")
                    ISIMIP(trend_preservation_method="additive", running_window_mode=rwm, **{"detrending": False, **kwargs})
                ok = True
            except ValueError:
                ok = False
            except Exception as e:
                ok = False
            res.case(("invalid-combo", "ISIMIP", rwm))
            if ok:
                report("invalid-accepted:ISIMIP", "ISIMIP.__init__", dict(kind="invalid-combo", running_window_mode=rwm, kwargs={k: repr(v) for k, v in kwargs.items()}), None, what + " was accepted")
        for dn, cls in cl.items():
            if dn in ("ISIMIP", "DeltaChange"): continue
            try:
                with warnings.catch_warnings():
                    warnings.simplefilter("ignore")
                    cls.from_variable("tas", running_window_mode=rwm, running_window_length=5, running_window_step_length=9)
                ok = True
            except Exception:
                ok = False
            res.case(("invalid-combo", dn, rwm))
            if ok:
                report("invalid-accepted:" + dn, dn + ".from_variable", dict(kind="invalid-combo", running_window_mode=rwm, running_window_length=5, running_window_step_length=9), None,
                       "a window step longer than the window was accepted")
    # 2. kwargs override and 3. attribute assignment == constructor argument
    variables = ["tas", "pr"]
    budget = 10 ** 9 if tier == "thorough" or deep else 60
    done = 0
    r = C.rng_for(seed, "c15-search")
    combos = []
    for dn, cls in cl.items():
        for var in variables:
            for f in attrs.fields(cls):
                a = alts_for(dn, f.name)
                if a:
                    combos.append((dn, var, f.name, a))
    if budget < len(combos):
        # quick tier: per debiaser the running_window_mode switch, one further window attribute and three sampled settings
        sel = []
        for dn in cl:
            mine = [c for c in combos if c[0] == dn]
            sel += [c for c in mine if c[2] == "running_window_mode" and c[1] == "tas"]
            win = [c for c in mine if c[2].startswith("running_window") and c[2] != "running_window_mode" and c[1] == "tas"]
            r.shuffle(win); sel += win[:1]
            rest = [c for c in mine if not c[2].startswith("running_window")]
            r.shuffle(rest); sel += rest[:3]
        combos = sel
    # a window setting raised by exactly one day (to an even value, which the constructor rounds up to the next odd one)
    combos = combos + [(dn_, "tas", fn_, [v_]) for dn_ in ("LinearScaling", "QuantileMapping", "CDFt") if dn_ in cl
                       for fn_, v_ in (("running_window_length", 32), ("running_window_step_length", 2))]
    for dn, var, fname, a in combos:
        cls = cl[dn]
        with warnings.catch_warnings():
            warnings.simplefilter("ignore")
            try:
                base = cls.from_variable(var)
            except Exception:
                continue
        cur = getattr(base, fname)
        alt = [v for v in a if v != cur]
        if not alt:
            continue
        alt = alt[0]
        extra = {}
        if dn == "ISIMIP":
            extra["running_window_step_length"] = 15
        if dn in ("CDFt", "QuantileDeltaMapping") and fname != "running_window_mode_over_years_of_cm_future":
            extra["running_window_mode_over_years_of_cm_future"] = False
        if fname in ("running_window_length", "running_window_step_length"):
            extra["running_window_mode"] = True
            extra["running_window_length"] = 31
            extra["running_window_step_length"] = 1
        if dn == "QuantileDeltaMapping":
            extra["cdf_threshold"] = extra.get("cdf_threshold", 1e-3) if fname != "cdf_threshold" else alt
        if fname.startswith("running_window_over_years"):
            extra["running_window_mode_over_years_of_cm_future"] = True
            if fname.endswith("step_length"):
                pass        # the default length (17 for CDFt and QDM) admits every step value tried; B keeps the default step
            elif fname.endswith("_length"):
                extra["running_window_over_years_of_cm_future_step_length"] = 1
        inp = dict(kind="attr-vs-ctor", debiaser=dn, variable=var, field=fname, value=repr(alt), extra={k: repr(v) for k, v in extra.items()})
        try:
            with warnings.catch_warnings():
                warnings.simplefilter("ignore")
                K = cls.from_variable(var, **{**extra, fname: alt})      # keyword override through from_variable
                B = cls.from_variable(var, **{k: v for k, v in extra.items() if k != fname})
                # "passing it at construction": the class constructor with B's settings and the new value
                A = cls(**{**{f.name: getattr(B, f.name) for f in attrs.fields(cls)}, fname: alt})
            if getattr(K, fname) != alt and not (isinstance(alt, float) and getattr(K, fname) == float(alt)):
                report("kwargs-override:" + dn, dn + ".from_variable", inp, dict(got=repr(getattr(A, fname))), "keyword argument does not override the variable default")
            # other fields keep the defaults
            for g in attrs.fields(cls):
                if g.name not in (fname, "distribution") and g.name not in extra and getattr(K, g.name) != getattr(base, g.name) and not (g.name == "cdf_threshold"):
                    report("kwargs-side-effect:" + dn, dn + ".from_variable", inp, dict(field=g.name), "overriding one setting changed another one")
            setattr(B, fname, alt)
            ya = run_apply(A, var); yb = run_apply(B, var)
            same = ya.shape == yb.shape and np.array_equal(ya, yb, equal_nan=True)
        except Exception as e:
            same, ya, yb = False, None, None
            inp["error"] = repr(e)[:300]
        done += 1
        res.case(("attr", dn, fname))
        if not same:
            report("attr-vs-ctor:" + dn, dn + ".apply", inp, dict(max_abs_diff=(float(np.nanmax(np.abs(ya - yb))) if ya is not None and yb is not None and ya.shape == yb.shape else None)),
                   "a setting changed by attribute assignment before apply does not have the effect of passing it at construction")
    res.components["search"] = dict(attr_vs_ctor_cases=done)

def replay(w):
    import scipy.stats
    from ibicus.debias import ISIMIP
    inp = w["input"]
    cl = classes()
    logging.getLogger("ibicus").setLevel(logging.CRITICAL)
    if inp["kind"] == "isimip-default-bounds":
        with warnings.catch_warnings():
            warnings.simplefilter("ignore")
            d = ISIMIP(trend_preservation_method="additive", distribution=scipy.stats.norm, nonparametric_qm=False, detrending=False)
        flags = [d.has_lower_bound, d.has_lower_threshold, d.has_upper_bound, d.has_upper_threshold]
        return any(flags), flags
    if inp["kind"] == "invalid-combo":
        try:
            with warnings.catch_warnings():
                warnings.simplefilter("ignore")
                if "kwargs" in inp:
                    ISIMIP(trend_preservation_method="additive", running_window_mode=inp["running_window_mode"], **{"detrending": False, **{k: eval(v) for k, v in inp["kwargs"].items()}})
                else:
                    cl[w["component"].split(".")[0]].from_variable("tas", running_window_mode=inp["running_window_mode"], running_window_length=5, running_window_step_length=9)
            return True, "accepted"
        except Exception as e:
            return False, repr(e)[:200]
    cls = cl[inp["debiaser"]]
    if inp["kind"] == "from-variable-twice":
        kinds = []
        for rep in range(2):
            with warnings.catch_warnings(record=True) as w_:
                warnings.simplefilter("always")
                try:
                    cls.from_variable(inp["variable"]); kinds.append("warn" if any("experimental" in str(x.message).lower() for x in w_) else "silent")
                except ValueError:
                    kinds.append("raise")
        want = {"Default": "silent", "Experimental": "warn", "Blank": "raise"}[inp["table"]]
        return any(k != want for k in kinds), kinds
    if inp["kind"] == "kwargs-pair":
        kw = {k: eval(v) for k, v in inp["kwargs"].items()}
        with warnings.catch_warnings():
            warnings.simplefilter("ignore")
            a = cls.from_variable(inp["variable"], **kw)
        bad = [k for k in kw if getattr(a, k) != kw[k]]
        return bool(bad), bad
    if inp["kind"] == "case-kwargs":
        import attrs
        with warnings.catch_warnings():
            warnings.simplefilter("ignore")
            a = cls.from_variable(inp["variable"], **{inp["kwarg"]: eval(inp["value"])}); b = cls.from_variable(inp["variable"].upper(), **{inp["kwarg"]: eval(inp["value"])})
        diff = [f.name for f in attrs.fields(cls) if not (getattr(a, f.name) == getattr(b, f.name))]
        return bool(diff), diff
    alt = eval(inp["value"]); extra = {k: eval(v) for k, v in inp["extra"].items()}
    try:
        with warnings.catch_warnings():
            warnings.simplefilter("ignore")
            import attrs
            B = cls.from_variable(inp["variable"], **{k: v for k, v in extra.items() if k != inp["field"]})
            A = cls(**{**{f.name: getattr(B, f.name) for f in attrs.fields(cls)}, inp["field"]: alt})
        setattr(B, inp["field"], alt)
        ya = run_apply(A, inp["variable"]); yb = run_apply(B, inp["variable"])
        same = np.array_equal(ya, yb, equal_nan=True)
    except Exception as e:
        return True, repr(e)[:300]
    return (not same), "outputs differ" if not same else "equal"
