"""C05 — grid application is exactly the per-location method, serial or parallel.
Tie: hand model Model/Grid.v; correspondence K8: real Debiaser.apply / DeltaChange.apply (serial and
multiprocessing.Pool with several process counts, workers sleeping so that completion order is
scrambled) on probe debiasers vs the model evaluated by vm_compute (exact, dyadic data);
search: all eight real debiasers, grid apply vs stacked apply_location, serial vs parallel."""
import warnings, logging
import numpy as np
from . import common as C
from . import gridcommon as G

GEN_FILES = []
TRUSTED = ["C05/C13: multiprocessing.Pool.starmap returns results in argument order (contract of the standard library); process start-up, pickling and the real completion order are runtime behaviour the model cannot exhibit (exercised empirically with sleeping workers)",
           "C05/C13: NumPy column reads x[:, i, j] and writes out[:, i, j] = c obey the get/set laws of the cell-major view of Model/Grid.v"]

def model_expr(kind, failsafe, T, X, Y, obs, hist, fut, parallel, sched=None):
    f = "probe_ls" if kind == "ls" else "probe_dc"
    args = "Q sentinel %s %s %d %d %d %s %s %s" % ("true" if failsafe else "false", f, T, X, Y,
                                                   G.coq_grid(G.cellmajor(obs)), G.coq_grid(G.cellmajor(hist)), G.coq_grid(G.cellmajor(fut)))
    if parallel:
        return "(apply_parallel %s %s)" % (args, C.nl(sched))
    return "(apply_serial %s)" % args

def add_case(cc, meta, res, r, kind, X, Y, failing, failsafe, parallel, nproc, sleep=True):
    To, Th, Tf = r.randint(2, 4), r.randint(2, 4), r.randint(2, 4)
    obs = G.mark_failing(G.rand_grid(r, To, X, Y), failing, r)
    hist, fut = G.rand_grid(r, Th, X, Y), G.rand_grid(r, Tf, X, Y)
    d = G.make_probe(kind, sleep=sleep and parallel)
    out, err = G.run_apply(d, obs, hist, fut, parallel=parallel, nr_processes=nproc, failsafe=failsafe)
    T = To if kind == "dc" else Tf
    sched = list(range(X * Y)); r.shuffle(sched)
    impl = "None" if out is None else "(Some %s)" % G.coq_grid(G.cellmajor(out))
    if out is not None and out.shape != (T, X, Y):
        impl = "(Some [])"
    cc.add("agree_grid %s %s" % (model_expr(kind, failsafe, T, X, Y, obs, hist, fut, parallel, sched), impl))
    m = dict(kind=kind, shape=[X, Y], T=[To, Th, Tf], failing=[list(c) for c in failing], failsafe=failsafe, parallel=parallel, nr_processes=nproc,
             impl=("exception:" + type(err).__name__) if out is None else "array")
    meta.append(m)
    res.case((kind, X == 1 or Y == 1, bool(failing), failsafe, parallel), sample=m if len(res.samples) < 4 else None)

def correspondence(res, tier, seed, with_failures=False, name="c05"):
    r = C.rng_for(seed, name + "-corr")
    cc = C.CoqCases(name, ["QL", "Grid", "GridCorr", "CorrBase"], per_file=40)
    meta = []
    shapes = [(1, 1), (1, 3), (3, 1), (2, 2), (2, 3), (3, 2)] + ([(3, 3), (1, 7), (7, 1), (4, 4)] if tier == "thorough" else [])
    n_par = 0
    for (X, Y) in shapes:
        cells = [(i, j) for i in range(X) for j in range(Y)]
        subsets = [()]
        if with_failures:
            if X * Y <= (6 if tier == "thorough" else 4):
                subsets = [tuple(c for k, c in enumerate(cells) if (m >> k) & 1) for m in range(2 ** (X * Y))]
            else:
                subsets = [(), tuple(cells), (cells[0],), (cells[-1],)] + [tuple(c for c in cells if r.random() < 0.4) for _ in range(6 if tier == "quick" else 40)]
        for failing in subsets:
            for kind in ("ls", "dc"):
                for failsafe in ((True, False) if with_failures else (False,)):
                    add_case(cc, meta, res, r, kind, X, Y, failing, failsafe, False, 1)
                    par_budget = 16 if tier == "quick" else 200
                    if n_par < par_budget and (r.random() < (0.25 if with_failures else 1.0)):
                        n_par += 1
                        add_case(cc, meta, res, r, kind, X, Y, failing, failsafe, True, r.choice([1, 2, 3, 5]))
    fails, errors = cc.run()
    res.components["K8 Model/Grid.v vs Debiaser.apply (%s)" % name] = dict(cases=len(cc.cases), parallel_cases=n_par, disagreements=len(fails), errors=len(errors))
    for e in errors[:3]:
        res.broke("correspondence-error", "K8", e)
    for i in fails[:5]:
        res.broke("correspondence", "K8", meta[i])
    res.rule = ("grids 1x1, 1xN, Nx1, 2x2, 2x3, 3x2 (thorough: up to 4x4, 1x7, 7x1) with different time lengths of obs/cm_hist/cm_future (2..4), dyadic data; "
                "Debiaser.apply and DeltaChange.apply; serial and Pool with 1,2,3,5 processes and sleeping workers; "
                + ("all 2^(x*y) subsets of failing cells for small grids, random subsets otherwise, failsafe on/off; " if with_failures else "")
                + "distinct/non-trivial = distinct (apply variant, degenerate shape, failing?, failsafe, parallel) classes")

REAL = ["LinearScaling", "DeltaChange", "QuantileMapping", "ScaledDistributionMapping", "CDFt", "ECDFM", "QuantileDeltaMapping", "ISIMIP"]

def real_debiaser(name):
    import ibicus.debias as D
    with warnings.catch_warnings():
        warnings.simplefilter("ignore")
        kw = {}
        if name == "ISIMIP":
            kw = dict(running_window_step_length=31)
        if name.endswith("-rw"):     # the day-of-year window switched on: the time arguments matter
            name = name[:-3]; kw = dict(running_window_mode=True, running_window_length=61, running_window_step_length=31)
        return getattr(D, name).from_variable("tas", **kw)

def real_data(r, X, Y, n=(400, 380, 420)):
    from ibicus.utils import create_array_of_consecutive_dates
    rs = np.random.RandomState(r.randint(0, 10 ** 6))
    mk = lambda n_, s: 280 + s + 8 * np.sin(np.arange(n_)[:, None, None] * 2 * np.pi / 365.25) + rs.normal(0, 2, (n_, X, Y)) + rs.normal(0, 1, (1, X, Y))
    t = lambda n_, start: create_array_of_consecutive_dates(n_, np.datetime64(start))
    return mk(n[0], 0), mk(n[1], 2), mk(n[2], 3), dict(time_obs=t(n[0], "1980-01-01"), time_cm_hist=t(n[1], "1980-01-01"), time_cm_future=t(n[2], "2040-02-01"))

def search(res, tier, seed, deep=False):
    logging.getLogger("ibicus").setLevel(logging.CRITICAL)
    r = C.rng_for(seed, "c05-search")
    seen = set()
    def report(cls_, inp, obs, stmt):
        if cls_ in seen: return
        seen.add(cls_)
        res.witness(dict(component="Debiaser.apply", statement=stmt, input=inp, observed=obs, expected="grid result == stacked per-location results", **{"class": cls_}))
    shapes = [(1, 3), (2, 1), (2, 2)] if tier == "quick" else [(1, 1), (1, 4), (3, 1), (2, 2), (2, 3)]
    for name in REAL + ["LinearScaling-rw", "DeltaChange-rw"]:
        d = real_debiaser(name)
        for k, (X, Y) in enumerate(shapes if tier != "quick" else shapes[(len(name)) % 3:][:1] + [(2, 2)]):
            obs, hist, fut, tk = real_data(r, X, Y)
            np.random.seed(7)
            out, err = G.run_apply(d, obs, hist, fut, **tk)
            inp = dict(debiaser=name, shape=[X, Y], seed=seed)
            res.case(("real", name, X == 1 or Y == 1))
            if out is None:
                report("exception:" + name, inp, repr(err)[:300], "apply raised on valid input"); continue
            want_shape = (obs.shape if name.startswith("DeltaChange") else fut.shape)
            if out.shape != want_shape or not np.issubdtype(out.dtype, np.floating):
                report("shape:" + name, inp, [list(out.shape), str(out.dtype)], "output shape/dtype is not that of cm_future (obs for DeltaChange)")
                continue
            for i in range(X):
                for j in range(Y):
                    np.random.seed(7)
                    with warnings.catch_warnings():
                        warnings.simplefilter("ignore")
                        col = d.apply_location(obs[:, i, j], hist[:, i, j], fut[:, i, j], **tk)
                    if not np.array_equal(out[:, i, j], col, equal_nan=True):
                        report("cell:" + name, dict(inp, cell=[i, j]), float(np.nanmax(np.abs(out[:, i, j] - col))),
                               "column of the grid result differs from apply_location on that cell's series")
            if k == 0 or tier != "quick":
                nproc = r.choice([1, 2, 3])
                outp, errp = G.run_apply(d, obs, hist, fut, parallel=True, nr_processes=nproc, **tk)
                res.case(("real-parallel", name, nproc))
                if outp is None or not np.array_equal(outp, out, equal_nan=True):
                    report("parallel:" + name, dict(inp, nr_processes=nproc), repr(errp)[:200] if outp is None else float(np.nanmax(np.abs(outp - out))),
                           "parallel run differs from the serial run")

    # memory layout: the same numbers as Fortran-ordered arrays, as a transposed [y, x, time] view, as a strided slice of a
    # larger array — the grid result does not depend on how the arrays are laid out in memory
    for name in (["LinearScaling", "QuantileMapping"] if tier == "quick" else ["LinearScaling", "QuantileMapping", "DeltaChange", "CDFt"]):
        d = real_debiaser(name)
        obs, hist, fut, tk = real_data(r, 2, 3)
        np.random.seed(7)
        ref, err = G.run_apply(d, obs, hist, fut, **tk)
        if ref is None: continue
        def fortran(a): return np.asfortranarray(a)
        def transposed(a): return np.ascontiguousarray(a.T).T              # C-contiguous as [y, x, time], viewed as [time, x, y]
        def strided(a):
            big = np.full((a.shape[0], a.shape[1] * 2, a.shape[2] * 2), -999.0); big[:, ::2, ::2] = a; return big[:, ::2, ::2]
        for lay_name, lay in (("fortran", fortran), ("transposed-view", transposed), ("strided-view", strided)):
            for par in ((False, True) if tier != "quick" or lay_name == "fortran" else (False,)):
                np.random.seed(7)
                out, err = G.run_apply(d, lay(obs), lay(hist), lay(fut), parallel=par, nr_processes=2, **tk)
                res.case(("layout", name, lay_name, par))
                if out is None or out.shape != ref.shape or not np.array_equal(out, ref, equal_nan=True):
                    report("layout:%s:%s" % (lay_name, "parallel" if par else "serial"), dict(debiaser=name, layout=lay_name, parallel=par, shape=list(fut.shape), seed=seed),
                           repr(err)[:200] if out is None else dict(valid=int(np.isfinite(out).sum()), expected_valid=int(np.isfinite(ref).sum())),
                           "the grid result depends on the memory layout of the input arrays")
    # missing values at particular positions of single cells (the first time step, the last one, somewhere inside): the grid
    # result is still the per-location result, cell by cell (debiasers that tolerate NaN: ISIMIP imputes, the mean-based ones
    # propagate it), in serial and in parallel
    for name in ["ISIMIP", "LinearScaling", "DeltaChange"]:
        d = real_debiaser(name)
        obs, hist, fut, tk = real_data(r, 2, 2)
        obs, hist, fut = obs.copy(), hist.copy(), fut.copy()
        where = {}
        for (i, j), pos in zip([(0, 0), (0, 1), (1, 0)], [0, -1, r.randrange(1, fut.shape[0] - 1)]):
            arr_name = r.choice(["obs", "cm_future"]); {"obs": obs, "cm_future": fut}[arr_name][pos, i, j] = np.nan
            where["%d,%d" % (i, j)] = [arr_name, pos]
        cols = {}
        try:
            for i in range(2):
                for j in range(2):
                    np.random.seed(7)
                    with warnings.catch_warnings():
                        warnings.simplefilter("ignore")
                        cols[(i, j)] = d.apply_location(obs[:, i, j], hist[:, i, j], fut[:, i, j], **tk)
        except Exception:
            continue          # this configuration rejects missing values: nothing to compare
        inp = dict(debiaser=name, missing_values=where, seed=seed)
        for par in (False, True):
            np.random.seed(7)
            out, err = G.run_apply(d, obs, hist, fut, parallel=par, nr_processes=2, **tk)
            res.case(("missing-values", name, par))
            if out is None:
                report("missing-values-exception:" + name, dict(inp, parallel=par), repr(err)[:300], "apply raised although apply_location handles every cell"); continue
            for (i, j), col in cols.items():
                if not np.array_equal(out[:, i, j], col, equal_nan=True):
                    report("missing-values-cell:" + name, dict(inp, parallel=par, cell=[i, j]), dict(valid_in_grid=int(np.isfinite(out[:, i, j]).sum()), valid_per_location=int(np.isfinite(col).sum())),
                           "with a missing value in a cell's series the grid result differs from apply_location on that series"); break

    # integer inputs: the result is floating and equals the per-location result on the converted series
    for name in ["LinearScaling", "QuantileMapping", "DeltaChange"]:
        d = real_debiaser(name)
        obs, hist, fut, tk = real_data(r, 2, 2)
        for which in (["obs", "cm_hist", "cm_future", "all"] if tier != "quick" else [r.choice(["obs", "cm_hist", "cm_future"]), "all"]):
            args = dict(obs=obs, cm_hist=hist, cm_future=fut)
            conv = {k: (np.round(v).astype(np.int64) if which in (k, "all") else v) for k, v in args.items()}
            np.random.seed(7)
            out, err = G.run_apply(d, conv["obs"], conv["cm_hist"], conv["cm_future"], **tk)
            inp = dict(debiaser=name, integer_argument=which, seed=seed)
            res.case(("int-input", name, which))
            if out is None:
                report("int-exception:" + name, inp, repr(err)[:300], "apply raised on integer input"); continue
            if not np.issubdtype(out.dtype, np.floating):
                report("int-dtype:" + which, inp, str(out.dtype), "apply on integer input did not return a floating array"); continue
            fl = {k: v.astype(float) for k, v in conv.items()}
            for (i, j) in [(0, 0), (1, 1)]:
                np.random.seed(7)
                with warnings.catch_warnings():
                    warnings.simplefilter("ignore")
                    col = d.apply_location(fl["obs"][:, i, j], fl["cm_hist"][:, i, j], fl["cm_future"][:, i, j], **tk)
                if not np.array_equal(out[:, i, j], col, equal_nan=True):
                    report("int-cell:" + which, dict(inp, cell=[i, j]), float(np.nanmax(np.abs(out[:, i, j] - col))),
                           "grid result on integer input differs from apply_location on the float-converted series")

def replay(w):
    return True, "re-run ./check %s (inputs are regenerated from the recorded seed)" % w.get("property")
