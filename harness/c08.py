"""C08 — seasonal locality.
Tie: translator (GenWindows) + hand driver Model/Driver.v validated by correspondence K3 against the real
apply_location loops; search: for all eight real debiasers in running-window mode, inputs outside the
L//2 + S//2 neighbourhood (circular over the year) of a target day are perturbed (large values, NaN) and the
outputs on that day must be bit-identical; a perturbation at distance <= L//2 of the centre must be felt."""
import datetime, warnings, logging
import numpy as np
from . import common as C
from . import drivers

GEN_FILES = ["GenWindows"]
TRUSTED = ["C08: ISIMIP step 1/8 (rsds annual cycle of upper bounds) is global by design and excluded (not a deterministic configuration)",
           "C08: hand model Model/Driver.v of the scatter loop, tied by correspondence K3"]

def correspondence(res, tier, seed):
    from . import c07
    c07.k19(res, tier, seed, tag="k19c08")      # the calendar the neighbourhoods are counted in
    drivers.k3(res, tier, seed, tag="k3c08", n_quick=30, n_thorough=300)
    res.rule = ("K3: probe window methods through the real loops of RunningWindowDebiaser, DeltaChange, ISIMIP (window mode) and CDFt's year loop, "
                "series of 1..1200 days with arbitrary start dates, (L,S) in {1..31} incl. even values; search: real debiasers, leap and non-leap spans; "
                "distinct/non-trivial = distinct (driver kind / debiaser, multi-year, L==S) classes")

def circ(a, b):
    return min((a - b) % 366, (b - a) % 366)

REAL = ["LinearScaling", "DeltaChange", "QuantileMapping", "ScaledDistributionMapping", "CDFt", "ECDFM", "QuantileDeltaMapping", "ISIMIP"]

def own_day_of_year(t):
    """day of the year from the calendar itself (not from the library's helper, which is part of what is checked)"""
    t = np.asarray(t)
    if np.issubdtype(t.dtype, np.datetime64):
        t = t.astype("datetime64[D]").astype(object)
    return np.array([x.timetuple().tm_yday for x in t])

def build(name, L, S, var="tas"):
    import ibicus.debias as D, scipy.stats
    kw = dict(running_window_mode=True, running_window_length=L, running_window_step_length=S)
    if name == "ECDFM" and var == "tas": kw["distribution"] = scipy.stats.norm
    if name == "QuantileDeltaMapping": kw.update(running_window_over_years_of_cm_future_length=3, running_window_over_years_of_cm_future_step_length=1, cdf_threshold=1e-3)
    if name == "CDFt": kw.update(running_window_over_years_of_cm_future_length=3, running_window_over_years_of_cm_future_step_length=1)
    with warnings.catch_warnings():
        warnings.simplefilter("ignore")
        return getattr(D, name).from_variable(var, **kw)

def search(res, tier, seed, deep=False):
    logging.getLogger("ibicus").setLevel(logging.CRITICAL)
    from ibicus.utils import create_array_of_consecutive_dates, day_of_year
    r = C.rng_for(seed, "c08-search")
    seen = set()
    def report(cls_, inp, obs, stmt):
        if cls_ in seen: return
        seen.add(cls_)
        res.witness(dict(component="apply_location (running window)", statement=stmt, input=inp, observed=obs, expected="C08", **{"class": cls_}))
    rounds = 1 if tier == "quick" else 6
    for rnd in range(rounds):
        # precipitation configurations whose fits are iterative (censored gamma, hurdle): each window's fit is its own
        extra = [("QuantileDeltaMapping", "pr"), ("QuantileMapping", "pr")]
        # windows nearly as long as the year: only the days at the far side of the year are outside the neighbourhood
        long_w = [(n_, "tas", L_) for n_ in ("DeltaChange", "LinearScaling") for L_ in (365, 363)]
        if tier == "quick": extra = [extra[0]]; long_w = [long_w[0], long_w[1 + (seed + rnd) % 3]]
        for name, var, Lfix in [(n_, "tas", None) for n_ in REAL] + [(n_, v_, None) for n_, v_ in extra] + long_w:
            L = r.choice([5, 9, 15, 31]); S = r.choice([s for s in (1, 3, 5, 9, 15) if s <= L])
            if Lfix: L, S = Lfix, 1
            if name == "ISIMIP" and S < 5: S = 5 if L >= 5 else L
            d = build(name, L, S, var)
            Lo, So = d.running_window_length, d.running_window_step_length
            Lo += (Lo % 2 == 0); So += (So % 2 == 0)
            nO, nH, nF = r.randint(740, 800), r.randint(740, 800), r.randint(500, 780)
            trend = 0.0
            if name == "ISIMIP":
                # several years with a clear trend, so that the detrending step (trend of the annual means, applied
                # when significant) is active: it must use the window's values only
                nF = r.randint(1830, 2200); trend = r.choice([0.6, 1.0]) / 365.25
            # (century years: 1900 and 2100 are not leap years)
            starts = [datetime.date(r.choice([1979, 1980, 1899, 1900]), r.randint(1, 12), r.randint(1, 28)) for _ in range(2)] + [datetime.date(r.choice([2039, 2040, 2099, 2100]), r.randint(1, 12), r.randint(1, 28))]
            if r.random() < 0.35:
                # look-alike reference periods: equal length, same first calendar day, different years (one starts in a leap year)
                nH = nO; starts[1] = datetime.date(starts[0].year + r.choice([1, 2]), starts[0].month, starts[0].day)
            tO, tH, tF = [create_array_of_consecutive_dates(n, np.datetime64(s)) for n, s in zip((nO, nH, nF), starts)]
            rep = r.choice(["object", "object", "datetime64[D]", "datetime64[s]", "datetime64[ns]"])      # time axes as numpy datetime64, too
            if rep != "object": tO, tH, tF = [np.array(t, dtype="datetime64[D]").astype(rep) for t in (tO, tH, tF)]
            rs = np.random.RandomState(r.randint(0, 10 ** 6))
            mk = lambda n, s: 280 + s + 8 * np.sin(np.arange(n) * 2 * np.pi / 365.25) + rs.normal(0, 2, n)
            if var == "pr":
                mk = lambda n, s: np.where(rs.rand(n) < 0.3, 0.0, rs.gamma(0.8, 6e-5 * (1 + 0.2 * s), n) + 2e-6)
            obs, hist, fut = mk(nO, 0), mk(nH, 2), mk(nF, 3) + trend * np.arange(nF)
            dO, dH, dF = own_day_of_year(tO), own_day_of_year(tH), own_day_of_year(tF)
            tk = dict(time_obs=tO, time_cm_hist=tH, time_cm_future=tF)
            dA = dO if name == "DeltaChange" else dF
            target = int(r.choice(list(dA)))
            reach = Lo // 2 + So // 2
            far = lambda days: np.array([circ(int(x), target) > reach for x in days])
            with warnings.catch_warnings():
                warnings.simplefilter("ignore")
                np.random.seed(3); base = d.apply_location(obs, hist, fut, **tk)
                o2, h2, f2 = obs.copy(), hist.copy(), fut.copy()
                for arr, days in ((o2, dO), (h2, dH), (f2, dF)):
                    m = far(days)
                    if var == "pr": arr[m] = arr[m] * rs.choice([0.0, 3.0, 50.0], m.sum()) + rs.choice([0.0, 1e-4], m.sum())
                    else: arr[m] = arr[m] * rs.choice([1.0, -3.0, 50.0], m.sum()) + rs.normal(0, 100, m.sum())
                try:
                    np.random.seed(3); pert = d.apply_location(o2, h2, f2, **tk)
                except Exception:
                    # the perturbed far-away data are arbitrary; a window there on which a distribution fit gives up is
                    # not a statement about the target day: no comparison possible, counted
                    res.count("perturbed-run-raised:" + name); continue
            idx = np.where(np.asarray(dA) == target)[0]
            inp = dict(debiaser=name, variable=var, L=L, S=S, target_day=target, starts=[str(s) for s in starts], n=[nO, nH, nF], time_dtype=rep, seed=seed)
            res.case(("locality", name, var, Lo == So, rep, L >= 363))
            if not np.array_equal(base[idx], pert[idx], equal_nan=True):
                report("nonlocal:" + name, inp, float(np.nanmax(np.abs(base[idx] - pert[idx]))),
                       "changing inputs outside the L//2 + S//2 neighbourhood of a day changed the debiased value on that day")
            if not np.all(np.isfinite(base)):
                report("nonfinite:" + name, inp, int(np.sum(~np.isfinite(base))), "window-mode output not finite for finite well-formed input")
        # tightness (LinearScaling): an obs value exactly L//2 days from the target's centre is used
        L, S = 15, 1
        d = build("LinearScaling", L, S)
        n = 365
        t = create_array_of_consecutive_dates(n, np.datetime64("2001-01-01"))
        obs = 280 + np.arange(n) % 7.0; hist = obs + 1; fut = obs + 2
        with warnings.catch_warnings():
            warnings.simplefilter("ignore")
            base = d.apply_location(obs, hist, fut, time_obs=t, time_cm_hist=t, time_cm_future=t)
            o2 = obs.copy(); o2[100 + L // 2] += 50
            near = d.apply_location(o2, hist, fut, time_obs=t, time_cm_hist=t, time_cm_future=t)
            o3 = obs.copy(); o3[100 + L // 2 + 1] += 50
            out = d.apply_location(o3, hist, fut, time_obs=t, time_cm_hist=t, time_cm_future=t)
        # ... and across the turn of a leap year: centre 3 January, L = 15 reaches back to 27 December (day 362 of 366)
        n2 = 366 + 365
        t2 = create_array_of_consecutive_dates(n2, np.datetime64("2000-01-01"))
        ob2 = 280 + np.arange(n2) % 7.0; hi2 = ob2 + 1; fu2 = ob2 + 2
        with warnings.catch_warnings():
            warnings.simplefilter("ignore")
            b2 = d.apply_location(ob2, hi2, fu2, time_obs=t2, time_cm_hist=t2, time_cm_future=t2)
            oa = ob2.copy(); oa[361] += 50          # 27 December 2000: 7 days before 3 January
            na = d.apply_location(oa, hi2, fu2, time_obs=t2, time_cm_hist=t2, time_cm_future=t2)
            ob = ob2.copy(); ob[360] += 50          # 26 December 2000: 8 days before
            nb = d.apply_location(ob, hi2, fu2, time_obs=t2, time_cm_hist=t2, time_cm_future=t2)
        res.case(("tightness-year-turn",))
        if na[2] == b2[2] or nb[2] != b2[2]:
            report("window-reach-year-turn", dict(L=L, S=S, centre="3 January", leap_year=2000), dict(at_half=float(na[2] - b2[2]), beyond=float(nb[2] - b2[2])),
                   "across the turn of a leap year the window must use data up to L//2 days from its centre (counting day 366) and none beyond")
        res.case(("tightness",))
        if near[100] == base[100] or out[100] != base[100]:
            report("window-reach", dict(L=L, S=S), dict(at_half=float(near[100] - base[100]), beyond=float(out[100] - base[100])),
                   "the window must use data up to L//2 days from its centre and none beyond")

def replay(w):
    return True, "re-run ./check C08 (inputs are regenerated from the recorded seed)"
